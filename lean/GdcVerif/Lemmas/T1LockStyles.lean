import GdcVerif.Lemmas.T1Lock
/-!
  The T1 block round trip for the code-block styles built from RESET, VSC (not read by the code) and SEGSYM:
  the style-0 lock-step of `Lemmas/T1Lock.lean` plus the segmentation symbol after every cleanup pass and the
  context reset after every pass.
-/
namespace T1
open Gen

/-- the coder relation does not look at the context states beyond their equality -/
structure CoderCtx (F : Mqc.Enc → Prop) (R : Mqc.Enc → Mqc.Dec → Prop) : Prop where
  fctx : ∀ (e : Mqc.Enc) (c : Array Nat), F { e with ctx := c } → F e
  rsize : ∀ (e : Mqc.Enc) (d : Mqc.Dec), R e d → d.ctx.size = e.ctx.size
  rctx : ∀ (e : Mqc.Enc) (d : Mqc.Dec) (c : Array Nat), R e d → R { e with ctx := c } { d with ctx := c }

theorem coderCtx_mq (B : Nat → Nat) (last len : Nat) : CoderCtx (Mqc.FE B last) (Mqc.Rel B last len) :=
  ⟨fun _ _ hF => hF, fun _ _ hr => by rw [hr.ctx],
   fun _ _ _ hr => ⟨hr.a, rfl, hr.size, hr.data, hr.bple, hr.eos, hr.ctlo, hr.cthi, hr.ahead, hr.wdeq, hr.eq⟩⟩

section Lock
variable (w h : Nat) (V : Array Int) (F : Mqc.Enc → Prop) (R : Mqc.Enc → Mqc.Dec → Prop)
  (hC : Coder F R) (hX : CoderCtx F R)
include hC

/-- `SegmarkEnc()` against the four discarded `CTXUNI` decisions of the decoder -/
theorem seg_lock (bp : Nat) (es : EncSt) (hs : EncOk w h V es) :
    ∃ m, Mqc.segmarkEnc es.mq = some m ∧ EncOk w h V { es with mq := m } ∧
      (F m → F es.mq) ∧
      (F m → ∀ (ds : DecSt) (lev : Nat → Nat), LS w h V R bp lev es ds →
        ∃ d, segmarkDec ds.mq = some d ∧ LS w h V R bp lev { es with mq := m } { ds with mq := d }) := by
  obtain ⟨m1, e1, h1, b1, l1⟩ := mqonly_lock w h V F R hC bp es hs 1 18 (by decide) (by decide)
  obtain ⟨m2, e2, h2, b2, l2⟩ := mqonly_lock w h V F R hC bp { es with mq := m1 } h1 0 18 (by decide) (by decide)
  obtain ⟨m3, e3, h3, b3, l3⟩ := mqonly_lock w h V F R hC bp { es with mq := m2 } h2 1 18 (by decide) (by decide)
  obtain ⟨m4, e4, h4, b4, l4⟩ := mqonly_lock w h V F R hC bp { es with mq := m3 } h3 0 18 (by decide) (by decide)
  refine ⟨m4, ?_, h4, fun hF => b1 (b2 (b3 (b4 hF))), ?_⟩
  · unfold Mqc.segmarkEnc
    simp only [Option.bind_eq_bind]
    rw [e1]; simp only [Option.bind_some]
    rw [e2]; simp only [Option.bind_some]
    rw [e3]; simp only [Option.bind_some]
    exact e4
  · intro hF ds lev hL
    have hF3 := b4 hF
    have hF2 := b3 hF3
    have hF1 := b2 hF2
    obtain ⟨d1, hd1, hL1⟩ := l1 hF1 ds lev hL
    obtain ⟨d2, hd2, hL2⟩ := l2 hF2 _ lev hL1
    obtain ⟨d3, hd3, hL3⟩ := l3 hF3 _ lev hL2
    obtain ⟨d4, hd4, hL4⟩ := l4 hF _ lev hL3
    refine ⟨d4, ?_, hL4⟩
    unfold segmarkDec
    simp only [Option.bind_eq_bind]
    have hd1' : Mqc.decode ds.mq CTXUNI = some (1, d1) := hd1
    have hd2' : Mqc.decode d1 CTXUNI = some (0, d2) := hd2
    have hd3' : Mqc.decode d2 CTXUNI = some (1, d3) := hd3
    have hd4' : Mqc.decode d3 CTXUNI = some (0, d4) := hd4
    rw [hd1']; simp only [Option.bind_some]
    rw [hd2']; simp only [Option.bind_some]
    rw [hd3']; simp only [Option.bind_some]
    rw [hd4']; simp only [Option.bind_some]

omit hC in
include hX in
/-- `ResetContexts()` + the three `SetContextState` calls on both sides -/
theorem reset_lock (bp : Nat) (es : EncSt) (hs : EncOk w h V es) :
    ∃ m, initCtx (Mqc.resetContexts es.mq) = some m ∧ EncOk w h V { es with mq := m } ∧
      (F m → F es.mq) ∧
      (∀ (ds : DecSt) (lev : Nat → Nat), LS w h V R bp lev es ds →
        ∃ d, resetCtxDec ds.mq = some d ∧ LS w h V R bp lev { es with mq := m } { ds with mq := d }) := by
  obtain ⟨m, em, hm⟩ := resetInit_ok w h V es hs
  have hsz : (Mqc.resetContexts es.mq).ctx.size = 19 := by
    unfold Mqc.resetContexts; simp only [Array.size_replicate]; exact hs.nctx
  have hm' := initCtx_eq (Mqc.resetContexts es.mq) hsz
  have hmm : m = { Mqc.resetContexts es.mq with ctx := ctx3 (Mqc.resetContexts es.mq).ctx } :=
    Option.some.inj (em.symm.trans hm')
  refine ⟨m, em, hm, ?_, ?_⟩
  · intro hF; rw [hmm] at hF
    exact hX.fctx es.mq _ hF
  · intro ds lev hL
    have hdsz : ({ ds.mq with ctx := Array.replicate ds.mq.ctx.size 0 } : Mqc.Dec).ctx.size = 19 := by
      show (Array.replicate ds.mq.ctx.size 0).size = 19
      rw [Array.size_replicate, hX.rsize _ _ hL.rel]; exact hs.nctx
    refine ⟨{ ds.mq with ctx := ctx3 (Array.replicate ds.mq.ctx.size 0) },
      by unfold resetCtxDec; rw [initCtxDec_eq _ hdsz], hL.fl, hL.dsz, ?_, hL.smp⟩
    rw [hmm]
    have hr := hX.rctx _ _ (ctx3 (Array.replicate es.mq.ctx.size 0)) hL.rel
    rw [← hX.rsize _ _ hL.rel] at hr
    rw [hX.rsize _ _ hL.rel]
    rw [hX.rsize _ _ hL.rel] at hr
    exact hr
end Lock

/-- `clearVisit` at the start of a bit-plane -/
def cvE (pi pt : Nat) (st : EncSt) : EncSt :=
  if pt = 0 ∨ (pt = 2 ∧ pi = 0) then { st with flags := clearVisit st.flags } else st
def cvD (pi pt : Nat) (st : DecSt) : DecSt :=
  if pt = 0 ∨ (pt = 2 ∧ pi = 0) then { st with flags := clearVisit st.flags } else st

def passE (w h orient : Nat) (V : Array Int) (bp pt : Nat) (st : EncSt) : Option EncSt :=
  match pt with
  | 0 => encSigProp w h orient bp V st
  | 1 => encMagRef w h bp V st
  | _ => encCleanup w h orient bp V st
def passD (w h orient : Nat) (bp pt : Nat) (st : DecSt) : Option DecSt :=
  match pt with
  | 0 => decSigProp w h orient bp st
  | 1 => decMagRef w h bp st
  | _ => decCleanup w h orient bp st

/-- what a pass of type `pt` establishes -/
def Post (w h : Nat) (V : Array Int) (R : Mqc.Enc → Mqc.Dec → Prop) (bp pt : Nat) (es : EncSt) (ds : DecSt) : Prop :=
  ∃ lev, LS w h V R bp lev es ds ∧
    (pt = 0 → VisLev w h bp lev es.flags ∧ SigOld w h bp lev es.flags) ∧
    (pt = 1 → VisLev w h bp lev es.flags ∧ SigDone w h bp lev es.flags) ∧
    (pt = 2 → ∀ j, InB w h j → lev j = bp)

section Lock
variable (w h : Nat) (V : Array Int) (F : Mqc.Enc → Prop) (R : Mqc.Enc → Mqc.Dec → Prop)
  (hC : Coder F R) (hX : CoderCtx F R) (hV : ∀ j, (gi V j).natAbs < 2147483648)
include hC hX hV

/-- one coding pass (with the `clearVisit` in front of it) on both sides -/
theorem step_lock (orient bp pi pt : Nat) (hpt : pt ≤ 2) (es : EncSt) (hs : EncOk w h V es) :
    ∃ es2, passE w h orient V bp pt (cvE pi pt es) = some es2 ∧ EncOk w h V es2 ∧
      (F es2.mq → F es.mq) ∧
      (F es2.mq → ∀ (ds : DecSt), PInv w h V R bp pi pt es ds →
        ∃ ds2, passD w h orient bp pt (cvD pi pt ds) = some ds2 ∧ Post w h V R bp pt es2 ds2) := by
  have hvis0 : ∀ (lev : Nat → Nat) (fl : Array Nat), VisLev w h bp lev (clearVisit fl) := by
    intro lev fl j _ hv; rw [(clearVisit_eff fl).2] at hv; exact absurd hv (by simp)
  have hs1 : EncOk w h V { es with flags := clearVisit es.flags } :=
    ⟨by show (clearVisit es.flags).size = _; unfold clearVisit; rw [Array.size_map]; exact hs.fsz, hs.dsz, hs.reg, hs.norm, hs.nctx⟩
  rcases (show pt = 0 ∨ pt = 1 ∨ pt = 2 by omega) with rfl | rfl | rfl
  · obtain ⟨es2, he2, hok2, hback2, hlock2⟩ := spp_lock w h V F R hC hV orient bp _ hs1
    refine ⟨es2, by unfold passE cvE; simp only [true_or, if_true]; exact he2, hok2, hback2, ?_⟩
    intro hF ds ⟨lev, hL, h0, _, _⟩
    obtain ⟨ds2, hd2, lev2, hL2, hv2, hso2⟩ := hlock2 hF _ ⟨lev, hL.clearVisit, hvis0 lev _, by
      intro j hj _ _; exact h0 rfl j hj⟩
    exact ⟨ds2, by unfold passD cvD; simp only [true_or, if_true]; exact hd2, lev2, hL2, fun _ => ⟨hv2, hso2⟩,
      fun hh => absurd hh (by decide), fun hh => absurd hh (by decide)⟩
  · obtain ⟨es2, he2, hok2, hback2, hlock2⟩ := mrp_lock w h V F R hC hV bp es hs
    refine ⟨es2, by unfold passE cvE; rw [if_neg (by omega)]; exact he2, hok2, hback2, ?_⟩
    intro hF ds ⟨lev, hL, _, h1, _⟩
    obtain ⟨ds2, hd2, lev2, hL2, hv2, hsd2⟩ := hlock2 hF ds ⟨lev, hL, (h1 rfl).1, (h1 rfl).2⟩
    exact ⟨ds2, by unfold passD cvD; rw [if_neg (by omega)]; exact hd2, lev2, hL2, fun hh => absurd hh (by decide),
      fun _ => ⟨hv2, hsd2⟩, fun hh => absurd hh (by decide)⟩
  · by_cases hpi : pi = 0
    · obtain ⟨es2, he2, hok2, hback2, hlock2⟩ := cleanup_lock w h V F R hC hV orient bp _ hs1
      refine ⟨es2, by unfold passE cvE; rw [if_pos (Or.inr ⟨rfl, hpi⟩)]; exact he2, hok2, hback2, ?_⟩
      intro hF ds ⟨lev, hL, _, _, h2⟩
      obtain ⟨ds2, hd2, lev2, hL2, hall2⟩ := hlock2 hF _ ⟨lev, hL.clearVisit, hvis0 lev _, by
        intro j hj hsj
        rw [(clearVisit_eff es.flags).1] at hsj
        rw [((h2 rfl).1 hpi).2 j hj] at hsj
        exact absurd hsj (by simp)⟩
      exact ⟨ds2, by unfold passD cvD; rw [if_pos (Or.inr ⟨rfl, hpi⟩)]; exact hd2, lev2, hL2,
        fun hh => absurd hh (by decide), fun hh => absurd hh (by decide), fun _ => hall2⟩
    · obtain ⟨es2, he2, hok2, hback2, hlock2⟩ := cleanup_lock w h V F R hC hV orient bp es hs
      refine ⟨es2, by unfold passE cvE; rw [if_neg (by omega)]; exact he2, hok2, hback2, ?_⟩
      intro hF ds ⟨lev, hL, _, _, h2⟩
      obtain ⟨ds2, hd2, lev2, hL2, hall2⟩ := hlock2 hF ds ⟨lev, hL, ((h2 rfl).2 hpi).1, ((h2 rfl).2 hpi).2⟩
      exact ⟨ds2, by unfold passD cvD; rw [if_neg (by omega)]; exact hd2, lev2, hL2,
        fun hh => absurd hh (by decide), fun hh => absurd hh (by decide), fun _ => hall2⟩
end Lock

def segE (style pt : Nat) (st : EncSt) : Option EncSt :=
  if pt = 2 ∧ stySegsym style = true then (Mqc.segmarkEnc st.mq).map (fun m => { st with mq := m }) else some st
def segD (style pt : Nat) (st : DecSt) : Option DecSt :=
  if pt = 2 ∧ stySegsym style = true then (segmarkDec st.mq).map (fun m => { st with mq := m }) else some st
def resetE (style : Nat) (st : EncSt) : Option EncSt :=
  if styReset style = true then (initCtx (Mqc.resetContexts st.mq)).map (fun m => { st with mq := m }) else some st
def resetD (style : Nat) (st : DecSt) : Option DecSt :=
  if styReset style = true then (resetCtxDec st.mq).map (fun m => { st with mq := m }) else some st

/-- the coding passes of `Encode` for a style built from RESET and SEGSYM, down to the cleanup pass of plane 0,
without the final termination and the context reset after it -/
def encPassesS (w h orient style : Nat) (V : Array Int) : Nat → EncSt → (bp pi pt : Nat) → Option EncSt
  | 0, _, _, _, _ => none
  | fuel + 1, st, bp, pi, pt =>
    (passE w h orient V bp pt (cvE pi pt st)).bind fun st =>
      (segE style pt st).bind fun st =>
        if pt = 2 ∧ bp = 0 then some st
        else (resetE style st).bind fun st =>
          if pt = 2 then encPassesS w h orient style V fuel st (bp - 1) (pi + 1) 0
          else encPassesS w h orient style V fuel st bp (pi + 1) (pt + 1)

section Lock
variable (w h : Nat) (V : Array Int) (F : Mqc.Enc → Prop) (R : Mqc.Enc → Mqc.Dec → Prop)
  (hC : Coder F R) (hX : CoderCtx F R) (hV : ∀ j, (gi V j).natAbs < 2147483648)
include hC hX

theorem segE_lock (style bp pt pt' : Nat) (es : EncSt) (hs : EncOk w h V es) :
    ∃ es', segE style pt es = some es' ∧ EncOk w h V es' ∧ (F es'.mq → F es.mq) ∧
      (F es'.mq → ∀ (ds : DecSt), Post w h V R bp pt' es ds →
        ∃ ds', segD style pt ds = some ds' ∧ ds'.data = ds.data ∧ Post w h V R bp pt' es' ds') := by
  unfold segE segD
  by_cases hc : pt = 2 ∧ stySegsym style = true
  · rw [if_pos hc]
    obtain ⟨m, em, hm, hback, hlock⟩ := seg_lock w h V F R hC bp es hs
    rw [em]
    refine ⟨_, rfl, hm, hback, ?_⟩
    intro hF ds ⟨lev, hL, p0, p1, p2⟩
    obtain ⟨d, hd, hL'⟩ := hlock hF ds lev hL
    rw [if_pos hc, hd]
    exact ⟨_, rfl, rfl, lev, hL', p0, p1, p2⟩
  · rw [if_neg hc]
    refine ⟨es, rfl, hs, id, ?_⟩
    intro _ ds hP
    rw [if_neg hc]
    exact ⟨ds, rfl, rfl, hP⟩

omit hC in
theorem resetE_lock (style bp pt' : Nat) (es : EncSt) (hs : EncOk w h V es) :
    ∃ es', resetE style es = some es' ∧ EncOk w h V es' ∧ (F es'.mq → F es.mq) ∧
      (∀ (ds : DecSt), Post w h V R bp pt' es ds →
        ∃ ds', resetD style ds = some ds' ∧ ds'.data = ds.data ∧ Post w h V R bp pt' es' ds') := by
  unfold resetE resetD
  by_cases hc : styReset style = true
  · rw [if_pos hc]
    obtain ⟨m, em, hm, hback, hlock⟩ := reset_lock w h V F R hX bp es hs
    rw [em]
    refine ⟨_, rfl, hm, hback, ?_⟩
    intro ds ⟨lev, hL, p0, p1, p2⟩
    obtain ⟨d, hd, hL'⟩ := hlock ds lev hL
    rw [if_pos hc, hd]
    exact ⟨_, rfl, rfl, lev, hL', p0, p1, p2⟩
  · rw [if_neg hc]
    refine ⟨es, rfl, hs, id, ?_⟩
    intro ds hP
    rw [if_neg hc]
    exact ⟨ds, rfl, rfl, hP⟩
end Lock

/-- one iteration of the decoder's pass loop -/
theorem decLoop_step (w h orient style np f : Nat) (ds : DecSt) (bp pi pt : Nat) (hpt : pt ≤ 2) (hc : pi < np) :
    decLoop w h orient style np (f + 1) ds (bp : Int) pi pt =
      (passD w h orient bp pt (cvD pi pt ds)).bind fun st =>
        (segD style pt st).bind fun st =>
          (if styReset style = true ∧ pi + 1 < np then (resetCtxDec st.mq).map (fun m => ({ st with mq := m } : DecSt))
            else some st).bind fun st =>
            if pt = 2 then decLoop w h orient style np f st ((bp : Int) - 1) (pi + 1) 0
            else decLoop w h orient style np f st (bp : Int) (pi + 1) (pt + 1) := by
  conv => lhs; unfold decLoop
  rw [if_pos ⟨by omega, hc⟩]
  simp only [Int.toNat_natCast]
  rcases (show pt = 0 ∨ pt = 1 ∨ pt = 2 by omega) with rfl | rfl | rfl
  · unfold passD segD cvD
    simp only [true_or, if_true, show ¬(0 = 2 ∧ stySegsym style = true) from fun hh => absurd hh.1 (by decide), if_false]
    cases decSigProp w h orient bp { flags := clearVisit ds.flags, data := ds.data, mq := ds.mq } with
    | none => rfl
    | some st =>
      simp only [Option.bind_some]
      cases (if styReset style = true ∧ pi + 1 < np then Option.map (fun m => ({ flags := st.flags, data := st.data, mq := m } : DecSt)) (resetCtxDec st.mq) else some st) with
      | none => rfl
      | some st2 => rfl
  · unfold passD segD cvD
    simp only [show ¬(1 = 0 ∨ 1 = 2 ∧ pi = 0) from by omega, if_false, show ¬(1 = 2 ∧ stySegsym style = true) from fun hh => absurd hh.1 (by decide)]
    cases decMagRef w h bp ds with
    | none => rfl
    | some st =>
      simp only [Option.bind_some]
      cases (if styReset style = true ∧ pi + 1 < np then Option.map (fun m => ({ flags := st.flags, data := st.data, mq := m } : DecSt)) (resetCtxDec st.mq) else some st) with
      | none => rfl
      | some st2 => rfl
  · unfold passD segD cvD
    simp only []
    generalize (if 2 = 0 ∨ True ∧ pi = 0 then ({ flags := clearVisit ds.flags, data := ds.data, mq := ds.mq } : DecSt) else ds) = ds1
    cases decCleanup w h orient bp ds1 with
    | none => rfl
    | some st =>
      simp only [Option.bind_some, true_and]
      cases (if stySegsym style = true then Option.map (fun m => ({ flags := st.flags, data := st.data, mq := m } : DecSt)) (segmarkDec st.mq) else some st) with
      | none => rfl
      | some st1 =>
        simp only [Option.bind_some]
        cases (if styReset style = true ∧ pi + 1 < np then Option.map (fun m => ({ flags := st1.flags, data := st1.data, mq := m } : DecSt)) (resetCtxDec st1.mq) else some st1) with
        | none => rfl
        | some st2 => rfl
section Lock
variable (w h : Nat) (V : Array Int) (F : Mqc.Enc → Prop) (R : Mqc.Enc → Mqc.Dec → Prop)
  (hC : Coder F R) (hX : CoderCtx F R) (hV : ∀ j, (gi V j).natAbs < 2147483648)
include hC hX hV

theorem passesS_lock (orient style np : Nat) : ∀ (fuel : Nat) (es : EncSt) (bp pi pt : Nat), EncOk w h V es → pt ≤ 2 →
    3 * bp + 3 - pt ≤ fuel →
    ∃ esP, encPassesS w h orient style V fuel es bp pi pt = some esP ∧ EncOk w h V esP ∧
      (F esP.mq → F es.mq) ∧
      (F esP.mq → ∀ (ds : DecSt), PInv w h V R bp pi pt es ds → pi + (3 * bp + 3 - pt) ≤ np →
        ∃ ds', decLoop w h orient style np fuel ds (bp : Int) pi pt = some ds' ∧
          ds'.data.size = (w + 2) * (h + 2) ∧ ∀ j, InB w h j → gi ds'.data j = gi V j) := by
  intro fuel
  induction fuel with
  | zero => intro es bp pi pt _ hpt hf; omega
  | succ f ih =>
    intro es bp pi pt hs hpt hf
    obtain ⟨es2, he2, hok2, hback2, hlock2⟩ := step_lock w h V F R hC hX hV orient bp pi pt hpt es hs
    obtain ⟨es3, he3, hok3, hback3, hlock3⟩ := segE_lock w h V F R hC hX style bp pt pt es2 hok2
    by_cases hfin : pt = 2 ∧ bp = 0
    · -- the last pass
      refine ⟨es3, ?_, hok3, fun hF => hback2 (hback3 hF), ?_⟩
      · unfold encPassesS
        rw [he2]; simp only [Option.bind_some]
        rw [he3]; simp only [Option.bind_some]
        rw [if_pos hfin]
      · intro hF ds hP hnp
        obtain ⟨ds2, hd2, hP2⟩ := hlock2 (hback3 hF) ds hP
        obtain ⟨ds3, hd3, hdd3, lev, hL3, _, _, h2⟩ := hlock3 hF ds2 hP2
        obtain ⟨_, _, _, _, hrl⟩ := resetE_lock w h V F R hX style bp pt es3 hok3
        obtain ⟨ds4, hd4, hdd4, _⟩ := hrl ds3 ⟨lev, hL3, fun hh => absurd hh (by omega), fun hh => absurd hh (by omega), h2⟩
        rw [decLoop_step w h orient style np f ds bp pi pt hpt (by omega), hd2]
        simp only [Option.bind_some]
        rw [hd3]; simp only [Option.bind_some]
        have hdata : ∀ (dsx : DecSt), dsx.data = ds3.data →
            dsx.data.size = (w + 2) * (h + 2) ∧ ∀ j, InB w h j → gi dsx.data j = gi V j := by
          intro dsx hx
          rw [hx]
          refine ⟨hL3.dsz, fun j hj => ?_⟩
          rw [(hL3.smp j hj).d, h2 hfin.1 j hj, hfin.2, tr_0]
        by_cases hr : styReset style = true ∧ pi + 1 < np
        · rw [if_pos hr]
          unfold resetD at hd4
          rw [if_pos hr.1] at hd4
          rw [hd4]; simp only [Option.bind_some]
          rw [if_pos hfin.1, decLoop_exit _ _ _ _ _ _ _ _ _ _ (by omega)]
          exact ⟨ds4, rfl, hdata ds4 hdd4⟩
        · rw [if_neg hr]; simp only [Option.bind_some]
          rw [if_pos hfin.1, decLoop_exit _ _ _ _ _ _ _ _ _ _ (by omega)]
          exact ⟨ds3, rfl, hdata ds3 rfl⟩
    · obtain ⟨es4, he4, hok4, hback4, hlock4⟩ := resetE_lock w h V F R hX style bp pt es3 hok3
      by_cases hp2 : pt = 2
      · -- cleanup of a plane above 0: next plane
        obtain ⟨esP, heP, hokP, hbackP, hlockP⟩ := ih es4 (bp - 1) (pi + 1) 0 hok4 (by omega) (by omega)
        refine ⟨esP, ?_, hokP, fun hF => hback2 (hback3 (hback4 (hbackP hF))), ?_⟩
        · unfold encPassesS
          rw [he2]; simp only [Option.bind_some]
          rw [he3]; simp only [Option.bind_some]
          rw [if_neg hfin, he4]; simp only [Option.bind_some]
          rw [if_pos hp2]; exact heP
        · intro hF ds hP hnp
          have hF4 := hbackP hF
          obtain ⟨ds2, hd2, hP2⟩ := hlock2 (hback3 (hback4 hF4)) ds hP
          obtain ⟨ds3, hd3, _, hP3⟩ := hlock3 (hback4 hF4) ds2 hP2
          obtain ⟨ds4, hd4, _, lev, hL4, _, _, h2⟩ := hlock4 ds3 hP3
          have hall := h2 hp2
          obtain ⟨ds', hd', hfin'⟩ := hlockP hF ds4 ⟨lev, hL4.replane hall (by omega),
            fun _ j hj => by rw [hall j hj]; omega, fun hh => absurd hh (by decide), fun hh => absurd hh (by decide)⟩ (by omega)
          rw [decLoop_step w h orient style np f ds bp pi pt hpt (by omega), hd2]
          simp only [Option.bind_some]
          rw [hd3]; simp only [Option.bind_some]
          unfold resetD at hd4
          by_cases hr : styReset style = true
          · rw [if_pos ⟨hr, by omega⟩]
            rw [if_pos hr] at hd4
            rw [hd4]; simp only [Option.bind_some]
            rw [if_pos hp2, show ((bp : Int) - 1) = ((bp - 1 : Nat) : Int) by omega]
            exact ⟨ds', hd', hfin'⟩
          · rw [if_neg (fun hh => hr hh.1)]
            rw [if_neg hr] at hd4
            simp only [Option.bind_some]
            rw [Option.some.inj hd4]
            rw [if_pos hp2, show ((bp : Int) - 1) = ((bp - 1 : Nat) : Int) by omega]
            exact ⟨ds', hd', hfin'⟩
      · -- SPP or MRP: next pass of the same plane
        obtain ⟨esP, heP, hokP, hbackP, hlockP⟩ := ih es4 bp (pi + 1) (pt + 1) hok4 (by omega) (by omega)
        refine ⟨esP, ?_, hokP, fun hF => hback2 (hback3 (hback4 (hbackP hF))), ?_⟩
        · unfold encPassesS
          rw [he2]; simp only [Option.bind_some]
          rw [he3]; simp only [Option.bind_some]
          rw [if_neg hfin, he4]; simp only [Option.bind_some]
          rw [if_neg hp2]; exact heP
        · intro hF ds hP hnp
          have hF4 := hbackP hF
          obtain ⟨ds2, hd2, hP2⟩ := hlock2 (hback3 (hback4 hF4)) ds hP
          obtain ⟨ds3, hd3, _, hP3⟩ := hlock3 (hback4 hF4) ds2 hP2
          obtain ⟨ds4, hd4, _, lev, hL4, h0, h1, _⟩ := hlock4 ds3 hP3
          obtain ⟨ds', hd', hfin'⟩ := hlockP hF ds4 ⟨lev, hL4, fun hh => absurd hh (by omega),
            fun hh => h0 (by omega), fun hh => ⟨fun hh' => absurd hh' (by omega), fun _ => h1 (by omega)⟩⟩ (by omega)
          rw [decLoop_step w h orient style np f ds bp pi pt hpt (by omega), hd2]
          simp only [Option.bind_some]
          rw [hd3]; simp only [Option.bind_some]
          unfold resetD at hd4
          by_cases hr : styReset style = true
          · rw [if_pos ⟨hr, by omega⟩]
            rw [if_pos hr] at hd4
            rw [hd4]; simp only [Option.bind_some]
            rw [if_neg hp2]
            exact ⟨ds', hd', hfin'⟩
          · rw [if_neg (fun hh => hr hh.1)]
            rw [if_neg hr] at hd4
            simp only [Option.bind_some]
            rw [Option.some.inj hd4]
            rw [if_neg hp2]
            exact ⟨ds', hd', hfin'⟩
end Lock

/-- one iteration of the encoder's pass loop (no pending restart) -/
theorem encLoop_step (w h orient style : Nat) (V : Array Int) (mb np f : Nat) (es : EncSt) (bp pi pt : Nat)
    (hpt : pt ≤ 2) (hc : pi < np) :
    encLoop w h orient style V mb np (f + 1) es (bp : Int) pi pt false =
      (passE w h orient V bp pt (cvE pi pt es)).bind fun st =>
        (segE style pt st).bind fun st =>
          (if J2kT1.isTerminatingPass (bp : Int) (mb : Int) (pt : Int) (style : Int) = true then
              (if styPterm style = true then Mqc.ertermEnc st.mq else Mqc.flushToOutput st.mq).map
                (fun m => ({ st with mq := m } : EncSt))
            else some st).bind fun st =>
            (resetE style st).bind fun st =>
              if pt = 2 then encLoop w h orient style V mb np f st ((bp : Int) - 1) (pi + 1) 0
                (J2kT1.isTerminatingPass (bp : Int) (mb : Int) (pt : Int) (style : Int))
              else encLoop w h orient style V mb np f st (bp : Int) (pi + 1) (pt + 1)
                (J2kT1.isTerminatingPass (bp : Int) (mb : Int) (pt : Int) (style : Int)) := by
  conv => lhs; unfold encLoop
  rw [if_pos ⟨by omega, hc⟩]
  simp only [Int.toNat_natCast, Bool.false_eq_true, if_false]
  rcases (show pt = 0 ∨ pt = 1 ∨ pt = 2 by omega) with rfl | rfl | rfl
  · unfold passE segE cvE resetE
    simp only [true_or, if_true, show ¬(0 = 2 ∧ stySegsym style = true) from fun hh => absurd hh.1 (by decide), if_false]
    cases encSigProp w h orient bp V { flags := clearVisit es.flags, mq := es.mq } with
    | none => rfl
    | some st =>
      simp only [Option.bind_some]
      cases (if J2kT1.isTerminatingPass (bp : Int) (mb : Int) ((0 : Nat) : Int) (style : Int) = true then
          Option.map (fun m => ({ flags := st.flags, mq := m } : EncSt))
            (if styPterm style = true then Mqc.ertermEnc st.mq else Mqc.flushToOutput st.mq) else some st) with
      | none => rfl
      | some st1 =>
        simp only [Option.bind_some]
        cases (if styReset style = true then Option.map (fun m => ({ flags := st1.flags, mq := m } : EncSt)) (initCtx (Mqc.resetContexts st1.mq)) else some st1) with
        | none => rfl
        | some st2 => rfl
  · unfold passE segE cvE resetE
    simp only [show ¬(1 = 0 ∨ 1 = 2 ∧ pi = 0) from by omega, if_false, show ¬(1 = 2 ∧ stySegsym style = true) from fun hh => absurd hh.1 (by decide)]
    cases encMagRef w h bp V es with
    | none => rfl
    | some st =>
      simp only [Option.bind_some]
      cases (if J2kT1.isTerminatingPass (bp : Int) (mb : Int) ((1 : Nat) : Int) (style : Int) = true then
          Option.map (fun m => ({ flags := st.flags, mq := m } : EncSt))
            (if styPterm style = true then Mqc.ertermEnc st.mq else Mqc.flushToOutput st.mq) else some st) with
      | none => rfl
      | some st1 =>
        simp only [Option.bind_some]
        cases (if styReset style = true then Option.map (fun m => ({ flags := st1.flags, mq := m } : EncSt)) (initCtx (Mqc.resetContexts st1.mq)) else some st1) with
        | none => rfl
        | some st2 => rfl
  · unfold passE segE cvE resetE
    simp only []
    generalize (if 2 = 0 ∨ True ∧ pi = 0 then ({ flags := clearVisit es.flags, mq := es.mq } : EncSt) else es) = es1
    cases encCleanup w h orient bp V es1 with
    | none => rfl
    | some st =>
      simp only [Option.bind_some, true_and]
      cases (if stySegsym style = true then Option.map (fun m => ({ flags := st.flags, mq := m } : EncSt)) (Mqc.segmarkEnc st.mq) else some st) with
      | none => rfl
      | some st0 =>
        simp only [Option.bind_some]
        cases (if J2kT1.isTerminatingPass (bp : Int) (mb : Int) ((2 : Nat) : Int) (style : Int) = true then
            Option.map (fun m => ({ flags := st0.flags, mq := m } : EncSt))
              (if styPterm style = true then Mqc.ertermEnc st0.mq else Mqc.flushToOutput st0.mq) else some st0) with
        | none => rfl
        | some st1 =>
          simp only [Option.bind_some]
          cases (if styReset style = true then Option.map (fun m => ({ flags := st1.flags, mq := m } : EncSt)) (initCtx (Mqc.resetContexts st1.mq)) else some st1) with
          | none => rfl
          | some st2 => rfl

theorem nontermS (bp mb pt style : Int) (hT : Go.and style J2kT1.CblkStyleTermAll = 0)
    (hL : Go.and style J2kT1.CblkStyleLazy = 0) (h : ¬(pt = 2 ∧ bp = 0)) :
    J2kT1.isTerminatingPass bp mb pt style = false := by
  cases hh : J2kT1.isTerminatingPass bp mb pt style
  · rfl
  · exact absurd (terminating_plain bp mb pt style hT hL hh) h

/-- `Encode`'s loop for a style without LAZY, TERMALL, PTERM and a pass budget that covers all passes: the pass
sequence, then `FlushToOutput`, then (RESET) one more context reset -/
theorem encLoopS_split (w h orient style : Nat) (V : Array Int) (mb np : Nat)
    (hT : Go.and (style : Int) J2kT1.CblkStyleTermAll = 0) (hL : Go.and (style : Int) J2kT1.CblkStyleLazy = 0)
    (hP : styPterm style = false) :
    ∀ (fuel : Nat) (es : EncSt) (bp pi pt : Nat),
    pt ≤ 2 → 3 * bp + 3 - pt ≤ fuel → pi + (3 * bp + 3 - pt) ≤ np →
    encLoop w h orient style V mb np fuel es (bp : Int) pi pt false =
      (encPassesS w h orient style V fuel es bp pi pt).bind fun stP =>
        (Mqc.flushToOutput stP.mq).bind fun m =>
          (resetE style { stP with mq := m }).map fun st => (st, true) := by
  intro fuel
  induction fuel with
  | zero => intro es bp pi pt hpt hf _; omega
  | succ f ih =>
    intro es bp pi pt hpt hf hnp
    rw [encLoop_step w h orient style V mb np f es bp pi pt hpt (by omega)]
    unfold encPassesS
    cases passE w h orient V bp pt (cvE pi pt es) with
    | none => rfl
    | some st =>
      simp only [Option.bind_some]
      cases segE style pt st with
      | none => rfl
      | some st1 =>
        simp only [Option.bind_some]
        by_cases hfin : pt = 2 ∧ bp = 0
        · rw [if_pos hfin]
          obtain ⟨rfl, rfl⟩ := hfin
          rw [show J2kT1.isTerminatingPass ((0 : Nat) : Int) (mb : Int) ((2 : Nat) : Int) (style : Int) = true from
            terminating_last _ _]
          simp only [if_true, hP, Bool.false_eq_true, if_false, Option.bind_some]
          cases Mqc.flushToOutput st1.mq with
          | none => rfl
          | some m =>
            simp only [Option.map_some, Option.bind_some]
            cases resetE style { flags := st1.flags, mq := m } with
            | none => rfl
            | some st3 =>
              simp only [Option.bind_some, Option.map_some]
              rw [encLoop_exit _ _ _ _ _ _ _ _ _ _ _ _ _ (by omega)]
        · rw [if_neg hfin, nontermS _ _ _ _ hT hL (by omega)]
          simp only [Bool.false_eq_true, if_false, Option.bind_some]
          cases resetE style st1 with
          | none => rfl
          | some st2 =>
            simp only [Option.bind_some]
            by_cases hp2 : pt = 2
            · rw [if_pos hp2, if_pos hp2, show ((bp : Int) - 1) = ((bp - 1 : Nat) : Int) by omega]
              exact ih st2 (bp - 1) (pi + 1) 0 (by omega) (by omega) (by omega)
            · rw [if_neg hp2, if_neg hp2]
              exact ih st2 bp (pi + 1) (pt + 1) (by omega) (by omega) (by omega)

/-- **T1 block round trip for the styles built from RESET, VSC and SEGSYM** (no LAZY, TERMALL, PTERM), all passes -/
theorem t1_roundtrip_styles (w h orient style mb : Nat) (coeffs : List Int) (hlen : coeffs.length = w * h)
    (hbnd : ∀ c ∈ coeffs, c.natAbs < 2147483648) (hmb : findMaxBitplane (padBlock w h coeffs) = some mb)
    (hT : Go.and (style : Int) J2kT1.CblkStyleTermAll = 0) (hL : Go.and (style : Int) J2kT1.CblkStyleLazy = 0)
    (hP : styPterm style = false) :
    ∃ bytes, encodeBlock w h orient style coeffs (3 * mb + 1) = .ok bytes ∧
      decodeBlock w h orient style (3 * mb + 1) (mb : Int) bytes = .ok coeffs := by
  obtain ⟨hVsz, hVget⟩ := padBlock_get w h coeffs
  have hVb := padBlock_bound w h coeffs hbnd
  have hz := maxbp_zero _ mb hmb
  obtain ⟨h0, n0, s0⟩ := Mqc.new_ok NUMCONTEXTS
  have hi0 := initCtx_eq (Mqc.Enc.new NUMCONTEXTS) s0
  obtain ⟨e0, he0, hr0, hn0, hsz0⟩ := initCtx_ok
  have hee : e0 = { Mqc.Enc.new NUMCONTEXTS with ctx := ctx3 (Mqc.Enc.new NUMCONTEXTS).ctx } :=
    Option.some.inj (he0.symm.trans hi0)
  subst hee
  have hs0 : EncOk w h (padBlock w h coeffs)
      { flags := Array.replicate ((w + 2) * (h + 2)) 0,
        mq := { Mqc.Enc.new NUMCONTEXTS with ctx := ctx3 (Mqc.Enc.new NUMCONTEXTS).ctx } } :=
    ⟨by simp, hVsz, hr0, hn0, hsz0⟩
  obtain ⟨esP, hP1, hokP, _, _⟩ := passesS_lock w h (padBlock w h coeffs) _ _ (coder_mq _ 1 1 bok_dummy) (coderCtx_mq _ 1 1) hVb orient style (3 * mb + 1)
    (3 * mb + 1 + 1) _ mb 0 2 hs0 (by omega) (by omega)
  obtain ⟨ef, bytes, last, len, hfl, hB, hfe, hblen, hbytes, _, hl1⟩ := Mqc.flush_facts esP.mq hokP.reg hokP.norm
  obtain ⟨esP', hP', _, hbackP, hlockP⟩ := passesS_lock w h (padBlock w h coeffs) _ _ (coder_mq _ last len hB) (coderCtx_mq _ last len) hVb orient style (3 * mb + 1)
    (3 * mb + 1 + 1) _ mb 0 2 hs0 (by omega) (by omega)
  have hpp : esP' = esP := Option.some.inj (hP'.symm.trans hP1)
  subst hpp
  have hflush : Mqc.flushToOutput esP'.mq = some ef ∧ bytes = Mqc.getBuffer ef := by
    unfold Mqc.flush at hfl
    cases hq : Mqc.flushToOutput esP'.mq with
    | none => rw [hq] at hfl; exact absurd hfl (by simp)
    | some e' =>
      rw [hq] at hfl
      simp only [Option.map_some, Option.some.injEq, Prod.mk.injEq] at hfl
      exact ⟨by rw [hfl.1], by rw [← hfl.2, hfl.1]⟩
  -- the reset after the final termination does not touch the buffer
  have hreset : ∃ st, resetE style { esP' with mq := ef } = some st ∧ Mqc.getBuffer st.mq = Mqc.getBuffer ef := by
    unfold resetE
    by_cases hr : styReset style = true
    · rw [if_pos hr]
      obtain ⟨m', em', _, hb, hbp, _⟩ := resetInit_some ef (by rw [flushToOutput_ctx _ _ hflush.1]; exact hokP.nctx)
      rw [em']
      exact ⟨_, rfl, by unfold Mqc.getBuffer; simp only [hb, hbp]⟩
    · rw [if_neg hr]; exact ⟨_, rfl, rfl⟩
  obtain ⟨stR, hstR, hbufR⟩ := hreset
  refine ⟨bytes, ?_, ?_⟩
  · unfold encodeBlock
    rw [if_neg (by rw [hlen]; exact fun hc => hc rfl)]
    simp only []
    rw [hmb]
    simp only []
    rw [hi0]
    simp only []
    rw [encLoopS_split w h orient style _ mb (3 * mb + 1) hT hL hP (3 * mb + 1 + 1) _ mb 0 2 (by omega) (by omega) (by omega), hP']
    simp only [Option.bind_some, hflush.1, hstR, Option.map_some, if_true]
    rw [hbufR, hflush.2]
  · have hfe0 : Mqc.FE (Mqc.finalB ef.buf last) last (Mqc.Enc.new NUMCONTEXTS) := hbackP hfe
    obtain ⟨d0, hd0, hrel0⟩ := Mqc.decNew_rel _ last len hB NUMCONTEXTS bytes hblen hbytes hl1 hfe0
    have hd0sz : d0.ctx.size = 19 := by rw [hrel0.ctx]; exact s0
    have hid0 := initCtxDec_eq d0 hd0sz
    have hrel1 : Mqc.Rel (Mqc.finalB ef.buf last) last len
        { Mqc.Enc.new NUMCONTEXTS with ctx := ctx3 (Mqc.Enc.new NUMCONTEXTS).ctx } { d0 with ctx := ctx3 d0.ctx } :=
      ⟨hrel0.a, congrArg ctx3 hrel0.ctx, hrel0.size, hrel0.data, hrel0.bple, hrel0.eos, hrel0.ctlo, hrel0.cthi,
        hrel0.ahead, hrel0.wdeq, hrel0.eq⟩
    have hrep : ∀ j, gi (Array.replicate ((w + 2) * (h + 2)) (0 : Int)) j = 0 := by
      intro j; unfold gi; rw [Array.getElem?_replicate]; split <;> rfl
    have hrepf : ∀ j, sigA (Array.replicate ((w + 2) * (h + 2)) (0 : Nat)) j = false := by
      intro j; unfold sigA gf; rw [Array.getElem?_replicate]; split <;> rfl
    obtain ⟨ds', hd', hdsz', hdata'⟩ := hlockP hfe
      { flags := Array.replicate ((w + 2) * (h + 2)) 0, data := Array.replicate ((w + 2) * (h + 2)) 0,
        mq := { d0 with ctx := ctx3 d0.ctx } }
      ⟨fun _ => mb + 1, ⟨rfl, by simp, hrel1, fun j _ =>
          ⟨Or.inr rfl, by show gi (Array.replicate _ 0) j = _; rw [hrep, tr_zero _ _ (hz j)],
           by show sigA (Array.replicate _ 0) j = true ↔ _; rw [hrepf, hz j]; simp⟩⟩,
        fun hh => absurd hh (by decide), fun hh => absurd hh (by decide),
        fun _ => ⟨fun _ => ⟨fun j _ => rfl, fun j _ => hrepf j⟩, fun hh => absurd rfl hh⟩⟩ (by omega)
    unfold decodeBlock
    rw [if_neg (by omega), hd0]
    simp only []
    rw [hid0]
    simp only []
    rw [hd']
    simp only []
    rw [mapM_get ds'.data _ (by
      intro i hi
      simp only [List.mem_flatMap, List.mem_range, List.mem_map] at hi
      obtain ⟨y, hy, x, hx, rfl⟩ := hi
      rw [hdsz']; exact idx_lt w h x y hx hy)]
    simp only []
    congr 1
    rw [List.map_flatMap]
    rw [← rows_eq w h coeffs hlen]
    apply flatMap_congr'
    intro y hy
    rw [List.map_map]
    apply List.map_congr_left
    intro x hx
    have hy' := List.mem_range.mp hy
    have hx' := List.mem_range.mp hx
    show gi ds'.data (idxOf w x y) = _
    rw [hdata' _ ⟨x, y, hx', hy', rfl⟩, hVget x y hx' hy']
end T1
