import GdcVerif.Lemmas.T1LayeredLock
import GdcVerif.Lemmas.T1RawLock
/-!
  C20 — layered T1 round trip for the code-block styles WITH the LAZY bit: raw (bypass) significance and refinement
  passes below plane `mb - 3`, alternating raw and MQ codeword segments.
-/
namespace T1
open Gen

/-! ### one iteration of the two loops, any style -/

def startG (raw prevT : Bool) (st : EncSt) : EncSt :=
  if prevT = true then { st with mq := if raw = true then Mqc.bypassInitEnc st.mq else Mqc.restartInitEnc st.mq } else st

def passG (raw : Bool) (w h orient : Nat) (V : Array Int) (n pt : Nat) (st : EncSt) : Option EncSt :=
  match pt with
  | 0 => encSigPropR raw w h orient n V st
  | 1 => encMagRefR raw w h n V st
  | _ => encCleanup w h orient n V st

def termG (style : Nat) (raw term : Bool) (st : EncSt) : Option EncSt :=
  if term = true then
    (if raw = true then Mqc.bypassFlushEnc st.mq (styPterm style) else termMq style st.mq).map (fun m => ({ st with mq := m } : EncSt))
  else some st

def rateG (style : Nat) (raw term : Bool) (st : EncSt) : Option Nat :=
  if term = true then some (numBytes st.mq)
  else if raw = true then (bypassExtraBytes st.mq (styPterm style)).map (numBytes st.mq + ·) else some (numBytes st.mq + 3)

theorem encLoopL_stepG (w h orient style : Nat) (V : Array Int) (mb np f : Nat) (st : EncSt) (n pi pt : Nat)
    (prevT : Bool) (acc : List PassRec) (hpt : pt ≤ 2) (hc : pi < np) :
    encLoopL w h orient style V mb np (f + 1) st (n : Int) pi pt prevT acc =
      (passG (J2kT1.isLazyRawPass (n : Int) (mb : Int) (pt : Int) (style : Int)) w h orient V n pt
          (startG (J2kT1.isLazyRawPass (n : Int) (mb : Int) (pt : Int) (style : Int)) prevT (cvE pi pt st))).bind fun st =>
        (segE style pt st).bind fun st =>
          (termG style (J2kT1.isLazyRawPass (n : Int) (mb : Int) (pt : Int) (style : Int))
              (J2kT1.isTerminatingPass (n : Int) (mb : Int) (pt : Int) (style : Int)) st).bind fun st =>
            (resetE style st).bind fun st =>
              (rateG style (J2kT1.isLazyRawPass (n : Int) (mb : Int) (pt : Int) (style : Int))
                  (J2kT1.isTerminatingPass (n : Int) (mb : Int) (pt : Int) (style : Int)) st).bind fun rate =>
                if pt = 2 then encLoopL w h orient style V mb np f st ((n : Int) - 1) (pi + 1) 0
                  (J2kT1.isTerminatingPass (n : Int) (mb : Int) (pt : Int) (style : Int))
                  (acc ++ [(rate, J2kT1.isTerminatingPass (n : Int) (mb : Int) (pt : Int) (style : Int))])
                else encLoopL w h orient style V mb np f st (n : Int) (pi + 1) (pt + 1)
                  (J2kT1.isTerminatingPass (n : Int) (mb : Int) (pt : Int) (style : Int))
                  (acc ++ [(rate, J2kT1.isTerminatingPass (n : Int) (mb : Int) (pt : Int) (style : Int))]) := by
  conv => lhs; unfold encLoopL
  rw [if_pos ⟨by omega, hc⟩]
  simp only [Int.toNat_natCast]
  generalize J2kT1.isTerminatingPass (n : Int) (mb : Int) (pt : Int) (style : Int) = term
  generalize J2kT1.isLazyRawPass (n : Int) (mb : Int) (pt : Int) (style : Int) = raw
  have tail : ∀ (st1 : EncSt),
      (match (if term = true then Option.map (fun m => ({ flags := st1.flags, mq := m } : EncSt))
            (if raw = true then Mqc.bypassFlushEnc st1.mq (styPterm style)
             else if styPterm style = true then Mqc.ertermEnc st1.mq else Mqc.flushToOutput st1.mq) else some st1) with
        | none => none
        | some st =>
          match (if styReset style = true then Option.map (fun m => ({ flags := st.flags, mq := m } : EncSt)) (initCtx (Mqc.resetContexts st.mq)) else some st) with
          | none => none
          | some st =>
            match (if term = true then some (numBytes st.mq)
                   else if raw = true then Option.map (fun x => numBytes st.mq + x) (bypassExtraBytes st.mq (styPterm style))
                   else some (numBytes st.mq + 3)) with
            | none => none
            | some rate =>
              if pt = 2 then encLoopL w h orient style V mb np f st ((n : Int) - 1) (pi + 1) 0 term (acc ++ [(rate, term)])
              else encLoopL w h orient style V mb np f st (n : Int) (pi + 1) (pt + 1) term (acc ++ [(rate, term)])) =
      (termG style raw term st1).bind fun st =>
        (resetE style st).bind fun st =>
          (rateG style raw term st).bind fun rate =>
            if pt = 2 then encLoopL w h orient style V mb np f st ((n : Int) - 1) (pi + 1) 0 term (acc ++ [(rate, term)])
            else encLoopL w h orient style V mb np f st (n : Int) (pi + 1) (pt + 1) term (acc ++ [(rate, term)]) := by
    intro st1
    unfold termG resetE rateG termMq
    cases (if term = true then Option.map (fun m => ({ flags := st1.flags, mq := m } : EncSt))
            (if raw = true then Mqc.bypassFlushEnc st1.mq (styPterm style)
             else if styPterm style = true then Mqc.ertermEnc st1.mq else Mqc.flushToOutput st1.mq) else some st1) with
    | none => rfl
    | some st2 =>
      simp only [Option.bind_some]
      cases (if styReset style = true then Option.map (fun m => ({ flags := st2.flags, mq := m } : EncSt)) (initCtx (Mqc.resetContexts st2.mq)) else some st2) with
      | none => rfl
      | some st3 =>
        simp only [Option.bind_some]
        cases (if term = true then some (numBytes st3.mq)
                   else if raw = true then Option.map (fun x => numBytes st3.mq + x) (bypassExtraBytes st3.mq (styPterm style))
                   else some (numBytes st3.mq + 3)) with
        | none => rfl
        | some rate => rfl
  rcases (show pt = 0 ∨ pt = 1 ∨ pt = 2 by omega) with rfl | rfl | rfl
  · unfold passG segE cvE startG
    simp only [true_or, if_true, show ¬(0 = 2 ∧ stySegsym style = true) from fun hh => absurd hh.1 (by decide), if_false]
    cases encSigPropR raw w h orient n V (if prevT = true then { flags := clearVisit st.flags, mq := if raw = true then Mqc.bypassInitEnc st.mq else Mqc.restartInitEnc st.mq } else { flags := clearVisit st.flags, mq := st.mq }) with
    | none => rfl
    | some st1 =>
      simp only [Option.bind_some]
      exact tail st1
  · unfold passG segE cvE startG
    simp only [show ¬(1 = 0 ∨ 1 = 2 ∧ pi = 0) from by omega, if_false,
      show ¬(1 = 2 ∧ stySegsym style = true) from fun hh => absurd hh.1 (by decide)]
    cases encMagRefR raw w h n V (if prevT = true then { flags := st.flags, mq := if raw = true then Mqc.bypassInitEnc st.mq else Mqc.restartInitEnc st.mq } else st) with
    | none => rfl
    | some st1 =>
      simp only [Option.bind_some]
      exact tail st1
  · unfold passG segE cvE startG
    simp only []
    generalize (if prevT = true then
      ({ flags := (if 2 = 0 ∨ True ∧ pi = 0 then ({ flags := clearVisit st.flags, mq := st.mq } : EncSt) else st).flags,
         mq := if raw = true then Mqc.bypassInitEnc (if 2 = 0 ∨ True ∧ pi = 0 then ({ flags := clearVisit st.flags, mq := st.mq } : EncSt) else st).mq
               else Mqc.restartInitEnc (if 2 = 0 ∨ True ∧ pi = 0 then ({ flags := clearVisit st.flags, mq := st.mq } : EncSt) else st).mq } : EncSt)
      else (if 2 = 0 ∨ True ∧ pi = 0 then ({ flags := clearVisit st.flags, mq := st.mq } : EncSt) else st)) = st0
    cases encCleanup w h orient n V st0 with
    | none => rfl
    | some st1 =>
      simp only [Option.bind_some, true_and]
      cases (if stySegsym style = true then Option.map (fun m => ({ flags := st1.flags, mq := m } : EncSt)) (Mqc.segmarkEnc st1.mq) else some st1) with
      | none => rfl
      | some st1' =>
        simp only [Option.bind_some]
        exact tail st1'

def passDG (raw : Bool) (w h orient : Nat) (n pt : Nat) (st : DecSt) : Option DecSt :=
  match pt with
  | 0 => decSigPropR raw w h orient n st
  | 1 => decMagRefR raw w h n st
  | _ => decCleanup w h orient n st

/-- the coder `DecodeLayeredWithMode` uses for a pass: a new raw or MQ decoder on the bytes of the segment that
starts here, or the running one (contexts reset under RESET) -/
def coderG (reset raw : Bool) (term : Int → Nat → Bool) (PL bytes : List Nat) (s : LDec) (mq : Mqc.Dec) (n : Int)
    (pi pt : Nat) : LOut (Mqc.Dec × Nat) :=
  if s.newSegment = true then
    match PL[segLast term PL.length PL.length pi n pt]? with
    | none => .panic
    | some currentEnd =>
      if currentEnd < s.prevEnd ∨ currentEnd > bytes.length then .err
      else
        match (if raw = true then some (Mqc.Dec.newRaw ((bytes.take currentEnd).drop s.prevEnd))
               else segDecoder pi reset ((bytes.take currentEnd).drop s.prevEnd) s.prevCtx) with
        | none => .panic
        | some d => .ok (d, currentEnd)
  else if reset = true ∧ ¬ raw = true then
    match resetCtxDec mq with
    | none => .panic
    | some d => .ok (d, s.prevEnd)
  else .ok (mq, s.prevEnd)

theorem decLoopL_stepG (w h orient style : Nat) (u reset : Bool) (mbI : Int) (PL : List Nat) (bytes : List Nat)
    (f : Nat) (s : LDec) (n pi pt : Nat) (hpt : pt ≤ 2) (hc : pi < PL.length) :
    decLoopL w h orient style u reset mbI PL bytes (f + 1) s (n : Int) pi pt =
      match coderG reset (J2kT1.isLazyRawPass (n : Int) mbI (pt : Int) (style : Int))
          (fun b p => u || J2kT1.isTerminatingPass b mbI (p : Int) (style : Int)) PL bytes s s.st.mq (n : Int) pi pt with
      | .err => .err
      | .panic => .panic
      | .ok (d, pe) =>
        match (passDG (J2kT1.isLazyRawPass (n : Int) mbI (pt : Int) (style : Int)) w h orient n pt
            { cvD pi pt s.st with mq := d }).bind (segD style pt) with
        | none => .panic
        | some st' =>
          let s' : LDec := { st := st', prevEnd := pe,
                             prevCtx := if ¬ J2kT1.isLazyRawPass (n : Int) mbI (pt : Int) (style : Int) = true ∧ ¬ reset = true then st'.mq.ctx else s.prevCtx,
                             newSegment := u || J2kT1.isTerminatingPass (n : Int) mbI (pt : Int) (style : Int) }
          if pt = 2 then decLoopL w h orient style u reset mbI PL bytes f s' ((n : Int) - 1) (pi + 1) 0
          else decLoopL w h orient style u reset mbI PL bytes f s' (n : Int) (pi + 1) (pt + 1) := by
  conv => lhs; unfold decLoopL
  simp only []
  rw [if_pos ⟨by omega, hc⟩]
  simp only [Int.toNat_natCast]
  generalize J2kT1.isLazyRawPass (n : Int) mbI (pt : Int) (style : Int) = raw
  have hmq : (if pt = 0 ∨ pt = 2 ∧ pi = 0 then ({ flags := clearVisit s.st.flags, data := s.st.data, mq := s.st.mq } : DecSt) else s.st).mq = s.st.mq := by
    split <;> rfl
  rw [hmq]
  split
  · rename_i heq
    have h2 : coderG reset raw (fun b p => u || J2kT1.isTerminatingPass b mbI (p : Int) (style : Int)) PL bytes s s.st.mq (n : Int) pi pt = LOut.err := heq
    rw [h2]
  · rename_i heq
    have h2 : coderG reset raw (fun b p => u || J2kT1.isTerminatingPass b mbI (p : Int) (style : Int)) PL bytes s s.st.mq (n : Int) pi pt = LOut.panic := heq
    rw [h2]
  · rename_i d pe heq
    have h2 : coderG reset raw (fun b p => u || J2kT1.isTerminatingPass b mbI (p : Int) (style : Int)) PL bytes s s.st.mq (n : Int) pi pt = LOut.ok (d, pe) := heq
    rw [h2]
    simp only []
    rcases (show pt = 0 ∨ pt = 1 ∨ pt = 2 by omega) with rfl | rfl | rfl
    · unfold passDG segD cvD
      simp only [true_or, if_true, show ¬(0 = 2 ∧ stySegsym style = true) from fun hh => absurd hh.1 (by decide), if_false]
      cases decSigPropR raw w h orient n { flags := clearVisit s.st.flags, data := s.st.data, mq := d } with
      | none => rfl
      | some st' => rfl
    · unfold passDG segD cvD
      simp only [show ¬(1 = 0 ∨ 1 = 2 ∧ pi = 0) from by omega, if_false,
        show ¬(1 = 2 ∧ stySegsym style = true) from fun hh => absurd hh.1 (by decide)]
      cases decMagRefR raw w h n { flags := s.st.flags, data := s.st.data, mq := d } with
      | none => rfl
      | some st' => rfl
    · unfold passDG segD cvD
      simp only [true_and]
      generalize (if 2 = 0 ∨ True ∧ pi = 0 then ({ flags := clearVisit s.st.flags, data := s.st.data, mq := s.st.mq } : DecSt) else s.st) = s0
      cases decCleanup w h orient n { flags := s0.flags, data := s0.data, mq := d } with
      | none => rfl
      | some st1 =>
        try simp only [Option.bind_some]
        cases (if stySegsym style = true then Option.map (fun m => ({ flags := st1.flags, data := st1.data, mq := m } : DecSt)) (segmarkDec st1.mq) else some st1) with
        | none => rfl
        | some st' => rfl

/-! ### the pass predicates under LAZY -/

theorem lazyRaw_eq (n mb pt : Nat) (style : Int) (hLz : Go.and style J2kT1.CblkStyleLazy ≠ 0) :
    J2kT1.isLazyRawPass (n : Int) (mb : Int) (pt : Int) style = decide (pt < 2 ∧ n + 3 < mb) := by
  unfold J2kT1.isLazyRawPass
  generalize Go.and style J2kT1.CblkStyleLazy = la at hLz
  simp only [beq_iff_eq, hLz, if_false]
  by_cases h2 : (pt : Int) ≥ 2
  · simp only [h2, decide_true, if_true]
    symm; rw [decide_eq_false_iff_not]; omega
  · simp only [h2, decide_false, Bool.false_eq_true, if_false]
    rw [decide_eq_decide]; omega

theorem term_lazy (n mb pt : Nat) (style : Int) (hLz : Go.and style J2kT1.CblkStyleLazy ≠ 0)
    (hT : Go.and style J2kT1.CblkStyleTermAll = 0) :
    J2kT1.isTerminatingPass (n : Int) (mb : Int) (pt : Int) style =
      decide ((pt = 2 ∧ n = 0) ∨ (n + 3 = mb ∧ pt = 2) ∨ (n + 3 < mb ∧ 0 < pt)) := by
  unfold J2kT1.isTerminatingPass
  generalize Go.and style J2kT1.CblkStyleLazy = la at hLz
  rw [hT]
  by_cases h1 : pt = 2 ∧ n = 0
  · have : (((pt : Int) == 2) && ((n : Int) == 0)) = true := by simp [h1.1, h1.2]
    rw [if_pos this]; symm; rw [decide_eq_true_iff]; exact Or.inl h1
  · have : ¬ ((((pt : Int) == 2) && ((n : Int) == 0)) = true) := by
      simp only [Bool.and_eq_true, beq_iff_eq]; omega
    rw [if_neg this]
    simp only [bne_self_eq_false, Bool.false_eq_true, if_false, bne_iff_ne, ne_eq, hLz, not_false_eq_true, if_true]
    by_cases h2 : n + 3 = mb ∧ pt = 2
    · have : ((((n : Int) == (mb : Int) - 3)) && ((pt : Int) == 2)) = true := by
        simp only [Bool.and_eq_true, beq_iff_eq]; omega
      rw [if_pos this]; symm; rw [decide_eq_true_iff]; exact Or.inr (Or.inl h2)
    · have : ¬ (((((n : Int) == (mb : Int) - 3)) && ((pt : Int) == 2)) = true) := by
        simp only [Bool.and_eq_true, beq_iff_eq]; omega
      rw [if_neg this]
      by_cases h3 : n + 3 < mb ∧ 0 < pt
      · have : ((decide ((n : Int) < (mb : Int) - 3)) && (decide ((pt : Int) > 0))) = true := by
          simp only [Bool.and_eq_true, decide_eq_true_eq]; omega
        rw [if_pos this]; symm; rw [decide_eq_true_iff]; exact Or.inr (Or.inr h3)
      · have : ¬ (((decide ((n : Int) < (mb : Int) - 3)) && (decide ((pt : Int) > 0))) = true) := by
          simp only [Bool.and_eq_true, decide_eq_true_eq]; omega
        rw [if_neg this]; symm; rw [decide_eq_false_iff_not]
        intro hh; rcases hh with hh | hh | hh
        · exact h1 hh
        · exact h2 hh
        · exact h3 hh

end T1
