import GdcVerif.Model.JpegAddr
import GdcVerif.Lemmas.JpegAddr
import GdcVerif.Lemmas.JpegAddrFull
/-! C15: the non-interleaved scan walk of baseline.Decode (since fix PENDING:c15-noninterleaved-scans) and the
    single-component frame (since fix PENDING:c15-grey-sampling-factors). -/
namespace JpegAddr
open List

/-- ⌈⌈a/b⌉/8⌉ = ⌈a/(8b)⌉ -/
theorem divCeil_divCeil (a b : Nat) (hb : 0 < b) : divCeil (divCeil a b) 8 = divCeil a (b * 8) := by
  simp only [divCeil]
  have e1 : (a + b - 1) / b + 8 - 1 = (a + b - 1 + b * 7) / b := by
    rw [Nat.add_mul_div_left _ _ hb]
    generalize (a + b - 1) / b = q
    omega
  rw [e1, Nat.div_div_eq_div_mul]
  congr 1; omega

/-- the scan's grid fits the component buffer allocated by parseSOF (whole MCUs) -/
theorem niCols_le (f : Frame) (c : Comp) : niCols f c ≤ mcuCols f * c.H := by
  have hm := maxH_pos f
  simp only [niCols, mcuCols]
  rw [divCeil_divCeil _ _ hm]
  exact divCeil_mul_le _ _ _ (by omega)
theorem niRows_le (f : Frame) (c : Comp) : niRows f c ≤ mcuRows f * c.V := by
  have hm := maxV_pos f
  simp only [niRows, mcuRows]
  rw [divCeil_divCeil _ _ hm]
  exact divCeil_mul_le _ _ _ (by omega)

theorem mem_walkNI (f : Frame) (c : Comp) (b : Nat × Nat) :
    b ∈ walkNI f c ↔ b.1 < niCols f c ∧ b.2 < niRows f c := by
  simp only [walkNI, List.mem_flatMap, List.mem_map, List.mem_range]
  constructor
  · rintro ⟨my, hmy, mx, hmx, rfl⟩; exact ⟨hmx, hmy⟩
  · rintro ⟨h1, h2⟩; exact ⟨b.2, h2, b.1, h1, rfl⟩

theorem walkNI_map_ord (f : Frame) (c : Comp) :
    (walkNI f c).map (fun b => b.2 * niCols f c + b.1) = range (niRows f c * niCols f c) := by
  unfold walkNI
  rw [List.map_flatMap, ← range_flat (niRows f c) (niCols f c)]
  congr 1; funext my
  rw [List.map_map]
  rfl

theorem walkNI_length (f : Frame) (c : Comp) : (walkNI f c).length = niRows f c * niCols f c := by
  have := congrArg List.length (walkNI_map_ord f c)
  simpa using this

theorem walkNI_ord_getElem (f : Frame) (c : Comp) (k : Nat) (hk : k < (walkNI f c).length) :
    (walkNI f c)[k].2 * niCols f c + (walkNI f c)[k].1 = k := by
  have h := walkNI_map_ord f c
  have h2 : ((walkNI f c).map (fun b => b.2 * niCols f c + b.1))[k]? = (range (niRows f c * niCols f c))[k]? := by rw [h]
  rw [walkNI_length] at hk
  simp [List.getElem?_map, List.getElem?_range hk] at h2
  obtain ⟨a, b, hab, hb⟩ := h2
  have : (walkNI f c)[k]? = some (walkNI f c)[k] := List.getElem?_eq_getElem (by rw [walkNI_length]; exact hk)
  rw [this] at hab
  have e : (walkNI f c)[k] = (a, b) := Option.some.inj hab
  rw [e]; exact hb

/-- the addressing theorem for a component coded in a scan of its own: every pixel shows the data unit that
    T.81 A.2.3 designates in the raster order of the component's own grid -/
theorem shownNI_eq_spec (f : Frame) (c : Comp) (hH : 0 < c.H) (hV : 0 < c.V)
    (x y : Nat) (hx : x < f.w) (hy : y < f.h) :
    shownNI f c x y = (specOrdinalNI f c x y : Int) := by
  have hmh := maxH_pos f
  have hmv := maxV_pos f
  let bx := x * c.H / maxH f / 8
  let by' := y * c.V / maxV f / 8
  let cw := mcuCols f * c.H
  let ch := mcuRows f * c.V
  have hbxn : bx < niCols f c := by
    simp only [bx, niCols]
    exact div_lt_divCeil _ _ _ (by omega)
      (div_lt_divCeil _ _ _ hmh (Nat.mul_lt_mul_of_pos_right hx hH))
  have hbyn : by' < niRows f c := by
    simp only [by', niRows]
    exact div_lt_divCeil _ _ _ (by omega)
      (div_lt_divCeil _ _ _ hmv (Nat.mul_lt_mul_of_pos_right hy hV))
  have hbx : bx < cw := Nat.lt_of_lt_of_le hbxn (niCols_le f c)
  have hby : by' < ch := Nat.lt_of_lt_of_le hbyn (niRows_le f c)
  have hmem : (bx, by') ∈ walkNI f c := (mem_walkNI f c _).2 ⟨hbxn, hbyn⟩
  obtain ⟨k, hk, hkb⟩ := List.mem_iff_getElem.1 hmem
  have hkord : k = specOrdinalNI f c x y := by
    have := walkNI_ord_getElem f c k hk
    rw [hkb] at this
    simp only [specOrdinalNI]
    exact this.symm
  let r := (y * c.V / maxV f % 8) * 8 + x * c.H / maxH f % 8
  have hr : r < 64 := by
    have := Nat.mod_lt (y * c.V / maxV f) (by decide : 0 < 8)
    have := Nat.mod_lt (x * c.H / maxH f) (by decide : 0 < 8)
    simp only [r]; omega
  have hread : readAddrWith (maxH f) (maxV f) cw ch c x y = some (blockOffset cw bx by' + r) := by
    simp only [readAddrWith]
    rw [if_pos ⟨hbx, hby⟩]
    simp only [r, bx, by', Nat.add_assoc]
  let p : Nat × Nat → Bool := fun b =>
    match writeOffset cw (cw * ch * 64) b with
    | some off => decide (off ≤ blockOffset cw bx by' + r ∧ blockOffset cw bx by' + r < off + 64)
    | none => false
  have hbd : ∀ b ∈ walkNI f c, b.1 < cw ∧ b.2 < ch := by
    intro b hb
    have := (mem_walkNI f c b).1 hb
    exact ⟨Nat.lt_of_lt_of_le this.1 (niCols_le f c), Nat.lt_of_lt_of_le this.2 (niRows_le f c)⟩
  have hw : ∀ b ∈ walkNI f c, writeOffset cw (cw * ch * 64) b = some (blockOffset cw b.1 b.2) := by
    intro b hb
    have h := hbd b hb
    exact writeOffset_some _ _ b (inblock_lt cw ch b.1 b.2 h.1 h.2 63 (by omega))
  have hpk : p (walkNI f c)[k] = true := by
    simp only [p, hkb, hw _ hmem]
    simp; omega
  have huniq : ∀ j (hj : j < (walkNI f c).length), p (walkNI f c)[j] = true → j = k := by
    intro j hj hpj
    have hjm : (walkNI f c)[j] ∈ walkNI f c := List.getElem_mem hj
    simp only [p, hw _ hjm] at hpj
    simp at hpj
    have hoff : blockOffset cw (walkNI f c)[j].1 (walkNI f c)[j].2 = blockOffset cw bx by' := by
      simp only [blockOffset] at hpj ⊢; omega
    have hb1 := (hbd _ hjm).1
    have := offset_inj cw _ _ _ _ hb1 hbx hoff
    have hjb : (walkNI f c)[j] = (bx, by') := Prod.ext this.1 this.2
    have h1 := walkNI_ord_getElem f c j hj
    have h2 := walkNI_ord_getElem f c k hk
    rw [hjb] at h1; rw [hkb] at h2
    omega
  have hlast : lastWriterOn (walkNI f c) cw (cw * ch * 64) (blockOffset cw bx by' + r) = some k := by
    have h1 := last_unique p (walkNI f c) 0 k hk hpk huniq
    simp only [Nat.zero_add] at h1
    have h2 : lastWriterOn (walkNI f c) cw (cw * ch * 64) (blockOffset cw bx by' + r) =
        (((walkNI f c).zipIdx 0).filter (fun q => p q.1)).getLast?.map (·.2) := rfl
    rw [h2, h1]
  simp only [shownNI]
  show (match readAddrWith (maxH f) (maxV f) cw ch c x y with
    | none => (-1 : Int)
    | some a => match lastWriterOn (walkNI f c) cw (cw * ch * 64) a with
      | none => -1
      | some k => (k : Int)) = _
  rw [hread]; simp only []; rw [hlast]; simp only []; rw [hkord]

/-- single-component frame: whatever factors the frame header declares, the decoder works with 1×1 and every pixel
    shows the data unit of the raster order over ⌈w/8⌉ columns (T.81 A.2.3) -/
theorem grey_shown (w h : Nat) (c : Comp) (x y : Nat) (hx : x < w) (hy : y < h) :
    parsedFrame { w := w, h := h, comps := [c] } = { w := w, h := h, comps := [⟨1, 1⟩] } ∧
    shown (parsedFrame { w := w, h := h, comps := [c] }) ⟨1, 1⟩ x y = ((y / 8 * divCeil w 8 + x / 8 : Nat) : Int) := by
  have e : parsedFrame { w := w, h := h, comps := [c] } = { w := w, h := h, comps := [⟨1, 1⟩] } := rfl
  refine ⟨e, ?_⟩
  rw [e, shown_eq_spec _ ⟨1, 1⟩ (by decide) (by decide) x y hx hy]
  simp [specOrdinal, maxH, maxV, mcuCols, Nat.mod_one]

end JpegAddr
