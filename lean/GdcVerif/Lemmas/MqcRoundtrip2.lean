import GdcVerif.Lemmas.MqcRoundtrip
/-!
  MQ round trip, second half: the facts at the end of the run (`Flush`), the initial lock-step relation
  (`NewMQDecoder`), and the theorem `decode (encode ds) = ds`.
-/
set_option linter.unusedVariables false
namespace Mqc
open Gen.J2kMqc

/-- the final buffer as a function: emitted bytes, then 0xFF for ever -/
def finalB (buf : Array Nat) (last : Nat) : Nat → Nat := fun i => if i ≤ last then rd buf i else 255

theorem pad_suffix (B : Nat → Nat) (last : Nat) (hpad : ∀ j, last < j → B j = 255) :
    ∀ n, Wd B last last n = 8 * n ∧ Seg B last last n + 1 = 2 ^ (8 * n) := by
  intro n
  induction n with
  | zero => simp [Wd, Seg]
  | succ n ih =>
    have hw : wd B last (last + n + 1) = 8 := by unfold wd; rw [if_neg (by omega)]
    simp only [Wd, Seg, hw, hpad (last + n + 1) (by omega)]
    refine ⟨by omega, ?_⟩
    have : 2 ^ (8 * (n + 1)) = 2 ^ (8 * n) * 256 := by
      rw [show 8 * (n + 1) = 8 * n + 8 by omega, Nat.pow_add]
    rw [this, ← ih.2]
    omega

/-- base facts: after the last emitted byte only padding follows -/
theorem FA_base (B : Nat → Nat) (last : Nat) (buf : Array Nat) (q u : Nat) (hpad : ∀ j, last < j → B j = 255)
    (hst : ∀ j, j ≤ last → rd buf j = B j) (hq : q < 134217728) (hu : 134217728 ≤ u) : FA B last buf last q u := by
  refine ⟨Nat.le_refl _, fun j hj => hst j (by omega), Or.inl (hst last (Nat.le_refl _)).symm, ?_, ?_⟩
  · intro n
    have hp := pad_suffix B last hpad (n + 1)
    unfold Lo Rv
    rw [hst last (Nat.le_refl _), Nat.sub_self, Nat.zero_mul, Nat.zero_add, hp.1, hp.2]
    have : q * 2 ^ (8 * (n + 1)) < 134217728 * 2 ^ (8 * (n + 1)) := Nat.mul_lt_mul_of_pos_right hq (pow_pos2 _)
    rw [Nat.mul_comm (2 ^ (8 * (n + 1)))]; exact this
  · intro n
    have hp := pad_suffix B last hpad n
    unfold Up Rv
    rw [hst last (Nat.le_refl _), Nat.sub_self, Nat.zero_mul, Nat.zero_add, hp.1]
    have h1 : Seg B last last n < 2 ^ (8 * n) := by omega
    have h2 : Seg B last last n * 134217728 < 2 ^ (8 * n) * 134217728 := Nat.mul_lt_mul_of_pos_right h1 (by decide)
    have h3 : 2 ^ (8 * n) * 134217728 ≤ u * 2 ^ (8 * n) := by
      rw [Nat.mul_comm]; exact Nat.mul_le_mul_right _ hu
    exact Nat.lt_of_lt_of_le h2 h3

/-- the upper end after the two flush bytes is a whole unit of the last byte: the remaining bits are the ones
`setbits` put there -/
theorem flush_upper (c2 K kk W2 W4 A2 A4 c2' c4' : Nat)
    (hkk : c2 + 1 = 32768 * kk) (hW2 : W2 = 128 ∨ W2 = 256) (hW4 : W4 = 128 ∨ W4 = 256)
    (h1 : c2 * K * W2 = A2 * 134217728 + c2' * W2)
    (h2 : c2' * W2 * W4 = A4 * 134217728 + c4' * W4) (hK : 0 < K) :
    134217728 ≤ (c4' + K * W2) * W4 := by
  have hP : (c2 + 1) * K = 32768 * (kk * K) := by rw [hkk, Nat.mul_assoc]
  rw [Nat.add_mul, Nat.one_mul] at hP
  generalize c2 * K = Q at h1 hP
  generalize kk * K = P at hP
  rcases hW2 with rfl | rfl <;> rcases hW4 with rfl | rfl <;> omega

theorem pow_ct_cases (w : Int) (h : w = 7 ∨ w = 8) : (2 : Nat) ^ w.toNat = 128 ∨ (2 : Nat) ^ w.toNat = 256 := by
  rcases h with rfl | rfl
  · left; decide
  · right; decide

/-- **the end of the run**: `Flush()` succeeds; with `B` the final buffer (0xFF beyond), the facts hold at the
state before `Flush`, `B` is a well-formed decoder input, and the returned bytes are `B 1 .. B len` -/
theorem flush_facts (e : Enc) (h : RegOk e) (hn : 0x8000 ≤ e.a) :
    ∃ ef bytes last len, flush e = some (ef, bytes) ∧ BOk (finalB ef.buf last) last len ∧
      FE (finalB ef.buf last) last e ∧ bytes.length = len ∧
      (∀ k, k < len → bytes[k]? = some (finalB ef.buf last (k + 1))) ∧ e.bp < last ∧ 1 ≤ len := by
  have hah := h.ahi; have hcl := h.ctlo; have hch := h.cthi
  have hK := pow_pos2 e.ct.toNat
  have hcA := c_lt_of_A hK h.A
  have hKle : 2 ^ e.ct.toNat ≤ 65536 := by
    have : e.ct.toNat ≤ 16 := by omega
    calc 2 ^ e.ct.toNat ≤ 2 ^ 16 := Nat.pow_le_pow_right (by decide) this
      _ = 65536 := by decide
  -- setbits
  have htemp : u32 (e.c + e.a) = e.c + e.a := by unfold u32; omega
  obtain ⟨c2, hc2def, hc2lt, hc2ge, kk, hkk⟩ : ∃ c2, (if e.c / 65536 * 65536 + 0xFFFF ≥ e.c + e.a
      then sub32 (e.c / 65536 * 65536 + 0xFFFF) 0x8000 else e.c / 65536 * 65536 + 0xFFFF) = c2 ∧ c2 + 1 ≤ e.c + e.a ∧
      e.c ≤ c2 ∧ ∃ kk, c2 + 1 = 32768 * kk := by
    refine ⟨_, rfl, ?_⟩
    split
    · rw [sub32_eq _ _ (by omega) (by omega)]
      exact ⟨by omega, by omega, 2 * (e.c / 65536) + 1, by omega⟩
    · exact ⟨by omega, by omega, 2 * (e.c / 65536) + 2, by omega⟩
  have hmono : (c2 + 1) * 2 ^ e.ct.toNat ≤ (e.c + e.a) * 2 ^ e.ct.toNat := Nat.mul_le_mul_right _ hc2lt
  have hsucc : (c2 + 1) * 2 ^ e.ct.toNat = c2 * 2 ^ e.ct.toNat + 2 ^ e.ct.toNat := by rw [Nat.add_mul, Nat.one_mul]
  have hA1 : c2 * 2 ^ e.ct.toNat + 2 ^ e.ct.toNat ≤ 150994944 := by rw [← hsucc]; exact Nat.le_trans hmono h.A
  have hB1 : 1 ≤ e.bp → rd e.buf (e.bp - 1) = 255 →
      rd e.buf e.bp * 134217728 + c2 * 2 ^ e.ct.toNat + 2 ^ e.ct.toNat ≤ 19327352832 := by
    intro h1 h255
    have hb := h.B h1 h255
    rw [Nat.add_assoc, ← hsucc]
    exact Nat.le_trans (Nat.add_le_add_left hmono _) hb
  have hshl : shl32 c2 e.ct.toNat = c2 * 2 ^ e.ct.toNat := by
    unfold shl32 u32; rw [if_neg (by omega)]; omega
  -- first byte
  obtain ⟨e2, he2, hbuf2, hbp2, ha2, hctx2, hct2, hA2, hB2⟩ :=
    byteout_spec { e with c := c2 * 2 ^ e.ct.toNat } (2 ^ e.ct.toNat) h.buf hK hKle hA1 hB1
  simp only [] at hbp2
  have hK2 := pow_pos2 e2.ct.toNat
  have hsucc2 : (e2.c + 2 ^ e.ct.toNat) * 2 ^ e2.ct.toNat = e2.c * 2 ^ e2.ct.toNat + 2 ^ e.ct.toNat * 2 ^ e2.ct.toNat := by
    rw [Nat.add_mul]
  have hx'pos : 1 ≤ 2 ^ e.ct.toNat * 2 ^ e2.ct.toNat := Nat.mul_pos hK hK2
  have hA3 : e2.c * 2 ^ e2.ct.toNat + 1 ≤ 150994944 := by
    have := hA2; rw [hsucc2] at this; omega
  have hB3 : 1 ≤ e2.bp → rd e2.buf (e2.bp - 1) = 255 →
      rd e2.buf e2.bp * 134217728 + e2.c * 2 ^ e2.ct.toNat + 1 ≤ 19327352832 := by
    intro _ h255
    have hb := hB2 h255
    rw [hsucc2] at hb
    have : rd e2.buf e2.bp * 134217728 + e2.c * 2 ^ e2.ct.toNat + 1 ≤
        rd e2.buf e2.bp * 134217728 + (e2.c * 2 ^ e2.ct.toNat + 2 ^ e.ct.toNat * 2 ^ e2.ct.toNat) := by
      rw [Nat.add_assoc]; exact Nat.add_le_add_left (Nat.add_le_add_left hx'pos _) _
    exact Nat.le_trans this hb
  have hshl2 : shl32 e2.c e2.ct.toNat = e2.c * 2 ^ e2.ct.toNat := by
    unfold shl32 u32; rw [if_neg (by omega)]; omega
  -- second byte
  obtain ⟨e4, he4, hbuf4, hbp4, ha4, hctx4, hct4, hA4, hB4⟩ :=
    byteout_spec { e2 with c := e2.c * 2 ^ e2.ct.toNat } 1 hbuf2 (by omega) (by omega) hA3 hB3
  simp only [] at hbp4
  have hfl : flushToOutput e = some (if rd e4.buf e4.bp ≠ 255 then { e4 with bp := e4.bp + 1 } else e4) := by
    unfold flushToOutput
    simp only [htemp, hc2def, hshl, he2, hshl2, he4, rd_some e4.buf e4.bp hbuf4.inb]
  have hin := hbuf4.inb
  -- the final buffer
  have hBdef : ∀ j, finalB e4.buf e4.bp j = if j ≤ e4.bp then rd e4.buf j else 255 := fun j => rfl
  have hpad : ∀ j, e4.bp < j → finalB e4.buf e4.bp j = 255 := by
    intro j hj; rw [hBdef, if_neg (by omega)]
  have hst : ∀ j, j ≤ e4.bp → rd e4.buf j = finalB e4.buf e4.bp j := by
    intro j hj; rw [hBdef, if_pos hj]
  -- facts, backwards through the two bytes
  have hA2' : e2.c * 2 ^ e2.ct.toNat + 2 ^ e.ct.toNat * 2 ^ e2.ct.toNat ≤ 150994944 := by rw [← hsucc2]; exact hA2
  have hB2' : 1 ≤ e2.bp → rd e2.buf (e2.bp - 1) = 255 →
      rd e2.buf e2.bp * 134217728 + e2.c * 2 ^ e2.ct.toNat + 2 ^ e.ct.toNat * 2 ^ e2.ct.toNat ≤ 19327352832 := by
    intro _ h255
    have hb := hB2 h255
    rw [hsucc2] at hb
    rw [Nat.add_assoc]; exact hb
  obtain ⟨w4, W4, nb4, δ4, hwW4, hbp4', hct4', hM4, hc4, _, _, _, _, _, _, _⟩ :=
    byteout_decomp { e2 with c := e2.c * 2 ^ e2.ct.toNat } (2 ^ e.ct.toNat * 2 ^ e2.ct.toNat) hbuf2 hx'pos hA2' hB2' e4 he4
  obtain ⟨w2, W2, nb2, δ2, hwW2, hbp2', hct2', hM2, hc2', _, _, _, _, _, _, _⟩ :=
    byteout_decomp { e with c := c2 * 2 ^ e.ct.toNat } (2 ^ e.ct.toNat) h.buf hK hA1 hB1 e2 he2
  simp only [] at hM4 hM2
  have hW2 : 2 ^ e2.ct.toNat = W2 := by
    rcases hwW2 with ⟨rfl, rfl⟩ | ⟨rfl, rfl⟩ <;> rw [hct2'] <;> decide
  have hW4 : 2 ^ e4.ct.toNat = W4 := by
    rcases hwW4 with ⟨rfl, rfl⟩ | ⟨rfl, rfl⟩ <;> rw [hct4'] <;> decide
  have hW2c : W2 = 128 ∨ W2 = 256 := by rcases hwW2 with ⟨_, h⟩ | ⟨_, h⟩ <;> simp [h]
  have hW4c : W4 = 128 ∨ W4 = 256 := by rcases hwW4 with ⟨_, h⟩ | ⟨_, h⟩ <;> simp [h]
  rw [hW2] at hM4
  have hup5 : 134217728 ≤ (e4.c + 2 ^ e.ct.toNat * W2) * W4 :=
    flush_upper c2 (2 ^ e.ct.toNat) kk W2 W4 _ _ e2.c e4.c hkk hW2c hW4c hM2 hM4 hK
  have hf4 : FA (finalB e4.buf e4.bp) e4.bp e4.buf e4.bp (e4.c * 2 ^ e4.ct.toNat)
      ((e4.c + 2 ^ e.ct.toNat * 2 ^ e2.ct.toNat) * 2 ^ e4.ct.toNat) := by
    apply FA_base _ _ _ _ _ hpad hst
    · rw [hW4]; exact hc4
    · rw [hW4, hW2]; exact hup5
  have hf2 := byteout_back (finalB e4.buf e4.bp) e4.bp { e2 with c := e2.c * 2 ^ e2.ct.toNat }
    (2 ^ e.ct.toNat * 2 ^ e2.ct.toNat) hbuf2 hx'pos hA2' hB2' e4 he4 hf4
  simp only [] at hf2
  rw [← hsucc2] at hf2
  have hf0 := byteout_back (finalB e4.buf e4.bp) e4.bp { e with c := c2 * 2 ^ e.ct.toNat } (2 ^ e.ct.toNat) h.buf hK hA1 hB1
    e2 he2 hf2
  simp only [] at hf0
  rw [← hsucc] at hf0
  have hfe : FE (finalB e4.buf e4.bp) e4.bp e := by
    unfold FE
    exact FA_mono _ _ _ _ _ _ _ _ (Nat.mul_le_mul_right _ hc2ge) hmono hf0
  -- the decoder's view of the buffer
  have hbytes : ∀ j, finalB e4.buf e4.bp j < 256 := by
    intro j; rw [hBdef]; split
    · exact hbuf4.bytes j
    · decide
  have hmark : ∀ j, j + 1 ≤ e4.bp → finalB e4.buf e4.bp j = 255 → finalB e4.buf e4.bp (j + 1) ≤ 143 := by
    intro j hj h255
    rw [← hst j (by omega)] at h255
    rw [← hst (j + 1) hj]
    exact hbuf4.marker j (by omega) h255
  unfold flush
  rw [hfl]
  by_cases hff : rd e4.buf e4.bp ≠ 255
  · -- the last byte is kept: len = last
    rw [if_pos hff]
    refine ⟨_, _, e4.bp, e4.bp, rfl, ?_, hfe, ?_, ?_, by omega, by omega⟩
    · exact ⟨fun j hj => hpad j (by omega), by omega, Nat.le_refl _, hmark,
        by rw [← hst e4.bp (Nat.le_refl _)]; simpa using hff, hbytes⟩
    · unfold getBuffer
      simp only []
      rw [if_neg (by unfold start; omega)]
      simp [Array.size_extract, start]; omega
    · intro k hk
      unfold getBuffer
      simp only []
      rw [if_neg (by unfold start; omega), Array.getElem?_toList, Array.getElem?_extract]
      have : min (e4.bp + 1) e4.buf.size - start = e4.bp := by unfold start; omega
      rw [this, if_pos hk]
      unfold start
      rw [rd_some e4.buf (1 + k) (by omega), show 1 + k = k + 1 by omega, hst (k + 1) (by omega)]
  · -- the last byte is 0xFF and dropped: len = last - 1; the sentinel replaces it
    rw [if_neg hff]
    have hff' : rd e4.buf e4.bp = 255 := by
      rcases Nat.lt_trichotomy (rd e4.buf e4.bp) 255 with h1 | h1 | h1
      · exact absurd (by omega) hff
      · exact h1
      · exact absurd (by omega) hff
    refine ⟨_, _, e4.bp, e4.bp - 1, rfl, ?_, hfe, ?_, ?_, by omega, by omega⟩
    · refine ⟨?_, by omega, by omega, hmark, ?_, hbytes⟩
      · intro j hj
        rcases Nat.lt_or_ge e4.bp j with h1 | h1
        · exact hpad j h1
        · have : j = e4.bp := by omega
          rw [this, ← hst e4.bp (Nat.le_refl _)]; exact hff'
      · intro h255
        have := hmark (e4.bp - 1) (by omega) h255
        rw [show e4.bp - 1 + 1 = e4.bp by omega, ← hst e4.bp (Nat.le_refl _), hff'] at this
        omega
    · unfold getBuffer
      rw [if_neg (by unfold start; omega)]
      simp [Array.size_extract, start]; omega
    · intro k hk
      unfold getBuffer
      rw [if_neg (by unfold start; omega), Array.getElem?_toList, Array.getElem?_extract]
      have : min e4.bp e4.buf.size - start = e4.bp - 1 := by unfold start; omega
      rw [this, if_pos hk]
      unfold start
      rw [rd_some e4.buf (1 + k) (by omega), show 1 + k = k + 1 by omega, hst (k + 1) (by omega)]

/-! ### the initial relation -/

theorem bytein_seta (d : Dec) (x : Nat) : bytein { d with a := x } = (bytein d).map (fun r => { r with a := x }) := by
  unfold bytein
  simp only []
  split
  · rfl
  · split
    · split
      · split <;> rfl
      · rfl
    · rfl

/-- `k` common shifts -/
theorem shiftk_rel (B : Nat → Nat) (last len : Nat) : ∀ (k : Nat) (e : Enc) (d : Dec) (a' : Nat),
    Rel B last len e d → (k : Int) ≤ e.ct → (k : Int) ≤ d.ct →
    Rel B last len { e with a := a', c := e.c * 2 ^ k, ct := e.ct - k } { d with a := a', c := d.c * 2 ^ k, ct := d.ct - k } := by
  intro k
  induction k with
  | zero =>
    intro e d a' hr _ _
    exact ⟨rfl, hr.ctx, hr.size, hr.data, hr.bple, hr.eos, by simpa using hr.ctlo, by simpa using hr.cthi, hr.ahead,
      by simpa using hr.wdeq, by simpa using hr.eq⟩
  | succ k ih =>
    intro e d a' hr he hd
    have h1 := ih e d a' hr (by omega) (by omega)
    have h2 := shift_rel B last len _ _ a' h1 (by show 1 ≤ e.ct - (k : Int); omega) (by show 1 ≤ d.ct - (k : Int); omega)
    have e1 : e.c * 2 ^ k * 2 = e.c * 2 ^ (k + 1) := by rw [Nat.pow_succ, Nat.mul_assoc]
    have e2 : d.c * 2 ^ k * 2 = d.c * 2 ^ (k + 1) := by rw [Nat.pow_succ, Nat.mul_assoc]
    have e3 : e.ct - (k : Int) - 1 = e.ct - ((k + 1 : Nat) : Int) := by omega
    have e4 : d.ct - (k : Int) - 1 = d.ct - ((k + 1 : Nat) : Int) := by omega
    simp only [e1, e2, e3, e4] at h2
    exact h2

/-- virtual encoder state seven shifts before `NewMQEncoder`'s -/
def encV (n : Nat) : Enc := Enc.mk #[0] 0 256 0 19 (Array.replicate n 0)
/-- virtual decoder state before the first `bytein` -/
def decV (bytes : List Nat) (n b1 a : Nat) : Dec :=
  Dec.mk (bytes ++ [0xFF, 0xFF]).toArray 0 bytes.length a (b1 * 65536) 0 0 (Array.replicate n 0)

/-- `NewMQDecoder` on the encoder's bytes is in lock-step with `NewMQEncoder` -/
theorem decNew_rel (B : Nat → Nat) (last len : Nat) (hB : BOk B last len) (n : Nat) (bytes : List Nat)
    (hlen : bytes.length = len) (hbytes : ∀ k, k < len → bytes[k]? = some (B (k + 1)))
    (hl1 : 1 ≤ len) (hfe : FE B last (Enc.new n)) :
    ∃ d0, Dec.new bytes n = some d0 ∧ Rel B last len (Enc.new n) d0 := by
  have hsz : (bytes ++ [0xFF, 0xFF]).toArray.size = len + 2 := by simp [hlen]
  have hdata : ∀ k, k < len + 2 → rd (bytes ++ [0xFF, 0xFF]).toArray k = B (k + 1) := by
    intro k hk
    unfold rd
    rw [List.getElem?_toArray]
    rcases Nat.lt_or_ge k len with h | h
    · rw [List.getElem?_append_left (by omega), hbytes k h]; rfl
    · rw [List.getElem?_append_right (by omega), hB.pad (k + 1) (by omega)]
      have : k - bytes.length = 0 ∨ k - bytes.length = 1 := by omega
      rcases this with h0 | h0 <;> rw [h0] <;> rfl
  have hr0 : rd (#[0] : Array Nat) 0 = 0 := rfl
  have hnum : (0 + 256) * 2 ^ (19 : Int).toNat = (0 + 32768) * 2 ^ (12 : Int).toNat := by decide
  have hnum0 : (0 : Nat) * 2 ^ (19 : Int).toNat = 0 * 2 ^ (12 : Int).toNat := by decide
  have hfe' : FA B last #[0] 0 (0 * 2 ^ (12 : Int).toNat) ((0 + 32768) * 2 ^ (12 : Int).toNat) := hfe
  -- the dummy byte is 0 in the final buffer
  have hB0 : B 0 = 0 := by
    have hu := hfe'.up 0
    unfold Up Rv Wd Seg at hu
    simp only [Nat.pow_zero, Nat.mul_one, Nat.add_zero, hr0] at hu
    have : (0 + 32768) * 2 ^ (12 : Int).toNat = 134217728 := by decide
    rw [this] at hu
    omega
  have hw1 : wd B last 1 = 8 := by unfold wd; rw [if_neg (by intro h; rw [hB0] at h; omega)]
  have hfev : FE B last (encV n) := by
    show FA B last #[0] 0 (0 * 2 ^ (19 : Int).toNat) ((0 + 256) * 2 ^ (19 : Int).toNat)
    rw [hnum, hnum0]; exact hfe'
  have hrv : Rel B last len (encV n) (decV bytes n (B 1) 256) := by
    refine ⟨rfl, rfl, hsz, hdata, by show 0 ≤ len; omega, ?_, ?_, ?_, by show 0 < 0 + 1 + 0; omega, ?_, ?_⟩
    · intro h; exact absurd h (by show ¬ 0 < 0; omega)
    · show (0 : Int) ≤ 0; decide
    · show (0 : Int) ≤ 8; decide
    · show Wd B last 0 (0 + 1 + 0 - 0) + (19 : Int).toNat = 27 + (0 : Int).toNat
      simp only [Wd, hw1]; decide
    · show Rv B last (B 0 - rd #[0] 0) 0 (0 + 1 + 0 - 0) * 2 ^ (16 - (0 : Int).toNat) = 0 * 65536 + B 1 * 65536
      unfold Rv
      simp only [Wd, Seg, hB0, hr0]
      simp
  obtain ⟨d1, hd1, hr1, hct1⟩ := bytein_rel B last len hB (encV n) (decV bytes n (B 1) 256) hrv rfl
    (by show 256 < 65536; decide) hfev.up
  have hclt : d1.c < 33554432 := by
    have := rel_c_lt B last len _ _ hr1 hfev
    have e : (encV n).a = 256 := rfl
    rw [e] at this
    omega
  -- seven shifts bring both to their initial states
  have hr7 := shiftk_rel B last len 7 (encV n) d1 0x8000 hr1 (by show (7 : Int) ≤ 19; decide) (by omega)
  have he7 : ({ encV n with a := 0x8000, c := (encV n).c * 2 ^ 7, ct := (encV n).ct - ((7 : Nat) : Int) } : Enc) = Enc.new n := rfl
  rw [he7] at hr7
  unfold Dec.new Dec.init
  simp only []
  rw [if_neg (by omega)]
  have h0 : (bytes ++ [0xFF, 0xFF]).toArray[0]? = some (B 1) := by
    have := hdata 0 (by omega)
    rw [rd_some _ 0 (by rw [hsz]; omega)]; rw [this]
  rw [h0]
  simp only []
  have hb1 := hB.bytes 1
  rw [u32_id (B 1 * 2 ^ 16) (by omega)]
  have hbi := bytein_seta (decV bytes n (B 1) 256) 0x8000
  have hdv : ({ decV bytes n (B 1) 256 with a := 0x8000 } : Dec) =
      Dec.mk (bytes ++ [0xFF, 0xFF]).toArray 0 bytes.length 0x8000 (B 1 * 2 ^ 16) 0 0 (Array.replicate n 0) := rfl
  rw [hdv, hd1] at hbi
  rw [hbi]
  simp only [Option.map_some]
  refine ⟨_, rfl, ?_⟩
  rw [u32_id (d1.c * 2 ^ 7) (by omega)]
  exact hr7

/-- **MQ round trip**: for every decision sequence (bits, context ids `< n`), `NewMQEncoder(n)`, `Encode` each
decision, `Flush()` yields bytes from which `NewMQDecoder(bytes, n)` and `Decode` per context id return
exactly the encoded bits -/
theorem mq_roundtrip (n : Nat) (ds : List (Nat × Nat)) (hds : ∀ x ∈ ds, x.1 ≤ 1 ∧ x.2 < n) :
    ∃ bytes, encodeBytes n ds = some bytes ∧ decodeBits bytes n (ds.map (·.2)) = some (ds.map (·.1)) := by
  obtain ⟨h0, hn0, hs0⟩ := new_ok n
  obtain ⟨e, he, hr, hn, _⟩ := encodeAll_spec ds (Enc.new n) h0 hn0 (by intro x hx; rw [hs0]; exact (hds x hx).2)
  obtain ⟨ef, bytes, last, len, hfl, hB, hfe, hlen, hbytes, _, hl1⟩ := flush_facts e hr hn
  have hfe0 : FE (finalB ef.buf last) last (Enc.new n) :=
    encodeAll_back _ last ds (Enc.new n) e h0 hn0 (by intro x hx; rw [hs0]; exact (hds x hx).2) he hfe
  obtain ⟨d0, hd0, hrel0⟩ := decNew_rel _ last len hB n bytes hlen hbytes hl1 hfe0
  obtain ⟨d', hd', _⟩ := decodeAll_rel _ last len hB ds (Enc.new n) d0 e h0 hn0
    (by intro x hx; rw [hs0]; exact hds x hx) hrel0 he hfe
  refine ⟨bytes, ?_, ?_⟩
  · unfold encodeBytes
    rw [he]
    simp only [hfl, Option.map_some]
  · unfold decodeBits
    rw [hd0]
    simp only [hd', Option.map_some]

end Mqc
