import GdcVerif.Lemmas.T1LockStyles
import GdcVerif.Model.T1Layered
/-!
  Side cases of the T1 block round trip: the all-zero block (no coding pass on either side).
-/
namespace T1

/-- all-zero block, `Encode`: no coding pass, the stream is the flush of a fresh encoder -/
theorem encodeBlock_zero (w h orient style : Nat) (coeffs : List Int) (np : Nat) (hlen : coeffs.length = w * h)
    (hz : findMaxBitplane (padBlock w h coeffs) = none) :
    ∃ bytes, encodeBlock w h orient style coeffs np = .ok bytes ∧ bytes ≠ [] := by
  unfold encodeBlock
  rw [if_neg (by rw [hlen]; exact fun hc => hc rfl)]
  simp only []
  rw [hz]
  simp only []
  obtain ⟨h0, n0, _⟩ := Mqc.new_ok NUMCONTEXTS
  obtain ⟨ef, bytes, last, len, hfl, hB, _, hblen, _, _, hl1⟩ := Mqc.flush_facts _ h0 n0
  rw [hfl]
  refine ⟨bytes, rfl, ?_⟩
  intro hb
  rw [hb] at hblen
  simp at hblen
  omega

/-- all-zero block, `EncodeLayered`: no passes, no bytes -/
theorem encodeLayered_zero (w h orient style : Nat) (coeffs : List Int) (np : Nat) (hlen : coeffs.length = w * h)
    (hz : findMaxBitplane (padBlock w h coeffs) = none) :
    encodeLayered w h orient style coeffs np = .ok ([], -1, []) := by
  unfold encodeLayered
  rw [if_neg (by rw [hlen]; exact fun hc => hc rfl)]
  simp only []
  rw [hz]

/-- a block with no magnitude bit at all is the zero block -/
theorem zero_of_nomax (w h : Nat) (coeffs : List Int) (hlen : coeffs.length = w * h)
    (hz : findMaxBitplane (padBlock w h coeffs) = none) : coeffs = List.replicate (w * h) 0 := by
  unfold findMaxBitplane at hz
  simp only [] at hz
  split at hz
  · rename_i hm
    have hall : ∀ j, (gi (padBlock w h coeffs) j).natAbs = 0 := by
      intro j
      unfold gi
      by_cases hj : j < (padBlock w h coeffs).size
      · rw [Array.getElem?_eq_getElem hj]
        have := (le_foldl_max (padBlock w h coeffs).toList 0).2 _ (Array.mem_toList_iff.mpr (Array.getElem_mem hj))
        rw [Array.foldl_toList, hm] at this
        simpa using this
      · rw [Array.getElem?_eq_none (by omega)]; rfl
    obtain ⟨_, hget⟩ := padBlock_get w h coeffs
    rw [← rows_eq w h coeffs hlen]
    have hrep : List.replicate (w * h) (0 : Int) = (List.range h).flatMap (fun y => (List.range w).map (fun x => (List.replicate (w * h) (0 : Int)).getD (y * w + x) 0)) :=
      (rows_eq w h (List.replicate (w * h) 0) (by simp)).symm
    rw [hrep]
    apply flatMap_congr'
    intro y hy
    apply List.map_congr_left
    intro x hx
    have hy' := List.mem_range.mp hy
    have hx' := List.mem_range.mp hx
    rw [← hget x y hx' hy']
    have := hall (idxOf w x y)
    rw [Int.natAbs_eq_zero.mp this]
    rw [List.getD_eq_getElem?_getD]
    by_cases hk : y * w + x < w * h
    · rw [List.getElem?_replicate, if_pos hk]; rfl
    · rw [List.getElem?_eq_none (by simp; omega)]; rfl
  · exact absurd hz (by simp)

/-- decoding with no coding pass returns the zero block (what the tile decoder does for a code-block that is
signalled with zero passes) -/
theorem decodeBlock_nopass (w h orient style : Nat) (mb : Int) (bytes : List Nat) (hb : bytes.length ≠ 0) :
    decodeBlock w h orient style 0 mb bytes = .ok (List.replicate (w * h) 0) := by
  obtain ⟨d, ed, hd, hn, hsz, _⟩ := Mqc.decNew_spec bytes NUMCONTEXTS
  obtain ⟨d', ed', _⟩ := initCtxDec_ok d hd hn hsz
  unfold decodeBlock
  rw [if_neg hb, ed]
  simp only []
  rw [ed']
  simp only []
  have hl : decLoop w h orient style 0 (0 + 1)
      { flags := Array.replicate ((w + 2) * (h + 2)) 0, data := Array.replicate ((w + 2) * (h + 2)) 0, mq := d' } mb 0 2 =
      some { flags := Array.replicate ((w + 2) * (h + 2)) 0, data := Array.replicate ((w + 2) * (h + 2)) 0, mq := d' } := by
    unfold decLoop
    rw [if_neg (by omega)]
  rw [hl]
  simp only []
  rw [mapM_get _ _ (by
    intro i hi
    simp only [List.mem_flatMap, List.mem_range, List.mem_map] at hi
    obtain ⟨y, hy, x, hx, rfl⟩ := hi
    rw [Array.size_replicate]; exact idx_lt w h x y hx hy)]
  simp only []
  congr 1
  rw [List.map_flatMap]
  rw [← rows_eq w h (List.replicate (w * h) 0) (by simp)]
  apply flatMap_congr'
  intro y hy
  rw [List.map_map]
  apply List.map_congr_left
  intro x hx
  have hy' := List.mem_range.mp hy
  have hx' := List.mem_range.mp hx
  show gi (Array.replicate _ 0) _ = _
  have : ∀ j, gi (Array.replicate ((w + 2) * (h + 2)) (0 : Int)) j = 0 := by
    intro j; unfold gi; rw [Array.getElem?_replicate]; split <;> rfl
  rw [this, List.getD_eq_getElem?_getD]
  by_cases hk : y * w + x < w * h
  · rw [List.getElem?_replicate, if_pos hk]; rfl
  · rw [List.getElem?_eq_none (by simp; omega)]; rfl
end T1
