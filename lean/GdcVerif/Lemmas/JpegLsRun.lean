import GdcVerif.Model.JpegLsRun
import GdcVerif.Lemmas.GolombCode
/-!
  Run-mode theorems over `Model/JpegLsRun.lean`: run-length code round trip
  (`EncodeRunLength` ↦ bits ↦ `DecodeRunLength`: same run length, same RUNindex, rest of the bit
  stream untouched) for every RUNindex, run length and line remainder.
-/
namespace JpegLsRun
open Golomb

def Jv (n : Nat) : Int := Gen.JpegLsRun.J.getD n 0

theorem Jv_range : ∀ n, n < 32 → 0 ≤ Jv n ∧ Jv n ≤ 15 := by decide

theorem J?_eq (idx : Int) (h : 0 ≤ idx ∧ idx ≤ 31) : J? idx = .ok (Jv idx.toNat) := by
  unfold J? Jv
  have h0 : ¬ idx < 0 := by omega
  simp only [h0, if_false]
  have hn : idx.toNat < 32 := by omega
  have hs : idx.toNat < Gen.JpegLsRun.J.size := by
    have : Gen.JpegLsRun.J.size = 32 := by decide
    omega
  rw [Array.getElem?_eq_getElem hs]
  simp [Array.getD, hs]

theorem inc_range (idx : Int) (h : 0 ≤ idx ∧ idx ≤ 31) : 0 ≤ incRunIndex idx ∧ incRunIndex idx ≤ 31 := by
  unfold incRunIndex; split <;> omega

/-- the accumulator of `encRunLoop` is only appended to -/
theorem encRunLoop_acc : ∀ (f : Nat) (idx rl : Int) (acc : List (Nat × Int)),
    encRunLoop f idx rl acc = (encRunLoop f idx rl []).map (fun r => (r.1, r.2.1, acc ++ r.2.2))
  | 0, idx, rl, acc => by simp [encRunLoop, Except.map]
  | f + 1, idx, rl, acc => by
    unfold encRunLoop
    cases hj : J? idx with
    | error e => simp [bind, Except.bind, Except.map]
    | ok j =>
      simp only [bind, Except.bind]
      split
      · rw [encRunLoop_acc f _ _ (acc ++ [(1, 1)]), encRunLoop_acc f _ _ ([] ++ [(1, 1)])]
        cases encRunLoop f (incRunIndex idx) (rl - 2 ^ j.toNat) [] with
        | error e => simp [Except.map]
        | ok r => simp [Except.map, List.append_assoc]
      · simp [Except.map]

/-- what `EncodeRunLength` appends after its loop -/
def final (idx' rl' : Int) (eol : Bool) : List (Nat × Int) :=
  if eol then (if rl' != 0 then [(1, 1)] else []) else [(rl'.toNat % Golomb.M32, Jv idx'.toNat + 1)]

theorem runloop_roundtrip (remaining : Int) (rest : List Bool) : ∀ (f : Nat) (idx rl sofar : Int),
    0 ≤ idx ∧ idx ≤ 31 → 0 ≤ rl → rl.toNat < f → 0 ≤ sofar → sofar < remaining → sofar + rl ≤ remaining →
    ∃ idx' rl' ws, encRunLoop f idx rl [] = .ok (idx', rl', ws) ∧ (0 ≤ idx' ∧ idx' ≤ 31) ∧
      decodeRunLengthFrom (writesBits (ws ++ final idx' rl' (sofar + rl == remaining)) ++ rest) idx sofar remaining
        = .ok (sofar + rl, idx', rest)
  | 0, _, _, _, _, _, hf, _, _, _ => by omega
  | f + 1, idx, rl, sofar, hidx, hrl, hf, hs0, hs, htot => by
    have hJ := J?_eq idx hidx
    have hjr := Jv_range idx.toNat (by omega)
    generalize hj : Jv idx.toNat = j at *
    have hP : (1 : Int) ≤ 2 ^ j.toNat := by
      have : (0 : Int) < 2 ^ j.toNat := Int.pow_pos (by decide)
      omega
    unfold encRunLoop
    simp only [hJ, bind, Except.bind]
    by_cases hge : rl ≥ 2 ^ j.toNat
    · simp only [hge, if_true]
      rw [encRunLoop_acc]
      have hi := inc_range idx hidx
      by_cases hdone : sofar + 2 ^ j.toNat ≥ remaining
      · -- the run ends exactly at the line end with this chunk
        have hrlP : rl = 2 ^ j.toNat := by omega
        have henc : encRunLoop f (incRunIndex idx) (rl - 2 ^ j.toNat) [] = .ok (incRunIndex idx, 0, []) := by
          have hf1 : f = (f - 1) + 1 := by omega
          rw [hf1]; unfold encRunLoop
          rw [J?_eq _ hi]
          simp only [bind, Except.bind]
          have hz : rl - 2 ^ j.toNat = 0 := by omega
          have hpos : (0 : Int) < 2 ^ (Jv (incRunIndex idx).toNat).toNat := Int.pow_pos (by decide)
          rw [hz]
          have : ¬ ((0 : Int) ≥ 2 ^ (Jv (incRunIndex idx).toNat).toNat) := by omega
          simp only [this, if_false]
        refine ⟨incRunIndex idx, 0, [(1, 1)], ?_, hi, ?_⟩
        · rw [henc]; rfl
        · have heol : (sofar + rl == remaining) = true := by simp; omega
          simp only [final, heol, if_true]
          have : ((0 : Int) != 0) = false := by decide
          simp only [this, Bool.false_eq_true, if_false, List.append_nil]
          show decodeRunLengthFrom (true :: rest) idx sofar remaining = _
          unfold decodeRunLengthFrom decRunLoop
          simp only [hJ, bind, Except.bind]
          have hmin : min (2 ^ j.toNat) (remaining - sofar) = 2 ^ j.toNat := by omega
          simp only [hmin, if_true]
          have : sofar + 2 ^ j.toNat ≥ remaining := hdone
          simp only [this, if_true]
          have : remaining = sofar + rl := by omega
          rw [this]
      · have hf' : (rl - 2 ^ j.toNat).toNat < f := by omega
        obtain ⟨idx', rl', ws, he, hi', hd⟩ :=
          runloop_roundtrip remaining rest f (incRunIndex idx) (rl - 2 ^ j.toNat) (sofar + 2 ^ j.toNat)
            hi (by omega) hf' (by omega) (by omega) (by omega)
        refine ⟨idx', rl', (1, 1) :: ws, ?_, hi', ?_⟩
        · rw [he]; rfl
        · have e1 : sofar + 2 ^ j.toNat + (rl - 2 ^ j.toNat) = sofar + rl := by omega
          rw [e1] at hd
          show decodeRunLengthFrom (true :: (writesBits (ws ++ final idx' rl' (sofar + rl == remaining)) ++ rest))
            idx sofar remaining = _
          unfold decodeRunLengthFrom decRunLoop
          simp only [hJ, bind, Except.bind]
          have hmin : min (2 ^ j.toNat) (remaining - sofar) = 2 ^ j.toNat := by omega
          simp only [hmin, if_true]
          have : ¬ sofar + 2 ^ j.toNat ≥ remaining := hdone
          simp only [this, if_false]
          unfold decodeRunLengthFrom at hd
          simp only [bind, Except.bind] at hd
          exact hd
    · simp only [hge, if_false]
      refine ⟨idx, rl, [], rfl, hidx, ?_⟩
      simp only [List.nil_append, final]
      by_cases heol : sofar + rl = remaining
      · have hb : (sofar + rl == remaining) = true := by simp [heol]
        have hne : (rl != 0) = true := by simp; omega
        simp only [hb, hne, if_true]
        show decodeRunLengthFrom (true :: rest) idx sofar remaining = _
        unfold decodeRunLengthFrom decRunLoop
        simp only [hJ, bind, Except.bind]
        have hmin : min (2 ^ j.toNat) (remaining - sofar) = rl := by omega
        simp only [hmin]
        have hne2 : ¬ rl = 2 ^ j.toNat := by omega
        have hge2 : sofar + rl ≥ remaining := by omega
        simp only [hne2, if_false, hge2, if_true]
        rw [heol]
      · have hb : (sofar + rl == remaining) = false := by simp [heol]
        simp only [hb, Bool.false_eq_true, if_false, hj]
        rw [writesBits_single]
        have hj0 : (j + 1).toNat = j.toNat + 1 := by omega
        have hrlt : rl.toNat < 2 ^ j.toNat := by
          have h1 : ((rl.toNat : Nat) : Int) < ((2 ^ j.toNat : Nat) : Int) := by
            rw [Int.toNat_of_nonneg hrl]; simp; omega
          exact Int.ofNat_lt.mp h1
        have h15 : (2 : Nat) ^ j.toNat ≤ 2 ^ 15 := Nat.pow_le_pow_right (by decide) (by omega)
        have hlt : rl.toNat < Golomb.M32 := by unfold Golomb.M32; simp only [Nat.reducePow] at h15; omega
        rw [Nat.mod_eq_of_lt hlt, hj0]
        show decodeRunLengthFrom (Nat.testBit rl.toNat j.toNat :: bitsOf rl.toNat j.toNat ++ rest) idx sofar remaining = _
        have htb : Nat.testBit rl.toNat j.toNat = false := by
          rw [Nat.testBit_eq_decide_div_mod_eq, Nat.div_eq_of_lt hrlt]; simp
        rw [htb]
        have hd : decRunLoop (false :: (bitsOf rl.toNat j.toNat ++ rest)) idx sofar remaining
            = .ok (.inr (sofar, idx, bitsOf rl.toNat j.toNat ++ rest)) := by simp [decRunLoop]
        unfold decodeRunLengthFrom
        rw [List.cons_append, hd]
        simp only [hJ, bind, Except.bind]
        by_cases hjp : j > 0
        · simp only [hjp, if_true]
          rw [takeBits_bitsOf, Nat.mod_eq_of_lt hrlt]
          have : ¬ sofar + (rl.toNat : Int) > remaining := by omega
          simp only [this, if_false]
          rw [Int.toNat_of_nonneg hrl]
        · have hj00 : j = 0 := by omega
          subst hj00
          have h1 : (2 : Int) ^ (0 : Int).toNat = 1 := by decide
          have hrl0 : rl = 0 := by omega
          subst hrl0
          have : ¬ ((0 : Int) > 0) := by omega
          simp only [this, if_false]
          have : ¬ sofar > remaining := by omega
          simp [bitsOf, this]

/-- run-length code round trip: for every RUNindex, every line remainder ≥ 1 and every run length
    0..remainder (end-of-line flag = "run reaches the line end"), `DecodeRunLength` reads back the
    run length `EncodeRunLength` coded, ends with the same RUNindex, and leaves the following bits -/
theorem runlength_roundtrip' (idx rl remaining : Int) (rest : List Bool)
    (hidx : 0 ≤ idx ∧ idx ≤ 31) (hrl : 0 ≤ rl ∧ rl ≤ remaining) (hrem : 1 ≤ remaining) :
    ∃ idx' ws, encodeRunLength idx rl (rl == remaining) = .ok (idx', ws) ∧ (0 ≤ idx' ∧ idx' ≤ 31) ∧
      decodeRunLength (writesBits ws ++ rest) idx remaining = .ok (rl, idx', rest) := by
  obtain ⟨idx', rl', ws, he, hi', hd⟩ :=
    runloop_roundtrip remaining rest (rl.toNat + 1) idx rl 0 hidx hrl.1 (by omega) (by omega) (by omega) (by omega)
  simp only [Int.zero_add] at hd
  refine ⟨idx', ws ++ final idx' rl' (rl == remaining), ?_, hi', hd⟩
  unfold encodeRunLength
  simp only [he, bind, Except.bind, final]
  by_cases heol : (rl == remaining) = true
  · simp only [heol, if_true]
    by_cases h0 : (rl' != 0) = true
    · simp [h0]
    · simp at h0; simp [h0]
  · have hb : (rl == remaining) = false := by simpa using heol
    simp only [hb, Bool.false_eq_true, if_false, J?_eq idx' hi']

end JpegLsRun
