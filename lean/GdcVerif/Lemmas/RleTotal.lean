import GdcVerif.Model.RleChk
/-! Proofs behind the RLE part of `Props/C08.lean` / `Props/C09.lean`. -/
namespace Rle

theorem writeStridedChk_size (buf : Array Byte) (pos stride : Nat) (bs : List Byte) (buf' : Array Byte)
    (h : writeStridedChk buf pos stride bs = some buf') : buf'.size = buf.size := by
  induction bs generalizing buf pos with
  | nil => simp [writeStridedChk] at h; subst h; rfl
  | cons b bs ih =>
    unfold writeStridedChk at h
    split at h
    · have := ih _ _ h; simpa using this
    · cases h

theorem writeStrided_size (buf : Array Byte) (pos stride : Nat) (bs : List Byte) :
    (writeStrided buf pos stride bs).size = buf.size := by
  induction bs generalizing buf pos with
  | nil => rfl
  | cons b bs ih => simp [writeStrided, ih]

/-- the pre-check of rle.go (`pos + (length-1)*sampleOffset < len(buffer)`) makes every store of
    the run in range — for every stride, including 0 -/
theorem writeStridedChk_ok (buf : Array Byte) (pos stride : Nat) (bs : List Byte)
    (h : bs = [] ∨ pos + (bs.length - 1) * stride < buf.size) :
    writeStridedChk buf pos stride bs = some (writeStrided buf pos stride bs) := by
  induction bs generalizing buf pos with
  | nil => rfl
  | cons b bs ih =>
    have hb : pos + bs.length * stride < buf.size := by
      rcases h with h | h
      · cases h
      · simpa using h
    have hpos : pos < buf.size := Nat.lt_of_le_of_lt (Nat.le_add_right _ _) hb
    unfold writeStridedChk writeStrided
    rw [dif_pos hpos]
    have hset : buf.setIfInBounds pos b = buf.set pos b hpos := by
      simp [Array.setIfInBounds, hpos]
    rw [hset]
    apply ih
    cases bs with
    | nil => exact Or.inl rfl
    | cons c cs =>
      right
      simp only [List.length_cons, Nat.add_sub_cancel, Array.size_set] at hb ⊢
      have : pos + stride + cs.length * stride = pos + (cs.length + 1) * stride := by
        rw [Nat.add_mul]; omega
      omega

def liftErr : Except DecErr (Array Byte) → Except ChkErr (Array Byte)
  | .ok b => .ok b
  | .error e => .error (.err e)

/-- the bounds-checked decoder never takes its `oob` branch: it IS the unchecked one -/
theorem decodeLoopChk_eq (stride : Nat) (buf : Array Byte) (pos : Nat) (rem : List Byte) :
    decodeLoopChk stride buf pos rem = liftErr (decodeLoop stride buf pos rem) := by
  fun_induction decodeLoop stride buf pos rem with
  | case1 buf pos => unfold decodeLoopChk; rfl
  | case2 buf pos c rest h1 => unfold decodeLoopChk; simp [h1, liftErr]
  | case3 buf pos c rest h1 h2 length h3 =>
    simp only [length] at h3
    unfold decodeLoopChk; simp [h1, h2, h3, liftErr]
  | case4 buf pos c rest h1 h2 length h3 h4 =>
    simp only [length] at h3 h4
    have h4' : buf.size ≤ pos + c * stride := by simpa using h4
    unfold decodeLoopChk; simp [h1, h2, h3, h4', liftErr]
  | case5 buf pos c rest h1 h2 length h3 h4 buf' rem' h5 =>
    simp only [length, rem'] at h3 h4 h5
    have hlen : (rest.take (c + 1)).length = c + 1 := by
      simp [List.length_take]; omega
    have hw := writeStridedChk_ok buf pos stride (rest.take (c + 1)) (Or.inr (by rw [hlen]; omega))
    have h4' : ¬ buf.size ≤ pos + c * stride := by simpa using h4
    have h5' : rest.length ≤ 1 + (c + 1) := by simpa using h5
    unfold decodeLoopChk
    simp [h1, h2, h3, h4', hw, h5', liftErr, buf', length]
  | case6 buf pos c rest h1 h2 length h3 h4 buf' rem' h5 ih =>
    simp only [length, rem', buf'] at h3 h4 h5 ih
    have hlen : (rest.take (c + 1)).length = c + 1 := by
      simp [List.length_take]; omega
    have hw := writeStridedChk_ok buf pos stride (rest.take (c + 1)) (Or.inr (by rw [hlen]; omega))
    have h4' : ¬ buf.size ≤ pos + c * stride := by simpa using h4
    have h5' : ¬ rest.length ≤ 1 + (c + 1) := by simpa using h5
    unfold decodeLoopChk
    simpa [h1, h2, h3, h4', hw, h5', buf', rem', length] using ih
  | case7 buf pos c rest h1 h2 h3 length h4 =>
    simp only [length] at h4
    unfold decodeLoopChk; simp [h1, h2, h3, h4, liftErr]
  | case8 buf pos c h1 h2 h3 length h4 =>
    simp only [length] at h4
    unfold decodeLoopChk; simp [h1, h2, h3, h4, liftErr]
  | case9 buf pos c h1 h2 h3 length h4 b rest' buf' h5 =>
    simp only [length] at h4
    have hw := writeStridedChk_ok buf pos stride (List.replicate (257 - c) b)
      (Or.inr (by simp only [List.length_replicate]; omega))
    unfold decodeLoopChk
    simp [h1, h2, h3, h4, hw, h5, liftErr, buf', length]
  | case10 buf pos c h1 h2 h3 length h4 b rest' buf' h5 ih =>
    simp only [length, buf'] at h4 ih
    have hw := writeStridedChk_ok buf pos stride (List.replicate (257 - c) b)
      (Or.inr (by simp only [List.length_replicate]; omega))
    unfold decodeLoopChk
    simpa [h1, h2, h3, h4, hw, h5, buf', length] using ih
  | case11 buf pos c rest h1 h2 h3 h4 =>
    unfold decodeLoopChk; simp [h1, h2, h3, h4, liftErr]
  | case12 buf pos c rest h1 h2 h3 h4 ih =>
    unfold decodeLoopChk; simpa [h1, h2, h3, h4] using ih

theorem decodeLoopChk_ne_oob (stride : Nat) (buf : Array Byte) (pos : Nat) (rem : List Byte) :
    decodeLoopChk stride buf pos rem ≠ .error .oob := by
  rw [decodeLoopChk_eq]
  cases decodeLoop stride buf pos rem <;> simp [liftErr]

theorem decodeSegmentsChk_ne_oob (i : Info) (data : List Byte) (n : Nat) (offs : List Nat)
    (k s : Nat) (buf : Array Byte) : decodeSegmentsChk i data n offs k s buf ≠ .error .oob := by
  induction k generalizing s buf with
  | zero => simp [decodeSegmentsChk]
  | succ k ih =>
    unfold decodeSegmentsChk
    have h := decodeLoopChk_ne_oob i.segStride buf (i.segStart s) (segmentSlice data n offs s)
    cases hd : decodeLoopChk i.segStride buf (i.segStart s) (segmentSlice data n offs s) with
    | error e =>
      simp only
      intro he
      injection he with he
      subst he
      exact h hd
    | ok b => simp only; exact ih _ _

theorem decodeSegmentsChk_eq (i : Info) (data : List Byte) (n : Nat) (offs : List Nat)
    (k s : Nat) (buf : Array Byte) :
    decodeSegmentsChk i data n offs k s buf = liftErr (decodeSegments i data n offs k s buf) := by
  induction k generalizing s buf with
  | zero => simp [decodeSegmentsChk, decodeSegments, liftErr]
  | succ k ih =>
    unfold decodeSegmentsChk decodeSegments
    rw [decodeLoopChk_eq]
    cases decodeLoop i.segStride buf (i.segStart s) (segmentSlice data n offs s) with
    | error e => simp [liftErr]
    | ok b => simp only [liftErr]; exact ih _ _

/-! ## frame level -/

/-- the FrameInfo guard of commit 9650374 -/
def Info.Rejected (i : Info) : Prop := i.bitsAllocated = 0 ∨ i.numberOfSegments < 1 ∨ i.numberOfSegments > 15

instance (i : Info) : Decidable i.Rejected := by unfold Info.Rejected; infer_instance

/-- decodeFrameC once the three leading tests are decided -/
theorem decodeFrameC_body (i : Info) (data : List Byte) (h0 : ¬ data.length = 0) (hg : ¬ i.Rejected)
    (hm : ¬ i.frameSize > maxAlloc) : decodeFrameC i data = decodeFrameBody i data := by
  unfold Info.Rejected at hg
  unfold decodeFrameC
  rw [if_neg h0, if_neg hg, if_neg hm]

theorem bytesAllocated_le (i : Info) : i.bytesAllocated ≤ 8192 := by
  unfold Info.bytesAllocated; omega

theorem bytesAllocated_pos (i : Info) : 1 ≤ i.bytesAllocated := by
  unfold Info.bytesAllocated; omega

theorem nativeLen_eq (i : Info) : i.nativeLen = i.numberOfSegments * (i.width * i.height) := by
  unfold Info.nativeLen Info.numberOfSegments
  simp only [Nat.mul_assoc]

theorem nativeLen_eq_samples (i : Info) : i.nativeLen = i.bytesAllocated * i.samples := by
  unfold Info.nativeLen Info.samples
  simp only [Nat.mul_assoc, Nat.mul_comm, Nat.mul_left_comm]

theorem frameSize_le_native (i : Info) : i.frameSize ≤ i.nativeLen + 1 := by
  unfold Info.frameSize; simp only; split <;> omega

/-- with the guard, the frame buffer is at most 15 bytes per pixel position (+1 pad): for uint16
    extents that is ≤ 15·65535² + 1 = 64 422 441 376 bytes, far below what `make` refuses -/
theorem frameSize_le_of_accepted (i : Info) (hg : ¬ i.Rejected) (hu : i.U16) :
    i.frameSize ≤ 15 * (65535 * 65535) + 1 := by
  unfold Info.Rejected at hg
  have h1 := frameSize_le_native i
  rw [nativeLen_eq] at h1
  have hn : i.numberOfSegments ≤ 15 := by omega
  have hw : i.width ≤ 65535 := by have := hu.1; omega
  have hh : i.height ≤ 65535 := by have := hu.2.1; omega
  have h2 : i.width * i.height ≤ 65535 * 65535 := Nat.mul_le_mul hw hh
  have h3 : i.numberOfSegments * (i.width * i.height) ≤ 15 * (65535 * 65535) := Nat.mul_le_mul hn h2
  omega

theorem frameSize_le_maxAlloc (i : Info) (hg : ¬ i.Rejected) (hu : i.U16) : i.frameSize ≤ maxAlloc := by
  have := frameSize_le_of_accepted i hg hu
  unfold maxAlloc
  omega

theorem decodeFrameC_no_store_panic (i : Info) (data : List Byte) :
    (decodeFrameC i data).1 ≠ .panic .store := by
  by_cases h0 : data.length = 0
  · unfold decodeFrameC; rw [if_pos h0]; simp
  by_cases hg : i.Rejected
  · unfold Info.Rejected at hg; unfold decodeFrameC; rw [if_neg h0, if_pos hg]; simp
  by_cases hm : i.frameSize > maxAlloc
  · unfold Info.Rejected at hg; unfold decodeFrameC; rw [if_neg h0, if_neg hg, if_pos hm]; simp
  rw [decodeFrameC_body i data h0 hg hm]
  unfold decodeFrameBody
  cases parseHeader data with
  | none => simp
  | some p =>
    obtain ⟨n, offs⟩ := p
    simp only
    by_cases hn : n ≠ i.numberOfSegments
    · rw [if_pos hn]; simp
    · rw [if_neg hn]
      have h := decodeSegmentsChk_ne_oob i data n offs n 0 (Array.replicate i.frameSize 0)
      cases hd : decodeSegmentsChk i data n offs n 0 (Array.replicate i.frameSize 0) with
      | ok b => simp
      | error e =>
        cases e with
        | oob => exact absurd hd h
        | err e' => simp

/-- FULL: `Codec.decodeFrame` has no panic outcome, for every uint16 FrameInfo and every byte string -/
theorem decodeFrameC_total (i : Info) (hu : i.U16) (data : List Byte) (s : Site) :
    (decodeFrameC i data).1 ≠ .panic s := by
  cases s with
  | store => exact decodeFrameC_no_store_panic i data
  | makeslice =>
    by_cases h0 : data.length = 0
    · unfold decodeFrameC; rw [if_pos h0]; simp
    by_cases hg : i.Rejected
    · unfold Info.Rejected at hg; unfold decodeFrameC; rw [if_neg h0, if_pos hg]; simp
    have hm : ¬ i.frameSize > maxAlloc := by have := frameSize_le_maxAlloc i hg hu; omega
    rw [decodeFrameC_body i data h0 hg hm]
    unfold decodeFrameBody
    cases parseHeader data with
    | none => simp
    | some p =>
      obtain ⟨n, offs⟩ := p
      simp only
      by_cases hn : n ≠ i.numberOfSegments
      · rw [if_pos hn]; simp
      · rw [if_neg hn]
        cases decodeSegmentsChk i data n offs n 0 (Array.replicate i.frameSize 0) with
        | ok b => simp
        | error e => cases e <;> simp

/-- forget the panic site and the allocation list -/
def OutcomeC.plain {α} : OutcomeC α → Outcome α
  | .ok a => .ok a
  | .err => .err
  | .panic _ => .panic

/-- the C08 view and the C01 model are the same function on uint16 descriptions -/
theorem decodeFrameC_agrees (i : Info) (hu : i.U16) (data : List Byte) :
    (decodeFrameC i data).1.plain = decodeFrame i data := by
  by_cases h0 : data.length = 0
  · unfold decodeFrameC decodeFrame; rw [if_pos h0, if_pos h0]; rfl
  by_cases hg : i.Rejected
  · unfold Info.Rejected at hg; unfold decodeFrameC decodeFrame
    rw [if_neg h0, if_pos hg, if_neg h0, if_pos hg]; rfl
  have hm : ¬ i.frameSize > maxAlloc := by have := frameSize_le_maxAlloc i hg hu; omega
  rw [decodeFrameC_body i data h0 hg hm]
  unfold Info.Rejected at hg
  unfold decodeFrameBody decodeFrame
  rw [if_neg h0, if_neg hg]
  cases parseHeader data with
  | none => rfl
  | some p =>
    obtain ⟨n, offs⟩ := p
    simp only
    by_cases hn : n ≠ i.numberOfSegments
    · rw [if_pos hn, if_pos hn]; rfl
    · rw [if_neg hn, if_neg hn, decodeSegmentsChk_eq]
      cases decodeSegments i data n offs n 0 (Array.replicate i.frameSize 0) with
      | error e => simp [liftErr, OutcomeC.plain]
      | ok b => simp [liftErr, OutcomeC.plain]

/-- every allocation of decodeFrame is the frame buffer, and it happens only for accepted descriptions -/
theorem decodeFrameC_allocs (i : Info) (data : List Byte) :
    ∀ a ∈ (decodeFrameC i data).2, a = i.frameSize ∧ ¬ i.Rejected := by
  by_cases h0 : data.length = 0
  · unfold decodeFrameC; rw [if_pos h0]; simp
  by_cases hg : i.Rejected
  · have hg' := hg; unfold Info.Rejected at hg'; unfold decodeFrameC; rw [if_neg h0, if_pos hg']; simp
  by_cases hm : i.frameSize > maxAlloc
  · have hg' := hg; unfold Info.Rejected at hg'; unfold decodeFrameC; rw [if_neg h0, if_neg hg', if_pos hm]; simp
  rw [decodeFrameC_body i data h0 hg hm]
  unfold decodeFrameBody
  cases parseHeader data with
  | none => simp [hg]
  | some p =>
    obtain ⟨n, offs⟩ := p
    simp only
    by_cases hn : n ≠ i.numberOfSegments
    · rw [if_pos hn]; simp [hg]
    · rw [if_neg hn]
      cases decodeSegmentsChk i data n offs n 0 (Array.replicate i.frameSize 0) with
      | ok b => simp [hg]
      | error e => cases e <;> simp [hg]

/-- the frame buffer of an accepted description is at most 15 bytes per declared pixel position,
    hence at most 15·S + 1 with S = Width·Height·SamplesPerPixel (SamplesPerPixel ≥ 1 there) -/
theorem frameSize_le_samples (i : Info) (hg : ¬ i.Rejected) : i.frameSize ≤ 15 * i.samples + 1 := by
  unfold Info.Rejected at hg
  have h1 := frameSize_le_native i
  rw [nativeLen_eq_samples] at h1
  have hb : i.bytesAllocated ≤ 15 := by
    have hp : 1 ≤ i.spp := by
      rcases Nat.eq_zero_or_pos i.spp with h | h
      · exfalso; unfold Info.numberOfSegments at hg; rw [h] at hg; omega
      · exact h
    have : i.bytesAllocated * 1 ≤ i.bytesAllocated * i.spp := Nat.mul_le_mul_left _ hp
    unfold Info.numberOfSegments at hg
    omega
  have := Nat.mul_le_mul_right i.samples hb
  omega

end Rle
