import GdcVerif.Model.RleChk
/-! Proofs behind the RLE part of `Props/C08.lean` / `Props/C09.lean`. -/
namespace Rle

theorem writeStridedChk_size (buf : Array Byte) (pos stride : Nat) (bs : List Byte) (buf' : Array Byte)
    (h : writeStridedChk buf pos stride bs = some buf') : buf'.size = buf.size := by
  induction bs generalizing buf pos with
  | nil => simp [writeStridedChk] at h; subst h; rfl
  | cons b bs ih =>
    unfold writeStridedChk at h
    split at h
    · have := ih _ _ h; simpa using this
    · cases h

theorem writeStrided_size (buf : Array Byte) (pos stride : Nat) (bs : List Byte) :
    (writeStrided buf pos stride bs).size = buf.size := by
  induction bs generalizing buf pos with
  | nil => rfl
  | cons b bs ih => simp [writeStrided, ih]

/-- the pre-check of rle.go (`pos + (length-1)*sampleOffset < len(buffer)`) makes every store of
    the run in range — for every stride, including 0 -/
theorem writeStridedChk_ok (buf : Array Byte) (pos stride : Nat) (bs : List Byte)
    (h : bs = [] ∨ pos + (bs.length - 1) * stride < buf.size) :
    writeStridedChk buf pos stride bs = some (writeStrided buf pos stride bs) := by
  induction bs generalizing buf pos with
  | nil => rfl
  | cons b bs ih =>
    have hb : pos + bs.length * stride < buf.size := by
      rcases h with h | h
      · cases h
      · simpa using h
    have hpos : pos < buf.size := Nat.lt_of_le_of_lt (Nat.le_add_right _ _) hb
    unfold writeStridedChk writeStrided
    rw [dif_pos hpos]
    have hset : buf.setIfInBounds pos b = buf.set pos b hpos := by
      simp [Array.setIfInBounds, hpos]
    rw [hset]
    apply ih
    cases bs with
    | nil => exact Or.inl rfl
    | cons c cs =>
      right
      simp only [List.length_cons, Nat.add_sub_cancel, Array.size_set] at hb ⊢
      have : pos + stride + cs.length * stride = pos + (cs.length + 1) * stride := by
        rw [Nat.add_mul]; omega
      omega

def liftErr : Except DecErr (Array Byte) → Except ChkErr (Array Byte)
  | .ok b => .ok b
  | .error e => .error (.err e)

/-- the bounds-checked decoder never takes its `oob` branch: it IS the unchecked one -/
theorem decodeLoopChk_eq (stride : Nat) (buf : Array Byte) (pos : Nat) (rem : List Byte) :
    decodeLoopChk stride buf pos rem = liftErr (decodeLoop stride buf pos rem) := by
  fun_induction decodeLoop stride buf pos rem with
  | case1 buf pos => unfold decodeLoopChk; rfl
  | case2 buf pos c rest h1 => unfold decodeLoopChk; simp [h1, liftErr]
  | case3 buf pos c rest h1 h2 length h3 =>
    simp only [length] at h3
    unfold decodeLoopChk; simp [h1, h2, h3, liftErr]
  | case4 buf pos c rest h1 h2 length h3 h4 =>
    simp only [length] at h3 h4
    have h4' : buf.size ≤ pos + c * stride := by simpa using h4
    unfold decodeLoopChk; simp [h1, h2, h3, h4', liftErr]
  | case5 buf pos c rest h1 h2 length h3 h4 buf' rem' h5 =>
    simp only [length, rem'] at h3 h4 h5
    have hlen : (rest.take (c + 1)).length = c + 1 := by
      simp [List.length_take]; omega
    have hw := writeStridedChk_ok buf pos stride (rest.take (c + 1)) (Or.inr (by rw [hlen]; omega))
    have h4' : ¬ buf.size ≤ pos + c * stride := by simpa using h4
    have h5' : rest.length ≤ 1 + (c + 1) := by simpa using h5
    unfold decodeLoopChk
    simp [h1, h2, h3, h4', hw, h5', liftErr, buf', length]
  | case6 buf pos c rest h1 h2 length h3 h4 buf' rem' h5 ih =>
    simp only [length, rem', buf'] at h3 h4 h5 ih
    have hlen : (rest.take (c + 1)).length = c + 1 := by
      simp [List.length_take]; omega
    have hw := writeStridedChk_ok buf pos stride (rest.take (c + 1)) (Or.inr (by rw [hlen]; omega))
    have h4' : ¬ buf.size ≤ pos + c * stride := by simpa using h4
    have h5' : ¬ rest.length ≤ 1 + (c + 1) := by simpa using h5
    unfold decodeLoopChk
    simpa [h1, h2, h3, h4', hw, h5', buf', rem', length] using ih
  | case7 buf pos c rest h1 h2 h3 length h4 =>
    simp only [length] at h4
    unfold decodeLoopChk; simp [h1, h2, h3, h4, liftErr]
  | case8 buf pos c h1 h2 h3 length h4 =>
    simp only [length] at h4
    unfold decodeLoopChk; simp [h1, h2, h3, h4, liftErr]
  | case9 buf pos c h1 h2 h3 length h4 b rest' buf' h5 =>
    simp only [length] at h4
    have hw := writeStridedChk_ok buf pos stride (List.replicate (257 - c) b)
      (Or.inr (by simp only [List.length_replicate]; omega))
    unfold decodeLoopChk
    simp [h1, h2, h3, h4, hw, h5, liftErr, buf', length]
  | case10 buf pos c h1 h2 h3 length h4 b rest' buf' h5 ih =>
    simp only [length, buf'] at h4 ih
    have hw := writeStridedChk_ok buf pos stride (List.replicate (257 - c) b)
      (Or.inr (by simp only [List.length_replicate]; omega))
    unfold decodeLoopChk
    simpa [h1, h2, h3, h4, hw, h5, buf', length] using ih
  | case11 buf pos c rest h1 h2 h3 h4 =>
    unfold decodeLoopChk; simp [h1, h2, h3, h4, liftErr]
  | case12 buf pos c rest h1 h2 h3 h4 ih =>
    unfold decodeLoopChk; simpa [h1, h2, h3, h4] using ih

theorem decodeLoopChk_ne_oob (stride : Nat) (buf : Array Byte) (pos : Nat) (rem : List Byte) :
    decodeLoopChk stride buf pos rem ≠ .error .oob := by
  rw [decodeLoopChk_eq]
  cases decodeLoop stride buf pos rem <;> simp [liftErr]

theorem decodeSegmentsChk_ne_oob (i : Info) (data : List Byte) (n : Nat) (offs : List Nat)
    (k s : Nat) (buf : Array Byte) : decodeSegmentsChk i data n offs k s buf ≠ .error .oob := by
  induction k generalizing s buf with
  | zero => simp [decodeSegmentsChk]
  | succ k ih =>
    unfold decodeSegmentsChk
    have h := decodeLoopChk_ne_oob i.segStride buf (i.segStart s) (segmentSlice data n offs s)
    cases hd : decodeLoopChk i.segStride buf (i.segStart s) (segmentSlice data n offs s) with
    | error e =>
      simp only
      intro he
      injection he with he
      subst he
      exact h hd
    | ok b => simp only; exact ih _ _

theorem decodeSegmentsChk_eq (i : Info) (data : List Byte) (n : Nat) (offs : List Nat)
    (k s : Nat) (buf : Array Byte) :
    decodeSegmentsChk i data n offs k s buf = liftErr (decodeSegments i data n offs k s buf) := by
  induction k generalizing s buf with
  | zero => simp [decodeSegmentsChk, decodeSegments, liftErr]
  | succ k ih =>
    unfold decodeSegmentsChk decodeSegments
    rw [decodeLoopChk_eq]
    cases decodeLoop i.segStride buf (i.segStart s) (segmentSlice data n offs s) with
    | error e => simp [liftErr]
    | ok b => simp only [liftErr]; exact ih _ _

/-! ## frame level -/

theorem decodeFrameC_no_store_panic (i : Info) (data : List Byte) :
    (decodeFrameC i data).1 ≠ .panic .store := by
  unfold decodeFrameC
  split
  · simp
  · split
    · simp
    · split
      · simp
      · split
        · simp
        · have h := decodeSegmentsChk_ne_oob i data ‹_› ‹_› ‹_› 0 (Array.replicate i.frameSize 0)
          split
          · exact absurd ‹_› h
          · simp
          · simp

theorem decodeFrameC_total_of_alloc (i : Info) (data : List Byte) (ha : i.frameSize ≤ maxAlloc) (s : Site) :
    (decodeFrameC i data).1 ≠ .panic s := by
  cases s with
  | store => exact decodeFrameC_no_store_panic i data
  | makeslice =>
    have hn : ¬ i.frameSize > maxAlloc := by omega
    unfold decodeFrameC
    split
    · simp
    · split
      · simp
      · split
        · simp
        · split <;> simp

/-- forget the panic site and the allocation list -/
def OutcomeC.plain {α} : OutcomeC α → Outcome α
  | .ok a => .ok a
  | .err => .err
  | .panic _ => .panic

/-- when the allocation is accepted the C08 view and the C01 model are the same function -/
theorem decodeFrameC_agrees (i : Info) (data : List Byte) (ha : i.frameSize ≤ maxAlloc) :
    (decodeFrameC i data).1.plain = decodeFrame i data := by
  have hn : ¬ i.frameSize > maxAlloc := by omega
  unfold decodeFrameC decodeFrame
  split
  · rfl
  · cases parseHeader data with
    | none => rfl
    | some p =>
      obtain ⟨n, offs⟩ := p
      simp only
      split
      · rfl
      · rw [decodeSegmentsChk_eq]
        cases decodeSegments i data n offs n 0 (Array.replicate i.frameSize 0) with
        | error e => simp [liftErr, OutcomeC.plain]
        | ok b => simp [liftErr, OutcomeC.plain]

theorem bytesAllocated_le (i : Info) : i.bytesAllocated ≤ 8192 := by
  unfold Info.bytesAllocated; omega

theorem bytesAllocated_le_64 (i : Info) (h1 : 1 ≤ i.bitsAllocated) (h2 : i.bitsAllocated ≤ 512) :
    i.bytesAllocated ≤ 64 := by
  unfold Info.bytesAllocated; omega

theorem nativeLen_eq (i : Info) : i.nativeLen = i.bytesAllocated * i.samples := by
  unfold Info.nativeLen Info.samples
  simp only [Nat.mul_assoc, Nat.mul_comm, Nat.mul_left_comm]

theorem frameSize_le (i : Info) : i.frameSize ≤ i.bytesAllocated * i.samples + 1 := by
  unfold Info.frameSize
  rw [nativeLen_eq]
  simp only
  split <;> omega

/-- every allocation of decodeFrame is the frame buffer -/
theorem decodeFrameC_allocs (i : Info) (data : List Byte) :
    ∀ a ∈ (decodeFrameC i data).2, a = i.frameSize := by
  unfold decodeFrameC
  split
  · simp
  · split
    · simp
    · split
      · simp
      · split
        · simp
        · split <;> simp

end Rle
