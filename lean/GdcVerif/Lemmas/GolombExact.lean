import GdcVerif.Model.Golomb
import GdcVerif.Lemmas.Golomb
/-!
  `GolombWriter` bookkeeping (model `Model/Golomb.lean`): the `freeBitCount` low bits of the
  32-bit buffer are zero, `isFFWritten` is exactly "the last byte written is 0xFF", and
  therefore the end-of-scan `Flush()` never leaves a 0xFF as the last byte of the scan and
  always writes at least one byte once a bit has been written.
-/
namespace Golomb

/-- the low `freeBitCount` bits of the buffer are zero -/
def LowZ (w : Writer) : Prop := ∀ i : Nat, (i : Int) < w.free → w.buf.testBit i = false

/-- strengthened writer invariant -/
def J (w : Writer) : Prop :=
  Inv w ∧ LowZ w ∧ (w.ff = true → w.out.getLast? = some 255) ∧ (w.ff = true → w.free ≤ 32)

theorem J_new : J Writer.new :=
  ⟨inv_new, fun i _ => Nat.zero_testBit i, by simp [Writer.new], by simp [Writer.new]⟩

theorem m32_eq : M32 = 2 ^ 32 := by decide

theorem testBit_shl_mod (b k i : Nat) : ((b <<< k) % M32).testBit i = (decide (i < 32) && (decide (i ≥ k) && b.testBit (i - k))) := by
  rw [m32_eq, Nat.testBit_mod_two_pow, Nat.testBit_shiftLeft]

theorem getLast_snoc (l : List Nat) (b : Nat) : (l ++ [b]).getLast? = some b := by simp

theorem J_flushStep (w : Writer) (h : J w) : J (flushStep w).1 := by
  obtain ⟨hi, hz, hf, hfr⟩ := h
  have hi' := inv_flushStep w hi
  refine ⟨hi', ?_⟩
  unfold flushStep
  split
  · rename_i hge
    refine ⟨fun i hi32 => hz i (by simp at hi32; omega), hf, fun _ => by simp⟩
  · rename_i hlt
    split
    · rename_i hff
      have hb := shr25_lt w.buf hi.1
      refine ⟨?_, ?_, ?_⟩
      · intro i hi7
        simp only at hi7
        rw [testBit_shl_mod]
        by_cases h1 : i ≥ 7
        · have := hz (i - 7) (by omega)
          simp [h1, this]
        · simp [h1]
      · intro hff'
        simp only [beq_iff_eq] at hff'
        omega
      · intro hff'
        simp only [beq_iff_eq] at hff'
        omega
    · rename_i hff
      refine ⟨?_, ?_, ?_⟩
      · intro i hi8
        simp only at hi8
        rw [testBit_shl_mod]
        by_cases h1 : i ≥ 8
        · have := hz (i - 8) (by omega)
          simp [h1, this]
        · simp [h1]
      · intro hff'
        simp only [beq_iff_eq] at hff'
        simp [hff']
      · intro hff'
        simp only [beq_iff_eq] at hff'
        simp only
        -- the byte 0xFF has its lowest bit set, i.e. bit 24 of the buffer: so at most 24 bits were free
        have hb24 : w.buf.testBit 24 = true := by
          have h0 : ((w.buf >>> 24) % 256).testBit 0 = true := by rw [hff']; decide
          have e : (256 : Nat) = 2 ^ 8 := by decide
          rw [e, Nat.testBit_mod_two_pow, Nat.testBit_shiftRight] at h0
          simpa using h0
        by_cases hc : (24 : Int) < w.free
        · have := hz 24 (by simpa using hc)
          rw [this] at hb24; exact absurd hb24 (by decide)
        · omega

/-- `n` iterations of the loop in `flush()` -/
def flushN : Nat → Writer → Writer
  | 0, w => w
  | n + 1, w => if (flushStep w).2 then flushN n (flushStep w).1 else (flushStep w).1

theorem flush_eq (w : Writer) : flush w = flushN 4 w := by
  unfold flush flushN flushN flushN flushN flushN
  simp only []
  by_cases h1 : (flushStep w).2 <;> simp only [h1]
  · by_cases h2 : (flushStep (flushStep w).1).2 <;> simp only [h2]
    · by_cases h3 : (flushStep (flushStep (flushStep w).1).1).2 <;> simp only [h3]
      · by_cases h4 : (flushStep (flushStep (flushStep (flushStep w).1).1).1).2 <;> simp [h4]
      · simp
    · simp
  · simp

theorem J_flushN : ∀ (n : Nat) (w : Writer), J w → J (flushN n w)
  | 0, _, h => h
  | n + 1, w, h => by
    unfold flushN
    split
    · exact J_flushN n _ (J_flushStep w h)
    · exact J_flushStep w h

theorem J_flush (w : Writer) (h : J w) : J (flush w) := by rw [flush_eq]; exact J_flushN 4 w h

theorem step_free (w : Writer) :
    (flushStep w).1.free = (if w.free ≥ 32 then 32 else if w.ff then w.free + 7 else w.free + 8) ∧
    (flushStep w).2 = decide (w.free < 32) := by
  unfold flushStep
  split
  · simp; omega
  · split <;> simp <;> omega

/-- if no iteration can hit the `freeBitCount >= 32` break, `n` iterations free between 7n and 8n bits -/
theorem flushN_free_all : ∀ (n : Nat) (w : Writer), w.free + 8 * ((n : Int) - 1) < 32 →
    ∃ s : Int, 7 * (n : Int) ≤ s ∧ s ≤ 8 * (n : Int) ∧ (flushN n w).free = w.free + s
  | 0, w, _ => ⟨0, by simp, by simp, by simp [flushN]⟩
  | n + 1, w, h => by
    obtain ⟨hf, hc⟩ := step_free w
    have hlt : w.free < 32 := by
      have : (0 : Int) ≤ (n : Int) := Int.natCast_nonneg n
      push_cast at h; omega
    have hge : ¬ w.free ≥ 32 := by omega
    unfold flushN
    rw [hc]
    simp only [hlt, decide_true, if_true]
    simp only [hge, if_false] at hf
    obtain ⟨s, hs1, hs2, hs3⟩ := flushN_free_all n (flushStep w).1 (by
      rw [hf]; push_cast at h ⊢; split <;> omega)
    refine ⟨(flushStep w).1.free - w.free + s, ?_, ?_, by omega⟩
    · rw [hf]; push_cast; split <;> omega
    · rw [hf]; push_cast; split <;> omega

theorem flushN_free_bounds : ∀ (n : Nat) (w : Writer), 0 ≤ w.free → w.free ≤ 39 →
    min 32 (w.free + 7 * (n : Int)) ≤ (flushN n w).free ∧ (flushN n w).free ≤ 39
  | 0, w, h0, h39 => by simp [flushN]; omega
  | n + 1, w, h0, h39 => by
    obtain ⟨hf, hc⟩ := step_free w
    unfold flushN
    rw [hc]
    by_cases hlt : w.free < 32
    · simp only [hlt, decide_true, if_true]
      have hge : ¬ w.free ≥ 32 := by omega
      simp only [hge, if_false] at hf
      have := flushN_free_bounds n (flushStep w).1 (by rw [hf]; split <;> omega) (by rw [hf]; split <;> omega)
      rw [hf] at this
      push_cast
      split at this <;> omega
    · simp only [hlt, decide_false, Bool.false_eq_true, if_false]
      have hge : w.free ≥ 32 := by omega
      simp only [hge, if_true] at hf
      rw [hf]; exact ⟨Int.min_le_left _ _, by omega⟩

theorem J_setFree (w : Writer) (h : J w) (f : Int) (hf : f ≤ w.free) (h32 : f ≤ 32) : J (setFree w f) := by
  obtain ⟨hi, hz, hff, _⟩ := h
  exact ⟨inv_setFree w hi f, fun i hi' => hz i (by simp [setFree] at hi'; omega), hff, fun _ => h32⟩

theorem J_orBuf (w : Writer) (h : J w) (x : Nat) (hx : x < M32)
    (hlow : ∀ i : Nat, (i : Int) < w.free → x.testBit i = false) : J (orBuf w x) := by
  obtain ⟨hi, hz, hff, hfr⟩ := h
  refine ⟨inv_orBuf w hi x hx, ?_, hff, hfr⟩
  intro i hi'
  simp only [orBuf] at hi' ⊢
  rw [Nat.testBit_or, hz i hi', hlow i hi']; rfl

theorem shl32_low (b : Nat) (k : Int) (i : Nat) (h : (i : Int) < k) : (shl32 b k).testBit i = false := by
  unfold shl32
  split
  · exact Nat.zero_testBit i
  · rw [testBit_shl_mod]
    have : ¬ i ≥ k.toNat := by omega
    simp [this]

/-- resting states of the writer: invariant `J` and `0 ≤ freeBitCount ≤ 32` -/
def K (w : Writer) : Prop := J w ∧ 0 ≤ w.free ∧ w.free ≤ 32

theorem K_new : K Writer.new := ⟨J_new, by decide, by decide⟩

/-- `WriteBits(bits, n)` with `0 ≤ n ≤ 32` returns to a resting state -/
theorem K_writeBits (w : Writer) (h : K w) (bits : Nat) (n : Int) (hb : bits < M32) (hn : 0 ≤ n ∧ n ≤ 32) :
    K (writeBits w bits n) := by
  obtain ⟨hJ, h0, h32⟩ := h
  unfold writeBits
  have hJ0 : J (setFree w (w.free - n)) := J_setFree w hJ _ (by omega) (by omega)
  have hf0 : (setFree w (w.free - n)).free = w.free - n := rfl
  dsimp only
  split
  · rename_i hge
    rw [hf0] at hge
    refine ⟨J_orBuf _ hJ0 _ (shl32_lt _ _) (fun i hi => shl32_low _ _ i hi), ?_, ?_⟩
    · show w.free - n ≥ 0; exact hge
    · show w.free - n ≤ 32; omega
  · rename_i hlt
    rw [hf0] at hlt
    -- first flush: four bytes
    have hJ1 : J (orBuf (setFree w (w.free - n)) (shr32 bits (-(setFree w (w.free - n)).free))) :=
      J_orBuf _ hJ0 _ (shr32_lt _ _ hb) (fun i hi => by rw [hf0] at hi; omega)
    have hfree1 : (orBuf (setFree w (w.free - n)) (shr32 bits (-(setFree w (w.free - n)).free))).free = w.free - n := rfl
    generalize orBuf (setFree w (w.free - n)) (shr32 bits (-(setFree w (w.free - n)).free)) = w1 at *
    have hJ2 := J_flush w1 hJ1
    obtain ⟨s, hs1, hs2, hs3⟩ := flushN_free_all 4 w1 (by rw [hfree1]; push_cast; omega)
    rw [← flush_eq] at hs3
    push_cast at hs1 hs2
    generalize flush w1 = w2 at *
    split
    · rename_i hneg
      have hJ3 : J (orBuf w2 (shr32 bits (-w2.free))) :=
        J_orBuf _ hJ2 _ (shr32_lt _ _ hb) (fun i hi => by omega)
      have hfree3 : (orBuf w2 (shr32 bits (-w2.free))).free = w2.free := rfl
      generalize orBuf w2 (shr32 bits (-w2.free)) = w3 at *
      have hJ4 := J_flush w3 hJ3
      obtain ⟨s', ht1, ht2, ht3⟩ := flushN_free_all 4 w3 (by rw [hfree3]; push_cast; omega)
      rw [← flush_eq] at ht3
      push_cast at ht1 ht2
      generalize flush w3 = w4 at *
      refine ⟨J_orBuf _ hJ4 _ (shl32_lt _ _) (fun i hi => shl32_low _ _ i hi), ?_, ?_⟩
      · show w4.free ≥ 0; omega
      · show w4.free ≤ 32; omega
    · rename_i hnn
      refine ⟨J_orBuf _ hJ2 _ (shl32_lt _ _) (fun i hi => shl32_low _ _ i hi), ?_, ?_⟩
      · show w2.free ≥ 0; omega
      · show w2.free ≤ 32; omega

theorem K_writeAll : ∀ (ws : List (Nat × Int)) (w : Writer), K w →
    (∀ p ∈ ws, p.1 < M32 ∧ 0 ≤ p.2 ∧ p.2 ≤ 32) → K (writeAll w ws)
  | [], _, h, _ => h
  | p :: rest, w, h, hv => by
    show K (writeAll (writeBits w p.1 p.2) rest)
    have hp := hv p (by simp)
    exact K_writeAll rest _ (K_writeBits w h p.1 p.2 hp.1 hp.2) (fun q hq => hv q (by simp [hq]))

theorem step_ff_ge (w : Writer) (h : w.free ≥ 32) : (flushStep w).1.ff = w.ff := by
  unfold flushStep; simp only [h, if_true]

theorem step_ff_7 (w : Writer) (h : w.free < 32) (hff : w.ff = true) :
    (flushStep w).1.ff = ((w.buf >>> 25) % 256 == 255) := by
  unfold flushStep
  have : ¬ w.free ≥ 32 := by omega
  simp only [this, if_false, hff, if_true]

theorem step_ff_8 (w : Writer) (h : w.free < 32) (hff : w.ff = false) :
    (flushStep w).1.ff = ((w.buf >>> 24) % 256 == 255) := by
  unfold flushStep
  have : ¬ w.free ≥ 32 := by omega
  simp only [this, if_false, hff, Bool.false_eq_true]

/-- one emitting step that reaches ≥ 32 free bits, then the loop stops: `isFFWritten` is that step's -/
theorem flushN_one (n : Nat) (w : Writer) (hlt : w.free < 32) (hge : (flushStep w).1.free ≥ 32) :
    (flushN (n + 2) w).ff = (flushStep w).1.ff := by
  unfold flushN
  rw [(step_free w).2]
  simp only [hlt, decide_true, if_true]
  unfold flushN
  rw [(step_free _).2]
  have : ¬ (flushStep w).1.free < 32 := by omega
  simp only [this, decide_false, Bool.false_eq_true, if_false]
  exact step_ff_ge _ hge

/-- a flush that starts with 25 free bits after a 0xFF writes one 7-bit byte and clears `isFFWritten` -/
theorem flush_after_ff (w : Writer) (hJ : J w) (hfree : w.free = 25) (hff : w.ff = true) :
    (flush w).ff = false := by
  have hb := shr25_lt w.buf hJ.1.1
  rw [flush_eq, flushN_one 2 w (by omega) (by
    rw [(step_free w).1]; have : ¬ w.free ≥ 32 := by omega
    simp only [this, if_false, hff, if_true]; omega)]
  rw [step_ff_7 w (by omega) hff]
  simp only [beq_eq_false_iff_ne, ne_eq]; omega

/-- a flush from a state with ≥ 28 free bits and no pending 0xFF leaves `isFFWritten` false -/
theorem flush_tail_noff (w : Writer) (hJ : J w) (hfree : 28 ≤ w.free) (hff : w.ff = false) :
    (flush w).ff = false := by
  rw [flush_eq]
  by_cases hge : w.free ≥ 32
  · unfold flushN
    rw [(step_free w).2]
    have : ¬ w.free < 32 := by omega
    simp only [this, decide_false, Bool.false_eq_true, if_false]
    rw [step_ff_ge w hge, hff]
  · have hbit : w.buf.testBit 24 = false := hJ.2.1 24 (by omega)
    rw [flushN_one 2 w (by omega) (by
      rw [(step_free w).1]; simp only [hge, if_false, hff, Bool.false_eq_true]; omega)]
    rw [step_ff_8 w (by omega) hff]
    simp only [beq_eq_false_iff_ne, ne_eq]
    intro h255
    have h0 : ((w.buf >>> 24) % 256).testBit 0 = true := by rw [h255]; decide
    have e : (256 : Nat) = 2 ^ 8 := by decide
    rw [e, Nat.testBit_mod_two_pow, Nat.testBit_shiftRight] at h0
    simp [hbit] at h0

/-- `Flush()` ends with `isFFWritten = false` -/
theorem finish_ff (w : Writer) (h : K w) : (finish w).ff = false := by
  obtain ⟨hJ, h0, h32⟩ := h
  have hJ1 := J_flush w hJ
  have hb := flushN_free_bounds 4 w h0 (by omega)
  rw [← flush_eq] at hb
  have h28 : 28 ≤ (flush w).free := by
    have := hb.1; push_cast at this; omega
  unfold finish
  dsimp only
  generalize flush w = w1 at *
  by_cases hff : w1.ff = true
  · simp only [hff, if_true]
    have hle := hJ1.2.2.2 hff
    have hpad : Int.tmod (w1.free - 1) 8 = w1.free - 25 := by
      rw [Int.tmod_eq_emod_of_nonneg (by omega)]; omega
    rw [hpad]
    -- WriteBits(0, pad) just lowers freeBitCount to 25
    have hw : writeBits w1 0 (w1.free - 25) = orBuf (setFree w1 25) (shl32 0 25) := by
      unfold writeBits
      have e : w1.free - (w1.free - 25) = 25 := by omega
      dsimp only
      rw [e]
      have : (setFree w1 25).free ≥ 0 := by show (25 : Int) ≥ 0; decide
      simp only [this, if_true]
      rfl
    rw [hw]
    have hJ2 : J (orBuf (setFree w1 25) (shl32 0 25)) :=
      J_orBuf _ (J_setFree w1 hJ1 25 (by omega) (by decide)) _ (shl32_lt _ _) (fun i hi => shl32_low _ _ i hi)
    exact flush_after_ff _ hJ2 rfl hff
  · have hff' : w1.ff = false := by simpa using hff
    simp only [hff', Bool.false_eq_true, if_false]
    exact flush_tail_noff w1 hJ1 h28 hff'

/-- the scan never ends on 0xFF -/
theorem finish_last_ne (w : Writer) (h : K w) : (finish w).out.getLast? ≠ some 255 := by
  intro hl
  have hi : Inv (finish w) := inv_finish w h.1.1
  have := hi.2.2.1 hl
  rw [finish_ff w h] at this
  exact absurd this (by decide)

/-! ### at least one byte is written once a bit has been written -/

theorem out_ne_flushStep (w : Writer) (h : w.out ≠ []) : (flushStep w).1.out ≠ [] := by
  unfold flushStep
  split
  · exact h
  · split <;> simp

theorem flushStep_emits (w : Writer) (h : w.free < 32) : (flushStep w).1.out ≠ [] := by
  unfold flushStep
  have : ¬ w.free ≥ 32 := by omega
  simp only [this, if_false]
  split <;> simp

theorem out_ne_flushN : ∀ (n : Nat) (w : Writer), w.out ≠ [] → (flushN n w).out ≠ []
  | 0, _, h => h
  | n + 1, w, h => by
    unfold flushN
    split
    · exact out_ne_flushN n _ (out_ne_flushStep w h)
    · exact out_ne_flushStep w h

theorem flushN_emits (n : Nat) (w : Writer) (h : w.free < 32) : (flushN (n + 1) w).out ≠ [] := by
  unfold flushN
  split
  · exact out_ne_flushN n _ (flushStep_emits w h)
  · exact flushStep_emits w h

theorem out_ne_flush (w : Writer) (h : w.out ≠ []) : (flush w).out ≠ [] := by
  rw [flush_eq]; exact out_ne_flushN 4 w h

theorem flush_emits (w : Writer) (h : w.free < 32) : (flush w).out ≠ [] := by
  rw [flush_eq]; exact flushN_emits 3 w h

/-- something is pending or already written -/
def M (w : Writer) : Prop := w.out ≠ [] ∨ w.free < 32

theorem M_writeBits (w : Writer) (bits : Nat) (n : Int) (hfree : w.free ≤ 32)
    (h : M w ∨ 1 ≤ n) (hn : 0 ≤ n) : M (writeBits w bits n) := by
  unfold writeBits
  dsimp only
  have hf0 : (setFree w (w.free - n)).free = w.free - n := rfl
  split
  · rename_i hge
    rcases h with (ho | hl) | h1
    · exact Or.inl ho
    · right; show w.free - n < 32; omega
    · right; show w.free - n < 32; omega
  · rename_i hlt
    rw [hf0] at hlt
    left
    have h1 : (flush (orBuf (setFree w (w.free - n)) (shr32 bits (-(setFree w (w.free - n)).free)))).out ≠ [] :=
      flush_emits _ (by show w.free - n < 32; omega)
    split
    · exact out_ne_flush _ h1
    · exact h1

theorem M_writeAll : ∀ (ws : List (Nat × Int)) (w : Writer), K w →
    (∀ p ∈ ws, p.1 < M32 ∧ 0 ≤ p.2 ∧ p.2 ≤ 32) → (M w ∨ ∃ p ∈ ws, 1 ≤ p.2) → M (writeAll w ws)
  | [], _, _, _, h => by
    rcases h with h | ⟨p, hp, _⟩
    · exact h
    · simp at hp
  | p :: rest, w, hK, hv, h => by
    show M (writeAll (writeBits w p.1 p.2) rest)
    have hp := hv p (by simp)
    have hK' := K_writeBits w hK p.1 p.2 hp.1 hp.2
    refine M_writeAll rest _ hK' (fun q hq => hv q (by simp [hq])) ?_
    rcases h with hM | ⟨q, hq, hq1⟩
    · exact Or.inl (M_writeBits w p.1 p.2 hK.2.2 (Or.inl hM) hp.2.1)
    · simp only [List.mem_cons] at hq
      rcases hq with rfl | hq
      · exact Or.inl (M_writeBits w q.1 q.2 hK.2.2 (Or.inr hq1) hp.2.1)
      · exact Or.inr ⟨q, hq, hq1⟩

theorem out_ne_writeBits (w : Writer) (bits : Nat) (n : Int) (h : w.out ≠ []) : (writeBits w bits n).out ≠ [] := by
  unfold writeBits
  dsimp only
  split
  · exact h
  · have h1 : (flush (orBuf (setFree w (w.free - n)) (shr32 bits (-(setFree w (w.free - n)).free)))).out ≠ [] :=
      out_ne_flush _ h
    split
    · exact out_ne_flush _ h1
    · exact h1

theorem finish_out_ne (w : Writer) (h : M w) : (finish w).out ≠ [] := by
  unfold finish
  dsimp only
  have h1 : (flush w).out ≠ [] := by
    rcases h with h | h
    · exact out_ne_flush w h
    · exact flush_emits w h
  split
  · exact out_ne_flush _ (out_ne_writeBits _ _ _ h1)
  · exact out_ne_flush _ h1

end Golomb
