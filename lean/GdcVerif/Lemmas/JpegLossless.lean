import GdcVerif.Model.JpegLossless
/-!
  Lemmas for C02 layers L1–L3 (prediction / difference wrap / categories) and the
  `&`-mask lemma used by the proposed repair.  Proof scripts are written against the
  regenerated `Gen.JpegLossless.Predictor` / `losslessDifference`.
-/
namespace JLL
open Gen.JpegLossless


theorem shr1 (x : Int) : Go.shr x 1 = x / 2 := by
  simp [Go.shr, Int.shiftRight_eq_div_pow]

def NbIn (P : Int) (nb : Nb) : Prop :=
  0 ≤ nb.left ∧ nb.left < Go.shl 1 P ∧ 0 ≤ nb.up ∧ nb.up < Go.shl 1 P ∧ 0 ≤ nb.upLeft ∧ nb.upLeft < Go.shl 1 P

instance (P : Int) (nb : Nb) : Decidable (NbIn P nb) := by unfold NbIn; infer_instance

theorem pred_cases (p : Int) (h1 : 1 ≤ p) (h2 : p ≤ 7) :
    p = 1 ∨ p = 2 ∨ p = 3 ∨ p = 4 ∨ p = 5 ∨ p = 6 ∨ p = 7 := by omega

/-- facts about 2^P and 2^(P-1) for P in 2..16, obtained by evaluation -/
theorem pow_facts (P : Int) (h1 : 2 ≤ P) (h2 : P ≤ 16) :
    let M := Go.shl 1 P; let H := Go.shl 1 (P - 1)
    M = 2 * H ∧ 2 ≤ H ∧ M ≤ 65536 ∧ (P ≤ 15 → M ≤ 32768) ∧ (P ≤ 14 → M ≤ 16384) ∧ (P = 16 → M = 65536)
      ∧ (P = 15 → M = 32768) := by
  have : P = 2 ∨ P = 3 ∨ P = 4 ∨ P = 5 ∨ P = 6 ∨ P = 7 ∨ P = 8 ∨ P = 9 ∨ P = 10 ∨ P = 11 ∨ P = 12 ∨ P = 13 ∨
    P = 14 ∨ P = 15 ∨ P = 16 := by omega
  rcases this with h|h|h|h|h|h|h|h|h|h|h|h|h|h|h <;> subst h <;> decide

/-- the scan loops' prediction with the default value abstracted -/
theorem encPredicted_eq (P predictor row col : Int) (nb : Nb) :
    encPredicted P predictor row col nb =
      (let H := Go.shl 1 (P - 1)
       if col = 0 ∧ row = 0 then H
       else if row = 0 then (if col > 0 then nb.left else if row > 0 ∧ predictor = 1 then nb.up else H)
       else if col = 0 then (if row > 0 then nb.up else H)
       else
       Predictor predictor (if col > 0 then nb.left else if row > 0 ∧ predictor = 1 then nb.up else H)
         (if row > 0 then nb.up else H) (if row > 0 ∧ col > 0 then nb.upLeft else H)) := rfl

theorem predictor_range (M predictor ra rb rc : Int) (hp : 1 ≤ predictor ∧ predictor ≤ 7)
    (ha : 0 ≤ ra ∧ ra < M) (hb : 0 ≤ rb ∧ rb < M) (hc : 0 ≤ rc ∧ rc < M) :
    (-M ≤ Predictor predictor ra rb rc ∧ Predictor predictor ra rb rc < 2 * M) ∧
    ((predictor = 1 ∨ predictor = 2 ∨ predictor = 3 ∨ predictor = 7) →
      0 ≤ Predictor predictor ra rb rc ∧ Predictor predictor ra rb rc < M) := by
  rcases pred_cases predictor hp.1 hp.2 with h|h|h|h|h|h|h <;> subst h <;>
    simp [Predictor, shr1] <;> omega

theorem encPredicted_range (P predictor row col : Int) (nb : Nb) (hP : 2 ≤ P ∧ P ≤ 16)
    (hp : 1 ≤ predictor ∧ predictor ≤ 7) (hnb : NbIn P nb) :
    let M := Go.shl 1 P
    (-M ≤ encPredicted P predictor row col nb ∧ encPredicted P predictor row col nb < 2 * M) ∧
    ((predictor = 1 ∨ predictor = 2 ∨ predictor = 3 ∨ predictor = 7) →
      0 ≤ encPredicted P predictor row col nb ∧ encPredicted P predictor row col nb < M) := by
  have hf := pow_facts P hP.1 hP.2
  simp only at hf
  obtain ⟨hM, hH, _⟩ := hf
  rw [encPredicted_eq]
  simp only [NbIn] at hnb
  generalize Go.shl 1 P = M at *
  generalize Go.shl 1 (P - 1) = H at *
  simp only
  split
  · omega
  · split
    · (repeat' split) <;> omega
    · split
      · (repeat' split) <;> omega
      · apply predictor_range M predictor _ _ _ hp <;> (repeat' split) <;> omega

theorem core_small (M s p x : Int) (hs : 0 ≤ s ∧ s < M) (h : -32768 ≤ s - p ∧ s - p ≤ 32767)
    (hx : x = p + Go.wrap16 (s - p)) :
    (if x < 0 then x + M else if x ≥ M then x - M else x) = s := by
  simp only [Go.wrap16] at hx
  split <;> (try split) <;> omega

theorem core_16 (s p x : Int) (hs : 0 ≤ s ∧ s < 65536) (hp : 0 ≤ p ∧ p < 65536)
    (hx : x = p + Go.wrap16 (s - p)) :
    (if x < 0 then x + 65536 else if x ≥ 65536 then x - 65536 else x) = s := by
  simp only [Go.wrap16] at hx
  split <;> (try split) <;> omega

theorem decPredicted_eq_enc (P predictor row col : Int) (nb : Nb) :
    decPredicted P predictor row col nb = encPredicted P predictor row col nb := rfl

theorem wrap_once_inverse' (P predictor row col : Int) (nb : Nb) (sample : Int)
    (hP : 2 ≤ P ∧ P ≤ 16) (hp : 1 ≤ predictor ∧ predictor ≤ 7)
    (hnb : NbIn P nb) (hs : 0 ≤ sample ∧ sample < Go.shl 1 P)
    (hok : predictor = 1 ∨ predictor = 2 ∨ predictor = 3 ∨ predictor = 7 ∨ P ≤ 14 ∨
       (0 ≤ encPredicted P predictor row col nb ∧ encPredicted P predictor row col nb < Go.shl 1 P)) :
    sv1DecSample P (decPredicted P predictor row col nb) (encDiff sample (encPredicted P predictor row col nb)) = sample := by
  have hf := pow_facts P hP.1 hP.2
  have hr := encPredicted_range P predictor row col nb hP hp hnb
  simp only at hf hr
  rw [decPredicted_eq_enc]
  generalize encPredicted P predictor row col nb = p at *
  simp only [sv1DecSample, wrapDec, encDiff, losslessDifference]
  generalize Go.shl 1 P = M at *
  by_cases h16 : P = 16
  · have hM : M = 65536 := hf.2.2.2.2.2.1 h16
    subst hM
    have hpr : 0 ≤ p ∧ p < 65536 := by
      rcases hok with h|h|h|h|h|h
      · exact hr.2 (by omega)
      · exact hr.2 (by omega)
      · exact hr.2 (by omega)
      · exact hr.2 (by omega)
      · omega
      · exact h
    exact core_16 sample p _ hs hpr rfl
  · apply core_small M sample p _ hs _ rfl
    have h15 : M ≤ 32768 := hf.2.2.2.1 (by omega)
    rcases hok with h|h|h|h|h|h
    · have := hr.2 (by omega); omega
    · have := hr.2 (by omega); omega
    · have := hr.2 (by omega); omega
    · have := hr.2 (by omega); omega
    · have := hf.2.2.2.2.1 h; omega
    · omega


/-- `x & (2^k - 1) = x mod 2^k` for Go's 64-bit `&` (k ≤ 62, any x) -/
theorem and_mask (x : Int) (k : Nat) (hk : k ≤ 62) : Go.and x ((2:Int) ^ k - 1) = x % (2:Int) ^ k := by
  unfold Go.and
  have hpos : (0:Int) < (2:Int)^k := Int.pow_pos (by decide)
  have hkn : (2:Nat)^k ≤ 2^62 := Nat.pow_le_pow_right (by decide) hk
  have hm : (BitVec.ofInt 64 ((2:Int) ^ k - 1)).toNat = 2 ^ k - 1 := by
    rw [BitVec.toNat_ofInt]
    have h1 : ((2:Int)^k - 1) % ((2 ^ 64 : Nat) : Int) = (2:Int)^k - 1 := by
      apply Int.emod_eq_of_lt
      · omega
      · have : ((2:Nat)^k : Int) = (2:Int)^k := by simp
        omega
    rw [h1]
    have : ((2:Nat)^k : Int) = (2:Int)^k := by simp
    omega
  rw [BitVec.toInt_eq_toNat_cond, BitVec.toNat_and, hm, Nat.and_two_pow_sub_one_eq_mod, BitVec.toNat_ofInt]
  have hlt : (x % ((2 ^ 64 : Nat) : Int)).toNat % 2 ^ k < 2 ^ k := Nat.mod_lt _ (Nat.pow_pos (by decide))
  rw [if_pos (by omega)]
  have hnn : 0 ≤ x % ((2 ^ 64 : Nat) : Int) := Int.emod_nonneg _ (by decide)
  rw [Int.natCast_emod, Int.toNat_of_nonneg hnn]
  have hd : ((2:Int)^k) ∣ ((2 ^ 64 : Nat) : Int) := by
    refine ⟨(2:Int)^(64-k), ?_⟩
    rw [← Int.pow_add]
    have : k + (64 - k) = 64 := by omega
    rw [this]; rfl
  simpa using Int.emod_emod_of_dvd x hd


theorem shl_one (c : Nat) : Go.shl 1 (c : Int) = (2:Int) ^ c := by simp [Go.shl]
theorem shl_negone (c : Nat) : Go.shl (-1) (c : Int) = -(2:Int) ^ c := by simp [Go.shl]

theorem pow_succ' (c : Nat) : (2:Int) ^ (c + 1) = 2 * (2:Int) ^ c := by
  rw [Int.pow_succ]; omega

/-- the category loop finds the bit length of `a` -/
theorem catLoop_spec (a : Int) : ∀ (fuel c : Nat), 1 ≤ c → (2:Int) ^ (c - 1) ≤ a → a < (2:Int) ^ (c + fuel) →
    ∃ k : Nat, catLoop a fuel (c : Int) = (k : Int) ∧ c ≤ k ∧ k ≤ c + fuel ∧ (2:Int) ^ (k - 1) ≤ a ∧ a < (2:Int) ^ k := by
  intro fuel
  induction fuel with
  | zero => intro c hc hlo hhi; exact ⟨c, rfl, Nat.le_refl _, by omega, hlo, by simpa using hhi⟩
  | succ f ih =>
    intro c hc hlo hhi
    unfold catLoop
    rw [shl_one]
    by_cases h : (2:Int) ^ c ≤ a
    · rw [if_pos h]
      have := ih (c + 1) (by omega) (by simpa using h) (by rw [show c + 1 + f = c + (f + 1) by omega]; exact hhi)
      obtain ⟨k, hk, h1, h2, h3, h4⟩ := this
      exact ⟨k, by simpa using hk, by omega, by omega, h3, h4⟩
    · rw [if_neg h]
      exact ⟨c, rfl, Nat.le_refl _, by omega, hlo, by omega⟩


theorem two_pow_mono {b c : Nat} (h : b ≤ c) : (2:Int) ^ b ≤ (2:Int) ^ c := by
  rcases Nat.lt_or_eq_of_le h with h | h
  · exact Int.le_of_lt (Int.pow_lt_pow_of_lt (by decide) h)
  · subst h; exact Int.le_refl _

/-- `EncodeCategory` on a non-zero 17-bit value: category k is the bit length of |val| -/
theorem encodeCategory_spec (val : Int) (h0 : val ≠ 0) (hlo : -(2:Int) ^ 16 < val) (hhi : val < (2:Int) ^ 16) :
    ∃ k : Nat, 1 ≤ k ∧ k ≤ 16 ∧ (2:Int) ^ (k - 1) ≤ (if val < 0 then -val else val) ∧
      (if val < 0 then -val else val) < (2:Int) ^ k ∧
      encodeCategory val = ((k : Int), if val > 0 then val else (2:Int) ^ k + val - 1) := by
  have h16 : (2:Int) ^ 16 = 65536 := by decide
  have ha : (2:Int) ^ (1 - 1) ≤ (if val < 0 then -val else val) := by
    split <;> simp <;> omega
  have hb : (if val < 0 then -val else val) < (2:Int) ^ (1 + 62) := by
    have : (2:Int) ^ 16 < (2:Int) ^ (1 + 62) := by decide
    split <;> omega
  obtain ⟨k, hk, h1, h2, h3, h4⟩ := catLoop_spec _ 62 1 (Nat.le_refl _) ha hb
  have hk16 : k ≤ 16 := by
    refine Decidable.byContradiction fun hn => ?_
    have : (2:Int) ^ 16 ≤ (2:Int) ^ (k - 1) := two_pow_mono (by omega)
    split at h3 <;> omega
  refine ⟨k, h1, hk16, h3, h4, ?_⟩
  unfold encodeCategory
  rw [if_neg h0]
  simp only
  have hk' : catLoop (if val < 0 then -val else val) 62 1 = (k : Int) := by simpa using hk
  rw [hk', shl_one]
  have hpk : (2:Int) ^ k ≤ (2:Int) ^ 16 := two_pow_mono hk16
  have hpk1 : (2:Int) ^ k = 2 * (2:Int) ^ (k - 1) := by
    rw [← pow_succ']; congr 1; omega
  by_cases hp : val > 0
  · rw [if_pos hp, if_pos hp]
    simp only [Go.uwrap32]
    congr 1; omega
  · rw [if_neg hp, if_neg hp]
    simp only [Go.uwrap32]
    have hneg : val < 0 := by omega
    rw [if_pos hneg] at h3 h4
    congr 1; omega

/-- L3 -/
theorem category_roundtrip' (d : Int) (hlo : -32768 ≤ d) (hhi : d ≤ 32767) :
    receiveLosslessDifference (encodeLosslessDifference d).1 (encodeLosslessDifference d).2 = d ∧
    0 ≤ (encodeLosslessDifference d).1 ∧ (encodeLosslessDifference d).1 ≤ 16 ∧
    0 ≤ (encodeLosslessDifference d).2 ∧
    (encodeLosslessDifference d).2 < (2:Int) ^ (encodeLosslessDifference d).1.toNat ∧
    ((encodeLosslessDifference d).1 = 16 ↔ d = -32768) := by
  have h16 : (2:Int) ^ 16 = 65536 := by decide
  have h15 : Go.shl (-1) 15 = -32768 := by decide
  unfold encodeLosslessDifference
  rw [h15]
  by_cases hm : d = -32768
  · subst hm; decide
  · rw [if_neg hm]
    by_cases h0 : d = 0
    · subst h0; decide
    · obtain ⟨k, h1, h2, h3, h4, he⟩ := encodeCategory_spec d h0 (by omega) (by omega)
      rw [he]
      simp only
      have hpk1 : (2:Int) ^ k = 2 * (2:Int) ^ (k - 1) := by
        rw [← pow_succ']; congr 1; omega
      have hk16 : k ≠ 16 := by
        intro h; subst h
        have : (2:Int) ^ (16 - 1) = 32768 := by decide
        split at h3 <;> omega
      have hkk : ((k : Int) - 1) = ((k - 1 : Nat) : Int) := by omega
      refine ⟨?_, by omega, by omega, ?_, ?_, ?_⟩
      · unfold receiveLosslessDifference extend
        rw [if_neg (by omega), if_neg (by omega)]
        simp only
        rw [hkk, shl_one, shl_negone]
        split at h3 <;> split <;> split <;> omega
      · split at h3 <;> split <;> omega
      · simp only [Int.toNat_natCast]
        split at h3 <;> split <;> omega
      · constructor
        · intro h; omega
        · intro h; omega

/-! ### the decoder's mask shape (jpeg/lossless since fix 479126d) -/

theorem decSample_eq (P p d : Int) (hP : 0 ≤ P ∧ P ≤ 62) :
    decSample P p d = (p + d) % (2:Int) ^ P.toNat := by
  unfold decSample
  simp only
  have : Go.shl 1 P = (2:Int) ^ P.toNat := by simp [Go.shl]
  rw [this]
  exact and_mask _ _ (by omega)

/-- L2 for jpeg/lossless (mask shape): holds for EVERY predicted value (in range or not) -/
theorem diff_wrap_inverse' (P p sample : Int) (hP : 2 ≤ P ∧ P ≤ 16)
    (hs : 0 ≤ sample ∧ sample < Go.shl 1 P) :
    decSample P p (encDiff sample p) = sample := by
  rw [decSample_eq P _ _ (by omega)]
  have hM : Go.shl 1 P = (2:Int) ^ P.toNat := by simp [Go.shl]
  rw [hM] at hs
  simp only [encDiff, losslessDifference, Go.wrap16]
  have hd : ((2:Int) ^ P.toNat) ∣ 65536 := by
    refine ⟨(2:Int) ^ (16 - P.toNat), ?_⟩
    rw [← Int.pow_add]
    have : P.toNat + (16 - P.toNat) = 16 := by omega
    rw [this]; rfl
  obtain ⟨q, hq⟩ := hd
  generalize (2:Int) ^ P.toNat = M at *
  -- p + wrap16 (s - p) = s + 65536 * t
  have : ∃ t : Int, p + ((sample - p + 32768) % 65536 - 32768) = sample + M * (q * t) := by
    refine ⟨-((sample - p + 32768) / 65536), ?_⟩
    rw [← Int.mul_assoc, ← hq]
    omega
  obtain ⟨t, ht⟩ := this
  rw [ht, Int.add_mul_emod_self_left]
  exact Int.emod_eq_of_lt hs.1 hs.2

/-! ### L1: the copies of the neighbour rule agree -/

theorem freqPredicted_eq_enc (P predictor row col : Int) (nb : Nb) (hr : 0 ≤ row) (hc : 0 ≤ col) :
    freqPredicted P predictor row col nb = encPredicted P predictor row col nb := by
  unfold freqPredicted encPredicted
  simp only
  by_cases hr0 : row = 0 <;> by_cases hc0 : col = 0
  · subst hr0; subst hc0; simp
  · subst hr0
    have : col > 0 := by omega
    simp [hc0, this]
  · subst hc0
    have : row > 0 := by omega
    simp [hr0, this]
  · have h1 : row > 0 := by omega
    have h2 : col > 0 := by omega
    simp [hr0, hc0, h1, h2]

/-- SV1's tree is the general tree at predictor 1 (rows/cols are non-negative loop counters) -/
theorem sv1Predicted_eq_enc (P row col : Int) (nb : Nb) (hr : 0 ≤ row) (hc : 0 ≤ col) :
    sv1Predicted P row col nb = encPredicted P 1 row col nb := by
  unfold sv1Predicted encPredicted
  simp only [Predictor]
  by_cases hc0 : col = 0
  · subst hc0
    by_cases hr0 : row = 0
    · subst hr0; simp
    · have : row > 0 := by omega
      simp [hr0, this]
  · have : col > 0 := by omega
    simp [hc0, this]

theorem sv1FreqPredicted_eq (P row col : Int) (nb : Nb) (hr : 0 ≤ row) (hc : 0 ≤ col) :
    sv1FreqPredicted P row col nb = sv1Predicted P row col nb := by
  unfold sv1FreqPredicted sv1Predicted
  simp only
  by_cases hc0 : col = 0
  · subst hc0
    by_cases hr0 : row = 0
    · subst hr0; simp
    · have : row > 0 := by omega
      simp [hr0, this]
  · have : col > 0 := by omega
    simp [hc0, this]

/-! ### diffCategory (frequency pass) = category used by the scan -/

theorem diffCatLoop_spec : ∀ (fuel : Nat) (v c : Int), 0 ≤ v → v < (2:Int) ^ fuel →
    ∃ k : Nat, diffCatLoop fuel v c = c + k ∧ (v = 0 → k = 0) ∧
      (v > 0 → 1 ≤ k ∧ (2:Int) ^ (k - 1) ≤ v ∧ v < (2:Int) ^ k) := by
  intro fuel
  induction fuel with
  | zero =>
    intro v c h0 h1
    have : v = 0 := by simp at h1; omega
    subst this
    exact ⟨0, by simp [diffCatLoop], fun _ => rfl, fun h => by omega⟩
  | succ f ih =>
    intro v c h0 h1
    unfold diffCatLoop
    by_cases hv : v > 0
    · rw [if_pos hv, shr1]
      rw [pow_succ'] at h1
      obtain ⟨k, hk, hz, hp⟩ := ih (v / 2) (c + 1) (by omega) (by omega)
      refine ⟨k + 1, by rw [hk]; omega, by omega, fun _ => ?_⟩
      by_cases h2 : v / 2 = 0
      · have := hz h2; subst this
        refine ⟨by omega, ?_, ?_⟩ <;> simp <;> omega
      · obtain ⟨hk1, ha, hb⟩ := hp (by omega)
        have e1 : (2:Int) ^ (k + 1 - 1) = 2 * (2:Int) ^ (k - 1) := by
          rw [← pow_succ']; congr 1; omega
        rw [e1, pow_succ']
        omega
    · rw [if_neg hv]
      have : v = 0 := by omega
      exact ⟨0, by simp, fun _ => rfl, fun h => by omega⟩

theorem bitlen_unique (a : Int) (k k' : Nat) (h1 : (2:Int) ^ (k - 1) ≤ a) (h2 : a < (2:Int) ^ k)
    (h1' : (2:Int) ^ (k' - 1) ≤ a) (h2' : a < (2:Int) ^ k') (hk : 1 ≤ k) (hk' : 1 ≤ k') : k = k' := by
  refine Decidable.byContradiction fun hne => ?_
  rcases Nat.lt_or_gt_of_ne hne with h | h
  · have : (2:Int) ^ k ≤ (2:Int) ^ (k' - 1) := two_pow_mono (by omega)
    omega
  · have : (2:Int) ^ k' ≤ (2:Int) ^ (k - 1) := two_pow_mono (by omega)
    omega

/-- the frequency pass counts exactly the category the scan will emit, so every emitted
    category has a non-zero frequency and therefore a code in the optimal table -/
theorem diffCategory_eq' (d : Int) (hlo : -32768 ≤ d) (hhi : d ≤ 32767) :
    diffCategory d = (encodeLosslessDifference d).1 := by
  have h16 : (2:Int) ^ 16 = 65536 := by decide
  have h64 : (2:Int) ^ 16 < (2:Int) ^ 64 := by decide
  by_cases hm : d = -32768
  · subst hm; decide
  by_cases h0 : d = 0
  · subst h0; decide
  have h15 : Go.shl (-1) 15 = -32768 := by decide
  unfold encodeLosslessDifference
  rw [h15, if_neg hm]
  obtain ⟨k, hk1, _, h3, h4, he⟩ := encodeCategory_spec d h0 (by omega) (by omega)
  rw [he]
  unfold diffCategory
  rw [if_neg h0]
  simp only
  have hnn : 0 ≤ (if d < 0 then -d else d) := by split <;> omega
  have hlt : (if d < 0 then -d else d) < (2:Int) ^ 64 := by split <;> omega
  obtain ⟨k', hk', _, hp⟩ := diffCatLoop_spec 64 _ 0 hnn hlt
  have hpos : (if d < 0 then -d else d) > 0 := by split <;> omega
  obtain ⟨hk1', ha, hb⟩ := hp hpos
  rw [hk']
  have := bitlen_unique _ k k' h3 h4 ha hb hk1 hk1'
  omega

end JLL
