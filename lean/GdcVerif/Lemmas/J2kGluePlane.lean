import GdcVerif.Model.J2kGluePlane
/-! cut ∘ paste = id on the tile-component planes: the bands tile the Mallat layout, the code-blocks tile the bands -/
namespace J2kGlue

/-! ### one block -/

theorem grid_getD {α : Type} (g : Nat → Nat → α) (d : α) (w : Nat) : ∀ (h j i : Nat), j < h → i < w →
    ((List.range h).flatMap fun y => (List.range w).map fun x => g y x).getD (j * w + i) d = g j i := by
  intro h
  induction h with
  | zero => intro j i hj _; omega
  | succ h ih =>
    intro j i hj hi
    rw [List.range_succ, List.flatMap_append]
    have hlen : ((List.range h).flatMap fun y => (List.range w).map fun x => g y x).length = h * w := by
      clear ih hj
      induction h with
      | zero => simp
      | succ h ih2 => rw [List.range_succ, List.flatMap_append, List.length_append, ih2]; simp [Nat.succ_mul]
    by_cases hjh : j < h
    · have hlt : j * w + i < h * w := by
        have : (j + 1) * w ≤ h * w := Nat.mul_le_mul_right w hjh
        rw [Nat.succ_mul] at this; omega
      rw [List.getD_eq_getElem?_getD, List.getElem?_append_left (by rw [hlen]; exact hlt), ← List.getD_eq_getElem?_getD]
      exact ih j i hjh hi
    · have hj' : j = h := by omega
      subst hj'
      rw [List.getD_eq_getElem?_getD, List.getElem?_append_right (by rw [hlen]; omega), hlen]
      have : j * w + i - j * w = i := by omega
      rw [this]
      simp [hi]

def covers (k : BlkRect) (x y : Nat) : Prop := k.x0 ≤ x ∧ x < k.x0 + k.w ∧ k.y0 ≤ y ∧ y < k.y0 + k.h

instance (k : BlkRect) (x y : Nat) : Decidable (covers k x y) := by unfold covers; infer_instance

theorem writeBlock_cut (f g : Plane) (k : BlkRect) (x y : Nat) :
    writeBlock k (cutBlock f k) g x y = if covers k x y then f x y else g x y := by
  unfold writeBlock covers
  by_cases hc : k.x0 ≤ x ∧ x < k.x0 + k.w ∧ k.y0 ≤ y ∧ y < k.y0 + k.h
  · simp only [hc, and_self, if_true]
    unfold cutBlock
    rw [grid_getD (fun yy xx => f (k.x0 + xx) (k.y0 + yy)) 0 k.w k.h (y - k.y0) (x - k.x0) (by omega) (by omega)]
    have h1 : k.x0 + (x - k.x0) = x := by omega
    have h2 : k.y0 + (y - k.y0) = y := by omega
    simp only [h1, h2]
  · simp only [hc, if_false]

/-- a sequence of writes of blocks cut from `f`: afterwards a point holds `f`'s value, or it was never written -/
theorem foldl_writes (f : Plane) : ∀ (ops : List BlkRect) (init : Plane) (x y : Nat),
    let res := ops.foldl (fun g k => writeBlock k (cutBlock f k) g) init
    res x y = f x y ∨ (res x y = init x y ∧ ∀ k ∈ ops, ¬ covers k x y) := by
  intro ops
  induction ops with
  | nil => intro init x y; exact Or.inr ⟨rfl, fun k hk => absurd hk (by simp)⟩
  | cons k ops ih =>
    intro init x y
    simp only [List.foldl_cons]
    rcases ih (writeBlock k (cutBlock f k) init) x y with h | ⟨h1, h2⟩
    · exact Or.inl h
    · rw [writeBlock_cut] at h1
      by_cases hc : covers k x y
      · simp only [hc, if_true] at h1; exact Or.inl h1
      · simp only [hc, if_false] at h1
        refine Or.inr ⟨h1, ?_⟩
        intro k' hk'
        rcases List.mem_cons.mp hk' with rfl | h'
        · exact hc
        · exact h2 k' h'

/-! ### the bands tile the plane -/

theorem dimAt_mono (len n : Nat) : dimAt len (n + 1) ≤ dimAt len n := by
  show (dimAt len n + 1) / 2 ≤ dimAt len n
  omega

def inBand (b : BandRect) (x y : Nat) : Prop := b.ox ≤ x ∧ x < b.ox + b.bw ∧ b.oy ≤ y ∧ y < b.oy + b.bh

/-- every point of the plane lies in a band of some resolution (Mallat layout) -/
theorem band_cover (W H L : Nat) : ∀ (j n : Nat), n + j = L → ∀ x y, x < dimAt W n → y < dimAt H n →
    ∃ r, r ≤ L ∧ ∃ b ∈ bandRects W H L r, inBand b x y := by
  intro j
  induction j with
  | zero =>
    intro n hn x y hx hy
    have : n = L := by omega
    subst this
    exact ⟨0, Nat.zero_le _, ⟨0, 0, 0, dimAt W n, dimAt H n⟩, by simp [bandRects], by unfold inBand; simp; exact ⟨hx, hy⟩⟩
  | succ j ih =>
    intro n hn x y hx hy
    by_cases hin : x < dimAt W (n + 1) ∧ y < dimAt H (n + 1)
    · exact ih (n + 1) (by omega) x y hin.1 hin.2
    · -- resolution r = L - n ≥ 1
      have hr : L - n ≠ 0 := by omega
      have e1 : L - (L - n) = n := by omega
      have e2 : L - (L - n) + 1 = n + 1 := by omega
      have mw := dimAt_mono W n
      have mh := dimAt_mono H n
      refine ⟨L - n, by omega, ?_⟩
      unfold bandRects
      simp only [hr, if_false, e1, e2]
      by_cases hxl : x < dimAt W (n + 1)
      · have hyl : ¬ y < dimAt H (n + 1) := fun h => hin ⟨hxl, h⟩
        exact ⟨⟨2, 0, dimAt H (n + 1), dimAt W (n + 1), dimAt H n - dimAt H (n + 1)⟩, by simp,
          by unfold inBand; simp only []; omega⟩
      · by_cases hyl : y < dimAt H (n + 1)
        · exact ⟨⟨1, dimAt W (n + 1), 0, dimAt W n - dimAt W (n + 1), dimAt H (n + 1)⟩, by simp,
            by unfold inBand; simp only []; omega⟩
        · exact ⟨⟨3, dimAt W (n + 1), dimAt H (n + 1), dimAt W n - dimAt W (n + 1), dimAt H n - dimAt H (n + 1)⟩, by simp,
            by unfold inBand; simp only []; omega⟩

/-! ### the code-blocks tile a band -/

theorem div_lt_numCb (l len cb : Nat) (hcb : 0 < cb) (h : l < len) : l / cb < numCb len cb := by
  unfold numCb
  have h1 : l / cb ≤ (len - 1) / cb := Nat.div_le_div_right (by omega)
  have h2 : (len + cb - 1) / cb = (len - 1) / cb + 1 := by
    have : len + cb - 1 = (len - 1) + cb := by omega
    rw [this, Nat.add_div_right _ hcb]
  omega

theorem blk_cover (cbw cbh : Nat) (hw : 0 < cbw) (hh : 0 < cbh) (b : BandRect) (x y : Nat) (h : inBand b x y) :
    ∃ k ∈ blkRects cbw cbh b, covers k x y := by
  obtain ⟨hx0, hx1, hy0, hy1⟩ := h
  let lx := x - b.ox
  let ly := y - b.oy
  have hlx : lx < b.bw := by show x - b.ox < b.bw; omega
  have hly : ly < b.bh := by show y - b.oy < b.bh; omega
  refine ⟨⟨lx / cbw, ly / cbh, b.ox + lx / cbw * cbw, b.oy + ly / cbh * cbh,
    min cbw (b.bw - lx / cbw * cbw), min cbh (b.bh - ly / cbh * cbh)⟩, ?_, ?_⟩
  · unfold blkRects
    rw [List.mem_flatMap]
    refine ⟨ly / cbh, List.mem_range.mpr (div_lt_numCb ly b.bh cbh hh hly), ?_⟩
    rw [List.mem_map]
    exact ⟨lx / cbw, List.mem_range.mpr (div_lt_numCb lx b.bw cbw hw hlx), rfl⟩
  · unfold covers
    simp only []
    have a1 : lx / cbw * cbw ≤ lx := Nat.div_mul_le_self lx cbw
    have a2 : lx < lx / cbw * cbw + cbw := by
      have := Nat.lt_div_mul_add (a := lx) hw
      omega
    have b1 : ly / cbh * cbh ≤ ly := Nat.div_mul_le_self ly cbh
    have b2 : ly < ly / cbh * cbh + cbh := by
      have := Nat.lt_div_mul_add (a := ly) hh
      omega
    have ex : x = b.ox + lx := by show x = b.ox + (x - b.ox); omega
    have ey : y = b.oy + ly := by show y = b.oy + (y - b.oy); omega
    generalize lx / cbw * cbw = qx at *
    generalize ly / cbh * cbh = qy at *
    omega

/-! ### packets and the tile -/

def coeffsOf (p : PPacket) : List (List (List Int)) := p.map fun b => b.blks.map fun pb => pb.blk.coeffs

theorem zip_map_self {α β : Type} (g : α → β) : ∀ (l : List α), l.zip (l.map g) = l.map fun a => (a, g a) := by
  intro l
  induction l with
  | nil => rfl
  | cons a l ih => simp [ih]

theorem packetWrites_cut (c : TCfg) (r : Nat) (f : Plane) :
    packetWrites c r (coeffsOf (ppacketOf c r f)) =
      (liveBands c r).flatMap fun b => (blkRects c.cbw c.cbh b).map fun k => (k, cutBlock f k) := by
  unfold packetWrites coeffsOf ppacketOf
  rw [List.map_map]
  have : ((fun b : PBand => b.blks.map fun pb => pb.blk.coeffs) ∘ pbandOf c r f) =
      fun b => (blkRects c.cbw c.cbh b).map (cutBlock f) := by
    funext b; simp [pbandOf, List.map_map, Function.comp_def]
  rw [this, zip_map_self]
  rw [List.flatMap_map]
  congr 1
  funext b
  simp only []
  rw [zip_map_self]

theorem foldl_flatMap_writes (f : Plane) : ∀ (bands : List BandRect) (cbw cbh : Nat) (init : Plane) (x y : Nat),
    let res := (bands.flatMap fun b => (blkRects cbw cbh b).map fun k => (k, cutBlock f k)).foldl
      (fun g w => writeBlock w.1 w.2 g) init
    res x y = f x y ∨ (res x y = init x y ∧ ∀ b ∈ bands, ∀ k ∈ blkRects cbw cbh b, ¬ covers k x y) := by
  intro bands cbw cbh init x y
  have hmap : (bands.flatMap fun b => (blkRects cbw cbh b).map fun k => (k, cutBlock f k)) =
      (bands.flatMap fun b => blkRects cbw cbh b).map fun k => (k, cutBlock f k) := by
    rw [List.map_flatMap]
  simp only [hmap, List.foldl_map]
  rcases foldl_writes f (bands.flatMap fun b => blkRects cbw cbh b) init x y with h | ⟨h1, h2⟩
  · exact Or.inl h
  · refine Or.inr ⟨h1, ?_⟩
    intro b hb k hk
    exact h2 k (List.mem_flatMap.mpr ⟨b, hb, hk⟩)

/-- the step of pasteTile -/
def pasteStep (c : TCfg) (planes : Nat → Plane) (q : (Nat × Nat) × List (List (List Int))) : Nat → Plane :=
  fun k => if k = q.1.2 then (packetWrites c q.1.1 q.2).foldl (fun f w => writeBlock w.1 w.2 f) (planes k) else planes k

theorem paste_inv (c : TCfg) (target : Nat → Plane) : ∀ (seq : List (Nat × Nat)) (init : Nat → Plane) (k x y : Nat),
    let res := (seq.map fun q => (q, coeffsOf (ppacketOf c q.1 (target q.2)))).foldl (pasteStep c) init
    res k x y = target k x y ∨
      (res k x y = init k x y ∧ ∀ q ∈ seq, q.2 = k → ∀ b ∈ liveBands c q.1, ∀ kk ∈ blkRects c.cbw c.cbh b, ¬ covers kk x y) := by
  intro seq
  induction seq with
  | nil => intro init k x y; exact Or.inr ⟨rfl, fun q hq => absurd hq (by simp)⟩
  | cons q seq ih =>
    intro init k x y
    simp only [List.map_cons, List.foldl_cons]
    rcases ih (pasteStep c init (q, coeffsOf (ppacketOf c q.1 (target q.2)))) k x y with h | ⟨h1, h2⟩
    · exact Or.inl h
    · by_cases hk : k = q.2
      · have hstep : pasteStep c init (q, coeffsOf (ppacketOf c q.1 (target q.2))) k x y =
            ((liveBands c q.1).flatMap fun b => (blkRects c.cbw c.cbh b).map fun kk => (kk, cutBlock (target q.2) kk)).foldl
              (fun g w => writeBlock w.1 w.2 g) (init k) x y := by
          unfold pasteStep
          simp only [hk, if_true]
          rw [packetWrites_cut]
        rw [hstep] at h1
        rcases foldl_flatMap_writes (target q.2) (liveBands c q.1) c.cbw c.cbh (init k) x y with g | ⟨g1, g2⟩
        · left; rw [h1, g, hk]
        · right
          refine ⟨by rw [h1, g1], ?_⟩
          intro q' hq' hk'
          rcases List.mem_cons.mp hq' with rfl | hq''
          · exact g2
          · exact h2 q' hq'' hk'
      · have hstep : pasteStep c init (q, coeffsOf (ppacketOf c q.1 (target q.2))) k x y = init k x y := by
          unfold pasteStep; simp only [hk, if_false]
        right
        refine ⟨by rw [h1, hstep], ?_⟩
        intro q' hq' hk'
        rcases List.mem_cons.mp hq' with rfl | hq''
        · exact absurd hk'.symm hk
        · exact h2 q' hq'' hk'

theorem mem_packetSeq (c : TCfg) (nC prog r k : Nat) (hr : r ≤ c.L) (hk : k < nC) (hl : (liveBands c r) ≠ []) :
    (r, k) ∈ packetSeq c nC prog := by
  have hlive : (!(liveBands c r).isEmpty) = true := by
    cases h : liveBands c r with
    | nil => exact absurd h hl
    | cons _ _ => rfl
  unfold packetSeq
  simp only []
  by_cases hp : prog ≤ 2
  · simp only [hp, if_true]
    rw [List.mem_flatMap]
    refine ⟨r, List.mem_range.mpr (by omega), ?_⟩
    simp only [hlive, if_true]
    exact List.mem_map.mpr ⟨k, List.mem_range.mpr hk, rfl⟩
  · simp only [hp, if_false]
    rw [List.mem_flatMap]
    refine ⟨k, List.mem_range.mpr hk, ?_⟩
    exact List.mem_map.mpr ⟨r, List.mem_filter.mpr ⟨List.mem_range.mpr (by omega), hlive⟩, rfl⟩

/-- CUT ∘ PASTE: the decoder, writing the blocks of every packet back into zero planes, restores every sample of every
    tile-component plane the encoder cut them from -/
theorem pasteTile_tilePackets (c : TCfg) (nC prog : Nat) (planes : Nat → Plane) (hw : 0 < c.cbw) (hh : 0 < c.cbh)
    (k x y : Nat) (hk : k < nC) (hx : x < c.W) (hy : y < c.H) :
    pasteTile c nC prog ((tilePackets c nC prog planes).map coeffsOf) k x y = planes k x y := by
  unfold pasteTile tilePackets
  rw [List.map_map]
  have hz : (packetSeq c nC prog).zip ((packetSeq c nC prog).map (coeffsOf ∘ fun q => ppacketOf c q.1 (planes q.2))) =
      (packetSeq c nC prog).map fun q => (q, coeffsOf (ppacketOf c q.1 (planes q.2))) := zip_map_self _ _
  rw [hz]
  have hinv := paste_inv c planes (packetSeq c nC prog) (fun _ _ _ => 0) k x y
  rcases hinv with h | ⟨_, h2⟩
  · exact h
  · exfalso
    obtain ⟨r, hr, b, hb, hin⟩ := band_cover c.W c.H c.L c.L 0 (by omega) x y hx hy
    have hne : b.bw ≠ 0 ∧ b.bh ≠ 0 := by unfold inBand at hin; omega
    have hlive : b ∈ liveBands c r := by
      unfold liveBands
      exact List.mem_filter.mpr ⟨hb, by simp [hne]⟩
    obtain ⟨kk, hkk, hcov⟩ := blk_cover c.cbw c.cbh hw hh b x y hin
    have hq := mem_packetSeq c nC prog r k hr hk (by intro h0; rw [h0] at hlive; exact absurd hlive (by simp))
    exact h2 (r, k) hq rfl b hlive kk hkk hcov

/-- the geometry the decoder derives is the geometry of the encoder's packets -/
theorem tileGeo_eq (c : TCfg) (nC prog : Nat) (planes : Nat → Plane) :
    (tilePackets c nC prog planes).map (fun p => p.map PBand.geo) = tileGeo c nC prog := by
  unfold tilePackets tileGeo
  rw [List.map_map]
  apply List.map_congr_left
  intro q _
  simp only [Function.comp_def, ppacketOf, List.map_map]
  apply List.map_congr_left
  intro b _
  simp [pbandOf, PBand.geo, PBlk.geo, List.map_map, Function.comp_def]

end J2kGlue
