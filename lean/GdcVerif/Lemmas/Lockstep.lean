/-!
  Lock-step composition for predictive codecs (JPEG Lossless, JPEG-LS, near-lossless).

  An encoder and a decoder walk the samples in the same order, each carrying a state
  (reconstructed neighbourhood, context statistics, run index …).  If one encoder step and
  one decoder step, started from the same state, agree — same successor state, and the
  decoder's output related to the encoder's input by `R` — then whole sequences agree.
  `R = Eq` gives exact reconstruction; `R x y := |x − y| ≤ NEAR` gives the near-lossless bound.
  The encoder state must therefore be a function of what the *decoder* can know
  (reconstructed samples), which is exactly what the per-step hypothesis demands.
-/
namespace Lockstep

variable {S σ E : Type}

/-- pointwise relation between two lists of the same length (core Lean has no `List.Forall₂`) -/
inductive AllRel (R : S → S → Prop) : List S → List S → Prop
  | nil : AllRel R [] []
  | cons {x y xs ys} : R x y → AllRel R xs ys → AllRel R (x :: xs) (y :: ys)

theorem AllRel.length_eq {R : S → S → Prop} {xs ys : List S} (h : AllRel R xs ys) :
    xs.length = ys.length := by
  induction h with
  | nil => rfl
  | cons _ _ ih => simp [ih]

theorem AllRel.eq {xs ys : List S} (h : AllRel Eq xs ys) : xs = ys := by
  induction h with
  | nil => rfl
  | cons h0 _ ih => rw [h0, ih]

theorem AllRel.get {R : S → S → Prop} {xs ys : List S} (h : AllRel R xs ys)
    (i : Nat) (hx : i < xs.length) (hy : i < ys.length) : R xs[i] ys[i] := by
  induction h generalizing i with
  | nil => simp at hx
  | cons h0 _ ih =>
    cases i with
    | zero => simpa using h0
    | succ j => simpa using ih j (by simpa using hx) (by simpa using hy)

/-- run an encoder over a list of samples, collecting the emitted symbols -/
def encAll (encStep : σ → S → σ × E) : σ → List S → σ × List E
  | s, [] => (s, [])
  | s, x :: xs =>
    let r := encStep s x
    let r2 := encAll encStep r.1 xs
    (r2.1, r.2 :: r2.2)

/-- run a decoder over a list of symbols -/
def decAll (decStep : σ → E → σ × S) : σ → List E → σ × List S
  | s, [] => (s, [])
  | s, e :: es =>
    let r := decStep s e
    let r2 := decAll decStep r.1 es
    (r2.1, r.2 :: r2.2)

/-- `inv` is a state invariant the per-step agreement may rely on (e.g. counters in range);
    `ok x` is the admissibility of a sample (e.g. `0 ≤ x ≤ MAXVAL`). -/
theorem lockstep (encStep : σ → S → σ × E) (decStep : σ → E → σ × S)
    (R : S → S → Prop) (inv : σ → Prop) (ok : S → Prop)
    (hstep : ∀ s x, inv s → ok x →
      (decStep s (encStep s x).2).1 = (encStep s x).1 ∧ R x (decStep s (encStep s x).2).2 ∧
      inv (encStep s x).1)
    (s : σ) (xs : List S) (hs : inv s) (hx : ∀ x ∈ xs, ok x) :
    (decAll decStep s (encAll encStep s xs).2).1 = (encAll encStep s xs).1 ∧
    AllRel R xs (decAll decStep s (encAll encStep s xs).2).2 ∧
    inv (encAll encStep s xs).1 := by
  induction xs generalizing s with
  | nil => exact ⟨rfl, AllRel.nil, hs⟩
  | cons x xs ih =>
    have hx0 : ok x := hx x (by simp)
    have hxs : ∀ y ∈ xs, ok y := fun y hy => hx y (by simp [hy])
    obtain ⟨h1, h2, h3⟩ := hstep s x hs hx0
    obtain ⟨i1, i2, i3⟩ := ih (encStep s x).1 h3 hxs
    simp only [encAll, decAll]
    rw [h1]
    exact ⟨i1, AllRel.cons h2 i2, i3⟩

/-- exact reconstruction: with `R = Eq` the decoded list is the source list -/
theorem lockstep_exact (encStep : σ → S → σ × E) (decStep : σ → E → σ × S)
    (inv : σ → Prop) (ok : S → Prop)
    (hstep : ∀ s x, inv s → ok x →
      (decStep s (encStep s x).2).1 = (encStep s x).1 ∧ x = (decStep s (encStep s x).2).2 ∧
      inv (encStep s x).1)
    (s : σ) (xs : List S) (hs : inv s) (hx : ∀ x ∈ xs, ok x) :
    (decAll decStep s (encAll encStep s xs).2).2 = xs := by
  exact (AllRel.eq (lockstep encStep decStep Eq inv ok hstep s xs hs hx).2.1).symm

/-! ### variable-length, partial steps over a residual symbol stream

  JPEG-LS run mode consumes a variable number of samples per step, steps can fail, and the
  decoder reads from one undivided bit stream.  Encoder and decoder share the state type `σ`
  (the state holds what the DECODER knows: reconstructed samples, statistics).  One encoder
  step consumes a non-empty prefix of the pending samples and emits symbols; the decoder step,
  told how many samples are still pending, consumes exactly those symbols. -/
section Var
variable {σ S B ε : Type}

/-- iterate the encoder step until no sample is pending (`fuel` bounds the number of steps) -/
def encAllV (e0 : ε) (encStep : σ → List S → Except ε (List B × σ × List S)) :
    Nat → σ → List S → Except ε (List B × σ)
  | 0, _, _ => .error e0
  | n + 1, s, todo =>
    if todo.isEmpty then .ok ([], s) else
    match encStep s todo with
    | .error e => .error e
    | .ok (ws, s', todo') =>
      match encAllV e0 encStep n s' todo' with
      | .error e => .error e
      | .ok (ws2, sf) => .ok (ws ++ ws2, sf)

/-- iterate the decoder step until the announced number of samples is reconstructed -/
def decAllV (e0 : ε) (decStep : σ → Nat → List B → Except ε (σ × Nat × List B)) :
    Nat → σ → Nat → List B → Except ε (σ × List B)
  | 0, _, _, _ => .error e0
  | n + 1, s, remaining, bs =>
    if remaining = 0 then .ok (s, bs) else
    match decStep s remaining bs with
    | .error e => .error e
    | .ok (s', remaining', bs') => decAllV e0 decStep n s' remaining' bs'

/-- if every encoder step from a state satisfying `inv` succeeds, consumes at least one sample,
    re-establishes `inv`, and is undone by the decoder step (same successor state, same number of
    samples left, following symbols untouched), then decoding the whole symbol sequence reaches
    the encoder's final state and leaves what follows -/
theorem lockstep_var (e0 : ε) (encStep : σ → List S → Except ε (List B × σ × List S))
    (decStep : σ → Nat → List B → Except ε (σ × Nat × List B)) (inv : σ → List S → Prop)
    (hstep : ∀ s todo, todo ≠ [] → inv s todo →
      ∃ ws s' todo', encStep s todo = .ok (ws, s', todo') ∧ todo'.length < todo.length ∧ inv s' todo' ∧
        ∀ rest, decStep s todo.length (ws ++ rest) = .ok (s', todo'.length, rest)) :
    ∀ (fuel : Nat) (s : σ) (todo : List S), todo.length < fuel → inv s todo →
      ∃ ws sf, encAllV e0 encStep fuel s todo = .ok (ws, sf) ∧ inv sf [] ∧
        ∀ rest, decAllV e0 decStep fuel s todo.length (ws ++ rest) = .ok (sf, rest)
  | 0, _, _, h, _ => by omega
  | n + 1, s, todo, hf, hi => by
    cases todo with
    | nil => exact ⟨[], s, by simp [encAllV], hi, fun rest => by simp [decAllV]⟩
    | cons x xs =>
      obtain ⟨ws, s', todo', he, hlt, hi', hd⟩ := hstep s (x :: xs) (by simp) hi
      obtain ⟨ws2, sf, he2, hif, hd2⟩ := lockstep_var e0 encStep decStep inv hstep n s' todo' (by omega) hi'
      refine ⟨ws ++ ws2, sf, ?_, hif, ?_⟩
      · simp only [encAllV, List.isEmpty_cons, Bool.false_eq_true, if_false, he, he2]
      · intro rest
        have hne : (x :: xs).length ≠ 0 := by simp
        simp only [decAllV, hne, if_false]
        rw [List.append_assoc, hd (ws2 ++ rest)]
        exact hd2 rest

/-- an encoder step with its emitted symbols re-labelled through `f` -/
def mapSym {C : Type} (f : List B → List C) (encStep : σ → List S → Except ε (List B × σ × List S)) :
    σ → List S → Except ε (List C × σ × List S) :=
  fun s t => match encStep s t with
    | .error e => .error e
    | .ok (ws, s', t') => .ok (f ws, s', t')

/-- re-labelling the emitted symbols through a monoid morphism commutes with the iteration -/
theorem encAllV_map {C : Type} (f : List B → List C) (hnil : f [] = []) (happ : ∀ a b, f (a ++ b) = f a ++ f b)
    (e0 : ε) (encStep : σ → List S → Except ε (List B × σ × List S)) :
    ∀ (n : Nat) (s : σ) (todo : List S),
      encAllV e0 (mapSym f encStep) n s todo =
        match encAllV e0 encStep n s todo with
        | .error e => .error e
        | .ok (ws, sf) => .ok (f ws, sf)
  | 0, _, _ => rfl
  | n + 1, s, todo => by
    simp only [encAllV]
    by_cases he : todo.isEmpty
    · simp [he, hnil]
    · simp only [he, Bool.false_eq_true, if_false]
      cases hs : encStep s todo with
      | error e => simp [mapSym, hs]
      | ok r =>
        obtain ⟨ws, s', t'⟩ := r
        simp only [mapSym, hs]
        rw [encAllV_map f hnil happ e0 encStep n s' t']
        cases encAllV e0 encStep n s' t' with
        | error e => simp
        | ok r2 => obtain ⟨ws2, sf⟩ := r2; simp [happ]

/-- `lockstep_var` with the encoder's symbols (type `B`) re-labelled through a monoid morphism `f`
    into what the decoder reads (type `C`), and a predicate `Pr` on the encoder's symbols that is
    closed under concatenation and established by every step -/
theorem lockstep_var2 {C : Type} (f : List B → List C) (hnil : f [] = []) (happ : ∀ a b, f (a ++ b) = f a ++ f b)
    (Pr : List B → Prop) (hp0 : Pr []) (hpa : ∀ a b, Pr a → Pr b → Pr (a ++ b))
    (e0 : ε) (encStep : σ → List S → Except ε (List B × σ × List S))
    (decStep : σ → Nat → List C → Except ε (σ × Nat × List C)) (inv : σ → List S → Prop)
    (hstep : ∀ s todo, todo ≠ [] → inv s todo →
      ∃ ws s' todo', encStep s todo = .ok (ws, s', todo') ∧ todo'.length < todo.length ∧ inv s' todo' ∧ Pr ws ∧
        ∀ rest, decStep s todo.length (f ws ++ rest) = .ok (s', todo'.length, rest)) :
    ∀ (fuel : Nat) (s : σ) (todo : List S), todo.length < fuel → inv s todo →
      ∃ ws sf, encAllV e0 encStep fuel s todo = .ok (ws, sf) ∧ inv sf [] ∧ Pr ws ∧
        ∀ rest, decAllV e0 decStep fuel s todo.length (f ws ++ rest) = .ok (sf, rest)
  | 0, _, _, h, _ => by omega
  | n + 1, s, todo, hf, hi => by
    cases todo with
    | nil => exact ⟨[], s, by simp [encAllV], hi, hp0, fun rest => by simp [decAllV, hnil]⟩
    | cons x xs =>
      obtain ⟨ws, s', todo', he, hlt, hi', hpr, hd⟩ := hstep s (x :: xs) (by simp) hi
      obtain ⟨ws2, sf, he2, hif, hpr2, hd2⟩ :=
        lockstep_var2 f hnil happ Pr hp0 hpa e0 encStep decStep inv hstep n s' todo' (by omega) hi'
      refine ⟨ws ++ ws2, sf, ?_, hif, hpa _ _ hpr hpr2, ?_⟩
      · simp only [encAllV, List.isEmpty_cons, Bool.false_eq_true, if_false, he, he2]
      · intro rest
        have hne : (x :: xs).length ≠ 0 := by simp
        simp only [decAllV, hne, if_false]
        rw [happ, List.append_assoc, hd (f ws2 ++ rest)]
        exact hd2 rest

end Var

end Lockstep
