/-!
  Lock-step composition for predictive codecs (JPEG Lossless, JPEG-LS, near-lossless).

  An encoder and a decoder walk the samples in the same order, each carrying a state
  (reconstructed neighbourhood, context statistics, run index …).  If one encoder step and
  one decoder step, started from the same state, agree — same successor state, and the
  decoder's output related to the encoder's input by `R` — then whole sequences agree.
  `R = Eq` gives exact reconstruction; `R x y := |x − y| ≤ NEAR` gives the near-lossless bound.
  The encoder state must therefore be a function of what the *decoder* can know
  (reconstructed samples), which is exactly what the per-step hypothesis demands.
-/
namespace Lockstep

variable {S σ E : Type}

/-- pointwise relation between two lists of the same length (core Lean has no `List.Forall₂`) -/
inductive AllRel (R : S → S → Prop) : List S → List S → Prop
  | nil : AllRel R [] []
  | cons {x y xs ys} : R x y → AllRel R xs ys → AllRel R (x :: xs) (y :: ys)

theorem AllRel.length_eq {R : S → S → Prop} {xs ys : List S} (h : AllRel R xs ys) :
    xs.length = ys.length := by
  induction h with
  | nil => rfl
  | cons _ _ ih => simp [ih]

theorem AllRel.eq {xs ys : List S} (h : AllRel Eq xs ys) : xs = ys := by
  induction h with
  | nil => rfl
  | cons h0 _ ih => rw [h0, ih]

theorem AllRel.get {R : S → S → Prop} {xs ys : List S} (h : AllRel R xs ys)
    (i : Nat) (hx : i < xs.length) (hy : i < ys.length) : R xs[i] ys[i] := by
  induction h generalizing i with
  | nil => simp at hx
  | cons h0 _ ih =>
    cases i with
    | zero => simpa using h0
    | succ j => simpa using ih j (by simpa using hx) (by simpa using hy)

/-- run an encoder over a list of samples, collecting the emitted symbols -/
def encAll (encStep : σ → S → σ × E) : σ → List S → σ × List E
  | s, [] => (s, [])
  | s, x :: xs =>
    let r := encStep s x
    let r2 := encAll encStep r.1 xs
    (r2.1, r.2 :: r2.2)

/-- run a decoder over a list of symbols -/
def decAll (decStep : σ → E → σ × S) : σ → List E → σ × List S
  | s, [] => (s, [])
  | s, e :: es =>
    let r := decStep s e
    let r2 := decAll decStep r.1 es
    (r2.1, r.2 :: r2.2)

/-- `inv` is a state invariant the per-step agreement may rely on (e.g. counters in range);
    `ok x` is the admissibility of a sample (e.g. `0 ≤ x ≤ MAXVAL`). -/
theorem lockstep (encStep : σ → S → σ × E) (decStep : σ → E → σ × S)
    (R : S → S → Prop) (inv : σ → Prop) (ok : S → Prop)
    (hstep : ∀ s x, inv s → ok x →
      (decStep s (encStep s x).2).1 = (encStep s x).1 ∧ R x (decStep s (encStep s x).2).2 ∧
      inv (encStep s x).1)
    (s : σ) (xs : List S) (hs : inv s) (hx : ∀ x ∈ xs, ok x) :
    (decAll decStep s (encAll encStep s xs).2).1 = (encAll encStep s xs).1 ∧
    AllRel R xs (decAll decStep s (encAll encStep s xs).2).2 ∧
    inv (encAll encStep s xs).1 := by
  induction xs generalizing s with
  | nil => exact ⟨rfl, AllRel.nil, hs⟩
  | cons x xs ih =>
    have hx0 : ok x := hx x (by simp)
    have hxs : ∀ y ∈ xs, ok y := fun y hy => hx y (by simp [hy])
    obtain ⟨h1, h2, h3⟩ := hstep s x hs hx0
    obtain ⟨i1, i2, i3⟩ := ih (encStep s x).1 h3 hxs
    simp only [encAll, decAll]
    rw [h1]
    exact ⟨i1, AllRel.cons h2 i2, i3⟩

/-- exact reconstruction: with `R = Eq` the decoded list is the source list -/
theorem lockstep_exact (encStep : σ → S → σ × E) (decStep : σ → E → σ × S)
    (inv : σ → Prop) (ok : S → Prop)
    (hstep : ∀ s x, inv s → ok x →
      (decStep s (encStep s x).2).1 = (encStep s x).1 ∧ x = (decStep s (encStep s x).2).2 ∧
      inv (encStep s x).1)
    (s : σ) (xs : List S) (hs : inv s) (hx : ∀ x ∈ xs, ok x) :
    (decAll decStep s (encAll encStep s xs).2).2 = xs := by
  exact (AllRel.eq (lockstep encStep decStep Eq inv ok hstep s xs hs hx).2.1).symm

end Lockstep
