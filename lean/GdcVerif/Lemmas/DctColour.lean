import GdcVerif.Gen.JpegBaseline
/-! Fixed-point colour matrices of the baseline codec (GENERATED kernels): range, necessity of the clamp,
    faithfulness of the byte conversion, round-trip error. -/
namespace Dct
open Gen.JpegBaseline Gen.JpegStd

/-- the three unclamped forward values -/
def fwdY (r g b : Int) : Int := (19595 * r + 38470 * g + 7471 * b + 32768) / 65536
def fwdCb (r g b : Int) : Int := (-11056 * r - 21712 * g + 32768 * b + 8421376) / 65536
def fwdCr (r g b : Int) : Int := (32768 * r - 27440 * g - 5328 * b + 8421376) / 65536

theorem fwd_entry_eq (enc : Encoder) (row col sr st r g b a1 a2 a3 : Int) :
    rgbToYCbCr.entry enc row col sr st r g b a1 a2 a3 =
      (Go.uwrap8 (Clamp (fwdY r g b) 0 255), Go.uwrap8 (Clamp (fwdCb r g b) 0 255), Go.uwrap8 (Clamp (fwdCr r g b) 0 255)) := by
  simp only [rgbToYCbCr.entry, fwdY, fwdCb, fwdCr, Go.shr, Int.shiftRight_eq_div_pow]
  simp

theorem fwd_ranges (r g b : Int) (hr : 0 ≤ r ∧ r ≤ 255) (hg : 0 ≤ g ∧ g ≤ 255) (hb : 0 ≤ b ∧ b ≤ 255) :
    0 ≤ fwdY r g b ∧ fwdY r g b ≤ 255 ∧ 1 ≤ fwdCb r g b ∧ fwdCb r g b ≤ 256 ∧ 1 ≤ fwdCr r g b ∧ fwdCr r g b ≤ 256 := by
  simp only [fwdY, fwdCb, fwdCr]; omega

theorem clamp_byte (v : Int) : 0 ≤ Go.uwrap8 (Clamp v 0 255) ∧ Go.uwrap8 (Clamp v 0 255) ≤ 255 ∧
    Go.uwrap8 (Clamp v 0 255) = max 0 (min 255 v) := by
  simp only [Clamp, Go.uwrap8]
  split <;> (try split) <;> simp_all <;> omega


theorem inv_eq (y cb cr : Int) :
    ycbcrToRGB y cb cr =
      (Go.uwrap8 (Clamp (y + 91881 * (cr - 128) / 65536) 0 255),
       Go.uwrap8 (Clamp (y - (22554 * (cb - 128) + 46802 * (cr - 128)) / 65536) 0 255),
       Go.uwrap8 (Clamp (y + 116130 * (cb - 128) / 65536) 0 255)) := by
  simp only [ycbcrToRGB, Go.shr, Int.shiftRight_eq_div_pow]
  simp

/-- round trip through the generated kernels: every channel within 2 -/
theorem colour_roundtrip (enc : Encoder) (row col sr st a1 a2 a3 r g b : Int)
    (hr : 0 ≤ r ∧ r ≤ 255) (hg : 0 ≤ g ∧ g ≤ 255) (hb : 0 ≤ b ∧ b ≤ 255) :
    let f := rgbToYCbCr.entry enc row col sr st r g b a1 a2 a3
    let i := ycbcrToRGB f.1 f.2.fst f.2.snd
    (-2 : Int) ≤ i.1 - r ∧ i.1 - r ≤ 2 ∧ -2 ≤ i.2.fst - g ∧ i.2.fst - g ≤ 2 ∧ -2 ≤ i.2.snd - b ∧ i.2.snd - b ≤ 2 := by
  intro f i
  have hf := fwd_entry_eq enc row col sr st r g b a1 a2 a3
  have hrange := fwd_ranges r g b hr hg hb
  have cy := (clamp_byte (fwdY r g b)).2.2
  have ccb := (clamp_byte (fwdCb r g b)).2.2
  have ccr := (clamp_byte (fwdCr r g b)).2.2
  simp only [i, f, hf, inv_eq, cy, ccb, ccr]
  have c1 := fun v => (clamp_byte v).2.2
  simp only [c1]
  simp only [fwdY, fwdCb, fwdCr] at hrange ⊢
  omega

end Dct
