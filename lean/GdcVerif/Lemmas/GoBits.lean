import GdcVerif.GoPrelude
/-!
  Rewrite lemmas for the Go bitwise operators of `GoPrelude` (64-bit two's complement through
  `BitVec 64`) in the three shapes the codecs use:

  * `Go.and x (2^k − 1) = x % 2^k`      masks (`MaxVal`, `1`, `0xFF`, `(1<<k)−1`)
  * `Go.xor x 0 = x`, `Go.xor 0 x = x`   sign application with sign = 0
  * `Go.xor x (−1) = −x − 1`, `Go.xor (−1) x = −x − 1`   sign application with sign = −1

  each for every `x` in the int64 range (`−2^63 ≤ x < 2^63`), `k ≤ 62`.  Core Lean only.
-/
namespace Go

/-- the int64 range -/
def I64 (x : Int) : Prop := -9223372036854775808 ≤ x ∧ x < 9223372036854775808

instance (x : Int) : Decidable (I64 x) := by unfold I64; infer_instance

theorem toInt_ofInt_of_I64 {x : Int} (h : I64 x) : (BitVec.ofInt 64 x).toInt = x := by
  rw [BitVec.toInt_ofInt]
  unfold I64 at h
  unfold Int.bmod
  simp only [Nat.reducePow]
  split <;> omega

private theorem toNat_ofInt_mask (k : Nat) (hk : k ≤ 63) :
    (BitVec.ofInt 64 ((2 : Int) ^ k - 1)).toNat = 2 ^ k - 1 := by
  rw [BitVec.toNat_ofInt]
  have h1 : (1 : Nat) ≤ 2 ^ k := Nat.one_le_two_pow
  have h2 : 2 ^ k ≤ 2 ^ 63 := Nat.pow_le_pow_right (by decide) hk
  have e : ((2 : Int) ^ k - 1) = ((2 ^ k - 1 : Nat) : Int) := by
    rw [Int.ofNat_sub h1]; simp
  rw [e]
  have : ((2 ^ k - 1 : Nat) : Int) % ((2 ^ 64 : Nat) : Int) = ((2 ^ k - 1 : Nat) : Int) := by
    apply Int.emod_eq_of_lt
    · exact Int.natCast_nonneg _
    · have : 2 ^ k - 1 < 2 ^ 64 := by
        have : (2:Nat) ^ 63 < 2 ^ 64 := by decide
        omega
      exact Int.ofNat_lt.mpr this
  rw [this]; simp

/-- `x & (2^k − 1) = x mod 2^k` (Euclidean, result in `[0, 2^k)`) for every `x`, `k ≤ 62`.
    No range hypothesis on `x` is needed: `BitVec.ofInt` reduces modulo `2^64` first and
    `2^k ∣ 2^64`. -/
theorem and_mask (x : Int) (k : Nat) (hk : k ≤ 62) : Go.and x ((2 : Int) ^ k - 1) = x % (2 : Int) ^ k := by
  unfold Go.and
  have hN : ((BitVec.ofInt 64 x) &&& BitVec.ofInt 64 ((2 : Int) ^ k - 1)).toNat
      = (x % ((2 ^ 64 : Nat) : Int)).toNat % 2 ^ k := by
    rw [BitVec.toNat_and, toNat_ofInt_mask k (by omega), BitVec.toNat_ofInt,
      Nat.and_two_pow_sub_one_eq_mod]
  have hlt : (x % ((2 ^ 64 : Nat) : Int)).toNat % 2 ^ k < 2 ^ k := Nat.mod_lt _ (Nat.two_pow_pos k)
  have hk2 : (2 : Nat) ^ k ≤ 2 ^ 62 := Nat.pow_le_pow_right (by decide) hk
  rw [BitVec.toInt_eq_toNat_of_lt (by rw [hN]; have : (2:Nat)^62 * 2 < 2^64 := by decide
                                      omega), hN]
  have hnn : 0 ≤ x % ((2 ^ 64 : Nat) : Int) := Int.emod_nonneg _ (by decide)
  rw [Int.natCast_emod, Int.toNat_of_nonneg hnn]
  have hd : ((2 : Int) ^ k) ∣ ((2 ^ 64 : Nat) : Int) := by
    refine ⟨(2 : Int) ^ (64 - k), ?_⟩
    rw [← Int.pow_add]
    have : k + (64 - k) = 64 := by omega
    rw [this]; rfl
  have : ((2 ^ k : Nat) : Int) = (2 : Int) ^ k := by simp
  rw [this]
  exact Int.emod_emod_of_dvd x hd

/-- instances used by the codecs -/
theorem and_one (x : Int) : Go.and x 1 = x % 2 := by
  have := and_mask x 1 (by decide); simpa using this

theorem and_255 (x : Int) : Go.and x 255 = x % 256 := by
  have := and_mask x 8 (by decide); simpa using this

theorem xor_zero (x : Int) (h : I64 x) : Go.xor x 0 = x := by
  unfold Go.xor
  have : BitVec.ofInt 64 0 = 0#64 := rfl
  rw [this, BitVec.xor_zero]; exact toInt_ofInt_of_I64 h

theorem zero_xor (x : Int) (h : I64 x) : Go.xor 0 x = x := by
  unfold Go.xor
  have : BitVec.ofInt 64 0 = 0#64 := rfl
  rw [this, BitVec.zero_xor]; exact toInt_ofInt_of_I64 h

private theorem ofInt_neg_one : BitVec.ofInt 64 (-1) = BitVec.allOnes 64 := by decide

theorem xor_neg_one (x : Int) (h : I64 x) : Go.xor x (-1) = -x - 1 := by
  unfold Go.xor
  rw [ofInt_neg_one, BitVec.xor_allOnes, BitVec.toInt_not, BitVec.toNat_ofInt]
  unfold I64 at h
  have hnn : 0 ≤ x % ((2 ^ 64 : Nat) : Int) := Int.emod_nonneg _ (by decide)
  rw [Int.toNat_of_nonneg hnn]
  unfold Int.bmod
  simp only [Nat.reducePow, Int.reducePow]
  have h1 := Int.emod_emod_of_dvd x (Int.dvd_refl 18446744073709551616)
  by_cases hx : 0 ≤ x
  · have : x % ((18446744073709551616 : Nat) : Int) = x := Int.emod_eq_of_lt hx (by omega)
    rw [this]; split <;> omega
  · have : x % ((18446744073709551616 : Nat) : Int) = x + 18446744073709551616 := by
      have := Int.add_mul_emod_self_left x 18446744073709551616 1
      have h2 : (x + 18446744073709551616) % 18446744073709551616 = x + 18446744073709551616 :=
        Int.emod_eq_of_lt (by omega) (by omega)
      simp only [Int.mul_one] at this
      rw [← h2]; exact this.symm
    rw [this]; split <;> omega

theorem neg_one_xor (x : Int) (h : I64 x) : Go.xor (-1) x = -x - 1 := by
  have : Go.xor (-1) x = Go.xor x (-1) := by unfold Go.xor; rw [BitVec.xor_comm]
  rw [this]; exact xor_neg_one x h

end Go
