import GdcVerif.Model.JpegLossless
/-!
  Layer L4: bit-I/O round trip of the JPEG Huffman bit writer / reader model
  (`GdcVerif/Model/JpegLossless.lean`, sections 4, 5, 7).
-/
namespace JLL

/-! ## bitsOf / ofBits -/

theorem bitsOf_length (v n : Nat) : (bitsOf v n).length = n := by
  induction n with
  | zero => rfl
  | succ n ih => simp [bitsOf, ih]

theorem bitsOf_congr {v w : Nat} {n : Nat} (h : ∀ i, i < n → v.testBit i = w.testBit i) :
    bitsOf v n = bitsOf w n := by
  induction n with
  | zero => rfl
  | succ n ih =>
    simp only [bitsOf]
    rw [h n (Nat.lt_succ_self n), ih (fun i hi => h i (Nat.lt_succ_of_lt hi))]

theorem bitsOf_append (v m n : Nat) : bitsOf v (m + n) = bitsOf (v >>> n) m ++ bitsOf v n := by
  induction m with
  | zero => simp [bitsOf]
  | succ m ih =>
    have : m + 1 + n = (m + n) + 1 := by omega
    rw [this]
    simp only [bitsOf, List.cons_append, ih, Nat.testBit_shiftRight]
    rw [Nat.add_comm n m]

theorem bitsOf_all_true {v n : Nat} (h : ∀ i, i < n → v.testBit i = true) :
    ∀ b ∈ bitsOf v n, b = true := by
  induction n with
  | zero => intro b hb; simp [bitsOf] at hb
  | succ n ih =>
    intro b hb
    simp only [bitsOf, List.mem_cons] at hb
    rcases hb with hb | hb
    · rw [hb]; exact h n (Nat.lt_succ_self n)
    · exact ih (fun i hi => h i (Nat.lt_succ_of_lt hi)) b hb

theorem mod_two_pow_succ_testBit (v n : Nat) :
    v % 2 ^ (n + 1) = (if v.testBit n then 1 else 0) * 2 ^ n + v % 2 ^ n := by
  rw [Nat.testBit_eq_decide_div_mod_eq]
  have h1 : v % 2 ^ (n + 1) = 2 ^ n * (v / 2 ^ n % 2) + v % 2 ^ n := by
    rw [Nat.pow_succ, Nat.mod_mul]
    omega
  rw [h1]
  have : v / 2 ^ n % 2 = 0 ∨ v / 2 ^ n % 2 = 1 := by omega
  rcases this with h | h <;> simp [h]

theorem ofBits_bitsOf (v n : Nat) : ofBits (bitsOf v n) = v % 2 ^ n := by
  induction n with
  | zero => simp [bitsOf, ofBits, Nat.mod_one]
  | succ n ih =>
    simp only [bitsOf, ofBits, bitsOf_length, ih]
    rw [mod_two_pow_succ_testBit]

/-! ## u32, mask32 -/

theorem u32_testBit (x i : Nat) : (u32 x).testBit i = (decide (i < 32) && x.testBit i) := by
  have : u32 x = x % 2 ^ 32 := rfl
  rw [this, Nat.testBit_mod_two_pow]

theorem mask32_eq (n : Nat) (hn : n ≤ 31) : mask32 n = 2 ^ n - 1 := by
  unfold mask32 u32
  rw [Nat.one_shiftLeft]
  have h1 : 2 ^ n < 2 ^ 32 := Nat.pow_lt_pow_right (by omega) (by omega)
  have h2 : 0 < 2 ^ n := Nat.two_pow_pos n
  have h3 : (2:Nat) ^ 32 = 4294967296 := by decide
  omega

theorem and_one_eq_one (x k : Nat) : decide ((x >>> k) &&& 1 = 1) = x.testBit k := by
  rw [Nat.testBit_eq_decide_div_mod_eq, Nat.and_one_is_mod, Nat.shiftRight_eq_div_pow]

/-! ## stuff / unstuff / StuffOk -/

theorem unstuff_cons_ne {b : Nat} (h : b ≠ 0xFF) (l : List Nat) :
    unstuff (b :: l) = b :: unstuff l := by
  rw [unstuff.eq_def]; simp [h]

theorem unstuff_ff_cons (x : Nat) (l : List Nat) :
    unstuff (0xFF :: x :: l) = 0xFF :: unstuff l := by
  simp [unstuff]

theorem stuffOk_cons_ne {b : Nat} (h : b ≠ 0xFF) (l : List Nat) :
    StuffOk (b :: l) = (decide (b < 256) && StuffOk l) := by
  rw [StuffOk.eq_def]; simp [h]

theorem stuffOk_ff_cons (x : Nat) (l : List Nat) :
    StuffOk (0xFF :: x :: l) = (decide (x = 0) && StuffOk l) := by
  simp [StuffOk]

theorem unstuff_stuff_append (b : Nat) (l : List Nat) : unstuff (stuff b ++ l) = b :: unstuff l := by
  unfold stuff
  by_cases h : b = 0xFF
  · subst h; simp [unstuff_ff_cons]
  · simp [h, unstuff_cons_ne h]

theorem stuffOk_stuff_append (b : Nat) (hb : b < 256) (l : List Nat) :
    StuffOk (stuff b ++ l) = StuffOk l := by
  unfold stuff
  by_cases h : b = 0xFF
  · subst h; simp [stuffOk_ff_cons]
  · simp [h, stuffOk_cons_ne h, hb]

theorem unstuff_flatMap_stuff_append (raw l : List Nat) :
    unstuff (raw.flatMap stuff ++ l) = raw ++ unstuff l := by
  induction raw with
  | nil => simp
  | cons b raw ih =>
    rw [List.flatMap_cons, List.append_assoc, unstuff_stuff_append, ih]; rfl

theorem unstuff_nil : unstuff [] = [] := by simp [unstuff]

theorem unstuff_flatMap_stuff (raw : List Nat) : unstuff (raw.flatMap stuff) = raw := by
  have := unstuff_flatMap_stuff_append raw []
  simpa [unstuff_nil] using this

theorem stuffOk_flatMap_stuff_append (raw l : List Nat) (h : ∀ b ∈ raw, b < 256) :
    StuffOk (raw.flatMap stuff ++ l) = StuffOk l := by
  induction raw with
  | nil => simp
  | cons b raw ih =>
    rw [List.flatMap_cons, List.append_assoc, stuffOk_stuff_append b (h b (by simp)),
      ih (fun x hx => h x (by simp [hx]))]

theorem stuffOk_flatMap_stuff (raw : List Nat) (h : ∀ b ∈ raw, b < 256) :
    StuffOk (raw.flatMap stuff) = true := by
  have := stuffOk_flatMap_stuff_append raw [] h
  simpa [StuffOk] using this

/-! ## Writer -/

/-- the bits buffered in the writer's register -/
def encPending (e : HuffEnc) : List Bool := bitsOf e.bits e.nBits

theorem bitsOf_mod256 (x : Nat) : bitsOf (x % 256) 8 = bitsOf x 8 := by
  apply bitsOf_congr
  intro i hi
  have : (256 : Nat) = 2 ^ 8 := by decide
  rw [this, Nat.testBit_mod_two_pow]
  simp [hi]

theorem drain_spec (bits nBits : Nat) :
    ∃ raw : List Nat, (drain bits nBits).1 = raw.flatMap stuff ∧ (∀ b ∈ raw, b < 256) ∧
      raw.flatMap (fun b => bitsOf b 8) ++ bitsOf bits (drain bits nBits).2 = bitsOf bits nBits ∧
      (drain bits nBits).2 ≤ 7 := by
  induction nBits using Nat.strongRecOn with
  | _ nBits ih =>
    rw [drain]
    by_cases h : nBits ≥ 8
    · simp only [h, ↓reduceDIte]
      obtain ⟨raw, h1, h2, h3, h4⟩ := ih (nBits - 8) (by omega)
      refine ⟨((bits >>> (nBits - 8)) % 256) :: raw, ?_, ?_, ?_, h4⟩
      · rw [List.flatMap_cons, h1]
      · intro b hb
        simp only [List.mem_cons] at hb
        rcases hb with hb | hb
        · rw [hb]; omega
        · exact h2 b hb
      · rw [List.flatMap_cons, List.append_assoc, h3, bitsOf_mod256]
        have : nBits = 8 + (nBits - 8) := by omega
        conv => rhs; rw [this]
        rw [bitsOf_append]
    · simp only [h, ↓reduceDIte]
      refine ⟨[], by simp, by simp, by simp, by omega⟩

/-- the register update of `WriteBits` appends the `n` low bits of `v` to the `k` buffered bits -/
theorem writeBits_reg (eb v k n : Nat) (hk : k + n ≤ 32) (hn : n ≤ 31) :
    bitsOf (u32 (u32 (eb <<< n) ||| (v &&& mask32 n))) (k + n) = bitsOf eb k ++ bitsOf v n := by
  rw [bitsOf_append, mask32_eq n hn]
  congr 1
  · apply bitsOf_congr
    intro i hi
    simp only [Nat.testBit_shiftRight, u32_testBit, Nat.testBit_or, Nat.testBit_and,
      Nat.testBit_shiftLeft, Nat.testBit_two_pow_sub_one]
    have h1 : n + i < 32 := by omega
    have h2 : n + i ≥ n := by omega
    have h3 : ¬ (n + i < n) := by omega
    have h4 : n + i - n = i := by omega
    simp [h1, h2, h3, h4]
  · apply bitsOf_congr
    intro i hi
    simp only [u32_testBit, Nat.testBit_or, Nat.testBit_and,
      Nat.testBit_shiftLeft, Nat.testBit_two_pow_sub_one]
    have h1 : i < 32 := by omega
    have h3 : ¬ (i ≥ n) := by omega
    simp [h1, h3, hi]

theorem writeBits_spec (e : HuffEnc) (v n : Nat) (he : e.nBits ≤ 7) (hn : n ≤ 24) :
    ∃ raw : List Nat, (e.writeBits v n).2 = raw.flatMap stuff ∧ (∀ b ∈ raw, b < 256) ∧
      raw.flatMap (fun b => bitsOf b 8) ++ encPending (e.writeBits v n).1
        = encPending e ++ bitsOf v n ∧
      (e.writeBits v n).1.nBits ≤ 7 := by
  unfold HuffEnc.writeBits
  by_cases h0 : n = 0
  · subst h0
    exact ⟨[], by simp, by simp, by simp [bitsOf], by simpa using he⟩
  · simp only [h0, ↓reduceIte]
    obtain ⟨raw, h1, h2, h3, h4⟩ :=
      drain_spec (u32 (u32 (e.bits <<< n) ||| (v &&& mask32 n))) (e.nBits + n)
    refine ⟨raw, h1, h2, ?_, h4⟩
    simp only [encPending]
    rw [h3, writeBits_reg _ _ _ _ (by omega) (by omega)]

/-- writer invariant: after any WriteBits, fewer than 8 bits stay buffered -/
theorem writeBits_nBits_le (e : HuffEnc) (v n : Nat) (he : e.nBits ≤ 7) :
    (e.writeBits v n).1.nBits ≤ 7 := by
  unfold HuffEnc.writeBits
  by_cases h0 : n = 0
  · simpa [h0] using he
  · simp only [h0, ↓reduceIte]
    obtain ⟨_, _, _, _, h4⟩ :=
      drain_spec (u32 (u32 (e.bits <<< n) ||| (v &&& mask32 n))) (e.nBits + n)
    exact h4

/-- what the writer has emitted + what is buffered = what was buffered + the bits written -/
theorem writeBits_bits (e : HuffEnc) (v n : Nat) (he : e.nBits ≤ 7) (hn : n ≤ 24) :
    (unstuff (e.writeBits v n).2).flatMap (fun b => bitsOf b 8) ++ encPending (e.writeBits v n).1
      = encPending e ++ bitsOf v n := by
  obtain ⟨raw, h1, _, h3, _⟩ := writeBits_spec e v n he hn
  rw [h1, unstuff_flatMap_stuff, h3]

theorem writeBits_stuffOk (e : HuffEnc) (v n : Nat) (he : e.nBits ≤ 7) (hn : n ≤ 24) :
    StuffOk (e.writeBits v n).2 = true := by
  obtain ⟨raw, h1, h2, _, _⟩ := writeBits_spec e v n he hn
  rw [h1]; exact stuffOk_flatMap_stuff raw h2

/-- the flush byte: `k` buffered bits followed by `j = 8 - k` one-bits -/
theorem flush_byte (eb j k : Nat) (hjk : j + k = 8) :
    bitsOf ((u32 (eb <<< j) ||| (u32 (1 <<< j) - 1)) % 256) 8
      = bitsOf eb k ++ bitsOf (2 ^ j - 1) j := by
  have hu : u32 (1 <<< j) = 2 ^ j := by
    rw [Nat.one_shiftLeft]
    unfold u32
    apply Nat.mod_eq_of_lt
    have : 2 ^ j < 2 ^ 32 := Nat.pow_lt_pow_right (by omega) (by omega)
    have h3 : (2:Nat) ^ 32 = 4294967296 := by decide
    omega
  rw [hu, bitsOf_mod256]
  have : 8 = k + j := by omega
  rw [this, bitsOf_append]
  congr 1
  · apply bitsOf_congr
    intro i hi
    simp only [Nat.testBit_shiftRight, u32_testBit, Nat.testBit_or,
      Nat.testBit_shiftLeft, Nat.testBit_two_pow_sub_one]
    have h1 : j + i < 32 := by omega
    have h2 : j + i ≥ j := by omega
    have h3 : ¬ (j + i < j) := by omega
    have h4 : j + i - j = i := by omega
    simp [h1, h2, h3, h4]
  · apply bitsOf_congr
    intro i hi
    simp only [u32_testBit, Nat.testBit_or,
      Nat.testBit_shiftLeft, Nat.testBit_two_pow_sub_one]
    simp [hi]

theorem flush_spec (e : HuffEnc) (he : e.nBits ≤ 7) :
    ∃ (raw : List Nat) (pad : List Bool), e.flush.2 = raw.flatMap stuff ∧ (∀ b ∈ raw, b < 256) ∧
      pad.length < 8 ∧ (∀ b ∈ pad, b = true) ∧
      raw.flatMap (fun b => bitsOf b 8) = encPending e ++ pad := by
  unfold HuffEnc.flush
  by_cases h0 : e.nBits > 0
  · simp only [h0, ↓reduceIte]
    refine ⟨[(u32 (e.bits <<< (8 - e.nBits)) ||| (u32 (1 <<< (8 - e.nBits)) - 1)) % 256],
      bitsOf (2 ^ (8 - e.nBits) - 1) (8 - e.nBits), by simp, ?_, ?_, ?_, ?_⟩
    · intro b hb
      simp only [List.mem_singleton] at hb
      rw [hb]; omega
    · rw [bitsOf_length]; omega
    · apply bitsOf_all_true
      intro i hi
      rw [Nat.testBit_two_pow_sub_one]; simp [hi]
    · simp only [List.flatMap_cons, List.flatMap_nil, List.append_nil, encPending]
      exact flush_byte e.bits (8 - e.nBits) e.nBits (by omega)
  · simp only [h0, ↓reduceIte]
    have : e.nBits = 0 := by omega
    refine ⟨[], [], by simp, by simp, by simp, by simp, ?_⟩
    simp [encPending, this, bitsOf]

theorem writeAll_spec (ws : List (Nat × Nat)) (hn : ∀ w ∈ ws, w.2 ≤ 24) :
    ∀ (e : HuffEnc), e.nBits ≤ 7 →
    ∃ (raw : List Nat) (pad : List Bool), writeAll e ws = raw.flatMap stuff ∧ (∀ b ∈ raw, b < 256) ∧
      pad.length < 8 ∧ (∀ b ∈ pad, b = true) ∧
      raw.flatMap (fun b => bitsOf b 8)
        = encPending e ++ ws.flatMap (fun w => bitsOf w.1 w.2) ++ pad := by
  induction ws with
  | nil =>
    intro e he
    obtain ⟨raw, pad, h1, h2, h3, h4, h5⟩ := flush_spec e he
    exact ⟨raw, pad, by simpa [writeAll] using h1, h2, h3, h4, by simpa using h5⟩
  | cons w rest ih =>
    intro e he
    obtain ⟨v, n⟩ := w
    have hn' : n ≤ 24 := hn (v, n) (by simp)
    obtain ⟨raw1, a1, a2, a3, a4⟩ := writeBits_spec e v n he hn'
    obtain ⟨raw2, pad, b1, b2, b3, b4, b5⟩ :=
      ih (fun w hw => hn w (by simp [hw])) (e.writeBits v n).1 a4
    refine ⟨raw1 ++ raw2, pad, ?_, ?_, b3, b4, ?_⟩
    · simp only [writeAll]
      rw [a1, b1, List.flatMap_append]
    · intro b hb
      rcases List.mem_append.mp hb with hb | hb
      · exact a2 b hb
      · exact b2 b hb
    · rw [List.flatMap_append, b5, List.flatMap_cons]
      simp only [← List.append_assoc]
      rw [a3]

theorem encPending_init : encPending {} = [] := rfl

/-- L4a: the bytes of `WriteBits*; Flush` unstuff to exactly the written bits followed by
    fewer than 8 one-bits (any widths ≤ 24; the Go callers use ≤ 16) -/
theorem writeAll_bits' (ws : List (Nat × Nat)) (hn : ∀ w ∈ ws, w.2 ≤ 24) :
    ∃ pad : List Bool, pad.length < 8 ∧ (∀ b ∈ pad, b = true) ∧
      (unstuff (writeAll {} ws)).flatMap (fun b => bitsOf b 8)
        = ws.flatMap (fun w => bitsOf w.1 w.2) ++ pad := by
  obtain ⟨raw, pad, h1, _, h3, h4, h5⟩ := writeAll_spec ws hn {} (by decide)
  refine ⟨pad, h3, h4, ?_⟩
  rw [h1, unstuff_flatMap_stuff, h5, encPending_init, List.nil_append]

theorem writeAll_bits (ws : List (Nat × Nat)) (hn : ∀ w ∈ ws, w.2 ≤ 16) :
    ∃ pad : List Bool, pad.length < 8 ∧ (∀ b ∈ pad, b = true) ∧
      (unstuff (writeAll {} ws)).flatMap (fun b => bitsOf b 8)
        = ws.flatMap (fun w => bitsOf w.1 w.2) ++ pad :=
  writeAll_bits' ws (fun w hw => Nat.le_trans (hn w hw) (by decide))

/-- L4b: THE STUFFING INVARIANT holds for everything the writer emits -/
theorem writeAll_stuffOk' (ws : List (Nat × Nat)) (hn : ∀ w ∈ ws, w.2 ≤ 24) :
    StuffOk (writeAll {} ws) = true := by
  obtain ⟨raw, pad, h1, h2, _, _, _⟩ := writeAll_spec ws hn {} (by decide)
  rw [h1]; exact stuffOk_flatMap_stuff raw h2

theorem writeAll_stuffOk (ws : List (Nat × Nat)) (hn : ∀ w ∈ ws, w.2 ≤ 16) :
    StuffOk (writeAll {} ws) = true :=
  writeAll_stuffOk' ws (fun w hw => Nat.le_trans (hn w hw) (by decide))

/-! ## Reader -/

theorem fetch_spec (data : List Nat) (hs : StuffOk data = true) (hne : data ≠ []) :
    ∃ b rest, fetch data = some (b, rest) ∧ b < 256 ∧ StuffOk rest = true ∧
      unstuff data = b :: unstuff rest := by
  cases data with
  | nil => exact absurd rfl hne
  | cons x r =>
    by_cases hx : x = 0xFF
    · subst hx
      cases r with
      | nil => simp [StuffOk] at hs
      | cons y r2 =>
        rw [stuffOk_ff_cons] at hs
        simp only [Bool.and_eq_true, decide_eq_true_eq] at hs
        obtain ⟨hy, hs2⟩ := hs
        subst hy
        exact ⟨0xFF, r2, by simp [fetch], by decide, hs2, unstuff_ff_cons 0 r2⟩
    · rw [stuffOk_cons_ne hx] at hs
      simp only [Bool.and_eq_true, decide_eq_true_eq] at hs
      exact ⟨x, r, by simp [fetch, hx], hs.1, hs.2, unstuff_cons_ne hx r⟩

theorem unstuff_cons_exists (x : Nat) (r : List Nat) : ∃ t, unstuff (x :: r) = x :: t := by
  by_cases hx : x = 0xFF
  · subst hx
    cases r with
    | nil => exact ⟨[], by simp [unstuff]⟩
    | cons y r2 => exact ⟨_, unstuff_ff_cons y r2⟩
  · exact ⟨_, unstuff_cons_ne hx r⟩

theorem bitsOf_succ (v n : Nat) : bitsOf v (n + 1) = v.testBit n :: bitsOf v n := rfl

/-- reader, one bit: on a well-stuffed remaining input the reader returns the head of `pending` -/
theorem readBit_spec (d : HuffDec) (hs : StuffOk d.data = true) (hb : d.nBits ≤ 7) (b : Bool)
    (rest : List Bool) (hp : pending d = b :: rest) :
    ∃ d', d.readBit = some (b, d') ∧ pending d' = rest ∧ StuffOk d'.data = true ∧ d'.nBits ≤ 7 := by
  unfold HuffDec.readBit
  by_cases h0 : d.nBits = 0
  · simp only [h0, ↓reduceIte]
    have hne : d.data ≠ [] := by
      intro hnil
      simp [pending, h0, hnil, bitsOf, unstuff_nil] at hp
    obtain ⟨x, r, hf, hx, hsr, hu⟩ := fetch_spec d.data hs hne
    rw [hf]
    have hp' : x.testBit 7 :: (bitsOf x 7 ++ (unstuff r).flatMap (fun b => bitsOf b 8))
        = b :: rest := by
      rw [← hp]
      simp only [pending, h0, hu, List.flatMap_cons]
      rfl
    injection hp' with e1 e2
    refine ⟨{ data := r, bits := x, nBits := 7 }, ?_, ?_, hsr, Nat.le_refl 7⟩
    · simp only [and_one_eq_one, e1]
    · simp only [pending]; exact e2
  · simp only [h0, ↓reduceIte]
    obtain ⟨k, hk⟩ : ∃ k, d.nBits = k + 1 := ⟨d.nBits - 1, by omega⟩
    have hp' : d.bits.testBit k :: (bitsOf d.bits k ++ (unstuff d.data).flatMap (fun b => bitsOf b 8))
        = b :: rest := by
      rw [← hp]
      simp only [pending, hk, bitsOf_succ]
      rfl
    injection hp' with e1 e2
    have hk' : d.nBits - 1 = k := by omega
    refine ⟨{ d with nBits := d.nBits - 1 }, ?_, ?_, hs, by simp only; omega⟩
    · simp only [and_one_eq_one, hk', e1]
    · simp only [pending, hk']; exact e2

/-- reader at end of input: no pending bits -> error (`hs` is not needed; kept for the interface) -/
theorem readBit_eof (d : HuffDec) (_hs : StuffOk d.data = true) (hp : pending d = []) :
    d.readBit = none := by
  have hlen := congrArg List.length hp
  simp only [pending, List.length_append, bitsOf_length, List.length_nil] at hlen
  have h0 : d.nBits = 0 := by omega
  unfold HuffDec.readBit
  simp only [h0, ↓reduceIte]
  cases hd : d.data with
  | nil => simp [fetch]
  | cons x r =>
    exfalso
    obtain ⟨t, ht⟩ := unstuff_cons_exists x r
    rw [hd, ht, List.flatMap_cons, List.length_append, bitsOf_length] at hlen
    omega

theorem fill_reg (bits x k : Nat) (hx : x < 256) (hk : k + 8 ≤ 32) :
    bitsOf (u32 (u32 (bits <<< 8) ||| x)) (k + 8) = bitsOf bits k ++ bitsOf x 8 := by
  have e : x &&& mask32 8 = x := by
    rw [mask32_eq 8 (by omega), Nat.and_two_pow_sub_one_eq_mod]
    exact Nat.mod_eq_of_lt hx
  have := writeBits_reg bits x k 8 hk (by omega)
  rw [e] at this
  exact this

theorem fill_spec (n : Nat) (hn : n ≤ 24) : ∀ (fuel : Nat) (data : List Nat) (bits nBits : Nat),
    n - nBits ≤ fuel → StuffOk data = true → nBits ≤ n + 7 →
    n ≤ (bitsOf bits nBits ++ (unstuff data).flatMap (fun b => bitsOf b 8)).length →
    ∃ data' bits' nBits', fill n data bits nBits = some (data', bits', nBits') ∧
      StuffOk data' = true ∧ n ≤ nBits' ∧ nBits' ≤ n + 7 ∧
      bitsOf bits' nBits' ++ (unstuff data').flatMap (fun b => bitsOf b 8) =
        bitsOf bits nBits ++ (unstuff data).flatMap (fun b => bitsOf b 8) := by
  intro fuel
  induction fuel with
  | zero =>
    intro data bits nBits hf hs hb hl
    rw [fill]
    have : ¬ nBits < n := by omega
    simp only [this, ↓reduceDIte]
    exact ⟨data, bits, nBits, rfl, hs, by omega, hb, rfl⟩
  | succ fuel ih =>
    intro data bits nBits hf hs hb hl
    rw [fill]
    by_cases hlt : nBits < n
    · simp only [hlt, ↓reduceDIte]
      have hne : data ≠ [] := by
        intro hnil
        simp only [hnil, unstuff_nil, List.flatMap_nil, List.append_nil, bitsOf_length] at hl
        omega
      obtain ⟨x, r, hfe, hx, hsr, hu⟩ := fetch_spec data hs hne
      rw [hfe]
      simp only
      have heq : bitsOf (u32 (u32 (bits <<< 8) ||| x)) (nBits + 8)
            ++ (unstuff r).flatMap (fun b => bitsOf b 8)
          = bitsOf bits nBits ++ (unstuff data).flatMap (fun b => bitsOf b 8) := by
        rw [fill_reg bits x nBits hx (by omega), hu, List.flatMap_cons, List.append_assoc]
      obtain ⟨data', bits', nBits', g1, g2, g3, g4, g5⟩ :=
        ih r (u32 (u32 (bits <<< 8) ||| x)) (nBits + 8) (by omega) hsr (by omega)
          (by rw [heq]; exact hl)
      exact ⟨data', bits', nBits', g1, g2, g3, g4, by rw [g5, heq]⟩
    · simp only [hlt, ↓reduceDIte]
      exact ⟨data, bits, nBits, rfl, hs, by omega, hb, rfl⟩

/-- reader, n bits (n ≤ 24; the Go callers use 1 ≤ n ≤ 16): returns the number spelled by the
    next n pending bits -/
theorem readBits_spec' (d : HuffDec) (hs : StuffOk d.data = true) (hb : d.nBits ≤ 7) (n : Nat)
    (hn : n ≤ 24) (bs rest : List Bool) (hl : bs.length = n) (hp : pending d = bs ++ rest) :
    ∃ d', d.readBits n = some (ofBits bs, d') ∧ pending d' = rest ∧ StuffOk d'.data = true ∧
      d'.nBits ≤ 7 := by
  unfold HuffDec.readBits
  by_cases h0 : n = 0
  · subst h0
    have : bs = [] := List.eq_nil_of_length_eq_zero hl
    subst this
    exact ⟨d, by simp [ofBits], by simpa using hp, hs, hb⟩
  · simp only [h0, ↓reduceIte]
    have hlen : n ≤ (bitsOf d.bits d.nBits ++ (unstuff d.data).flatMap (fun b => bitsOf b 8)).length := by
      have := congrArg List.length hp
      simp only [pending] at this
      rw [this, List.length_append]; omega
    obtain ⟨data', bits', nBits', g1, g2, g3, g4, g5⟩ :=
      fill_spec n hn (n - d.nBits) d.data d.bits d.nBits (Nat.le_refl _) hs (by omega) hlen
    rw [g1]
    simp only
    have hsplit : nBits' = n + (nBits' - n) := by omega
    have h5 : bitsOf (bits' >>> (nBits' - n)) n ++
        (bitsOf bits' (nBits' - n) ++ (unstuff data').flatMap (fun b => bitsOf b 8)) = bs ++ rest := by
      rw [← hp, ← List.append_assoc, ← bitsOf_append, ← hsplit]
      simp only [pending]; exact g5
    obtain ⟨e1, e2⟩ := List.append_inj h5 (by rw [bitsOf_length, hl])
    refine ⟨{ data := data', bits := bits', nBits := nBits' - n }, ?_, ?_, g2, by simp only; omega⟩
    · rw [← e1, ofBits_bitsOf, mask32_eq n (by omega), Nat.and_two_pow_sub_one_eq_mod]
    · simp only [pending]; exact e2

theorem readBits_spec (d : HuffDec) (hs : StuffOk d.data = true) (hb : d.nBits ≤ 7) (n : Nat)
    (hn : n ≤ 16) (bs rest : List Bool) (hl : bs.length = n) (hp : pending d = bs ++ rest) :
    ∃ d', d.readBits n = some (ofBits bs, d') ∧ pending d' = rest ∧ StuffOk d'.data = true ∧
      d'.nBits ≤ 7 :=
  readBits_spec' d hs hb n (by omega) bs rest hl hp

/-- L4: round trip: a fresh reader over the writer's bytes has exactly the written bits
    (then the 1-padding) pending -/
theorem huffbits_roundtrip (ws : List (Nat × Nat)) (hn : ∀ w ∈ ws, w.2 ≤ 16) :
    ∃ pad : List Bool, pad.length < 8 ∧ (∀ b ∈ pad, b = true) ∧
      pending { data := writeAll {} ws } = ws.flatMap (fun w => bitsOf w.1 w.2) ++ pad := by
  obtain ⟨pad, h1, h2, h3⟩ := writeAll_bits ws hn
  refine ⟨pad, h1, h2, ?_⟩
  simp only [pending, bitsOf, List.nil_append]
  exact h3

/-- the 8-bit fast path of HuffmanDecoder.Decode is dead code: with fewer than 8 buffered bits
    Decode is its slow path -/
theorem decode_fast_path_dead (d : HuffDec) (t : Table) (hb : d.nBits ≤ 7) :
    d.decode t = decodeLoop t.values HuffDec.readBit t.codes 0 d := by
  unfold HuffDec.decode
  have : ¬ d.nBits ≥ 8 := by omega
  simp only [this, ↓reduceIte]

end JLL
