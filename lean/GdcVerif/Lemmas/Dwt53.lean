import GdcVerif.Model.Dwt53
/-!
  5/3 DWT: the code-shaped 1D functions of `Model/Dwt53.lean` equal closed-form lifting formulas
  (`cFwdEven`, `cFwdOdd`, `cInvEven`, `cInvOdd`), and the closed forms are mutually inverse.
-/
namespace Go

/-- invariant rule of `for i := lo; i < hi; i++` -/
theorem forLoop_inv {σ : Type} (P : Nat → σ → Prop) :
    ∀ (lo hi : Nat) (body : (i : Nat) → lo ≤ i → i < hi → σ → σ) (s : σ),
    P lo s →
    (∀ i (h1 : lo ≤ i) (h2 : i < hi) s, P i s → P (i + 1) (body i h1 h2 s)) →
    P (max lo hi) (forLoop lo hi body s) := by
  intro lo hi
  induction h : hi - lo generalizing lo with
  | zero =>
    intro body s h0 _
    have : ¬ lo < hi := by omega
    rw [forLoop, dif_neg this]
    have : max lo hi = lo := by omega
    rw [this]; exact h0
  | succ n ih =>
    intro body s h0 hstep
    have hlt : lo < hi := by omega
    rw [forLoop, dif_pos hlt]
    have hm : max lo hi = max (lo + 1) hi := by omega
    rw [hm]
    apply ih (lo + 1) (by omega)
    · exact hstep lo (Nat.le_refl _) hlt s h0
    · intro i h1 h2 s hp
      exact hstep i (Nat.le_of_succ_le h1) h2 s hp

end Go

namespace Dwt53

theorem shr1 (x : Int) : Go.shr x 1 = x / 2 := by
  simp [Go.shr, Int.shiftRight_eq_div_pow]
theorem shr2 (x : Int) : Go.shr x 2 = x / 4 := by
  simp [Go.shr, Int.shiftRight_eq_div_pow]

/-- a vector as a total function (0 outside) -/
def toFn {w : Nat} (x : Vector Int w) (k : Nat) : Int := if h : k < w then x[k] else 0

theorem get_eq_toFn {w : Nat} (x : Vector Int w) (k : Nat) (h : k < w) : x[k] = toFn x k := by
  simp [toFn, h]

theorem ext_toFn {w : Nat} (x y : Vector Int w) (h : ∀ k, k < w → toFn x k = toFn y k) : x = y := by
  apply Vector.ext
  intro i hi
  rw [get_eq_toFn, get_eq_toFn]; exact h i hi

section closed
variable (wr : Int → Int)

/-! ### closed forms, `even == true` (low-pass at even positions) -/

/-- high-pass coefficient `i` (`i < w/2`) -/
def dE (w : Nat) (f : Nat → Int) (i : Nat) : Int :=
  if 2 * i + 2 = w then wr (f (2*i+1) - f (2*i)) else predict wr (f (2*i+1)) (f (2*i)) (f (2*i+2))

/-- low-pass coefficient `i` (`i < (w+1)/2`) -/
def sE (w : Nat) (f : Nat → Int) (i : Nat) : Int :=
  if i = 0 then update wr (f 0) (dE wr w f 0) (dE wr w f 0)
  else if 2 * i + 1 = w then update wr (f (2*i)) (dE wr w f (i-1)) (dE wr w f (i-1))
  else update wr (f (2*i)) (dE wr w f (i-1)) (dE wr w f i)

def cFwdEven (w : Nat) (f : Nat → Int) (k : Nat) : Int :=
  if k < w then (if k < snE w then sE wr w f k else dE wr w f (k - snE w)) else 0

theorem fwdEvenPredictLoop_get {w : Nat} (x : Vector Int w) (hw : 2 ≤ w) :
    ∀ j (hj : j < w), (fwdEvenPredictLoop wr x hw)[j] =
      if snE w ≤ j ∧ j < snE w + max 0 (snE w - 1) then dE wr w (toFn x) (j - snE w) else 0 := by
  have hsn := snE_eq w
  unfold fwdEvenPredictLoop
  exact Go.forLoop_inv
    (P := fun i (tmp : Vector Int w) => ∀ j (hj : j < w), tmp[j] =
      if snE w ≤ j ∧ j < snE w + i then dE wr w (toFn x) (j - snE w) else 0)
    _ _ _ _
    (by intro j hj; rw [if_neg (by omega)]; simp)
    (by
      intro i _ h2 tmp hp j hj
      rw [Vector.getElem_set]
      split
      · next heq =>
        have h3 : j - snE w = i := by omega
        have h4 : snE w ≤ j ∧ j < snE w + (i + 1) := by omega
        have h5 : ¬ 2 * i + 2 = w := by omega
        rw [if_pos h4, h3, dE, if_neg h5]
        simp only [get_eq_toFn]
        rw [show i * 2 = 2 * i by omega, show (i + 1) * 2 = 2 * i + 2 by omega]
      · next hne =>
        rw [hp j hj]
        by_cases hc : snE w ≤ j ∧ j < snE w + i
        · rw [if_pos hc, if_pos (by omega)]
        · rw [if_neg hc, if_neg (by omega)])

theorem fwdEvenPredict_get {w : Nat} (x : Vector Int w) (hw : 2 ≤ w) (k : Nat) (hk : k < w) :
    (fwdEvenPredict wr x hw)[k] = if snE w ≤ k then dE wr w (toFn x) (k - snE w) else 0 := by
  have hsn := snE_eq w
  unfold fwdEvenPredict
  have hloop := fwdEvenPredictLoop_get wr x hw
  simp only []
  split
  · next hev =>
    rw [Vector.getElem_set]
    split
    · next heq =>
      have h3 : k - snE w = snE w - 1 := by omega
      have h4 : snE w ≤ k := by omega
      have h5 : 2 * (snE w - 1) + 2 = w := by omega
      rw [if_pos h4, h3, dE, if_pos h5]
      simp only [get_eq_toFn]
      rw [show (snE w - 1) * 2 = 2 * (snE w - 1) by omega]
    · next hne =>
      rw [hloop k hk]
      by_cases hc : snE w ≤ k
      · rw [if_pos hc, if_pos (by omega)]
      · rw [if_neg hc, if_neg (by omega)]
  · next hodd =>
    rw [hloop k hk]
    by_cases hc : snE w ≤ k
    · rw [if_pos hc, if_pos (by omega)]
    · rw [if_neg hc, if_neg (by omega)]

theorem fwdEvenUpdateLoop_get {w : Nat} (x : Vector Int w) (hw : 2 ≤ w) :
    ∀ j (hj : j < w), (fwdEvenUpdateLoop wr x (fwdEvenPredict wr x hw) hw)[j] =
      if j < max 1 (w - snE w) then sE wr w (toFn x) j else toFn x j := by
  have hsn := snE_eq w
  have ht := fwdEvenPredict_get wr x hw
  unfold fwdEvenUpdateLoop
  exact Go.forLoop_inv
    (P := fun i (data : Vector Int w) => ∀ j (hj : j < w), data[j] =
      if j < i then sE wr w (toFn x) j else toFn x j)
    _ _ _ _
    (by
      intro j hj
      rw [Vector.getElem_set]
      split
      · next heq =>
        subst heq
        rw [if_pos (by omega), sE, if_pos rfl, ht _ (by omega), if_pos (Nat.le_refl _), Nat.sub_self, get_eq_toFn]
      · next hne => rw [if_neg (by omega), get_eq_toFn])
    (by
      intro i h1 h2 data hp j hj
      rw [Vector.getElem_set]
      split
      · next heq =>
        subst heq
        have e1 : snE w + (i - 1) - snE w = i - 1 := by omega
        have e2 : snE w + i - snE w = i := by omega
        rw [if_pos (by omega), sE, if_neg (by omega), if_neg (by omega), hp _ (by omega), if_neg (by omega),
          ht _ (by omega), if_pos (by omega), ht _ (by omega), if_pos (by omega), e1, e2]
      · next hne =>
        rw [hp j hj]
        by_cases hc : j < i
        · rw [if_pos hc, if_pos (by omega)]
        · rw [if_neg hc, if_neg (by omega)])

theorem fwdEvenUpdate_get {w : Nat} (x : Vector Int w) (hw : 2 ≤ w) (k : Nat) (hk : k < w) :
    (fwdEvenUpdate wr x (fwdEvenPredict wr x hw) hw)[k] =
      if k < snE w then sE wr w (toFn x) k else toFn x k := by
  have hsn := snE_eq w
  have ht := fwdEvenPredict_get wr x hw
  have hloop := fwdEvenUpdateLoop_get wr x hw
  unfold fwdEvenUpdate
  simp only []
  split
  · next hodd =>
    rw [Vector.getElem_set]
    split
    · next heq =>
      have e1 : snE w + (max 1 (w - snE w) - 1) - snE w = max 1 (w - snE w) - 1 := by omega
      rw [if_pos (by omega), ← heq, sE, if_neg (by omega), if_pos (by omega), hloop _ (by omega), if_neg (by omega),
        ht _ (by omega), if_pos (by omega), e1]
    · next hne =>
      rw [hloop k hk]
      by_cases hc : k < snE w
      · rw [if_pos hc, if_pos (by omega)]
      · rw [if_neg hc, if_neg (by omega)]
  · next hev =>
    rw [hloop k hk]
    by_cases hc : k < snE w
    · rw [if_pos hc, if_pos (by omega)]
    · rw [if_neg hc, if_neg (by omega)]

theorem copyHigh_get {w : Nat} (sn : Nat) (data tmp : Vector Int w) (k : Nat) (hk : k < w) :
    (copyHigh sn data tmp)[k] = if sn ≤ k then tmp[k] else data[k] := by
  unfold copyHigh
  rw [Vector.getElem_ofFn]
  simp only [Fin.getElem_fin]

theorem toFn_lt {w : Nat} (x : Vector Int w) (k : Nat) (hk : k < w) : toFn x k = x[k] := by
  simp [toFn, hk]
theorem toFn_ge {w : Nat} (x : Vector Int w) (k : Nat) (hk : ¬ k < w) : toFn x k = 0 := by
  simp [toFn, hk]

theorem forwardEven_toFn {w : Nat} (x : Vector Int w) (hw : 2 ≤ w) :
    toFn (forwardEven wr x hw) = cFwdEven wr w (toFn x) := by
  funext k
  unfold forwardEven cFwdEven
  by_cases hk : k < w
  · rw [toFn_lt _ _ hk, if_pos hk, copyHigh_get _ _ _ _ hk]
    by_cases hc : snE w ≤ k
    · rw [if_pos hc, if_neg (by omega), fwdEvenPredict_get wr x hw k hk, if_pos hc]
    · rw [if_neg hc, if_pos (by omega), fwdEvenUpdate_get wr x hw k hk, if_pos (by omega)]
  · rw [toFn_ge _ _ hk, if_neg hk]

/-! ### inverse, `even == true` -/

/-- reconstructed sample at even position `2m` -/
def evE (w : Nat) (g : Nat → Int) (m : Nat) : Int :=
  if m = 0 then unupdate1 wr (g 0) (g (snE w))
  else if 2 * m + 1 = w then unupdate1 wr (g m) (g (snE w + m - 1))
  else unupdate wr (g m) (g (snE w + m - 1)) (g (snE w + m))

def cInvEven (w : Nat) (g : Nat → Int) (k : Nat) : Int :=
  if k < w then
    (if k % 2 = 0 then evE wr w g (k / 2)
     else if 2 * (k / 2) + 2 = w then wr (g (snE w + k / 2) + evE wr w g (k / 2))
     else unpredict wr (g (snE w + k / 2)) (evE wr w g (k / 2)) (evE wr w g (k / 2 + 1)))
  else 0

theorem toFn_set {w : Nat} (v : Vector Int w) (i : Nat) (a : Int) (h : i < w) (k : Nat) :
    toFn (v.set i a h) k = if i = k then a else toFn v k := by
  unfold toFn
  by_cases hk : k < w
  · simp only [dif_pos hk, Vector.getElem_set]
  · rw [dif_neg hk, dif_neg hk, if_neg (by omega)]

theorem toFn_replicate (w k : Nat) : toFn (Vector.replicate w (0 : Int)) k = 0 := by
  unfold toFn; split <;> simp

theorem invEvenLoop_inv {w : Nat} (x : Vector Int w) (hw : 2 ≤ w) :
    (invEvenLoop wr x hw).d1n = toFn x (snE w + max 1 (w / 2) - 1) ∧
    (invEvenLoop wr x hw).s0n = evE wr w (toFn x) (max 1 (w / 2) - 1) ∧
    ∀ k, toFn (invEvenLoop wr x hw).tmp k =
      if k < 2 * (max 1 (w / 2) - 1) then cInvEven wr w (toFn x) k else 0 := by
  have hsn := snE_eq w
  unfold invEvenLoop
  exact Go.forLoop_inv
    (P := fun j (st : InvEvenSt w) => st.d1n = toFn x (snE w + j - 1) ∧ st.s0n = evE wr w (toFn x) (j - 1) ∧
      ∀ k, toFn st.tmp k = if k < 2 * (j - 1) then cInvEven wr w (toFn x) k else 0)
    _ _ _ _
    (by
      refine ⟨?_, ?_, ?_⟩
      · simp only [get_eq_toFn]; rfl
      · simp only [get_eq_toFn, evE]; rfl
      · intro k; rw [toFn_replicate, if_neg (by omega)])
    (by
      intro j h1 h2 st ⟨hd, hs, ht⟩
      have hev : evE wr w (toFn x) j = unupdate wr (toFn x j) (toFn x (snE w + j - 1)) (toFn x (snE w + j)) := by
        rw [evE, if_neg (by omega), if_neg (by omega)]
      refine ⟨?_, ?_, ?_⟩
      · simp only [get_eq_toFn]; rfl
      · simp only [get_eq_toFn, hd, Nat.add_sub_cancel]; exact hev.symm
      · intro k
        simp only [get_eq_toFn, hd, hs, toFn_set, ← hev]
        split
        · next heq =>
          have e1 : k / 2 = j - 1 := by omega
          have e2 : j - 1 + 1 = j := by omega
          rw [if_pos (by omega), cInvEven, if_pos (by omega), if_neg (by omega), if_neg (by omega), e1, e2]
          congr 2 <;> omega
        · next hne =>
          split
          · next heq =>
            have e1 : k / 2 = j - 1 := by omega
            rw [if_pos (by omega), cInvEven, if_pos (by omega), if_pos (by omega), e1]
          · next hne2 =>
            rw [ht k]
            by_cases hc : k < 2 * (j - 1)
            · rw [if_pos hc, if_pos (by omega)]
            · rw [if_neg hc, if_neg (by omega)])

theorem inverseEven_toFn {w : Nat} (x : Vector Int w) (hw : 2 ≤ w) :
    toFn (inverseEven wr x hw) = cInvEven wr w (toFn x) := by
  have hsn := snE_eq w
  obtain ⟨hd, hs, ht⟩ := invEvenLoop_inv wr x hw
  funext k
  by_cases hk : k < w
  · unfold inverseEven
    simp only [get_eq_toFn, hd, hs]
    split
    · next hodd =>
      have eJ : max 1 (w / 2) - 1 + 1 = max 1 (w / 2) := by omega
      have hlast : evE wr w (toFn x) (max 1 (w / 2)) =
          unupdate1 wr (toFn x ((w - 1) / 2)) (toFn x (snE w + max 1 (w / 2) - 1)) := by
        rw [evE, if_neg (by omega), if_pos (by omega)]
        congr 2 <;> congr 1 <;> omega
      simp only [toFn_set, if_pos, ← hlast]
      split
      · next heq =>
        have e1 : k / 2 = max 1 (w / 2) - 1 := by omega
        rw [cInvEven, if_pos hk, if_neg (by omega), if_neg (by omega), e1, eJ]
        congr 2 <;> omega
      · next hne =>
        split
        · next heq =>
          have e1 : k / 2 = max 1 (w / 2) := by omega
          rw [cInvEven, if_pos hk, if_pos (by omega), e1]
        · next hne2 =>
          split
          · next heq =>
            have e1 : k / 2 = max 1 (w / 2) - 1 := by omega
            rw [cInvEven, if_pos hk, if_pos (by omega), e1]
          · next hne3 => rw [ht k, if_pos (by omega)]
    · next hev =>
      simp only [toFn_set]
      split
      · next heq =>
        have e1 : k / 2 = max 1 (w / 2) - 1 := by omega
        rw [cInvEven, if_pos hk, if_neg (by omega), if_pos (by omega), e1,
          show snE w + (max 1 (w / 2) - 1) = snE w + max 1 (w / 2) - 1 by omega]
      · next hne =>
        split
        · next heq =>
          have e1 : k / 2 = max 1 (w / 2) - 1 := by omega
          rw [cInvEven, if_pos hk, if_pos (by omega), e1]
        · next hne2 => rw [ht k, if_pos (by omega)]
  · rw [toFn_ge _ _ hk, cInvEven, if_neg hk]

end closed

/-! ### the closed forms are mutually inverse (overflow-free reading `wr = id`) -/

theorem cFwdEven_low (w : Nat) (f : Nat → Int) (m : Nat) (h : 2 * m < w) :
    cFwdEven id w f m = sE id w f m := by
  have hsn := snE_eq w
  rw [cFwdEven, if_pos (by omega), if_pos (by omega)]

theorem cFwdEven_high (w : Nat) (f : Nat → Int) (i : Nat) (h : 2 * i + 1 < w) :
    cFwdEven id w f (snE w + i) = dE id w f i := by
  have hsn := snE_eq w
  rw [cFwdEven, if_pos (by omega), if_neg (by omega), Nat.add_sub_cancel_left]

theorem evE_rt (w : Nat) (f : Nat → Int) (m : Nat) (hw : 2 ≤ w) (h : 2 * m < w) :
    evE id w (cFwdEven id w f) m = f (2 * m) := by
  have hsn := snE_eq w
  unfold evE
  split
  · next h0 =>
    subst h0
    rw [cFwdEven_low w f 0 (by omega), show snE w = snE w + 0 by rfl, cFwdEven_high w f 0 (by omega), sE, if_pos rfl]
    simp only [unupdate1, update, id, shr1, shr2, Nat.mul_zero]
    omega
  · next h0 =>
    split
    · next hl =>
      rw [cFwdEven_low w f m h, show snE w + m - 1 = snE w + (m - 1) by omega, cFwdEven_high w f (m-1) (by omega),
        sE, if_neg h0, if_pos hl]
      simp only [unupdate1, update, id, shr1, shr2]
      omega
    · next hl =>
      rw [cFwdEven_low w f m h, show snE w + m - 1 = snE w + (m - 1) by omega, cFwdEven_high w f (m-1) (by omega),
        cFwdEven_high w f m (by omega), sE, if_neg h0, if_neg hl]
      simp only [unupdate, update, id, shr2]
      omega

theorem cInvEven_cFwdEven (w : Nat) (f : Nat → Int) (hw : 2 ≤ w) (k : Nat) (hk : k < w) :
    cInvEven id w (cFwdEven id w f) k = f k := by
  unfold cInvEven
  rw [if_pos hk]
  split
  · next he => rw [evE_rt w f _ hw (by omega)]; congr 1; omega
  · next ho =>
    split
    · next hl =>
      rw [evE_rt w f _ hw (by omega), cFwdEven_high w f _ (by omega), dE, if_pos hl]
      simp only [id]
      rw [show 2 * (k / 2) + 1 = k by omega]
      omega
    · next hl =>
      rw [evE_rt w f _ hw (by omega), evE_rt w f _ hw (by omega), cFwdEven_high w f _ (by omega), dE, if_neg hl]
      simp only [unpredict, predict, id, shr1]
      rw [show 2 * (k / 2) + 1 = k by omega, show 2 * (k / 2 + 1) = 2 * (k / 2) + 2 by omega]
      omega

theorem inverseEven_forwardEven {w : Nat} (x : Vector Int w) (hw : 2 ≤ w) :
    inverseEven id (forwardEven id x hw) hw = x := by
  apply ext_toFn
  intro k hk
  rw [inverseEven_toFn, forwardEven_toFn, cInvEven_cFwdEven w _ hw k hk]

section closedOdd
variable (wr : Int → Int)

/-! ### closed forms, `even == false` (low-pass at odd positions), `sn = w/2` -/

/-- high-pass coefficient `i` (sample at even position `2i`, `i < w - w/2`) -/
def dO (w : Nat) (f : Nat → Int) (i : Nat) : Int :=
  if i = 0 then wr (f 0 - f 1)
  else if 2 * i + 1 = w then wr (f (2*i) - f (2*(i-1)+1))
  else predict wr (f (2*i)) (f (2*i+1)) (f (2*(i-1)+1))

/-- low-pass coefficient `i` (sample at odd position `2i+1`, `i < w/2`) -/
def sO (w : Nat) (f : Nat → Int) (i : Nat) : Int :=
  if 2 * i + 2 = w then update wr (f (2*i+1)) (dO wr w f i) (dO wr w f i)
  else update wr (f (2*i+1)) (dO wr w f i) (dO wr w f (i+1))

def cFwdOdd (w : Nat) (f : Nat → Int) (k : Nat) : Int :=
  if k < w then (if k < snO w then sO wr w f k else dO wr w f (k - snO w)) else 0

theorem fwdOddPredictLoop_get {w : Nat} (x : Vector Int w) (hw : 2 ≤ w) :
    ∀ j (hj : j < w), (fwdOddPredictLoop wr x hw)[j] =
      if snO w ≤ j ∧ j < snO w + max 1 (snO w) then dO wr w (toFn x) (j - snO w) else 0 := by
  have hsn := snO_eq w
  unfold fwdOddPredictLoop
  exact Go.forLoop_inv
    (P := fun i (tmp : Vector Int w) => ∀ j (hj : j < w), tmp[j] =
      if snO w ≤ j ∧ j < snO w + i then dO wr w (toFn x) (j - snO w) else 0)
    _ _ _ _
    (by
      intro j hj
      rw [Vector.getElem_set]
      split
      · next heq =>
        have h3 : j - snO w = 0 := by omega
        rw [if_pos (by omega), h3, dO, if_pos rfl]
        simp only [get_eq_toFn]
      · next hne => rw [if_neg (by omega)]; simp)
    (by
      intro i h1 h2 tmp hp j hj
      rw [Vector.getElem_set]
      split
      · next heq =>
        have h3 : j - snO w = i := by omega
        have h4 : snO w ≤ j ∧ j < snO w + (i + 1) := by omega
        rw [if_pos h4, h3, dO, if_neg (by omega), if_neg (by omega)]
        simp only [get_eq_toFn]
      · next hne =>
        rw [hp j hj]
        by_cases hc : snO w ≤ j ∧ j < snO w + i
        · rw [if_pos hc, if_pos (by omega)]
        · rw [if_neg hc, if_neg (by omega)])

theorem fwdOddPredict_get {w : Nat} (x : Vector Int w) (hw : 2 ≤ w) (k : Nat) (hk : k < w) :
    (fwdOddPredict wr x hw)[k] = if snO w ≤ k then dO wr w (toFn x) (k - snO w) else 0 := by
  have hsn := snO_eq w
  unfold fwdOddPredict
  have hloop := fwdOddPredictLoop_get wr x hw
  simp only []
  split
  · next hodd =>
    rw [Vector.getElem_set]
    split
    · next heq =>
      have h3 : k - snO w = max 1 (snO w) := by omega
      rw [if_pos (by omega), h3, dO, if_neg (by omega), if_pos (by omega)]
      simp only [get_eq_toFn]
    · next hne =>
      rw [hloop k hk]
      by_cases hc : snO w ≤ k
      · rw [if_pos hc, if_pos (by omega)]
      · rw [if_neg hc, if_neg (by omega)]
  · next hev =>
    rw [hloop k hk]
    by_cases hc : snO w ≤ k
    · rw [if_pos hc, if_pos (by omega)]
    · rw [if_neg hc, if_neg (by omega)]

theorem fwdOddUpdateLoop_get {w : Nat} (x : Vector Int w) (hw : 2 ≤ w) :
    ∀ j (hj : j < w), (fwdOddUpdateLoop wr x (fwdOddPredict wr x hw) hw)[j] =
      if j < max 0 (w - snO w - 1) then sO wr w (toFn x) j else toFn x j := by
  have hsn := snO_eq w
  have ht := fwdOddPredict_get wr x hw
  unfold fwdOddUpdateLoop
  exact Go.forLoop_inv
    (P := fun i (data : Vector Int w) => ∀ j (hj : j < w), data[j] =
      if j < i then sO wr w (toFn x) j else toFn x j)
    _ _ _ _
    (by intro j hj; rw [if_neg (by omega), get_eq_toFn])
    (by
      intro i h1 h2 data hp j hj
      rw [Vector.getElem_set]
      split
      · next heq =>
        subst heq
        have e1 : snO w + i - snO w = i := by omega
        have e2 : snO w + i + 1 - snO w = i + 1 := by omega
        rw [if_pos (by omega), sO, if_neg (by omega), hp _ (by omega), if_neg (by omega),
          ht _ (by omega), if_pos (by omega), ht _ (by omega), if_pos (by omega), e1, e2]
      · next hne =>
        rw [hp j hj]
        by_cases hc : j < i
        · rw [if_pos hc, if_pos (by omega)]
        · rw [if_neg hc, if_neg (by omega)])

theorem fwdOddUpdate_get {w : Nat} (x : Vector Int w) (hw : 2 ≤ w) (k : Nat) (hk : k < w) :
    (fwdOddUpdate wr x (fwdOddPredict wr x hw) hw)[k] =
      if k < snO w then sO wr w (toFn x) k else toFn x k := by
  have hsn := snO_eq w
  have ht := fwdOddPredict_get wr x hw
  have hloop := fwdOddUpdateLoop_get wr x hw
  unfold fwdOddUpdate
  simp only []
  split
  · next hev =>
    rw [Vector.getElem_set]
    split
    · next heq =>
      have e1 : snO w + (w - snO w - 1) - snO w = w - snO w - 1 := by omega
      rw [if_pos (by omega), ← heq, sO, if_pos (by omega), hloop _ (by omega), if_neg (by omega),
        ht _ (by omega), if_pos (by omega), e1]
    · next hne =>
      rw [hloop k hk]
      by_cases hc : k < snO w
      · rw [if_pos hc, if_pos (by omega)]
      · rw [if_neg hc, if_neg (by omega)]
  · next hodd =>
    rw [hloop k hk]
    by_cases hc : k < snO w
    · rw [if_pos hc, if_pos (by omega)]
    · rw [if_neg hc, if_neg (by omega)]

theorem forwardOdd_toFn {w : Nat} (x : Vector Int w) (hw : 2 ≤ w) :
    toFn (forwardOdd wr x hw) = cFwdOdd wr w (toFn x) := by
  funext k
  unfold forwardOdd cFwdOdd
  by_cases hk : k < w
  · rw [toFn_lt _ _ hk, if_pos hk, copyHigh_get _ _ _ _ hk]
    by_cases hc : snO w ≤ k
    · rw [if_pos hc, if_neg (by omega), fwdOddPredict_get wr x hw k hk, if_pos hc]
    · rw [if_neg hc, if_pos (by omega), fwdOddUpdate_get wr x hw k hk, if_pos (by omega)]
  · rw [toFn_ge _ _ hk, if_neg hk]

/-! ### inverse, `even == false`, `w ≥ 3` -/

/-- reconstructed sample at odd position `2m+1` (`m < w/2`) -/
def oddO (w : Nat) (g : Nat → Int) (m : Nat) : Int :=
  if 2 * m + 2 = w then unupdate1 wr (g m) (g (snO w + m))
  else unupdate wr (g m) (g (snO w + m)) (g (snO w + m + 1))

def cInvOdd (w : Nat) (g : Nat → Int) (k : Nat) : Int :=
  if k < w then
    (if k % 2 = 1 then oddO wr w g (k / 2)
     else if k / 2 = 0 then wr (g (snO w) + oddO wr w g 0)
     else if 2 * (k / 2) + 1 = w then wr (g (snO w + k / 2) + oddO wr w g (k / 2 - 1))
     else unpredict wr (g (snO w + k / 2)) (oddO wr w g (k / 2)) (oddO wr w g (k / 2 - 1)))
  else 0

theorem invOddLoop_inv {w : Nat} (x : Vector Int w) (hw : 3 ≤ w) :
    (invOddLoop wr x hw).s1 = toFn x (snO w + max 1 ((w - 1) / 2)) ∧
    (invOddLoop wr x hw).dc = oddO wr w (toFn x) (max 1 ((w - 1) / 2) - 1) ∧
    ∀ k, toFn (invOddLoop wr x hw).tmp k =
      if k < 2 * max 1 ((w - 1) / 2) - 1 then cInvOdd wr w (toFn x) k else 0 := by
  have hsn := snO_eq w
  have hodd0 : oddO wr w (toFn x) 0 = unupdate wr (toFn x 0) (toFn x (snO w)) (toFn x (snO w + 1)) := by
    rw [oddO, if_neg (by omega)]; rfl
  unfold invOddLoop
  exact Go.forLoop_inv
    (P := fun j (st : InvOddSt w) => st.s1 = toFn x (snO w + j) ∧ st.dc = oddO wr w (toFn x) (j - 1) ∧
      ∀ k, toFn st.tmp k = if k < 2 * j - 1 then cInvOdd wr w (toFn x) k else 0)
    _ _ _ _
    (by
      refine ⟨?_, ?_, ?_⟩
      · simp only [get_eq_toFn]
      · simp only [get_eq_toFn]; exact hodd0.symm
      · intro k
        simp only [get_eq_toFn, toFn_set, toFn_replicate, ← hodd0]
        split
        · next heq =>
          subst heq
          rw [if_pos (by omega), cInvOdd, if_pos (by omega), if_neg (by omega), if_pos (by omega)]
        · next hne => rw [if_neg (by omega)])
    (by
      intro j h1 h2 st ⟨hs, hd, ht⟩
      have hoj : oddO wr w (toFn x) j = unupdate wr (toFn x j) (toFn x (snO w + j)) (toFn x (snO w + j + 1)) := by
        rw [oddO, if_neg (by omega)]
      refine ⟨?_, ?_, ?_⟩
      · simp only [get_eq_toFn]; rfl
      · simp only [get_eq_toFn, hs, Nat.add_sub_cancel]; exact hoj.symm
      · intro k
        simp only [get_eq_toFn, hd, hs, toFn_set, ← hoj]
        split
        · next heq =>
          have e1 : k / 2 = j := by omega
          rw [if_pos (by omega), cInvOdd, if_pos (by omega), if_neg (by omega), if_neg (by omega), if_neg (by omega), e1]
        · next hne =>
          split
          · next heq =>
            have e1 : k / 2 = j - 1 := by omega
            rw [if_pos (by omega), cInvOdd, if_pos (by omega), if_pos (by omega), e1]
          · next hne2 =>
            rw [ht k]
            by_cases hc : k < 2 * j - 1
            · rw [if_pos hc, if_pos (by omega)]
            · rw [if_neg hc, if_neg (by omega)])

theorem inverseOdd_toFn {w : Nat} (x : Vector Int w) (hw : 3 ≤ w) :
    toFn (inverseOdd wr x hw) = cInvOdd wr w (toFn x) := by
  have hsn := snO_eq w
  obtain ⟨hs, hd, ht⟩ := invOddLoop_inv wr x hw
  funext k
  by_cases hk : k < w
  · unfold inverseOdd
    simp only [get_eq_toFn, hd, hs]
    split
    · next hev =>
      have hlast : oddO wr w (toFn x) (max 1 ((w - 1) / 2)) =
          unupdate1 wr (toFn x (w / 2 - 1)) (toFn x (snO w + max 1 ((w - 1) / 2))) := by
        rw [oddO, if_pos (by omega)]
        congr 2 <;> omega
      simp only [toFn_set, ← hlast]
      split
      · next heq =>
        have e1 : k / 2 = max 1 ((w - 1) / 2) := by omega
        rw [cInvOdd, if_pos hk, if_pos (by omega), e1]
      · next hne =>
        split
        · next heq =>
          have e1 : k / 2 = max 1 ((w - 1) / 2) := by omega
          rw [cInvOdd, if_pos hk, if_neg (by omega), if_neg (by omega), if_neg (by omega), e1]
        · next hne2 =>
          split
          · next heq =>
            have e1 : k / 2 = max 1 ((w - 1) / 2) - 1 := by omega
            rw [cInvOdd, if_pos hk, if_pos (by omega), e1]
          · next hne3 => rw [ht k, if_pos (by omega)]
    · next hodd =>
      simp only [toFn_set]
      split
      · next heq =>
        have e1 : k / 2 = max 1 ((w - 1) / 2) := by omega
        rw [cInvOdd, if_pos hk, if_neg (by omega), if_neg (by omega), if_pos (by omega), e1]
      · next hne =>
        split
        · next heq =>
          have e1 : k / 2 = max 1 ((w - 1) / 2) - 1 := by omega
          rw [cInvOdd, if_pos hk, if_pos (by omega), e1]
        · next hne2 => rw [ht k, if_pos (by omega)]
  · rw [toFn_ge _ _ hk, cInvOdd, if_neg hk]

end closedOdd

theorem cFwdOdd_low (w : Nat) (f : Nat → Int) (m : Nat) (h : 2 * m + 1 < w) :
    cFwdOdd id w f m = sO id w f m := by
  have hsn := snO_eq w
  rw [cFwdOdd, if_pos (by omega), if_pos (by omega)]

theorem cFwdOdd_high (w : Nat) (f : Nat → Int) (i : Nat) (h : 2 * i < w) :
    cFwdOdd id w f (snO w + i) = dO id w f i := by
  have hsn := snO_eq w
  rw [cFwdOdd, if_pos (by omega), if_neg (by omega), Nat.add_sub_cancel_left]

theorem oddO_rt (w : Nat) (f : Nat → Int) (m : Nat) (h : 2 * m + 1 < w) :
    oddO id w (cFwdOdd id w f) m = f (2 * m + 1) := by
  unfold oddO
  split
  · next hl =>
    rw [cFwdOdd_low w f m h, cFwdOdd_high w f m (by omega), sO, if_pos hl]
    simp only [unupdate1, update, id, shr1, shr2]
    omega
  · next hl =>
    rw [show snO w + m + 1 = snO w + (m + 1) by omega,
      cFwdOdd_low w f m h, cFwdOdd_high w f m (by omega), cFwdOdd_high w f (m + 1) (by omega), sO, if_neg hl]
    simp only [unupdate, update, id, shr2]
    omega

theorem cInvOdd_cFwdOdd (w : Nat) (f : Nat → Int) (hw : 2 ≤ w) (k : Nat) (hk : k < w) :
    cInvOdd id w (cFwdOdd id w f) k = f k := by
  unfold cInvOdd
  rw [if_pos hk]
  split
  · next ho => rw [oddO_rt w f _ (by omega)]; congr 1; omega
  · next he =>
    split
    · next h0 =>
      have hk0 : k = 0 := by omega
      subst hk0
      rw [oddO_rt w f 0 (by omega), show snO w = snO w + 0 by rfl, cFwdOdd_high w f 0 (by omega), dO, if_pos rfl]
      simp only [id, Nat.mul_zero, Nat.zero_add]
      omega
    · next h0 =>
      split
      · next hl =>
        rw [oddO_rt w f _ (by omega), cFwdOdd_high w f _ (by omega), dO, if_neg h0, if_pos hl]
        simp only [id]
        rw [show 2 * (k / 2 - 1) + 1 = 2 * (k / 2) - 1 by omega, show 2 * (k / 2) = k by omega]
        omega
      · next hl =>
        rw [oddO_rt w f _ (by omega), oddO_rt w f _ (by omega), cFwdOdd_high w f _ (by omega), dO, if_neg h0, if_neg hl]
        simp only [unpredict, predict, id, shr1]
        rw [show 2 * (k / 2 - 1) + 1 = 2 * (k / 2) - 1 by omega, show 2 * (k / 2) = k by omega]
        omega

theorem inverseOdd_forwardOdd {w : Nat} (x : Vector Int w) (hw : 3 ≤ w) :
    inverseOdd id (forwardOdd id x (by omega)) hw = x := by
  apply ext_toFn
  intro k hk
  rw [inverseOdd_toFn, forwardOdd_toFn, cInvOdd_cFwdOdd w _ (by omega) k hk]

/-- `Inverse53_1DWithParity ∘ Forward53_1DWithParity = id`, every length, both parities
(overflow-free reading). -/
theorem inverse53_forward53_1d' {w : Nat} (x : Vector Int w) (even : Bool) (hok : w ≠ 0 ∨ even = true) :
    inverse53_1d' id (forward53_1d' id x even hok) even hok = x := by
  unfold inverse53_1d' forward53_1d'
  by_cases he : even = true
  · rw [dif_pos he, dif_pos he]
    by_cases h1 : w ≤ 1
    · rw [dif_pos h1, dif_pos h1]
    · rw [dif_neg h1, dif_neg h1]; exact inverseEven_forwardEven x (by omega)
  · rw [dif_neg he, dif_neg he]
    by_cases h1 : w = 1
    · subst h1
      rw [dif_pos rfl, dif_pos rfl]
      apply Vector.ext
      intro i hi
      have hi0 : i = 0 := by omega
      subst hi0
      simp only [Vector.getElem_set_self, id]
      exact Int.mul_tdiv_cancel _ (by decide)
    · rw [dif_neg h1, dif_neg h1]
      by_cases h2 : w = 2
      · subst h2
        rw [dif_pos rfl]
        have hf := forwardOdd_toFn id x (by omega)
        apply ext_toFn
        intro k hk
        simp only [get_eq_toFn, toFn_set, hf]
        have hsn : snO 2 = 1 := by decide
        have c0 : cFwdOdd id 2 (toFn x) 0 = sO id 2 (toFn x) 0 := cFwdOdd_low 2 _ 0 (by omega)
        have c1 : cFwdOdd id 2 (toFn x) 1 = dO id 2 (toFn x) 0 := by
          have := cFwdOdd_high 2 (toFn x) 0 (by omega); rw [hsn] at this; exact this
        rw [c0, c1, sO, if_pos rfl, dO, if_pos rfl]
        simp only [unupdate1, update, id, shr1, shr2, Nat.mul_zero, Nat.zero_add]
        have hk' : k = 0 ∨ k = 1 := by omega
        rcases hk' with rfl | rfl
        · rw [if_neg (by omega), if_pos rfl]; omega
        · rw [if_pos rfl]; omega
      · rw [dif_neg h2]
        exact inverseOdd_forwardOdd x (by cases hok with | inl h => omega | inr h => exact absurd h he)

/-- the same at the level of the Go functions (which panic on the empty slice with `even == false`) -/
theorem inverse53_forward53_1d {w : Nat} (x : Vector Int w) (even : Bool) :
    (forward53_1d id x even).bind (fun y => inverse53_1d id y even) =
      if w ≠ 0 ∨ even = true then some x else none := by
  unfold forward53_1d inverse53_1d
  by_cases hok : w ≠ 0 ∨ even = true
  · rw [dif_pos hok, if_pos hok, Option.bind_some, dif_pos hok, inverse53_forward53_1d']
  · rw [dif_neg hok, if_neg hok]; rfl

/-! ### int32 reading: under a magnitude bound no operation wraps

`Bnd M f`: every value of `f` lies in `[-M, M]`.  With `M ≤ 2^29 - 1` the forward closed forms
computed with `Go.wrap32` (Go's int32 arithmetic) equal the overflow-free ones and their values
lie in `[-(2M+1), 2M+1]`; the same for the inverse closed forms with values in `[-3M-1, 3M+1]`. -/

def Bnd (M : Int) (f : Nat → Int) : Prop := ∀ k, -M ≤ f k ∧ f k ≤ M

theorem dE_wrap {M : Int} (hM : M ≤ 536870911) (w : Nat) (f : Nat → Int) (hb : Bnd M f) (i : Nat) :
    dE Go.wrap32 w f i = dE id w f i ∧ -(2 * M) ≤ dE id w f i ∧ dE id w f i ≤ 2 * M := by
  have h1 := hb (2*i+1); have h2 := hb (2*i); have h3 := hb (2*i+2)
  unfold dE predict
  simp only [id, Go.wrap32, shr1]
  split <;> omega

theorem sE_wrap {M : Int} (hM : M ≤ 536870911) (w : Nat) (f : Nat → Int) (hb : Bnd M f) (i : Nat) :
    sE Go.wrap32 w f i = sE id w f i ∧ -(2 * M + 1) ≤ sE id w f i ∧ sE id w f i ≤ 2 * M + 1 := by
  have h1 := hb 0; have h2 := hb (2*i)
  have d0 := dE_wrap hM w f hb 0; have d1 := dE_wrap hM w f hb (i-1); have d2 := dE_wrap hM w f hb i
  unfold sE update
  rw [d0.1, d1.1, d2.1]
  simp only [id, Go.wrap32, shr2]
  split
  · omega
  · split <;> omega

theorem cFwdEven_wrap {M : Int} (hM0 : 0 ≤ M) (hM : M ≤ 536870911) (w : Nat) (f : Nat → Int) (hb : Bnd M f) :
    cFwdEven Go.wrap32 w f = cFwdEven id w f ∧ Bnd (2 * M + 1) (cFwdEven id w f) := by
  refine ⟨?_, ?_⟩
  · funext k
    unfold cFwdEven
    rw [(sE_wrap hM w f hb k).1, (dE_wrap hM w f hb (k - snE w)).1]
  · intro k
    have s := sE_wrap hM w f hb k; have d := dE_wrap hM w f hb (k - snE w)
    unfold cFwdEven
    split
    · split <;> omega
    · omega

theorem dO_wrap {M : Int} (hM : M ≤ 536870911) (w : Nat) (f : Nat → Int) (hb : Bnd M f) (i : Nat) :
    dO Go.wrap32 w f i = dO id w f i ∧ -(2 * M) ≤ dO id w f i ∧ dO id w f i ≤ 2 * M := by
  have h0 := hb 0; have h1 := hb 1
  have h2 := hb (2*i); have h3 := hb (2*i+1); have h4 := hb (2*(i-1)+1)
  unfold dO predict
  simp only [id, Go.wrap32, shr1]
  split
  · omega
  · split <;> omega

theorem sO_wrap {M : Int} (hM : M ≤ 536870911) (w : Nat) (f : Nat → Int) (hb : Bnd M f) (i : Nat) :
    sO Go.wrap32 w f i = sO id w f i ∧ -(2 * M + 1) ≤ sO id w f i ∧ sO id w f i ≤ 2 * M + 1 := by
  have h2 := hb (2*i+1)
  have d1 := dO_wrap hM w f hb i; have d2 := dO_wrap hM w f hb (i+1)
  unfold sO update
  rw [d1.1, d2.1]
  simp only [id, Go.wrap32, shr2]
  split <;> omega

theorem cFwdOdd_wrap {M : Int} (hM0 : 0 ≤ M) (hM : M ≤ 536870911) (w : Nat) (f : Nat → Int) (hb : Bnd M f) :
    cFwdOdd Go.wrap32 w f = cFwdOdd id w f ∧ Bnd (2 * M + 1) (cFwdOdd id w f) := by
  refine ⟨?_, ?_⟩
  · funext k
    unfold cFwdOdd
    rw [(sO_wrap hM w f hb k).1, (dO_wrap hM w f hb (k - snO w)).1]
  · intro k
    have s := sO_wrap hM w f hb k; have d := dO_wrap hM w f hb (k - snO w)
    unfold cFwdOdd
    split
    · split <;> omega
    · omega

theorem evE_wrap {B : Int} (hB : B ≤ 536870911) (w : Nat) (g : Nat → Int) (hb : Bnd B g) (m : Nat) :
    evE Go.wrap32 w g m = evE id w g m ∧ -(2 * B + 1) ≤ evE id w g m ∧ evE id w g m ≤ 2 * B + 1 := by
  have h0 := hb 0; have h1 := hb (snE w); have h2 := hb m
  have h3 := hb (snE w + m - 1); have h4 := hb (snE w + m)
  unfold evE unupdate unupdate1
  simp only [id, Go.wrap32, shr1, shr2]
  split
  · omega
  · split <;> omega

theorem cInvEven_wrap {B : Int} (hB0 : 0 ≤ B) (hB : B ≤ 536870911) (w : Nat) (g : Nat → Int) (hb : Bnd B g) :
    cInvEven Go.wrap32 w g = cInvEven id w g := by
  funext k
  have e1 := evE_wrap (by omega) w g hb (k / 2); have e2 := evE_wrap (by omega) w g hb (k / 2 + 1)
  have h1 := hb (snE w + k / 2)
  unfold cInvEven unpredict
  rw [e1.1, e2.1]
  simp only [id, Go.wrap32, shr1]
  split
  · split
    · rfl
    · split <;> omega
  · rfl

theorem oddO_wrap {B : Int} (hB : B ≤ 536870911) (w : Nat) (g : Nat → Int) (hb : Bnd B g) (m : Nat) :
    oddO Go.wrap32 w g m = oddO id w g m ∧ -(2 * B + 1) ≤ oddO id w g m ∧ oddO id w g m ≤ 2 * B + 1 := by
  have h2 := hb m; have h3 := hb (snO w + m); have h4 := hb (snO w + m + 1)
  unfold oddO unupdate unupdate1
  simp only [id, Go.wrap32, shr1, shr2]
  split <;> omega

theorem cInvOdd_wrap {B : Int} (hB0 : 0 ≤ B) (hB : B ≤ 536870911) (w : Nat) (g : Nat → Int) (hb : Bnd B g) :
    cInvOdd Go.wrap32 w g = cInvOdd id w g := by
  funext k
  have e0 := oddO_wrap (by omega) w g hb 0
  have e1 := oddO_wrap (by omega) w g hb (k / 2); have e2 := oddO_wrap (by omega) w g hb (k / 2 - 1)
  have h0 := hb (snO w); have h1 := hb (snO w + k / 2)
  unfold cInvOdd unpredict
  rw [e0.1, e1.1, e2.1]
  simp only [id, Go.wrap32, shr1]
  split
  · split
    · rfl
    · split
      · omega
      · split <;> omega
  · rfl

theorem tdiv2 (y : Int) : (0 ≤ y → y.tdiv 2 = y / 2) ∧ (y < 0 → y.tdiv 2 = -((-y) / 2)) := by
  refine ⟨fun h => Int.tdiv_eq_ediv_of_nonneg h, fun h => ?_⟩
  have : y = -(-y) := by omega
  rw [this, Int.neg_tdiv, Int.tdiv_eq_ediv_of_nonneg (by omega)]
  simp

theorem bnd_toFn {w : Nat} (x : Vector Int w) {M : Int} (hM0 : 0 ≤ M)
    (hb : ∀ k (h : k < w), -M ≤ x[k] ∧ x[k] ≤ M) : Bnd M (toFn x) := by
  intro k
  unfold toFn
  split
  · next h => exact hb k h
  · omega

/-- forward transform in int32 arithmetic = forward transform without overflow, for `|x[k]| ≤ M ≤ 2^29-1`;
the coefficients are bounded by `2M+1` -/
theorem forward53_1d_int32 {w : Nat} (x : Vector Int w) (even : Bool) (hok : w ≠ 0 ∨ even = true)
    {M : Int} (hM0 : 0 ≤ M) (hM : M ≤ 536870911) (hb : ∀ k (h : k < w), -M ≤ x[k] ∧ x[k] ≤ M) :
    forward53_1d' Go.wrap32 x even hok = forward53_1d' id x even hok ∧
    Bnd (2 * M + 1) (toFn (forward53_1d' id x even hok)) := by
  have hB := bnd_toFn x hM0 hb
  unfold forward53_1d'
  by_cases he : even = true
  · simp only [dif_pos he]
    by_cases h1 : w ≤ 1
    · simp only [dif_pos h1, true_and]
      intro k; have := hB k; omega
    · simp only [dif_neg h1]
      have hc := cFwdEven_wrap hM0 hM w (toFn x) hB
      refine ⟨?_, ?_⟩
      · apply ext_toFn; intro k _; rw [forwardEven_toFn, forwardEven_toFn, hc.1]
      · rw [forwardEven_toFn]; exact hc.2
  · simp only [dif_neg he]
    by_cases h1 : w = 1
    · subst h1
      simp only [↓reduceDIte]
      have h0 := hb 0 (by omega)
      refine ⟨?_, ?_⟩
      · apply Vector.ext; intro i hi
        simp only [Vector.getElem_set]
        split
        · simp only [Go.wrap32, id]; omega
        · rfl
      · intro k
        rw [toFn_set]
        have := hB k
        simp only [id]
        split <;> omega
    · simp only [dif_neg h1]
      have hc := cFwdOdd_wrap hM0 hM w (toFn x) hB
      refine ⟨?_, ?_⟩
      · apply ext_toFn; intro k _; rw [forwardOdd_toFn, forwardOdd_toFn, hc.1]
      · rw [forwardOdd_toFn]; exact hc.2

/-- inverse transform in int32 arithmetic = inverse transform without overflow, for `|y[k]| ≤ B ≤ 2^29-1` -/
theorem inverse53_1d_int32 {w : Nat} (y : Vector Int w) (even : Bool) (hok : w ≠ 0 ∨ even = true)
    {B : Int} (hB0 : 0 ≤ B) (hB : B ≤ 536870911) (hb : Bnd B (toFn y)) :
    inverse53_1d' Go.wrap32 y even hok = inverse53_1d' id y even hok := by
  unfold inverse53_1d'
  by_cases he : even = true
  · simp only [dif_pos he]
    by_cases h1 : w ≤ 1
    · simp only [dif_pos h1]
    · simp only [dif_neg h1]
      apply ext_toFn; intro k _
      rw [inverseEven_toFn, inverseEven_toFn, cInvEven_wrap hB0 hB w _ hb]
  · simp only [dif_neg he]
    by_cases h1 : w = 1
    · subst h1
      simp only [↓reduceDIte]
      have h0 := hb 0
      rw [toFn_lt _ _ (by omega)] at h0
      have ht := tdiv2 y[0]
      apply Vector.ext; intro i hi
      simp only [Vector.getElem_set]
      split
      · simp only [Go.wrap32, id]; omega
      · rfl
    · simp only [dif_neg h1]
      by_cases h2 : w = 2
      · subst h2
        simp only [↓reduceDIte]
        have h0 := hb 0; have h1' := hb 1
        rw [toFn_lt _ _ (by omega)] at h0 h1'
        apply Vector.ext; intro i hi
        simp only [Vector.getElem_set, unupdate1, Go.wrap32, id, shr1]
        split
        · omega
        · split
          · omega
          · rfl
      · simp only [dif_neg h2]
        apply ext_toFn; intro k _
        rw [inverseOdd_toFn, inverseOdd_toFn, cInvOdd_wrap hB0 hB w _ hb]

/-- the int32 code round-trips on `|x[k]| ≤ 2^28 - 1` -/
theorem inverse53_forward53_1d_int32 {w : Nat} (x : Vector Int w) (even : Bool) (hok : w ≠ 0 ∨ even = true)
    (hb : ∀ k (h : k < w), -268435455 ≤ x[k] ∧ x[k] ≤ 268435455) :
    inverse53_1d' Go.wrap32 (forward53_1d' Go.wrap32 x even hok) even hok = x := by
  have hf := forward53_1d_int32 x even hok (M := 268435455) (by omega) (by omega) hb
  rw [hf.1, inverse53_1d_int32 _ even hok (B := 2 * 268435455 + 1) (by omega) (by omega) hf.2]
  exact inverse53_forward53_1d' x even hok

end Dwt53
