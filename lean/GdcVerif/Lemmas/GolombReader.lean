import GdcVerif.Model.GolombReader
import GdcVerif.Lemmas.GolombDestuff2
/-!
  The `GolombReader` model delivers exactly the bit sequence `Golomb.destuff bytes`:
  the 64-bit cache is a window onto the remaining bit stream `S`.
-/
namespace GolombReader
open Golomb

theorem m64_eq : M64 = 2 ^ 64 := by decide

/-- the cache shows the first `n` bits of the remaining stream `S` (bit 63 first) and is zero below -/
def Win64 (cache : Nat) (S : List Bool) (n : Nat) : Prop :=
  ∀ q, q < 64 → cache.testBit q = (decide (63 - q < n) && pg S (63 - q))

theorem testBit_shl64 (b k i : Nat) :
    ((b <<< k) % M64).testBit i = (decide (i < 64) && (decide (i ≥ k) && b.testBit (i - k))) := by
  rw [m64_eq, Nat.testBit_mod_two_pow, Nat.testBit_shiftLeft]

/-- consuming `k` shown bits -/
theorem win64_shift (cache : Nat) (S : List Bool) (n k : Nat) (hw : Win64 cache S n) (hn : n ≤ 64) (hk : k ≤ n) :
    Win64 ((cache <<< k) % M64) (S.drop k) (n - k) := by
  intro q hq
  rw [testBit_shl64, pg_drop]
  by_cases h1 : q ≥ k
  · rw [hw (q - k) (by omega)]
    have e : 63 - (q - k) = 63 - q + k := by omega
    rw [e, decide_eq_true hq, decide_eq_true h1, Bool.true_and, Bool.true_and]
    by_cases hx : 63 - q + k < n
    · rw [decide_eq_true hx, decide_eq_true (by omega : 63 - q < n - k)]
    · rw [decide_eq_false hx, decide_eq_false (by omega : ¬ 63 - q < n - k)]
  · rw [decide_eq_false h1, Bool.false_and, Bool.and_false, decide_eq_false (by omega : ¬ 63 - q < n - k), Bool.false_and]

/-- the top `k` bits of the cache are the first `k` bits of `S` -/
theorem top_bits (cache : Nat) (S : List Bool) (n k : Nat) (hw : Win64 cache S n) (hk : k ≤ n) (hk64 : k ≤ 64)
    (hk1 : 1 ≤ k) (hS : k ≤ S.length) (hc : cache < M64) :
    bitsOf (cache >>> (64 - k)) k = S.take k := by
  rw [← takeZ_eq_take S k hS]
  apply ext_getD
  · rw [length_bitsOf, length_takeZ]
  · intro i hi
    rw [length_bitsOf] at hi
    rw [getD_bitsOf, getD_takeZ S k i hi, Nat.testBit_shiftRight, hw (64 - k + (k - 1 - i)) (by omega)]
    have e : 63 - (64 - k + (k - 1 - i)) = i := by omega
    rw [e, decide_eq_true hi, decide_eq_true (by omega : i < n), Bool.true_and, Bool.true_and]

theorem shr_lt (cache k : Nat) (hc : cache < M64) (hk : k ≤ 64) : cache >>> (64 - k) < 2 ^ k := by
  rw [Nat.shiftRight_eq_div_pow]
  apply Nat.div_lt_of_lt_mul
  rw [← Nat.pow_add]
  have : 64 - k + k = 64 := by omega
  rw [this, ← m64_eq]; exact hc

/-- value read = the first `k` bits of `S` as a number -/
theorem top_value (cache : Nat) (S : List Bool) (n k : Nat) (hw : Win64 cache S n) (hk : k ≤ n) (hk64 : k ≤ 64)
    (hk1 : 1 ≤ k) (hS : k ≤ S.length) (hc : cache < M64) :
    cache >>> (64 - k) = natOfBits (S.take k) := by
  rw [← top_bits cache S n k hw hk hk64 hk1 hS hc, natOfBits_bitsOf, Nat.mod_eq_of_lt (shr_lt cache k hc hk64)]

/-- appending one byte below the shown bits: `cache |= b << (56 − v)` where `v = n − a` -/
theorem win64_byte (cache : Nat) (S : List Bool) (n a b : Nat) (hw : Win64 cache S n) (ha : a ≤ 1) (han : a ≤ n)
    (hn : n - a ≤ 56) (hb : b < 256) (hb7 : a = 1 → b < 128)
    (hS : ∀ i, i < 8 - a → pg S (n + i) = b.testBit (7 - a - i)) :
    Win64 (cache ||| (b <<< (56 - (n - a))) % M64) S (n - a + 8) := by
  intro q hq
  rw [Nat.testBit_or, hw q hq, testBit_shl64, decide_eq_true hq, Bool.true_and]
  by_cases hj : 63 - q < n
  · -- already shown; the new byte contributes nothing here (its bit 7 is 0 when it overlaps)
    rw [decide_eq_true hj, Bool.true_and, decide_eq_true (by omega : 63 - q < n - a + 8), Bool.true_and]
    by_cases hge : q ≥ 56 - (n - a)
    · -- only possible for the overlap position
      have hq7 : q - (56 - (n - a)) ≥ 7 := by omega
      have hbz : b.testBit (q - (56 - (n - a))) = false := by
        by_cases h8 : q - (56 - (n - a)) ≥ 8
        · exact Nat.testBit_lt_two_pow (Nat.lt_of_lt_of_le hb (by
            have : (256 : Nat) = 2 ^ 8 := by decide
            rw [this]; exact Nat.pow_le_pow_right (by decide) h8))
        · have h7 : q - (56 - (n - a)) = 7 := by omega
          have ha1 : a = 1 := by omega
          rw [h7]
          exact Nat.testBit_lt_two_pow (by have := hb7 ha1; simpa using this)
      rw [hbz, Bool.and_false, Bool.or_false]
    · rw [decide_eq_false hge, Bool.false_and, Bool.or_false]
  · rw [decide_eq_false hj, Bool.false_and, Bool.false_or]
    by_cases hx : 63 - q < n - a + 8
    · have hge : q ≥ 56 - (n - a) := by omega
      rw [decide_eq_true hx, decide_eq_true hge, Bool.true_and, Bool.true_and]
      have := hS (63 - q - n) (by omega)
      have e1 : n + (63 - q - n) = 63 - q := by omega
      have e2 : 7 - a - (63 - q - n) = q - (56 - (n - a)) := by omega
      rw [e1, e2] at this
      exact this.symm
    · have hlt : ¬ q ≥ 56 - (n - a) := by omega
      rw [decide_eq_false hx, decide_eq_false hlt, Bool.false_and, Bool.false_and]

end GolombReader

namespace GolombReader
open Golomb

/-- scan data as the writer produces it: bytes, every 0xFF followed by a byte < 0x80, not ending on 0xFF -/
def WellStuffed (d : List Nat) : Prop :=
  (∀ b ∈ d, b < 256) ∧ ∀ i, i < d.length → d.getD i 0 = 255 → i + 1 < d.length ∧ d.getD (i + 1) 0 < 128

theorem wellStuffed_of : ∀ (d : List Nat), (∀ b ∈ d, b < 256) → Stuffed d → d.getLast? ≠ some 255 → WellStuffed d := by
  intro d hb hs hl
  refine ⟨hb, ?_⟩
  induction d with
  | nil => intro i hi; simp at hi
  | cons x rest ih =>
    intro i hi h255
    cases rest with
    | nil =>
      have : i = 0 := by simp at hi; omega
      subst this
      simp at h255
      subst h255
      simp at hl
    | cons y more =>
      cases i with
      | zero =>
        simp at h255
        subst h255
        exact ⟨by simp, by simpa using hs.1 rfl⟩
      | succ j =>
        have := ih (fun b hb' => hb b (by simp [hb'])) hs.2
          (by rw [List.getLast?_cons_cons] at hl; exact hl) j (by simpa using hi) (by simpa using h255)
        simpa using this

/-- was the byte before `pos` a 0xFF? -/
def aff (r : Reader) : Bool := decide (r.pos > 0) && (r.data.getD (r.pos - 1) 0 == 255)

def an (r : Reader) : Nat := if aff r then 1 else 0

/-- the reader state represents the remaining bit stream `S` -/
structure Rep (r : Reader) (S : List Bool) : Prop where
  hc : r.cache < M64
  hv : 0 ≤ r.valid
  hn : r.valid.toNat + an r ≤ 64
  hw : Win64 r.cache S (r.valid.toNat + an r)
  hpos : r.pos ≤ r.data.length
  hS : S.drop (r.valid.toNat + an r) = destuff (r.data.drop r.pos) (aff r)
  hlen : r.valid.toNat + an r ≤ S.length
  hff : ∀ i, r.pos ≤ i → i < r.posFF → r.data.getD i 0 ≠ 255
  hposFF : r.posFF ≤ r.data.length
  hdata : WellStuffed r.data

theorem drop_cons_getD (d : List Nat) (p : Nat) (h : p < d.length) : d.drop p = d.getD p 0 :: d.drop (p + 1) := by
  rw [← List.getElem_eq_getD (h := h) 0]
  exact List.drop_eq_getElem_cons h

/-- one more byte `b` read into the cache -/
def addByte (r : Reader) (b : Nat) : Reader :=
  Reader.mk r.data (r.cache ||| (b <<< (56 - r.valid).toNat) % M64)
    (if b = 255 then r.valid + 8 - 1 else r.valid + 8) (r.pos + 1) r.posFF

/-- reading one more byte into the cache (the common core of both fill paths) -/
theorem rep_byte (r : Reader) (S : List Bool) (h : Rep r S) (hp : r.pos < r.data.length) (hv56 : r.valid ≤ 56) :
    Rep (addByte r (r.data.getD r.pos 0)) S := by
  obtain ⟨hc, hv, hn, hw, hpos, hS, hlen, hff, hposFF, hdata⟩ := h
  generalize hb : r.data.getD r.pos 0 = b at *
  have hb256 : b < 256 := by
    rw [← hb, ← List.getElem_eq_getD (h := hp) 0]
    exact hdata.1 _ (List.getElem_mem hp)
  -- after 0xFF the byte is below 0x80
  have hb7 : an r = 1 → b < 128 := by
    intro ha
    unfold an at ha
    have haff : aff r = true := by
      by_cases hx : aff r = true
      · exact hx
      · simp [hx] at ha
    unfold aff at haff
    simp only [Bool.and_eq_true, decide_eq_true_eq, beq_iff_eq] at haff
    have := hdata.2 (r.pos - 1) (by omega) haff.2
    have e : r.pos - 1 + 1 = r.pos := by omega
    rw [e, hb] at this
    exact this.2
  have ha1 : an r ≤ 1 := by unfold an; split <;> omega
  have hdrop := drop_cons_getD r.data r.pos hp
  rw [hb] at hdrop
  rw [hdrop] at hS
  -- new "after 0xFF" flag and shown-bit count
  have haff' : aff (addByte r b) = (b == 255) := by
    unfold aff addByte
    simp only [Nat.add_sub_cancel, hb]
    simp
  have hbits : ∃ bits, bits.length = 8 - an r ∧ S.drop (r.valid.toNat + an r) = bits ++ destuff (r.data.drop (r.pos + 1)) (b == 255) ∧
      ∀ i, i < 8 - an r → bits.getD i false = b.testBit (7 - an r - i) := by
    by_cases hx : aff r = true
    · have : an r = 1 := by unfold an; simp [hx]
      rw [hx] at hS
      simp only [destuff, if_true] at hS
      refine ⟨bitsOf b 7, by rw [length_bitsOf, this], hS, ?_⟩
      intro i hi
      rw [getD_bitsOf, this, decide_eq_true (by omega : i < 7), Bool.true_and]
    · have hx' : aff r = false := by simpa using hx
      have : an r = 0 := by unfold an; simp [hx']
      rw [hx'] at hS
      simp only [destuff, Bool.false_eq_true, if_false] at hS
      refine ⟨bitsOf b 8, by rw [length_bitsOf, this], hS, ?_⟩
      intro i hi
      rw [getD_bitsOf, this, decide_eq_true (by omega : i < 8), Bool.true_and]
  obtain ⟨bits, hbl, hSb, hbt⟩ := hbits
  have hnew : (if b = 255 then r.valid + 8 - 1 else r.valid + 8).toNat +
      (if (b == 255) = true then 1 else 0) = r.valid.toNat + an r - an r + 8 := by
    by_cases h255 : b = 255
    · simp [h255]; omega
    · simp [h255]; omega
  have hSlen : r.valid.toNat + an r + (8 - an r) ≤ S.length := by
    have := congrArg List.length hSb
    simp only [List.length_drop, List.length_append, hbl] at this
    omega
  have hval : (addByte r b).valid = (if b = 255 then r.valid + 8 - 1 else r.valid + 8) := rfl
  have hcache : (addByte r b).cache = r.cache ||| (b <<< (56 - r.valid).toNat) % M64 := rfl
  refine ⟨?_, ?_, ?_, ?_, by show r.pos + 1 ≤ r.data.length; omega, ?_, ?_, ?_, hposFF, hdata⟩
  · rw [hcache]
    exact Nat.lt_of_lt_of_le (Nat.or_lt_two_pow (by rw [← m64_eq]; exact hc) (by rw [← m64_eq]; exact Nat.mod_lt _ (by decide))) (by rw [m64_eq]; exact Nat.le_refl _)
  · rw [hval]; split <;> omega
  · simp only [an, haff', hval]; rw [hnew]; omega
  · simp only [an, haff', hval, hcache]
    rw [hnew]
    have e56 : (56 - r.valid).toNat = 56 - (r.valid.toNat + an r - an r) := by omega
    rw [e56]
    apply win64_byte r.cache S (r.valid.toNat + an r) (an r) b hw ha1 (by omega) (by omega) hb256 hb7
    intro i hi
    have : pg S (r.valid.toNat + an r + i) = pg (S.drop (r.valid.toNat + an r)) i := by rw [pg_drop, Nat.add_comm]
    rw [this, hSb, pg_append_left _ _ i (by omega)]
    exact hbt i hi
  · simp only [an, haff', hval]
    rw [hnew]
    have e : r.valid.toNat + an r - an r + 8 = (r.valid.toNat + an r) + (8 - an r) := by omega
    show List.drop _ S = destuff (List.drop (r.pos + 1) r.data) (b == 255)
    rw [e, ← List.drop_drop, hSb, ← hbl, List.drop_left]
  · simp only [an, haff', hval]; rw [hnew]; omega
  · intro i hi1 hi2
    have hi1' : r.pos + 1 ≤ i := hi1
    exact hff i (by omega) hi2

end GolombReader
