import GdcVerif.Lemmas.JllStreamEnc
import GdcVerif.Lemmas.JllStreamDec
import GdcVerif.Lemmas.T81HStream
/-! Composition of the encoder-side, decoder-side and specification-side stream lemmas. -/
namespace JLL
open JLL.Stream

/-- the predictor `encode` ends up using is in 1..7 -/
theorem pred_range {sv1 : Bool} {predictor pred : Nat} (hpr : predictor ≤ 7)
    (h : if sv1 then pred = 1 else if predictor = 0 then 1 ≤ pred ∧ pred ≤ 7 else pred = predictor) :
    (1 ≤ pred ∧ pred ≤ 7) ∧ (sv1 = true → pred = 1) := by
  cases sv1 with
  | true => simp at h; subst h; exact ⟨by omega, fun _ => rfl⟩
  | false =>
    simp only [Bool.false_eq_true, if_false] at h
    refine ⟨?_, fun h' => by cases h'⟩
    by_cases h0 : predictor = 0
    · simpa [h0] using h
    · simp only [h0, if_false] at h; omega

/-- END TO END at byte level -/
theorem encode_decode' (sv1 : Bool) (pix : Array Nat) (w h nc P predictor : Nat)
    (hw : 1 ≤ w ∧ w ≤ 65535) (hh : 1 ≤ h ∧ h ≤ 65535) (hc : nc = 1 ∨ nc = 3)
    (hP : 2 ≤ P ∧ P ≤ 16) (hpr : predictor ≤ 7) (hpix : PixOk P w h nc pix) :
    ∃ stream, encode sv1 pix w h nc P predictor = .ok stream ∧
      decode sv1 stream = .ok (pix.toList, w, h, nc, P) := by
  obtain ⟨s, pred, bits, values, t, scan, hdr, _, _, _, hpx, hpred, _, _, _, hb, htb, _, hst, _, _, hdec, hhdr, henc⟩ :=
    encode_ok sv1 pix w h nc P predictor hw hh hc hP hpr hpix
  obtain ⟨hp17, hsv⟩ := pred_range hpr hpred
  exact ⟨_, henc, decode_header_ok sv1 w h nc P pred ⟨bits, values⟩ t hdr scan s pix.toList hw hh hc hP hp17 hsv htb hb hhdr hst hdec hpx⟩

/-- the stream of the model encoder, decoded by the INDEPENDENT T.81 specification -/
theorem encode_specDecode' (sv1 : Bool) (pix : Array Nat) (w h nc P predictor : Nat)
    (hw : 1 ≤ w ∧ w ≤ 65535) (hh : 1 ≤ h ∧ h ≤ 65535) (hc : nc = 1 ∨ nc = 3)
    (hP : 2 ≤ P ∧ P ≤ 16) (hpr : predictor ≤ 7) (hpix : PixOk P w h nc pix) :
    ∃ stream s, encode sv1 pix w h nc P predictor = .ok stream ∧
      pixelsToSamples P w h nc pix = .ok s ∧
      T81H.specDecode stream =
        some { width := w, height := h, precision := P,
               planes := (List.range nc).map fun c => (List.range (w * h)).map fun i => cell s c i } := by
  obtain ⟨s, pred, bits, values, t, scan, hdr, hs, hsz, hrng, _, hpred, hopt, hv, _, _, htb, _, _, hne, hscan, _, hhdr, henc⟩ :=
    encode_ok sv1 pix w h nc P predictor hw hh hc hP hpr hpix
  obtain ⟨hp17, hsv⟩ := pred_range hpr hpred
  -- every emitted category is in the optimal table
  have hle := emittedCats_le sv1 P pred w h nc s
  obtain ⟨bits', values', hb', _, _, hmem⟩ := optimal_table_valid' _ (catFreq_lossless _ (fun k hk => hle k hk))
  rw [hopt] at hb'
  have hvals : values' = values := by
    injection hb' with hb'; injection hb' with _ h2; exact h2.symm
  subst hvals
  have hcat : ∀ k ∈ emittedCats sv1 P pred w h nc s, k ∈ (⟨bits, values'⟩ : JpegC.HuffTable).values := by
    intro k hk
    have h16 := hle k hk
    exact (hmem k).mpr ⟨by omega, catFreq_mem _ k hk h16⟩
  exact ⟨_, s, henc, hs,
    T81H.specDecode_model_stream sv1 P pred w h nc ⟨bits, values'⟩ s hdr scan hw hh hc hP hp17 hsv htb hv hcat hsz hrng hhdr hscan hne⟩

end JLL
