import GdcVerif.Lemmas.JllOptimal
/-!
  L6, general alphabet: `BuildOptimalHuffmanTable` (model `JLL.Opt.buildOptimal`) for ANY 256
  frequencies (all of them may be non-zero; 257 leaves with the pseudo-symbol).

  * G1a `mergeLoop_run` / `mergeLoop_total`: the merge loop always succeeds (no panic, no fuel
    exhaustion) and leaves a single live chain with the Kraft equality at budget 256 (code sizes
    ≤ 256 = `maxHuffmanCodeLength`: `depthLe_256`).
  * G1b `buildOptimal_total`, `buildOptimal_valid` (proved in JllOptimal.lean, where the count forms
    are their corollaries): since fix PENDING:c11-huffman-depth-over-32 the work array has 257
    entries, so for ANY 256 frequencies the function returns normally and the result is a valid
    table specification; `buildOptimal_ne_panic`, `buildOptimal_ne_err` here.  (Before the fix the
    array had 33 entries and the function panicked exactly when the depth exceeded 32.)
  * G2 `depth_fib`: a code size `d ≥ 1` after the merge loop forces `fib (d + 2) ≤ Σ f + 1`
    (`fib 1 = fib 2 = 1`); hence `Σ f + 1 < fib 35 = 9227465 → DepthLe f 32` (`depthLe_of_sum`):
    below that total the length-limiting loop never sees a size beyond 32.  These are facts about
    the depth only; safety no longer depends on them.
-/
namespace JLL.Opt

/-! ## 0. Fibonacci numbers and small list facts -/

def fib : Nat → Nat
  | 0 => 0
  | 1 => 1
  | n + 2 => fib n + fib (n + 1)

theorem fib_add_two (n : Nat) : fib (n + 2) = fib n + fib (n + 1) := by rw [fib]

theorem fib_le_succ : ∀ n, fib n ≤ fib (n + 1)
  | 0 => by decide
  | n + 1 => by rw [fib_add_two]; omega

theorem fib_mono {n m : Nat} (h : n ≤ m) : fib n ≤ fib m := by
  induction m with
  | zero =>
    have : n = 0 := by omega
    subst this; exact Nat.le_refl _
  | succ m ih =>
    by_cases e : n = m + 1
    · subst e; exact Nat.le_refl _
    · exact Nat.le_trans (ih (by omega)) (fib_le_succ m)

theorem fib_one : fib 1 = 1 := rfl
theorem fib_two : fib 2 = 1 := rfl

/-- `fibPair n = (fib n, fib (n+1))`, linear-time, for evaluating `fib 35` in the kernel -/
def fibPair : Nat → Nat × Nat
  | 0 => (0, 1)
  | n + 1 => ((fibPair n).2, (fibPair n).1 + (fibPair n).2)

theorem fibPair_eq : ∀ n, fibPair n = (fib n, fib (n + 1))
  | 0 => rfl
  | n + 1 => by
    rw [fibPair, fibPair_eq n, fib_add_two]

theorem fib_35 : fib 35 = 9227465 := by
  have := fibPair_eq 35
  have e : fibPair 35 = (9227465, 14930352) := by decide
  rw [e] at this
  exact (congrArg Prod.fst this).symm

theorem sum_set_nat : ∀ (l : List Nat) (i v : Nat), i < l.length →
    (l.set i v).sum + l[i]?.getD 0 = l.sum + v
  | [], _, _, h => by simp at h
  | x :: l, 0, v, _ => by simp; omega
  | x :: l, i + 1, v, h => by
    have := sum_set_nat l i v (by simpa using h)
    simp only [List.set_cons_succ, List.sum_cons, List.getElem?_cons_succ]
    omega

theorem sum_single : ∀ (l : List Nat) (c : Nat), (∀ j, j ≠ c → l[j]?.getD 0 = 0) →
    l.sum = l[c]?.getD 0
  | [], _, _ => by simp
  | x :: l, 0, h => by
    have := sum_single l l.length (fun j _ => by simpa using h (j + 1) (by omega))
    simp at this
    simp [this]
  | x :: l, c + 1, h => by
    have := sum_single l c (fun j hj => by simpa using h (j + 1) (by omega))
    have hx : x = 0 := by simpa using h 0 (by omega)
    simp [this, hx]

theorem sum_map_mul_nat (c : Nat) (g : Nat → Nat) : ∀ l : List Nat,
    (l.map (fun a => c * g a)).sum = c * (l.map g).sum
  | [] => by simp
  | x :: l => by
    simp only [List.map_cons, List.sum_cons, sum_map_mul_nat c g l, Nat.mul_add]

theorem foldl_max_le (d : Nat) : ∀ (l : List Nat) (acc : Nat),
    l.foldl max acc ≤ d ↔ acc ≤ d ∧ ∀ x ∈ l, x ≤ d
  | [], acc => by simp
  | x :: l, acc => by
    rw [List.foldl_cons, foldl_max_le d l (max acc x)]
    simp only [List.mem_cons, forall_eq_or_imp]
    constructor
    · rintro ⟨h1, h2⟩; exact ⟨by omega, by omega, h2⟩
    · rintro ⟨h1, h2, h3⟩; exact ⟨by omega, h3⟩

theorem foldl_max_mem : ∀ (l : List Nat) (acc : Nat), l.foldl max acc = acc ∨ l.foldl max acc ∈ l
  | [], acc => Or.inl rfl
  | x :: l, acc => by
    rw [List.foldl_cons]
    rcases foldl_max_mem l (max acc x) with h | h
    · rw [h]
      by_cases hx : acc ≤ x
      · right; rw [Nat.max_eq_right hx]; simp
      · left; exact Nat.max_eq_left (by omega)
    · right; simp [h]

/-! ## 1. minimality of `smallestFrequencySymbol` -/

theorem smallestGo_min (excluded : Int) : ∀ (l : List Nat) (i : Nat) (symbol : Int) (smallest : Nat),
    (smallestGo excluded l i symbol smallest = symbol ∧
      ∀ j, j < l.length → l[j]?.getD 0 ≠ 0 → ((i + j : Nat) : Int) ≠ excluded →
        0 ≤ symbol ∧ smallest < l[j]?.getD 0) ∨
    (∃ j, smallestGo excluded l i symbol smallest = ((i + j : Nat) : Int) ∧ j < l.length ∧
      (0 ≤ symbol → l[j]?.getD 0 ≤ smallest) ∧
      ∀ j', j' < l.length → l[j']?.getD 0 ≠ 0 → ((i + j' : Nat) : Int) ≠ excluded →
        l[j]?.getD 0 ≤ l[j']?.getD 0)
  | [], _, _, _ => by simp [smallestGo]
  | v :: rest, i, symbol, smallest => by
    unfold smallestGo
    split
    · next hc =>
      right
      rcases smallestGo_min excluded rest (i + 1) i v with ⟨h1, h2⟩ | ⟨j, h1, h2, h3, h4⟩
      · refine ⟨0, by simpa using h1, by simp, ?_, ?_⟩
        · intro hs
          rcases hc.2.2 with h | h
          · omega
          · simpa using h
        · intro j' hj' hne hex
          cases j' with
          | zero => exact Nat.le_refl _
          | succ j' =>
            have := h2 j' (by simpa using hj') (by simpa using hne) (by
              have e : i + 1 + j' = i + (j' + 1) := by omega
              rw [e]; exact hex)
            simp only [List.getElem?_cons_zero, List.getElem?_cons_succ, Option.getD_some]
            omega
      · have h3' := h3 (by omega)
        refine ⟨j + 1, ?_, by simpa using h2, ?_, ?_⟩
        · rw [h1]; congr 1; omega
        · intro hs
          simp only [List.getElem?_cons_succ]
          rcases hc.2.2 with h | h
          · omega
          · omega
        · intro j' hj' hne hex
          simp only [List.getElem?_cons_succ]
          cases j' with
          | zero => simpa using h3'
          | succ j' =>
            simp only [List.getElem?_cons_succ]
            exact h4 j' (by simpa using hj') (by simpa using hne) (by
              have e : i + 1 + j' = i + (j' + 1) := by omega
              rw [e]; exact hex)
    · next hc =>
      have hv : v ≠ 0 → (i : Int) ≠ excluded → 0 ≤ symbol ∧ smallest < v := by
        intro h1 h2
        constructor
        · apply Classical.byContradiction
          intro hn
          exact hc ⟨h1, h2, Or.inl (by omega)⟩
        · apply Classical.byContradiction
          intro hn
          exact hc ⟨h1, h2, Or.inr (by omega)⟩
      rcases smallestGo_min excluded rest (i + 1) symbol smallest with ⟨h1, h2⟩ | ⟨j, h1, h2, h3, h4⟩
      · left
        refine ⟨h1, ?_⟩
        intro j' hj' hne hex
        cases j' with
        | zero => simpa using hv (by simpa using hne) (by simpa using hex)
        | succ j' =>
          simp only [List.getElem?_cons_succ]
          exact h2 j' (by simpa using hj') (by simpa using hne) (by
            have e : i + 1 + j' = i + (j' + 1) := by omega
            rw [e]; exact hex)
      · right
        refine ⟨j + 1, ?_, by simpa using h2, ?_, ?_⟩
        · rw [h1]; congr 1; omega
        · simpa using h3
        · intro j' hj' hne hex
          simp only [List.getElem?_cons_succ]
          cases j' with
          | zero =>
            have := hv (by simpa using hne) (by simpa using hex)
            have := h3 this.1
            simp only [List.getElem?_cons_zero, Option.getD_some]
            omega
          | succ j' =>
            simp only [List.getElem?_cons_succ]
            exact h4 j' (by simpa using hj') (by simpa using hne) (by
              have e : i + 1 + j' = i + (j' + 1) := by omega
              rw [e]; exact hex)

/-- the selected symbol carries the least non-zero frequency among the admissible indices -/
theorem sfs_min (freq : Array Nat) (excluded : Int) (j : Nat)
    (h : smallestFrequencySymbol freq excluded = (j : Int)) :
    ∀ i, live freq i → (i : Int) ≠ excluded → freq[j]?.getD 0 ≤ freq[i]?.getD 0 := by
  intro i hi hex
  unfold smallestFrequencySymbol at h
  rcases smallestGo_min excluded freq.toList 0 (-1) 0 with ⟨h1, _⟩ | ⟨j0, h1, _, _, h4⟩
  · rw [h] at h1; omega
  · rw [h] at h1
    have e : j0 = j := by omega
    subst e
    have := h4 i (by simpa using live_lt hi) (by unfold live at hi; simpa using hi) (by simpa using hex)
    simpa using this

/-! ## 2. the code sizes after one merge; the Fibonacci invariant -/

abbrev St.w (st : St) (i : Nat) : Nat := st.freq[i]?.getD 0

/-- the code sizes produced by one iteration (the three walks of `Inv.step`) -/
theorem Inv.step_cs {P N K st ch k} (h : Inv P N K st ch k) {c1 c2 : Nat}
    (h1 : live st.freq c1) (h2 : live st.freq c2) (hne : c1 ≠ c2) {cs1 cs2 : Array Nat} {last : Nat}
    (e1 : incrementCodeSize st.others 258 st.codeSize (c1 : Int) = .ok cs1)
    (e2 : lastBranchSymbol st.others 258 (c1 : Int) = .ok last)
    (e3 : incrementCodeSize (st.others.setIfInBounds last (c2 : Int)) 258 cs1 (c2 : Int) = .ok cs2) :
    ∀ a, cs2[a]?.getD 0 = st.cs a + (if a ∈ ch c1 ∨ a ∈ ch c2 then 1 else 0) := by
  have hc1 := h.chain c1 h1
  have hc2 := h.chain c2 h2
  have hl1 := h.chain_len h1
  have hl2 := h.chain_len h2
  have hne1 : ch c1 ≠ [] := by
    have := h.self_mem h1
    intro e; rw [e] at this; simp at this
  obtain ⟨cs1', e1', s1, v1⟩ := incrementCodeSize_ok st.others (ch c1) 258 st.codeSize c1 hc1 (by omega)
    (by rw [h.szC, h.szO])
  rw [e1] at e1'
  injection e1' with e1'
  subst e1'
  have e2' := lastBranchSymbol_ok st.others (ch c1) 258 c1 hne1 hc1 (by omega)
  rw [e2] at e2'
  injection e2' with e2'
  subst e2'
  have hlast1 : (ch c1).getLast hne1 ∈ ch c1 := List.getLast_mem _
  have hlast2 : (ch c1).getLast hne1 ∉ ch c2 := h.disj c1 c2 h1 h2 hne _ hlast1
  have hc2' : IsChain (st.others.setIfInBounds ((ch c1).getLast hne1) (c2 : Int)) (c2 : Int) (ch c2) :=
    hc2.frame _ _ hlast2
  obtain ⟨cs2', e3', s2, v2⟩ := incrementCodeSize_ok _ (ch c2) 258 cs1 c2 hc2' (by omega)
    (by rw [s1, h.szC, Array.size_setIfInBounds, h.szO])
  rw [e3] at e3'
  injection e3' with e3'
  subst e3'
  intro a
  rw [v2, v1, (h.nodup c1 h1).count, (h.nodup c2 h2).count]
  by_cases ha1 : a ∈ ch c1
  · have := h.disj c1 c2 h1 h2 hne a ha1
    simp [ha1, this]
  · by_cases ha2 : a ∈ ch c2
    · simp [ha1, ha2]
    · simp [ha1, ha2]

/-- the Fibonacci invariant of the merge loop: `T` = total weight; a member at depth `d` of a live
    chain of weight `W` has `fib (d+2) ≤ W`, and if `d ≥ 1` then `fib (d+1)` is below every live
    weight (the larger part of the merge that created the chain is, and merge weights only grow) -/
structure FInv (st : St) (ch : Nat → List Nat) (T : Nat) : Prop where
  tot : st.freq.toList.sum = T
  fibW : ∀ i, live st.freq i → ∀ a ∈ ch i, fib (st.cs a + 2) ≤ st.w i
  fibM : ∀ i, live st.freq i → ∀ a ∈ ch i, 1 ≤ st.cs a → ∀ j, live st.freq j → fib (st.cs a + 1) ≤ st.w j

theorem FInv.step {P N K st ch k T} (hF : FInv st ch T) (h : Inv P N K st ch k) {c1 c2 : Nat}
    (h1 : live st.freq c1) (h2 : live st.freq c2) (hne : c1 ≠ c2)
    (hm1 : ∀ j, live st.freq j → st.w c1 ≤ st.w j)
    (hm2 : ∀ j, live st.freq j → j ≠ c1 → st.w c2 ≤ st.w j)
    (cs2 : Array Nat) (others' : Array Int)
    (hcs : ∀ a, cs2[a]?.getD 0 = st.cs a + (if a ∈ ch c1 ∨ a ∈ ch c2 then 1 else 0)) :
    FInv (St.mk ((st.freq.setIfInBounds c1 (st.freq[c1]?.getD 0 + st.freq[c2]?.getD 0)).setIfInBounds c2 0)
                cs2 others')
      (fun i => if i = c1 then ch c1 ++ ch c2 else ch i) T := by
  have hF1 : c1 < st.freq.size := live_lt h1
  have hF2 : c2 < st.freq.size := live_lt h2
  have hw : ∀ j, ((st.freq.setIfInBounds c1 (st.freq[c1]?.getD 0 + st.freq[c2]?.getD 0)).setIfInBounds c2 0)[j]?.getD 0
      = if j = c2 then 0 else if j = c1 then st.w c1 + st.w c2 else st.w j := by
    intro j
    rw [Array.getElem?_setIfInBounds, Array.getElem?_setIfInBounds]
    by_cases hj2 : c2 = j
    · subst hj2; simp [hF2]
    · have hj2' : j ≠ c2 := Ne.symm hj2
      by_cases hj1 : c1 = j
      · subst hj1; simp [hj2, hF1, hne, St.w]
      · have hj1' : j ≠ c1 := Ne.symm hj1
        simp [hj1, hj2, hj1', hj2']
  have hW1 : 1 ≤ st.w c1 := by unfold live at h1; show 1 ≤ st.freq[c1]?.getD 0; omega
  have hW2 : 1 ≤ st.w c2 := by unfold live at h2; show 1 ≤ st.freq[c2]?.getD 0; omega
  have hlive : ∀ i, live ((st.freq.setIfInBounds c1 (st.freq[c1]?.getD 0 + st.freq[c2]?.getD 0)).setIfInBounds c2 0) i
      ↔ (i ≠ c2 ∧ live st.freq i) := by
    intro i
    unfold live
    rw [hw i]
    by_cases hi2 : i = c2
    · simp [hi2]
    · by_cases hi1 : i = c1
      · subst hi1
        simp only [if_neg hi2, if_true]
        constructor
        · intro _; exact ⟨hi2, h1⟩
        · intro _; omega
      · simp [hi1, hi2]
  have h12 : st.w c1 ≤ st.w c2 := hm1 c2 h2
  refine ⟨?_, ?_, ?_⟩
  · -- total weight
    show (Array.setIfInBounds _ _ _).toList.sum = T
    rw [Array.toList_setIfInBounds, Array.toList_setIfInBounds]
    have s1 := sum_set_nat st.freq.toList c1 (st.freq[c1]?.getD 0 + st.freq[c2]?.getD 0) (by simpa using hF1)
    have s2 := sum_set_nat (st.freq.toList.set c1 (st.freq[c1]?.getD 0 + st.freq[c2]?.getD 0)) c2 0
      (by simpa using hF2)
    rw [List.getElem?_set_ne hne] at s2
    rw [Array.getElem?_toList] at s1 s2
    have := hF.tot
    omega
  · -- fibW
    intro i hi a ha
    have ⟨hi2, hi'⟩ := (hlive i).1 hi
    show fib (cs2[a]?.getD 0 + 2) ≤ (Array.setIfInBounds _ _ _)[i]?.getD 0
    rw [hw i, if_neg hi2, hcs a]
    by_cases hi1 : i = c1
    · subst hi1
      simp only [if_true] at ha ⊢
      have ha' : a ∈ ch i ∨ a ∈ ch c2 := List.mem_append.1 ha
      rw [if_pos ha']
      rw [fib_add_two]
      show fib (st.cs a + 1) + fib (st.cs a + 2) ≤ _
      have hsmall : ∀ j, live st.freq j → fib (st.cs a + 1) ≤ st.w j := by
        intro j hj
        by_cases hd : 1 ≤ st.cs a
        · rcases ha' with ha' | ha'
          · exact hF.fibM i h1 a ha' hd j hj
          · exact hF.fibM c2 h2 a ha' hd j hj
        · have : st.cs a = 0 := by omega
          rw [this]
          show fib 1 ≤ st.w j
          rw [fib_one]
          unfold live at hj
          show 1 ≤ st.freq[j]?.getD 0
          omega
      rcases ha' with ha' | ha'
      · have := hF.fibW i h1 a ha'
        have := hsmall c2 h2
        omega
      · have := hF.fibW c2 h2 a ha'
        have := hsmall i h1
        omega
    · simp only [if_neg hi1] at ha ⊢
      have n1 : a ∉ ch c1 := fun hx => h.disj c1 i h1 hi' (Ne.symm hi1) a hx ha
      have n2 : a ∉ ch c2 := fun hx => h.disj c2 i h2 hi' (Ne.symm hi2) a hx ha
      rw [if_neg (by simp [n1, n2])]
      exact hF.fibW i hi' a ha
  · -- fibM
    intro i hi a ha hd j hj
    have ⟨hi2, hi'⟩ := (hlive i).1 hi
    have ⟨hj2, hj'⟩ := (hlive j).1 hj
    change 1 ≤ cs2[a]?.getD 0 at hd
    show fib (cs2[a]?.getD 0 + 1) ≤ (Array.setIfInBounds _ _ _)[j]?.getD 0
    rw [hw j, if_neg hj2]
    rw [hcs a] at hd ⊢
    by_cases hi1 : i = c1
    · subst hi1
      simp only [if_true] at ha
      have ha' : a ∈ ch i ∨ a ∈ ch c2 := List.mem_append.1 ha
      rw [if_pos ha']
      have hb : fib (st.cs a + 2) ≤ st.w c2 := by
        rcases ha' with ha' | ha'
        · exact Nat.le_trans (hF.fibW i h1 a ha') h12
        · exact hF.fibW c2 h2 a ha'
      by_cases hj1 : j = i
      · rw [if_pos hj1]; show fib (st.cs a + 2) ≤ _; omega
      · rw [if_neg hj1]
        have := hm2 j hj' hj1
        show fib (st.cs a + 2) ≤ _
        omega
    · simp only [if_neg hi1] at ha
      have n1 : a ∉ ch c1 := fun hx => h.disj c1 i h1 hi' (Ne.symm hi1) a hx ha
      have n2 : a ∉ ch c2 := fun hx => h.disj c2 i h2 hi' (Ne.symm hi2) a hx ha
      rw [if_neg (by simp [n1, n2])] at hd ⊢
      by_cases hj1 : j = c1
      · rw [if_pos hj1]
        have := hF.fibM i hi' a ha hd c1 h1
        show fib (st.cs a + 1) ≤ _
        omega
      · rw [if_neg hj1]
        exact hF.fibM i hi' a ha hd j hj'

/-- the merge loop with both invariants -/
theorem mergeLoop_ok2 {P : Nat → Prop} {N K T : Nat} (hK : N ≤ K + 1) :
    ∀ (fuel : Nat) (st : St) (ch : Nat → List Nat) (k : Nat),
    Inv P N K st ch k → FInv st ch T → (∃ i, live st.freq i) → nz st.freq ≤ fuel →
    ∃ st' ch' k', mergeLoop fuel st = .ok st' ∧ Inv P N K st' ch' k' ∧ FInv st' ch' T ∧ Final st'
  | 0, st, _, _, _, _, ⟨i, hi⟩, hf => by
    have := nz_pos_of_live hi
    omega
  | fuel + 1, st, ch, k, h, hF, ⟨i, hi⟩, hf => by
    rcases sfs_spec st.freq (smallestFrequencySymbol st.freq (-1)) with e2 | ⟨j2, e2, l2, n2⟩
    · -- loop exit
      refine ⟨st, ch, k, ?_, h, hF, i, hi, ?_⟩
      · rw [mergeLoop]
        simp only [e2]
        simp
      · intro j hj
        have a := sfs_neg st.freq _ (by rw [e2]; omega) j hj
        have b := sfs_neg st.freq _ (by rw [e2]; omega) i hi
        omega
    · rcases sfs_spec st.freq (-1) with e1 | ⟨j1, e1, l1, _⟩
      · have := sfs_neg st.freq (-1) (by rw [e1]; omega) j2 l2
        omega
      · have hne : j1 ≠ j2 := by
          intro e; apply n2; rw [e1, e]
        obtain ⟨cs1, cs2, last, a1, a2, a3, hinv⟩ := h.step hK l1 l2 hne
        have hcs := h.step_cs l1 l2 hne a1 a2 a3
        have hm1 : ∀ j, live st.freq j → st.w j1 ≤ st.w j := fun j hj =>
          sfs_min st.freq (-1) j1 e1 j hj (by omega)
        have hm2 : ∀ j, live st.freq j → j ≠ j1 → st.w j2 ≤ st.w j := fun j hj hjn =>
          sfs_min st.freq _ j2 e2 j hj (by rw [e1]; omega)
        have hF' := hF.step h l1 l2 hne hm1 hm2 cs2 (st.others.setIfInBounds last (j2 : Int)) hcs
        have hF1 := live_lt l1
        have hF2 := live_lt l2
        have g1 : st.freq[j1]? = some st.freq[j1] := by simp
        have g2 : st.freq[j2]? = some st.freq[j2] := by simp
        rw [g1, g2] at hinv hF'
        simp only [Option.getD_some] at hinv hF'
        have hlive1 : live ((st.freq.setIfInBounds j1 (st.freq[j1] + st.freq[j2])).setIfInBounds j2 0) j1 := by
          unfold live at l1 ⊢
          rw [Array.getElem?_setIfInBounds_ne (Ne.symm hne), Array.getElem?_setIfInBounds_self, if_pos hF1]
          rw [g1] at l1
          simp at l1 ⊢
          omega
        have hnz : nz ((st.freq.setIfInBounds j1 (st.freq[j1] + st.freq[j2])).setIfInBounds j2 0) ≤ fuel := by
          have c1 := hinv.cnt
          have c2 := h.cnt
          simp only [] at c1
          omega
        obtain ⟨st', ch', k', r1, r2, r3, r4⟩ := mergeLoop_ok2 hK fuel _ _ _ hinv hF' ⟨j1, hlive1⟩ hnz
        refine ⟨st', ch', k', ?_, r2, r3, r4⟩
        rw [mergeLoop]
        have e2' := e2
        rw [e1] at e2'
        simp only [e1, e2']
        rw [if_neg (by omega), if_neg (by omega)]
        simp only [Int.toNat_natCast, g1, g2]
        simp only [bind, a1, a2, a3]
        exact r1

/-! ## 3. G1a: the merge loop always succeeds -/

theorem st0_cs (f : List Nat) (a : Nat) : (st0 f).cs a = 0 := by
  unfold St.cs st0
  simp only [Array.getElem?_replicate]
  split <;> rfl

theorem finv_st0 (f : List Nat) : FInv (st0 f) (fun i => [i]) (f.sum + 1) := by
  refine ⟨by simp [st0], ?_, ?_⟩
  · intro i hi a ha
    simp at ha
    subst ha
    rw [st0_cs]
    show fib 2 ≤ _
    rw [fib_two]
    unfold live at hi
    show 1 ≤ (st0 f).freq[a]?.getD 0
    omega
  · intro i _ a _ hd
    rw [st0_cs] at hd
    omega

/-- the anatomy of the merge loop on arbitrary 256 frequencies: it succeeds and leaves exactly one
    live index `c`, with both invariants (Kraft budget 256) -/
theorem mergeLoop_run (f : List Nat) (hlen : f.length = 256) :
    ∃ st ch k c, mergeLoop 258 (st0 f) = .ok st ∧
      Inv (live (st0 f).freq) (nz (st0 f).freq) 256 st ch k ∧ FInv st ch (f.sum + 1) ∧
      live st.freq c ∧ (∀ j, live st.freq j → j = c) := by
  have hN : nz (st0 f).freq ≤ 257 := by
    rw [nz_st0]
    have : f.countP (fun x => x != 0) ≤ f.length := List.countP_le_length
    omega
  obtain ⟨st, ch, k, m1, m2, m3, c, hc, hall⟩ :=
    mergeLoop_ok2 (K := 256) (by omega) 258 (st0 f) _ 0 (inv_st0 f hlen 256) (finv_st0 f)
      ⟨256, live_st0_256 f hlen⟩ (by omega)
  exact ⟨st, ch, k, c, m1, m2, m3, hc, hall⟩

/-- **G1a**: for any 256 frequencies the merge loop neither panics nor runs out of fuel; the
    symbols with a code (`chain`: the pseudo-symbol 256 and the symbols of non-zero frequency, or
    `[256]` alone with code size 0 when every frequency is zero) have code sizes ≤ 256 which satisfy
    the Kraft equality `Σ 2^(256 - size) = 2^256`; all other code sizes are 0. -/
theorem mergeLoop_total (f : List Nat) (hlen : f.length = 256) :
    ∃ (st : St) (chain : List Nat), mergeLoop 258 (st0 f) = .ok st ∧ chain.Nodup ∧
      (∀ a, a ∈ chain ↔ (a < 256 ∧ f[a]?.getD 0 ≠ 0) ∨ a = 256) ∧
      (∀ a, st.cs a ≤ 256) ∧ (∀ a, st.cs a ≠ 0 → a ∈ chain) ∧
      (chain.map (fun a => 2 ^ (256 - st.cs a))).sum = 2 ^ 256 := by
  obtain ⟨st, ch, k, c, m1, m2, _, hc, hall⟩ := mergeLoop_run f hlen
  refine ⟨st, ch c, m1, m2.nodup c hc, ?_, ?_, ?_, m2.kraft c hc⟩
  · intro a
    rw [← live_st0_iff f hlen a]
    constructor
    · exact m2.memP c hc a
    · intro ha
      obtain ⟨j, hj, hm⟩ := m2.orig a ha
      have := hall j hj
      subst this; exact hm
  · intro a
    have := m2.csle a
    have := m2.cnt
    have := nz_pos_of_live hc
    have hN : nz (st0 f).freq ≤ 257 := by
      rw [nz_st0]
      have : f.countP (fun x => x != 0) ≤ f.length := List.countP_le_length
      omega
    omega
  · intro a ha
    obtain ⟨j, hj, hm⟩ := m2.cover a ha
    have := hall j hj
    subst this; exact hm

/-! ## 4. the depth of the unrestricted code -/

/-- the largest code size after the merge loop (executable) -/
def maxDepth (f : List Nat) : Nat :=
  match mergeLoop 258 (st0 f) with
  | .ok st => st.codeSize.toList.foldl max 0
  | _ => 0

/-- every code size after the merge loop is at most `d` -/
def DepthLe (f : List Nat) (d : Nat) : Prop := maxDepth f ≤ d

instance (f : List Nat) (d : Nat) : Decidable (DepthLe f d) := Nat.decLe _ _

theorem depthLe_iff (f : List Nat) (d : Nat) :
    DepthLe f d ↔ ∀ st, mergeLoop 258 (st0 f) = .ok st → ∀ a, st.cs a ≤ d := by
  unfold DepthLe maxDepth
  cases hm : mergeLoop 258 (st0 f) with
  | ok st =>
    simp only []
    rw [foldl_max_le]
    constructor
    · rintro ⟨_, hx⟩ st' e a
      injection e with e
      subst e
      by_cases ha : a < st.codeSize.size
      · have e : st.codeSize[a]? = some st.codeSize[a] := by simp
        show st.codeSize[a]?.getD 0 ≤ d
        rw [e]
        exact hx _ (by simp)
      · have e : st.codeSize[a]? = none := by simp; omega
        show st.codeSize[a]?.getD 0 ≤ d
        rw [e]; exact Nat.zero_le _
    · intro h
      refine ⟨Nat.zero_le _, ?_⟩
      intro x hx
      obtain ⟨j, hj, rfl⟩ := List.getElem_of_mem hx
      have hj' : j < st.codeSize.size := by simpa using hj
      have := h st rfl j
      have e : st.codeSize[j]? = some st.codeSize[j] := by simp
      unfold St.cs at this
      rw [e] at this
      simpa using this
  | err =>
    simp only []
    constructor
    · intro _ st e; cases e
    · intro _; exact Nat.zero_le _
  | panic =>
    simp only []
    constructor
    · intro _ st e; cases e
    · intro _; exact Nat.zero_le _

/-- a Huffman tree over the 256 symbols plus the pseudo-symbol is at most 256 levels deep: every
    code size fits the 257-entry work array `bits` -/
theorem depthLe_256 (f : List Nat) (hlen : f.length = 256) : DepthLe f 256 := by
  rw [depthLe_iff]
  intro st hst a
  obtain ⟨st', chain, m1, _, _, hle, _⟩ := mergeLoop_total f hlen
  rw [hst] at m1
  injection m1 with m1
  subst m1
  exact hle a

/-- at most 32 non-zero frequencies ⇒ at most 32 merges ⇒ depth ≤ 32 -/
theorem depthLe_of_count (f : List Nat) (hlen : f.length = 256)
    (hc : f.countP (fun x => x != 0) ≤ 32) : DepthLe f 32 := by
  rw [depthLe_iff]
  intro st hst a
  have hN : nz (st0 f).freq ≤ 33 := by rw [nz_st0]; omega
  obtain ⟨st', ch, k, m1, m2, c, hc', _⟩ :=
    mergeLoop_ok (K := 32) (by omega) 258 (st0 f) _ 0 (inv_st0 f hlen 32) ⟨256, live_st0_256 f hlen⟩ (by omega)
  rw [hst] at m1
  injection m1 with m1
  subst m1
  have := m2.csle a
  have := m2.cnt
  have := nz_pos_of_live hc'
  omega

/-! ## 5. G1b: totality (the theorems `buildOptimal_total` and `buildOptimal_valid` are in
    JllOptimal.lean) -/

/-- no index panic for ANY 256 frequencies (in particular `bits[size]++`: `size ≤ 256 < 257`) -/
theorem buildOptimal_ne_panic (f : List Nat) (hlen : f.length = 256) : buildOptimal f ≠ .panic := by
  intro he
  obtain ⟨r, hr⟩ := buildOptimal_total f hlen
  rw [he] at hr
  cases hr

/-- the model never reports `.err` (fuel exhaustion = non-termination of the Go loops) -/
theorem buildOptimal_ne_err (f : List Nat) (hlen : f.length = 256) : buildOptimal f ≠ .err := by
  intro he
  obtain ⟨r, hr⟩ := buildOptimal_total f hlen
  rw [he] at hr
  cases hr

/-! ## 6. G2: the depth is bounded by the total count (Fibonacci bound) -/

/-- **G2**: a code size `d ≥ 1` after the merge loop forces a total weight (all frequencies plus the
    pseudo-symbol) of at least `fib (d + 2)` (`fib 1 = fib 2 = 1`). -/
theorem depth_fib (f : List Nat) (hlen : f.length = 256) (st : St)
    (hst : mergeLoop 258 (st0 f) = .ok st) (a : Nat) (ha : 1 ≤ st.cs a) :
    fib (st.cs a + 2) ≤ f.sum + 1 := by
  obtain ⟨st', ch, k, c, m1, m2, m3, hc, hall⟩ := mergeLoop_run f hlen
  rw [hst] at m1
  injection m1 with m1
  subst m1
  obtain ⟨j, hj, hm⟩ := m2.cover a (by omega)
  have := hall j hj
  subst this
  have h1 := m3.fibW j hj a hm
  have h2 := m3.tot
  have h3 := sum_single st.freq.toList j (by
    intro i hi
    rw [Array.getElem?_toList]
    apply Classical.byContradiction
    intro hne
    exact hi (hall i hne))
  rw [Array.getElem?_toList] at h3
  show fib (st.cs a + 2) ≤ f.sum + 1
  have : st.w j = st.freq[j]?.getD 0 := rfl
  omega

theorem maxDepth_fib (f : List Nat) (hlen : f.length = 256) : fib (maxDepth f + 2) ≤ f.sum + 1 := by
  obtain ⟨st, ch, k, c, m1, m2, _, _, _⟩ := mergeLoop_run f hlen
  have hmd : maxDepth f = st.codeSize.toList.foldl max 0 := by
    unfold maxDepth
    rw [m1]
  have h0 : fib (0 + 2) ≤ f.sum + 1 := by
    show fib 2 ≤ _
    rw [fib_two]; omega
  rcases foldl_max_mem st.codeSize.toList 0 with h | h
  · rw [hmd, h]; exact h0
  · rw [codeSize_toList st m2.szC] at h
    simp only [List.mem_map, List.mem_range] at h
    obtain ⟨a, _, ha⟩ := h
    rw [← codeSize_toList st m2.szC] at ha
    rw [hmd, ← ha]
    by_cases hpos : 1 ≤ st.cs a
    · exact depth_fib f hlen st m1 a hpos
    · have : st.cs a = 0 := by omega
      rw [this]; exact h0

/-- **G2, consequence**: fewer than `fib 35 - 1 = 9227464` samples in total keep every code size
    ≤ 32.  The constant is sharp (checked with `#eval`, not kernel-proved):
    `f = replicate 223 0 ++ [fib 33, fib 32, …, fib 2, fib 1]` has `f.sum + 1 = 9227465` and
    `maxDepth f = 33`; on it the function panicked before fix PENDING:c11-huffman-depth-over-32 (33-entry
    work array) and returns normally since (`buildOptimal_total`). -/
theorem depthLe_of_sum (f : List Nat) (hlen : f.length = 256) (hs : f.sum + 1 < 9227465) :
    DepthLe f 32 := by
  unfold DepthLe
  apply Classical.byContradiction
  intro hn
  have h1 := maxDepth_fib f hlen
  have h2 : fib 35 ≤ fib (maxDepth f + 2) := fib_mono (by omega)
  rw [fib_35] at h2
  omega

end JLL.Opt
