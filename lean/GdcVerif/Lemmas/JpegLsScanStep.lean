import GdcVerif.Model.JpegLsScan
import GdcVerif.Lemmas.JpegLsNear
import GdcVerif.Lemmas.GolombCode
/-!
  Per-step agreement of the scan model's regular-mode sample: the decoder step
  (`JpegLsScan.decRegular`) on the bits the encoder step (`encRegular`) wrote recovers the same
  reconstruction, the same context table and leaves the following bits — the lock-step
  hypothesis for regular mode (run mode: `runlength_roundtrip`, `run_interruption_roundtrip`).
-/
namespace JpegLsScan
open Gen.JpegLs JpegLsLemmas JpegLsNear Golomb

theorem golombParam_range (ctx : Context) : ∀ (f : Nat) (k : Int), 0 ≤ k → k ≤ 16 →
    0 ≤ golombParam ctx f k ∧ golombParam ctx f k ≤ 16
  | 0, k, h0, h16 => by simp [golombParam]; omega
  | f + 1, k, h0, h16 => by
    unfold golombParam
    split
    · rename_i h
      exact golombParam_range ctx f (k + 1) (by omega) (by omega)
    · exact ⟨h0, h16⟩

theorem correctPrediction_range (t : Traits) (hM : 0 ≤ t.MaxVal) (v : Int) :
    0 ≤ Traits.CorrectPrediction t v ∧ Traits.CorrectPrediction t v ≤ t.MaxVal := by
  unfold Traits.CorrectPrediction
  simp only [decide_eq_true_eq]
  split
  · omega
  · split <;> omega

theorem errorCorrection_cases (ctx : Context) (k near : Int) :
    (Context.GetErrorCorrection ctx k near = 0 ∨ Context.GetErrorCorrection ctx k near = -1) ∧
    (k ≠ 0 → Context.GetErrorCorrection ctx k near = 0) := by
  unfold Context.GetErrorCorrection
  by_cases hk : k = 0 <;> by_cases hn : near = 0 <;> simp [hk, hn]
  omega

theorem applySign_mul (v qs : Int) (h : -9223372036854775807 ≤ v ∧ v < 9223372036854775808) :
    ∃ s : Int, (s = 1 ∨ s = -1) ∧ ∀ u : Int, (-9223372036854775807 ≤ u ∧ u < 9223372036854775808) →
      ApplySign u (BitwiseSign qs) = s * u := by
  rcases bitwiseSign_cases qs with ⟨_, hb⟩ | ⟨_, hb⟩
  · refine ⟨-1, Or.inr rfl, fun u hu => ?_⟩
    rw [hb, applySign_neg u (by unfold Go.I64; omega)]; omega
  · refine ⟨1, Or.inl rfl, fun u hu => ?_⟩
    rw [hb, applySign_zero u (by unfold Go.I64; omega)]; omega

/-- regular-mode sample: decoder step ∘ encoder step -/
theorem regular_roundtrip (P : Nat) (N : Int) (h : Admissible P N) (cs : Array Context) (qs a b c xs : Int)
    (rest : List Bool) (hxs : 0 ≤ xs ∧ xs ≤ (2 : Int) ^ P - 1)
    (ws : List (Nat × Int)) (cs' : Array Context) (rec : Int)
    (henc : encRegular (traits P N) cs qs a b c xs = .ok (ws, cs', rec)) :
    decRegular (traits P N) cs qs a b c (writesBits ws ++ rest) = .ok (cs', rec, rest) := by
  obtain ⟨hM, hNear, _, _, ⟨q, hQ, hq1, hqP, _, _⟩, _, hL, hQL, _⟩ := near_params_wf P N h
  unfold encRegular at henc
  unfold decRegular
  dsimp only at henc ⊢
  cases hctx : getCtx cs (ApplySign qs (BitwiseSign qs)) with
  | error e => rw [hctx] at henc; simp [bind, Except.bind] at henc
  | ok ctx =>
    rw [hctx] at henc
    simp only [bind, Except.bind] at henc ⊢
    have hk := golombParam_range ctx 17 0 (by omega) (by omega)
    generalize golombParam ctx 17 0 = k at *
    have hMpos : (0 : Int) ≤ (traits P N).MaxVal := by
      rw [hM]; have : (0 : Int) < 2 ^ P := Int.pow_pos (by decide); omega
    have hpx := correctPrediction_range (traits P N) hMpos (Predict a b c + ApplySign ctx.C (BitwiseSign qs))
    generalize Traits.CorrectPrediction (traits P N) (Predict a b c + ApplySign ctx.C (BitwiseSign qs)) = pxv at *
    rw [hM] at hpx
    have h16 : (2 : Int) ^ P ≤ 2 ^ 16 := two_pow_mono h.1.2
    simp only [Int.reducePow] at h16
    obtain ⟨s, hs, hmul⟩ := applySign_mul (xs - pxv) qs (by omega)
    rw [hmul (xs - pxv) (by omega)] at henc
    have hb := (near_sample_bound P N h pxv xs s hpx hxs hs).2.2
    have hcorr := errorCorrection_cases ctx k (traits P N).Near
    have hfit := near_mapped_fits P N h pxv xs s hpx hxs hs (Context.GetErrorCorrection ctx k (traits P N).Near) hcorr.1
    change (((traits P N).Range + 1) / 2 - (traits P N).Range ≤ Traits.ComputeErrorValue (traits P N) (s * (xs - pxv)) ∧
      Traits.ComputeErrorValue (traits P N) (s * (xs - pxv)) < ((traits P N).Range + 1) / 2) at hb
    change (0 ≤ MapErrorValue (Go.xor (Context.GetErrorCorrection ctx k (traits P N).Near)
        (Traits.ComputeErrorValue (traits P N) (s * (xs - pxv)))) ∧
      MapErrorValue (Go.xor (Context.GetErrorCorrection ctx k (traits P N).Near)
        (Traits.ComputeErrorValue (traits P N) (s * (xs - pxv)))) - 1 < (2 : Int) ^ (traits P N).Qbpp.toNat) at hfit
    generalize Traits.ComputeErrorValue (traits P N) (s * (xs - pxv)) = e at *
    have hR16 : (traits P N).Range ≤ 65536 := by
      obtain ⟨_, _, _, _, ⟨q', hQ', _, hqP', _, hq4'⟩, _⟩ := near_params_wf P N h
      have : (2 : Int) ^ q' ≤ 2 ^ 16 := two_pow_mono (by have := h.1; omega)
      simp only [Int.reducePow] at this; omega
    have hR1 : 2 ≤ (traits P N).Range := (newTraits_wf P N h.1 ⟨h.2.1, h.2.2.2⟩ 64).range_ge
    have he : -65536 ≤ e ∧ e ≤ 65536 := by omega
    simp only [Except.ok.injEq, Prod.mk.injEq] at henc
    obtain ⟨hws, hcs, hrec⟩ := henc
    -- the code round trip
    have hcode := code_roundtrip k (MapErrorValue (Go.xor (Context.GetErrorCorrection ctx k (traits P N).Near) e))
      (traits P N).Limit (traits P N).Qbpp rest ⟨hk.1, by omega⟩ (by rw [hQ]; have := h.1; omega)
      (by rw [hL]; have := h.1; constructor <;> omega) (by
        have : (2 : Int) ^ (traits P N).Qbpp.toNat = 2 ^ (traits P N).Qbpp.toNat := rfl
        exact ⟨hfit.1, hfit.2⟩) (by
        intro hge
        by_cases h1 : 1 ≤ MapErrorValue (Go.xor (Context.GetErrorCorrection ctx k (traits P N).Near) e)
        · exact h1
        · have h0 : MapErrorValue (Go.xor (Context.GetErrorCorrection ctx k (traits P N).Near) e) = 0 := by omega
          rw [h0, shr_eq' 0 k hk.1] at hge
          simp at hge; omega)
    rw [← hws, hcode]
    simp only []
    -- un-mapping and the correction XOR
    have hx : -2147483648 ≤ Go.xor (Context.GetErrorCorrection ctx k (traits P N).Near) e ∧
        Go.xor (Context.GetErrorCorrection ctx k (traits P N).Near) e < 2147483648 := by
      rcases hcorr.1 with h0 | h1
      · rw [h0, Go.zero_xor e (by unfold Go.I64; omega)]; omega
      · rw [h1, Go.neg_one_xor e (by unfold Go.I64; omega)]; omega
    rw [unmap_map _ hx]
    have hfinal : (if k = 0 then Go.xor (Go.xor (Context.GetErrorCorrection ctx k (traits P N).Near) e)
        (Context.GetErrorCorrection ctx k (traits P N).Near) else Go.xor (Context.GetErrorCorrection ctx k (traits P N).Near) e) = e := by
      by_cases hk0 : k = 0
      · simp only [hk0, if_true]
        rw [hk0] at hcorr
        rcases hcorr.1 with h0 | h1
        · rw [h0, Go.zero_xor e (by unfold Go.I64; omega), Go.xor_zero e (by unfold Go.I64; omega)]
        · rw [h1, Go.neg_one_xor e (by unfold Go.I64; omega), Go.xor_neg_one _ (by unfold Go.I64; omega)]; omega
      · simp only [hk0, if_false]
        rw [hcorr.2 hk0, Go.zero_xor e (by unfold Go.I64; omega)]
    rw [hfinal, hmul e (by omega)] 
    rw [hmul e (by omega)] at hrec
    rw [hcs, hrec]

end JpegLsScan
