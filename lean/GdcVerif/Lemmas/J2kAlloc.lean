import GdcVerif.Lemmas.J2kTotal
/-!
  C09 for the JPEG 2000 codestream parser: the SUM of all allocations made while parsing
  (component tables, coding-style/quantisation/POC/RGN/COM payload copies) is at most
  2·len(input) + 196605 bytes: every successful segment allocates at most twice the bytes it
  consumes, and a failing segment — the only kind that may allocate more than it consumes —
  ends the parse.
-/
namespace J2kH
open PC

def IsBytes (bs : Bytes) : Prop := ∀ b ∈ bs, b < 256

theorem isBytes_drop {bs : Bytes} (h : IsBytes bs) (k : Nat) : IsBytes (bs.drop k) :=
  fun b hb => h b (List.mem_of_mem_drop hb)

theorem isBytes_getD {bs : Bytes} (h : IsBytes bs) (i : Nat) : bs.getD i 0 < 256 := by
  rw [List.getD_eq_getElem?_getD]
  cases hg : bs[i]? with
  | none => simp
  | some v => simp; exact h v (List.mem_of_getElem? hg)

theorem u16_lt {bs : Bytes} (h : IsBytes bs) {i v : Nat} (hu : u16 bs i = some v) : v ≤ 65535 := by
  unfold u16 at hu
  split at hu
  · injection hu with hu; subst hu
    have := isBytes_getD h i; have := isBytes_getD h (i + 1); omega
  · cases hu

theorem readTileData_isBytes {bs : Bytes} (h : IsBytes bs) : IsBytes (readTileData bs) := by
  induction bs with
  | nil => intro b hb; simp [readTileData] at hb
  | cons a tl ih =>
    cases tl with
    | nil => intro b hb; simp [readTileData] at hb
    | cons b rest =>
      unfold readTileData
      split
      · exact h
      · exact ih (fun x hx => h x (List.mem_cons_of_mem _ hx))

theorem readTileDataWithLength_isBytes {bs : Bytes} (h : IsBytes bs) (c p : Nat) :
    IsBytes (readTileDataWithLength bs c p) := by
  unfold readTileDataWithLength
  repeat' split
  all_goals first
    | exact readTileData_isBytes h
    | exact isBytes_drop h _

theorem rdN_len {bs : Bytes} {i n : Nat} {v : Bytes} (h : rdN bs i n = some v) : i + n ≤ bs.length ∧ v.length = n := by
  unfold rdN at h
  split at h
  · injection h with h; subst h
    refine ⟨by assumption, ?_⟩
    simp [List.length_take, List.length_drop]; omega
  · cases h

theorem u8_len {bs : Bytes} {i v : Nat} (h : u8 bs i = some v) : i + 1 ≤ bs.length := by
  unfold u8 at h; split at h
  · assumption
  · cases h

/-- a segment parser result is "cheap": on success the allocation is at most twice the bytes that
    are really consumed (min of the declared consumption and what is there); on failure it is a
    bounded one-off -/
def Cheap {α : Type} (body : Bytes) (cons : α → Nat) (x : Except Res α × Nat) : Prop :=
  match x with
  | (.ok v, a) => a ≤ 2 * min (cons v) body.length
  | (.error _, a) => a ≤ 196605

theorem parseSIZ_cheap (bs : Bytes) (hb : IsBytes bs) : Cheap bs (·.2) (parseSIZ bs) := by
  unfold parseSIZ
  split
  · rename_i length _ _ _ _ _ _ _ _ _ csiz _ _ _ _ _ _ _ _ _ _ hc
    have hcs := u16_lt hb hc
    split
    · simp only [Cheap]; omega
    · rename_i comps hr
      have hl := rdN_len hr
      repeat' split
      all_goals (simp only [Cheap]; omega)
  · simp [Cheap]

theorem parseQCD_cheap (bs : Bytes) (hb : IsBytes bs) : Cheap bs (·.2) (parseQCD bs) := by
  unfold parseQCD
  split
  · rename_i length sqcd hl hs
    have hlen := u16_lt hb hl
    repeat' split
    all_goals first
      | (simp only [Cheap]; omega)
      | (have := rdN_len ‹rdN _ _ _ = some _›; simp only [Cheap]; omega)
  · simp [Cheap]

theorem parseCOM_cheap (bs : Bytes) (hb : IsBytes bs) : Cheap bs id (parseCOM bs) := by
  unfold parseCOM
  split
  · rename_i length _ hl _
    have hlen := u16_lt hb hl
    repeat' split
    all_goals first
      | (simp only [Cheap, id]; omega)
      | (have := rdN_len ‹rdN _ _ _ = some _›; simp only [Cheap, id]; omega)
  · simp [Cheap]

theorem cidx_le (csiz : Nat) : 1 ≤ cidx csiz ∧ cidx csiz ≤ 2 := by unfold cidx; split <;> omega

theorem parseQCC_cheap (csiz : Nat) (bs : Bytes) (hb : IsBytes bs) : Cheap bs (·.2.2) (parseQCC csiz bs) := by
  unfold parseQCC
  have hc := cidx_le csiz
  split
  · rename_i length comp sqcc hl _ _
    have hlen := u16_lt hb hl
    repeat' split
    all_goals first
      | (simp only [Cheap]; omega)
      | (have := rdN_len ‹rdN _ _ _ = some _›; simp only [Cheap]; omega)
      | (simp only
         split
         · have := rdN_len ‹rdN _ _ _ = some _›; simp only [Cheap]; omega
         · simp only [Cheap]; omega)
  · simp [Cheap]

theorem parseRGN_cheap (csiz : Nat) (bs : Bytes) (hb : IsBytes bs) : Cheap bs (·.2) (parseRGN csiz bs) := by
  unfold parseRGN
  have hc := cidx_le csiz
  split
  · simp [Cheap]
  · rename_i length hl
    have hlen := u16_lt hb hl
    simp only
    repeat' split
    all_goals first
      | (simp only [Cheap]; omega)
      | (have := rdN_len ‹rdN _ _ _ = some _›; simp only [Cheap]; omega)

theorem pocEntries_len (csiz : Nat) (bs : Bytes) (n i : Nat) (es : List (List Nat))
    (h : pocEntries csiz bs n i = some es) : n = 0 ∨ i + n * (5 + 2 * cidx csiz) ≤ bs.length := by
  induction n generalizing i es with
  | zero => exact Or.inl rfl
  | succ n ih =>
    right
    unfold pocEntries at h
    simp only at h
    split at h
    · rename_i rs cs ly re ce pp h1 h2 h3 h4 h5 h6
      have hl := u8_len h6
      split at h
      · rename_i es' hes
        rcases ih _ _ hes with h0 | h0
        · subst h0; rw [Nat.add_mul]; omega
        · rw [Nat.add_mul]; omega
      · cases h
    · cases h

theorem parsePOC_cheap (csiz : Nat) (bs : Bytes) (hb : IsBytes bs) : Cheap bs (·.2) (parsePOC csiz bs) := by
  unfold parsePOC
  have hc := cidx_le csiz
  split
  · simp [Cheap]
  · rename_i length hl
    have hlen := u16_lt hb hl
    simp only
    split
    · simp [Cheap]
    · rename_i hcond
      have hd : (length - 2) / (5 + 2 * cidx csiz) * (5 + 2 * cidx csiz) ≤ length - 2 := Nat.div_mul_le_self _ _
      generalize hn : (length - 2) / (5 + 2 * cidx csiz) = n at hd
      have h7 : n * 7 ≤ n * (5 + 2 * cidx csiz) := Nat.mul_le_mul_left _ (by omega)
      split
      · rename_i es hes
        have := pocEntries_len csiz bs n 2 es hes
        simp only [Cheap]
        rcases this with h0 | h0
        · subst h0; omega
        · omega
      · simp only [Cheap]; omega

theorem parseMCT_cheap (bs : Bytes) (hb : IsBytes bs) : Cheap bs id (parseMCT bs) := by
  unfold parseMCT
  split
  · simp [Cheap]
  · rename_i length hl
    have hlen := u16_lt hb hl
    repeat' split
    all_goals first
      | (simp only [Cheap, id]; omega)
      | (have := rdN_len ‹rdN _ _ _ = some _›; simp only [Cheap, id]; omega)

/-- the `Option`-valued variant of `Cheap` (parseMCC, parseMCO) -/
def CheapO (body : Bytes) (x : Option Nat × Nat) : Prop :=
  match x with
  | (some k, a) => a ≤ 2 * min k body.length
  | (none, a) => a ≤ 196605

theorem mccList_len {bs : Bytes} {i word l : Nat} (h : mccList bs i word = some l) :
    word % 32768 ≤ l ∧ l ≤ 2 * (word % 32768) ∧ i + l ≤ bs.length := by
  unfold mccList at h
  simp only at h
  generalize hcb : (if word / 32768 % 2 = 1 then 2 else 1) = cb at h
  have hcb' : cb = 1 ∨ cb = 2 := by subst hcb; split <;> omega
  by_cases hc : i + cb * (word % 32768) ≤ bs.length
  · rw [if_pos hc] at h
    injection h with h; subst h
    rcases hcb' with h1 | h1 <;> subst h1 <;> omega
  · rw [if_neg hc] at h; cases h

theorem parseMCC_cheap (bs : Bytes) (hb : IsBytes bs) : CheapO bs (parseMCC bs) := by
  unfold parseMCC
  split
  · rename_i length zmcc _ ymcc qmcc _ nmcci hl _ _ _ _ _ hn
    have hlen := u16_lt hb hl
    have hnm := u16_lt hb hn
    split
    · simp [CheapO]
    · simp only
      split
      · simp only [CheapO]; omega
      · rename_i l1 h1
        have hl1 := mccList_len h1
        split
        · simp only [CheapO]; omega
        · rename_i mmcci hm
          have hmm := u16_lt hb hm
          split
          · simp only [CheapO]; omega
          · rename_i l2 h2
            have hl2 := mccList_len h2
            split
            · simp only [CheapO]; omega
            · have h3 := rdN_len ‹rdN bs (14 + l1 + l2) 3 = some _›
              split
              · split
                · have h4 := rdN_len ‹rdN bs (17 + l1 + l2) _ = some _›
                  simp only [CheapO]; omega
                · simp only [CheapO]; omega
              · simp only [CheapO]; omega
  · simp [CheapO]

theorem u8_lt {bs : Bytes} (h : IsBytes bs) {i v : Nat} (hu : u8 bs i = some v) : v ≤ 255 := by
  unfold u8 at hu
  split at hu
  · injection hu with hu; subst hu; have := isBytes_getD h i; omega
  · cases hu

theorem parseMCO_cheap (bs : Bytes) (hb : IsBytes bs) : CheapO bs (parseMCO bs) := by
  unfold parseMCO
  split
  · rename_i length sc hl hs
    have hlen := u16_lt hb hl
    have hsc := u8_lt hb hs
    split
    · simp [CheapO]
    · split
      · simp only [CheapO]; omega
      · have h3 := rdN_len ‹rdN bs 3 sc = some _›
        split
        · split
          · have h4 := rdN_len ‹rdN bs (3 + sc) _ = some _›
            simp only [CheapO]; omega
          · simp only [CheapO]; omega
        · simp only [CheapO]; omega
  · simp [CheapO]

theorem codingParams_len {bs : Bytes} {i scod : Nat} {ps : List Nat} {k : Nat}
    (h : codingParams bs i scod = some (ps, k)) : ps.length = k ∧ i + k ≤ bs.length := by
  unfold codingParams at h
  split at h
  · rename_i levels cbw cbh style transform h1 h2 h3 h4 h5
    have hl := u8_len h5
    repeat' split at h
    all_goals first
      | (cases h; done)
      | (injection h with h; injection h with h1 h2; subst h1; subst h2
         have := rdN_len ‹rdN _ _ _ = some _›
         simp; omega)
      | (injection h with h; injection h with h1 h2; subst h1; subst h2
         simp; omega)
  · cases h

theorem parseCOD_cheap {bs : Bytes} {c : List Nat} {k : Nat} (h : parseCOD bs = some (c, k)) :
    2 * c.length ≤ 2 * min k bs.length := by
  unfold parseCOD at h
  split at h
  · split at h
    · cases h
    · rename_i ps kk hp
      have := codingParams_len hp
      simp only at h
      split at h
      · cases h
      · injection h with h; injection h with h1 h2; subst h1; subst h2
        simp; omega
  · cases h

theorem parseCOC_cheap {csiz : Nat} {bs : Bytes} {comp : Nat} {c : List Nat} {k : Nat}
    (h : parseCOC csiz bs = some (comp, c, k)) : 2 * c.length ≤ 2 * min k bs.length := by
  have hc := cidx_le csiz
  unfold parseCOC at h
  split at h
  · split at h
    · cases h
    · rename_i ps kk hp
      have := codingParams_len hp
      simp only at h
      split at h
      · cases h
      · injection h with h; injection h with _ h; injection h with h1 h2; subst h1; subst h2
        simp; omega
  · cases h

theorem skipSegment_le {bs : Bytes} {k : Nat} (h : skipSegment bs = some k) : k ≤ bs.length := by
  unfold skipSegment at h
  split at h
  · cases h
  · split at h
    · cases h
    · injection h with h; subst h; omega

/-! ### the loop invariant -/

/-- allocated so far + twice what is unread ≤ twice the input -/
def Good (N : Nat) (st : St) (bs : Bytes) : Prop := IsBytes bs ∧ st.allocs.sum + 2 * bs.length ≤ 2 * N

/-- what a turn must achieve -/
def TurnGood (N : Nat) (x : Step St) : Prop :=
  match x with
  | .more st' r => Good N st' r
  | .done st' _ => st'.allocs.sum ≤ 2 * N + 196605

theorem al_sum (st : St) (a : Nat) : (st.al a).allocs.sum = st.allocs.sum + a := by
  simp [St.al, List.sum_append]

/-- a successful segment that allocated `a ≤ 2·min k |body|` and consumed marker + k bytes -/
theorem next_good {N : Nat} {st st1 : St} {bs : Bytes} {k a m : Nat} (hg : Good N st bs) (hm : u16 bs 0 = some m)
    (hs : st1.allocs.sum = st.allocs.sum + a) (ha : a ≤ 2 * min k (bs.drop 2).length) :
    TurnGood N (next st1 bs k) := by
  have hl := u16_len hm
  simp only [next, TurnGood, Good]
  refine ⟨isBytes_drop (isBytes_drop hg.1 2) k, ?_⟩
  have := hg.2
  simp only [List.length_drop] at ha ⊢
  rw [hs]
  omega

theorem done_good {N : Nat} {st st1 : St} {bs : Bytes} {a : Nat} {o : Res} (hg : Good N st bs)
    (hs : st1.allocs.sum = st.allocs.sum + a) (ha : a ≤ 196605) : TurnGood N (.done st1 o) := by
  simp only [TurnGood]
  have := hg.2
  rw [hs]; omega

theorem done_good0 {N : Nat} {st : St} {bs : Bytes} {o : Res} (hg : Good N st bs) : TurnGood N (.done st o) :=
  done_good (a := 0) hg rfl (by omega)

theorem done_good_le {N : Nat} {st st1 : St} {bs : Bytes} {a : Nat} {o : Res} (hg : Good N st bs)
    (hs : st1.allocs.sum = st.allocs.sum + a) (ha : a ≤ 2 * bs.length) : TurnGood N (.done st1 o) := by
  simp only [TurnGood]
  have := hg.2
  rw [hs]; omega

theorem tilesTurn_good {N : Nat} {st : St} {bs : Bytes} (hg : Good N st bs) : TurnGood N (tilesTurn st bs) := by
  unfold tilesTurn
  repeat' split
  all_goals first
    | exact done_good0 hg
    | (simp only [TurnGood, Good]
       refine ⟨isBytes_drop (isBytes_drop hg.1 2) 10, ?_⟩
       have := hg.2
       simp only [List.length_drop]; omega)

theorem mEnd_good {N : Nat} {st : St} {bs : Bytes} (hg : Good N st bs) : TurnGood N (mEnd st bs) := by
  unfold mEnd
  split
  · exact done_good0 hg
  · exact tilesTurn_good (st := { st with phase := .tiles }) hg

section handlers
variable {N : Nat} {st : St} {bs : Bytes} {m : Nat}

theorem mSIZ_good (hg : Good N st bs) (hm : u16 bs 0 = some m) : TurnGood N (mSIZ st bs) := by
  unfold mSIZ
  split
  · exact done_good0 hg
  · have hc := parseSIZ_cheap (bs.drop 2) (isBytes_drop hg.1 2)
    split
    · rename_i he; rw [he] at hc; exact next_good hg hm (al_sum _ _) hc
    · rename_i he; rw [he] at hc; exact done_good hg (al_sum _ _) hc

theorem mCOD_good (hg : Good N st bs) (hm : u16 bs 0 = some m) : TurnGood N (mCOD st bs) := by
  unfold mCOD
  split
  · exact done_good0 hg
  · split
    · rename_i he; exact next_good hg hm (al_sum _ _) (parseCOD_cheap he)
    · exact done_good0 hg

theorem mCOC_good (hg : Good N st bs) (hm : u16 bs 0 = some m) : TurnGood N (mCOC st bs) := by
  unfold mCOC
  split
  · exact done_good0 hg
  · split
    · rename_i he
      split
      · exact next_good hg hm (al_sum _ _) (parseCOC_cheap he)
      · exact done_good0 hg
    · exact done_good0 hg

theorem mQCD_good (hg : Good N st bs) (hm : u16 bs 0 = some m) : TurnGood N (mQCD st bs) := by
  unfold mQCD
  split
  · exact done_good0 hg
  · have hc := parseQCD_cheap (bs.drop 2) (isBytes_drop hg.1 2)
    split
    · rename_i he; rw [he] at hc; exact next_good hg hm (al_sum _ _) hc
    · rename_i he; rw [he] at hc; exact done_good hg (al_sum _ _) hc

theorem cheap_le_len {α : Type} {body : Bytes} {cons : α → Nat} {v : α} {a : Nat}
    (h : Cheap body cons (.ok v, a)) : a ≤ 2 * body.length := by
  simp only [Cheap] at h; omega

theorem mQCC_good (hg : Good N st bs) (hm : u16 bs 0 = some m) : TurnGood N (mQCC st bs) := by
  unfold mQCC
  split
  · exact done_good0 hg
  · have hc := parseQCC_cheap st.csiz (bs.drop 2) (isBytes_drop hg.1 2)
    split
    · rename_i he; rw [he] at hc
      split
      · exact next_good hg hm (al_sum _ _) hc
      · refine done_good_le hg (al_sum _ _) ?_
        have := cheap_le_len hc
        simp only [List.length_drop] at this; omega
    · rename_i he; rw [he] at hc; exact done_good hg (al_sum _ _) hc

theorem mPOC_good (hg : Good N st bs) (hm : u16 bs 0 = some m) : TurnGood N (mPOC st bs) := by
  unfold mPOC
  split
  · exact done_good0 hg
  · have hc := parsePOC_cheap st.csiz (bs.drop 2) (isBytes_drop hg.1 2)
    split
    · rename_i he; rw [he] at hc; exact next_good hg hm (al_sum _ _) hc
    · rename_i he; rw [he] at hc; exact done_good hg (al_sum _ _) hc

theorem mRGN_good (hg : Good N st bs) (hm : u16 bs 0 = some m) : TurnGood N (mRGN st bs) := by
  unfold mRGN
  split
  · exact done_good0 hg
  · have hc := parseRGN_cheap st.csiz (bs.drop 2) (isBytes_drop hg.1 2)
    split
    · rename_i he; rw [he] at hc; exact next_good hg hm (al_sum _ _) hc
    · rename_i he; rw [he] at hc; exact done_good hg (al_sum _ _) hc

theorem mCOM_good (hg : Good N st bs) (hm : u16 bs 0 = some m) : TurnGood N (mCOM st bs) := by
  unfold mCOM
  split
  · exact done_good0 hg
  · have hc := parseCOM_cheap (bs.drop 2) (isBytes_drop hg.1 2)
    split
    · rename_i he; rw [he] at hc; exact next_good hg hm (al_sum _ _) hc
    · rename_i he; rw [he] at hc; exact done_good hg (al_sum _ _) hc

theorem mMCT_good (hg : Good N st bs) (hm : u16 bs 0 = some m) : TurnGood N (mMCT st bs) := by
  unfold mMCT
  split
  · exact done_good0 hg
  · have hc := parseMCT_cheap (bs.drop 2) (isBytes_drop hg.1 2)
    split
    · rename_i he; rw [he] at hc; exact next_good hg hm (al_sum _ _) hc
    · rename_i he; rw [he] at hc; exact done_good hg (al_sum _ _) hc

theorem tMCT_good (hg : Good N st bs) (hm : u16 bs 0 = some m) : TurnGood N (tMCT st bs) := by
  unfold tMCT
  have hc := parseMCT_cheap (bs.drop 2) (isBytes_drop hg.1 2)
  split
  · rename_i he; rw [he] at hc; exact next_good hg hm (al_sum _ _) hc
  · rename_i he; rw [he] at hc; exact done_good hg (al_sum _ _) hc

theorem mMCC_good (hg : Good N st bs) (hm : u16 bs 0 = some m) : TurnGood N (mMCC st bs) := by
  unfold mMCC
  split
  · exact done_good0 hg
  · have hc := parseMCC_cheap (bs.drop 2) (isBytes_drop hg.1 2)
    split
    · rename_i he; rw [he] at hc; exact next_good hg hm (al_sum _ _) hc
    · rename_i he; rw [he] at hc; exact done_good hg (al_sum _ _) hc

theorem tMCC_good (hg : Good N st bs) (hm : u16 bs 0 = some m) : TurnGood N (tMCC st bs) := by
  unfold tMCC
  have hc := parseMCC_cheap (bs.drop 2) (isBytes_drop hg.1 2)
  split
  · rename_i he; rw [he] at hc; exact next_good hg hm (al_sum _ _) hc
  · rename_i he; rw [he] at hc; exact done_good hg (al_sum _ _) hc

theorem mMCO_good (hg : Good N st bs) (hm : u16 bs 0 = some m) : TurnGood N (mMCO st bs) := by
  unfold mMCO
  split
  · exact done_good0 hg
  · have hc := parseMCO_cheap (bs.drop 2) (isBytes_drop hg.1 2)
    split
    · rename_i he; rw [he] at hc; exact next_good hg hm (al_sum _ _) hc
    · rename_i he; rw [he] at hc; exact done_good hg (al_sum _ _) hc

theorem tMCO_good (hg : Good N st bs) (hm : u16 bs 0 = some m) : TurnGood N (tMCO st bs) := by
  unfold tMCO
  have hc := parseMCO_cheap (bs.drop 2) (isBytes_drop hg.1 2)
  split
  · rename_i he; rw [he] at hc; exact next_good hg hm (al_sum _ _) hc
  · rename_i he; rw [he] at hc; exact done_good hg (al_sum _ _) hc

theorem skip_good (hg : Good N st bs) (hm : u16 bs 0 = some m) {k : Nat} : TurnGood N (next st bs k) :=
  next_good (a := 0) hg hm rfl (by omega)

theorem mSkip_good (hg : Good N st bs) (hm : u16 bs 0 = some m) : TurnGood N (mSkip st bs) := by
  unfold mSkip
  split
  · exact done_good0 hg
  · split
    · exact skip_good hg hm
    · exact done_good0 hg

theorem mainTurn_good (hg : Good N st bs) (hm : u16 bs 0 = some m) : TurnGood N (mainTurn st bs m) := by
  unfold mainTurn
  by_cases hc : m = 0xFF90 ∨ m = 0xFFD9
  · rw [if_pos hc]; exact mEnd_good hg
  rw [if_neg hc]; clear hc
  by_cases hc : m = 0xFF51
  · rw [if_pos hc]; exact mSIZ_good hg hm
  rw [if_neg hc]; clear hc
  by_cases hc : m = 0xFF52
  · rw [if_pos hc]; exact mCOD_good hg hm
  rw [if_neg hc]; clear hc
  by_cases hc : m = 0xFF53
  · rw [if_pos hc]; exact mCOC_good hg hm
  rw [if_neg hc]; clear hc
  by_cases hc : m = 0xFF5C
  · rw [if_pos hc]; exact mQCD_good hg hm
  rw [if_neg hc]; clear hc
  by_cases hc : m = 0xFF5D
  · rw [if_pos hc]; exact mQCC_good hg hm
  rw [if_neg hc]; clear hc
  by_cases hc : m = 0xFF5F
  · rw [if_pos hc]; exact mPOC_good hg hm
  rw [if_neg hc]; clear hc
  by_cases hc : m = 0xFF5E
  · rw [if_pos hc]; exact mRGN_good hg hm
  rw [if_neg hc]; clear hc
  by_cases hc : m = 0xFF64
  · rw [if_pos hc]; exact mCOM_good hg hm
  rw [if_neg hc]; clear hc
  by_cases hc : m = 0xFF74
  · rw [if_pos hc]; exact mMCT_good hg hm
  rw [if_neg hc]; clear hc
  by_cases hc : m = 0xFF75
  · rw [if_pos hc]; exact mMCC_good hg hm
  rw [if_neg hc]; clear hc
  by_cases hc : m = 0xFF77
  · rw [if_pos hc]; exact mMCO_good hg hm
  rw [if_neg hc]; clear hc
  exact mSkip_good hg hm

variable {p : Part}

theorem sodTurn_good (hg : Good N st bs) (hm : u16 bs 0 = some m) : TurnGood N (sodTurn st p bs) := by
  have hl := u16_len hm
  unfold sodTurn
  split
  · simp only [TurnGood, Good]
    refine ⟨readTileDataWithLength_isBytes (isBytes_drop hg.1 2) _ _, ?_⟩
    have h1 := readTileDataWithLength_le (bs.drop 2) (p.startUnread - (bs.drop 2).length) p.psot
    have := hg.2
    simp only [List.length_drop] at h1 ⊢; omega
  · exact done_good0 hg

theorem tCOD_good (hg : Good N st bs) (hm : u16 bs 0 = some m) : TurnGood N (tCOD st p bs) := by
  unfold tCOD
  split
  · rename_i he; exact next_good hg hm (al_sum _ _) (parseCOD_cheap he)
  · exact done_good0 hg

theorem tCOC_good (hg : Good N st bs) (hm : u16 bs 0 = some m) : TurnGood N (tCOC st p bs) := by
  unfold tCOC
  split
  · rename_i he
    split
    · exact next_good hg hm (al_sum _ _) (parseCOC_cheap he)
    · exact done_good0 hg
  · exact done_good0 hg

theorem tQCD_good (hg : Good N st bs) (hm : u16 bs 0 = some m) : TurnGood N (tQCD st p bs) := by
  unfold tQCD
  have hc := parseQCD_cheap (bs.drop 2) (isBytes_drop hg.1 2)
  split
  · rename_i he; rw [he] at hc; exact next_good hg hm (al_sum _ _) hc
  · rename_i he; rw [he] at hc; exact done_good hg (al_sum _ _) hc

theorem tQCC_good (hg : Good N st bs) (hm : u16 bs 0 = some m) : TurnGood N (tQCC st p bs) := by
  unfold tQCC
  have hc := parseQCC_cheap st.csiz (bs.drop 2) (isBytes_drop hg.1 2)
  split
  · rename_i he; rw [he] at hc
    split
    · exact next_good hg hm (al_sum _ _) hc
    · refine done_good_le hg (al_sum _ _) ?_
      have := cheap_le_len hc
      simp only [List.length_drop] at this; omega
  · rename_i he; rw [he] at hc; exact done_good hg (al_sum _ _) hc

theorem tPOC_good (hg : Good N st bs) (hm : u16 bs 0 = some m) : TurnGood N (tPOC st p bs) := by
  unfold tPOC
  have hc := parsePOC_cheap st.csiz (bs.drop 2) (isBytes_drop hg.1 2)
  split
  · rename_i he; rw [he] at hc; exact next_good hg hm (al_sum _ _) hc
  · rename_i he; rw [he] at hc; exact done_good hg (al_sum _ _) hc

theorem tRGN_good (hg : Good N st bs) (hm : u16 bs 0 = some m) : TurnGood N (tRGN st p bs) := by
  unfold tRGN
  have hc := parseRGN_cheap st.csiz (bs.drop 2) (isBytes_drop hg.1 2)
  split
  · rename_i he; rw [he] at hc; exact next_good hg hm (al_sum _ _) hc
  · rename_i he; rw [he] at hc; exact done_good hg (al_sum _ _) hc

theorem tSkip_good (hg : Good N st bs) (hm : u16 bs 0 = some m) : TurnGood N (tSkip st bs) := by
  unfold tSkip
  split
  · exact skip_good hg hm
  · exact done_good0 hg

theorem thdrTurn_good (hg : Good N st bs) (hm : u16 bs 0 = some m) : TurnGood N (thdrTurn st p bs m) := by
  unfold thdrTurn
  by_cases hc : m = 0xFF93
  · rw [if_pos hc]; exact sodTurn_good hg hm
  rw [if_neg hc]; clear hc
  by_cases hc : m = 0xFF52
  · rw [if_pos hc]; exact tCOD_good hg hm
  rw [if_neg hc]; clear hc
  by_cases hc : m = 0xFF53
  · rw [if_pos hc]; exact tCOC_good hg hm
  rw [if_neg hc]; clear hc
  by_cases hc : m = 0xFF5C
  · rw [if_pos hc]; exact tQCD_good hg hm
  rw [if_neg hc]; clear hc
  by_cases hc : m = 0xFF5D
  · rw [if_pos hc]; exact tQCC_good hg hm
  rw [if_neg hc]; clear hc
  by_cases hc : m = 0xFF5F
  · rw [if_pos hc]; exact tPOC_good hg hm
  rw [if_neg hc]; clear hc
  by_cases hc : m = 0xFF5E
  · rw [if_pos hc]; exact tRGN_good hg hm
  rw [if_neg hc]; clear hc
  by_cases hc : m = 0xFF74
  · rw [if_pos hc]; exact tMCT_good hg hm
  rw [if_neg hc]; clear hc
  by_cases hc : m = 0xFF75
  · rw [if_pos hc]; exact tMCC_good hg hm
  rw [if_neg hc]; clear hc
  by_cases hc : m = 0xFF77
  · rw [if_pos hc]; exact tMCO_good hg hm
  rw [if_neg hc]; clear hc
  exact tSkip_good hg hm

end handlers

theorem step_good {N : Nat} {st : St} {bs : Bytes} (hg : Good N st bs) : TurnGood N (step st bs) := by
  unfold step
  split
  · exact tilesTurn_good hg
  · split
    · exact done_good0 hg
    · exact mainTurn_good hg ‹_›
  · split
    · exact thdrTurn_good hg ‹_›
    · exact done_good0 hg

/-- C09, JPEG 2000 header parsing: everything `Parser.Parse` allocates while walking the main header
    and all tile-part headers adds up to at most 2·len(input) + 196605 bytes -/
theorem parse_alloc_sum (bs : Bytes) (hb : IsBytes bs) : (parse bs).1.allocs.sum ≤ 2 * bs.length + 196605 := by
  unfold parse
  split
  · simp
  · split
    · simp
    · have h := run_inv step step_lt (Good (bs.drop 2).length) (fun p => p.1.allocs.sum ≤ 2 * (bs.drop 2).length + 196605)
        (fun st b st' r hi hs => by have := step_good hi; rw [hs] at this; exact this)
        (fun st b st' o hi hs => by have := step_good hi; rw [hs] at this; exact this)
        {} (bs.drop 2) ⟨isBytes_drop hb 2, by simp⟩
      simp only [List.length_drop] at h ⊢
      omega

end J2kH
