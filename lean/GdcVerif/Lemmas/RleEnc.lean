import GdcVerif.Model.Rle
/-! PackBits packet streams (`Enc`) and the encoder invariant of `Model/Rle.lean`. -/
namespace Rle

/-- `Enc out d`: `out` is a concatenation of valid PackBits packets (literal 1..128 bytes,
    replicate run 2..128) whose expansion is `d`. -/
inductive Enc : List Byte → List Byte → Prop
  | nil : Enc [] []
  | lit (l out d : List Byte) : 1 ≤ l.length → l.length ≤ 128 → Enc out d →
      Enc ((l.length - 1) :: (l ++ out)) (l ++ d)
  | run (n : Nat) (b : Byte) (out d : List Byte) : 2 ≤ n → n ≤ 128 → Enc out d →
      Enc ((257 - n) :: b :: out) (List.replicate n b ++ d)

theorem Enc.append {o1 d1 o2 d2 : List Byte} (h1 : Enc o1 d1) (h2 : Enc o2 d2) :
    Enc (o1 ++ o2) (d1 ++ d2) := by
  induction h1 with
  | nil => simpa using h2
  | lit l out d hl1 hl2 _ ih =>
    have := Enc.lit l _ _ hl1 hl2 ih
    simpa [List.append_assoc] using this
  | run n b out d hn1 hn2 _ ih =>
    have := Enc.run n b _ _ hn1 hn2 ih
    simpa [List.append_assoc] using this

theorem Enc.shape {o d : List Byte} (h : Enc o d) :
    (o = [] ∧ d = []) ∨ (2 ≤ o.length ∧ 1 ≤ d.length) := by
  induction h with
  | nil => simp
  | lit l out d hl1 hl2 _ _ => right; simp; omega
  | run n b out d hn1 hn2 _ _ => right; simp; omega

theorem Enc.length_le {o d : List Byte} (h : Enc o d) : o.length ≤ 2 * d.length := by
  induction h with
  | nil => simp
  | lit l out d hl1 hl2 _ ih => simp; omega
  | run n b out d hn1 hn2 _ ih => simp; omega

theorem Enc.lit1 (l : List Byte) (h1 : 1 ≤ l.length) (h2 : l.length ≤ 128) :
    Enc ((l.length - 1) :: l) l := by
  simpa using Enc.lit l [] [] h1 h2 Enc.nil

theorem Enc.run1 (n : Nat) (b : Byte) (h1 : 2 ≤ n) (h2 : n ≤ 128) :
    Enc [257 - n, b] (List.replicate n b) := by
  simpa using Enc.run n b [] [] h1 h2 Enc.nil

/-! ### flushLit / flushRun -/

theorem flushLit_spec (thr : Nat) (temp : List Byte) :
    ∃ d, Enc (flushLit thr temp).1 d ∧ d ++ (flushLit thr temp).2 = temp ∧
      (flushLit thr temp).2.length ≤ thr := by
  fun_induction flushLit thr temp with
  | case1 temp h count r ih =>
    obtain ⟨d, hd, hcat, hlen⟩ := ih
    refine ⟨temp.take count ++ d, ?_, ?_, hlen⟩
    · have hc : (temp.take count).length = count := by
        simp [count, List.length_take]
      have := Enc.lit (temp.take count) _ _ (by rw [hc]; simp [count]; omega)
        (by rw [hc]; simp [count]; omega) hd
      rw [hc] at this
      simpa using this
    · simp only [List.append_assoc]
      rw [hcat, List.take_append_drop]
  | case2 temp h =>
    refine ⟨[], Enc.nil, by simp, ?_⟩
    simp only [gt_iff_lt, not_and, Nat.not_lt] at h
    show temp.length ≤ thr
    omega

theorem flushRun_small (n : Nat) (b : Byte) (h1 : 1 ≤ n) (h2 : n ≤ 128) :
    flushRun n b = [(257 - n) % 256, b] := by
  rw [flushRun]
  have h0 : n > 0 := by omega
  simp only [h0, ↓reduceDIte]
  have : min n 128 = n := by omega
  rw [this, Nat.sub_self, flushRun]
  simp

theorem flushRun_spec (n : Nat) (b : Byte) (h1 : 2 ≤ n) (h2 : n ≤ 128) :
    Enc (flushRun n b) (List.replicate n b) := by
  rw [flushRun_small n b (by omega) h2]
  have : (257 - n) % 256 = 257 - n := by omega
  rw [this]
  exact Enc.run1 n b h1 h2

/-! ### encoder invariant -/

/-- the bytes the encoder state still owes the output -/
def St.pending (s : St) : List Byte := s.temp ++ List.replicate s.rep (s.prev.getD 255)

structure St.Ok (s : St) : Prop where
  rep_le : s.rep ≤ 128
  temp_le : s.temp.length ≤ 128
  run_clean : 3 ≤ s.rep → s.temp = []
  no_oob : s.oob = false

theorem St.Ok.init : St.Ok {} := ⟨by simp, by simp, by simp, rfl⟩



theorem St.encode_same (temp : List Byte) (b : Byte) (rep : Nat)
    (hs : St.Ok ⟨temp, some b, rep, false⟩) :
    ∃ d, Enc ((St.mk temp (some b) rep false).encode b).2 d ∧
      d ++ ((St.mk temp (some b) rep false).encode b).1.pending = temp ++ List.replicate rep b ++ [b] ∧
      ((St.mk temp (some b) rep false).encode b).1.Ok := by
  obtain ⟨h1, h2, h3, h4⟩ := hs
  simp only at h1 h2 h3
  unfold St.encode
  simp only [↓reduceIte]
  split
  · next h =>
    have hrep : rep = 2 := by
      rcases Nat.lt_or_ge rep 3 with h' | h'
      · omega
      · have := h3 h'; simp [this] at h
    subst hrep
    obtain ⟨d, hd, hcat, hlen⟩ := flushLit_spec 0 temp
    have h0 : (flushLit 0 temp).2 = [] := by simpa using hlen
    refine ⟨d, hd, ?_, ?_⟩
    · simp [St.pending, h0] at hcat ⊢
      subst hcat
      simp
    · exact ⟨by simp, by simp [h0], by simp [h0], rfl⟩
  · next h =>
    split
    · next h' =>
      have hrep : rep = 128 := by omega
      subst hrep
      have ht := h3 (by omega)
      subst ht
      refine ⟨List.replicate 128 b, ?_, ?_, ?_⟩
      · exact Enc.run1 128 b (by omega) (by omega)
      · simp [St.pending]
      · exact ⟨by simp, by simp, by simp, rfl⟩
    · next h' =>
      refine ⟨[], Enc.nil, ?_, ?_⟩
      · simp [St.pending, List.replicate_succ']
      · refine ⟨by simp; omega, by simpa using h2, ?_, rfl⟩
        intro h3'
        simp only at h3' ⊢
        rcases Nat.lt_or_ge rep 3 with h'' | h''
        · have : temp.length = 0 := by omega
          simpa using this
        · exact h3 h''


theorem St.encode_diff_aux (temp1 out1 d1 : List Byte) (b : Byte) (oob1 : Bool) (ho : oob1 = false)
    (hd1 : Enc out1 d1) :
    let r := flushLit 128 temp1
    ∃ d, Enc (out1 ++ r.1) d ∧
      d ++ (St.mk r.2 (some b) 1 oob1).pending = d1 ++ temp1 ++ [b] ∧
      (St.mk r.2 (some b) 1 oob1).Ok := by
  intro r
  obtain ⟨d, hd, hcat, hlen⟩ := flushLit_spec 128 temp1
  refine ⟨d1 ++ d, hd1.append hd, ?_, ?_⟩
  · simp only [St.pending, r, List.replicate_one, Option.getD_some, List.append_assoc]
    rw [← List.append_assoc d, hcat]
  · exact ⟨by simp, hlen, by simp, ho⟩

theorem St.encode_diff (temp : List Byte) (prev : Option Byte) (b : Byte) (rep : Nat)
    (hp : prev ≠ some b) (hs : St.Ok ⟨temp, prev, rep, false⟩) :
    ∃ d, Enc ((St.mk temp prev rep false).encode b).2 d ∧
      d ++ ((St.mk temp prev rep false).encode b).1.pending =
        temp ++ List.replicate rep (prev.getD 255) ++ [b] ∧
      ((St.mk temp prev rep false).encode b).1.Ok := by
  obtain ⟨h1, h2, h3, h4⟩ := hs
  simp only at h1 h2 h3
  unfold St.encode
  simp only [hp, ↓reduceIte]
  match rep, h1, h3 with
  | 0, _, _ =>
    simpa using St.encode_diff_aux temp [] [] b false rfl Enc.nil
  | 1, _, _ =>
    have hoob : decide (temp.length ≥ 132) = false := by simp; omega
    simpa [St.pushTemp, hoob] using
      St.encode_diff_aux (temp ++ [prev.getD 255]) [] [] b false rfl Enc.nil
  | 2, _, _ =>
    have hoob : decide (temp.length ≥ 132) = false := by simp; omega
    have hoob' : decide (131 ≤ temp.length) = false := by simp; omega
    simpa [St.pushTemp, hoob, hoob', List.replicate_succ] using
      St.encode_diff_aux (temp ++ [prev.getD 255] ++ [prev.getD 255]) [] [] b false rfl Enc.nil
  | n + 3, h1, h3 =>
    have ht := h3 (by omega)
    subst ht
    simpa using
      St.encode_diff_aux [] _ _ b false rfl (flushRun_spec (n + 3) (prev.getD 255) (by omega) h1)

theorem St.encode_spec (s : St) (b : Byte) (hs : s.Ok) :
    ∃ d, Enc (s.encode b).2 d ∧ d ++ (s.encode b).1.pending = s.pending ++ [b] ∧
      (s.encode b).1.Ok := by
  obtain ⟨temp, prev, rep, oob⟩ := s
  have ho : oob = false := hs.no_oob
  subst ho
  by_cases hp : prev = some b
  · subst hp
    simpa [St.pending] using St.encode_same temp b rep hs
  · simpa [St.pending] using St.encode_diff temp prev b rep hp hs

theorem encodeBytes_spec (bs : List Byte) (s : St) (hs : s.Ok) :
    ∃ d, Enc (encodeBytes s bs).2 d ∧ d ++ (encodeBytes s bs).1.pending = s.pending ++ bs ∧
      (encodeBytes s bs).1.Ok := by
  induction bs generalizing s with
  | nil => exact ⟨[], Enc.nil, by simp [encodeBytes], hs⟩
  | cons b bs ih =>
    obtain ⟨d1, hd1, hc1, hok1⟩ := St.encode_spec s b hs
    obtain ⟨d2, hd2, hc2, hok2⟩ := ih (s.encode b).1 hok1
    refine ⟨d1 ++ d2, hd1.append hd2, ?_, hok2⟩
    simp only [encodeBytes, List.append_assoc]
    rw [hc2, ← List.append_assoc, hc1]
    simp

theorem St.flush_spec (s : St) (hs : s.Ok) :
    Enc s.flush.2 s.pending ∧ s.flush.1.oob = false := by
  obtain ⟨temp, prev, rep, oob⟩ := s
  obtain ⟨h1, h2, h3, h4⟩ := hs
  simp only at h1 h2 h3 h4
  subst h4
  unfold St.flush
  simp only [St.pending]
  by_cases hr1 : rep = 1
  · subst hr1
    have hoob : decide (temp.length ≥ 132) = false := by simp; omega
    obtain ⟨d, hd, hcat, hlen⟩ := flushLit_spec 0 (temp ++ [prev.getD 255])
    have h0 : (flushLit 0 (temp ++ [prev.getD 255])).2 = [] := by simpa using hlen
    rw [h0, List.append_nil] at hcat
    subst hcat
    simpa [St.pushTemp, hoob] using hd
  · obtain ⟨d, hd, hcat, hlen⟩ := flushLit_spec 0 temp
    have h0 : (flushLit 0 temp).2 = [] := by simpa using hlen
    rw [h0, List.append_nil] at hcat
    subst hcat
    simp only [hr1, ↓reduceIte, and_true]
    by_cases hr2 : rep ≥ 2
    · simp only [hr2, ↓reduceIte]
      exact hd.append (flushRun_spec rep _ hr2 h1)
    · have : rep = 0 := by omega
      subst this
      simpa using hd

theorem encodeSegment_spec (plane : List Byte) :
    Enc (encodeSegment plane).1 plane ∧ (encodeSegment plane).2 = false := by
  obtain ⟨d, hd, hcat, hok⟩ := encodeBytes_spec plane {} St.Ok.init
  obtain ⟨hf, ho⟩ := St.flush_spec _ hok
  refine ⟨?_, ho⟩
  have : plane = d ++ (encodeBytes {} plane).1.pending := by
    rw [hcat]; simp [St.pending]
  have h2 := hd.append hf
  rw [← this] at h2
  exact h2

end Rle
