import GdcVerif.Model.J2kGlueImage
import GdcVerif.Lemmas.J2kContainer
import GdcVerif.Lemmas.J2kHeaderFields
/-! the parser's walk over the encoder's single-tile-part codestream returns exactly the tile-part body -/
namespace J2kGlue
open JpegC

theorem loop_len (bs : ByteArray) : ∀ (k i : Nat) (r : List UInt8), bs.size - i = k →
    (ByteArray.toList.loop bs i r).length = r.length + k := by
  intro k
  induction k with
  | zero =>
    intro i r h
    rw [ByteArray.toList.loop]
    have : ¬ i < bs.size := by omega
    simp [this]
  | succ k ih =>
    intro i r h
    rw [ByteArray.toList.loop]
    have : i < bs.size := by omega
    simp only [this, if_true]
    rw [ih (i + 1) _ (by omega)]
    simp; omega

theorem byteArray_toList_len (bs : ByteArray) : bs.toList.length = bs.size := by
  unfold ByteArray.toList
  rw [loop_len bs bs.size 0 [] (by omega)]; simp

theorem versionCom_len : "Created by OpenJPEG version 2.5.4".toUTF8.toList.length = 33 := by
  rw [byteArray_toList_len]
  simp [String.toUTF8]
  decide

theorem seekMarker_mono (stop : Nat) : ∀ (f k : Nat) (bs r : List Nat), seekMarker stop f bs = some r →
    seekMarker stop (f + k) bs = some r := by
  intro f
  induction f with
  | zero => intro k bs r h; simp [seekMarker] at h
  | succ f ih =>
    intro k bs r h
    have : f + 1 + k = (f + k) + 1 := by omega
    rw [this]
    unfold seekMarker at h ⊢
    match bs with
    | [] => simp at h
    | [_] => simp at h
    | a :: b :: rest =>
      simp only [] at h ⊢
      by_cases hc : a = 0xFF ∧ b = stop
      · simp only [hc, and_self, if_true] at h ⊢; exact h
      · simp only [hc, if_false] at h ⊢
        match rest with
        | [] => simp at h
        | [_] => simp at h
        | l1 :: l2 :: r2 =>
          simp only [] at h ⊢
          exact ih k _ r h

/-- one marker segment whose marker is not the one looked for is stepped over -/
theorem seekMarker_skip (stop : Nat) (m : Int) (lo : Nat) (data rest : List Nat) (f : Nat)
    (hm : be16 m.toNat = [0xFF, lo]) (hlo : lo ≠ stop) (hlen : data.length + 2 < 65536) :
    seekMarker stop (f + 1) (j2kSegment m data ++ rest) = seekMarker stop f rest := by
  unfold j2kSegment
  rw [hm]
  have hu' : u16Of (↑data.length + 2) = data.length + 2 := by
    unfold u16Of; omega
  rw [hu']
  unfold be16
  simp only [List.cons_append, List.nil_append, List.append_assoc]
  have hc : ¬ ((255 : Nat) = 255 ∧ lo = stop) := fun h => hlo h.2
  have hd : (data.length + 2) / 256 % 256 * 256 + (data.length + 2) % 256 = data.length + 2 := be16_decode _ hlen
  have hdrop : ((data.length + 2) / 256 % 256 :: (data.length + 2) % 256 :: (data ++ rest)).drop (data.length + 2) = rest := by
    simp [List.drop_append]
  have hc' : ¬ (True ∧ lo = stop) := fun h => hlo h.2
  simp only [seekMarker, hc, hc', if_false, hd, hdrop]

theorem seekMarker_hit (stop : Nat) (rest : List Nat) (f : Nat) :
    seekMarker stop (f + 1) (0xFF :: stop :: rest) = some (0xFF :: stop :: rest) := by
  unfold seekMarker; simp

/-- configuration whose header fields fit their length words -/
structure FrameOk (c : ICfg) (body : List Nat) : Prop where
  comps : c.C ≤ 16384
  levels : c.L ≤ 32
  psot : body.length + 14 < 4294967296

theorem mainHeader_walk (c : ICfg) (body : List Nat) (hok : FrameOk c body) (tp : List Nat) (f : Nat) :
    seekMarker 0x90 (f + 5) ((j2kMainHeader c.params (losslessQcdInfo c.params)).drop 2 ++ (0xFF :: 0x90 :: tp)) =
      some (0xFF :: 0x90 :: tp) := by
  have hC := hok.comps
  have hL := hok.levels
  unfold j2kMainHeader
  have hsoc : be16 Gen.C16J2kMarkers.MarkerSOC.toNat = [0xFF, 0x4F] := by decide
  rw [hsoc]
  simp only [List.cons_append, List.nil_append, List.drop_succ_cons, List.drop_zero, List.append_assoc]
  have hcap : writeCAP c.params = [] := by simp [writeCAP, ICfg.params]
  rw [hcap, List.nil_append]
  -- SIZ
  unfold writeSIZ
  rw [show f + 5 = (f + 4) + 1 by omega, seekMarker_skip 0x90 _ 0x51 _ _ _ (by decide) (by decide) (by
    simp [be16, be32, ICfg.params]; omega)]
  -- COD
  unfold writeCOD
  rw [show f + 4 = (f + 3) + 1 by omega, seekMarker_skip 0x90 _ 0x52 _ _ _ (by decide) (by decide) (by
    simp [be16, ICfg.params])]
  -- QCD
  unfold writeQCD
  have hl : c.params.lossless = true := rfl
  simp only [hl, if_true]
  have hq := losslessQcdInfo_len c.params c.L (by simp [ICfg.params])
  rw [show f + 3 = (f + 2) + 1 by omega, seekMarker_skip 0x90 _ 0x5C _ _ _ (by decide) (by decide) (by
    simp only [List.length_cons, List.length_map, hq]; omega)]
  -- COM
  unfold writeVersionCOM
  rw [show f + 2 = (f + 1) + 1 by omega, seekMarker_skip 0x90 _ 0x64 _ _ _ (by decide) (by decide) (by
    simp only [be16, ICfg.params, Bool.false_eq_true, if_false, List.length_append, List.length_cons, List.length_nil,
      List.length_map]
    have := versionCom_len
    omega)]
  exact seekMarker_hit 0x90 tp f

theorem frame_eq (c : ICfg) (body : List Nat) :
    frame c body = some (j2kMainHeader c.params (losslessQcdInfo c.params) ++
      (writeTilePart (classicTilePart 0 [] body) ++ [0xFF, 0xD9])) := by
  unfold frame
  simp [j2kStream, j2kTail, writeTLM, ICfg.params, Outcome.map, writeTileParts]
  decide

theorem mainHeader_soc (c : ICfg) :
    j2kMainHeader c.params (losslessQcdInfo c.params) =
      0xFF :: 0x4F :: (j2kMainHeader c.params (losslessQcdInfo c.params)).drop 2 := by
  unfold j2kMainHeader
  have hsoc : be16 Gen.C16J2kMarkers.MarkerSOC.toNat = [0xFF, 0x4F] := by decide
  rw [hsoc]; rfl

/-- THE PARSER'S WALK over the encoder's codestream returns exactly the tile-part body: SOC, four main-header
    segments stepped over by their length words, SOT with Lsot = 10, SOD, then Psot − 14 bytes of tile data; the
    EOC marker stays unread -/
theorem unframe_frame (c : ICfg) (body : List Nat) (hok : FrameOk c body) :
    ∃ stream, frame c body = some stream ∧ unframe stream = some body := by
  refine ⟨_, frame_eq c body, ?_⟩
  have hp := hok.psot
  -- the tile-part, byte by byte
  have htp : writeTilePart (classicTilePart 0 [] body) =
      0xFF :: 0x90 :: 0 :: 10 :: 0 :: 0 :: (be32 (body.length + 14) ++ (0 :: 1 :: 0xFF :: 0x93 :: body)) := by
    have hu : u32Of (↑(classicTilePart 0 [] body).psot) = body.length + 14 := by
      simp only [TilePart.psot, classicTilePart, List.length_nil]
      unfold u32Of; omega
    unfold writeTilePart
    rw [hu]
    simp [classicTilePart, be16, u16Of, byteOf]
    decide
  rw [mainHeader_soc c, htp]
  simp only [List.cons_append]
  unfold unframe
  simp only []
  -- main header
  have hwalk := mainHeader_walk c body hok
    (0 :: 10 :: 0 :: 0 :: (be32 (body.length + 14) ++ (0 :: 1 :: 0xFF :: 0x93 :: body)) ++ [0xFF, 0xD9]) 0
  have hlen5 : ∃ k, ((j2kMainHeader c.params (losslessQcdInfo c.params)).drop 2 ++
      (0xFF :: 0x90 :: 0 :: 10 :: 0 :: 0 :: (be32 (body.length + 14) ++ (0 :: 1 :: 0xFF :: 0x93 :: body)) ++ [0xFF, 0xD9])).length = 0 + 5 + k := by
    refine ⟨_, (Nat.add_sub_cancel' ?_).symm⟩
    simp [be32]; omega
  obtain ⟨k, hk⟩ := hlen5
  have hseek := seekMarker_mono 0x90 (0 + 5) k _ _ hwalk
  simp only [List.cons_append, List.append_assoc] at hseek hk ⊢
  rw [hk, hseek]
  simp only []
  -- SOT fields
  have h10 : ¬ ((255 :: 144 :: 0 :: 10 :: 0 :: 0 :: (be32 (body.length + 14) ++ (0 :: 1 :: 255 :: 147 :: (body ++ [255, 217])))).getD 2 0 * 256 +
      (255 :: 144 :: 0 :: 10 :: 0 :: 0 :: (be32 (body.length + 14) ++ (0 :: 1 :: 255 :: 147 :: (body ++ [255, 217])))).getD 3 0 ≠ 10) := by
    simp
  simp only [h10, if_false]
  have hps : rd32 (255 :: 144 :: 0 :: 10 :: 0 :: 0 :: (be32 (body.length + 14) ++ (0 :: 1 :: 255 :: 147 :: (body ++ [255, 217])))) 6 =
      body.length + 14 := by
    unfold rd32 be32
    simp only [List.cons_append, List.nil_append, List.getD_cons_succ, List.getD_cons_zero]
    exact be32_decode _ hp
  rw [hps]
  have hdrop : (255 :: 144 :: 0 :: 10 :: 0 :: 0 :: (be32 (body.length + 14) ++ (0 :: 1 :: 255 :: 147 :: (body ++ [255, 217])))).drop 12 =
      255 :: 147 :: (body ++ [255, 217]) := by simp [be32]
  rw [hdrop]
  have hsl : (255 :: 144 :: 0 :: 10 :: 0 :: 0 :: (be32 (body.length + 14) ++ (0 :: 1 :: 255 :: 147 :: (body ++ [255, 217])))).length =
      (body.length + 15) + 1 := by simp [be32]
  rw [hsl, seekMarker_hit 0x93 (body ++ [255, 217]) (body.length + 15)]
  simp only [List.drop_succ_cons, List.drop_zero, List.length_append, List.length_cons, List.length_nil]
  have hcond : body.length + 14 ≠ 0 ∧ body.length + 15 + 1 - (body.length + (0 + 1 + 1)) ≤ body.length + 14 ∧
      body.length + 14 - (body.length + 15 + 1 - (body.length + (0 + 1 + 1))) ≤ body.length + (0 + 1 + 1) := by omega
  simp only [hcond, and_self, if_true]
  have : body.length + 14 - (body.length + 15 + 1 - (body.length + (0 + 1 + 1))) = body.length := by omega
  rw [this, List.take_left]
  rw [if_pos ⟨by omega, trivial⟩]

end J2kGlue
