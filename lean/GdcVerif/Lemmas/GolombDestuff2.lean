import GdcVerif.Lemmas.GolombDestuff
/-! Content exactness of the `GolombWriter` model, part 2: `WriteBits`, `Flush`, whole write sequences. -/
namespace Golomb

/-- `WriteBits(v, n)` (v < 2^n, n ≤ 32) appends the `n` bits of `v` to what the written bytes and the
    buffer hold — also through its overflow branch with one or two intermediate flushes -/
theorem rest_writeBits (w : Writer) (B : List Bool) (v n : Nat) (h : Rest w B) (hv : v < 2 ^ n) (hn : n ≤ 32) :
    Rest (writeBits w v (n : Int)) (B ++ bitsOf v n) := by
  obtain ⟨P, hK, ⟨hJ, hW, hD, _⟩, hfree⟩ := h
  have hv32 : v < M32 := Nat.lt_of_lt_of_le hv (by rw [m32_eq]; exact Nat.pow_le_pow_right (by decide) hn)
  have hKfinal := K_writeBits w hK v n hv32 ⟨by omega, by omega⟩
  have hPlen : P.length ≤ 32 := by have := hK.2.1; omega
  have hD' : destuff w.out false ++ (P ++ bitsOf v n) = B ++ bitsOf v n := by rw [← List.append_assoc, hD]
  have hWr := win_restrict w.buf P (bitsOf v n) hW
  have hlenQ : ((P ++ bitsOf v n).length : Int) = (P.length : Int) + n := by simp [length_bitsOf]
  have hspec0 : VSpec (P ++ bitsOf v n) (P.length : Int) v n := by
    have := vspec_drop P v n 0 (by omega)
    simpa using this
  unfold writeBits at hKfinal ⊢
  have hJ0 : J (setFree w (w.free - n)) := J_setFree w hJ _ (by omega) (by omega)
  have hf0 : (setFree w (w.free - n)).free = w.free - n := rfl
  have hb0 : (setFree w (w.free - n)).buf = w.buf := rfl
  have ho0 : (setFree w (w.free - n)).out = w.out := rfl
  dsimp only at hKfinal ⊢
  split
  · -- no overflow
    rename_i hge0
    have hge := hge0
    rw [hf0] at hge
    simp only [hge0, if_true] at hKfinal
    have hfe : w.free - (n : Int) = 32 - ((P ++ bitsOf v n).length : Int) := by rw [hlenQ]; omega
    refine ⟨P ++ bitsOf v n, hKfinal, ⟨hKfinal.1, ?_, hD', by decide⟩, ?_⟩
    · show Win (w.buf ||| shl32 v (w.free - n)) _ 32
      rw [hfe]
      exact win_or_shl w.buf _ P.length P.length v n hWr hPlen (by omega) hspec0 hv (by rw [← hfe]; exact hge)
    · show w.free - n = _
      exact hfe
  · rename_i hlt
    rw [hf0] at hlt
    have hlt' : ¬ (setFree w (w.free - n)).free ≥ 0 := by rw [hf0]; exact hlt
    simp only [hlt', if_false] at hKfinal
    -- first OR + flush
    have hke : -(setFree w (w.free - n)).free = ((P ++ bitsOf v n).length : Int) - 32 := by rw [hf0, hlenQ]; omega
    have hX1 : Xinv (orBuf (setFree w (w.free - n)) (shr32 v (-(setFree w (w.free - n)).free)))
        (P ++ bitsOf v n) 32 (B ++ bitsOf v n) := by
      refine ⟨J_orBuf _ hJ0 _ (shr32_lt _ _ hv32) (fun i hi => by rw [hf0] at hi; omega), ?_, hD', by decide⟩
      show Win (w.buf ||| shr32 v (-(setFree w (w.free - n)).free)) _ 32
      rw [hke]
      exact win_or_shr w.buf _ P.length P.length v n hWr hPlen (by omega) hspec0 hv hn (by rw [← hke, hf0]; omega)
    have hfree1 : (orBuf (setFree w (w.free - n)) (shr32 v (-(setFree w (w.free - n)).free))).free = w.free - n := rfl
    generalize orBuf (setFree w (w.free - n)) (shr32 v (-(setFree w (w.free - n)).free)) = w1 at *
    obtain ⟨s, hs8, hX2, _, hall2⟩ := X_flushN 4 w1 (P ++ bitsOf v n) 32 (B ++ bitsOf v n) hX1 (by decide)
      (by have : (P.length : Int) + n > 32 := by omega
          simp [length_bitsOf]; omega)
    obtain ⟨hfree2, hs7⟩ := hall2 (by rw [hfree1]; push_cast; omega)
    rw [← flush_eq] at hX2 hfree2
    generalize flush w1 = w2 at *
    have hspec2 := vspec_drop P v n s (by omega)
    have hlen2 : (((P ++ bitsOf v n).drop s).length : Int) = (P.length : Int) + n - s := by
      simp [List.length_drop, length_bitsOf]; omega
    split
    · -- still negative: second OR + flush
      rename_i hneg
      simp only [hneg, if_true] at hKfinal
      have hke2 : -w2.free = (((P ++ bitsOf v n).drop s).length : Int) - 32 := by rw [hlen2]; omega
      have hX3 : Xinv (orBuf w2 (shr32 v (-w2.free))) ((P ++ bitsOf v n).drop s) 32 (B ++ bitsOf v n) := by
        refine ⟨J_orBuf _ hX2.1 _ (shr32_lt _ _ hv32) (fun i hi => by omega), ?_, hX2.2.2.1, by decide⟩
        show Win (w2.buf ||| shr32 v (-w2.free)) _ 32
        rw [hke2]
        exact win_or_shr w2.buf _ (32 - s) ((P.length : Int) - s) v n hX2.2.1 (by omega) (by omega) hspec2 hv hn
          (by rw [← hke2]; omega)
      have hfree3 : (orBuf w2 (shr32 v (-w2.free))).free = w2.free := rfl
      generalize orBuf w2 (shr32 v (-w2.free)) = w3 at *
      obtain ⟨s2, hs28, hX4, _, hall4⟩ := X_flushN 4 w3 ((P ++ bitsOf v n).drop s) 32 (B ++ bitsOf v n) hX3 (by decide)
        (by have := hlen2; omega)
      obtain ⟨hfree4, hs27⟩ := hall4 (by rw [hfree3]; push_cast; omega)
      rw [← flush_eq] at hX4 hfree4
      generalize flush w3 = w4 at *
      have hdd : ((P ++ bitsOf v n).drop s).drop s2 = (P ++ bitsOf v n).drop (s + s2) := by rw [List.drop_drop]
      rw [hdd] at hX4
      have hspec4 := vspec_drop P v n (s + s2) (by omega)
      have hlen4 : (((P ++ bitsOf v n).drop (s + s2)).length : Int) = (P.length : Int) + n - (s + s2 : Nat) := by
        simp [List.length_drop, length_bitsOf]; omega
      have hfe4 : w4.free = 32 - (((P ++ bitsOf v n).drop (s + s2)).length : Int) := by rw [hlen4]; push_cast; omega
      refine ⟨(P ++ bitsOf v n).drop (s + s2), hKfinal, ⟨hKfinal.1, ?_, hX4.2.2.1, by decide⟩, hfe4⟩
      show Win (w4.buf ||| shl32 v w4.free) _ 32
      rw [hfe4]
      have hcast : (((s + s2 : Nat)) : Int) = (s : Int) + s2 := by push_cast; rfl
      exact win_or_shl w4.buf _ (32 - s2) ((P.length : Int) - (s + s2 : Nat)) v n hX4.2.1 (by omega)
        (by rw [hcast]; omega) hspec4 hv (by rw [← hfe4]; omega)
    · rename_i hnn
      simp only [hnn, if_false] at hKfinal
      have hfe2 : w2.free = 32 - (((P ++ bitsOf v n).drop s).length : Int) := by rw [hlen2]; omega
      refine ⟨(P ++ bitsOf v n).drop s, hKfinal, ⟨hKfinal.1, ?_, hX2.2.2.1, by decide⟩, hfe2⟩
      show Win (w2.buf ||| shl32 v w2.free) _ 32
      rw [hfe2]
      exact win_or_shl w2.buf _ (32 - s) ((P.length : Int) - s) v n hX2.2.1 (by omega) (by omega) hspec2 hv
        (by rw [← hfe2]; omega)

end Golomb

namespace Golomb

/-- well-formed `WriteBits` calls as the scans issue them: `count ∈ 0..32`, `value < 2^count` -/
def WritesFit (ws : List (Nat × Int)) : Prop := ∀ p ∈ ws, 0 ≤ p.2 ∧ p.2 ≤ 32 ∧ p.1 < 2 ^ p.2.toNat

theorem rest_writeAll : ∀ (ws : List (Nat × Int)) (w : Writer) (B : List Bool), Rest w B → WritesFit ws →
    Rest (writeAll w ws) (B ++ writesBits ws)
  | [], w, B, h, _ => by simpa [writeAll, writesBits] using h
  | p :: rest, w, B, h, hf => by
    obtain ⟨h0, h32, hv⟩ := hf p (by simp)
    have e : p.2 = ((p.2.toNat : Nat) : Int) := by omega
    have h1 := rest_writeBits w B p.1 p.2.toNat h hv (by omega)
    rw [← e] at h1
    have := rest_writeAll rest (writeBits w p.1 p.2) _ h1 (fun q hq => hf q (by simp [hq]))
    have e2 : writesBits (p :: rest) = bitsOf p.1 p.2.toNat ++ writesBits rest := by simp [writesBits]
    rw [e2, ← List.append_assoc]
    exact this

theorem pg_pad (P : List Bool) (r j : Nat) : pg (P ++ List.replicate r false) j = pg P j := by
  by_cases h : j < P.length
  · exact pg_append_left P _ j h
  · rw [pg_append_right P _ j (by omega), pg_zero_beyond P j (by omega)]
    unfold pg
    simp only [List.getD_eq_getElem?_getD, List.getElem?_replicate]
    split <;> rfl

theorem drop_pad (P : List Bool) (r s : Nat) (h : P.length ≤ s) :
    (P ++ List.replicate r false).drop s = List.replicate (P.length + r - s) false := by
  have e : s = P.length + (s - P.length) := by omega
  rw [e, ← List.drop_drop, List.drop_left, List.drop_replicate]
  congr 1; omega

theorem win_pad (buf : Nat) (P : List Bool) (r m : Nat) (hw : Win buf P m) : Win buf (P ++ List.replicate r false) m := by
  intro q hq; rw [hw q hq, pg_pad]

/-- a window all of whose hidden bits are zero is a full window -/
theorem win_extend (buf : Nat) (Q : List Bool) (m : Nat) (hw : Win buf Q m) (hz : ∀ j, m ≤ j → pg Q j = false) :
    Win buf Q 32 := by
  intro q hq
  rw [hw q hq]
  have h32 : decide (31 - q < 32) = true := decide_eq_true (by omega)
  rw [h32]
  by_cases hj : 31 - q < m
  · rw [decide_eq_true hj]
  · rw [decide_eq_false hj, hz _ (by omega)]; rfl

theorem append_zeros_cancel (X B : List Bool) (r : Nat) (hr : r ≤ 96)
    (h : X ++ List.replicate r false = B ++ List.replicate 96 false) : X = B ++ List.replicate (96 - r) false := by
  have e : List.replicate 96 false = List.replicate (96 - r) false ++ List.replicate r false := by
    rw [List.replicate_append_replicate]; congr 1; omega
  rw [e, ← List.append_assoc] at h
  exact List.append_cancel_right h

/-- `Flush()`: everything written so far comes out, followed by zero bits only -/
theorem finish_destuff (w : Writer) (B : List Bool) (h : Rest w B) :
    ∃ k, destuff (finish w).out false = B ++ List.replicate k false := by
  obtain ⟨P, hK, ⟨hJ, hW, hD, _⟩, hfree⟩ := h
  have hPlen : P.length ≤ 32 := by have := hK.2.1; omega
  have hX0 : Xinv w (P ++ List.replicate 96 false) 32 (B ++ List.replicate 96 false) :=
    ⟨hJ, win_pad _ _ _ _ hW, by rw [← List.append_assoc, hD], by decide⟩
  obtain ⟨s1, hs1, hX1, hle1, _⟩ := X_flushN 4 w _ 32 _ hX0 (by decide) (by simp)
  have hb := flushN_free_bounds 4 w hK.2.1 (by have := hK.2.2; omega)
  rw [← flush_eq] at hX1 hle1 hb
  have h28 : 28 ≤ (flush w).free := by have := hb.1; push_cast at this; omega
  have hzero1 : ∀ j, 32 - s1 ≤ j → pg ((P ++ List.replicate 96 false).drop s1) j = false := by
    intro j hj
    rw [pg_drop, pg_pad, pg_zero_beyond P _ (by omega)]
  have hX1' : Xinv (flush w) ((P ++ List.replicate 96 false).drop s1) 32 (B ++ List.replicate 96 false) :=
    ⟨hX1.1, win_extend _ _ _ hX1.2.1 hzero1, hX1.2.2.1, by decide⟩
  unfold finish
  dsimp only
  generalize flush w = w1 at *
  -- the state before the second flush: same buffer and bytes, possibly fewer free bits
  obtain ⟨w2, hw2, hX2, hfree2le, hfree2ge⟩ : ∃ w2, (if w1.ff = true then writeBits w1 0 (Int.tmod (w1.free - 1) 8) else w1) = w2 ∧
      Xinv w2 ((P ++ List.replicate 96 false).drop s1) 32 (B ++ List.replicate 96 false) ∧ w2.free ≤ w1.free ∧ 25 ≤ w2.free := by
    by_cases hff : w1.ff = true
    · simp only [hff, if_true]
      have hle := hX1.1.2.2.2 hff
      have hpad : Int.tmod (w1.free - 1) 8 = w1.free - 25 := by
        rw [Int.tmod_eq_emod_of_nonneg (by omega)]; omega
      rw [hpad]
      have hw : writeBits w1 0 (w1.free - 25) = orBuf (setFree w1 25) (shl32 0 25) := by
        unfold writeBits
        have e : w1.free - (w1.free - 25) = 25 := by omega
        dsimp only
        rw [e]
        have : (setFree w1 25).free ≥ 0 := by show (25 : Int) ≥ 0; decide
        simp only [this, if_true]
        rfl
      rw [hw]
      refine ⟨_, rfl, ⟨J_orBuf _ (J_setFree w1 hX1.1 25 (by omega) (by decide)) _ (shl32_lt _ _)
        (fun i hi => shl32_low _ _ i hi), ?_, hX1'.2.2.1, by decide⟩, by show (25 : Int) ≤ w1.free; omega, by show (25 : Int) ≤ 25; decide⟩
      have hz : shl32 0 25 = 0 := by decide
      show Win (w1.buf ||| shl32 0 25) _ 32
      rw [hz, Nat.or_zero]
      exact hX1'.2.1
    · simp only [hff, if_false]
      exact ⟨w1, rfl, hX1', by omega, by omega⟩
  rw [hw2]
  obtain ⟨s2, hs2, hX3, hle3, _⟩ := X_flushN 4 w2 _ 32 _ hX2 (by decide) (by simp [List.length_drop]; omega)
  have hb3 := flushN_free_bounds 4 w2 (by omega) (by have := hb.2; omega)
  rw [← flush_eq] at hX3 hle3 hb3
  have h32 : 32 ≤ (flush w2).free := by have := hb3.1; push_cast at this; omega
  have hcover : P.length ≤ s1 + s2 := by omega
  have hD3 := hX3.2.2.1
  rw [List.drop_drop, drop_pad P 96 (s1 + s2) hcover] at hD3
  exact ⟨_, append_zeros_cancel _ _ _ (by omega) hD3⟩

/-- EXACTNESS of the writer: the bytes of any well-formed write sequence followed by `Flush()`,
    un-stuffed (every byte 8 bits, the byte after 0xFF only its low 7), are exactly the written bits
    followed by zero padding -/
theorem writer_destuff (ws : List (Nat × Int)) (hf : WritesFit ws) :
    ∃ k, destuff (finish (writeAll Writer.new ws)).out false = writesBits ws ++ List.replicate k false := by
  have := finish_destuff _ _ (rest_writeAll ws Writer.new [] rest_new hf)
  simpa using this

end Golomb
