import GdcVerif.Lemmas.T1Lock
import GdcVerif.Model.T1Pipe
/-!
  C20 / pipeline configuration, decoder side: the values the OpenJPEG reconstruction stores.  A sample coded down to
  plane `l` (decoder plane `l + 1`) holds `sign · (2·⌊|v|/2^l⌋·2^l + 2^l)` — twice the truncated magnitude plus a
  half bit — and 0 while it is insignificant.
-/
namespace T1
open Gen

/-- the OpenJPEG-mode reconstruction of `v` after coding down to plane `l` -/
def ojv (l : Nat) (v : Int) : Int :=
  if trN l v.natAbs = 0 then 0
  else if v < 0 then -((2 * trN l v.natAbs + 2 ^ l : Nat) : Int) else ((2 * trN l v.natAbs + 2 ^ l : Nat) : Int)

theorem ojv_zero (p : Nat) (v : Int) (h : v.natAbs / 2 ^ p = 0) : ojv p v = 0 := by
  unfold ojv; rw [trN_zero p _ h, if_pos rfl]

theorem pow_le_2_30 (q : Nat) (hq : q ≤ 30) : 2 ^ q ≤ 1073741824 :=
  calc 2 ^ q ≤ 2 ^ 30 := Nat.pow_le_pow_right (by omega) hq
    _ = 1073741824 := rfl

theorem oneO (q : Nat) (hq : q ≤ 30) : Go.wrap32 ((2 : Int) ^ q) = ((2 ^ q : Nat) : Int) := by
  have hP := pow_le_2_30 q hq
  have e : (2 : Int) ^ q = ((2 ^ q : Nat) : Int) := (cast_pow2 q).symm
  rw [e]
  generalize 2 ^ q = P at hP
  unfold Go.wrap32
  omega

theorem halfO (q : Nat) : Go.shr ((2 ^ (q + 1) : Nat) : Int) 1 = ((2 ^ q : Nat) : Int) := by
  unfold Go.shr
  rw [show (1 : Int).toNat = 1 from rfl, Int.shiftRight_eq_div_pow, Nat.pow_succ]
  generalize 2 ^ q = P
  omega

theorem orO (q : Nat) (hq : q ≤ 29) : Go.or ((2 ^ (q + 1) : Nat) : Int) ((2 ^ q : Nat) : Int) = ((2 ^ (q + 1) + 2 ^ q : Nat) : Int) := by
  have h : q = 0 ∨ q = 1 ∨ q = 2 ∨ q = 3 ∨ q = 4 ∨ q = 5 ∨ q = 6 ∨ q = 7 ∨ q = 8 ∨ q = 9 ∨ q = 10 ∨ q = 11 ∨ q = 12 ∨ q = 13 ∨
      q = 14 ∨ q = 15 ∨ q = 16 ∨ q = 17 ∨ q = 18 ∨ q = 19 ∨ q = 20 ∨ q = 21 ∨ q = 22 ∨ q = 23 ∨ q = 24 ∨ q = 25 ∨ q = 26 ∨
      q = 27 ∨ q = 28 ∨ q = 29 := by omega
  rcases h with rfl | rfl | rfl | rfl | rfl | rfl | rfl | rfl | rfl | rfl | rfl | rfl | rfl | rfl | rfl | rfl | rfl | rfl | rfl |
    rfl | rfl | rfl | rfl | rfl | rfl | rfl | rfl | rfl | rfl | rfl <;> decide

theorem pow_bound (v : Int) (bp : Nat) (hM : v.natAbs < 536870912) (hP : 2 ^ bp ≤ v.natAbs) : bp ≤ 28 := by
  rcases Nat.lt_or_ge bp 29 with h | h
  · omega
  · have : 2 ^ 29 ≤ 2 ^ bp := Nat.pow_le_pow_right (by omega) h
    simp only [Nat.reducePow] at this
    omega

/-- the value `decSignO` stores at decoder plane `bp + 1` -/
theorem sign_valO (v : Int) (bp l : Nat) (hM : v.natAbs < 536870912) (hl : l = bp ∨ l = bp + 1)
    (h : v.natAbs / 2 ^ l = 0) (hb : magBit v bp = 1) :
    sigValO (bp + 1) (if v < 0 then 1 else 0 : Nat) = ojv bp v := by
  rw [magBit_eq] at hb
  have h1 := newsig _ bp l hl h hb
  have hP : (2 : Nat) ^ bp ≤ v.natAbs := by
    have := Nat.div_mul_le_self v.natAbs (2 ^ bp); rw [h1, Nat.one_mul] at this; exact this
  have hbp := pow_bound v bp hM hP
  have hPpos := Nat.two_pow_pos bp
  have hsum : 2 ^ (bp + 1) + 2 ^ bp = 2 * (1 * 2 ^ bp) + 2 ^ bp := by rw [Nat.pow_succ]; omega
  unfold sigValO ojv trN
  simp only []
  rw [h1, oneO (bp + 1) (by omega), halfO, orO bp (by omega), if_neg (show ¬(1 * 2 ^ bp = 0) by omega), hsum]
  generalize 2 * (1 * 2 ^ bp) + 2 ^ bp = X at *
  have hX : X < 2147483648 := by
    have : X = 3 * 2 ^ bp := by omega
    omega
  by_cases hv : v < 0
  · simp only [hv, if_true]
    rw [if_pos (by decide)]
    exact wrap32_id _ (by omega) (by omega)
  · simp only [hv, if_false]
    rw [if_neg (by decide)]

/-- the value `decMagRefO` stores at decoder plane `bp + 1` -/
theorem refine_valO (v : Int) (bp : Nat) (hM : v.natAbs < 536870912) (h : v.natAbs / 2 ^ (bp + 1) ≠ 0) :
    refineO (ojv (bp + 1) v) (bp + 1) (magBit v bp) = ojv bp v := by
  rw [magBit_eq]
  have hs := trN_step bp v.natAbs
  have hle := trN_le bp v.natAbs
  have hle1 := trN_le (bp + 1) v.natAbs
  have hpos := trN_pos (bp + 1) _ h
  have hPpos := Nat.two_pow_pos bp
  have hunit : 2 ^ (bp + 1) ≤ trN (bp + 1) v.natAbs := by
    unfold trN
    have : 1 ≤ v.natAbs / 2 ^ (bp + 1) := Nat.pos_of_ne_zero h
    calc 2 ^ (bp + 1) = 1 * 2 ^ (bp + 1) := by rw [Nat.one_mul]
      _ ≤ v.natAbs / 2 ^ (bp + 1) * 2 ^ (bp + 1) := Nat.mul_le_mul_right _ this
  have hbp := pow_bound v (bp + 1) hM (by omega)
  have hp1 : 2 ^ (bp + 1) = 2 * 2 ^ bp := by rw [Nat.pow_succ]; omega
  have hb2 : v.natAbs / 2 ^ bp % 2 ≤ 1 := by omega
  unfold refineO
  simp only []
  rw [oneO (bp + 1) (by omega), halfO]
  unfold ojv
  rw [hp1] at hunit ⊢
  generalize v.natAbs / 2 ^ bp % 2 = b at *
  generalize trN (bp + 1) v.natAbs = T1 at *
  generalize trN bp v.natAbs = T0 at *
  generalize 2 ^ bp = P at *
  rw [if_neg (show ¬(T1 = 0) by omega)]
  rcases (show b = 0 ∨ b = 1 by omega) with rfl | rfl
  · have hT : T0 = T1 := by omega
    subst hT
    rw [if_neg (show ¬(T0 = 0) by omega)]
    by_cases hv : v < 0
    · simp only [hv, if_true]
      rw [if_pos (by simp; omega)]
      rw [wrap32_id _ (by omega) (by omega)]
      omega
    · simp only [hv, if_false]
      rw [if_neg (by simp; omega)]
      rw [wrap32_id _ (by omega) (by omega)]
      omega
  · have hT : T0 = T1 + P := by omega
    subst hT
    rw [if_neg (show ¬(T1 + P = 0) by omega)]
    by_cases hv : v < 0
    · simp only [hv, if_true]
      rw [if_neg (by simp; omega)]
      rw [wrap32_id _ (by omega) (by omega)]
      omega
    · simp only [hv, if_false]
      rw [if_pos (by simp; omega)]
      rw [wrap32_id _ (by omega) (by omega)]
      omega

/-- halving the fully decoded OpenJPEG-mode value gives the coefficient back -/
theorem halve_ojv (v : Int) : halveT (ojv 0 v) = v := by
  unfold halveT ojv
  rw [trN_0]
  by_cases h0 : v.natAbs = 0
  · rw [if_pos h0]
    have : v = 0 := by omega
    rw [this]; rfl
  · rw [if_neg h0]
    by_cases hv : v < 0
    · rw [if_pos hv]; simp only [Nat.pow_zero]; rw [if_pos (by omega)]; omega
    · rw [if_neg hv]; simp only [Nat.pow_zero]; rw [if_neg (by omega)]; omega

end T1
