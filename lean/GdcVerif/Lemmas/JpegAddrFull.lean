import GdcVerif.Model.JpegAddr
import GdcVerif.Lemmas.JpegAddr
/-! The list-level step of C15: in the repaired geometry every pixel shows the designated data unit. -/
namespace JpegAddr
open List

theorem range_flat (a b : Nat) :
    (range a).flatMap (fun i => (range b).map (fun j => i * b + j)) = range (a * b) := by
  induction a with
  | zero => simp
  | succ n ih =>
    rw [List.range_succ, List.flatMap_append, ih, Nat.succ_mul, List.range_add]
    simp

theorem range_flat' (a b p : Nat) :
    (range a).flatMap (fun i => (range b).map (fun j => (p * a + i) * b + j)) =
      (range (a * b)).map (fun k => p * (a * b) + k) := by
  rw [← range_flat a b, List.map_flatMap]
  congr 1; funext i
  rw [List.map_map]
  congr 1; funext j
  simp only [Function.comp]
  rw [Nat.add_mul, Nat.mul_assoc, Nat.add_assoc]

/-- ordinal of a block in the interleaved decode order -/
def ord (C H V : Nat) (b : Nat × Nat) : Nat :=
  ((b.2 / V) * C + b.1 / H) * (H * V) + (b.2 % V) * H + b.1 % H

theorem divmod (q b r : Nat) (hr : r < b) : (q * b + r) / b = q ∧ (q * b + r) % b = r := by
  have hb : 0 < b := by omega
  constructor
  · rw [Nat.mul_comm, Nat.mul_add_div hb, Nat.div_eq_of_lt hr]; rfl
  · rw [Nat.mul_comm, Nat.mul_add_mod, Nat.mod_eq_of_lt hr]

theorem ord_blk (C H V my mx v h : Nat) (hh : h < H) (hv : v < V) :
    ord C H V (mx * H + h, my * V + v) = ((my * C + mx) * V + v) * H + h := by
  simp only [ord, (divmod mx H h hh).1, (divmod mx H h hh).2, (divmod my V v hv).1, (divmod my V v hv).2]
  rw [Nat.add_mul ((my * C + mx) * V) v H, Nat.mul_assoc (my * C + mx) V H, Nat.mul_comm V H]

theorem walk_map_ord (f : Frame) (c : Comp) :
    (walk f c).map (ord (mcuCols f) c.H c.V) = range (mcuRows f * (mcuCols f * (c.V * c.H))) := by
  have inner : ∀ my mx, ((range c.V).flatMap fun v => (range c.H).map fun h => (mx * c.H + h, my * c.V + v)).map (ord (mcuCols f) c.H c.V)
      = (range (c.V * c.H)).map (fun k => (my * mcuCols f + mx) * (c.V * c.H) + k) := by
    intro my mx
    rw [← range_flat' c.V c.H (my * mcuCols f + mx), List.map_flatMap]
    rw [List.flatMap_def, List.flatMap_def]
    congr 1
    apply List.map_congr_left
    intro v hv
    rw [List.map_map]
    apply List.map_congr_left
    intro h hh
    simp only [Function.comp]
    exact ord_blk _ _ _ _ _ _ _ (List.mem_range.1 hh) (List.mem_range.1 hv)
  have mid : ∀ my, ((range (mcuCols f)).flatMap fun mx => (range c.V).flatMap fun v => (range c.H).map fun h => (mx * c.H + h, my * c.V + v)).map (ord (mcuCols f) c.H c.V)
      = (range (mcuCols f * (c.V * c.H))).map (fun k => my * (mcuCols f * (c.V * c.H)) + k) := by
    intro my
    rw [List.map_flatMap, ← range_flat' (mcuCols f) (c.V * c.H) my]
    congr 1; funext mx
    exact inner my mx
  unfold walk
  rw [List.map_flatMap, ← range_flat (mcuRows f) (mcuCols f * (c.V * c.H))]
  congr 1; funext my
  rw [mid my]

theorem walk_length (f : Frame) (c : Comp) : (walk f c).length = mcuRows f * (mcuCols f * (c.V * c.H)) := by
  have := congrArg List.length (walk_map_ord f c)
  simpa using this

theorem walk_ord_getElem (f : Frame) (c : Comp) (k : Nat) (hk : k < (walk f c).length) :
    ord (mcuCols f) c.H c.V (walk f c)[k] = k := by
  have h := walk_map_ord f c
  have h2 : ((walk f c).map (ord (mcuCols f) c.H c.V))[k]? = (range (mcuRows f * (mcuCols f * (c.V * c.H))))[k]? := by rw [h]
  rw [walk_length] at hk
  simp [List.getElem?_map, List.getElem?_range hk] at h2
  obtain ⟨a, b, hab, hb⟩ := h2
  have : (walk f c)[k]? = some (walk f c)[k] := List.getElem?_eq_getElem (by rw [walk_length]; exact hk)
  rw [this] at hab
  have e : (walk f c)[k] = (a, b) := Option.some.inj hab
  rw [e]; exact hb

/-- last element of the filtered index list when exactly one position satisfies `p` -/
theorem last_unique {α : Type} (p : α → Bool) : ∀ (l : List α) (n k : Nat) (hk : k < l.length),
    p l[k] = true → (∀ j (hj : j < l.length), p l[j] = true → j = k) →
    ((l.zipIdx n).filter (fun q => p q.1)).getLast?.map (·.2) = some (n + k)
  | [], _, k, hk, _, _ => by simp at hk
  | a :: t, n, 0, _, hp, hu => by
    have ht : ∀ x ∈ t.zipIdx (n + 1), p x.1 = false := by
      intro x hx
      obtain ⟨i, hi, rfl⟩ := List.mem_iff_getElem.1 hx
      simp only [List.length_zipIdx] at hi
      simp only [List.getElem_zipIdx]
      cases hpx : p t[i] with
      | false => rfl
      | true =>
        have := hu (i + 1) (by simp; omega) (by simpa using hpx)
        omega
    have hf : (t.zipIdx (n + 1)).filter (fun q => p q.1) = [] := by
      rw [List.filter_eq_nil_iff]; intro x hx; simp [ht x hx]
    have hp' : p a = true := by simpa using hp
    simp [List.zipIdx_cons, List.filter_cons, hp', hf]
  | a :: t, n, k + 1, hk, hp, hu => by
    have hpa : p a = false := by
      cases hpa : p a with
      | false => rfl
      | true => have := hu 0 (by simp) (by simpa using hpa); omega
    have ih := last_unique p t (n + 1) k (by simpa using hk) (by simpa using hp)
      (by
        intro j hj hpj
        have := hu (j + 1) (by simp; omega) (by simpa using hpj)
        omega)
    simp only [List.zipIdx_cons, List.filter_cons, hpa]
    simp only [Bool.false_eq_true, if_false]
    rw [ih]; congr 1; omega

theorem foldl_max_ge (l : List Comp) (g : Comp → Nat) (init : Nat) :
    init ≤ l.foldl (fun m c => if g c > m then g c else m) init := by
  induction l generalizing init with
  | nil => simp
  | cons a t ih =>
    simp only [List.foldl_cons]
    split
    · exact Nat.le_trans (by omega) (ih _)
    · exact ih _

theorem maxH_pos (f : Frame) : 0 < maxH f := by
  have := foldl_max_ge f.comps (·.H) 1; simp only [maxH]; omega
theorem maxV_pos (f : Frame) : 0 < maxV f := by
  have := foldl_max_ge f.comps (·.V) 1; simp only [maxV]; omega

/-- the full addressing theorem for the repaired geometry -/
theorem shown_eq_spec (f : Frame) (c : Comp) (hH : 0 < c.H) (hV : 0 < c.V)
    (x y : Nat) (hx : x < f.w) (hy : y < f.h) :
    shown f c x y = (specOrdinal f c x y : Int) := by
  have hmh := maxH_pos f
  have hmv := maxV_pos f
  -- the designated block
  let bx := x * c.H / maxH f / 8
  let by' := y * c.V / maxV f / 8
  let cw := mcuCols f * c.H
  let ch := mcuRows f * c.V
  have hbx : bx < cw := by
    have h1 : bx < compWidthOld f c := by
      simp only [bx, compWidthOld, Nat.div_div_eq_div_mul]
      exact div_lt_divCeil _ _ _ (by omega) (Nat.mul_lt_mul_of_pos_right hx hH)
    have h2 : compWidthOld f c ≤ mcuCols f * c.H := by
      simp only [compWidthOld, mcuCols]; exact divCeil_mul_le _ _ _ (by omega)
    omega
  have hby : by' < ch := by
    have h1 : by' < compHeightOld f c := by
      simp only [by', compHeightOld, Nat.div_div_eq_div_mul]
      exact div_lt_divCeil _ _ _ (by omega) (Nat.mul_lt_mul_of_pos_right hy hV)
    have h2 : compHeightOld f c ≤ mcuRows f * c.V := by
      simp only [compHeightOld, mcuRows]; exact divCeil_mul_le _ _ _ (by omega)
    omega
  have hmem : (bx, by') ∈ walk f c := walk_mem_of_bounds f c bx by' hH hV hbx hby
  obtain ⟨k, hk, hkb⟩ := List.mem_iff_getElem.1 hmem
  have hkord : k = specOrdinal f c x y := by
    have := walk_ord_getElem f c k hk
    rw [hkb] at this
    simp only [ord] at this
    simp only [specOrdinal]
    exact this.symm
  -- the address read
  let r := (y * c.V / maxV f % 8) * 8 + x * c.H / maxH f % 8
  have hr : r < 64 := by
    have := Nat.mod_lt (y * c.V / maxV f) (by decide : 0 < 8)
    have := Nat.mod_lt (x * c.H / maxH f) (by decide : 0 < 8)
    simp only [r]; omega
  have hread : readAddrWith (maxH f) (maxV f) cw ch c x y = some (blockOffset cw bx by' + r) := by
    simp only [readAddrWith]
    rw [if_pos ⟨hbx, hby⟩]
    simp only [r, bx, by', Nat.add_assoc]
  -- the predicate of lastWriter
  let p : Nat × Nat → Bool := fun b =>
    match writeOffset cw (cw * ch * 64) b with
    | some off => decide (off ≤ blockOffset cw bx by' + r ∧ blockOffset cw bx by' + r < off + 64)
    | none => false
  have hw : ∀ b ∈ walk f c, writeOffset cw (cw * ch * 64) b = some (blockOffset cw b.1 b.2) := by
    intro b hb
    have hbd := mem_walk_bounds f c b hb
    exact writeOffset_some _ _ b (inblock_lt cw ch b.1 b.2 hbd.1 hbd.2 63 (by omega))
  have hpk : p (walk f c)[k] = true := by
    simp only [p, hkb, hw _ hmem]
    simp; omega
  have huniq : ∀ j (hj : j < (walk f c).length), p (walk f c)[j] = true → j = k := by
    intro j hj hpj
    have hjm : (walk f c)[j] ∈ walk f c := List.getElem_mem hj
    simp only [p, hw _ hjm] at hpj
    simp at hpj
    have hoff : blockOffset cw (walk f c)[j].1 (walk f c)[j].2 = blockOffset cw bx by' := by
      simp only [blockOffset] at hpj ⊢; omega
    have hb1 := (mem_walk_bounds f c _ hjm).1
    have := offset_inj cw _ _ _ _ hb1 hbx hoff
    have hjb : (walk f c)[j] = (bx, by') := Prod.ext this.1 this.2
    have h1 := walk_ord_getElem f c j hj
    have h2 := walk_ord_getElem f c k hk
    rw [hjb] at h1; rw [hkb] at h2
    omega
  have hlast : lastWriter f cw (cw * ch * 64) c (blockOffset cw bx by' + r) = some k := by
    have h1 := last_unique p (walk f c) 0 k hk hpk huniq
    simp only [Nat.zero_add] at h1
    have h2 : lastWriter f cw (cw * ch * 64) c (blockOffset cw bx by' + r) =
        (((walk f c).zipIdx 0).filter (fun q => p q.1)).getLast?.map (·.2) := rfl
    rw [h2, h1]
  simp only [shown]
  show (match readAddrWith (maxH f) (maxV f) cw ch c x y with
    | none => (-1 : Int)
    | some a => match lastWriter f cw (cw * ch * 64) c a with
      | none => -1
      | some k => (k : Int)) = _
  rw [hread]; simp only []; rw [hlast]; simp only []; rw [hkord]

end JpegAddr
