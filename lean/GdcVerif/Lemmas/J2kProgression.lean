import GdcVerif.Model.J2kProgression
import GdcVerif.Lemmas.J2kTileRect
namespace J2kProg
open J2k

theorem filterMap_true {α β : Type} (l : List α) (f : α → β) :
    (l.filterMap fun a => if true = true then some (f a) else none) = l.map f := by
  induction l with
  | nil => rfl
  | cons a t ih => simp [List.filterMap_cons]

theorem filter_true' {α : Type} (l : List α) : l.filter (fun _ => true) = l := by
  induction l with
  | nil => rfl
  | cons a t ih => simp [List.filter_cons, ih]

/-- the loops of the two files generate the same packet sequence from the same maps (every listed precinct has
    its bands on the encoder side) -/
theorem loops_agree (nL nR nC : Nat) (idx : Nat → Nat → List Nat) (m : PosMaps) :
    encLRCP nL nR nC idx (fun _ _ _ => true) = decLRCP nL nR nC idx ∧
    encRLCP nL nR nC idx (fun _ _ _ => true) = decRLCP nL nR nC idx ∧
    encRPCL nL nR nC m (fun _ _ _ => true) = decRPCL nL nR nC m ∧
    encPCRL nL nR nC m (fun _ _ _ => true) = decPCRL nL nR nC m ∧
    encCPRL nL nR nC m (fun _ _ _ => true) = decCPRL nL nR nC m := by
  refine ⟨?_, ?_, ?_, ?_, ?_⟩
  · unfold encLRCP decLRCP; simp [filter_true']
  · unfold encRLCP decRLCP; simp [filter_true']
  · unfold encRPCL decRPCL; simp
  · unfold encPCRL decPCRL; simp
  · unfold encCPRL decCPRL; simp

/-- the SIZ segment encoder.go writeSIZ writes (all offsets 0) -/
def sizOf (W H TW TH C : Int) : Gen.J2kTileClamp.SIZSegment :=
  { Rsiz := 0, Xsiz := W, Ysiz := H, XOsiz := 0, YOsiz := 0, XTsiz := TW, YTsiz := TH, XTOsiz := 0, YTOsiz := 0, Csiz := C }

theorem ceilDiv_one (x : Int) (h : 0 ≤ x) : Gen.J2kTileClamp.ceilDiv x 1 = x := by
  unfold Gen.J2kTileClamp.ceilDiv
  simp [h]

theorem default_precinct (e : Gen.J2kTiles.Encoder) (r : Int)
    (h : ¬ (e.params.PrecinctWidth > 0 ∨ e.params.PrecinctHeight > 0))
    (h0 : 0 ≤ e.params.PrecinctWidth) (h1 : 0 ≤ e.params.PrecinctHeight) :
    Gen.J2kTiles.Encoder.getPrecinctSize e r = (Go.shl 1 15, Go.shl 1 15) := by
  have hw : e.params.PrecinctWidth = 0 := by omega
  have hh : e.params.PrecinctHeight = 0 := by omega
  have hl : J2kAux.log2 (Go.shl 1 15) = 15 := by decide
  have hl2 : J2kAux.log2 32768 = 15 := by decide
  unfold Gen.J2kTiles.Encoder.getPrecinctSize Gen.J2kTiles.Encoder.getPrecinctSizeExponents
  simp [hw, hh, hl2, Go.uwrap8, Go.shl]

/-- THE INPUTS AGREE: for every tile of every grid the component bounds, the sampling and the precinct sizes that
    the encoder hands to its PacketEncoder are the ones TileDecoder.Decode hands to the PacketDecoder -/
theorem inputs_agree' (e : Gen.J2kTiles.Encoder) (nC : Nat) (W H TW TH t : Int) (idx : Nat → Nat → List Nat)
    (hW : 1 ≤ W) (hH : 1 ≤ H) (hTW : 1 ≤ TW) (hTH : 1 ≤ TH) (h0 : 0 ≤ t)
    (hlt : t < encNumTiles W TW * encNumTiles H TH)
    (hp0 : 0 ≤ e.params.PrecinctWidth) (hp1 : 0 ≤ e.params.PrecinctHeight) :
    encInputs e nC (encTileBounds W H TW TH t) idx =
      decInputs e nC (Gen.J2kTileClamp.NewTileDecoder ⟨t⟩ (sizOf W H TW TH nC) false) idx := by
  have hok : SizOk (sizOf W H TW TH nC) := by unfold SizOk sizOf; simp; omega
  have hn : encNumTiles W TW * encNumTiles H TH = b3NumX (sizOf W H TW TH nC) * b3NumY (sizOf W H TW TH nC) := by
    unfold encNumTiles b3NumX b3NumY sizOf
    simp only [Int.sub_zero]
    rw [tdiv_eq_ediv (by omega), tdiv_eq_ediv (by omega)]
  have hasm := tileDecoder_rect_eq_assembler (sizOf W H TW TH nC) t false hok h0 (by rw [← hn]; exact hlt)
  have henc := J2k.enc_eq_dec' W H TW TH t hW hH hTW hTH h0 (by
    unfold encNumTiles at hlt; rw [tdiv_eq_ediv (by omega), tdiv_eq_ediv (by omega)] at hlt; exact hlt)
  have hlay : layoutOf (sizOf W H TW TH nC) = decLayout W H TW TH := rfl
  simp only [] at hasm
  rw [hlay] at hasm
  have hrect : encTileBounds W H TW TH t =
      ((Gen.J2kTileClamp.NewTileDecoder ⟨t⟩ (sizOf W H TW TH nC) false).tileX0,
       (Gen.J2kTileClamp.NewTileDecoder ⟨t⟩ (sizOf W H TW TH nC) false).tileY0,
       (Gen.J2kTileClamp.NewTileDecoder ⟨t⟩ (sizOf W H TW TH nC) false).tileX1,
       (Gen.J2kTileClamp.NewTileDecoder ⟨t⟩ (sizOf W H TW TH nC) false).tileY1) := by
    rw [henc]; unfold decTileBounds; rw [hasm]; simp [sizOf]
  have hin := Gen.J2kTileClamp.tile_inside_image ⟨t⟩ (sizOf W H TW TH nC) false
  generalize Gen.J2kTileClamp.NewTileDecoder ⟨t⟩ (sizOf W H TW TH nC) false = td at hrect hin
  have hx0 : 0 ≤ td.tileX0 := by have := hin.1; simpa [sizOf] using this
  have hy0 : 0 ≤ td.tileY0 := by have := hin.2.1; simpa [sizOf] using this
  have hb := J2k.rect_in_image' W H TW TH t hW hH hTW hTH h0 (by
    unfold encNumTiles at hlt; rw [tdiv_eq_ediv (by omega), tdiv_eq_ediv (by omega)] at hlt; exact hlt)
  have hre : encTileBounds W H TW TH t = rectOf W H TW TH t := by
    rw [J2k.encTileBounds_eq W H TW TH t hW hTW h0]; rfl
  simp only [] at hb
  rw [← hre, hrect] at hb
  simp only [] at hb
  unfold encInputs decInputs
  rw [hrect]
  simp only []
  rw [ceilDiv_one _ hx0, ceilDiv_one _ hy0, ceilDiv_one _ (by omega), ceilDiv_one _ (by omega)]
  congr 1
  funext r
  by_cases hc : e.params.PrecinctWidth > 0 ∨ e.params.PrecinctHeight > 0
  · simp only [hc, if_true]
    unfold Gen.J2kTiles.Encoder.getPrecinctSize
    rfl
  · simp only [hc, if_false]
    exact default_precinct e r hc hp0 hp1

/-! ### buildPositionMaps: nothing lost, nothing invented; composition of (8) and (9) -/

theorem mem_insertPos (p x : Pos) (l : List Pos) : x ∈ insertPos p l ↔ x = p ∨ x ∈ l := by
  induction l with
  | nil => simp [insertPos]
  | cons q t ih =>
    unfold insertPos
    by_cases h : (p == q) = true
    · have hpq : p = q := by simpa using h
      simp only [h, if_true, List.mem_cons]
      subst hpq
      constructor
      · intro hx; exact Or.inr hx
      · intro hx; cases hx with
        | inl h1 => exact Or.inl h1
        | inr h1 => exact h1
    · simp only [h, Bool.false_eq_true, if_false]
      by_cases h2 : posLt p q = true
      · simp only [h2, if_true, List.mem_cons]
      · simp only [h2, Bool.false_eq_true, if_false, List.mem_cons, ih]
        constructor
        · intro hx; cases hx with
          | inl a => exact Or.inr (Or.inl a)
          | inr a => cases a with
            | inl b => exact Or.inl b
            | inr b => exact Or.inr (Or.inr b)
        · intro hx; cases hx with
          | inl a => exact Or.inr (Or.inl a)
          | inr a => cases a with
            | inl b => exact Or.inl b
            | inr b => exact Or.inr (Or.inr b)

/-- the sorted position list has exactly the positions of the entries -/
theorem mem_sortedPositions (x : Pos) (l : List Pos) : x ∈ sortedPositions l ↔ x ∈ l := by
  induction l with
  | nil => simp [sortedPositions]
  | cons a t ih =>
    have : sortedPositions (a :: t) = insertPos a (sortedPositions t) := rfl
    rw [this, mem_insertPos, ih, List.mem_cons]

/-- same inputs ⇒ same packet sequence, all five progressions (buildPositionMaps is one shared function) -/
theorem sequence_same_inputs (prog nL : Nat) (i : Inputs) : encSequence prog nL i = decSequence prog nL i := by
  have h := loops_agree nL i.numResolutions i.numComponents i.indices (buildMaps i)
  unfold encSequence decSequence
  match prog with
  | 0 => exact h.1
  | 1 => exact h.2.1
  | 2 => exact h.2.2.1
  | 3 => exact h.2.2.2.1
  | _ + 4 => exact h.2.2.2.2

end J2kProg
