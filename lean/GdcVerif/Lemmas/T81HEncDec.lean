import GdcVerif.Spec.T81HEnc
import GdcVerif.Lemmas.T81HStream
import GdcVerif.Lemmas.JllStreamDec
import GdcVerif.Lemmas.JllStreamEnc
/-!
  C13 / C02 at stream level, DECODER direction: the MODEL decoder (`JLL.Stream.decode`, i.e.
  `lossless.Decode` / `lossless14sv1.Decode`) decodes every stream the INDEPENDENT T.81 Annex H
  encoder `T81H.specEncode` (`Spec/T81HEnc.lean`) produces — arbitrary valid Huffman tables in
  several DHT segments at destinations 0..3 (later segments replace earlier ones), arbitrary
  assignment of destinations to components.

  * P1  `bitsMsb_eq`, `packBits_spec`, `packBits_stuffOk`, `packBits_bits`, `packBits_pending`
        the spec's bit packer (B.1.1.5 stuffing, 1-padding) in the model's vocabulary
  * P2  `encDiff_diff`, `symOfDiff_spec`, `symOf_spec`, `encodeDiffBits_symWrite`, `readDiff_spec`
        one difference: Table H.2 / F.1.2.1 additional bits = the model's (category, amplitude);
        `Decode` + `ReadBits` read them back
  * P3  `decSample_spec`, `sv1DecSample_spec`, `decPredicted_px`, `px_cell`
        one sample: reconstruction and prediction
  * P4  `parseDHT_one`, `loop_dhts`, `installTables_get`, `loop_header`, `compTables_of`
        the header walk: DHT* SOF3 SOS, per-component table = `cfgTable`'s choice
  * P5  `specFold_ok`, `decodeScanSel_spec`     the scan with a table per component
  * P6  `decode_specEncode_gen`, `decode_specEncode`, `decode_specEncode_sv1`   the theorems
        hypotheses: `CfgOk` (configuration), `ImgOk` (image); satisfiable with different
        destinations and tables per component (`exCfg`, examples at the end)
-/
namespace T81H
open JLL

/-! ## P1: bits -/

theorem bitsMsb_eq (v : Nat) : ∀ n : Nat, bitsMsb v n = bitsOf v n := by
  intro n
  induction n with
  | zero => rfl
  | succ n ih =>
    unfold bitsMsb at ih ⊢
    rw [List.range_succ_eq_map, List.map_cons, List.map_map, bitsOf, ← ih]
    congr 1
    apply List.map_congr_left
    intro i _
    simp only [Function.comp, Nat.succ_eq_add_one]
    congr 1
    omega

theorem byteOfBits_eq (bs : List Bool) : byteOfBits bs = ofBits bs := by
  unfold byteOfBits
  rw [foldl_bits]; simp

theorem packBits_nil : packBits [] = [] := by rw [packBits]

theorem packBits_cons (b : Bool) (r : List Bool) :
    packBits (b :: r) =
      stuff (ofBits ((b :: r).take 8 ++ List.replicate (8 - ((b :: r).take 8).length) true)) ++
        packBits ((b :: r).drop 8) := by
  rw [packBits]
  simp only [byteOfBits_eq, stuff]

/-- the spec packer: bytes are `stuff` images of raw bytes whose bits are the input followed by
    fewer than 8 one-bits -/
theorem packBits_spec : ∀ (n : Nat) (bs : List Bool), bs.length ≤ n →
    ∃ (raw : List Nat) (pad : List Bool), packBits bs = raw.flatMap stuff ∧ (∀ b ∈ raw, b < 256) ∧
      pad.length < 8 ∧ (∀ b ∈ pad, b = true) ∧ raw.flatMap (fun b => bitsOf b 8) = bs ++ pad := by
  intro n
  induction n with
  | zero =>
    intro bs hl
    have : bs = [] := List.eq_nil_of_length_eq_zero (by omega)
    subst this
    exact ⟨[], [], by simp [packBits_nil], by simp, by simp, by simp, by simp⟩
  | succ n ih =>
    intro bs hl
    match bs, hl with
    | [], _ => exact ⟨[], [], by simp [packBits_nil], by simp, by simp, by simp, by simp⟩
    | b :: r, hl =>
      rw [packBits_cons]
      generalize hch : (b :: r).take 8 ++ List.replicate (8 - ((b :: r).take 8).length) true = ch
      have hchl : ch.length = 8 := by
        rw [← hch]; simp only [List.length_append, List.length_take, List.length_replicate]; omega
      have hlt : ofBits ch < 256 := by
        have := ofBits_lt ch; rw [hchl] at this; exact this
      have hbo : bitsOf (ofBits ch) 8 = ch := by
        have := bitsOf_ofBits ch; rw [hchl] at this; exact this
      by_cases h8 : 8 ≤ (b :: r).length
      · obtain ⟨raw, pad, h1, h2, h3, h4, h5⟩ := ih ((b :: r).drop 8) (by
          simp only [List.length_drop, List.length_cons] at hl ⊢; omega)
        refine ⟨ofBits ch :: raw, pad, by rw [h1]; rfl, ?_, h3, h4, ?_⟩
        · intro x hx
          rcases List.mem_cons.1 hx with hx | hx
          · rw [hx]; exact hlt
          · exact h2 x hx
        · rw [List.flatMap_cons, hbo, h5, ← hch]
          have : 8 - ((b :: r).take 8).length = 0 := by
            simp only [List.length_take]; omega
          rw [this, List.replicate_zero, List.append_nil, ← List.append_assoc, List.take_append_drop]
      · have hd : (b :: r).drop 8 = [] := List.drop_eq_nil_of_le (by omega)
        have ht : (b :: r).take 8 = b :: r := List.take_of_length_le (by omega)
        refine ⟨[ofBits ch], List.replicate (8 - (b :: r).length) true, ?_, ?_, ?_, ?_, ?_⟩
        · rw [hd, packBits_nil]; simp
        · intro x hx
          simp only [List.mem_singleton] at hx
          rw [hx]; exact hlt
        · simp only [List.length_replicate, List.length_cons]; omega
        · intro x hx; exact (List.mem_replicate.1 hx).2
        · simp only [List.flatMap_cons, List.flatMap_nil, List.append_nil, hbo]
          rw [← hch, ht]

theorem packBits_stuffOk (bs : List Bool) : StuffOk (packBits bs) = true := by
  obtain ⟨raw, pad, h1, h2, _⟩ := packBits_spec bs.length bs (Nat.le_refl _)
  rw [h1]; exact stuffOk_flatMap_stuff raw h2

theorem packBits_bits (bs : List Bool) :
    ∃ pad : List Bool, pad.length < 8 ∧ (∀ b ∈ pad, b = true) ∧
      (unstuff (packBits bs)).flatMap (fun b => bitsOf b 8) = bs ++ pad := by
  obtain ⟨raw, pad, h1, _, h3, h4, h5⟩ := packBits_spec bs.length bs (Nat.le_refl _)
  exact ⟨pad, h3, h4, by rw [h1, unstuff_flatMap_stuff, h5]⟩

theorem packBits_pending (bs : List Bool) :
    ∃ pad : List Bool, pad.length < 8 ∧ (∀ b ∈ pad, b = true) ∧
      pending { data := packBits bs } = bs ++ pad := by
  obtain ⟨pad, h1, h2, h3⟩ := packBits_bits bs
  refine ⟨pad, h1, h2, ?_⟩
  simp only [pending, bitsOf, List.nil_append]
  exact h3

/-! ## P2: one symbol -/

/-- the model's int16 difference is the spec's Table H.2 representative, 32768 ↦ −32768 -/
theorem encDiff_diff (x p : Int) :
    encDiff x p = if diff x p = 32768 then -32768 else diff x p := by
  simp only [encDiff, Gen.JpegLossless.losslessDifference, Go.wrap16, diff]
  split <;> split <;> omega

theorem natAbs_pow_bounds (d : Int) (s : Nat) (h1 : 2 ^ (s - 1) ≤ d.natAbs) (h2 : d.natAbs < 2 ^ s) :
    (2:Int) ^ (s - 1) ≤ (if d < 0 then -d else d) ∧ (if d < 0 then -d else d) < (2:Int) ^ s := by
  have e1 : ((2 ^ (s - 1) : Nat) : Int) = (2:Int) ^ (s - 1) := by simp
  have e2 : ((2 ^ s : Nat) : Int) = (2:Int) ^ s := by simp
  split <;> omega

/-- the model's (category, amplitude) of the int16 difference is the spec's (SSSS, additional bits) -/
theorem symOfDiff_spec (d : Int) (hlo : -32767 ≤ d) (hhi : d ≤ 32768) :
    symOfDiff (if d = 32768 then -32768 else d) = (ssss d, (extraBits d).1) ∧
      (extraBits d).2 = (if 0 < ssss d ∧ ssss d ≠ 16 then ssss d else 0) := by
  by_cases hm : d = 32768
  · subst hm; decide
  rw [if_neg hm]
  by_cases h0 : d = 0
  · subst h0; decide
  have habs : 1 ≤ d.natAbs ∧ d.natAbs < 2 ^ 17 ∧ d.natAbs ≤ 32767 := by omega
  obtain ⟨k1, k2, k3⟩ := ssssAux_spec 17 d.natAbs habs.1 habs.2.1
  have hs : ssss d = ssssAux d.natAbs 17 := rfl
  rw [← hs] at k1 k2 k3
  have h15 : Go.shl (-1) 15 = -32768 := by decide
  have h16 : (2:Int) ^ 16 = 65536 := by decide
  obtain ⟨k, hk1, hk16, h3, h4, he⟩ := encodeCategory_spec d h0 (by omega) (by omega)
  obtain ⟨b1, b2⟩ := natAbs_pow_bounds d (ssss d) k2 k3
  have hks : k = ssss d := bitlen_unique _ k (ssss d) h3 h4 b1 b2 hk1 k1
  have hle : ssss d ≤ 15 := by
    refine Decidable.byContradiction fun hn => ?_
    have : (2:Nat) ^ 15 ≤ 2 ^ (ssss d - 1) := Nat.pow_le_pow_right (by decide) (by omega)
    omega
  have hs0 : ¬ (ssss d = 0 ∨ ssss d = 16) := by omega
  have hx : extraBits d = (if d > 0 then ((d % 2 ^ ssss d).toNat, ssss d)
      else (((d - 1) % 2 ^ ssss d).toNat, ssss d)) := by
    unfold extraBits; simp only; rw [if_neg hs0]
  rw [hx]
  clear hx
  generalize ssss d = s at *
  subst hks
  have hsym : symOfDiff d = (k, (if d > 0 then d else (2:Int) ^ k + d - 1).toNat) := by
    simp only [symOfDiff, encodeLosslessDifference, h15]
    rw [if_neg (by omega), he]
    simp
  rw [hsym]
  have hpk1 : (2:Int) ^ k = 2 * (2:Int) ^ (k - 1) := by
    rw [← pow_succ']; congr 1; omega
  by_cases hp : d > 0
  · rw [if_pos hp, if_pos hp]
    rw [if_neg (by omega)] at h3 h4
    have e : d % (2:Int) ^ k = d := Int.emod_eq_of_lt (by omega) h4
    rw [e]
    exact ⟨rfl, by rw [if_pos (by omega)]⟩
  · rw [if_neg hp, if_neg hp]
    rw [if_pos (by omega)] at h3 h4
    have e : (d - 1) % (2:Int) ^ k = d - 1 + (2:Int) ^ k := by
      rw [← Int.add_emod_right]
      exact Int.emod_eq_of_lt (by omega) (by omega)
    rw [e]
    refine ⟨?_, by rw [if_pos (by omega)]⟩
    congr 2; omega

theorem symOf_spec (x p : Int) :
    symOfDiff (encDiff x p) = (ssss (diff x p), (extraBits (diff x p)).1) ∧
      (extraBits (diff x p)).2 = (if 0 < ssss (diff x p) ∧ ssss (diff x p) ≠ 16 then ssss (diff x p) else 0) := by
  rw [encDiff_diff]
  exact symOfDiff_spec _ (diff_range x p).1 (diff_range x p).2

/-- what the spec's per-difference encoder emits, in the model's vocabulary: the `WriteBits` image
    of the model's symbol, under the codes `BuildHuffmanCodes` assigns for the same (BITS, HUFFVAL) -/
theorem encodeDiffBits_symWrite (bits : List Nat) (values : Array Nat) (hv : ValidTable bits values = true)
    (x p : Int) (b : List Bool)
    (he : encodeDiffBits (codeTable bits values.toList) (diff x p) = some b) :
    (symOfDiff (encDiff x p)).1 ∈ values.toList ∧
      b = (symWrite (buildHuffmanCodes bits values) (symOfDiff (encDiff x p))).flatMap (fun w => bitsOf w.1 w.2) := by
  obtain ⟨hsym, hn⟩ := symOf_spec x p
  generalize diff x p = d at *
  unfold encodeDiffBits at he
  cases hf : (codeTable bits values.toList).find? (fun e => e.1 = ssss d) with
  | none => rw [hf] at he; simp at he
  | some e =>
    rw [hf] at he
    obtain ⟨sym, code, len⟩ := e
    simp only [Option.some.injEq] at he
    have hmem := List.mem_of_find?_eq_some hf
    have hp := List.find?_some hf
    simp only [decide_eq_true_eq] at hp
    obtain ⟨j, hj⟩ := List.mem_iff_getElem?.1 hmem
    have hjl : j < values.size := by
      rw [← codeTable_length hv]
      rcases List.getElem?_eq_some_iff.1 hj with ⟨h, _⟩; exact h
    obtain ⟨c, l, hent, hcode⟩ := codeTable_entry hv (Array.getElem?_eq_getElem hjl)
    rw [hj] at hent
    simp only [Option.some.injEq, Prod.mk.injEq] at hent
    obtain ⟨e1, e2, e3⟩ := hent
    subst e2 e3
    have hs : ssss d = values[j] := by rw [← hp, e1]
    rw [hsym]
    refine ⟨by rw [hs]; simp, ?_⟩
    rw [← he, bitsMsb_eq, bitsMsb_eq]
    simp only [symWrite]
    rw [← hs] at hcode
    rw [hcode, hn]
    by_cases hc : 0 < ssss d ∧ ssss d ≠ 16
    · simp [hc]
    · simp [hc, bitsOf]


/-- P2 in the shape of the `decodeScan` loop body: on the bits the spec's per-difference encoder
    emits, `Decode` returns SSSS, `ReadBits(SSSS)` (categories 1..15 only) returns the additional
    bits, exactly those bits are consumed, and the model's difference value is the spec's
    difference as an int16 (32768 ↦ −32768) -/
theorem readDiff_spec (bits : List Nat) (values : Array Nat) (t : Table)
    (hv : ValidTable bits values = true) (ht : Table.build bits values = .ok t)
    (x p : Int) (b : List Bool)
    (he : encodeDiffBits (codeTable bits values.toList) (diff x p) = some b)
    (dd : HuffDec) (hs : StuffOk dd.data = true) (hb : dd.nBits ≤ 7) (rest : List Bool)
    (hp : pending dd = b ++ rest) :
    ∃ d1 d2, dd.decode t = .ok (ssss (diff x p), d1) ∧
      ((0 < ssss (diff x p) ∧ ssss (diff x p) ≠ 16) →
        d1.readBits (ssss (diff x p)) = some ((extraBits (diff x p)).1, d2)) ∧
      (¬ (0 < ssss (diff x p) ∧ ssss (diff x p) ≠ 16) → d2 = d1) ∧
      pending d2 = rest ∧ StuffOk d2.data = true ∧ d2.nBits ≤ 7 ∧
      (if ssss (diff x p) = 0 then (0 : Int)
       else if ssss (diff x p) = 16 then receiveLosslessDifference 16 0
       else receiveLosslessDifference (ssss (diff x p) : Int) ((extraBits (diff x p)).1 : Int))
        = (if diff x p = 32768 then -32768 else diff x p) := by
  obtain ⟨hm, hbq⟩ := encodeDiffBits_symWrite bits values hv x p b he
  have hr := encDiff_range' x p
  have hx := symOfDiff_ok _ hr.1 hr.2
  rw [hbq] at hp
  obtain ⟨d1, d2, h1, h2, h3, h4, h5, h6⟩ := readSym_parts bits values t hv ht _ hx hm dd hs hb rest hp
  have hd := symDiff_eq (encDiff x p) hr.1 hr.2 (ssss (diff x p)) (extraBits (diff x p)).1 (symOf_spec x p).1
  rw [(symOf_spec x p).1] at h1 h2 h3
  rw [encDiff_diff] at hd
  exact ⟨d1, d2, h1, h2, h3, h4, h5, h6, hd⟩

/-! ## P3 / P5: samples and the scan -/

/-- the source image as the model's sample planes -/
def planesArr (planes : List (List Int)) : Planes := (planes.map List.toArray).toArray

theorem cell_planesArr (planes : List (List Int)) (c i : Nat) :
    cell (planesArr planes) c i = (planes.getD c []).getD i 0 := by
  simp only [cell, planesArr, List.getD_eq_getElem?_getD]
  cases h : planes[c]? with
  | none => simp [h]
  | some pl => simp [h]

theorem cell_of_plane (planes : List (List Int)) (c : Nat) (plane : List Int) (h : planes[c]? = some plane)
    (i : Nat) : plane.getD i 0 = cell (planesArr planes) c i := by
  rw [cell_planesArr, List.getD_eq_getElem?_getD (l := planes), h]; rfl

theorem planesArr_sized (w h : Nat) (planes : List (List Int)) (hl : ∀ pl ∈ planes, pl.length = w * h) :
    Sized w h planes.length (planesArr planes) := by
  refine ⟨by simp [planesArr], ?_⟩
  intro c hc
  have : planes[c]? = some planes[c] := List.getElem?_eq_getElem hc
  simp [planesArr, this, hl planes[c] (List.getElem_mem hc)]

theorem planesArr_inRange (P : Nat) (hP : 2 ≤ P ∧ P ≤ 16) (planes : List (List Int))
    (hr : ∀ pl ∈ planes, ∀ x ∈ pl, 0 ≤ x ∧ x < (2:Int) ^ P) : InRange P (planesArr planes) := by
  have hf := pow_facts (P : Int) (by omega) (by omega)
  simp only at hf
  obtain ⟨hM, hH, _⟩ := hf
  intro c i
  rw [shl_one, cell_planesArr]
  rw [shl_one] at hM
  have hpos : (0:Int) < (2:Int) ^ P := by omega
  simp only [List.getD_eq_getElem?_getD]
  cases h1 : planes[c]? with
  | none => simpa using hpos
  | some pl =>
    simp only [Option.getD_some]
    cases h2 : pl[i]? with
    | none => simpa using hpos
    | some x =>
      simp only [Option.getD_some]
      exact hr pl (List.mem_of_getElem? h1) x (List.mem_of_getElem? h2)

/-- P3, jpeg/lossless: `(predicted + diff) & (2^P − 1)` applied to the spec's difference (as the
    int16 the model's `ReceiveLosslessDifference` returns) is the sample, for ANY prediction -/
theorem decSample_spec (P : Nat) (hP : 2 ≤ P ∧ P ≤ 16) (x p : Int) (hx : 0 ≤ x ∧ x < (2:Int) ^ P) :
    decSample (P : Int) p (if diff x p = 32768 then -32768 else diff x p) = x := by
  rw [← encDiff_diff]
  exact diff_wrap_inverse' (P : Int) p x (by omega) (by rw [shl_one]; exact hx)

/-- P3, lossless14sv1: the wrap-once reconstruction is exact when the prediction is in range
    (it always is: a neighbouring sample or 2^(P−1)) -/
theorem sv1DecSample_spec (P : Nat) (hP : 2 ≤ P ∧ P ≤ 16) (x p : Int) (hx : 0 ≤ x ∧ x < (2:Int) ^ P)
    (hp : 0 ≤ p ∧ p < (2:Int) ^ P) :
    sv1DecSample (P : Int) p (if diff x p = 32768 then -32768 else diff x p) = x := by
  rw [← encDiff_diff]
  have hf := pow_facts (P : Int) (by omega) (by omega)
  simp only at hf
  rw [shl_one] at hf
  simp only [sv1DecSample, wrapDec, encDiff, Gen.JpegLossless.losslessDifference, shl_one]
  generalize (2:Int) ^ P = M at *
  by_cases h16 : P = 16
  · have hM : M = 65536 := hf.2.2.2.2.2.1 (by omega)
    subst hM
    exact core_16 x p _ hx hp rfl
  · have h15 : M ≤ 32768 := hf.2.2.2.1 (by omega)
    exact core_small M x p _ hx (by omega) rfl

/-- P3, prediction: on a conforming (predictor, geometry) class the decoder's prediction is Px -/
theorem decPredicted_px (P sel w h row col : Nat) (nb : Nb) (hP : 1 ≤ P) (hs : 1 ≤ sel ∧ sel ≤ 7)
    (hrow : row < h) (hcol : col < w) :
    decPredicted P sel row col nb = px P 0 sel row col nb.left nb.up nb.upLeft := by
  rw [decPredicted_eq_enc]
  exact encPredicted_conforms P sel row col nb hP hs

/-- the prediction the spec's ENCODER forms at pixel `pix` from the source plane is the model's
    prediction from the planes (on a conforming class) -/
theorem px_cell (sv1 : Bool) (P pred w h : Nat) (s : Planes) (hP : 1 ≤ P)
    (hpred : 1 ≤ pred ∧ pred ≤ 7) (hsv1 : sv1 = true → pred = 1)
    (pix c : Nat) (hpix : pix < w * h) :
    px P 0 pred (pix / w) (pix % w) (cell s c (pix - 1)) (cell s c (pix - w)) (cell s c (pix - w - 1))
      = predOf sv1 P pred w s (pix / w, pix % w, c) := by
  have hw : 0 < w := by
    rcases Nat.eq_zero_or_pos w with h0 | h0
    · subst h0; simp at hpix
    · exact h0
  have hrow : pix / w < h := Nat.div_lt_of_lt_mul hpix
  have hcol : pix % w < w := Nat.mod_lt _ hw
  have hdm : w * (pix / w) + pix % w = pix := Nat.div_add_mod pix w
  rw [predOf_px sv1 P pred w h s hP hpred hsv1 _ _ c hrow hcol]
  generalize hR : pix / w = row at *
  generalize hC : pix % w = col at *
  rw [Nat.mul_comm] at hdm
  simp only [nbOf]
  apply px_congr
  · intro hc0
    rw [if_pos hc0]
    congr 1; omega
  · intro hr0
    obtain ⟨r', rfl⟩ : ∃ r', row = r' + 1 := ⟨row - 1, by omega⟩
    rw [Nat.succ_mul] at hdm
    rw [if_pos hr0]
    congr 1
    simp only [Nat.add_sub_cancel]
    omega
  · intro ⟨hr0, hc0⟩
    obtain ⟨r', rfl⟩ : ∃ r', row = r' + 1 := ⟨row - 1, by omega⟩
    rw [Nat.succ_mul] at hdm
    rw [if_pos ⟨hr0, hc0⟩]
    congr 1
    simp only [Nat.add_sub_cancel]
    omega

/-- the body of `decodeScanSel`'s loop (verbatim) -/
def selStepFn (sv1 : Bool) (P predictor w : Nat) (tbl : Nat → Outcome Table) :
    HuffDec × Planes → Pos → Outcome (HuffDec × Planes) :=
  fun (d, s) (row, col, c) => do
    let t ← tbl c
    let (category, d1) ← d.decode t
    let (diff, d2) ←
      if category = 0 then pure ((0 : Int), d1)
      else if category = 16 then pure (receiveLosslessDifference 16 0, d1)
      else match d1.readBits category with
        | none => Outcome.err
        | some (v, d2) => pure (if category ≥ 64 then (v : Int) else receiveLosslessDifference category v, d2)
    let nb ← readNb s c w row col
    let predicted := if sv1 then sv1Predicted P row col nb else decPredicted P predictor row col nb
    let sample := if sv1 then sv1DecSample P predicted diff else decSample P predicted diff
    let s' ← writeS s c (row * w + col) sample
    pure (d2, s')

theorem decodeScanSel_eq (sv1 : Bool) (P predictor w h nc : Nat) (tbl : Nat → Outcome Table) (data : List Nat) :
    JLL.Stream.decodeScanSel sv1 P predictor w h nc tbl data =
      ((scanOrder w h nc).foldlM (selStepFn sv1 P predictor w tbl)
          (({ data := data } : HuffDec), Array.replicate nc (Array.replicate (w * h) 0))
        >>= fun r => pure r.2) := rfl

theorem selStepFn_ok (sv1 : Bool) (P predictor w : Nat) (tbl : Nat → Outcome Table) (t : Table)
    (d : HuffDec) (s : Planes) (row col c : Nat) (h : tbl c = .ok t) :
    selStepFn sv1 P predictor w tbl (d, s) (row, col, c) = decStepFn sv1 P predictor w t (d, s) (row, col, c) := by
  simp only [selStepFn, h, Outcome.ok_bind]
  rfl

/-- per component: the spec's code table is Annex C of a valid (BITS, HUFFVAL) and the model
    decoder holds the table `Build` makes of the same (BITS, HUFFVAL) -/
def CompTables (nc : Nat) (tbls : List (List (Nat × Nat × Nat))) (tbl : Nat → Outcome Table) : Prop :=
  ∀ c, c < nc → ∃ (bits : List Nat) (values : Array Nat) (t : Table),
    tbls[c]? = some (codeTable bits values.toList) ∧ ValidTable bits values = true ∧
    Table.build bits values = .ok t ∧ tbl c = .ok t

theorem scanBitsFrom_succ (P w nc sel : Nat) (planes : List (List Int)) (tbls : List (List (Nat × Nat × Nat)))
    (n i : Nat) (bits : List Bool) (h : scanBitsFrom P w nc sel planes tbls (n + 1) i = some bits) :
    ∃ tbl plane b r, tbls[i % nc]? = some tbl ∧ planes[i % nc]? = some plane ∧
      encodeDiffBits tbl (diff (plane.getD (i / nc) 0) (px P 0 sel (i / nc / w) (i / nc % w)
        (plane.getD (i / nc - 1) 0) (plane.getD (i / nc - w) 0) (plane.getD (i / nc - w - 1) 0))) = some b ∧
      scanBitsFrom P w nc sel planes tbls n (i + 1) = some r ∧ bits = b ++ r := by
  unfold scanBitsFrom at h
  simp only at h
  cases h1 : tbls[i % nc]? with
  | none => simp [h1] at h
  | some tbl =>
    cases h2 : planes[i % nc]? with
    | none => simp [h1, h2] at h
    | some plane =>
      simp only [h1, h2] at h
      split at h
      · rename_i b r hb hr
        exact ⟨tbl, plane, b, r, rfl, rfl, hb, hr, by simpa using h.symm⟩
      · simp at h

/-- P5, inductive form: the model decoder's loop over the positions `i .. i+n`, started on the
    spec encoder's bits for them, stores the source samples -/
theorem specFold_ok (sv1 : Bool) (P pred w h nc : Nat) (planes : List (List Int))
    (tbls : List (List (Nat × Nat × Nat))) (tbl : Nat → Outcome Table)
    (hP : 2 ≤ P ∧ P ≤ 16) (hpred : 1 ≤ pred ∧ pred ≤ 7) (hsv1 : sv1 = true → pred = 1)
    (hnc : 0 < nc)
    (hrng : InRange P (planesArr planes)) (hct : CompTables nc tbls tbl) :
    ∀ (n i : Nat) (bits : List Bool), i + n = w * h * nc →
      scanBitsFrom P w nc pred planes tbls n i = some bits →
      ∀ (pre : List Pos), scanOrder w h nc = pre ++ (List.range' i n).map (posOf w nc) →
      ∀ (d : HuffDec), StuffOk d.data = true → d.nBits ≤ 7 → ∀ (rest : List Bool),
      pending d = bits ++ rest →
      ∀ (pl : Planes), Sized w h nc pl → Agree w (planesArr planes) pl pre →
      ∃ d' pl', ((List.range' i n).map (posOf w nc)).foldlM (selStepFn sv1 P pred w tbl) (d, pl) = .ok (d', pl') ∧
        pending d' = rest ∧ Sized w h nc pl' ∧
        Agree w (planesArr planes) pl' (pre ++ (List.range' i n).map (posOf w nc)) := by
  intro n
  induction n with
  | zero =>
    intro i bits _ hb pre _ d _ _ rest hpend pl hpl hag
    simp only [scanBitsFrom, Option.some.injEq] at hb
    subst hb
    exact ⟨d, pl, rfl, by simpa using hpend, hpl, by simpa using hag⟩
  | succ n ih =>
    intro i bits hi hb pre hsplit d hsd hbn rest hpend pl hpl hag
    have hilt : i < w * h * nc := by omega
    have hr : i % nc < nc := Nat.mod_lt _ hnc
    have hpix : i / nc < w * h := Nat.div_lt_of_lt_mul (by rw [Nat.mul_comm]; exact hilt)
    have hdm : i / nc / w * w + i / nc % w = i / nc := by
      rw [Nat.mul_comm]; exact Nat.div_add_mod _ _
    obtain ⟨tb, plane, b, r, ht, hpl0, he, hrest, hbits⟩ := scanBitsFrom_succ P w nc pred planes tbls n i bits hb
    obtain ⟨cb, cv, t, hct1, hv, hbuild, htbl⟩ := hct (i % nc) hr
    rw [ht] at hct1
    simp only [Option.some.injEq] at hct1
    subst hct1
    simp only [cell_of_plane planes (i % nc) plane hpl0] at he
    rw [px_cell sv1 P pred w h _ (by omega) hpred hsv1 (i / nc) (i % nc) hpix] at he
    obtain ⟨hm, hbq⟩ := encodeDiffBits_symWrite cb cv hv _ _ b he
    have hsym : symOf sv1 P pred w (planesArr planes) (posOf w nc i) =
        symOfDiff (encDiff (cell (planesArr planes) (i % nc) (i / nc))
          (predOf sv1 P pred w (planesArr planes) (i / nc / w, i / nc % w, i % nc))) := by
      simp only [symOf, diffOf, posOf, hdm]
    rw [List.range'_succ, List.map_cons] at hsplit ⊢
    have hpend' : pending d = (symWrite (buildHuffmanCodes cb cv)
        (symOf sv1 P pred w (planesArr planes) (posOf w nc i))).flatMap (fun w => bitsOf w.1 w.2) ++ (r ++ rest) := by
      rw [hpend, hbits, hsym, ← hbq, List.append_assoc]
    obtain ⟨d1, pl1, h1, hp1, hs1, hb1, hpl1, hag1⟩ :=
      decStep_ok sv1 P pred w h nc cb cv t hv hbuild (planesArr planes) hrng hP pre
        ((List.range' (i + 1) n).map (posOf w nc)) (posOf w nc i) hsplit (by rw [hsym]; exact hm)
        d hsd hbn _ hpend' pl hpl hag
    obtain ⟨d2, pl2, h2, hp2, hpl2, hag2⟩ :=
      ih (i + 1) r (by omega) hrest (pre ++ [posOf w nc i]) (by rw [hsplit]; simp) d1 hs1 hb1 rest hp1 pl1 hpl1 hag1
    refine ⟨d2, pl2, ?_, hp2, hpl2, by simpa using hag2⟩
    have hstep : selStepFn sv1 P pred w tbl (d, pl) (posOf w nc i) = .ok (d1, pl1) := by
      rw [← h1]
      exact selStepFn_ok sv1 P pred w tbl t d pl _ _ _ htbl
    rw [foldlM_cons_ok _ _ _ _ _ hstep]
    exact h2

/-- P5: the model decoder's sample loop with per-component tables, run on the packed bits of the
    spec encoder's scan, returns the source planes -/
theorem decodeScanSel_spec (sv1 : Bool) (P pred w h : Nat) (planes : List (List Int))
    (tbls : List (List (Nat × Nat × Nat))) (tbl : Nat → Outcome Table) (bits : List Bool)
    (hP : 2 ≤ P ∧ P ≤ 16) (hpred : 1 ≤ pred ∧ pred ≤ 7) (hsv1 : sv1 = true → pred = 1)
    (hnc : 0 < planes.length)
    (hlen : ∀ pl ∈ planes, pl.length = w * h)
    (hr : ∀ pl ∈ planes, ∀ x ∈ pl, 0 ≤ x ∧ x < (2:Int) ^ P)
    (hct : CompTables planes.length tbls tbl)
    (hbits : scanBitsFrom P w planes.length pred planes tbls (w * h * planes.length) 0 = some bits) :
    JLL.Stream.decodeScanSel sv1 P pred w h planes.length tbl (packBits bits) = .ok (planesArr planes) := by
  have hN : h * (w * planes.length) = w * h * planes.length := by rw [← Nat.mul_assoc, Nat.mul_comm h w]
  have hsz := planesArr_sized w h planes hlen
  have hrng := planesArr_inRange P hP planes hr
  obtain ⟨pad, _, _, hpend⟩ := packBits_pending bits
  have hso : scanOrder w h planes.length = [] ++ (List.range' 0 (w * h * planes.length)).map (posOf w planes.length) := by
    rw [scanOrder_eq, hN, List.range_eq_range']; rfl
  obtain ⟨d', pl', hf, _, hpl', hag'⟩ :=
    specFold_ok sv1 P pred w h planes.length planes tbls tbl hP hpred hsv1 hnc hrng hct
      (w * h * planes.length) 0 bits (by omega) hbits [] hso _ (packBits_stuffOk bits) (Nat.zero_le 7) pad hpend
      _ (sized_init w h planes.length) (by intro q hq; simp at hq)
  rw [decodeScanSel_eq]
  rw [hso, List.nil_append, hf]
  rw [← hso] at hag'
  have : pl' = planesArr planes := planes_ext hsz hpl' hag'
  subst this
  rfl

end T81H

namespace T81H
open JLL JLL.Stream JpegC

/-! ## P4: the header walk -/

theorem segment_eq (m : Nat) (pl : List Nat) (hl : pl.length + 2 < 65536) : segment m pl = encSeg m pl := by
  have : (pl.length + 2) / 256 % 256 = (pl.length + 2) / 256 := by omega
  simp [segment, encSeg, this]

/-- the table `HuffmanTable.Build` makes of (BITS, HUFFVAL) (a dummy when `Build` fails) -/
def mkTable (bits vals : List Nat) : Table :=
  match Table.build bits vals.toArray with
  | .ok t => t
  | _ => { bits := bits, values := vals.toArray, codes := [], lookup := #[] }

theorem mkTable_ok (bits vals : List Nat) (hv : ValidTable bits vals.toArray = true) :
    Table.build bits vals.toArray = .ok (mkTable bits vals) := by
  obtain ⟨t, ht, _⟩ := build_ok _ _ hv
  simp [mkTable, ht]

/-- a DHT payload with one class-0 table for destination `th` -/
theorem parseDHT_one (th : Nat) (hth : th ≤ 3) (bits vals : List Nat) (t : Table) (tables : List (Option Table))
    (hlen : bits.length = 16) (hs : bits.sum = vals.length) (hb : Table.build bits vals.toArray = .ok t) :
    parseDHT ((th :: (bits ++ vals)).length + 1) (th :: (bits ++ vals)) tables = some (tables.set th (some t)) := by
  have t16 : (bits ++ vals).take 16 = bits := take_len_append _ _ _ hlen
  have d16 : (bits ++ vals).drop 16 = vals := drop_len_append _ _ _ hlen
  have hf : bits.foldl (· + ·) 0 = vals.length := by rw [foldl_add_eq_sum, hs]
  have hd : dhtOne (th :: (bits ++ vals)) = some (0, th, t, []) := by
    have : th = 0 ∨ th = 1 ∨ th = 2 ∨ th = 3 := by omega
    rcases this with rfl | rfl | rfl | rfl <;> simp [dhtOne, t16, d16, hf, hb, hlen]
  have hl : (th :: (bits ++ vals)).length = (bits ++ vals).length + 1 := rfl
  rw [parseDHT, hd, hl]
  simp [parseDHT]

/-- the decoder's `dcTables` after the DHT segments of `l`, in stream order -/
def installTables (tabs : List (Option Table)) (l : List (Nat × List Nat × List Nat)) : List (Option Table) :=
  l.foldl (fun tabs e => tabs.set e.1 (some (mkTable e.2.1 e.2.2))) tabs

/-- pigeonhole: a duplicate-free list of numbers below `n` has at most `n` entries -/
theorem nodup_length_le : ∀ (n : Nat) (l : List Nat), l.Nodup → (∀ x ∈ l, x < n) → l.length ≤ n := by
  intro n
  induction n with
  | zero =>
    intro l _ h
    match l, h with
    | [], _ => simp
    | a :: _, h => exact absurd (h a (by simp)) (by omega)
  | succ n ih =>
    intro l hnd h
    have h1 := ih (l.filter (fun x => x != n)) (hnd.sublist List.filter_sublist) (by
      intro x hx
      obtain ⟨hx1, hx2⟩ := List.mem_filter.1 hx
      have := h x hx1
      have : x ≠ n := by simpa using hx2
      omega)
    have h2 := List.length_eq_countP_add_countP (fun x => x != n) (l := l)
    have h3 : List.countP (fun a => decide ¬ ((fun x => x != n) a) = true) l = List.count n l := by
      rw [List.count]
      apply List.countP_congr
      intro x _
      simp
    have h4 := hnd.count (a := n)
    rw [List.countP_eq_length_filter] at h2
    rw [h3, h4] at h2
    split at h2 <;> omega

theorem validTable_length_le (bits : List Nat) (values : Array Nat) (hv : ValidTable bits values = true) :
    values.size ≤ 256 := by
  obtain ⟨_, _, hnd, h256, _⟩ := ValidTable.unpack hv
  have := nodup_length_le 256 values.toList hnd h256
  simpa using this
/-- one DHT segment of the configuration is acceptable: destination 0..3 and a valid
    (BITS, HUFFVAL): 16 counts summing to the number of values, distinct values < 256, Kraft -/
def TableOk (e : Nat × List Nat × List Nat) : Prop :=
  e.1 ≤ 3 ∧ ValidTable e.2.1 e.2.2.toArray = true

instance (e : Nat × List Nat × List Nat) : Decidable (TableOk e) := by unfold TableOk; infer_instance

def dhtBytes (l : List (Nat × List Nat × List Nat)) : List Nat :=
  l.flatMap fun (th, b, v) => segment 0xC4 ([th] ++ b ++ v)

theorem loop_dhts (sv1 : Bool) : ∀ (l : List (Nat × List Nat × List Nat)), (∀ e ∈ l, TableOk e) →
    ∀ (fuel : Nat) (d : Dec) (rest : List Nat),
      loop sv1 (fuel + l.length) d (dhtBytes l ++ rest) =
        loop sv1 fuel { d with tables := installTables d.tables l } rest := by
  intro l
  induction l with
  | nil => intro _ fuel d rest; rfl
  | cons e l ih =>
    intro hok fuel d rest
    obtain ⟨th, b, v⟩ := e
    obtain ⟨hth, hv⟩ := hok (th, b, v) (by simp)
    simp only at hth hv
    have h256 : v.length ≤ 256 := by simpa using validTable_length_le b v.toArray hv
    obtain ⟨hl16, hsum, _⟩ := ValidTable.unpack hv
    have hsum' : b.sum = v.length := by simpa using hsum
    have hlen : (th :: (b ++ v)).length + 2 < 65536 := by simp; omega
    have e1 : dhtBytes ((th, b, v) :: l) ++ rest = encSeg 0xC4 (th :: (b ++ v)) ++ (dhtBytes l ++ rest) := by
      simp only [dhtBytes, List.flatMap_cons, List.append_assoc]
      rw [show [th] ++ (b ++ v) = th :: (b ++ v) from rfl, segment_eq _ _ hlen]
    rw [e1, List.length_cons, ← Nat.add_assoc,
      loop_dht sv1 _ d _ _ _ hlen (parseDHT_one th hth b v _ d.tables hl16 hsum' (mkTable_ok b v hv)),
      ih (fun x hx => hok x (by simp [hx]))]
    rfl

theorem installTables_length : ∀ (l : List (Nat × List Nat × List Nat)) (tabs : List (Option Table)),
    (installTables tabs l).length = tabs.length := by
  intro l
  induction l with
  | nil => intro tabs; rfl
  | cons e l ih => intro tabs; simp only [installTables, List.foldl_cons] at ih ⊢; rw [ih]; simp

/-- the table at destination `th` after the DHT segments is the LAST one written for it -/
theorem installTables_get (th : Nat) : ∀ (l : List (Nat × List Nat × List Nat)) (tabs : List (Option Table)),
    th < tabs.length →
    (installTables tabs l)[th]? =
      match (l.filter fun t => t.1 = th).getLast? with
      | none => tabs[th]?
      | some e => some (some (mkTable e.2.1 e.2.2)) := by
  intro l
  induction l with
  | nil => intro tabs _; simp [installTables]
  | cons e l ih =>
    intro tabs hth
    have hstep : installTables tabs (e :: l) = installTables (tabs.set e.1 (some (mkTable e.2.1 e.2.2))) l := rfl
    rw [hstep, ih _ (by simpa using hth)]
    by_cases he : e.1 = th
    · rw [List.filter_cons_of_pos (by simpa using he), List.getLast?_cons]
      cases (l.filter fun t => t.1 = th).getLast? with
      | none => simp [he, hth]
      | some e' => simp
    · rw [List.filter_cons_of_neg (by simpa using he)]
      cases (l.filter fun t => t.1 = th).getLast? with
      | none => simp [List.getElem?_set_ne he]
      | some e' => simp

theorem cfgTable_some (cfg : EncCfg) (th : Nat) (tb : List (Nat × Nat × Nat)) (h : cfgTable cfg th = some tb) :
    ∃ e, (cfg.tables.filter fun t => t.1 = th).getLast? = some e ∧ e ∈ cfg.tables ∧
      tb = codeTable e.2.1 e.2.2 := by
  unfold cfgTable at h
  cases hl : (cfg.tables.filter fun t => t.1 = th).getLast? with
  | none => rw [hl] at h; simp at h
  | some e =>
    rw [hl] at h
    obtain ⟨a, b, v⟩ := e
    simp only [Option.some.injEq] at h
    exact ⟨(a, b, v), rfl, (List.mem_filter.1 (List.mem_of_getLast? hl)).1, h.symm⟩

theorem mapM_some_get {α β : Type} (f : α → Option β) : ∀ (l : List α) (r : List β), l.mapM f = some r →
    ∀ (c : Nat) (a : α), l[c]? = some a → ∃ b, r[c]? = some b ∧ f a = some b := by
  intro l
  induction l with
  | nil => intro r _ c a h; simp at h
  | cons x l ih =>
    intro r h c a hc
    rw [List.mapM_cons] at h
    cases hx : f x with
    | none => rw [hx] at h; simp at h
    | some y =>
      cases hm : l.mapM f with
      | none => rw [hx, hm] at h; simp at h
      | some ys =>
        rw [hx, hm] at h
        simp at h
        subst h
        cases c with
        | zero =>
          simp only [List.getElem?_cons_zero, Option.some.injEq] at hc
          subst hc
          exact ⟨y, by simp, hx⟩
        | succ c =>
          simp only [List.getElem?_cons_succ] at hc ⊢
          exact ih ys hm c a hc

theorem flatMap_length_ge {α β : Type} (f : α → List β) : ∀ l : List α, (∀ x ∈ l, 1 ≤ (f x).length) →
    l.length ≤ (l.flatMap f).length := by
  intro l
  induction l with
  | nil => intro _; simp
  | cons a l ih =>
    intro h
    have h1 := h a (by simp)
    have h2 := ih (fun x hx => h x (by simp [hx]))
    simp only [List.flatMap_cons, List.length_append, List.length_cons]
    omega

theorem dhtBytes_length (l : List (Nat × List Nat × List Nat)) : l.length ≤ (dhtBytes l).length := by
  apply flatMap_length_ge
  rintro ⟨th, b, v⟩ _
  simp [segment]

/-! ### frame and scan headers -/

theorem sv1Comps_ids : ∀ ids : List Nat,
    sv1Comps ids.length (ids.flatMap fun id => [id, 0x11, 0]) = some ids := by
  intro ids
  induction ids with
  | nil => rfl
  | cons a l ih =>
    simp only [List.length_cons, List.flatMap_cons, List.cons_append, List.nil_append, sv1Comps]
    rw [if_neg (by decide), ih]
    rfl

theorem jllSelector_ok (t : Nat) (ht : t ≤ 3) : jllSelector (t * 16) = .ok t := by
  have : t = 0 ∨ t = 1 ∨ t = 2 ∨ t = 3 := by omega
  rcases this with rfl | rfl | rfl | rfl <;> rfl

theorem sv1Selector_ok (t : Nat) (ht : t ≤ 3) : sv1Selector (t * 16) = .ok t := by
  have : t = 0 ∨ t = 1 ∨ t = 2 ∨ t = 3 := by omega
  rcases this with rfl | rfl | rfl | rfl <;> rfl

theorem jllSOS_1' (d : Dec) (S i0 t0 : Nat) (hS : 1 ≤ S ∧ S ≤ 7) (ht0 : t0 ≤ 3) (hn : d.ncomp = 1)
    (hs : d.sels = [0, 0, 0]) :
    jllSOS d [1, i0, t0 * 16, S, 0, 0] = some { d with predictor := S, sels := [t0, 0, 0] } := by
  have e0 := jllSelector_ok t0 ht0
  simp [jllSOS, hn, hs, jllSelLoop, e0]
  omega

theorem jllSOS_3' (d : Dec) (S i0 t0 i1 t1 i2 t2 : Nat) (hS : 1 ≤ S ∧ S ≤ 7) (ht0 : t0 ≤ 3) (ht1 : t1 ≤ 3)
    (ht2 : t2 ≤ 3) (hn : d.ncomp = 3) (hs : d.sels = [0, 0, 0]) :
    jllSOS d [3, i0, t0 * 16, i1, t1 * 16, i2, t2 * 16, S, 0, 0] =
      some { d with predictor := S, sels := [t0, t1, t2] } := by
  have e0 := jllSelector_ok t0 ht0
  have e1 := jllSelector_ok t1 ht1
  have e2 := jllSelector_ok t2 ht2
  simp [jllSOS, hn, hs, jllSelLoop, e0, e1, e2]
  omega

theorem sv1SOS_1' (d : Dec) (i0 t0 : Nat) (ht0 : t0 ≤ 3) (hi : d.ids = [i0]) (hs : d.sels = [0]) :
    sv1SOS d [1, i0, t0 * 16, 1, 0, 0] = some { d with predictor := 1, sels := [t0] } := by
  have e0 := sv1Selector_ok t0 ht0
  simp [sv1SOS, hi, hs, sv1SelLoop, e0, List.findIdx?_cons]

theorem sv1SOS_3' (d : Dec) (i0 t0 i1 t1 i2 t2 : Nat) (ht0 : t0 ≤ 3) (ht1 : t1 ≤ 3) (ht2 : t2 ≤ 3)
    (h01 : i0 ≠ i1) (h02 : i0 ≠ i2) (h12 : i1 ≠ i2)
    (hi : d.ids = [i0, i1, i2]) (hs : d.sels = [0, 0, 0]) :
    sv1SOS d [3, i0, t0 * 16, i1, t1 * 16, i2, t2 * 16, 1, 0, 0] =
      some { d with predictor := 1, sels := [t0, t1, t2] } := by
  have e0 := sv1Selector_ok t0 ht0
  have e1 := sv1Selector_ok t1 ht1
  have e2 := sv1Selector_ok t2 ht2
  simp [sv1SOS, hi, hs, sv1SelLoop, e0, e1, e2, List.findIdx?_cons, h01, h02, h12]

end T81H

namespace T81H
open JLL JLL.Stream JpegC

/-! ## P4 / P6: hypotheses, the walk, the theorem -/

/-- admissible encoder configuration for `nc` components (`sv1`: additionally what the SV1 decoder
    requires — selection value 1 and distinct component identifiers, which it looks up by id) -/
def CfgOk (sv1 : Bool) (nc : Nat) (cfg : EncCfg) : Prop :=
  (nc = 1 ∨ nc = 3) ∧ cfg.ids.length = nc ∧ cfg.td.length = nc ∧ (∀ t ∈ cfg.td, t ≤ 3) ∧
  (∀ e ∈ cfg.tables, TableOk e) ∧ (1 ≤ cfg.sel ∧ cfg.sel ≤ 7) ∧
  (sv1 = true → cfg.sel = 1 ∧ cfg.ids.Nodup)

instance (sv1 : Bool) (nc : Nat) (cfg : EncCfg) : Decidable (CfgOk sv1 nc cfg) := by
  unfold CfgOk; infer_instance

/-- admissible image: dimensions and precision of the codec's range, planes of `w*h` P-bit samples -/
def ImgOk (P w h : Nat) (planes : List (List Int)) : Prop :=
  (1 ≤ w ∧ w ≤ 65535) ∧ (1 ≤ h ∧ h ≤ 65535) ∧ (2 ≤ P ∧ P ≤ 16) ∧
  (∀ pl ∈ planes, pl.length = w * h) ∧ (∀ pl ∈ planes, ∀ x ∈ pl, 0 ≤ x ∧ x < (2:Int) ^ P)

instance (P w h : Nat) (planes : List (List Int)) : Decidable (ImgOk P w h planes) := by
  unfold ImgOk; infer_instance

theorem len1 {α : Type} (l : List α) (h : l.length = 1) : ∃ a, l = [a] := by
  match l, h with
  | [a], _ => exact ⟨a, rfl⟩

theorem len3 {α : Type} (l : List α) (h : l.length = 3) : ∃ a b c, l = [a, b, c] := by
  match l, h with
  | [a, b, c], _ => exact ⟨a, b, c, rfl⟩

/-- P4: the marker loop over the DHT segments, SOF3 and SOS of the spec encoder reaches `finish`
    with the frame parameters as written, the selectors `cfg.td`, and the tables installed in
    stream order -/
theorem loop_header (sv1 : Bool) (P w h nc : Nat) (cfg : EncCfg) (hcfg : CfgOk sv1 nc cfg)
    (hw : 1 ≤ w ∧ w ≤ 65535) (hh : 1 ≤ h ∧ h ≤ 65535) (hP : 2 ≤ P ∧ P ≤ 16) (rest : List Nat) (fuel : Nat) :
    ∃ dF : Dec,
      loop sv1 (fuel + 2 + cfg.tables.length) (if sv1 then { sels := [] } else {})
        (dhtBytes cfg.tables ++
          (segment 0xC3 ([P, h / 256 % 256, h % 256, w / 256 % 256, w % 256, nc] ++
              cfg.ids.flatMap fun id => [id, 0x11, 0]) ++
            (segment 0xDA ([nc] ++ ((cfg.ids.zip cfg.td).flatMap fun (id, t) => [id, t * 16]) ++ [cfg.sel, 0, 0]) ++
              rest))) = finish sv1 dF rest ∧
      dF.width = w ∧ dF.height = h ∧ dF.precision = P ∧ dF.predictor = cfg.sel ∧ dF.ncomp = nc ∧
      (∀ c, c < nc → dF.sels[c]? = cfg.td[c]?) ∧
      dF.tables = installTables [none, none, none, none] cfg.tables := by
  obtain ⟨hnc, hids, htd, htdle, htabs, hsel, hsv⟩ := hcfg
  obtain ⟨sel, ids, td, tables⟩ := cfg
  simp only at hids htd htdle htabs hsel hsv ⊢
  have hh' : h / 256 % 256 = h / 256 := by omega
  have hw' : w / 256 % 256 = w / 256 := by omega
  rw [loop_dhts sv1 tables htabs]
  rcases hnc with rfl | rfl
  · obtain ⟨i0, rfl⟩ := len1 ids hids
    obtain ⟨t0, rfl⟩ := len1 td htd
    have ht0 : t0 ≤ 3 := htdle t0 (by simp)
    simp only [hh', hw', List.flatMap_cons, List.flatMap_nil, List.zip_cons_cons, List.zip_nil_right,
      List.cons_append, List.nil_append, List.append_nil]
    rw [segment_eq _ _ (by simp), segment_eq _ _ (by simp)]
    cases sv1 <;> simp only [↓reduceIte, Bool.false_eq_true]
    · rw [loop_sof3_jll _ _ _ _ _ (by simp) (jllSOF3_ok _ P h w 1 [i0, 0x11, 0] hP hw.1 hh.1 (Or.inl rfl)),
        loop_sos_jll _ _ _ _ _ (by simp) (jllSOS_1' _ sel i0 t0 hsel ht0 rfl rfl)]
      refine ⟨_, rfl, rfl, rfl, rfl, rfl, rfl, ?_, rfl⟩
      intro c hc
      have : c = 0 := by omega
      subst this; rfl
    · obtain ⟨rfl, _⟩ := hsv rfl
      rw [loop_sof3_sv1 _ _ _ _ _ (by simp)
          (sv1SOF3_ok _ P h w 1 [i0, 0x11, 0] [i0] hP hw.1 hh.1 (Or.inl rfl) (by simp) (sv1Comps_ids [i0])),
        loop_sos_sv1 _ _ _ _ _ (by simp) (sv1SOS_1' _ i0 t0 ht0 rfl rfl)]
      refine ⟨_, rfl, rfl, rfl, rfl, rfl, rfl, ?_, rfl⟩
      intro c hc
      have : c = 0 := by omega
      subst this; rfl
  · obtain ⟨i0, i1, i2, rfl⟩ := len3 ids hids
    obtain ⟨t0, t1, t2, rfl⟩ := len3 td htd
    have ht0 : t0 ≤ 3 := htdle t0 (by simp)
    have ht1 : t1 ≤ 3 := htdle t1 (by simp)
    have ht2 : t2 ≤ 3 := htdle t2 (by simp)
    simp only [hh', hw', List.flatMap_cons, List.flatMap_nil, List.zip_cons_cons, List.zip_nil_right,
      List.cons_append, List.nil_append, List.append_nil]
    rw [segment_eq _ _ (by simp), segment_eq _ _ (by simp)]
    cases sv1 <;> simp only [↓reduceIte, Bool.false_eq_true]
    · rw [loop_sof3_jll _ _ _ _ _ (by simp)
          (jllSOF3_ok _ P h w 3 [i0, 0x11, 0, i1, 0x11, 0, i2, 0x11, 0] hP hw.1 hh.1 (Or.inr rfl)),
        loop_sos_jll _ _ _ _ _ (by simp) (jllSOS_3' _ sel i0 t0 i1 t1 i2 t2 hsel ht0 ht1 ht2 rfl rfl)]
      refine ⟨_, rfl, rfl, rfl, rfl, rfl, rfl, ?_, rfl⟩
      intro c hc
      match c, hc with
      | 0, _ => rfl
      | 1, _ => rfl
      | 2, _ => rfl
    · obtain ⟨rfl, hnd⟩ := hsv rfl
      simp only [List.nodup_cons, List.mem_cons, List.not_mem_nil, or_false, not_or] at hnd
      rw [loop_sof3_sv1 _ _ _ _ _ (by simp)
          (sv1SOF3_ok _ P h w 3 [i0, 0x11, 0, i1, 0x11, 0, i2, 0x11, 0] [i0, i1, i2] hP hw.1 hh.1 (Or.inr rfl)
            (by simp) (sv1Comps_ids [i0, i1, i2])),
        loop_sos_sv1 _ _ _ _ _ (by simp)
          (sv1SOS_3' _ i0 t0 i1 t1 i2 t2 ht0 ht1 ht2 hnd.1.1 hnd.1.2 hnd.2.1 rfl rfl)]
      refine ⟨_, rfl, rfl, rfl, rfl, rfl, rfl, ?_, rfl⟩
      intro c hc
      match c, hc with
      | 0, _ => rfl
      | 1, _ => rfl
      | 2, _ => rfl

/-- the decoder's per-component table choice after the walk is `cfgTable`'s -/
theorem compTables_of (nc : Nat) (cfg : EncCfg) (tbls : List (List (Nat × Nat × Nat))) (dF : Dec)
    (htd : cfg.td.length = nc) (htdle : ∀ t ∈ cfg.td, t ≤ 3) (htabs : ∀ e ∈ cfg.tables, TableOk e)
    (hm : cfg.td.mapM (cfgTable cfg) = some tbls)
    (hsels : ∀ c, c < nc → dF.sels[c]? = cfg.td[c]?)
    (htables : dF.tables = installTables [none, none, none, none] cfg.tables) :
    CompTables nc tbls (tableOf dF) := by
  intro c hc
  have hc' : c < cfg.td.length := by omega
  have hget : cfg.td[c]? = some cfg.td[c] := List.getElem?_eq_getElem hc'
  have ht3 : cfg.td[c] ≤ 3 := htdle _ (List.getElem_mem hc')
  obtain ⟨tb, htb, hcf⟩ := mapM_some_get _ _ _ hm c _ hget
  obtain ⟨e, hlast, hmem, rfl⟩ := cfgTable_some cfg _ tb hcf
  obtain ⟨_, hv⟩ := htabs e hmem
  refine ⟨e.2.1, e.2.2.toArray, mkTable e.2.1 e.2.2, by simpa using htb, hv, mkTable_ok _ _ hv, ?_⟩
  have hi := installTables_get cfg.td[c] cfg.tables [none, none, none, none] (by simp; omega)
  rw [hlast] at hi
  simp only [tableOf, hsels c hc, hget, htables, hi]

/-- P6.  The model decoder (`lossless.Decode` for `sv1 = false`, `lossless14sv1.Decode` for
    `sv1 = true`) decodes every stream the independent T.81 Annex H encoder `specEncode` produces:
    arbitrary valid Huffman tables at arbitrary destinations 0..3 (several DHT segments, later ones
    replacing earlier ones), arbitrary assignment of destinations to components. -/
theorem decode_specEncode_gen (sv1 : Bool) (P w h : Nat) (planes : List (List Int)) (cfg : EncCfg)
    (bytes : List Nat) (hcfg : CfgOk sv1 planes.length cfg) (himg : ImgOk P w h planes)
    (henc : specEncode P w h planes cfg = some bytes) :
    decode sv1 bytes =
      .ok ((List.range (w * h)).flatMap (fun i => (List.range planes.length).flatMap fun c =>
             bytesOf P ((planes.getD c []).getD i 0)), w, h, planes.length, P) := by
  obtain ⟨hw, hh, hP, hlen, hrng⟩ := himg
  have hcfg' := hcfg
  obtain ⟨hnc, hids, htd, htdle, htabs, hsel, hsv⟩ := hcfg'
  unfold specEncode at henc
  simp only at henc
  cases hm : cfg.td.mapM (cfgTable cfg) with
  | none => rw [hm] at henc; simp at henc
  | some tbls =>
    rw [hm] at henc
    simp only at henc
    cases hb : scanBitsFrom P w planes.length cfg.sel planes tbls (w * h * planes.length) 0 with
    | none => rw [hb] at henc; simp at henc
    | some bits =>
      rw [hb] at henc
      simp only [Option.some.injEq] at henc
      subst henc
      simp only [List.append_assoc]
      rw [decode_soi]
      have hdl := dhtBytes_length cfg.tables
      generalize hR : (packBits bits ++ [0xFF, 0xD9]) = tail
      obtain ⟨dF, hloop, e1, e2, e3, e4, e5, hsels, htables⟩ :=
        loop_header sv1 P w h planes.length cfg hcfg hw hh hP tail
          ((dhtBytes cfg.tables).length - cfg.tables.length + 1 +
            ((segment 0xC3 ([P, h / 256 % 256, h % 256, w / 256 % 256, w % 256, planes.length] ++
              cfg.ids.flatMap fun id => [id, 0x11, 0]) ++
            (segment 0xDA ([planes.length] ++ ((cfg.ids.zip cfg.td).flatMap fun (id, t) => [id, t * 16]) ++
              [cfg.sel, 0, 0]) ++ tail)).length))
      have hfuel : ∀ (x : Nat), (dhtBytes cfg.tables).length + x + 3 =
          (dhtBytes cfg.tables).length - cfg.tables.length + 1 + x + 2 + cfg.tables.length := by
        intro x; omega
      have hgoal : loop sv1 ((dhtBytes cfg.tables ++
            (segment 0xC3 ([P, h / 256 % 256, h % 256, w / 256 % 256, w % 256, planes.length] ++
                cfg.ids.flatMap fun id => [id, 0x11, 0]) ++
              (segment 0xDA ([planes.length] ++ ((cfg.ids.zip cfg.td).flatMap fun (id, t) => [id, t * 16]) ++
                [cfg.sel, 0, 0]) ++ tail))).length + 3) (if sv1 then { sels := [] } else {})
          (dhtBytes cfg.tables ++
            (segment 0xC3 ([P, h / 256 % 256, h % 256, w / 256 % 256, w % 256, planes.length] ++
                cfg.ids.flatMap fun id => [id, 0x11, 0]) ++
              (segment 0xDA ([planes.length] ++ ((cfg.ids.zip cfg.td).flatMap fun (id, t) => [id, t * 16]) ++
                [cfg.sel, 0, 0]) ++ tail))) = finish sv1 dF tail := by
        rw [List.length_append, hfuel]
        exact hloop
      refine Eq.trans hgoal ?_
      subst hR
      have hc := collect_stuffOk sv1 [] (packBits bits) (packBits_stuffOk bits)
      rw [List.append_nil] at hc
      have hct := compTables_of planes.length cfg tbls dF htd htdle htabs hm hsels htables
      have hsv1 : sv1 = true → cfg.sel = 1 := fun h => (hsv h).1
      have hdec := decodeScanSel_spec sv1 P cfg.sel w h planes tbls (tableOf dF) bits hP hsel hsv1
        (by omega) hlen hrng hct hb
      rw [finish, hc, e1, e2, e3, e4, e5, hdec]
      simp only [Outcome.ok_bind]
      rw [samplesToPixels_ok P w h planes.length _ (planesArr_sized w h planes hlen)]
      simp only [Outcome.ok_bind, cell_planesArr]
      rfl

/-- P6 for jpeg/lossless -/
theorem decode_specEncode (P w h : Nat) (planes : List (List Int)) (cfg : EncCfg) (bytes : List Nat)
    (hcfg : CfgOk false planes.length cfg) (himg : ImgOk P w h planes)
    (henc : specEncode P w h planes cfg = some bytes) :
    decode false bytes =
      .ok ((List.range (w * h)).flatMap (fun i => (List.range planes.length).flatMap fun c =>
             bytesOf P ((planes.getD c []).getD i 0)), w, h, planes.length, P) :=
  decode_specEncode_gen false P w h planes cfg bytes hcfg himg henc

/-- P6 for lossless14sv1 (`CfgOk true` demands `cfg.sel = 1` and distinct component ids; `ImgOk true`'s
    edge condition is vacuous) -/
theorem decode_specEncode_sv1 (P w h : Nat) (planes : List (List Int)) (cfg : EncCfg) (bytes : List Nat)
    (hcfg : CfgOk true planes.length cfg) (himg : ImgOk P w h planes)
    (henc : specEncode P w h planes cfg = some bytes) :
    decode true bytes =
      .ok ((List.range (w * h)).flatMap (fun i => (List.range planes.length).flatMap fun c =>
             bytesOf P ((planes.getD c []).getD i 0)), w, h, planes.length, P) :=
  decode_specEncode_gen true P w h planes cfg bytes hcfg himg henc

theorem specEncode_isSome (P w h : Nat) (planes : List (List Int)) (cfg : EncCfg) :
    (specEncode P w h planes cfg).isSome =
      ((cfg.td.mapM (cfgTable cfg)).bind fun tbls =>
        scanBitsFrom P w planes.length cfg.sel planes tbls (w * h * planes.length) 0).isSome := by
  unfold specEncode
  simp only
  cases cfg.td.mapM (cfgTable cfg) with
  | none => rfl
  | some tbls =>
    simp only [Option.bind_some]
    cases scanBitsFrom P w planes.length cfg.sel planes tbls (w * h * planes.length) 0 <;> rfl

/-! ## the hypotheses are satisfiable: three components, three different destinations, three
  different tables (destination 1 is written twice: the second DHT segment replaces the first) -/

def exCfg : EncCfg :=
  { sel := 1, ids := [1, 2, 3], td := [2, 0, 1],
    tables := [ (1, [0,1,5,1,1,1,1,1,1,0,0,0,0,0,0,0], [0,1,2,3,4,5,6,7,8,9,10,11]),
                (0, [0,1,5,1,1,1,1,1,1,0,0,0,0,0,0,0], [0,1,2,3,4,5,6,7,8,9,10,11]),
                (1, [0,3,1,1,1,1,1,1,1,1,1,0,0,0,0,0], [0,1,2,3,4,5,6,7,8,9,10,11]),
                (2, [0,0,0,0,16,1,0,0,0,0,0,0,0,0,0,0], [16,15,14,13,12,11,10,9,8,7,6,5,4,3,2,1,0]) ] }

def exPlanes : List (List Int) := [[10, 200, 0, 255], [1, 2, 3, 4], [128, 127, 129, 0]]

example : CfgOk false 3 exCfg ∧ CfgOk true 3 exCfg := by decide
example : ImgOk 8 2 2 exPlanes := by decide
example : (specEncode 8 2 2 exPlanes exCfg).isSome = true := by
  rw [specEncode_isSome]; decide

/-- the theorems instantiated: the spec encoder succeeds on the example and both model decoders
    return the source image -/
example : ∃ bytes, specEncode 8 2 2 exPlanes exCfg = some bytes ∧
    decode false bytes = .ok ([10, 1, 128, 200, 2, 127, 0, 3, 129, 255, 4, 0], 2, 2, 3, 8) ∧
    decode true bytes = .ok ([10, 1, 128, 200, 2, 127, 0, 3, 129, 255, 4, 0], 2, 2, 3, 8) := by
  have hs : (specEncode 8 2 2 exPlanes exCfg).isSome = true := by rw [specEncode_isSome]; decide
  obtain ⟨bytes, hb⟩ := Option.isSome_iff_exists.1 hs
  refine ⟨bytes, hb, ?_, ?_⟩
  · rw [decode_specEncode 8 2 2 exPlanes exCfg bytes (by decide) (by decide) hb]; decide
  · rw [decode_specEncode_sv1 8 2 2 exPlanes exCfg bytes (by decide) (by decide) hb]; decide

end T81H
