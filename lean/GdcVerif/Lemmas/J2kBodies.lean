import GdcVerif.Spec.StrictJ2kTiles
import GdcVerif.Model.J2kSample
import GdcVerif.Lemmas.Mqc
import GdcVerif.Lemmas.J2kHeaderCodes
/-!
  C16, JPEG 2000 tile-part bodies: a body that is the concatenation of packet headers written by the
  bit writer of `t2/packet_header_bitio.go` (model `J2k.BioW`, C04) and code-block segments produced by
  `mqc.MQEncoder.Flush` (model `Mqc.encodeBytes`, C20) contains no byte pair in FF90..FFFF and does not
  end on 0xFF.  Concatenation lemma: every piece satisfies the pair predicate and no piece ends on 0xFF,
  so no marker straddles a boundary.
-/
namespace StrictJ2k

theorem PairBelow.mono {m n : Nat} (hmn : m ≤ n) : ∀ (l : List Nat), PairBelow m l → PairBelow n l
  | [], _ => trivial
  | [_], _ => trivial
  | a :: b :: rest, h => ⟨fun ha => Nat.lt_of_lt_of_le (h.1 ha) hmn, PairBelow.mono hmn (b :: rest) h.2⟩

theorem PairBelow.tail {n a : Nat} {l : List Nat} (h : PairBelow n (a :: l)) : PairBelow n l := by
  cases l with
  | nil => trivial
  | cons b r => exact h.2

/-- CONCATENATION: no marker straddles the boundary when the left piece does not end on 0xFF -/
theorem PairBelow.append {n : Nat} : ∀ (a b : List Nat), PairBelow n a → PairBelow n b → a.getLast? ≠ some 255 →
    PairBelow n (a ++ b)
  | [], b, _, hb, _ => hb
  | [x], b, _, hb, hl => by
    cases b with
    | nil => trivial
    | cons y r => exact ⟨fun hx => absurd (by simp [hx]) hl, hb⟩
  | x :: y :: r, b, ha, hb, hl => by
    have ih := PairBelow.append (y :: r) b ha.2 hb (by simpa [List.getLast?_cons_cons] using hl)
    exact ⟨ha.1, ih⟩

theorem getLast_append_ne (a b : List Nat) (ha : a.getLast? ≠ some 255) (hb : b.getLast? ≠ some 255) :
    (a ++ b).getLast? ≠ some 255 := by
  cases b with
  | nil => simpa using ha
  | cons y r =>
    rw [List.getLast?_append]
    cases h : (y :: r).getLast? with
    | none => simp at h
    | some v => simpa [h] using hb

/-- a body made of pieces each of which is `BodyOk` is `BodyOk` (any number of pieces, empty ones included) -/
theorem bodyOk_flatten : ∀ (pieces : List (List Nat)), (∀ p ∈ pieces, BodyOk p) → BodyOk pieces.flatten
  | [], _ => ⟨trivial, by simp⟩
  | p :: ps, h => by
    have hp := h p (by simp)
    have ih := bodyOk_flatten ps (fun q hq => h q (by simp [hq]))
    simp only [List.flatten_cons]
    exact ⟨PairBelow.append p _ hp.1 ih.1 hp.2, getLast_append_ne _ _ hp.2 ih.2⟩

/-- a contiguous part of a stream that satisfies the pair predicate satisfies it too (code-block contributions
    of one layer are slices `data[a:b]` of the code-block's MQ stream) -/
theorem PairBelow.drop {n : Nat} : ∀ (k : Nat) (l : List Nat), PairBelow n l → PairBelow n (l.drop k)
  | 0, l, h => by simpa using h
  | _ + 1, [], _ => by simp [PairBelow]
  | k + 1, _ :: r, h => by simpa using PairBelow.drop k r h.tail

theorem PairBelow.take {n : Nat} : ∀ (k : Nat) (l : List Nat), PairBelow n l → PairBelow n (l.take k)
  | 0, _, _ => by simp [PairBelow]
  | _ + 1, [], _ => by simp [PairBelow]
  | 1, [_], _ => by simp [PairBelow]
  | 1, _ :: _ :: _, _ => by simp [PairBelow]
  | k + 2, [x], _ => by simp [PairBelow]
  | k + 2, x :: y :: r, h => by
    have ih := PairBelow.take (k + 1) (y :: r) h.2
    simp only [List.take_succ_cons] at ih ⊢
    exact ⟨h.1, ih⟩

end StrictJ2k

namespace JpegC
open StrictJ2k

/-! ### MQ coder output (C20) -/

theorem streamOk_pairBelow : ∀ (l : List Nat), Mqc.StreamOk l → PairBelow 0x90 l
  | [], _ => trivial
  | [_], _ => trivial
  | a :: b :: rest, h => by
    have hrest : Mqc.StreamOk (b :: rest) :=
      ⟨fun j v hj => h.1 (j + 1) v (by simpa using hj), fun j hj => by
        obtain ⟨v, hv, hle⟩ := h.2 (j + 1) (by simpa using hj)
        exact ⟨v, by simpa using hv, hle⟩⟩
    refine ⟨fun ha => ?_, streamOk_pairBelow (b :: rest) hrest⟩
    obtain ⟨v, hv, hle⟩ := h.2 0 (by simp [ha])
    simp at hv
    omega

/-- every byte string `MQEncoder.Flush` returns (any context count, any decision sequence) is an admissible piece -/
theorem mq_segment_bodyOk (n : Nat) (ds : List (Nat × Nat)) (hds : ∀ d ∈ ds, d.2 < n) :
    ∃ bytes, Mqc.encodeBytes n ds = some bytes ∧ BodyOk bytes := by
  obtain ⟨bytes, h1, h2⟩ := Mqc.encoder_stream n ds hds
  exact ⟨bytes, h1, streamOk_pairBelow bytes h2, h2.no_trailing_ff⟩

/-! ### packet-header bit writer (C04's `BioW`): stream-level stuffing invariant -/

open J2k in
/-- invariant of `bioWriter`: the bytes written so far are pairwise stuffed with 7-bit successors, and when the last
    byte written is 0xFF the pending byte (low byte of `out`) has its top bit clear and at most 7 free positions -/
def BioInv (w : BioW) : Prop :=
  PairBelow 128 w.buf ∧ (w.buf.getLast? = some 255 → w.ct ≤ 7 ∧ w.out % 256 < 128)

open J2k in
theorem pairBelow_snoc (l : List Nat) (b : Nat) (hl : PairBelow 128 l) (hb : l.getLast? = some 255 → b < 128) :
    PairBelow 128 (l ++ [b]) := by
  induction l with
  | nil => trivial
  | cons x r ih =>
    cases r with
    | nil => exact ⟨fun hx => hb (by simp [hx]), trivial⟩
    | cons y r' =>
      exact ⟨hl.1, ih hl.2 (by simpa [List.getLast?_cons_cons] using hb)⟩

open J2k in
theorem bioInv_new : BioInv BioW.new := ⟨trivial, by simp [BioW.new]⟩

open J2k in
theorem bioInv_byteOut (w : BioW) (h : BioInv w) : BioInv w.byteOut := by
  unfold BioW.byteOut
  have hb : (w.out * 256) % 65536 / 256 % 256 = w.out % 256 := by omega
  refine ⟨?_, ?_⟩
  · simp only [hb]
    exact pairBelow_snoc _ _ h.1 (fun hl => (h.2 hl).2)
  · intro hl
    simp only [List.getLast?_append, List.getLast?_singleton, Option.some_or, Option.some.injEq, hb] at hl
    have e : (w.out * 256) % 65536 = 0xff00 := by omega
    simp [e]

open J2k in
theorem bioInv_writeBit (w : BioW) (bit : Bool) (h : BioInv w) : BioInv (w.writeBit bit) := by
  unfold BioW.writeBit
  by_cases hc : w.ct = 0
  · have h' := bioInv_byteOut w h
    simp only [hc, beq_self_eq_true, if_true]
    refine ⟨h'.1, fun hl => ?_⟩
    obtain ⟨h1, h2⟩ := h'.2 hl
    refine ⟨by dsimp only; omega, ?_⟩
    cases bit
    · simpa using h2
    · simp only [if_true]
      have hk : w.byteOut.ct - 1 ≤ 6 := by omega
      have : (w.byteOut.out ||| 2 ^ (w.byteOut.ct - 1)) % 2 ^ 8 = w.byteOut.out % 2 ^ 8 ||| 2 ^ (w.byteOut.ct - 1) % 2 ^ 8 :=
        Nat.or_mod_two_pow
      have hp : 2 ^ (w.byteOut.ct - 1) < 2 ^ 7 := Nat.pow_lt_pow_right (by decide) (by omega)
      have hp8 : 2 ^ (w.byteOut.ct - 1) % 2 ^ 8 = 2 ^ (w.byteOut.ct - 1) := Nat.mod_eq_of_lt (by omega)
      have : (w.byteOut.out ||| 2 ^ (w.byteOut.ct - 1)) % 256 < 2 ^ 7 := by
        show (w.byteOut.out ||| 2 ^ (w.byteOut.ct - 1)) % 2 ^ 8 < 2 ^ 7
        rw [this, hp8]
        exact Nat.or_lt_two_pow (by simpa using h2) hp
      simpa using this
  · have hne : (w.ct == 0) = false := by simp [hc]
    simp only [hne, if_false, Bool.false_eq_true]
    refine ⟨h.1, fun hl => ?_⟩
    obtain ⟨h1, h2⟩ := h.2 hl
    refine ⟨by dsimp only; omega, ?_⟩
    cases bit
    · simpa using h2
    · simp only [if_true]
      have hp : 2 ^ (w.ct - 1) < 2 ^ 7 := Nat.pow_lt_pow_right (by decide) (by omega)
      have hp8 : 2 ^ (w.ct - 1) % 2 ^ 8 = 2 ^ (w.ct - 1) := Nat.mod_eq_of_lt (by omega)
      have e : (w.out ||| 2 ^ (w.ct - 1)) % 2 ^ 8 = w.out % 2 ^ 8 ||| 2 ^ (w.ct - 1) % 2 ^ 8 := Nat.or_mod_two_pow
      have : (w.out ||| 2 ^ (w.ct - 1)) % 256 < 2 ^ 7 := by
        show (w.out ||| 2 ^ (w.ct - 1)) % 2 ^ 8 < 2 ^ 7
        rw [e, hp8]
        exact Nat.or_lt_two_pow (by simpa using h2) hp
      simpa using this

open J2k in
theorem bioInv_writeBitsList : ∀ (bits : List Bool) (w : BioW), BioInv w → BioInv (w.writeBitsList bits)
  | [], _, h => h
  | b :: bs, w, h => bioInv_writeBitsList bs _ (bioInv_writeBit w b h)

open J2k in
/-- every packet header the bit writer produces (any bit string, then `flush`) is an admissible piece: every 0xFF is
    followed by a byte < 0x80 (so < 0x90), and it does not end on 0xFF -/
theorem bio_header_bodyOk (bits : List Bool) : BodyOk (BioW.new.writeBitsList bits).flush := by
  have hi := bioInv_writeBitsList bits BioW.new bioInv_new
  have h1 := bioInv_byteOut _ hi
  refine ⟨PairBelow.mono (m := 128) (by omega) _ ?_, J2k.flush_last_not_FF' _⟩
  unfold BioW.flush
  simp only
  split
  · exact (bioInv_byteOut _ h1).1
  · exact h1.1

/-! ### the body abstraction -/

/-- one piece of a tile-part body, as `t2.PacketEncoder` appends them: a packet header (the bits the header coder
    wrote, flushed) or a code-block contribution (here: the whole byte string of one MQ `Flush`) -/
inductive Piece where
  | header (bits : List Bool)
  | mqSegment (numContexts : Nat) (decisions : List (Nat × Nat))

def Piece.Wf : Piece → Prop
  | .header _ => True
  | .mqSegment n ds => ∀ d ∈ ds, d.2 < n

open J2k in
def Piece.bytes : Piece → List Nat
  | .header bits => (BioW.new.writeBitsList bits).flush
  | .mqSegment n ds => (Mqc.encodeBytes n ds).getD []

theorem piece_bodyOk (p : Piece) (h : p.Wf) : BodyOk p.bytes := by
  cases p with
  | header bits => exact bio_header_bodyOk bits
  | mqSegment n ds =>
    obtain ⟨bytes, h1, h2⟩ := mq_segment_bodyOk n ds h
    simpa [Piece.bytes, h1] using h2

/-- J2K BODIES ARE MARKER FREE: a tile-part body that is the concatenation of packet headers and MQ segments
    contains no byte pair FF90..FFFF and does not end on 0xFF — for any number and order of pieces. -/
theorem body_of_pieces_marker_free (ps : List Piece) (h : ∀ p ∈ ps, p.Wf) : BodyOk (ps.map Piece.bytes).flatten := by
  apply bodyOk_flatten
  intro q hq
  simp only [List.mem_map] at hq
  obtain ⟨p, hp, rfl⟩ := hq
  exact piece_bodyOk p (h p hp)

end JpegC
