import GdcVerif.Lemmas.MqcSeg
/-!
  The decoder of a later codeword segment, seen at absolute buffer positions: `shiftDec pre d` puts the bytes `pre`
  of the earlier segments in front of the decoder's data.  Decoding commutes with this view, so the lock-step relation
  `Rel` (stated for absolute positions of the encoder's buffer) applies to every segment.
-/
namespace Mqc

def shiftDec (pre : Array Nat) (d : Dec) : Dec := { d with data := pre ++ d.data, bp := pre.size + d.bp }

theorem get_shift (pre data : Array Nat) (k : Nat) : (pre ++ data)[pre.size + k]? = data[k]? := by
  rw [Array.getElem?_append_right (by omega)]
  congr 1; omega

theorem bytein_shift (pre : Array Nat) (d : Dec) : bytein (shiftDec pre d) = (bytein d).map (shiftDec pre) := by
  unfold bytein shiftDec
  simp only [Array.size_append]
  by_cases h : d.bp + 1 ≥ d.data.size
  · rw [if_pos (by omega), if_pos h]; rfl
  · rw [if_neg (by omega), if_neg h]
    rw [show pre.size + d.bp + 1 = pre.size + (d.bp + 1) by omega, get_shift, get_shift]
    cases d.data[d.bp + 1]? with
    | none => rfl
    | some next =>
      cases d.data[d.bp]? with
      | none => rfl
      | some cur =>
        simp only []
        split
        · split <;> rfl
        · rfl

theorem renormdLoop_shift (pre : Array Nat) : ∀ (fuel : Nat) (d : Dec),
    renormdLoop fuel (shiftDec pre d) = (renormdLoop fuel d).map (shiftDec pre) := by
  intro fuel
  induction fuel with
  | zero =>
    intro d
    simp only [renormdLoop]
    show (if d.a < 0x8000 then none else some (shiftDec pre d)) = _
    split <;> rfl
  | succ f ih =>
    intro d
    simp only [renormdLoop]
    show (if d.a < 0x8000 then _ else some (shiftDec pre d)) = _
    by_cases ha : d.a < 0x8000
    · rw [if_pos ha, if_pos ha]
      by_cases hct : d.ct = 0
      · have : (shiftDec pre d).ct = 0 := hct
        rw [if_pos this, if_pos hct, bytein_shift]
        cases bytein d with
        | none => rfl
        | some d1 =>
          exact ih { d1 with a := u32 (d1.a * 2), c := u32 (d1.c * 2), ct := d1.ct - 1 }
      · have : ¬ (shiftDec pre d).ct = 0 := hct
        rw [if_neg this, if_neg hct]
        exact ih { d with a := u32 (d.a * 2), c := u32 (d.c * 2), ct := d.ct - 1 }
    · rw [if_neg ha, if_neg ha]; rfl

theorem upd_shift (pre : Array Nat) (d : Dec) (a c : Nat) (ctx : Array Nat) :
    ({ shiftDec pre d with a := a, c := c, ctx := ctx } : Dec) = shiftDec pre { d with a := a, c := c, ctx := ctx } := rfl

theorem decodeCore_shift (pre : Array Nat) (d : Dec) (contextID cx qe nmps nlps sw : Nat) :
    decodeCore (shiftDec pre d) contextID cx qe nmps nlps sw =
      (decodeCore d contextID cx qe nmps nlps sw).map (fun r => (r.1, shiftDec pre r.2)) := by
  have hr : ∀ (d : Dec), renormd (shiftDec pre d) = (renormd d).map (shiftDec pre) := fun d => renormdLoop_shift pre 16 d
  have hm : ∀ (o : Option Dec) (b : Nat), (o.map (shiftDec pre)).map (fun x => (b, x)) =
      (o.map (fun x => (b, x))).map (fun r => (r.1, shiftDec pre r.2)) := by
    intro o b; cases o <;> rfl
  have key : ∀ (b a c : Nat) (ctx : Array Nat),
      Option.map (fun x => (b, x)) (renormd ({ shiftDec pre d with a := a, c := c, ctx := ctx } : Dec)) =
      Option.map (fun r => (r.1, shiftDec pre r.2)) (Option.map (fun x => (b, x)) (renormd { d with a := a, c := c, ctx := ctx })) := by
    intro b a c ctx
    rw [upd_shift, hr]
    exact hm _ _
  unfold decodeCore
  simp only [show (shiftDec pre d).a = d.a from rfl, show (shiftDec pre d).c = d.c from rfl,
    show (shiftDec pre d).ctx = d.ctx from rfl]
  by_cases h1 : d.c / 2 ^ 16 < qe
  · rw [if_pos h1, if_pos h1]
    by_cases h2 : sub32 d.a qe < qe
    · rw [if_pos h2, if_pos h2]
      exact key _ _ _ _
    · rw [if_neg h2, if_neg h2]
      exact key _ _ _ _
  · rw [if_neg h1, if_neg h1]
    by_cases h3 : sub32 d.a qe / 0x8000 % 2 ≠ 0
    · rw [if_pos h3, if_pos h3]
      simp only [Option.map_some]
      generalize sub32 d.a qe = A
      generalize sub32 d.c (u32 (qe * 2 ^ 16)) = C
      exact congrArg some (congrArg (Prod.mk (cx / 128)) (upd_shift pre d A C d.ctx))
    · rw [if_neg h3, if_neg h3]
      by_cases h2 : sub32 d.a qe < qe
      · rw [if_pos h2, if_pos h2]
        exact key _ _ _ _
      · rw [if_neg h2, if_neg h2]
        exact key _ _ _ _

/-- `Decode` commutes with the absolute view -/
theorem decode_shift (pre : Array Nat) (d : Dec) (cx : Nat) :
    decode (shiftDec pre d) cx = (decode d cx).map (fun r => (r.1, shiftDec pre r.2)) := by
  unfold decode
  show (match d.ctx[cx]? with | none => none | some c => _) = _
  cases d.ctx[cx]? with
  | none => rfl
  | some c =>
    simp only []
    cases lookup (c % 128) with
    | none => rfl
    | some r =>
      obtain ⟨qe, nmps, nlps, sw⟩ := r
      exact decodeCore_shift pre d cx c qe nmps nlps sw

/-- the decoder of a segment that starts after buffer position `p0` is in lock-step with the (re)started encoder:
generalisation of `decNew_rel` to any start position, dummy byte and context array -/
theorem decInit_rel (B : Nat → Nat) (last LEN : Nat) (hB : BOk B last LEN) (e0 : Enc) (p0 : Nat) (seg : List Nat)
    (hbp : e0.bp = p0) (ha : e0.a = 0x8000) (hc : e0.c = 0) (hct : e0.ct = 12) (hnf : rd e0.buf p0 ≠ 255)
    (pre : Array Nat) (hpre : pre.size = p0) (hpd : ∀ k, k < p0 → rd pre k = B (k + 1))
    (hlen : p0 + seg.length = LEN) (hseg : ∀ k, k < seg.length → seg[k]? = some (B (p0 + k + 1)))
    (hfe : FE B last e0) :
    ∃ d0, Dec.init (Dec.mk (seg ++ [0xFF, 0xFF]).toArray 0 seg.length 0x8000 0 0 0 e0.ctx) = some d0 ∧
      Rel B last LEN e0 (shiftDec pre d0) := by
  have hsz : (pre ++ (seg ++ [0xFF, 0xFF]).toArray).size = LEN + 2 := by simp [hpre]; omega
  have hdata : ∀ k, k < LEN + 2 → rd (pre ++ (seg ++ [0xFF, 0xFF]).toArray) k = B (k + 1) := by
    intro k hk
    rcases Nat.lt_or_ge k p0 with h | h
    · have : rd (pre ++ (seg ++ [0xFF, 0xFF]).toArray) k = rd pre k := by
        unfold rd; rw [Array.getElem?_append_left (by omega)]
      rw [this]; exact hpd k h
    · obtain ⟨k', rfl⟩ : ∃ k', k = pre.size + k' := ⟨k - p0, by omega⟩
      unfold rd
      rw [get_shift, List.getElem?_toArray]
      rcases Nat.lt_or_ge k' seg.length with h' | h'
      · rw [List.getElem?_append_left h', hseg k' h', hpre]; rfl
      · rw [List.getElem?_append_right (by omega), hB.pad (pre.size + k' + 1) (by omega)]
        have : k' - seg.length = 0 ∨ k' - seg.length = 1 := by omega
        rcases this with h0 | h0 <;> rw [h0] <;> rfl
  have hfe' : FA B last e0.buf p0 (0 * 2 ^ (12 : Int).toNat) ((0 + 32768) * 2 ^ (12 : Int).toNat) := by
    have := hfe; unfold FE at this; rw [hbp, hc, ha, hct] at this; exact this
  have hnum : (0 + 256) * 2 ^ (19 : Int).toNat = (0 + 32768) * 2 ^ (12 : Int).toNat := by decide
  have hnum0 : (0 : Nat) * 2 ^ (19 : Int).toNat = 0 * 2 ^ (12 : Int).toNat := by decide
  -- no carry reaches the byte in front of the segment
  have hB0 : B p0 = rd e0.buf p0 := by
    have hu := hfe'.up 0
    unfold Up Rv Wd Seg at hu
    simp only [Nat.pow_zero, Nat.mul_one, Nat.add_zero] at hu
    have : (0 + 32768) * 2 ^ (12 : Int).toNat = 134217728 := by decide
    rw [this] at hu
    rcases hfe'.cur with h | h
    · exact h
    · rw [h] at hu; omega
  have hw1 : wd B last (p0 + 1) = 8 := by
    unfold wd; rw [if_neg (by intro h; rw [Nat.add_sub_cancel, hB0] at h; exact hnf h.1)]
  let ev : Enc := { e0 with a := 256, ct := 19 }
  let dv : Dec := Dec.mk (pre ++ (seg ++ [0xFF, 0xFF]).toArray) p0 seg.length 256 (B (p0 + 1) * 65536) 0 0 e0.ctx
  have hfev : FE B last ev := by
    show FA B last e0.buf e0.bp (e0.c * 2 ^ (19 : Int).toNat) ((e0.c + 256) * 2 ^ (19 : Int).toNat)
    rw [hbp, hc, hnum, hnum0]; exact hfe'
  have hrv : Rel B last LEN ev dv := by
    refine ⟨rfl, rfl, hsz, hdata, by show p0 ≤ LEN; omega, ?_, ?_, ?_, by show e0.bp < p0 + 1 + 0; omega, ?_, ?_⟩
    · intro h; exact absurd h (by show ¬ 0 < 0; omega)
    · show (0 : Int) ≤ 0; decide
    · show (0 : Int) ≤ 8; decide
    · show Wd B last e0.bp (p0 + 1 + 0 - e0.bp) + (19 : Int).toNat = 27 + (0 : Int).toNat
      rw [hbp, show p0 + 1 + 0 - p0 = 1 by omega]
      simp only [Wd, hw1]; decide
    · show Rv B last (B e0.bp - rd e0.buf e0.bp) e0.bp (p0 + 1 + 0 - e0.bp) * 2 ^ (16 - (0 : Int).toNat) =
        e0.c * 65536 + B (p0 + 1) * 65536
      rw [hbp, hc, show p0 + 1 + 0 - p0 = 1 by omega, hB0]
      unfold Rv
      simp only [Wd, Seg, hw1]
      simp
  obtain ⟨d1, hd1, hr1, hct1⟩ := bytein_rel B last LEN hB ev dv hrv rfl (by show 256 < 65536; decide) hfev.up
  have hclt : d1.c < 33554432 := by
    have := rel_c_lt B last LEN _ _ hr1 hfev
    have e : ev.a = 256 := rfl
    rw [e] at this
    omega
  have hr7 := shiftk_rel B last LEN 7 ev d1 0x8000 hr1 (by show (7 : Int) ≤ 19; decide) (by omega)
  have he7 : ({ ev with a := 0x8000, c := ev.c * 2 ^ 7, ct := ev.ct - ((7 : Nat) : Int) } : Enc) = e0 := by
    show ({ e0 with a := 0x8000, c := e0.c * 2 ^ 7, ct := (19 : Int) - ((7 : Nat) : Int) } : Enc) = e0
    rw [hc]
    cases e0
    simp only [] at ha hct hc
    subst ha hct hc
    rfl
  rw [he7] at hr7
  -- the actual (unshifted) decoder
  let du : Dec := Dec.mk (seg ++ [0xFF, 0xFF]).toArray 0 seg.length 256 (B (p0 + 1) * 65536) 0 0 e0.ctx
  have hdv : dv = shiftDec pre du := by
    have : p0 = pre.size + 0 := by omega
    show Dec.mk _ p0 _ _ _ _ _ _ = Dec.mk _ (pre.size + 0) _ _ _ _ _ _
    exact congrArg (fun n => Dec.mk (pre ++ (seg ++ [0xFF, 0xFF]).toArray) n seg.length 256 (B (p0 + 1) * 65536) 0 0 e0.ctx) this
  rw [hdv, bytein_shift] at hd1
  cases hbu : bytein du with
  | none => rw [hbu] at hd1; exact absurd hd1 (by simp)
  | some d1u =>
    rw [hbu] at hd1
    have hd1' : shiftDec pre d1u = d1 := Option.some.inj hd1
    unfold Dec.init
    simp only []
    have h0 : (if seg.length = 0 then some 0xFF else (seg ++ [0xFF, 0xFF]).toArray[0]?) = some (B (p0 + 1)) := by
      by_cases hne : seg.length = 0
      · rw [if_pos hne, hB.pad (p0 + 1) (by omega)]
      · rw [if_neg hne, List.getElem?_toArray, List.getElem?_append_left (by omega), hseg 0 (by omega)]
    rw [h0]
    simp only []
    have hb1 := hB.bytes (p0 + 1)
    rw [u32_id (B (p0 + 1) * 2 ^ 16) (by omega)]
    have hbi := bytein_seta du 0x8000
    have hdu : ({ du with a := 0x8000 } : Dec) =
        Dec.mk (seg ++ [0xFF, 0xFF]).toArray 0 seg.length 0x8000 (B (p0 + 1) * 2 ^ 16) 0 0 e0.ctx := rfl
    rw [hdu, hbu] at hbi
    rw [hbi]
    simp only [Option.map_some]
    refine ⟨_, rfl, ?_⟩
    have hc1 : d1u.c = d1.c := by rw [← hd1']; rfl
    rw [u32_id (d1u.c * 2 ^ 7) (by rw [hc1]; omega)]
    rw [← hd1'] at hr7
    exact hr7

/-- `FlushToOutput()` inside a segment leaves the bytes in front of the segment alone -/
theorem seg_flush (p0 : Nat) (b0 : Array Nat) (e : Enc) (h : RegOk e) (hn : 0x8000 ≤ e.a) (hs : InSeg p0 b0 e) :
    ∀ ef, flushToOutput e = some ef → (∀ j, j ≤ p0 → rd ef.buf j = rd b0 j) ∧ p0 + 2 ≤ ef.bp := by
  intro ef hef
  have hah := h.ahi; have hcl := h.ctlo; have hch := h.cthi
  have hK := pow_pos2 e.ct.toNat
  have hcA := c_lt_of_A hK h.A
  have htemp : u32 (e.c + e.a) = e.c + e.a := by unfold u32; omega
  obtain ⟨c2, hc2def, hc2lt⟩ : ∃ c2, (if e.c / 65536 * 65536 + 0xFFFF ≥ e.c + e.a
      then sub32 (e.c / 65536 * 65536 + 0xFFFF) 0x8000 else e.c / 65536 * 65536 + 0xFFFF) = c2 ∧ c2 + 1 ≤ e.c + e.a := by
    refine ⟨_, rfl, ?_⟩
    split
    · rw [sub32_eq _ _ (by omega) (by omega)]; omega
    · omega
  have hmono : (c2 + 1) * 2 ^ e.ct.toNat ≤ (e.c + e.a) * 2 ^ e.ct.toNat := Nat.mul_le_mul_right _ hc2lt
  have hA1 : c2 * 2 ^ e.ct.toNat + 1 ≤ 150994944 := mul_succ_le hK (Nat.le_trans hmono h.A)
  have hshl : shl32 c2 e.ct.toNat = c2 * 2 ^ e.ct.toNat := by
    unfold shl32 u32; rw [if_neg (by omega)]; omega
  have hB1 : 1 ≤ e.bp → rd e.buf (e.bp - 1) = 255 → rd e.buf e.bp * 134217728 + c2 * 2 ^ e.ct.toNat + 1 ≤ 19327352832 := by
    intro h1 h255
    have hb := h.B h1 h255
    have : c2 * 2 ^ e.ct.toNat + 1 ≤ (e.c + e.a) * 2 ^ e.ct.toNat := mul_succ_le hK hmono
    exact Nat.le_trans (by rw [Nat.add_assoc]; exact Nat.add_le_add_left this _) hb
  obtain ⟨e2, he2, hbuf2, hbp2, ha2, hctx2, hct2, hA2, hB2⟩ :=
    byteout_spec { e with c := c2 * 2 ^ e.ct.toNat } 1 h.buf (by omega) (by omega) hA1 hB1
  simp only [] at hbp2
  have hp : p0 ≤ e.bp := by rcases hs.2 with ⟨h', _⟩ | ⟨h', _⟩ <;> omega
  have hs2 := seg_byteout p0 b0 { e with c := c2 * 2 ^ e.ct.toNat } 1 h.buf (by omega) hA1 hB1 hs.1 hp
    (by
      intro hbp
      rcases hs.2 with ⟨_, h'⟩ | ⟨h', _⟩
      · have : c2 * 2 ^ e.ct.toNat + 1 ≤ (e.c + e.a) * 2 ^ e.ct.toNat := mul_succ_le hK hmono
        exact Nat.le_trans this h'
      · have : e.bp = p0 := hbp
        omega) e2 he2
  have hK2 := pow_pos2 e2.ct.toNat
  have hA3 : e2.c * 2 ^ e2.ct.toNat + 1 ≤ 150994944 := mul_succ_le hK2 hA2
  have hshl2 : shl32 e2.c e2.ct.toNat = e2.c * 2 ^ e2.ct.toNat := by
    unfold shl32 u32; rw [if_neg (by omega)]; omega
  have hB3 : 1 ≤ e2.bp → rd e2.buf (e2.bp - 1) = 255 → rd e2.buf e2.bp * 134217728 + e2.c * 2 ^ e2.ct.toNat + 1 ≤ 19327352832 := by
    intro h1 h255
    have hb := hB2 h255
    have : e2.c * 2 ^ e2.ct.toNat + 1 ≤ (e2.c + 1) * 2 ^ e2.ct.toNat := mul_succ_le hK2 (Nat.le_refl _)
    exact Nat.le_trans (by rw [Nat.add_assoc]; exact Nat.add_le_add_left this _) hb
  obtain ⟨e4, he4, hbuf4, hbp4, ha4, hctx4, hct4, hA4, hB4⟩ :=
    byteout_spec { e2 with c := e2.c * 2 ^ e2.ct.toNat } 1 hbuf2 (by omega) (by omega) hA3 hB3
  simp only [] at hbp4
  have hs4 := seg_byteout p0 b0 { e2 with c := e2.c * 2 ^ e2.ct.toNat } 1 hbuf2 (by omega) hA3 hB3 hs2.1
    (Nat.le_of_lt hs2.2.1) (by intro hbp; have h1 := hs2.2.1; have h2 : e2.bp = p0 := hbp; omega) e4 he4
  have hfl : flushToOutput e = some (if rd e4.buf e4.bp ≠ 255 then { e4 with bp := e4.bp + 1 } else e4) := by
    unfold flushToOutput
    simp only [htemp, hc2def, hshl, he2, hshl2, he4, rd_some e4.buf e4.bp hbuf4.inb]
  rw [hfl] at hef
  injection hef with hef
  rw [← hef]
  split
  · exact ⟨hs4.1, by show p0 + 2 ≤ e4.bp + 1; omega⟩
  · exact ⟨hs4.1, by omega⟩

/-- the restarted coder opens a segment in front of which the finished stream lies -/
theorem seg_restart (e : Enc) (hbp : 1 ≤ e.bp) (hnf : e.buf[e.bp - 1]? ≠ some 0xFF) :
    InSeg (e.bp - 1) e.buf (restartInitEnc e) := by
  have hform : restartInitEnc e = { e with a := 0x8000, c := 0, ct := 12, bp := e.bp - 1 } := by
    unfold restartInitEnc
    have hb : (if e.bp > start - 1 then e.bp - 1 else e.bp) = e.bp - 1 := by rw [if_pos (by unfold start; omega)]
    simp only [hb, if_neg hnf]
  rw [hform]
  exact ⟨fun _ _ => rfl, Or.inl ⟨rfl, by show (0 + 32768) * 2 ^ (12 : Int).toNat ≤ 134217728; decide⟩⟩
end Mqc
