import GdcVerif.Lemmas.J2kContainer
import GdcVerif.Spec.StrictJ2kHeader
/-!
  C16: the strict SIZ / COD / QCD readers (`Spec/StrictJ2kHeader.lean`) applied to the bytes of the
  `writeSIZ` / `writeCOD` / `writeQCD` models return exactly the parameters.
-/
namespace JpegC
open StrictJ2k Gen.C16J2kMarkers

theorem mCOD : be16 MarkerCOD.toNat = [0xFF, 0x52] := by decide
theorem mQCD : be16 MarkerQCD.toNat = [0xFF, 0x5C] := by decide

/-- parameters as `validateParams` (HEAD) admits them, restricted to what the SIZ fields can carry -/
structure J2kParams.SizOk (p : J2kParams) : Prop where
  w : 0 < p.width ∧ p.width < 4294967296
  h : 0 < p.height ∧ p.height < 4294967296
  c : 1 ≤ p.components ∧ p.components ≤ 16384
  d : 1 ≤ p.bitDepth ∧ p.bitDepth ≤ 38
  tw : 0 ≤ p.tileWidth ∧ p.tileWidth < 4294967296
  th : 0 ≤ p.tileHeight ∧ p.tileHeight < 4294967296

theorem be32_w32 (v : Nat) (h : v < 4294967296) :
    w32 (v / 16777216 % 256) (v / 65536 % 256) (v / 256 % 256) (v % 256) = v := by
  unfold w32; omega

theorem or128 : ∀ d < 38, d ||| 0x80 = d + 128 := by decide

theorem parseSizComps_replicate (s : Nat) (hs : s % 128 ≤ 37) : ∀ n : Nat,
    parseSizComps n (List.replicate n [s, 1, 1]).flatten =
      some (List.replicate n { depthM1 := s % 128, signed := decide (s ≥ 128), xr := 1, yr := 1 }) := by
  intro n
  induction n with
  | zero => rfl
  | succ k ih =>
    have : ¬ (s % 128 > 37 ∨ 1 < 1 ∨ 1 < 1) := by omega
    simp [List.replicate_succ, parseSizComps, ih]
    omega

/-- the SIZ reader on the byte layout of Table A.9 with plain numbers -/
theorem parseSiz_bytes (rsiz W H TW TH C s : Nat) (hr : rsiz < 65536) (hW : 1 ≤ W ∧ W < 4294967296)
    (hH : 1 ≤ H ∧ H < 4294967296) (hTW : 1 ≤ TW ∧ TW < 4294967296) (hTH : 1 ≤ TH ∧ TH < 4294967296)
    (hC : 1 ≤ C ∧ C ≤ 16384) (hs : s % 128 ≤ 37) :
    parseSiz ([0xFF, 0x51] ++ be16 (38 + 3 * C) ++ be16 rsiz ++ be32 W ++ be32 H ++ be32 0 ++ be32 0 ++
      be32 TW ++ be32 TH ++ be32 0 ++ be32 0 ++ be16 C ++ (List.replicate C [s, 1, 1]).flatten) = some
      { rsiz := rsiz, xsiz := W, ysiz := H, xosiz := 0, yosiz := 0, xtsiz := TW, ytsiz := TH, xtosiz := 0, ytosiz := 0,
        comps := List.replicate C { depthM1 := s % 128, signed := decide (s ≥ 128), xr := 1, yr := 1 } } := by
  have hl16 : w16 ((38 + 3 * C) / 256 % 256) ((38 + 3 * C) % 256) = 38 + 3 * C := by unfold w16; omega
  have hc16 : w16 (C / 256 % 256) (C % 256) = C := by unfold w16; omega
  have hr16 : w16 (rsiz / 256 % 256) (rsiz % 256) = rsiz := by unfold w16; omega
  have z : w32 (0 / 16777216 % 256) (0 / 65536 % 256) (0 / 256 % 256) (0 % 256) = 0 := by decide
  simp only [be16, be32, List.cons_append, List.nil_append, parseSiz, hl16, hc16, hr16, z,
    be32_w32 W hW.2, be32_w32 H hH.2, be32_w32 TW hTW.2, be32_w32 TH hTH.2, parseSizComps_replicate s hs C]
  have c1 : ¬ (38 + 3 * C ≠ 38 + 3 * C ∨ C < 1 ∨ C > 16384) := by omega
  have c2 : ¬ (W < 1 ∨ H < 1 ∨ TW < 1 ∨ TH < 1) := by omega
  have c3 : ¬ (0 ≥ W ∨ 0 ≥ H ∨ 0 > 0 ∨ 0 > 0 ∨ 0 + TW ≤ 0 ∨ 0 + TH ≤ 0) := by omega
  simp only [if_neg c1, if_neg c2, if_neg c3, Option.map_some]

/-- the byte layout of `writeSIZ` with every field spelled out -/
theorem writeSIZ_bytes (p : J2kParams) (hp : p.SizOk) :
    writeSIZ p = [0xFF, 0x51] ++ be16 (38 + 3 * p.components.toNat) ++ be16 (if p.htj2k then 0x4000 else 0) ++
      be32 p.width.toNat ++ be32 p.height.toNat ++ be32 0 ++ be32 0 ++
      be32 (if p.tileWidth = 0 then p.width else p.tileWidth).toNat ++
      be32 (if p.tileHeight = 0 then p.height else p.tileHeight).toNat ++ be32 0 ++ be32 0 ++
      be16 p.components.toNat ++
      (List.replicate p.components.toNat
        [if p.isSigned then (p.bitDepth - 1).toNat ||| 0x80 else (p.bitDepth - 1).toNat, 1, 1]).flatten := by
  obtain ⟨hw, hh, hc, hd, htw, hth⟩ := hp
  have e1 : u32Of p.width = p.width.toNat := by unfold u32Of; omega
  have e2 : u32Of p.height = p.height.toNat := by unfold u32Of; omega
  have e3 : u16Of p.components = p.components.toNat := by unfold u16Of; omega
  have e4 : byteOf (p.bitDepth - 1) = (p.bitDepth - 1).toNat := by unfold byteOf; omega
  have e5 : u32Of (if p.tileWidth = 0 then p.width else p.tileWidth) = (if p.tileWidth = 0 then p.width else p.tileWidth).toNat := by
    unfold u32Of; split <;> omega
  have e6 : u32Of (if p.tileHeight = 0 then p.height else p.tileHeight) = (if p.tileHeight = 0 then p.height else p.tileHeight).toNat := by
    unfold u32Of; split <;> omega
  unfold writeSIZ j2kSegment
  simp only [mSIZ, e1, e2, e3, e4, e5, e6]
  have hlen : ∀ (x : Nat), u16Of (((be16 (if p.htj2k then 0x4000 else 0) ++ be32 p.width.toNat ++ be32 p.height.toNat ++ be32 0 ++ be32 0 ++
        be32 (if p.tileWidth = 0 then p.width else p.tileWidth).toNat ++
        be32 (if p.tileHeight = 0 then p.height else p.tileHeight).toNat ++ be32 0 ++ be32 0 ++ be16 p.components.toNat ++
        (List.replicate p.components.toNat [x, 1, 1]).flatten).length : Nat) + 2 : Int) = 38 + 3 * p.components.toNat := by
    intro x
    simp only [List.length_append, replicate_flatten_len]
    simp [be16, be32]
    unfold u16Of; omega
  simp only [hlen]
  simp

/-- SIZ ROUND TRIP, all fields: size, offsets, tile size, component count, and per component depth, signedness
    and sub-sampling — for every component count -/
theorem parseSiz_writeSIZ (p : J2kParams) (hp : p.SizOk) :
    parseSiz (writeSIZ p) = some
      { rsiz := if p.htj2k then 0x4000 else 0, xsiz := p.width.toNat, ysiz := p.height.toNat, xosiz := 0, yosiz := 0,
        xtsiz := (if p.tileWidth = 0 then p.width else p.tileWidth).toNat,
        ytsiz := (if p.tileHeight = 0 then p.height else p.tileHeight).toNat, xtosiz := 0, ytosiz := 0,
        comps := List.replicate p.components.toNat
          { depthM1 := (p.bitDepth - 1).toNat, signed := p.isSigned, xr := 1, yr := 1 } } := by
  have hb := writeSIZ_bytes p hp
  obtain ⟨hw, hh, hc, hd, htw, hth⟩ := hp
  have hD : (p.bitDepth - 1).toNat < 38 := by omega
  have hss : (if p.isSigned then (p.bitDepth - 1).toNat ||| 0x80 else (p.bitDepth - 1).toNat) % 128 = (p.bitDepth - 1).toNat ∧
      decide ((if p.isSigned then (p.bitDepth - 1).toNat ||| 0x80 else (p.bitDepth - 1).toNat) ≥ 128) = p.isSigned := by
    by_cases hsg : p.isSigned = true
    · simp only [hsg, if_true, or128 _ hD]
      simp; omega
    · simp [hsg]; omega
  rw [hb, parseSiz_bytes _ _ _ _ _ _ _ (by split <;> omega) (by omega) (by omega) (by split <;> omega) (by split <;> omega)
    (by omega) (by omega), hss.1, hss.2]

/-! ### COD -/

/-- the coding parameters `validateParams` (HEAD) admits, with default precincts (custom precinct sizes are outside
    the C16 domain): progression 0..4, 1..65535 layers, 0..32 levels, code-block sides 2^kx × 2^ky with
    kx, ky ≥ 2 and kx + ky ≤ 12 -/
structure J2kParams.CodOk (p : J2kParams) (kx ky : Nat) : Prop where
  prog : 0 ≤ p.prog ∧ p.prog ≤ 4
  layers : 1 ≤ p.numLayers ∧ p.numLayers ≤ 65535
  levels : 0 ≤ p.numLevels ∧ p.numLevels ≤ 32
  cbw : p.cbw = ((2 ^ kx : Nat) : Int)
  cbh : p.cbh = ((2 ^ ky : Nat) : Int)
  k : 2 ≤ kx ∧ 2 ≤ ky ∧ kx + ky ≤ 12
  prec : p.precW = 0 ∧ p.precH = 0

theorem log2_pow (k : Nat) : log2 (((2 ^ k : Nat) : Int)) = k := by
  unfold log2
  rw [Int.toNat_natCast, Nat.log2_two_pow]

/-- COD ROUND TRIP: progression order, layers, MCT flag, levels, code-block exponents, HT style bit and the
    TRANSFORM TYPE the property names are exactly the parameters -/
theorem parseCod_writeCOD (p : J2kParams) (kx ky : Nat) (hp : p.CodOk kx ky) :
    parseCod (writeCOD p) = some
      { scod := 0, prog := p.prog.toNat, layers := p.numLayers.toNat,
        mct := if usesColorTransform p then 1 else 0, levels := p.numLevels.toNat,
        xcb := kx - 2, ycb := ky - 2, style := if p.htj2k then 0x40 else 0,
        transform := if p.lossless then 1 else 0, precincts := [] } := by
  obtain ⟨hprog, hlay, hlev, hcw, hch, hk, hprec⟩ := hp
  have e1 : byteOf p.prog = p.prog.toNat := by unfold byteOf; omega
  have e2 : u16Of p.numLayers = p.numLayers.toNat := by unfold u16Of; omega
  have e3 : byteOf p.numLevels = p.numLevels.toNat := by unfold byteOf; omega
  have e4 : byteOf (log2 p.cbw - 2) = kx - 2 := by rw [hcw, log2_pow]; unfold byteOf; omega
  have e5 : byteOf (log2 p.cbh - 2) = ky - 2 := by rw [hch, log2_pow]; unfold byteOf; omega
  have hs : ¬ (p.precW > 0 ∨ p.precH > 0) := by omega
  have hl16 : w16 (p.numLayers.toNat / 256 % 256) (p.numLayers.toNat % 256) = p.numLayers.toNat := by unfold w16; omega
  unfold writeCOD j2kSegment
  simp only [mCOD, e1, e2, e3, e4, e5, if_neg hs]
  have hlen : u16Of ((([0, p.prog.toNat] ++ be16 p.numLayers.toNat ++
      [if usesColorTransform p = true then 1 else 0, p.numLevels.toNat, kx - 2, ky - 2, if p.htj2k = true then 64 else 0,
        if (!p.lossless) = true then 0 else 1] ++ (if (0 : Nat) = 1 then
          (List.range (p.numLevels + 1).toNat).map fun (r : Nat) =>
            let e := precinctExponents p (r : Int)
            ((e.2 <<< 4) % 256) ||| e.1 else [])).length : Nat) + 2 : Int) = 12 := by
    simp [be16, u16Of]
  simp only [hlen]
  simp only [be16, List.cons_append, List.nil_append, parseCod, Nat.zero_ne_one, if_false, List.append_nil, hl16]
  have ht : (if (!p.lossless) = true then (0 : Nat) else 1) = if p.lossless then 1 else 0 := by cases p.lossless <;> rfl
  have c1 : ¬ (w16 (12 / 256 % 256) (12 % 256) ≠ 12 + ([] : List Nat).length) := by decide
  simp only [ht, if_neg c1, List.length_nil, Nat.zero_mod]
  have hm : (if usesColorTransform p = true then (1 : Nat) else 0) ≤ 1 := by split <;> omega
  have hst : (if p.htj2k = true then (64 : Nat) else 0) < 128 := by split <;> omega
  have htr : (if p.lossless = true then (1 : Nat) else 0) ≤ 1 := by split <;> omega
  have c2 : ¬ (0 > 7 ∨ p.prog.toNat > 4 ∨ p.numLayers.toNat < 1 ∨ (if usesColorTransform p = true then 1 else 0) > 1 ∨
      p.numLevels.toNat > 32 ∨ kx - 2 > 8 ∨ ky - 2 > 8 ∨ kx - 2 + (ky - 2) > 8 ∨ (if p.lossless = true then 1 else 0) > 1 ∨
      (if p.htj2k = true then 64 else 0) ≥ 128) := by omega
  simp [c2, w16]
  exact ⟨by omega, by omega, hm, by omega, by omega, by omega, by omega, htr, hst⟩

/-! ### QCD -/

theorem words_be16 : ∀ (steps : List Nat), (∀ s ∈ steps, s < 65536) → words (steps.flatMap fun s => be16 s) = some steps
  | [], _ => rfl
  | s :: r, h => by
    have hs := h s (by simp)
    have ih := words_be16 r (fun x hx => h x (by simp [hx]))
    have : w16 (s / 256 % 256) (s % 256) = s := by unfold w16; omega
    have ih' : words (List.flatMap (fun s => [s / 256 % 256, s % 256]) r) = some r := ih
    simp only [List.flatMap_cons, be16, List.cons_append, List.nil_append, words, ih', this, Option.map_some]

/-- QCD ROUND TRIP, reversible path (style 0): guard bits and every sub-band exponent, and the number of entries
    is the 3·levels + 1 that COD's level count requires -/
theorem parseQcd_writeQCD_lossless (p : J2kParams) (info : QcdInfo) (L : Nat) (hl : p.lossless = true)
    (hg : 0 ≤ info.guardBits ∧ info.guardBits ≤ 7) (he : ∀ e ∈ info.expn, 0 ≤ e ∧ e ≤ 31)
    (hn : info.expn.length = 3 * L + 1) (hL : L ≤ 32) :
    parseQcd L (writeQCD p info) = some { style := 0, guard := info.guardBits.toNat, vals := info.expn.map Int.toNat } := by
  have eg : byteOf (Go.shl info.guardBits 5) = 32 * info.guardBits.toNat := by
    unfold byteOf Go.shl; simp; omega
  have ee : info.expn.map (fun e => byteOf (Go.shl e 3)) = info.expn.map (fun e => 8 * e.toNat) := by
    apply List.map_congr_left
    intro e hm
    have := he e hm
    unfold byteOf Go.shl; simp; omega
  unfold writeQCD j2kSegment
  simp only [hl, if_true, mQCD, eg, ee]
  have hlen : u16Of (((32 * info.guardBits.toNat :: info.expn.map (fun e => 8 * e.toNat)).length : Nat) + 2 : Int) = 3 * L + 4 := by
    simp [hn]; unfold u16Of; omega
  simp only [hlen, be16, List.cons_append, List.nil_append, parseQcd]
  have h16 : w16 ((3 * L + 4) / 256 % 256) ((3 * L + 4) % 256) = 3 * L + 4 := by unfold w16; omega
  have hst : 32 * info.guardBits.toNat % 32 = 0 := by omega
  have hgd : 32 * info.guardBits.toNat / 32 = info.guardBits.toNat := by omega
  have c1 : ¬ (w16 ((3 * L + 4) / 256 % 256) ((3 * L + 4) % 256) ≠ 3 + (info.expn.map (fun e => 8 * e.toNat)).length) := by
    rw [h16]; simp [hn]; omega
  simp only [if_neg c1, hst, if_true, hgd]
  have c2 : ¬ ((info.expn.map (fun e => 8 * e.toNat)).length ≠ 3 * L + 1 ∨
      (info.expn.map (fun e => 8 * e.toNat)).any (fun x => decide (x % 8 ≠ 0)) = true) := by
    simp [hn]
  simp only [if_neg c2, List.map_map]
  congr 2
  apply List.map_congr_left
  intro e _
  simp

theorem sqcd_expounded : ∀ g : Nat, g ≤ 7 → byteOf (Go.or (Go.shl (g : Int) 5) (Go.and 2 0x1F)) = 32 * g + 2 := by decide

/-- QCD ROUND TRIP, irreversible path (scalar expounded, style 2): guard bits and every 16-bit step word -/
theorem parseQcd_writeQCD_lossy (p : J2kParams) (info : QcdInfo) (L : Nat) (hl : p.lossless = false)
    (hs : info.style = 2) (hg : 0 ≤ info.guardBits ∧ info.guardBits ≤ 7) (he : ∀ s ∈ info.steps, 0 ≤ s ∧ s < 65536)
    (hn : info.steps.length = 3 * L + 1) (hL : L ≤ 32) :
    parseQcd L (writeQCD p info) = some { style := 2, guard := info.guardBits.toNat, vals := info.steps.map Int.toNat } := by
  obtain ⟨G, hG⟩ : ∃ G : Nat, info.guardBits = G := ⟨info.guardBits.toNat, by omega⟩
  have eg : byteOf (Go.or (Go.shl info.guardBits 5) (Go.and info.style 0x1F)) = 32 * G + 2 := by
    rw [hs, hG]; exact sqcd_expounded G (by omega)
  have es : (info.steps.flatMap fun s => be16 (u16Of s)) = (info.steps.map Int.toNat).flatMap fun s => be16 s := by
    have : ∀ (l : List Int), (∀ s ∈ l, 0 ≤ s ∧ s < 65536) →
        (l.flatMap fun s => be16 (u16Of s)) = (l.map Int.toNat).flatMap fun s => be16 s := by
      intro l
      induction l with
      | nil => intro _; rfl
      | cons x r ih =>
        intro h
        have hx := h x (by simp)
        have : u16Of x = x.toNat := by unfold u16Of; omega
        simp only [List.flatMap_cons, List.map_cons, this, ih (fun y hy => h y (by simp [hy]))]
    exact this _ he
  unfold writeQCD j2kSegment
  simp only [hl, Bool.false_eq_true, if_false, mQCD, eg, es]
  have hwl : ((info.steps.map Int.toNat).flatMap fun s => be16 s).length = 2 * (3 * L + 1) := by
    rw [← hn]
    have : ∀ (l : List Nat), (l.flatMap fun s => be16 s).length = 2 * l.length := by
      intro l
      induction l with
      | nil => rfl
      | cons x r ih =>
        simp only [List.flatMap_cons, List.length_append, ih]
        simp [be16]; omega
    rw [this, List.length_map]
  have hlen : u16Of ((((32 * G + 2) :: ((info.steps.map Int.toNat).flatMap fun s => be16 s)).length : Nat) + 2 : Int) = 6 * L + 5 := by
    simp only [List.length_cons, hwl]; unfold u16Of; omega
  rw [hlen]
  simp only [be16, List.cons_append, List.nil_append, parseQcd]
  have h16 : w16 ((6 * L + 5) / 256 % 256) ((6 * L + 5) % 256) = 6 * L + 5 := by unfold w16; omega
  have hst : (32 * G + 2) % 32 = 2 := by omega
  have hgd : (32 * G + 2) / 32 = G := by omega
  have hw := words_be16 (info.steps.map Int.toNat) (by
    intro s hm
    simp only [List.mem_map] at hm
    obtain ⟨x, hx, rfl⟩ := hm
    have := he x hx; omega)
  have hbe : ((info.steps.map Int.toNat).flatMap fun s => [s / 256 % 256, s % 256]) = (info.steps.map Int.toNat).flatMap fun s => be16 s := rfl
  rw [hbe]
  have c1 : ¬ (w16 ((6 * L + 5) / 256 % 256) ((6 * L + 5) % 256) ≠ 3 + ((info.steps.map Int.toNat).flatMap fun s => be16 s).length) := by
    rw [h16, hwl]; omega
  simp only [if_neg c1, hst, hgd, hw]
  simp [hn, hG]

theorem flatMap_len_3n1 (f : Nat → List Int) (h0 : (f 0).length = 1) (hs : ∀ r, 0 < r → (f r).length = 3) :
    ∀ n : Nat, ((List.range (n + 1)).flatMap f).length = 3 * n + 1 := by
  intro n
  induction n with
  | zero => simpa [List.range_succ] using h0
  | succ k ih =>
    rw [List.range_succ, List.flatMap_append, List.length_append, ih]
    simp [hs (k + 1) (by omega)]
    omega

theorem losslessQcdInfo_len (p : J2kParams) (L : Nat) (hL : p.numLevels = L) :
    (losslessQcdInfo p).expn.length = 3 * L + 1 := by
  simp only [losslessQcdInfo, hL]
  have : ((L : Int) + 1).toNat = L + 1 := by omega
  rw [this]
  apply flatMap_len_3n1
  · simp
  · intro r hr
    have : ¬ (r = 0) := by omega
    simp [this]

end JpegC
