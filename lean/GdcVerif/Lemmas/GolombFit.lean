import GdcVerif.Lemmas.GolombDestuff2
import GdcVerif.Lemmas.JpegLsRun
/-!
  Every `WriteBits` call the scan issues is well-formed (`count ∈ 0..32`, `value < 2^count`):
  the calls of `EncodeMappedValue` (`Golomb.encodeWrites`) and of `EncodeRunLength`.
-/
namespace Golomb

theorem fit_nil : WritesFit [] := by intro p hp; simp at hp

theorem fit_append {a b : List (Nat × Int)} (ha : WritesFit a) (hb : WritesFit b) : WritesFit (a ++ b) := by
  intro p hp
  simp only [List.mem_append] at hp
  rcases hp with h | h
  · exact ha p h
  · exact hb p h

theorem fit_single (v : Nat) (n : Int) (h0 : 0 ≤ n) (h32 : n ≤ 32) (hv : v < 2 ^ n.toNat) : WritesFit [(v, n)] := by
  intro p hp
  simp only [List.mem_singleton] at hp
  subst hp
  exact ⟨h0, h32, hv⟩

theorem fit_zeros : ∀ (f : Nat) (n : Int), WritesFit (zerosWrites f n)
  | 0, _ => by unfold zerosWrites; exact fit_nil
  | f + 1, n => by
    unfold zerosWrites
    split
    · have hc : (0 : Int) ≤ (if n > 31 then 31 else n) ∧ (if n > 31 then 31 else n) ≤ 32 := by split <;> omega
      have e : ((0 : Nat), (if n > 31 then (31 : Int) else n)) :: zerosWrites f (n - (if n > 31 then 31 else n)) =
          [((0 : Nat), (if n > 31 then (31 : Int) else n))] ++ zerosWrites f (n - (if n > 31 then 31 else n)) := rfl
      simp only [] 
      rw [e]
      exact fit_append (fit_single 0 _ hc.1 hc.2 (Nat.two_pow_pos _)) (fit_zeros f _)
    · exact fit_nil

theorem one_lt_pow (n : Int) (h : 1 ≤ n) : (1 : Nat) < 2 ^ n.toNat := by
  have : 1 ≤ n.toNat := by omega
  exact Nat.one_lt_two_pow (by omega)

/-- the calls of `EncodeMappedValue` are well-formed under the hypotheses of the code round trip -/
theorem fit_encodeWrites (k m limit qbpp : Int) (hk : 0 ≤ k ∧ k ≤ 31) (hq : 1 ≤ qbpp ∧ qbpp ≤ 16)
    (hl : qbpp + 1 < limit ∧ limit ≤ 64) (hm : 0 ≤ m) : WritesFit (encodeWrites k m limit qbpp) := by
  have hshr := shr_eq' m k hk.1
  have hpk : (0 : Int) < 2 ^ k.toNat := Int.pow_pos (by decide)
  have hh0 : 0 ≤ m / 2 ^ k.toNat := Int.ediv_nonneg hm (by omega)
  unfold encodeWrites
  simp only []
  rw [hshr]
  generalize m / 2 ^ k.toNat = h at *
  split
  · rename_i hn
    refine fit_append (fit_append ?_ ?_) ?_
    · split
      · exact fit_zeros _ _
      · exact fit_nil
    · have ht : Int.tdiv h 2 = h / 2 := Int.tdiv_eq_ediv_of_nonneg hh0
      split
      · rw [ht]; exact fit_single 1 _ (by omega) (by omega) (one_lt_pow _ (by omega))
      · exact fit_single 1 _ (by omega) (by omega) (one_lt_pow _ (by omega))
    · split
      · have hr0 := Int.emod_nonneg m (by omega : (2 : Int) ^ k.toNat ≠ 0)
        have hr1 := Int.emod_lt_of_pos m hpk
        refine fit_single _ k hk.1 (by omega) ?_
        have hlt : ((m % 2 ^ k.toNat).toNat : Int) < ((2 ^ k.toNat : Nat) : Int) := by
          rw [Int.toNat_of_nonneg hr0]; simpa using hr1
        exact Nat.lt_of_le_of_lt (Nat.mod_le _ _) (Int.ofNat_lt.mp hlt)
      · exact fit_nil
  · refine fit_append ?_ ?_
    · split
      · exact fit_append (fit_zeros _ _) (fit_single 1 _ (by omega) (by omega) (one_lt_pow _ (by omega)))
      · exact fit_single 1 _ (by omega) (by omega) (one_lt_pow _ (by omega))
    · have hpq : (0 : Int) < 2 ^ qbpp.toNat := Int.pow_pos (by decide)
      have hr0 := Int.emod_nonneg (m - 1) (by omega : (2 : Int) ^ qbpp.toNat ≠ 0)
      have hr1 := Int.emod_lt_of_pos (m - 1) hpq
      refine fit_single _ qbpp (by omega) (by omega) ?_
      have hlt : ((((m - 1) % 2 ^ qbpp.toNat).toNat : Nat) : Int) < ((2 ^ qbpp.toNat : Nat) : Int) := by
        rw [Int.toNat_of_nonneg hr0]; simpa using hr1
      exact Nat.lt_of_le_of_lt (Nat.mod_le _ _) (Int.ofNat_lt.mp hlt)

end Golomb

namespace JpegLsRun
open Golomb

/-- the loop of `EncodeRunLength` writes single 1 bits and leaves a remainder below the next chunk -/
theorem encRunLoop_fit : ∀ (f : Nat) (idx rl : Int) (acc : List (Nat × Int)), 0 ≤ idx ∧ idx ≤ 31 → 0 ≤ rl → rl.toNat < f →
    WritesFit acc →
    ∃ idx' rl' ws, encRunLoop f idx rl acc = .ok (idx', rl', ws) ∧ (0 ≤ idx' ∧ idx' ≤ 31) ∧ WritesFit ws ∧
      0 ≤ rl' ∧ rl' < 2 ^ (Jv idx'.toNat).toNat
  | 0, _, _, _, _, _, hf, _ => by omega
  | f + 1, idx, rl, acc, hidx, hrl, hf, hacc => by
    have hJ := J?_eq idx hidx
    have hjr := Jv_range idx.toNat (by omega)
    unfold encRunLoop
    simp only [hJ, bind, Except.bind]
    have hP : (1 : Int) ≤ 2 ^ (Jv idx.toNat).toNat := by
      have : (0 : Int) < 2 ^ (Jv idx.toNat).toNat := Int.pow_pos (by decide)
      omega
    by_cases hge : rl ≥ 2 ^ (Jv idx.toNat).toNat
    · simp only [hge, if_true]
      exact encRunLoop_fit f (incRunIndex idx) _ _ (inc_range idx hidx) (by omega) (by omega)
        (fit_append hacc (fit_single 1 1 (by decide) (by decide) (by decide)))
    · simp only [hge, if_false]
      exact ⟨idx, rl, acc, rfl, hidx, hacc, hrl, by omega⟩

theorem fit_encodeRunLength (idx rl : Int) (eol : Bool) (hidx : 0 ≤ idx ∧ idx ≤ 31) (hrl : 0 ≤ rl)
    (idx' : Int) (ws : List (Nat × Int)) (h : encodeRunLength idx rl eol = .ok (idx', ws)) : WritesFit ws := by
  obtain ⟨i2, r2, w2, he, hi2, hw2, hr0, hr1⟩ := encRunLoop_fit (rl.toNat + 1) idx rl [] hidx hrl (by omega) fit_nil
  unfold encodeRunLength at h
  simp only [he, bind, Except.bind] at h
  have hjr := Jv_range i2.toNat (by omega)
  by_cases heol : eol = true
  · simp only [heol, if_true, Except.ok.injEq, Prod.mk.injEq] at h
    rw [← h.2]
    split
    · exact fit_append hw2 (fit_single 1 1 (by decide) (by decide) (by decide))
    · exact hw2
  · simp only [heol, Bool.false_eq_true, if_false, J?_eq i2 hi2, Except.ok.injEq, Prod.mk.injEq] at h
    rw [← h.2]
    refine fit_append hw2 (fit_single _ _ (by omega) (by omega) ?_)
    have e : (Jv i2.toNat + 1).toNat = (Jv i2.toNat).toNat + 1 := by omega
    rw [e, Nat.pow_succ]
    have hlt : ((r2.toNat : Nat) : Int) < ((2 ^ (Jv i2.toNat).toNat : Nat) : Int) := by
      rw [Int.toNat_of_nonneg hr0]; simpa using hr1
    have := Int.ofNat_lt.mp hlt
    exact Nat.lt_of_le_of_lt (Nat.mod_le _ _) (by omega)

end JpegLsRun
