import GdcVerif.GoPrelude
import GdcVerif.Model.C17Params
import GdcVerif.Model.Rle
import GdcVerif.Lemmas.RleEnc
import GdcVerif.Lemmas.RleFrame
import GdcVerif.Gen.JpegLs
import GdcVerif.Gen.ValidateJpegBaseline
import GdcVerif.Gen.ValidateJpegExtended
import GdcVerif.Gen.ValidateJpegLossless
import GdcVerif.Gen.ValidateJpegSv1
import GdcVerif.Gen.ValidateJpegLsNear
import GdcVerif.Gen.ValidateJ2k
import GdcVerif.Gen.ValidateHtj2k
/-!
  C17 — format-side definitions (`Representable`, written from T.81 / T.87 / T.800 / PS3.5
  Annex G, not from the code) and helper lemmas for `Props/C17.lean`.
-/
namespace C17

/-! ## What the formats can represent -/

/-- T.81 B.2.2 (SOFn: Y, X) and T.87 C.2.2 (SOF55): 16-bit fields; X = 0 is not allowed and
    Y = 0 announces a DNL segment, which none of the encoders writes. -/
def Dim16 (n : Int) : Prop := 1 ≤ n ∧ n ≤ 65535

/-- bytes per sample of the native little-endian frame: ⌈P/8⌉ -/
def bytesPerSample (p : Int) : Int := (p + 7) / 8

/-- the 16-bit big-endian size field as written by every writeSOF* (`byte(v>>8), byte(v)`) and
    read back by a decoder -/
def declared16 (v : Int) : Int := Go.uwrap8 (Go.shr v 8) * 256 + Go.uwrap8 v

/-- JPEG Baseline (SOF0): P = 8, Nf ∈ {1,3} as supported by the library, quality 1..100 -/
def BaselineRepresentable (len w h c q : Int) : Prop :=
  Dim16 w ∧ Dim16 h ∧ (c = 1 ∨ c = 3) ∧ (1 ≤ q ∧ q ≤ 100) ∧ len ≥ w * h * c

/-- JPEG Extended (SOF1): P = 8 (1 or 3 components) or P = 12 (monochrome only in this library) -/
def ExtendedRepresentable (len w h c p q : Int) : Prop :=
  Dim16 w ∧ Dim16 h ∧ (1 ≤ q ∧ q ≤ 100) ∧
  ((p = 8 ∧ (c = 1 ∨ c = 3) ∧ len ≥ w * h * c) ∨ (p = 12 ∧ c = 1 ∧ len ≥ w * h * 2))

/-- JPEG Lossless (SOF3): P 2..16, predictor selection value 1..7 (0 = let the encoder choose) -/
def LosslessRepresentable (len w h c p pred : Int) : Prop :=
  Dim16 w ∧ Dim16 h ∧ (c = 1 ∨ c = 3) ∧ (2 ≤ p ∧ p ≤ 16) ∧ (0 ≤ pred ∧ pred ≤ 7) ∧
  len ≥ w * h * c * bytesPerSample p

/-- JPEG-LS (SOF55, T.87): P 2..16; NEAR ≤ min(255, MAXVAL/2) with MAXVAL = 2^P − 1 (T.87 C.2.3) -/
def JpegLsRepresentable (len w h c p near : Int) : Prop :=
  Dim16 w ∧ Dim16 h ∧ (c = 1 ∨ c = 3) ∧ (2 ≤ p ∧ p ≤ 16) ∧
  (0 ≤ near ∧ near ≤ 255 ∧ near ≤ ((2 : Int) ^ p.toNat - 1) / 2) ∧
  len ≥ w * h * c * bytesPerSample p

/-- powers of two 2^lo … 2^hi -/
def pow2s (lo hi : Nat) : List Int := (List.range (hi + 1 - lo)).map (fun k => (2 : Int) ^ (k + lo))

/-- the tile extent along one axis: the argument, 0 meaning the whole image (T.800 A.5.1 XTsiz/YTsiz) -/
def tileExtent (extent tile : Int) : Int := if tile = 0 then extent else tile

/-- tiles along one axis of an image at origin 0: ⌈extent / tile extent⌉ (T.800 B.3) -/
def tilesAlong (extent tile : Int) : Int := (extent + tileExtent extent tile - 1) / tileExtent extent tile

/-- JPEG 2000 (T.800 A.5.1 SIZ, A.6.1 COD): 32-bit image size, tile size 0 (= whole image) or
    positive and within the 32-bit XTsiz/YTsiz fields, at most 65535 tiles (A.4.2: Isot is a 16-bit
    tile index), code-block width/height 2^2..2^10 with area ≤ 4096 (xcb+ycb ≤ 12), precinct size 0
    (= default 2^15) or a power of two 2^0..2^15 (PPx/PPy are exponents), 1..65535 layers,
    progression order 0..4; components 1..4, depth 1..16, 0..6 levels and quality 1..100 (lossy)
    are what the library documents as supported; the byte count of the source frame is a Go `int`
    (2^63 − 1: the encoder multiplies it out in `int`) and the buffer holds it. -/
def J2kRepresentable (p : Gen.ValidateJ2k.EncodeParams) (len : Int) : Prop :=
  (1 ≤ p.Width ∧ p.Width ≤ 4294967295) ∧ (1 ≤ p.Height ∧ p.Height ≤ 4294967295) ∧
  (1 ≤ p.Components ∧ p.Components ≤ 4) ∧ (1 ≤ p.BitDepth ∧ p.BitDepth ≤ 16) ∧
  (0 ≤ p.NumLevels ∧ p.NumLevels ≤ 6) ∧
  p.CodeBlockWidth ∈ pow2s 2 10 ∧ p.CodeBlockHeight ∈ pow2s 2 10 ∧
  p.CodeBlockWidth * p.CodeBlockHeight ≤ 4096 ∧
  (0 ≤ p.TileWidth ∧ p.TileWidth ≤ 4294967295) ∧ (0 ≤ p.TileHeight ∧ p.TileHeight ≤ 4294967295) ∧
  tilesAlong p.Width p.TileWidth * tilesAlong p.Height p.TileHeight ≤ 65535 ∧
  (p.PrecinctWidth = 0 ∨ p.PrecinctWidth ∈ pow2s 0 15) ∧
  (p.PrecinctHeight = 0 ∨ p.PrecinctHeight ∈ pow2s 0 15) ∧
  (1 ≤ p.NumLayers ∧ p.NumLayers ≤ 65535) ∧
  (0 ≤ p.ProgressionOrder ∧ p.ProgressionOrder ≤ 4) ∧
  (p.Lossless = false → 1 ≤ p.Quality ∧ p.Quality ≤ 100) ∧
  p.Width * p.Height * p.Components * bytesPerSample p.BitDepth ≤ 9223372036854775807 ∧
  len ≥ p.Width * p.Height * p.Components * bytesPerSample p.BitDepth

instance (n : Int) : Decidable (Dim16 n) := by unfold Dim16; infer_instance
instance (a b c d e : Int) : Decidable (BaselineRepresentable a b c d e) := by
  unfold BaselineRepresentable; infer_instance
instance (a b c d e f : Int) : Decidable (ExtendedRepresentable a b c d e f) := by
  unfold ExtendedRepresentable; infer_instance
instance (a b c d e f : Int) : Decidable (LosslessRepresentable a b c d e f) := by
  unfold LosslessRepresentable; infer_instance
instance (a b c d e f : Int) : Decidable (JpegLsRepresentable a b c d e f) := by
  unfold JpegLsRepresentable; infer_instance
instance (p : Gen.ValidateJ2k.EncodeParams) (len : Int) : Decidable (J2kRepresentable p len) := by
  unfold J2kRepresentable tilesAlong tileExtent; infer_instance

/-! ## Lemmas -/

theorem tdiv8 (p : Int) (h : 0 ≤ p) : Int.tdiv (p + 7) 8 = bytesPerSample p := by
  unfold bytesPerSample
  exact Int.tdiv_eq_ediv_of_nonneg (by omega)

/-- Go `a <= (M / k) / h` on non-negative operands ⇒ `a * h * k ≤ M` (the `int`-overflow guard of
    jpeg2000 `validateParams`: width ≤ MaxInt / (components · bytes) / height) -/
theorem mul_le_of_le_tdiv_tdiv (a h k M : Int) (hM : 0 ≤ M) (hk : 0 < k) (hh : 0 < h)
    (hle : a ≤ (Int.tdiv M k).tdiv h) : a * h * k ≤ M := by
  rw [Int.tdiv_eq_ediv_of_nonneg hM] at hle
  rw [Int.tdiv_eq_ediv_of_nonneg (Int.ediv_nonneg hM (by omega))] at hle
  have h1 : a * h ≤ M / k := (Int.le_ediv_iff_mul_le hh).1 hle
  exact (Int.le_ediv_iff_mul_le hk).1 h1

/-- the Go tile count `(extent + t - 1) / t`, with `t` resolved from 0 as in `validateParams` /
    `writeTiles`, is `tilesAlong` -/
theorem tdiv_tiles (extent tile : Int) (he : 1 ≤ extent) (ht : 0 ≤ tile) :
    (extent + (if tile = 0 then extent else tile) - 1).tdiv (if tile = 0 then extent else tile) =
      tilesAlong extent tile := by
  unfold tilesAlong tileExtent
  exact Int.tdiv_eq_ediv_of_nonneg (by split <;> omega)

theorem declared16_of_fits (v : Int) (h0 : 0 ≤ v) (h1 : v ≤ 65535) : declared16 v = v := by
  unfold declared16 Go.uwrap8 Go.shr
  have : (8 : Int).toNat = 8 := rfl
  rw [this, Int.shiftRight_eq_div_pow]
  omega

end C17

namespace C17

theorem pow2_of_land : ∀ n : Nat, 0 < n → n &&& (n - 1) = 0 → ∃ k, n = 2 ^ k := by
  intro n
  induction n using Nat.strongRecOn with
  | _ n ih =>
    intro hpos h
    rcases (by omega : n = 1 ∨ 2 ≤ n) with h1 | h2
    · exact ⟨0, by simpa using h1⟩
    · have hd : (n &&& (n - 1)) / 2 = n / 2 &&& (n - 1) / 2 := Nat.and_div_two
      rw [h] at hd
      rcases (by omega : n % 2 = 1 ∨ n % 2 = 0) with ho | he
      · have : (n - 1) / 2 = n / 2 := by omega
        rw [this, Nat.and_self] at hd
        omega
      · have : (n - 1) / 2 = n / 2 - 1 := by omega
        rw [this] at hd
        obtain ⟨k, hk⟩ := ih (n / 2) (by omega) (by omega) hd.symm
        exact ⟨k + 1, by rw [Nat.pow_succ]; omega⟩

theorem go_and_nat (a b : Nat) (ha : a < 2 ^ 63) (hb : b < 2 ^ 63) : Go.and a b = ((a &&& b : Nat) : Int) := by
  unfold Go.and
  rw [BitVec.ofInt_natCast, BitVec.ofInt_natCast, BitVec.toInt_eq_toNat_cond, BitVec.toNat_and,
    BitVec.toNat_ofNat, BitVec.toNat_ofNat, Nat.mod_eq_of_lt (by omega), Nat.mod_eq_of_lt (by omega)]
  have : a &&& b ≤ a := Nat.and_le_left
  rw [if_pos (by omega)]

open Gen.ValidateJ2k in
theorem isPowerOfTwo_pow2 (n : Int) (hn : n < 2 ^ 62) (hp : isPowerOfTwo n = true) : ∃ k : Nat, n = 2 ^ k := by
  unfold isPowerOfTwo at hp
  simp at hp
  obtain ⟨hpos, hand⟩ := hp
  obtain ⟨m, rfl⟩ : ∃ m : Nat, n = (m : Int) := ⟨n.toNat, by omega⟩
  have e1 : (m : Int) - 1 = ((m - 1 : Nat) : Int) := by omega
  rw [e1, go_and_nat _ _ (by omega) (by omega)] at hand
  obtain ⟨k, hk⟩ := pow2_of_land m (by omega) (by omega)
  exact ⟨k, by rw [hk]; simp⟩

open Gen.ValidateJ2k in
theorem isPowerOfTwo_mem (n : Int) (lo hi : Nat) (hhi : hi ≤ 61)
    (hl : ((2 ^ lo : Nat) : Int) ≤ n) (hh : n ≤ ((2 ^ hi : Nat) : Int))
    (hp : isPowerOfTwo n = true) : n ∈ pow2s lo hi := by
  have h61 := Nat.pow_le_pow_right (n := 2) (by decide) hhi
  have e61 : (2 : Nat) ^ 61 < 2 ^ 62 := by decide
  have e62 : ((2 ^ 62 : Nat) : Int) = (2 : Int) ^ 62 := by simp
  obtain ⟨k, hk⟩ := isPowerOfTwo_pow2 n (by omega) hp
  have hk' : n = ((2 ^ k : Nat) : Int) := by rw [hk]; simp
  have hlo : lo ≤ k := by
    rcases (by omega : lo ≤ k ∨ k < lo) with h | h
    · exact h
    · have := Nat.pow_lt_pow_right (a := 2) (by decide) h
      omega
  have hhi' : k ≤ hi := by
    rcases (by omega : k ≤ hi ∨ hi < k) with h | h
    · exact h
    · have := Nat.pow_lt_pow_right (a := 2) (by decide) h
      omega
  unfold pow2s
  refine List.mem_map.mpr ⟨k - lo, List.mem_range.mpr (by omega), ?_⟩
  rw [show k - lo + lo = k by omega, hk]

/-- the generated `isPowerOfTwo` (n>0 && n&(n-1)==0, Go 64-bit `&`) on the range the code-block guard lets through -/
theorem isPowerOfTwo_range (n : Int) (h4 : 4 ≤ n) (h1024 : n ≤ 1024)
    (hp : Gen.ValidateJ2k.isPowerOfTwo n = true) : n ∈ pow2s 2 10 :=
  isPowerOfTwo_mem n 2 10 (by decide) (by have : ((2 ^ 2 : Nat) : Int) = 4 := rfl; omega)
    (by have : ((2 ^ 10 : Nat) : Int) = 1024 := rfl; omega) hp

/-- … and on the range of the precinct guard (positive by `isPowerOfTwo`, ≤ 32768) -/
theorem isPowerOfTwo_precinct (n : Int) (h : n ≤ 32768)
    (hp : Gen.ValidateJ2k.isPowerOfTwo n = true) : n ∈ pow2s 0 15 := by
  have hpos : 0 < n := by
    unfold Gen.ValidateJ2k.isPowerOfTwo at hp; simp at hp; exact hp.1
  exact isPowerOfTwo_mem n 0 15 (by decide) (by have : ((2 ^ 0 : Nat) : Int) = 1 := rfl; omega)
    (by have : ((2 ^ 15 : Nat) : Int) = 32768 := rfl; omega) hp

end C17

/-! ## `nearestPowerOf2` (jpeg2000/htj2k/parameters.go) on the clamped range, and htj2k `Validate` in closed form -/
namespace C17
open C17Model

theorem shl1 (x : Int) : Go.shl x 1 = x * 2 := by
  unfold Go.shl; have : (1 : Int).toNat = 1 := rfl
  rw [this]; simp

theorem shr1 (x : Int) : Go.shr x 1 = x / 2 := by
  unfold Go.shr; have : (1 : Int).toNat = 1 := rfl
  rw [this, Int.shiftRight_eq_div_pow]; simp

theorem pow2_succ_cast (j : Nat) : ((2 ^ j : Nat) : Int) * 2 = ((2 ^ (j + 1) : Nat) : Int) := by
  rw [Nat.pow_succ]; omega

theorem npo2Loop_spec (n : Int) : ∀ (fuel j : Nat), n ≤ ((2 ^ (j + fuel) : Nat) : Int) →
    ∃ k, npo2Loop n fuel ((2 ^ j : Nat) : Int) = ((2 ^ k : Nat) : Int) ∧ j ≤ k ∧ n ≤ ((2 ^ k : Nat) : Int) ∧
      (k = j ∨ ((2 ^ (k - 1) : Nat) : Int) < n) := by
  intro fuel
  induction fuel with
  | zero => intro j h; exact ⟨j, by simp [npo2Loop], Nat.le_refl _, by simpa using h, Or.inl rfl⟩
  | succ f ih =>
    intro j h
    by_cases hlt : ((2 ^ j : Nat) : Int) < n
    · have hstep : npo2Loop n (f + 1) ((2 ^ j : Nat) : Int) = npo2Loop n f ((2 ^ (j + 1) : Nat) : Int) := by
        rw [npo2Loop, if_pos hlt, shl1, pow2_succ_cast]
      obtain ⟨k, hk, hjk, hn, hor⟩ := ih (j + 1) (by rw [show j + 1 + f = j + (f + 1) by omega]; exact h)
      refine ⟨k, by rw [hstep, hk], by omega, hn, Or.inr ?_⟩
      rcases hor with h1 | h1
      · subst h1; simpa using hlt
      · exact h1
    · refine ⟨j, ?_, Nat.le_refl _, by omega, Or.inl rfl⟩
      rw [npo2Loop, if_neg hlt]

theorem pow2_mem (m : Nat) (h2 : 2 ≤ m) (h10 : m ≤ 10) : ((2 ^ m : Nat) : Int) ∈ pow2s 2 10 := by
  have hm : m = 2 ∨ m = 3 ∨ m = 4 ∨ m = 5 ∨ m = 6 ∨ m = 7 ∨ m = 8 ∨ m = 9 ∨ m = 10 := by omega
  rcases hm with h | h | h | h | h | h | h | h | h <;> subst h <;> decide

theorem nearestPowerOf2_range (n : Int) (h4 : 4 ≤ n) (h1024 : n ≤ 1024) :
    nearestPowerOf2 n ∈ pow2s 2 10 := by
  have hfuel : n ≤ ((2 ^ (0 + n.toNat) : Nat) : Int) := by
    have := @Nat.lt_two_pow_self n.toNat
    rw [Nat.zero_add]; omega
  obtain ⟨k, hk, _, hn, hor⟩ := npo2Loop_spec n n.toNat 0 hfuel
  have hk2 : 2 ≤ k := by
    rcases (by omega : k ≤ 1 ∨ 2 ≤ k) with h | h
    · have h1 := Nat.pow_le_pow_right (n := 2) (by decide) h
      have : (2 : Nat) ^ 1 = 2 := rfl
      omega
    · exact h
  have hprev : ((2 ^ (k - 1) : Nat) : Int) < n := by
    rcases hor with h0 | h0
    · omega
    · exact h0
  have hk10 : k ≤ 10 := by
    rcases (by omega : k ≤ 10 ∨ 10 ≤ k - 1) with h | h
    · exact h
    · have h1 := Nat.pow_le_pow_right (n := 2) (by decide) h
      have : (2 : Nat) ^ 10 = 1024 := rfl
      omega
  have hdouble : ((2 ^ k : Nat) : Int) = ((2 ^ (k - 1) : Nat) : Int) * 2 := by
    rw [pow2_succ_cast, show k - 1 + 1 = k by omega]
  have h1 : ((2 ^ 0 : Nat) : Int) = 1 := rfl
  rw [h1] at hk
  unfold nearestPowerOf2
  rw [if_neg (by omega)]
  simp only [hk, shr1]
  have hhalf : ((2 ^ k : Nat) : Int) / 2 = ((2 ^ (k - 1) : Nat) : Int) := by omega
  rw [hhalf]
  split
  · rename_i hc
    have : 3 ≤ k := by
      rcases (by omega : k = 2 ∨ 3 ≤ k) with h | h
      · subst h
        have e1 : ((2 ^ 2 : Nat) : Int) = 4 := rfl
        have e2 : ((2 ^ (2 - 1) : Nat) : Int) = 2 := rfl
        rw [e1] at hn hc; rw [e2] at hc
        omega
      · exact h
    exact pow2_mem (k - 1) (by omega) (by omega)
  · exact pow2_mem k hk2 hk10

/-- `if x < lo then lo else if x > hi then hi else x` -/
def clampI (lo hi x : Int) : Int := if x < lo then lo else if x > hi then hi else x

theorem clampI_range (lo hi x : Int) (h : lo ≤ hi) : lo ≤ clampI lo hi x ∧ clampI lo hi x ≤ hi := by
  unfold clampI
  repeat' split
  all_goals omega

/-! htj2k `Validate`, field by field. The proofs push the projection through whatever `if`s the
    generated text contains (`apply_ite`), drop the branches that do not touch the field
    (`ite_self`) and split on the rest, so they do not depend on the let/if layout of the
    translation (unconditional store, store-if-changed, `else if` vs nested `if` all close). -/
section
open Gen.ValidateHtj2k

theorem htj2k_validate_quality (p : Parameters) :
    (Parameters.Validate p).1.Quality = clampI 1 100 p.Quality := by
  obtain ⟨q, bw, bh, nl⟩ := p
  simp only [Parameters.Validate, apply_ite Parameters.Quality, ite_self, clampI, decide_eq_true_eq]
  repeat' split
  all_goals simp_all

theorem htj2k_validate_levels (p : Parameters) :
    (Parameters.Validate p).1.NumLevels = clampI 0 6 p.NumLevels := by
  obtain ⟨q, bw, bh, nl⟩ := p
  simp only [Parameters.Validate, apply_ite Parameters.NumLevels, ite_self, clampI, decide_eq_true_eq]
  repeat' split
  all_goals simp_all

theorem htj2k_validate_width (p : Parameters) :
    (Parameters.Validate p).1.BlockWidth = nearestPowerOf2 (clampI 4 1024 p.BlockWidth) := by
  obtain ⟨q, bw, bh, nl⟩ := p
  simp only [Parameters.Validate, apply_ite Parameters.BlockWidth, ite_self, clampI, decide_eq_true_eq]
  repeat' split
  all_goals simp_all

theorem htj2k_validate_height (p : Parameters) :
    (Parameters.Validate p).1.BlockHeight = nearestPowerOf2 (clampI 4 1024 p.BlockHeight) := by
  obtain ⟨q, bw, bh, nl⟩ := p
  simp only [Parameters.Validate, apply_ite Parameters.BlockHeight, ite_self, clampI, decide_eq_true_eq]
  repeat' split
  all_goals simp_all

end

/-! ## RLE: the `tempBuffer` overrun flag of the model is never raised (C01's encoder invariant) -/

theorem encodeSegments_oob (i : Rle.Info) (src : Array Rle.Byte) :
    ∀ (n s : Nat) (body : List Rle.Byte) (offs : List Nat) (oob : Bool) (r : List Rle.Byte × List Nat × Bool),
      Rle.encodeSegments i src n s body offs oob = .ok r → r.2.2 = oob := by
  intro n
  induction n with
  | zero =>
    intro s body offs oob r h
    simp [Rle.encodeSegments] at h
    cases h; rfl
  | succ n ih =>
    intro s body offs oob r h
    rw [Rle.encodeSegments] at h
    simp only [] at h
    generalize (if (64 + body.length) % 2 = 1 then body ++ [0] else body) = body' at h
    cases hrp : Rle.readPlane src (i.segStart s) i.segStride i.pixelCount with
    | none => rw [hrp] at h; cases h
    | some plane =>
      rw [hrp] at h
      simp only [] at h
      by_cases hg : 64 + (body' ++ (Rle.encodeSegment plane).1).length > Rle.maxEncodedFrameLength
      · rw [if_pos hg] at h; cases h
      · rw [if_neg hg] at h
        have := ih _ _ _ _ r h
        rw [this, (Rle.encodeSegment_spec plane).2, Bool.or_false]

/-- the size guard of encodeFrame, for ANY frame description and source: a returned segment list keeps the
    stream within `maxEncodedFrameLength`, and one offset is recorded per segment -/
theorem encodeSegments_fits (i : Rle.Info) (src : Array Rle.Byte) :
    ∀ (n s : Nat) (body : List Rle.Byte) (offs : List Nat) (oob : Bool) (r : List Rle.Byte × List Nat × Bool),
      Rle.encodeSegments i src n s body offs oob = .ok r → 64 + body.length ≤ Rle.maxEncodedFrameLength →
      64 + r.1.length ≤ Rle.maxEncodedFrameLength ∧ r.2.1.length = offs.length + n := by
  intro n
  induction n with
  | zero =>
    intro s body offs oob r h hb
    simp [Rle.encodeSegments] at h
    cases h
    exact ⟨hb, rfl⟩
  | succ n ih =>
    intro s body offs oob r h _
    rw [Rle.encodeSegments] at h
    simp only [] at h
    generalize (if (64 + body.length) % 2 = 1 then body ++ [0] else body) = body' at h
    cases hrp : Rle.readPlane src (i.segStart s) i.segStride i.pixelCount with
    | none => rw [hrp] at h; cases h
    | some plane =>
      rw [hrp] at h
      simp only [] at h
      by_cases hg : 64 + (body' ++ (Rle.encodeSegment plane).1).length > Rle.maxEncodedFrameLength
      · rw [if_pos hg] at h; cases h
      · rw [if_neg hg] at h
        have := ih _ _ _ _ r h (by omega)
        refine ⟨this.1, ?_⟩
        rw [this.2]; simp; omega

end C17
