import GdcVerif.GoPrelude
import GdcVerif.Model.C17Params
import GdcVerif.Model.Rle
import GdcVerif.Gen.JpegLs
import GdcVerif.Gen.ValidateJpegBaseline
import GdcVerif.Gen.ValidateJpegExtended
import GdcVerif.Gen.ValidateJpegLossless
import GdcVerif.Gen.ValidateJpegSv1
import GdcVerif.Gen.ValidateJpegLsNear
import GdcVerif.Gen.ValidateJ2k
import GdcVerif.Gen.ValidateHtj2k
/-!
  C17 — format-side definitions (`Representable`, written from T.81 / T.87 / T.800 / PS3.5
  Annex G, not from the code) and helper lemmas for `Props/C17.lean`.
-/
namespace C17

/-! ## What the formats can represent -/

/-- T.81 B.2.2 (SOFn: Y, X) and T.87 C.2.2 (SOF55): 16-bit fields; X = 0 is not allowed and
    Y = 0 announces a DNL segment, which none of the encoders writes. -/
def Dim16 (n : Int) : Prop := 1 ≤ n ∧ n ≤ 65535

/-- bytes per sample of the native little-endian frame: ⌈P/8⌉ -/
def bytesPerSample (p : Int) : Int := (p + 7) / 8

/-- the 16-bit big-endian size field as written by every writeSOF* (`byte(v>>8), byte(v)`) and
    read back by a decoder -/
def declared16 (v : Int) : Int := Go.uwrap8 (Go.shr v 8) * 256 + Go.uwrap8 v

/-- JPEG Baseline (SOF0): P = 8, Nf ∈ {1,3} as supported by the library, quality 1..100 -/
def BaselineRepresentable (len w h c q : Int) : Prop :=
  Dim16 w ∧ Dim16 h ∧ (c = 1 ∨ c = 3) ∧ (1 ≤ q ∧ q ≤ 100) ∧ len ≥ w * h * c

/-- JPEG Extended (SOF1): P = 8 (1 or 3 components) or P = 12 (monochrome only in this library) -/
def ExtendedRepresentable (len w h c p q : Int) : Prop :=
  Dim16 w ∧ Dim16 h ∧ (1 ≤ q ∧ q ≤ 100) ∧
  ((p = 8 ∧ (c = 1 ∨ c = 3) ∧ len ≥ w * h * c) ∨ (p = 12 ∧ c = 1 ∧ len ≥ w * h * 2))

/-- JPEG Lossless (SOF3): P 2..16, predictor selection value 1..7 (0 = let the encoder choose) -/
def LosslessRepresentable (len w h c p pred : Int) : Prop :=
  Dim16 w ∧ Dim16 h ∧ (c = 1 ∨ c = 3) ∧ (2 ≤ p ∧ p ≤ 16) ∧ (0 ≤ pred ∧ pred ≤ 7) ∧
  len ≥ w * h * c * bytesPerSample p

/-- JPEG-LS (SOF55, T.87): P 2..16; NEAR ≤ min(255, MAXVAL/2) with MAXVAL = 2^P − 1 (T.87 C.2.3) -/
def JpegLsRepresentable (len w h c p near : Int) : Prop :=
  Dim16 w ∧ Dim16 h ∧ (c = 1 ∨ c = 3) ∧ (2 ≤ p ∧ p ≤ 16) ∧
  (0 ≤ near ∧ near ≤ 255 ∧ near ≤ ((2 : Int) ^ p.toNat - 1) / 2) ∧
  len ≥ w * h * c * bytesPerSample p

/-- powers of two 2^lo … 2^hi -/
def pow2s (lo hi : Nat) : List Int := (List.range (hi + 1 - lo)).map (fun k => (2 : Int) ^ (k + lo))

/-- JPEG 2000 (T.800 A.5.1 SIZ, A.6.1 COD): 32-bit image size, tile size 0 (= whole image) or
    positive, code-block width/height 2^2..2^10 with area ≤ 4096 (xcb+ycb ≤ 12), precinct size 0
    (= default 2^15) or a power of two 2^0..2^15 (PPx/PPy are exponents), 1..65535 layers,
    progression order 0..4; components 1..4, depth 1..16, 0..6 levels and quality 1..100 (lossy)
    are what the library documents as supported. -/
def J2kRepresentable (p : Gen.ValidateJ2k.EncodeParams) (len : Int) : Prop :=
  (1 ≤ p.Width ∧ p.Width ≤ 4294967295) ∧ (1 ≤ p.Height ∧ p.Height ≤ 4294967295) ∧
  (1 ≤ p.Components ∧ p.Components ≤ 4) ∧ (1 ≤ p.BitDepth ∧ p.BitDepth ≤ 16) ∧
  (0 ≤ p.NumLevels ∧ p.NumLevels ≤ 6) ∧
  p.CodeBlockWidth ∈ pow2s 2 10 ∧ p.CodeBlockHeight ∈ pow2s 2 10 ∧
  p.CodeBlockWidth * p.CodeBlockHeight ≤ 4096 ∧
  (0 ≤ p.TileWidth ∧ 0 ≤ p.TileHeight) ∧
  (p.PrecinctWidth = 0 ∨ p.PrecinctWidth ∈ pow2s 0 15) ∧
  (p.PrecinctHeight = 0 ∨ p.PrecinctHeight ∈ pow2s 0 15) ∧
  (1 ≤ p.NumLayers ∧ p.NumLayers ≤ 65535) ∧
  (0 ≤ p.ProgressionOrder ∧ p.ProgressionOrder ≤ 4) ∧
  (p.Lossless = false → 1 ≤ p.Quality ∧ p.Quality ≤ 100) ∧
  len ≥ p.Width * p.Height * p.Components * bytesPerSample p.BitDepth

instance (n : Int) : Decidable (Dim16 n) := by unfold Dim16; infer_instance
instance (a b c d e : Int) : Decidable (BaselineRepresentable a b c d e) := by
  unfold BaselineRepresentable; infer_instance
instance (a b c d e f : Int) : Decidable (ExtendedRepresentable a b c d e f) := by
  unfold ExtendedRepresentable; infer_instance
instance (a b c d e f : Int) : Decidable (LosslessRepresentable a b c d e f) := by
  unfold LosslessRepresentable; infer_instance
instance (a b c d e f : Int) : Decidable (JpegLsRepresentable a b c d e f) := by
  unfold JpegLsRepresentable; infer_instance
instance (p : Gen.ValidateJ2k.EncodeParams) (len : Int) : Decidable (J2kRepresentable p len) := by
  unfold J2kRepresentable; infer_instance

/-! ## Lemmas -/

theorem tdiv8 (p : Int) (h : 0 ≤ p) : Int.tdiv (p + 7) 8 = bytesPerSample p := by
  unfold bytesPerSample
  exact Int.tdiv_eq_ediv_of_nonneg (by omega)

theorem declared16_of_fits (v : Int) (h0 : 0 ≤ v) (h1 : v ≤ 65535) : declared16 v = v := by
  unfold declared16 Go.uwrap8 Go.shr
  have : (8 : Int).toNat = 8 := rfl
  rw [this, Int.shiftRight_eq_div_pow]
  omega

end C17

namespace C17
open Gen.ValidateJ2k

set_option maxRecDepth 100000 in
/-- exhaustive over the only range the guard lets through (4..1024) -/
theorem isPowerOfTwo_range_nat : ∀ k : Nat, k < 1025 → 4 ≤ k →
    isPowerOfTwo (k : Int) = true → (k : Int) ∈ pow2s 2 10 := by
  decide

theorem isPowerOfTwo_range (n : Int) (h4 : 4 ≤ n) (h1024 : n ≤ 1024)
    (hp : isPowerOfTwo n = true) : n ∈ pow2s 2 10 := by
  have hn : n = ((n.toNat : Nat) : Int) := by omega
  rw [hn] at hp ⊢
  exact isPowerOfTwo_range_nat n.toNat (by omega) (by omega) hp

end C17
