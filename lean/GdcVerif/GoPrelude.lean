/-!
  Go integer semantics used by the generated (`Gen/`) and hand-written (`Model/`) definitions.

  Go `int` is modelled as Lean `Int` (no wrap-around at 64 bits: every value the codecs
  compute is far below 2^62; this reading is part of the trusted base).  Bitwise operators
  go through 64-bit two's complement `BitVec`, which is literally Go's semantics.
-/
namespace Go

def and (a b : Int) : Int := (BitVec.ofInt 64 a &&& BitVec.ofInt 64 b).toInt
def or  (a b : Int) : Int := (BitVec.ofInt 64 a ||| BitVec.ofInt 64 b).toInt
def xor (a b : Int) : Int := (BitVec.ofInt 64 a ^^^ BitVec.ofInt 64 b).toInt

/-- `x << k` (k ≥ 0; no overflow modelling) -/
def shl (x k : Int) : Int := x * (2 : Int) ^ k.toNat
/-- `x >> k` on a signed int: arithmetic shift = floor division by 2^k -/
def shr (x k : Int) : Int := x >>> k.toNat

/-- intN(x): wrap to N-bit two's complement -/
def wrap8  (x : Int) : Int := (x + 128) % 256 - 128
def wrap16 (x : Int) : Int := (x + 32768) % 65536 - 32768
def wrap32 (x : Int) : Int := (x + 2147483648) % 4294967296 - 2147483648
/-- uintN(x) / byte(x) -/
def uwrap8  (x : Int) : Int := x % 256
def uwrap16 (x : Int) : Int := x % 65536
def uwrap32 (x : Int) : Int := x % 4294967296

def abs (x : Int) : Int := if x < 0 then -x else x

end Go
