import GdcVerif.Model.ParseCore
/-
  Marker layer of the JPEG-family decoders (C08/C09), following /repo HEAD (after the fix commits
  1cb8f42 Build, b3192bf baseline selectors, 8718df8 SOS-before-SOF, f4e8601 SV1 selector,
  879b6e2 lossless table ids, FIXME-SOF second frame header rejected by baseline and SV1).

  Hand-written, code-shaped, executable models of
    /repo/jpeg/standard/reader.go        Reader.ReadMarker / ReadSegment
    /repo/jpeg/standard/huffman.go       HuffmanTable.Build   (lookupTable[code+j], Values[p])
    /repo/jpeg/lossless14sv1/decoder.go  Decode, parseSOF3, parseDHT, parseSOS, start of decodeScan
    /repo/jpeg/lossless/decoder.go       Decode, parseSOF3, parseDHT, parseSOS, start of decodeScan
    /repo/jpeg/baseline/decoder.go       Decode, parseSOF, parseDQT, parseDHT, parseDRI, parseSOS, start of decodeScan

  An index / division the Go code performs on stream-derived values stays an explicit
  `panic site` branch in the model AFTER the guard the code now has; the theorems show the branch
  dead.  Every model state carries the list of allocation sizes (bytes) performed so far (C09).
  Input bytes are `Nat`s (< 256 on every path the driver feeds).
-/
namespace JM
open PC

/-! ## standard.Reader -/

/-- the fill-byte loop of ReadMarker: first byte that is not 0xFF, and what follows it -/
def skipFill : Bytes → Option (Nat × Bytes)
  | [] => none
  | b :: rest => if b = 0xFF then skipFill rest else some (b, rest)

/-- `Reader.ReadMarker`: `none` is an error (EOF, ErrInvalidMarker) -/
def readMarker : Bytes → Option (Nat × Bytes)
  | [] => none
  | b :: rest =>
    if b ≠ 0xFF then none
    else match skipFill rest with
      | none => none
      | some (m, rest') => if m = 0 then none else some (0xFF00 + m, rest')

/-- `Reader.ReadSegment`: (payload, rest); `none` is an error.
    The payload buffer `make([]byte, length-2)` is allocated before the data is known to be there. -/
def readSegment : Bytes → Option (Bytes × Bytes)
  | hi :: lo :: rest =>
    let length := hi * 256 + lo
    if length < 2 then none
    else if rest.length < length - 2 then none
    else some (rest.take (length - 2), rest.drop (length - 2))
  | _ => none

/-- size of the allocation ReadSegment performs on this input (0 when it fails before allocating) -/
def readSegmentAlloc : Bytes → Nat
  | hi :: lo :: _ => let length := hi * 256 + lo; if length < 2 then 0 else length - 2
  | _ => 0

def hasLength (m : Nat) : Bool :=
  !(m = 0xFFD8 || m = 0xFFD9 || (0xFFD0 ≤ m && m ≤ 0xFFD7))

theorem skipFill_lt {bs : Bytes} {m : Nat} {rest : Bytes} (h : skipFill bs = some (m, rest)) :
    rest.length < bs.length := by
  induction bs with
  | nil => simp [skipFill] at h
  | cons b tl ih =>
    unfold skipFill at h
    split at h
    · have := ih h; simp; omega
    · injection h with h; injection h with _ h2; subst h2; simp

/-- ReadMarker consumes at least two bytes -/
theorem readMarker_progress {bs : Bytes} {m : Nat} {rest : Bytes} (h : readMarker bs = some (m, rest)) :
    rest.length + 2 ≤ bs.length := by
  cases bs with
  | nil => simp [readMarker] at h
  | cons b tl =>
    unfold readMarker at h
    by_cases hb : b ≠ 0xFF
    · simp [hb] at h
    · simp only [hb, if_false] at h
      cases hs : skipFill tl with
      | none => simp [hs] at h
      | some p =>
        obtain ⟨m', rest'⟩ := p
        simp only [hs] at h
        have := skipFill_lt hs
        by_cases hm : m' = 0
        · simp [hm] at h
        · simp only [hm, if_false] at h
          injection h with h; injection h with _ h2; subst h2; simp; omega

/-- ReadSegment consumes at least the two length bytes, also for length = 2; the payload is
    shorter than the input it was cut from -/
theorem readSegment_progress {bs pl rest : Bytes} (h : readSegment bs = some (pl, rest)) :
    rest.length + 2 ≤ bs.length ∧ pl.length + 2 ≤ bs.length := by
  match bs, h with
  | hi :: lo :: tl, h =>
    unfold readSegment at h
    simp only at h
    split at h
    · cases h
    · split at h
      · cases h
      · injection h with h; injection h with h1 h2; subst h1; subst h2
        simp [List.length_drop, List.length_take] <;> omega

/-! ## one turn of a marker loop -/

/-- what a segment handler answers -/
inductive H (σ : Type) where
  | cont (st : σ)
  | stop (st : σ) (r : Res)

/-- read the segment that follows a marker and hand (payload, unread bytes after it) to `h`;
    `fail` records the allocation of a ReadSegment that failed after allocating -/
def segTurn {σ : Type} (st : σ) (rest : Bytes) (fail : σ → Nat → σ) (h : Bytes → Nat → H σ) : Step σ :=
  match readSegment rest with
  | none => .done (fail st (readSegmentAlloc rest)) .err
  | some (pl, rest2) =>
    match h pl rest2.length with
    | .cont st' => .more st' rest2
    | .stop st' r => .done st' r

theorem segTurn_lt {σ : Type} {st st' : σ} {rest r : Bytes} {fail : σ → Nat → σ} {h : Bytes → Nat → H σ}
    (hs : segTurn st rest fail h = .more st' r) : r.length + 2 ≤ rest.length := by
  unfold segTurn at hs
  split at hs
  · cases hs
  · rename_i pl rest2 hr
    split at hs
    · injection hs with _ h2; subst h2; exact (readSegment_progress hr).1
    · cases hs

/-! ## HuffmanTable.Build -/

/-- inner loops of the first part of Build for one code length `l` (0-based): for each of the `n`
    codes the guard of commit 1cb8f42 (`(p+1)<<(7-l) > 256 || p >= len(Values)` → ErrInvalidDHT),
    then `code := p << (7-l)`, `lookupTable[code+j]` for `j < 1<<(7-l)` (largest index
    `(p+1)·2^(7-l) − 1`), `Values[p]`, `p++`. -/
def buildCodes (nvalues l : Nat) : Nat → Nat → Except Res Nat
  | 0, p => .ok p
  | n + 1, p =>
    if (p + 1) * 2 ^ (7 - l) > 256 ∨ p ≥ nvalues then .error .err
    else if (p + 1) * 2 ^ (7 - l) - 1 ≥ 256 then .error (.panic .huffLookup)
    else if p ≥ nvalues then .error (.panic .huffValues)
    else buildCodes nvalues l n (p + 1)

/-- `for l := 0; l < 8; l++` over the first eight BITS entries -/
def buildLens (nvalues : Nat) : List Nat → Nat → Nat → Except Res Unit
  | [], _, _ => .ok ()
  | n :: bits, l, p =>
    if l ≥ 8 then .ok ()
    else match buildCodes nvalues l n p with
      | .ok p' => buildLens nvalues bits (l + 1) p'
      | .error e => .error e

/-- `HuffmanTable.Build` (the min/max/valPtr part indexes fixed [16] arrays with l < 16 only) -/
def build (bits : List Nat) (nvalues : Nat) : Except Res Unit := buildLens nvalues bits 0 0

/-- one DHT table at the head of `data`: (tc, th, rest) -/
def dhtTable (maxTh : Nat) (data : Bytes) : Except Res (Nat × Nat × Bytes) :=
  match data with
  | [] => .error .err
  | tcTh :: rest =>
    let tc := tcTh / 16
    let th := tcTh % 16
    if th > maxTh then .error .err
    else if rest.length < 16 then .error .err
    else
      let bits := rest.take 16
      let total := bits.foldl (· + ·) 0
      let rest2 := rest.drop 16
      if rest2.length < total then .error .err
      else match build bits total with
        | .ok () => .ok (tc, th, rest2.drop total)
        | .error e => .error e

theorem dhtTable_lt {maxTh : Nat} {data rest : Bytes} {tc th : Nat}
    (h : dhtTable maxTh data = .ok (tc, th, rest)) : rest.length < data.length := by
  unfold dhtTable at h
  split at h
  · cases h
  · simp only at h
    split at h
    · cases h
    · split at h
      · cases h
      · split at h
        · cases h
        · split at h
          · injection h with h; injection h with _ h; injection h with _ h; subst h
            simp [List.length_drop]; omega
          · cases h

/-- `parseDHT` body on the segment payload: DC table ids defined (tc = 0) are folded into
    `dc`, the others into `ac` (lists of 4 flags) -/
def parseDHT (maxTh : Nat) (data : Bytes) (dc ac : List Bool) : Except Res (List Bool × List Bool) :=
  match data with
  | [] => .ok (dc, ac)
  | b :: tl =>
    match hd : dhtTable maxTh (b :: tl) with
    | .ok (tc, th, rest) =>
      if tc = 0 then parseDHT maxTh rest (dc.set th true) ac
      else parseDHT maxTh rest dc (ac.set th true)
    | .error e => .error e
termination_by data.length
decreasing_by all_goals (exact dhtTable_lt hd)

/-- number of table headers a DHT payload can hold: each allocates `Values` (≤ payload) -/
def noTables : List Bool := [false, false, false, false]

/-! ## lossless14sv1 -/

structure Sv1 where
  width : Nat := 0
  height : Nat := 0
  precision : Nat := 0
  /-- (component id, dcTableSelector) -/
  comps : List (Nat × Nat) := []
  tables : List Bool := noTables
  allocs : List Nat := []
deriving Repr, DecidableEq

/-- component loop of parseSOF3: each component allocates `make([]int, w*h)` and is then checked -/
def sv1Comps (w h : Nat) : Nat → Bytes → List (Nat × Nat) → List Nat → Option (List (Nat × Nat)) × List Nat
  | 0, _, acc, al => (some acc, al)
  | n + 1, id :: hv :: _tq :: rest, acc, al =>
    let al := al ++ [8 * (w * h)]
    if hv / 16 ≠ 1 ∨ hv % 16 ≠ 1 then (none, al)
    else sv1Comps w h n rest (acc ++ [(id, 0)]) al
  | _ + 1, _, _, al => (none, al)

/-- `Decoder.parseSOF3` on the segment payload: (accepted?, decoder state after the call, allocations).
    The fields are assigned in the order of the Go code, so a frame header that is rejected after
    its extent was read leaves width/height set (the decode stops with that error).  A second frame
    header is rejected (commit FIXME-SOF): it would re-allocate every component plane. -/
def sv1SOF3 (st : Sv1) (data : Bytes) : (Bool × Sv1) × List Nat :=
  if data.length < 6 then ((false, st), [])
  else if st.comps.length > 0 then ((false, st), [])
  else
    let p := data.getD 0 0
    let st1 := { st with precision := p }
    if p < 2 ∨ p > 16 then ((false, st1), [])
    else
      let h := data.getD 1 0 * 256 + data.getD 2 0
      let w := data.getD 3 0 * 256 + data.getD 4 0
      let nc := data.getD 5 0
      let st2 := { st1 with width := w, height := h }
      if w = 0 ∨ h = 0 then ((false, st2), [])
      else if nc ≠ 1 ∧ nc ≠ 3 then ((false, st2), [])
      else if data.length < 6 + nc * 3 then ((false, st2), [])
      else
        match sv1Comps w h nc (data.drop 6) [] [8 * nc] with
        | (none, al) => ((false, st2), al)
        | (some cs, al) => ((true, { st2 with comps := cs }), al)

/-- selector loop of parseSOS: the high nibble of the Td/Ta byte is the DC table selector and is
    checked against `len(d.dcTables)` = 4 (commit f4e8601) -/
def sv1Selectors : Nat → Bytes → List (Nat × Nat) → Option (List (Nat × Nat))
  | 0, _, comps => some comps
  | n + 1, cs :: td :: rest, comps =>
    match comps.findIdx? (·.1 = cs) with
    | none => none
    | some k => if td / 16 ≥ 4 then none else sv1Selectors n rest (comps.set k (cs, td / 16))
  | _ + 1, _, _ => none

/-- `Decoder.parseSOS` on the segment payload -/
def sv1SOS (st : Sv1) (data : Bytes) : Option Sv1 :=
  match data with
  | [] => none
  | ns :: rest =>
    if data.length < 1 + ns * 2 + 3 then none
    else match sv1Selectors ns rest st.comps with
      | none => none
      | some cs => if data.getD (1 + ns * 2) 0 ≠ 1 then none else some { st with comps := cs }

/-- what decodeScan does first, after collecting the scan bytes (collection cannot fail on a
    bytes.Reader): for the first sample of the first component `d.dcTables[comp.dcTableSelector]`,
    a 4-entry array.  No sample ⇒ straight to convertToPixels ⇒ ok. -/
def sv1ScanStart (st : Sv1) : Res :=
  if st.width = 0 ∨ st.height = 0 then .ok
  else match st.comps with
    | [] => .ok
    | (_, sel) :: _ =>
      if sel ≥ 4 then .panic .sv1TableSel
      else if st.tables.getD sel false then .beyond else .err

def Sv1.outBytes (st : Sv1) : Nat := st.width * st.height * st.comps.length * ((st.precision + 7) / 8)

/-- one turn of the marker loop of `lossless14sv1.Decode` (after SOI) -/
def sv1Step (st : Sv1) (bs : Bytes) : Step Sv1 :=
  match readMarker bs with
  | none => .done st .err
  | some (m, rest) =>
    let fail := fun (s : Sv1) (a : Nat) => { s with allocs := s.allocs ++ [a] }
    if m = 0xFFC3 then
      segTurn st rest fail fun pl _ =>
        match sv1SOF3 st pl with
        | ((false, st'), al) => .stop { st' with allocs := st.allocs ++ [pl.length] ++ al } .err
        | ((true, st'), al) => .cont { st' with allocs := st.allocs ++ [pl.length] ++ al }
    else if m = 0xFFC4 then
      segTurn st rest fail fun pl _ =>
        -- `Values` of every table is cut from the payload: at most the payload length in total
        let st1 := { st with allocs := st.allocs ++ [pl.length, pl.length] }
        match parseDHT 3 pl st.tables noTables with
        | .ok (t, _) => .cont { st1 with tables := t }
        | .error e => .stop st1 e
    else if m = 0xFFDA then
      segTurn st rest fail fun pl unread =>
        match sv1SOS st pl with
        | none => .stop { st with allocs := st.allocs ++ [pl.length] } .err
        | some st' =>
          -- scan bytes are copied into a buffer (≤ unread input), then decoding starts
          let st2 := { st' with allocs := st.allocs ++ [pl.length, unread] }
          match sv1ScanStart st' with
          | .ok => .stop { st2 with allocs := st2.allocs ++ [st'.outBytes] } .ok
          | r => .stop st2 r
    else if m = 0xFFD9 then
      .done { st with allocs := st.allocs ++ [st.outBytes] } .ok
    else if hasLength m then
      segTurn st rest fail fun pl _ => .cont { st with allocs := st.allocs ++ [pl.length] }
    else .more st rest

theorem sv1Step_lt {st st' : Sv1} {bs r : Bytes} (h : sv1Step st bs = .more st' r) : r.length < bs.length := by
  unfold sv1Step at h
  split at h
  · cases h
  · rename_i m rest hm
    have hp := readMarker_progress hm
    simp only at h
    repeat' split at h
    all_goals first
      | (have := segTurn_lt h; omega)
      | (injection h with _ h2; subst h2; omega)
      | cases h

/-- `lossless14sv1.Decode` up to the first Huffman symbol of the scan -/
def sv1Decode (bs : Bytes) : Sv1 × Res :=
  match readMarker bs with
  | none => ({}, .err)
  | some (m, rest) => if m ≠ 0xFFD8 then ({}, .err) else run sv1Step sv1Step_lt {} rest

/-! ## jpeg/lossless (process 14, predictors 1–7) -/

structure Jll where
  width : Nat := 0
  height : Nat := 0
  comps : Nat := 0
  precision : Nat := 0
  /-- `dcTableSelectors [3]int` -/
  sels : List Nat := [0, 0, 0]
  tables : List Bool := noTables
  allocs : List Nat := []
deriving Repr, DecidableEq

/-- `Decoder.parseSOF3` (no allocation here: sample planes are allocated in decodeScan) -/
def jllSOF3 (st : Jll) (data : Bytes) : Option Jll :=
  if data.length < 6 then none
  else if st.comps ≠ 0 then none     -- a second frame header is rejected (commit 72b8b5a)
  else
    let p := data.getD 0 0
    if p < 2 ∨ p > 16 then none
    else
      let h := data.getD 1 0 * 256 + data.getD 2 0
      let w := data.getD 3 0 * 256 + data.getD 4 0
      let nc := data.getD 5 0
      if w = 0 ∨ h = 0 then none
      else if nc ≠ 1 ∧ nc ≠ 3 then none
      else some { st with width := w, height := h, comps := nc, precision := p }

/-- selector loop of parseSOS: `data[2+component*2] >> 4`, checked against len(dcTables) = 4,
    stored in `dcTableSelectors[component]` (a [3]int) -/
def jllSelectors (data : Bytes) (ncomp : Nat) : Nat → List Nat → Except Res (List Nat)
  | 0, sels => .ok sels
  | k + 1, sels =>
    let c := ncomp - (k + 1)
    if 2 + c * 2 ≥ data.length then .error (.panic .jllSelIndex)
    else
      let sel := data.getD (2 + c * 2) 0 / 16
      if sel ≥ 4 then .error .err
      else if c ≥ 3 then .error (.panic .jllSelIndex)
      else jllSelectors data ncomp k (sels.set c sel)

/-- `Decoder.parseSOS` on the segment payload -/
def jllSOS (st : Jll) (data : Bytes) : Except Res Jll :=
  if data.length < 1 + st.comps * 2 + 3 then .error .err
  else if data.getD 0 0 ≠ st.comps then .error .err
  else
    let pred := data.getD (1 + st.comps * 2) 0
    if pred < 1 ∨ pred > 7 then .error .err
    else match jllSelectors data st.comps st.comps st.sels with
      | .ok s => .ok { st with sels := s }
      | .error e => .error e

/-- first table lookup of decodeScan: `d.dcTables[d.dcTableSelectors[0]]` for the first sample -/
def jllScanStart (st : Jll) : Res :=
  if st.width = 0 ∨ st.height = 0 ∨ st.comps = 0 then .ok
  else
    let sel := st.sels.getD 0 0
    if sel ≥ 4 then .panic .jllTableSel
    else if st.tables.getD sel false then .beyond else .err

def jllStep (st : Jll) (bs : Bytes) : Step Jll :=
  match readMarker bs with
  | none => .done st .err
  | some (m, rest) =>
    let fail := fun (s : Jll) (a : Nat) => { s with allocs := s.allocs ++ [a] }
    if m = 0xFFC3 then
      segTurn st rest fail fun pl _ =>
        match jllSOF3 st pl with
        | none => .stop { st with allocs := st.allocs ++ [pl.length] } .err
        | some st' => .cont { st' with allocs := st.allocs ++ [pl.length] }
    else if m = 0xFFC4 then
      segTurn st rest fail fun pl _ =>
        let st1 := { st with allocs := st.allocs ++ [pl.length, pl.length] }
        match parseDHT 3 pl st.tables noTables with
        | .ok (t, _) => .cont { st1 with tables := t }
        | .error e => .stop st1 e
    else if m = 0xFFDA then
      segTurn st rest fail fun pl unread =>
        match jllSOS st pl with
        | .error e => .stop { st with allocs := st.allocs ++ [pl.length] } e
        | .ok st' =>
          -- scan buffer, then `comps` sample planes of 8·w·h bytes
          let st2 := { st' with allocs := st.allocs ++ [pl.length, unread] ++ List.replicate st'.comps (8 * (st'.width * st'.height)) }
          match jllScanStart st' with
          | .ok => .stop { st2 with allocs := st2.allocs ++ [st'.width * st'.height * st'.comps * ((st'.precision + 7) / 8)] } .ok
          | r => .stop st2 r
    else if m = 0xFFD9 then .done st .err
    else if hasLength m then
      segTurn st rest fail fun pl _ => .cont { st with allocs := st.allocs ++ [pl.length] }
    else .more st rest

theorem jllStep_lt {st st' : Jll} {bs r : Bytes} (h : jllStep st bs = .more st' r) : r.length < bs.length := by
  unfold jllStep at h
  split at h
  · cases h
  · rename_i m rest hm
    have hp := readMarker_progress hm
    simp only at h
    repeat' split at h
    all_goals first
      | (have := segTurn_lt h; omega)
      | (injection h with _ h2; subst h2; omega)
      | cases h

def jllDecode (bs : Bytes) : Jll × Res :=
  match readMarker bs with
  | none => ({}, .err)
  | some (m, rest) => if m ≠ 0xFFD8 then ({}, .err) else run jllStep jllStep_lt {} rest

/-! ## baseline -/

structure BlComp where
  id : Nat
  h : Nat
  v : Nat
  tq : Nat
  td : Nat := 0
  ta : Nat := 0
deriving Repr, DecidableEq

structure Bl where
  width : Nat := 0
  height : Nat := 0
  comps : List BlComp := []
  mcuW : Nat := 0
  mcuH : Nat := 0
  dc : List Bool := noTables
  ac : List Bool := noTables
  allocs : List Nat := []
deriving Repr, DecidableEq

/-- `DivCeil(a, b)`; `none` = divide by zero -/
def divCeil (a b : Nat) : Option Nat := if b = 0 then none else some ((a + b - 1) / b)

/-- component loop of parseSOF -/
def blComps : Nat → Bytes → List BlComp → Option (List BlComp)
  | 0, _, acc => some acc
  | n + 1, id :: hv :: tq :: rest, acc =>
    let h := hv / 16
    let v := hv % 16
    if h = 0 ∨ h > 4 ∨ v = 0 ∨ v > 4 ∨ tq > 3 then none
    else blComps n rest (acc ++ [{ id, h, v, tq }])
  | _ + 1, _, _ => none

def maxOf (f : BlComp → Nat) (cs : List BlComp) : Nat := cs.foldl (fun m c => max m (f c)) 1

/-- per-component `comp.data = make([]byte, DivCeil(w·H, maxH·8)·DivCeil(h·V, maxV·8)·64)` -/
def blCompAllocs (w h maxH maxV : Nat) : List BlComp → Except Res (List Nat)
  | [] => .ok []
  | c :: cs =>
    match divCeil (w * c.h) (maxH * 8) with
    | none => .error (.panic .blDivCeil)
    | some cw =>
      match divCeil (h * c.v) (maxV * 8) with
      | none => .error (.panic .blDivCeil)
      | some ch =>
        match blCompAllocs w h maxH maxV cs with
        | .ok al => .ok ((cw * ch * 64) :: al)
        | .error e => .error e

/-- `Decoder.parseSOF` -/
def blSOF (st : Bl) (data : Bytes) : Except Res (Bl × List Nat) :=
  if data.length < 6 then .error .err
  else if st.comps.length > 0 then .error .err     -- commit FIXME-SOF: a second frame header is rejected
  else if data.getD 0 0 ≠ 8 then .error .err
  else
    let h := data.getD 1 0 * 256 + data.getD 2 0
    let w := data.getD 3 0 * 256 + data.getD 4 0
    let nc := data.getD 5 0
    if w = 0 ∨ h = 0 then .error .err
    else if nc ≠ 1 ∧ nc ≠ 3 then .error .err
    else if data.length < 6 + nc * 3 then .error .err
    else match blComps nc (data.drop 6) [] with
      | none => .error .err
      | some cs =>
        let maxH := maxOf (·.h) cs
        let maxV := maxOf (·.v) cs
        -- mcuCols / mcuRows
        match divCeil w (maxH * 8) with
        | none => .error (.panic .blDivCeil)
        | some _ =>
          match divCeil h (maxV * 8) with
          | none => .error (.panic .blDivCeil)
          | some _ =>
            match blCompAllocs w h maxH maxV cs with
            | .ok al => .ok ({ st with width := w, height := h, comps := cs, mcuW := maxH * 8, mcuH := maxV * 8 }, (8 * nc) :: al)
            | .error e => .error e

/-- `Decoder.parseDQT`: `d.qtables[tq]` is a [4] array -/
def blDQT (data : Bytes) : Res :=
  match data with
  | [] => .ok
  | pqTq :: rest =>
    let pq := pqTq / 16
    let tq := pqTq % 16
    if tq > 3 then .err
    else if tq ≥ 4 then .panic .blQuantSel
    else
      let n := if pq = 0 then 64 else 128
      if rest.length < n then .err
      else blDQT (rest.drop n)
termination_by data.length
decreasing_by simp [List.length_drop]; omega

/-- selector loop of parseSOS (commit b3192bf: td > 3 or ta > 3 → ErrInvalidSOS) -/
def blSelectors : Nat → Bytes → List BlComp → Option (List BlComp)
  | 0, _, comps => some comps
  | n + 1, cs :: tdta :: rest, comps =>
    match comps.find? (·.id = cs), comps.findIdx? (·.id = cs) with
    | some c, some k =>
      if tdta / 16 > 3 ∨ tdta % 16 > 3 then none
      else blSelectors n rest (comps.set k { c with td := tdta / 16, ta := tdta % 16 })
    | _, _ => none
  | _ + 1, _, _ => none

def blSOS (st : Bl) (data : Bytes) : Option Bl :=
  match data with
  | [] => none
  | ns :: rest =>
    if data.length < 1 + ns * 2 + 3 then none
    else match blSelectors ns rest st.comps with
      | none => none
      | some cs => some { st with comps := cs }

/-- start of decodeScan (commit 8718df8: mcuWidth = 0 → ErrInvalidSOF), then the first
    `decodeBlock`: `d.dcTables[comp.dcTableSelector]` -/
def blScanStart (st : Bl) : Res :=
  if st.mcuW = 0 ∨ st.mcuH = 0 then .err
  else match divCeil st.width st.mcuW with
    | none => .panic .blDivCeil
    | some cols =>
      match divCeil st.height st.mcuH with
      | none => .panic .blDivCeil
      | some rows =>
        if cols = 0 ∨ rows = 0 then .beyond
        else match st.comps with
          | [] => .beyond
          | c :: _ =>
            if c.td ≥ 4 then .panic .blTableSel
            else if st.dc.getD c.td false then .beyond else .err

def blStep (st : Bl) (bs : Bytes) : Step Bl :=
  match readMarker bs with
  | none => .done st .err
  | some (m, rest) =>
    let fail := fun (s : Bl) (a : Nat) => { s with allocs := s.allocs ++ [a] }
    if m = 0xFFC0 then
      segTurn st rest fail fun pl _ =>
        match blSOF st pl with
        | .ok (st', al) => .cont { st' with allocs := st.allocs ++ [pl.length] ++ al }
        | .error e => .stop { st with allocs := st.allocs ++ [pl.length] } e
    else if m = 0xFFDB then
      segTurn st rest fail fun pl _ =>
        match blDQT pl with
        | .ok => .cont { st with allocs := st.allocs ++ [pl.length] }
        | r => .stop { st with allocs := st.allocs ++ [pl.length] } r
    else if m = 0xFFC4 then
      segTurn st rest fail fun pl _ =>
        let st1 := { st with allocs := st.allocs ++ [pl.length, pl.length] }
        match parseDHT 3 pl st.dc st.ac with
        | .ok (d, a) => .cont { st1 with dc := d, ac := a }
        | .error e => .stop st1 e
    else if m = 0xFFDD then
      segTurn st rest fail fun pl _ =>
        if pl.length ≠ 2 then .stop { st with allocs := st.allocs ++ [pl.length] } .err
        else .cont { st with allocs := st.allocs ++ [pl.length] }
    else if m = 0xFFDA then
      segTurn st rest fail fun pl unread =>
        match blSOS st pl with
        | none => .stop { st with allocs := st.allocs ++ [pl.length] } .err
        | some st' => .stop { st' with allocs := st.allocs ++ [pl.length, unread] } (blScanStart st')
    else if m = 0xFFD9 then .done st .beyond   -- convertToPixels: not modelled
    else if hasLength m then
      segTurn st rest fail fun pl _ => .cont { st with allocs := st.allocs ++ [pl.length] }
    else .more st rest

theorem blStep_lt {st st' : Bl} {bs r : Bytes} (h : blStep st bs = .more st' r) : r.length < bs.length := by
  unfold blStep at h
  split at h
  · cases h
  · rename_i m rest hm
    have hp := readMarker_progress hm
    simp only at h
    repeat' split at h
    all_goals first
      | (have := segTurn_lt h; omega)
      | (injection h with _ h2; subst h2; omega)
      | cases h

def blDecode (bs : Bytes) : Bl × Res :=
  match readMarker bs with
  | none => ({}, .err)
  | some (m, rest) => if m ≠ 0xFFD8 then ({}, .err) else run blStep blStep_lt {} rest

end JM
