/-
  Marker layer of the JPEG-family decoders (C08/C09).

  Hand-written, code-shaped, executable models of
    /repo/jpeg/standard/reader.go     Reader.ReadMarker / ReadSegment
    /repo/jpeg/standard/huffman.go    HuffmanTable.Build   (index expressions lookupTable[code+j], Values[p])
    /repo/jpeg/lossless14sv1/decoder.go  Decode, parseSOF3, parseDHT, parseSOS, start of decodeScan
    /repo/jpeg/lossless/decoder.go       Decode, parseSOF3, parseDHT, parseSOS   (header walk)
    /repo/jpeg/baseline/decoder.go       Decode, parseSOF, parseDQT, parseDHT, parseDRI, parseSOS, start of decodeScan

  An index / division the Go code would panic on is an explicit `panic site` outcome.
  Every model returns, besides its outcome, the list of allocation sizes (bytes) it performed (C09).
  Input bytes are `Nat`s (< 256 on every path the driver feeds).
-/
namespace JM

abbrev Bytes := List Nat

inductive Site
  | huffLookup      -- HuffmanTable.Build: lookupTable[code+j]
  | huffValues      -- HuffmanTable.Build: Values[p]
  | sv1TableSel     -- lossless14sv1 decodeScan: d.dcTables[comp.dcTableSelector]
  | blDivCeil       -- baseline decodeScan: DivCeil(d.width, d.mcuWidth) with mcuWidth = 0
deriving Repr, DecidableEq

inductive Outcome (α : Type) where
  | ok (a : α)
  | err
  | panic (s : Site)
  /-- the walk reached entropy-coded data whose decoding is not modelled -/
  | scan
deriving Repr, DecidableEq

/-! ## standard.Reader -/

/-- the fill-byte loop of ReadMarker: first byte that is not 0xFF, and what follows it -/
def skipFill : Bytes → Option (Nat × Bytes)
  | [] => none
  | b :: rest => if b = 0xFF then skipFill rest else some (b, rest)

/-- `Reader.ReadMarker`: `none` is an error (EOF, ErrInvalidMarker) -/
def readMarker : Bytes → Option (Nat × Bytes)
  | [] => none
  | b :: rest =>
    if b ≠ 0xFF then none
    else match skipFill rest with
      | none => none
      | some (m, rest') => if m = 0 then none else some (0xFF00 + m, rest')

/-- `Reader.ReadSegment`: (payload, rest, bytes allocated); `none` is an error.
    The payload buffer `make([]byte, length-2)` is allocated before the data is known to be there. -/
def readSegment : Bytes → Option (Bytes × Bytes)
  | hi :: lo :: rest =>
    let length := hi * 256 + lo
    if length < 2 then none
    else if rest.length < length - 2 then none
    else some (rest.take (length - 2), rest.drop (length - 2))
  | _ => none

/-- size of the allocation ReadSegment performs on this input (0 when it fails before allocating) -/
def readSegmentAlloc : Bytes → Nat
  | hi :: lo :: _ => let length := hi * 256 + lo; if length < 2 then 0 else length - 2
  | _ => 0

def hasLength (m : Nat) : Bool :=
  !(m = 0xFFD8 || m = 0xFFD9 || (0xFFD0 ≤ m && m ≤ 0xFFD7))

/-! ## HuffmanTable.Build -/

/-- inner loops of the first part of Build for one code length `l` (0-based): for each of the `n`
    codes: `code := p << (7-l)`; `lookupTable[code+j]` for `j < 1<<(7-l)`; `Values[p]`; `p++`.
    The largest index written for code `p` is `(p+1)·2^(7-l) − 1`. -/
def buildCodes (nvalues l : Nat) : Nat → Nat → Outcome Nat
  | 0, p => .ok p
  | n + 1, p =>
    if (p + 1) * 2 ^ (7 - l) > 256 then .panic .huffLookup
    else if p ≥ nvalues then .panic .huffValues
    else buildCodes nvalues l n (p + 1)

/-- `for l := 0; l < 8; l++` over the first eight BITS entries -/
def buildLens (nvalues : Nat) : List Nat → Nat → Nat → Outcome Unit
  | [], _, _ => .ok ()
  | n :: bits, l, p =>
    if l ≥ 8 then .ok ()
    else match buildCodes nvalues l n p with
      | .ok p' => buildLens nvalues bits (l + 1) p'
      | .err => .err
      | .panic s => .panic s
      | .scan => .scan

/-- `HuffmanTable.Build` (the min/max/valPtr part indexes fixed [16] arrays with l < 16 only) -/
def build (bits : List Nat) (nvalues : Nat) : Outcome Unit := buildLens nvalues bits 0 0

/-- one DHT table at the head of `data`: (tc, th, rest) -/
def dhtTable (maxTh : Nat) (data : Bytes) : Outcome (Nat × Nat × Bytes) :=
  match data with
  | [] => .err
  | tcTh :: rest =>
    let tc := tcTh / 16
    let th := tcTh % 16
    if th > maxTh then .err
    else if rest.length < 16 then .err
    else
      let bits := rest.take 16
      let total := bits.foldl (· + ·) 0
      let rest2 := rest.drop 16
      if rest2.length < total then .err
      else match build bits total with
        | .ok () => .ok (tc, th, rest2.drop total)
        | .err => .err
        | .panic s => .panic s
        | .scan => .scan

/-- `parseDHT` body on the segment payload: the set of DC table ids defined (tc = 0) is folded
    into `tables` (a list of 4 flags); AC tables (tc ≠ 0) go to `actables` -/
def parseDHT (maxTh : Nat) (data : Bytes) (tables actables : List Bool) : Outcome (List Bool × List Bool) :=
  match h : data with
  | [] => .ok (tables, actables)
  | _ :: _ =>
    match hd : dhtTable maxTh data with
    | .ok (tc, th, rest) =>
      if hl : rest.length < data.length then
        if tc = 0 then parseDHT maxTh rest (tables.set th true) actables
        else parseDHT maxTh rest tables (actables.set th true)
      else .err  -- unreachable: a table consumes at least 17 bytes (see `dhtTable_lt`)
    | .err => .err
    | .panic s => .panic s
    | .scan => .scan
termination_by data.length
decreasing_by all_goals (subst h; exact hl)

/-! ## lossless14sv1 -/

structure Sv1 where
  width : Nat := 0
  height : Nat := 0
  precision : Nat := 0
  /-- (component id, dcTableSelector) -/
  comps : List (Nat × Nat) := []
  tables : List Bool := [false, false, false, false]
  allocs : List Nat := []
deriving Repr, DecidableEq

/-- component loop of parseSOF3: each component allocates `make([]int, w*h)` and is then checked -/
def sv1Comps (w h : Nat) : Nat → Bytes → List (Nat × Nat) → List Nat → Option (List (Nat × Nat)) × List Nat
  | 0, _, acc, al => (some acc, al)
  | n + 1, id :: hv :: _tq :: rest, acc, al =>
    let al := al ++ [8 * (w * h)]
    if hv / 16 ≠ 1 ∨ hv % 16 ≠ 1 then (none, al)
    else sv1Comps w h n rest (acc ++ [(id, 0)]) al
  | _ + 1, _, _, al => (none, al)

/-- `Decoder.parseSOF3` on the segment payload -/
def sv1SOF3 (st : Sv1) (data : Bytes) : Option Sv1 × List Nat :=
  if data.length < 6 then (none, [])
  else
    let p := data.getD 0 0
    if p < 2 ∨ p > 16 then (none, [])
    else
      let h := data.getD 1 0 * 256 + data.getD 2 0
      let w := data.getD 3 0 * 256 + data.getD 4 0
      let nc := data.getD 5 0
      if w = 0 ∨ h = 0 then (none, [])
      else if nc ≠ 1 ∧ nc ≠ 3 then (none, [])
      else if data.length < 6 + nc * 3 then (none, [])
      else
        -- d.precision/height/width are stored before the component loop; a failing loop returns an error
        match sv1Comps w h nc (data.drop 6) [] [8 * nc] with
        | (none, al) => (none, al)
        | (some cs, al) => (some { st with width := w, height := h, precision := p, comps := cs }, al)

/-- selector loop of parseSOS: the high nibble of the Td/Ta byte is the DC table selector and is
    checked against `len(d.dcTables)` = 4 (since repo commit f4e8601; before it the WHOLE byte was
    stored unchecked and decodeScan indexed `dcTables[byte]`) -/
def sv1Selectors : Nat → Bytes → List (Nat × Nat) → Option (List (Nat × Nat))
  | 0, _, comps => some comps
  | n + 1, cs :: td :: rest, comps =>
    match comps.findIdx? (·.1 = cs) with
    | none => none
    | some k => if td / 16 ≥ 4 then none else sv1Selectors n rest (comps.set k (cs, td / 16))
  | _ + 1, _, _ => none

/-- `Decoder.parseSOS` on the segment payload -/
def sv1SOS (st : Sv1) (data : Bytes) : Option Sv1 :=
  match data with
  | [] => none
  | ns :: rest =>
    if data.length < 1 + ns * 2 + 3 then none
    else match sv1Selectors ns rest st.comps with
      | none => none
      | some cs => if data.getD (1 + ns * 2) 0 ≠ 1 then none else some { st with comps := cs }

/-- what decodeScan does first, after collecting the scan bytes (collection cannot fail on a
    bytes.Reader): for the first sample of the first component `d.dcTables[comp.dcTableSelector]`,
    a 4-entry array.  No sample ⇒ straight to convertToPixels ⇒ ok. -/
def sv1ScanStart (st : Sv1) : Outcome Unit :=
  if st.width = 0 ∨ st.height = 0 then .ok ()
  else match st.comps with
    | [] => .ok ()
    | (_, sel) :: _ =>
      if sel ≥ 4 then .panic .sv1TableSel
      else if st.tables.getD sel false then .scan else .err

theorem skipFill_lt {bs : Bytes} {m : Nat} {rest : Bytes} (h : skipFill bs = some (m, rest)) :
    rest.length < bs.length := by
  induction bs with
  | nil => simp [skipFill] at h
  | cons b tl ih =>
    unfold skipFill at h
    split at h
    · have := ih h; simp; omega
    · injection h with h; injection h with _ h2; subst h2; simp

/-- ReadMarker consumes at least two bytes -/
theorem readMarker_progress {bs : Bytes} {m : Nat} {rest : Bytes} (h : readMarker bs = some (m, rest)) :
    rest.length + 2 ≤ bs.length := by
  cases bs with
  | nil => simp [readMarker] at h
  | cons b tl =>
    unfold readMarker at h
    by_cases hb : b ≠ 0xFF
    · simp [hb] at h
    · simp only [hb, if_false] at h
      cases hs : skipFill tl with
      | none => simp [hs] at h
      | some p =>
        obtain ⟨m', rest'⟩ := p
        simp only [hs] at h
        have := skipFill_lt hs
        by_cases hm : m' = 0
        · simp [hm] at h
        · simp only [hm, if_false] at h
          injection h with h; injection h with _ h2; subst h2; simp; omega

/-- ReadSegment consumes at least the two length bytes, also for length = 2 -/
theorem readSegment_progress {bs pl rest : Bytes} (h : readSegment bs = some (pl, rest)) :
    rest.length + 2 ≤ bs.length := by
  match bs, h with
  | hi :: lo :: tl, h =>
    unfold readSegment at h
    simp only at h
    split at h
    · cases h
    · split at h
      · cases h
      · injection h with h; injection h with _ h2; subst h2
        simp [List.length_drop] <;> omega

/-- the marker loop of `lossless14sv1.Decode` after SOI.  Terminates because every iteration
    consumes at least the two marker bytes (`readMarker_progress`). -/
def sv1Loop (st : Sv1) (bs : Bytes) : Outcome Sv1 × List Nat :=
  match hm : readMarker bs with
  | none => (.err, st.allocs)
  | some (m, rest) =>
    have hlt : rest.length < bs.length := by have := readMarker_progress hm; omega
    if m = 0xFFC3 then
      match hs : readSegment rest with
      | none => (.err, st.allocs ++ [readSegmentAlloc rest])
      | some (pl, rest2) =>
        have : rest2.length < bs.length := by have := readSegment_progress hs; omega
        match sv1SOF3 st pl with
        | (none, al) => (.err, st.allocs ++ [pl.length] ++ al)
        | (some st', al) => sv1Loop { st' with allocs := st.allocs ++ [pl.length] ++ al } rest2
    else if m = 0xFFC4 then
      match hs : readSegment rest with
      | none => (.err, st.allocs ++ [readSegmentAlloc rest])
      | some (pl, rest2) =>
        have : rest2.length < bs.length := by have := readSegment_progress hs; omega
        match parseDHT 3 pl st.tables [false, false, false, false] with
        | .ok (t, _) => sv1Loop { st with tables := t, allocs := st.allocs ++ [pl.length, pl.length] } rest2
        | .err => (.err, st.allocs ++ [pl.length, pl.length])
        | .panic s => (.panic s, st.allocs ++ [pl.length, pl.length])
        | .scan => (.scan, st.allocs)
    else if m = 0xFFDA then
      match readSegment rest with
      | none => (.err, st.allocs ++ [readSegmentAlloc rest])
      | some (pl, rest2) =>
        match sv1SOS st pl with
        | none => (.err, st.allocs ++ [pl.length])
        | some st' =>
          -- scan bytes are copied into a buffer (≤ remaining input), then decoding starts
          let al := st.allocs ++ [pl.length, rest2.length]
          match sv1ScanStart st' with
          | .ok () => (.ok st', al ++ [st'.width * st'.height * st'.comps.length * ((st'.precision + 7) / 8)])
          | .err => (.err, al)
          | .panic s => (.panic s, al)
          | .scan => (.scan, al)
    else if m = 0xFFD9 then
      (.ok st, st.allocs ++ [st.width * st.height * st.comps.length * ((st.precision + 7) / 8)])
    else if hasLength m then
      match hs : readSegment rest with
      | none => (.err, st.allocs ++ [readSegmentAlloc rest])
      | some (pl, rest2) =>
        have : rest2.length < bs.length := by have := readSegment_progress hs; omega
        sv1Loop { st with allocs := st.allocs ++ [pl.length] } rest2
    else sv1Loop st rest
termination_by bs.length

/-- `lossless14sv1.Decode` up to the first Huffman symbol of the scan -/
def sv1Decode (bs : Bytes) : Outcome Sv1 × List Nat :=
  match readMarker bs with
  | none => (.err, [])
  | some (m, rest) => if m ≠ 0xFFD8 then (.err, []) else sv1Loop {} rest

/-! ## baseline: the scan entered before any frame header -/

/-- `baseline.Decode` on a stream whose first segment after SOI is SOS with `ns = 0`
    (`parseSOS` accepts it: no component to look up), modelled for exactly that shape:
    decodeScan then evaluates `DivCeil(d.width, d.mcuWidth)` with `mcuWidth = 0`. -/
def blSosFirst (bs : Bytes) : Outcome Unit :=
  match readMarker bs with
  | none => .err
  | some (m, rest) =>
    if m ≠ 0xFFD8 then .err
    else match readMarker rest with
      | none => .err
      | some (m2, rest2) =>
        if m2 ≠ 0xFFDA then .scan
        else match readSegment rest2 with
          | none => .err
          | some (pl, _) =>
            match pl with
            | [] => .err
            | ns :: _ =>
              if pl.length < 1 + ns * 2 + 3 then .err
              else if ns ≠ 0 then .err   -- no component defined yet: lookup fails
              else .panic .blDivCeil     -- mcuWidth = 0

end JM
