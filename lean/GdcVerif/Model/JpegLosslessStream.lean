import GdcVerif.Model.JpegLossless
import GdcVerif.Model.JpegLosslessScan
import GdcVerif.Model.OptimalHuffman
import GdcVerif.Model.JpegMarkers
import GdcVerif.Model.JpegContainer
/-!
  Stream layer of JPEG Lossless (jpeg/lossless) and SV1 (jpeg/lossless14sv1): the whole
  `Encode` and `Decode` functions, byte-exact.

  REUSED: the header writers are C16's `JpegC.losslessHeader / sv1Header / withScan`
  (Model/JpegContainer.lean); `Reader.ReadMarker / ReadSegment / HasLength` are C08's
  `JM.readMarker / readSegment / hasLength` (Model/JpegMarkers.lean, with their progress
  lemmas).  New here: the frequency pass, `SelectBestPredictor`, the decoders' marker loops
  with the CONTENT of `parseSOF3 / parseDHT / parseSOS` (C08's model only keeps which tables
  exist), scan collection, and the per-component table selection of the sample loop.

  Tied to /repo by the ops `jll-stream-enc/dec`, `sv1-stream-enc/dec` (whole streams, identical
  bytes; decode outcomes and pixels identical, also on foreign and damaged streams).
-/
namespace JLL.Stream
open JLL

/-! ## Encoder side -/

/-- `optimizeHuffmanTables`: `frequencies[diffCategory(diff)]++` over the three nested loops
    (256 counters; the index is a category ≤ 16, `none` would be the index panic) -/
def freqPass (sv1 : Bool) (P predictor w h nc : Nat) (s : Array (Array Int)) : Outcome (List Nat) :=
  (scanOrder w h nc).foldlM (init := List.replicate 256 0) fun fr (row, col, c) => do
    let sample ← readS s c ((row : Int) * w + col)
    let nb ← readNb s c w row col
    let predicted := if sv1 then sv1FreqPredicted P row col nb else freqPredicted P predictor row col nb
    let diff := encDiff sample predicted
    let k := (diffCategory diff).toNat
    match fr[k]? with
    | some v => pure (fr.set k (v + 1))
    | none => Outcome.panic

/-- `calculatePredictionVariance`: component-major loops, zero neighbours at the edges,
    `sumSquares / count` (int64 arithmetic read as unbounded: sums stay below 2^63 for images of
    fewer than 2^29 samples) -/
def predictionVariance (w h nc : Nat) (s : Array (Array Int)) (predictor : Nat) : Outcome Int := do
  let order := (List.range nc).flatMap fun c => (List.range h).flatMap fun row => (List.range w).map fun col => (row, col, c)
  let r ← order.foldlM (init := ((0 : Int), (0 : Int))) fun (sum, count) (row, col, c) => do
    let sample ← readS s c ((row : Int) * w + col)
    let nb ← readNb s c w row col
    let diff := sample - varPredicted predictor row col nb
    pure (sum + diff * diff, count + 1)
  pure (if r.2 = 0 then 0 else Int.tdiv r.1 r.2)

/-- `SelectBestPredictor`: first predictor 1..7 with the strictly smallest variance (`< 1<<62`) -/
def selectBestPredictor (w h nc : Nat) (s : Array (Array Int)) : Outcome Nat :=
  (List.range' 1 7).foldlM (init := ((1 : Nat), (4611686018427387904 : Int))) (fun (best, minV) p => do
    let v ← predictionVariance w h nc s p
    pure (if v < minV then (p, v) else (best, minV))) >>= fun r => pure r.1

def ofC {α : Type} : JpegC.Outcome α → Outcome α
  | .ok a => .ok a
  | .err => .err
  | .panic => .panic

/-- `lossless.Encode(pixelData, width, height, components, bitDepth, predictor)` (sv1 = false) and
    `lossless14sv1.Encode(pixelData, width, height, components, bitDepth)` (sv1 = true; `predictor` ignored) -/
def encode (sv1 : Bool) (pix : Array Nat) (w h nc P predictor : Nat) : Outcome (List Nat) :=
  if w = 0 ∨ h = 0 ∨ w > 65535 ∨ h > 65535 then .err
  else if nc ≠ 1 ∧ nc ≠ 3 then .err
  else if P < 2 ∨ P > 16 then .err
  else if ¬ sv1 ∧ predictor > 7 then .err
  else do
    let s ← pixelsToSamples P w h nc pix                       -- includes the ErrBufferTooSmall check
    let pred ← if sv1 then pure 1 else if predictor = 0 then selectBestPredictor w h nc s else pure predictor
    let fr ← freqPass sv1 P pred w h nc s
    let (bits, values) ← Opt.buildOptimal fr
    let t : JpegC.HuffTable := { bits := bits, values := values }
    let codes := buildHuffmanCodes (bits.map Int.toNat) values.toArray
    let scan ← encodeScan sv1 P pred w h nc codes s
    ofC (JpegC.withScan (if sv1 then JpegC.sv1Header w h nc P t else JpegC.losslessHeader w h nc P pred t) scan)

/-! ## Decoder side -/

/-- what the marker loop accumulates (`Decoder` struct of either package) -/
structure Dec where
  width : Nat := 0
  height : Nat := 0
  precision : Nat := 0
  predictor : Nat := 0
  /-- lossless: component count; SV1: `len(d.components)` -/
  ncomp : Nat := 0
  /-- SV1: component ids in frame order -/
  ids : List Nat := []
  /-- table selector per component (lossless: `dcTableSelectors[3]`; SV1: `comp.dcTableSelector`) -/
  sels : List Nat := [0, 0, 0]
  /-- `dcTables[4]` -/
  tables : List (Option Table) := [none, none, none, none]

/-- one table of a DHT payload, both packages: `none` = error.  Returns (tc, th, table, rest). -/
def dhtOne (data : List Nat) : Option (Nat × Nat × Table × List Nat) :=
  match data with
  | [] => none
  | tcTh :: rest =>
    let tc := tcTh >>> 4
    let th := tcTh &&& 0x0F
    if th ≥ 4 then none
    else if rest.length < 16 then none
    else
      let bits := rest.take 16
      let total := bits.foldl (· + ·) 0
      let rest2 := rest.drop 16
      if rest2.length < total then none
      else
        match Table.build bits (rest2.take total).toArray with
        | .ok t => some (tc, th, t, rest2.drop total)
        | _ => none

/-- `parseDHT` on the segment payload: `for offset < len(data)`; class-0 tables are stored -/
def parseDHT : Nat → List Nat → List (Option Table) → Option (List (Option Table))
  | 0, _, _ => none                       -- unreachable: every table consumes ≥ 17 bytes
  | fuel + 1, data, tables =>
    if data.isEmpty then some tables
    else match dhtOne data with
      | none => none
      | some (tc, th, t, rest) => parseDHT fuel rest (if tc = 0 then tables.set th (some t) else tables)

/-- lossless `parseSOF3` (the component specifications are not read) -/
def jllSOF3 (d : Dec) (data : List Nat) : Option Dec :=
  match data with
  | p :: hh :: hl :: wh :: wl :: n :: _ =>
    -- since fix 72b8b5a: `if d.components != 0 { return ErrInvalidSOF }` — a second frame header is rejected
    if d.ncomp > 0 then none
    else if p < 2 ∨ p > 16 then none
    else
      let h := hh * 256 + hl
      let w := wh * 256 + wl
      if w = 0 ∨ h = 0 then none
      else if n ≠ 1 ∧ n ≠ 3 then none
      else some { d with precision := p, height := h, width := w, ncomp := n }
  | _ => none

/-- SV1 `parseSOF3`: additionally reads (id, H|V, Tq) per component and requires 1x1 sampling;
    every component starts with selector 0 -/
def sv1Comps : Nat → List Nat → Option (List Nat)
  | 0, _ => some []
  | n + 1, id :: hv :: _ :: rest =>
    if hv >>> 4 ≠ 1 ∨ hv &&& 0x0F ≠ 1 then none else (sv1Comps n rest).map (id :: ·)
  | _ + 1, _ => none

def sv1SOF3 (d : Dec) (data : List Nat) : Option Dec :=
  match data with
  | p :: hh :: hl :: wh :: wl :: n :: rest =>
    -- since fix 7825a71: `if len(d.components) > 0 { return ErrInvalidSOF }` — a second frame header is
    -- rejected (jpeg/lossless got the same guard in fix 72b8b5a, see `jllSOF3`)
    if d.ncomp > 0 then none
    else if p < 2 ∨ p > 16 then none
    else
      let h := hh * 256 + hl
      let w := wh * 256 + wl
      if w = 0 ∨ h = 0 then none
      else if n ≠ 1 ∧ n ≠ 3 then none
      else if rest.length < n * 3 then none
      else match sv1Comps n rest with
        | none => none
        | some ids => some { d with precision := p, height := h, width := w, ncomp := n, ids := ids, sels := ids.map fun _ => 0 }
  | _ => none

/-- lossless `parseSOS`: Ns must equal the frame's count; Ss = predictor 1..7; selector = high nibble < 4 -/
def jllSelLoop (data : List Nat) : Nat → Nat → List Nat → Option (List Nat)
  | 0, _, sels => some sels
  | n + 1, c, sels =>
    match data[2 + c * 2]? with
    | none => none                              -- cannot happen after the length check
    | some b =>
      match jllSelector b with
      | .ok sel => jllSelLoop data n (c + 1) (sels.set c sel)
      | _ => none

def jllSOS (d : Dec) (data : List Nat) : Option Dec :=
  if data.length < 1 + d.ncomp * 2 + 3 then none
  else match data[0]?, data[1 + d.ncomp * 2]? with
    | some ns, some pred =>
      if ns ≠ d.ncomp then none
      else if pred < 1 ∨ pred > 7 then none
      else (jllSelLoop data d.ncomp 0 d.sels).map fun sels => { d with predictor := pred, sels := sels }
    | _, _ => none

/-- SV1 `parseSOS`: components are looked up by id (first match); Ss must be 1 -/
def sv1SelLoop (data : List Nat) (ids : List Nat) : Nat → Nat → List Nat → Option (List Nat)
  | 0, _, sels => some sels
  | n + 1, i, sels =>
    match data[1 + i * 2]?, data[1 + i * 2 + 1]? with
    | some cs, some td =>
      match ids.findIdx? (· = cs) with
      | none => none
      | some k =>
        match sv1Selector td with
        | .ok sel => sv1SelLoop data ids n (i + 1) (sels.set k sel)
        | _ => none
    | _, _ => none

def sv1SOS (d : Dec) (data : List Nat) : Option Dec :=
  match data with
  | [] => none
  | ns :: _ =>
    if data.length < 1 + ns * 2 + 3 then none
    else match sv1SelLoop data d.ids ns 0 d.sels with
      | none => none
      | some sels =>
        match data[1 + ns * 2]? with
        | some 1 => some { d with predictor := 1, sels := sels }
        | _ => none

/-- scan collection of `decodeScan`: bytes up to the first 0xFF that is followed by a non-zero
    byte; `FF 00` pairs are kept (the Huffman reader unstuffs); a trailing lone 0xFF is kept.
    SV1 additionally skips RSTm markers (`continue`). -/
def collect (sv1 : Bool) : List Nat → List Nat
  | [] => []
  | [b] => [b]
  | b :: b2 :: rest =>
    if b = 0xFF then
      if b2 = 0 then b :: b2 :: collect sv1 rest
      else if sv1 ∧ 0xD0 ≤ b2 ∧ b2 ≤ 0xD7 then collect sv1 rest
      else []
    else b :: collect sv1 (b2 :: rest)

/-- the sample loop of `decodeScan` with the per-component table `dcTables[selector[comp]]`
    (`Model/JpegLosslessScan.lean` `decodeScan` is this loop with one table for all components) -/
def decodeScanSel (sv1 : Bool) (P predictor w h nc : Nat) (tbl : Nat → Outcome Table) (data : List Nat) :
    Outcome (Array (Array Int)) := do
  let init : Array (Array Int) := Array.replicate nc (Array.replicate (w * h) 0)
  let r ← (scanOrder w h nc).foldlM (init := (({ data := data } : HuffDec), init)) fun (d, s) (row, col, c) => do
    let t ← tbl c
    let (category, d1) ← d.decode t
    let (diff, d2) ←
      if category = 0 then pure ((0 : Int), d1)
      else if category = 16 then pure (receiveLosslessDifference 16 0, d1)
      else match d1.readBits category with
        | none => Outcome.err
        | some (v, d2) => pure (if category ≥ 64 then (v : Int) else receiveLosslessDifference category v, d2)
    let nb ← readNb s c w row col
    let predicted := if sv1 then sv1Predicted P row col nb else decPredicted P predictor row col nb
    let sample := if sv1 then sv1DecSample P predicted diff else decSample P predicted diff
    let s' ← writeS s c (row * w + col) sample
    pure (d2, s')
  pure r.2

/-- `d.dcTables[selector]`: index panic if the selector is ≥ 4 (excluded by parseSOS), error if nil -/
def tableOf (d : Dec) (c : Nat) : Outcome Table :=
  match d.sels[c]? with
  | none => .panic
  | some sel =>
    match d.tables[sel]? with
    | none => .panic
    | some none => .err
    | some (some t) => .ok t

/-- result of a successful `Decode`: (pixelData, width, height, components, bitDepth) -/
abbrev Result := List Nat × Nat × Nat × Nat × Nat

def finish (sv1 : Bool) (d : Dec) (scanBytes : List Nat) : Outcome Result := do
  let s ← decodeScanSel sv1 d.precision d.predictor d.width d.height d.ncomp (tableOf d) (collect sv1 scanBytes)
  let pix ← samplesToPixels d.precision d.width d.height d.ncomp s
  pure (pix, d.width, d.height, d.ncomp, d.precision)

/-- the marker loop of `Decode` after SOI.  Every iteration consumes at least the two marker
    bytes (`JM.readMarker_progress`), so `bs.length + 1` rounds of fuel are never exhausted. -/
def loop (sv1 : Bool) : Nat → Dec → List Nat → Outcome Result
  | 0, _, _ => .err
  | fuel + 1, d, bs =>
    match JM.readMarker bs with
    | none => .err
    | some (m, rest) =>
      if m = 0xFFC3 then
        match JM.readSegment rest with
        | none => .err
        | some (pl, rest2) =>
          match (if sv1 then sv1SOF3 d pl else jllSOF3 d pl) with
          | none => .err
          | some d' => loop sv1 fuel d' rest2
      else if m = 0xFFC4 then
        match JM.readSegment rest with
        | none => .err
        | some (pl, rest2) =>
          match parseDHT (pl.length + 1) pl d.tables with
          | none => .err
          | some t => loop sv1 fuel { d with tables := t } rest2
      else if m = 0xFFDA then
        match JM.readSegment rest with
        | none => .err
        | some (pl, rest2) =>
          match (if sv1 then sv1SOS d pl else jllSOS d pl) with
          | none => .err
          | some d' => finish sv1 d' rest2
      else if m = 0xFFD9 then
        -- lossless: "unexpected EOI before scan data"; SV1 converts whatever it has (all zero) and returns it
        if sv1 then
          (samplesToPixels d.precision d.width d.height d.ncomp
            (Array.replicate d.ncomp (Array.replicate (d.width * d.height) 0))) >>= fun pix =>
            pure (pix, d.width, d.height, d.ncomp, d.precision)
        else .err
      else if JM.hasLength m then
        match JM.readSegment rest with
        | none => .err
        | some (_, rest2) => loop sv1 fuel d rest2
      else loop sv1 fuel d rest

/-- `lossless.Decode` (sv1 = false) / `lossless14sv1.Decode` (sv1 = true) -/
def decode (sv1 : Bool) (bs : List Nat) : Outcome Result :=
  match JM.readMarker bs with
  | none => .err
  | some (m, rest) =>
    if m ≠ 0xFFD8 then .err
    else loop sv1 (bs.length + 1) (if sv1 then { sels := [] } else {}) rest

end JLL.Stream
