import GdcVerif.Model.J2kGluePlane
import GdcVerif.Model.Dwt53
import GdcVerif.Model.JpegContainer
import GdcVerif.Gen.J2kColor
/-!
  GLUE, part 3: one single-tile image, reversible path — what `Encoder.Encode` / `buildCodestream` / `writeTile` do
  around the layers, and `Decoder.Decode` / `TileDecoder.Decode` on the way back:

    container bytes → convertPixelData → applyDCLevelShift            (sample layer, C04 `sample_roundtrip`)
    → ApplyRCTToComponents (3 components, MCT on)                      (C20 `rct_inverse`)
    → transformTile: ForwardMultilevelWithParity per component, origin 0, int32     (C20 `…multilevel_int32`)
    → sub-band cut, code-block partition, T1, packets                  (`tile_planes_roundtrip`)
    → SOC SIZ COD QCD COM | SOT SOD body | EOC                         (C16 `j2kStream`)
-/
namespace J2kGlue
open Dwt53

structure ICfg where
  W : Nat
  H : Nat
  C : Nat
  P : Nat
  signed : Bool
  L : Nat
  cbw : Nat
  cbh : Nat
  prog : Nat
  mct : Bool
deriving Repr, DecidableEq

/-- the RCT is applied for exactly three components with EnableMCT (no custom matrices / bindings) -/
def ICfg.useRct (c : ICfg) : Bool := c.mct && c.C == 3

/-- losslessLog2Gain -/
def gain (r band : Nat) : Nat := if r = 0 then 0 else if band = 3 then 2 else 1

/-- bandNumbps = expn + guardBits − 1 with expn = BitDepth + losslessLog2Gain, guardBits = 2 (quantizationInfo,
    reversible) on the encoder; bandNumbpsFromQCD of the written QCD on the decoder (C06 / C16 `qcd_lossless_roundtrip`) -/
def ICfg.tcfg (c : ICfg) : TCfg := ⟨c.W, c.H, c.L, c.cbw, c.cbh, fun r b => c.P + gain r b + 1⟩

/-- a component as the Go slice: row-major, stride = width -/
def vecOfPlane (W H : Nat) (f : Plane) : Vector Int (H * W) := Vector.ofFn fun i => f (i.val % W) (i.val / W)

def planeOfVec (W H : Nat) (v : Vector Int (H * W)) : Plane := fun x y =>
  if x < W ∧ y < H then (v.toArray[y * W + x]?).getD 0 else 0

/-- ApplyRCTToComponents / ApplyInverseRCTToComponents, sample by sample -/
def rctFwd (p : Nat → Plane) : Nat → Plane := fun k x y =>
  let t := Gen.J2kColor.RCTForward (p 0 x y) (p 1 x y) (p 2 x y)
  if k = 0 then t.1 else if k = 1 then t.2.1 else if k = 2 then t.2.2 else p k x y

def rctInv (p : Nat → Plane) : Nat → Plane := fun k x y =>
  let t := Gen.J2kColor.RCTInverse (p 0 x y) (p 1 x y) (p 2 x y)
  if k = 0 then t.1 else if k = 1 then t.2.1 else if k = 2 then t.2.2 else p k x y

/-- transformTile + applyWaveletTransform for every component (int32 arithmetic) -/
def dwtFwd (c : ICfg) (p : Nat → Plane) : Option (List (Vector Int (c.H * c.W))) :=
  (List.range c.C).mapM fun k => forwardMultilevel Go.wrap32 (vecOfPlane c.W c.H (p k)) c.W c.H c.L 0 0

def dwtInv (c : ICfg) (p : Nat → Plane) : Option (List (Vector Int (c.H * c.W))) :=
  (List.range c.C).mapM fun k => inverseMultilevel Go.wrap32 (vecOfPlane c.W c.H (p k)) c.W c.H c.L 0 0

def planesOf (c : ICfg) (vs : List (Vector Int (c.H * c.W))) : Nat → Plane := fun k =>
  match vs[k]? with
  | some v => planeOfVec c.W c.H v
  | none => fun _ _ => 0

/-- encoder core: DC-shifted component planes → tile-part body -/
def encodeBody (c : ICfg) (v : Nat → Plane) : Option (List Nat) :=
  match dwtFwd c (if c.useRct then rctFwd v else v) with
  | none => none
  | some vs => encodeTileBody (tilePackets c.tcfg c.C c.prog (planesOf c vs))

/-- decoder core: tile-part body → component planes before the inverse DC shift -/
def decodeBody (c : ICfg) (data : List Nat) : Option (Nat → Plane) :=
  match decodeTileBody (tileGeo c.tcfg c.C c.prog) data with
  | none => none
  | some out =>
    match dwtInv c (pasteTile c.tcfg c.C c.prog out) with
    | none => none
    | some vs => some (if c.useRct then rctInv (planesOf c vs) else planesOf c vs)

/-- the codestream around the body: main header, one tile-part, EOC (C16 model of buildCodestream / writeTile) -/
def ICfg.params (c : ICfg) : JpegC.J2kParams :=
  { width := c.W, height := c.H, components := c.C, bitDepth := c.P, isSigned := c.signed, tileWidth := 0, tileHeight := 0,
    numLevels := c.L, lossless := true, cbw := c.cbw, cbh := c.cbh, precW := 0, precH := 0, prog := c.prog,
    numLayers := 1, enableMCT := c.mct, htj2k := false }

def frame (c : ICfg) (body : List Nat) : Option (List Nat) :=
  match JpegC.j2kStream c.params (JpegC.losslessQcdInfo c.params) [JpegC.classicTilePart 0 [] body] with
  | .ok bs => some bs
  | _ => none

/-! ### the decoder's view of the framing: codestream/parser.go on a single-tile-part stream -/

/-- walk marker segments (`readMarker`, `readUint16` length, skip) until the marker `FF stop`; returns the bytes
    starting AT that marker; `none` = truncated input.  Used for the main header (stop = SOT 0x90) and the tile-part
    header (stop = SOD 0x93); the segments walked over are parsed elsewhere (SIZ/COD/QCD: C16 field round trips). -/
def seekMarker (stop : Nat) : Nat → List Nat → Option (List Nat)
  | 0, _ => none
  | fuel + 1, bs =>
    match bs with
    | a :: b :: rest =>
      if a = 0xFF ∧ b = stop then some bs
      else match rest with
        | l1 :: l2 :: _ => seekMarker stop fuel (rest.drop (l1 * 256 + l2))
        | _ => none
    | _ => none

/-- readTileData: without a usable Psot, the data runs to the next `FF m`, `m ≥ 0x4F` -/
def scanTileData : List Nat → List Nat
  | a :: b :: rest => if a = 0xFF ∧ b ≠ 0 ∧ b ≥ 0x4F then [] else a :: scanTileData (b :: rest)
  | [a] => [a]
  | [] => []

/-- Parser.Parse for a stream with one tile-part: SOC, main header, SOT (Lsot = 10), tile-part header, SOD, then
    `readTileDataWithLength(tileStart, Psot)`: `Psot − (bytes since the SOT marker)` bytes of tile data -/
def unframe (bs : List Nat) : Option (List Nat) :=
  match bs with
  | 0xFF :: 0x4F :: rest =>
    match seekMarker 0x90 rest.length rest with
    | none => none
    | some sot =>
      if sot.getD 2 0 * 256 + sot.getD 3 0 ≠ 10 then none else
      let psot := JpegC.rd32 sot 6
      match seekMarker 0x93 sot.length (sot.drop 12) with
      | none => none
      | some sod =>
        let d := sod.drop 2
        let consumed := sot.length - d.length
        if psot ≠ 0 ∧ consumed ≤ psot ∧ psot - consumed ≤ d.length then some (d.take (psot - consumed))
        else some (scanTileData d)
  | _ => none

end J2kGlue
