import GdcVerif.GoPrelude
import GdcVerif.Gen.J2kColor
/-!
  `jpeg2000/colorspace/rct.go`.  The scalar kernels `RCTForward` / `RCTInverse` are *generated*
  (`Gen.J2kColor`, Go `int32` read as `Int`).  This file adds the literal `int32` reading of the
  same two Go functions (every `+ - *` wrapped with `Go.wrap32`; `>>` of an int32 needs no wrap)
  and the slice wrappers `ApplyRCTToComponents` / `ApplyInverseRCTToComponents`.
-/
namespace Rct
open Go

/-- `RCTForward` with Go's int32 wrap-around made explicit -/
def forward32 (r g b : Int) : Int × Int × Int :=
  let y := Go.shr (wrap32 (wrap32 (r + wrap32 (2 * g)) + b)) 2
  let cb := wrap32 (b - g)
  let cr := wrap32 (r - g)
  (y, cb, cr)

/-- `RCTInverse` with Go's int32 wrap-around made explicit -/
def inverse32 (y cb cr : Int) : Int × Int × Int :=
  let g := wrap32 (y - Go.shr (wrap32 (cb + cr)) 2)
  let r := wrap32 (cr + g)
  let b := wrap32 (cb + g)
  (r, g, b)

/-- `ApplyRCTToComponents`: `n := len(r)`; reading `g[i]`/`b[i]` beyond their length panics (`none`) -/
def applyForward (r g b : List Int) : Option (List (Int × Int × Int)) :=
  if g.length < r.length ∨ b.length < r.length then none
  else some ((r.zip (g.zip b)).map fun (r, g, b) => Gen.J2kColor.RCTForward r g b)

def applyInverse (y cb cr : List Int) : Option (List (Int × Int × Int)) :=
  if cb.length < y.length ∨ cr.length < y.length then none
  else some ((y.zip (cb.zip cr)).map fun (y, cb, cr) => Gen.J2kColor.RCTInverse y cb cr)

end Rct
