import GdcVerif.Model.ParseCore
/-
  /repo/jpeg2000/codestream/parser.go (HEAD, after commits 456a615, 871ae92, e67cccf):
  `Parser.Parse` — SOC, main header (`consumeMainHeader`: SIZ, COD, COC, QCD, QCC, POC, RGN, COM,
  unknown segments via `skipSegment`), tile-parts (`parseTile`: SOT, `parseTileHeader`, SOD,
  `readTileDataWithLength` with its Psot arithmetic, `readTileData`), `mergeTilePart` (tile-part
  order, TNsot consistency, per-section equality between tile-parts), EOC / end of data.

  The parser state `p.offset` is "how many bytes of the input are consumed"; the model keeps the
  list of UNREAD bytes and every segment parser returns the number of bytes it consumed, counted
  from the byte after the marker.  That number may exceed what is left (parseCOD/parseCOC do
  `p.offset += expected − consumed` without a bounds check) — `List.drop` then leaves nothing
  unread, and every later read fails exactly as in the Go code (all reads are bounds-checked).
  `skipSegment` consumes `length` bytes counted from the length field: 0 or 1 for the length
  fields 0 and 1, i.e. the Go offset moves BACK into the length field.
  MCT / MCC / MCO (Part 2 multi-component transform) segments are parsed as in parseMCT / parseMCC /
  parseMCO: they are counted; what the DECODER later does with them (extractBindings,
  applyDecoderMCTBindings: index uses of the component ids) is modelled in Model/J2kMct.lean.
-/
namespace J2kH
open PC

/-! ## bounds-checked readers (`readUint8/16/32` at offset `i` of the unread bytes) -/

def u8 (bs : Bytes) (i : Nat) : Option Nat := if i + 1 ≤ bs.length then some (bs.getD i 0) else none
def u16 (bs : Bytes) (i : Nat) : Option Nat :=
  if i + 2 ≤ bs.length then some (bs.getD i 0 * 256 + bs.getD (i + 1) 0) else none
def u32 (bs : Bytes) (i : Nat) : Option Nat :=
  if i + 4 ≤ bs.length then
    some (((bs.getD i 0 * 256 + bs.getD (i + 1) 0) * 256 + bs.getD (i + 2) 0) * 256 + bs.getD (i + 3) 0)
  else none
/-- `p.read(buf)` of `n` bytes -/
def rdN (bs : Bytes) (i n : Nat) : Option Bytes :=
  if i + n ≤ bs.length then some ((bs.drop i).take n) else none

def ofOpt {α : Type} : Option α → Except Res α
  | some a => .ok a
  | none => .error .err

structure Siz where
  xsiz : Nat
  ysiz : Nat
  xosiz : Nat
  yosiz : Nat
  xtsiz : Nat
  ytsiz : Nat
  csiz : Nat
  comps : Bytes   -- 3·csiz bytes: Ssiz, XRsiz, YRsiz
deriving Repr, DecidableEq

/-- `componentIndexSize` -/
def cidx (csiz : Nat) : Nat := if csiz > 256 then 2 else 1
/-- `readComponentIndex` -/
def rdComp (csiz : Nat) (bs : Bytes) (i : Nat) : Option Nat := if csiz > 256 then u16 bs i else u8 bs i

def zeroSub : Bytes → Bool
  | _ :: xr :: yr :: rest => xr = 0 || yr = 0 || zeroSub rest
  | _ => false

/-- `parseSIZ`; `bs` starts at the length field.  Result: (SIZ, bytes consumed, bytes allocated). -/
def parseSIZ (bs : Bytes) : Except Res (Siz × Nat) × Nat :=
  match u16 bs 0, u16 bs 2, u32 bs 4, u32 bs 8, u32 bs 12, u32 bs 16, u32 bs 20, u32 bs 24, u32 bs 28, u32 bs 32, u16 bs 36 with
  | some length, some _, some xsiz, some ysiz, some xosiz, some yosiz, some xtsiz, some ytsiz, some _, some _, some csiz =>
    -- siz.Components = make([]ComponentSize, Csiz) before the component bytes are read
    match rdN bs 38 (3 * csiz) with
    | none => (.error .err, 3 * csiz)
    | some comps =>
      if xtsiz = 0 ∨ ytsiz = 0 ∨ xsiz ≤ xosiz ∨ ysiz ≤ yosiz ∨ csiz = 0 then (.error .err, 3 * csiz)
      else if zeroSub comps then (.error .err, 3 * csiz)
      else if length ≠ 38 + 3 * csiz then (.error .err, 3 * csiz)
      else (.ok ({ xsiz, ysiz, xosiz, yosiz, xtsiz, ytsiz, csiz, comps }, 38 + 3 * csiz), 3 * csiz)
  | _, _, _, _, _, _, _, _, _, _, _ => (.error .err, 0)

/-- `parseCodingStyleParams` at offset `i`: canonical field list (levels, cbw, cbh, style,
    transform, precinct bytes…) and the number of bytes read -/
def codingParams (bs : Bytes) (i scod : Nat) : Option (List Nat × Nat) :=
  match u8 bs i, u8 bs (i + 1), u8 bs (i + 2), u8 bs (i + 3), u8 bs (i + 4) with
  | some levels, some cbw, some cbh, some style, some transform =>
    if cbw > 8 ∨ cbh > 8 ∨ cbw + cbh > 8 then none
    else if levels > 32 then none      -- T.800 Table A.15 (commit FIXME-LEVELS)
    else if scod % 2 = 1 then
      match rdN bs (i + 5) (levels + 1) with
      | some pr => some ([levels, cbw, cbh, style, transform] ++ pr, 5 + (levels + 1))
      | none => none
    else some ([levels, cbw, cbh, style, transform], 5)
  | _, _, _, _, _ => none

/-- `parseCOD`: canonical content (what `codEqual` compares) and bytes consumed, which is
    `max (fields read) (length)` — the skip `p.offset += expected − consumed` is not bounds-checked -/
def parseCOD (bs : Bytes) : Option (List Nat × Nat) :=
  match u16 bs 0, u8 bs 2, u8 bs 3, u16 bs 4, u8 bs 6 with
  | some length, some scod, some prog, some layers, some mct =>
    match codingParams bs 7 scod with
    | none => none
    | some (ps, k) =>
      let consumed := 5 + k          -- from `start` (after the length field)
      if consumed + 2 > length then none
      else some ([scod, prog, layers, mct] ++ ps, length)
  | _, _, _, _, _ => none

/-- `parseCOC(siz)` -/
def parseCOC (csiz : Nat) (bs : Bytes) : Option (Nat × List Nat × Nat) :=
  match u16 bs 0, rdComp csiz bs 2, u8 bs (2 + cidx csiz) with
  | some length, some comp, some scoc =>
    match codingParams bs (3 + cidx csiz) scoc with
    | none => none
    | some (ps, k) =>
      let consumed := cidx csiz + 1 + k
      if consumed + 2 > length then none
      else some (comp, scoc :: ps, length)
  | _, _, _ => none

/-- `parseQCD`: (Sqcd :: SPqcd, consumed, allocated) -/
def parseQCD (bs : Bytes) : Except Res (List Nat × Nat) × Nat :=
  match u16 bs 0, u8 bs 2 with
  | some length, some sqcd =>
    if length < 3 then (.error .err, 0)                       -- commit 456a615
    else if (length : Int) - 3 < 0 then (.error (.panic .j2kMake), 0)   -- make([]byte, dataLength)
    else match rdN bs 3 (length - 3) with
      | some sp => (.ok (sqcd :: sp, length), length - 3)
      | none => (.error .err, length - 3)
  | _, _ => (.error .err, 0)

/-- `parseQCC(siz)` -/
def parseQCC (csiz : Nat) (bs : Bytes) : Except Res (Nat × List Nat × Nat) × Nat :=
  match u16 bs 0, rdComp csiz bs 2, u8 bs (2 + cidx csiz) with
  | some length, some comp, some sqcc =>
    if length < 3 + cidx csiz then (.error .err, 0)
    else if (length : Int) - 3 - cidx csiz < 0 then (.error (.panic .j2kMake), 0)
    else
      let n := length - 3 - cidx csiz
      match rdN bs (3 + cidx csiz) n with
      | some sp => (.ok (comp, sqcc :: sp, length), n)
      | none => (.error .err, n)
  | _, _, _ => (.error .err, 0)

/-- entries of a POC segment: rs, cs, ly(2), re, ce, pp -/
def pocEntries (csiz : Nat) (bs : Bytes) : Nat → Nat → Option (List (List Nat))
  | 0, _ => some []
  | n + 1, i =>
    let c := cidx csiz
    match u8 bs i, rdComp csiz bs (i + 1), u16 bs (i + 1 + c), u8 bs (i + 3 + c), rdComp csiz bs (i + 4 + c), u8 bs (i + 4 + 2 * c) with
    | some rs, some cs, some ly, some re, some ce, some pp =>
      match pocEntries csiz bs n (i + 5 + 2 * c) with
      | some es => some ([rs, cs, ly, re, ce, pp] :: es)
      | none => none
    | _, _, _, _, _, _ => none

/-- `parsePOC(siz)`: (entries, consumed, allocated) -/
def parsePOC (csiz : Nat) (bs : Bytes) : Except Res (List (List Nat) × Nat) × Nat :=
  match u16 bs 0 with
  | none => (.error .err, 0)
  | some length =>
    let entryLen := 5 + 2 * cidx csiz
    -- remaining = length − 2 as a signed int
    if length < 2 + entryLen ∨ (length - 2) % entryLen ≠ 0 then (.error .err, 0)
    else
      let n := (length - 2) / entryLen
      match pocEntries csiz bs n 2 with
      | some es => (.ok (es, length), 12 * n)
      | none => (.error .err, 12 * n)

/-- `parseRGN(siz)`: ([Crgn, Srgn, SPrgn], consumed, allocated) -/
def parseRGN (csiz : Nat) (bs : Bytes) : Except Res (List Nat × Nat) × Nat :=
  match u16 bs 0 with
  | none => (.error .err, 0)
  | some length =>
    let c := cidx csiz
    if length < 4 + c then (.error .err, 0)
    else match rdComp csiz bs 2, u8 bs (2 + c), u8 bs (3 + c) with
      | some crgn, some srgn, some sprgn =>
        let remain := length - (4 + c)
        if remain > 0 then
          match rdN bs (4 + c) remain with
          | some _ => (.ok ([crgn, srgn, sprgn], length), remain)
          | none => (.error .err, remain)
        else (.ok ([crgn, srgn, sprgn], 4 + c), 0)
      | _, _, _ => (.error .err, 0)

/-- `parseCOM`: (consumed, allocated) -/
def parseCOM (bs : Bytes) : Except Res Nat × Nat :=
  match u16 bs 0, u16 bs 2 with
  | some length, some _ =>
    if length < 4 then (.error .err, 0)                        -- commit 456a615
    else if (length : Int) - 4 < 0 then (.error (.panic .j2kMake), 0)
    else match rdN bs 4 (length - 4) with
      | some _ => (.ok length, length - 4)
      | none => (.error .err, length - 4)
  | _, _ => (.error .err, 0)

/-- `parseMCT`: (consumed, allocated).  `make([]byte, payloadLen-6)` with payloadLen ≥ 6 checked first. -/
def parseMCT (bs : Bytes) : Except Res Nat × Nat :=
  match u16 bs 0 with
  | none => (.error .err, 0)
  | some length =>
    if length < 8 then (.error .err, 0)                 -- payloadLen = length − 2 < 6
    else match u16 bs 2, u16 bs 4, u16 bs 6 with
      | some zmct, some _, some ymct =>
        if zmct ≠ 0 then (.error .err, 0)
        else if ymct ≠ 0 then (.error .err, 0)
        else if (length : Int) - 2 - 6 < 0 then (.error (.panic .j2kMake), 0)
        else match rdN bs 8 (length - 8) with
          | some _ => (.ok length, length - 8)
          | none => (.error .err, length - 8)
      | some zmct, none, _ => if zmct ≠ 0 then (.error .err, 0) else (.error .err, 0)
      | _, _, _ => (.error .err, 0)

/-- component list of an MCC collection: `count & 0x7FFF` ids of 1 or 2 bytes (bit 15 of the count) -/
def mccList (bs : Bytes) (i word : Nat) : Option Nat :=
  let n := word % 32768
  let cb := if word / 32768 % 2 = 1 then 2 else 1
  if i + cb * n ≤ bs.length then some (cb * n) else none

/-- `parseMCC`: (consumed or error, allocated): the two id lists are allocated (2 bytes per id) before
    they are read; nothing in parseMCC can panic (all sizes are unsigned fields), so the result is an `Option` -/
def parseMCC (bs : Bytes) : Option Nat × Nat :=
  match u16 bs 0, u16 bs 2, u8 bs 4, u16 bs 5, u16 bs 7, u8 bs 9, u16 bs 10 with
  | some length, some zmcc, some _, some ymcc, some qmcc, some _, some nmcci =>
    if length < 9 ∨ zmcc ≠ 0 ∨ ymcc ≠ 0 ∨ qmcc = 0 then (none, 0)
    else
      let a1 := 2 * (nmcci % 32768)
      match mccList bs 12 nmcci with
      | none => (none, a1)
      | some l1 =>
        match u16 bs (12 + l1) with
        | none => (none, a1)
        | some mmcci =>
          let a2 := a1 + 2 * (mmcci % 32768)
          match mccList bs (14 + l1) mmcci with
          | none => (none, a2)
          | some l2 =>
            match rdN bs (14 + l1 + l2) 3 with
            | none => (none, a2)
            | some _ =>
              -- consumed (from after the length field) = 15 + l1 + l2; remain = payloadLen − consumed
              if length - 2 > 15 + l1 + l2 then
                match rdN bs (17 + l1 + l2) (length - 2 - (15 + l1 + l2)) with
                | some _ => (some length, a2 + (length - 2 - (15 + l1 + l2)))
                | none => (none, a2 + (length - 2 - (15 + l1 + l2)))
              else (some (17 + l1 + l2), a2)
  | _, _, _, _, _, _, _ => (none, 0)

/-- `parseMCO`: (consumed or error, allocated) -/
def parseMCO (bs : Bytes) : Option Nat × Nat :=
  match u16 bs 0, u8 bs 2 with
  | some length, some sc =>
    if length < 3 then (none, 0)
    else match rdN bs 3 sc with
      | none => (none, sc)
      | some _ =>
        if length - 2 > 1 + sc then
          match rdN bs (3 + sc) (length - 2 - (1 + sc)) with
          | some _ => (some length, sc + (length - 2 - (1 + sc)))
          | none => (none, sc + (length - 2 - (1 + sc)))
        else (some (3 + sc), sc)
  | _, _ => (none, 0)

/-- `skipSegment`: bytes consumed counted from the length field (`length` itself: 0 and 1 step
    back into the length field); error when that exceeds what is unread -/
def skipSegment (bs : Bytes) : Option Nat :=
  match u16 bs 0 with
  | none => none
  | some length => if length > bs.length then none else some length

/-- `parseSOT`: (Isot, Psot, TPsot, TNsot); always 10 bytes -/
def parseSOT (bs : Bytes) : Option (Nat × Nat × Nat × Nat) :=
  match u16 bs 0, u16 bs 2, u32 bs 4, u8 bs 8, u8 bs 9 with
  | some length, some isot, some psot, some tp, some tn =>
    if length ≠ 10 then none else some (isot, psot, tp, tn)
  | _, _, _, _, _ => none

/-- `readTileData`: stop in front of `0xFF m` with `m ≠ 0 ∧ m ≥ 0x4F`; returns what is left unread -/
def readTileData : Bytes → Bytes
  | a :: b :: rest => if a = 0xFF ∧ b ≠ 0 ∧ b ≥ 0x4F then a :: b :: rest else readTileData (b :: rest)
  | [_] => []
  | [] => []

theorem readTileData_le (bs : Bytes) : (readTileData bs).length ≤ bs.length := by
  induction bs with
  | nil => simp [readTileData]
  | cons a tl ih =>
    cases tl with
    | nil => simp [readTileData]
    | cons b rest =>
      unfold readTileData
      split
      · exact Nat.le_refl _
      · have := ih; simp at this ⊢; omega

/-- `readTileDataWithLength(tileStart, psot)` on the unread bytes after SOD; `consumed` =
    bytes from the SOT marker up to here.  Returns what is left unread. -/
def readTileDataWithLength (bs : Bytes) (consumed psot : Nat) : Bytes :=
  if psot = 0 then readTileData bs
  else if psot < consumed then readTileData bs
  else if psot - consumed > bs.length then readTileData bs
  else bs.drop (psot - consumed)

theorem readTileDataWithLength_le (bs : Bytes) (c p : Nat) : (readTileDataWithLength bs c p).length ≤ bs.length := by
  unfold readTileDataWithLength
  split
  · exact readTileData_le bs
  · split
    · exact readTileData_le bs
    · split
      · exact readTileData_le bs
      · simp [List.length_drop]

/-! ## parser state -/

/-- what `mergeTilePart` keeps per tile index -/
structure TileRec where
  idx : Nat
  nextTP : Nat
  total : Nat
  cod : Option (List Nat) := none
  qcd : Option (List Nat) := none
  coc : List (Nat × List Nat) := []
  qcc : List (Nat × List Nat) := []
  poc : List (List (List Nat)) := []
  rgn : List (List Nat) := []
  dataLen : Nat := 0
deriving Repr, DecidableEq

/-- the tile-part being parsed -/
structure Part where
  idx : Nat
  psot : Nat
  tp : Nat
  tn : Nat
  startUnread : Nat        -- unread bytes when the SOT marker was met
  cod : Option (List Nat) := none
  qcd : Option (List Nat) := none
  coc : List (Nat × List Nat) := []
  qcc : List (Nat × List Nat) := []
  poc : List (List (List Nat)) := []
  rgn : List (List Nat) := []
deriving Repr, DecidableEq

inductive Phase | main | tiles | thdr
deriving Repr, DecidableEq

structure St where
  phase : Phase := .main
  siz : Option Siz := none
  cod : Option (List Nat) := none
  qcd : Option (List Nat) := none
  coc : List (Nat × List Nat) := []
  qcc : List (Nat × List Nat) := []
  npoc : Nat := 0
  nrgn : Nat := 0
  ncom : Nat := 0
  nmct : Nat := 0
  nmcc : Nat := 0
  nmco : Nat := 0
  part : Option Part := none
  tiles : List TileRec := []
  allocs : List Nat := []
deriving Repr, DecidableEq

def St.csiz (st : St) : Nat := match st.siz with | some s => s.csiz | none => 0
def St.al (st : St) (a : Nat) : St := { st with allocs := st.allocs ++ [a] }

/-- map insert with the "duplicate must be equal" rule of mainCOC / handleCOC; `none` = error -/
def putEq (m : List (Nat × List Nat)) (k : Nat) (v : List Nat) : Option (List (Nat × List Nat)) :=
  match m.find? (·.1 = k) with
  | some (_, v') => if v' = v then some m else none
  | none => some (m ++ [(k, v)])

/-- mergeCOCSection / mergeQCCSection: every component of the part either new or equal -/
def mergeMap (ex : List (Nat × List Nat)) : List (Nat × List Nat) → Option (List (Nat × List Nat))
  | [] => some ex
  | (k, v) :: rest =>
    match putEq ex k v with
    | some ex' => mergeMap ex' rest
    | none => none

def mergeOpt (ex pt : Option (List Nat)) : Option (Option (List Nat)) :=
  match pt, ex with
  | none, _ => some ex
  | some p, none => some (some p)
  | some p, some e => if e = p then some ex else none

def mergeList {α : Type} [DecidableEq α] (ex pt : List α) : Option (List α) :=
  if pt.length = 0 then some ex
  else if ex.length = 0 then some pt
  else if ex = pt then some ex else none

/-- `mergeTilePart`: `none` = error -/
def mergeTilePart (tiles : List TileRec) (p : Part) (dataLen : Nat) : Option (List TileRec) :=
  match tiles.findIdx? (·.idx = p.idx) with
  | none =>
    if p.tp ≠ 0 then none
    else
      let nextTP := (p.tp + 1) % 256
      if p.tn ≠ 0 ∧ nextTP > p.tn then none
      else
        let t : TileRec := { idx := p.idx, nextTP := nextTP, total := p.tn, cod := p.cod, qcd := p.qcd, coc := p.coc, qcc := p.qcc, poc := p.poc, rgn := p.rgn, dataLen := dataLen }
        some (tiles ++ [t])
  | some k =>
    match tiles[k]? with
    | none => none
    | some t =>
      if p.tp ≠ t.nextTP then none
      else if t.total ≠ 0 ∧ p.tn ≠ 0 ∧ p.tn ≠ t.total then none
      else
        let total := if t.total = 0 ∧ p.tn ≠ 0 then p.tn else t.total
        let nextTP := (t.nextTP + 1) % 256
        if total ≠ 0 ∧ nextTP > total then none
        else
          match mergeOpt t.cod p.cod, mergeOpt t.qcd p.qcd, mergeMap t.coc p.coc, mergeMap t.qcc p.qcc,
                mergeList t.poc p.poc, mergeList t.rgn p.rgn with
          | some cod, some qcd, some coc, some qcc, some poc, some rgn =>
            let t' : TileRec := { t with nextTP := nextTP, total := total, cod := cod, qcd := qcd, coc := coc, qcc := qcc, poc := poc, rgn := rgn, dataLen := t.dataLen + dataLen }
            some (tiles.set k t')
          | _, _, _, _, _, _ => none


/-- continue after a segment that consumed `k` bytes behind the marker -/
def next (st : St) (bs : Bytes) (k : Nat) : Step St := .more st ((bs.drop 2).drop k)

/-- one turn in the tile sequence (`Parse` loop): `bs` unread, at a marker position -/
def tilesTurn (st : St) (bs : Bytes) : Step St :=
  match u16 bs 0 with
  | none => .done st .ok                       -- peekMarker: io.EOF ⇒ break
  | some m =>
    if m = 0xFFD9 then .done st .ok
    else if m = 0xFF90 then
      match parseSOT (bs.drop 2) with
      | none => .done st .err
      | some (isot, psot, tp, tn) =>
        .more { st with phase := .thdr, part := some { idx := isot, psot, tp, tn, startUnread := bs.length } }
              ((bs.drop 2).drop 10)
    else .done st .err

/-! ### main-header handlers (`mainSIZ`, `mainCOD`, …): `bs` starts at the marker -/

def mSIZ (st : St) (bs : Bytes) : Step St :=
  if st.siz.isSome then .done st .err
  else match parseSIZ (bs.drop 2) with
    | (.ok (s, k), a) => next ({ st with siz := some s }.al a) bs k
    | (.error e, a) => .done (st.al a) e

def mCOD (st : St) (bs : Bytes) : Step St :=
  if st.siz.isNone ∨ st.cod.isSome then .done st .err
  else match parseCOD (bs.drop 2) with
    | some (c, k) => next ({ st with cod := some c }.al (2 * c.length)) bs k
    | none => .done st .err

def mCOC (st : St) (bs : Bytes) : Step St :=
  if st.siz.isNone ∨ st.cod.isNone then .done st .err
  else match parseCOC st.csiz (bs.drop 2) with
    | some (comp, c, k) =>
      match putEq st.coc comp c with
      | some m' => next ({ st with coc := m' }.al (2 * c.length)) bs k
      | none => .done st .err
    | none => .done st .err

def mQCD (st : St) (bs : Bytes) : Step St :=
  if st.siz.isNone ∨ st.qcd.isSome then .done st .err
  else match parseQCD (bs.drop 2) with
    | (.ok (q, k), a) => next ({ st with qcd := some q }.al a) bs k
    | (.error e, a) => .done (st.al a) e

def mQCC (st : St) (bs : Bytes) : Step St :=
  if st.siz.isNone ∨ st.qcd.isNone then .done st .err
  else match parseQCC st.csiz (bs.drop 2) with
    | (.ok (comp, q, k), a) =>
      match putEq st.qcc comp q with
      | some m' => next ({ st with qcc := m' }.al a) bs k
      | none => .done (st.al a) .err
    | (.error e, a) => .done (st.al a) e

def mPOC (st : St) (bs : Bytes) : Step St :=
  if st.siz.isNone ∨ st.cod.isNone then .done st .err
  else match parsePOC st.csiz (bs.drop 2) with
    | (.ok (_, k), a) => next ({ st with npoc := st.npoc + 1 }.al a) bs k
    | (.error e, a) => .done (st.al a) e

def mRGN (st : St) (bs : Bytes) : Step St :=
  if st.siz.isNone then .done st .err
  else match parseRGN st.csiz (bs.drop 2) with
    | (.ok (_, k), a) => next ({ st with nrgn := st.nrgn + 1 }.al a) bs k
    | (.error e, a) => .done (st.al a) e

def mCOM (st : St) (bs : Bytes) : Step St :=
  if st.siz.isNone then .done st .err
  else match parseCOM (bs.drop 2) with
    | (.ok k, a) => next ({ st with ncom := st.ncom + 1 }.al a) bs k
    | (.error e, a) => .done (st.al a) e

def mMCT (st : St) (bs : Bytes) : Step St :=
  if st.siz.isNone then .done st .err
  else match parseMCT (bs.drop 2) with
    | (.ok k, a) => next ({ st with nmct := st.nmct + 1 }.al a) bs k
    | (.error e, a) => .done (st.al a) e

def mMCC (st : St) (bs : Bytes) : Step St :=
  if st.siz.isNone then .done st .err
  else match parseMCC (bs.drop 2) with
    | (some k, a) => next ({ st with nmcc := st.nmcc + 1 }.al a) bs k
    | (none, a) => .done (st.al a) .err

def mMCO (st : St) (bs : Bytes) : Step St :=
  if st.siz.isNone then .done st .err
  else match parseMCO (bs.drop 2) with
    | (some k, a) => next ({ st with nmco := st.nmco + 1 }.al a) bs k
    | (none, a) => .done (st.al a) .err

def mSkip (st : St) (bs : Bytes) : Step St :=
  if st.siz.isNone then .done st .err
  else match skipSegment (bs.drop 2) with
    | some k => next st bs k
    | none => .done st .err

/-- SOT or EOC ends the main header: required segments, then the tile loop takes over -/
def mEnd (st : St) (bs : Bytes) : Step St :=
  if st.siz.isNone ∨ st.cod.isNone ∨ st.qcd.isNone then .done st .err
  else tilesTurn { st with phase := .tiles } bs

/-- one turn of `consumeMainHeader`; `m` is the peeked marker -/
def mainTurn (st : St) (bs : Bytes) (m : Nat) : Step St :=
  if m = 0xFF90 ∨ m = 0xFFD9 then mEnd st bs
  else if m = 0xFF51 then mSIZ st bs
  else if m = 0xFF52 then mCOD st bs
  else if m = 0xFF53 then mCOC st bs
  else if m = 0xFF5C then mQCD st bs
  else if m = 0xFF5D then mQCC st bs
  else if m = 0xFF5F then mPOC st bs
  else if m = 0xFF5E then mRGN st bs
  else if m = 0xFF64 then mCOM st bs
  else if m = 0xFF74 then mMCT st bs
  else if m = 0xFF75 then mMCC st bs
  else if m = 0xFF77 then mMCO st bs
  else mSkip st bs

/-! ### tile-part header handlers (`handleCOD`, …) -/

/-- SOD: tile data by Psot or by marker scan, then mergeTilePart -/
def sodTurn (st : St) (p : Part) (bs : Bytes) : Step St :=
  match mergeTilePart st.tiles p
      ((bs.drop 2).length - (readTileDataWithLength (bs.drop 2) (p.startUnread - (bs.drop 2).length) p.psot).length) with
  | some ts => .more { st with phase := .tiles, part := none, tiles := ts }
                 (readTileDataWithLength (bs.drop 2) (p.startUnread - (bs.drop 2).length) p.psot)
  | none => .done st .err

def tCOD (st : St) (p : Part) (bs : Bytes) : Step St :=
  match parseCOD (bs.drop 2) with
  | some (c, k) => next ({ st with part := some { p with cod := some c } }.al (2 * c.length)) bs k
  | none => .done st .err

def tCOC (st : St) (p : Part) (bs : Bytes) : Step St :=
  match parseCOC st.csiz (bs.drop 2) with
  | some (comp, c, k) =>
    match putEq p.coc comp c with
    | some m' => next ({ st with part := some { p with coc := m' } }.al (2 * c.length)) bs k
    | none => .done st .err
  | none => .done st .err

def tQCD (st : St) (p : Part) (bs : Bytes) : Step St :=
  match parseQCD (bs.drop 2) with
  | (.ok (q, k), a) => next ({ st with part := some { p with qcd := some q } }.al a) bs k
  | (.error e, a) => .done (st.al a) e

def tQCC (st : St) (p : Part) (bs : Bytes) : Step St :=
  match parseQCC st.csiz (bs.drop 2) with
  | (.ok (comp, q, k), a) =>
    match putEq p.qcc comp q with
    | some m' => next ({ st with part := some { p with qcc := m' } }.al a) bs k
    | none => .done (st.al a) .err
  | (.error e, a) => .done (st.al a) e

def tPOC (st : St) (p : Part) (bs : Bytes) : Step St :=
  match parsePOC st.csiz (bs.drop 2) with
  | (.ok (es, k), a) => next ({ st with part := some { p with poc := p.poc ++ [es] } }.al a) bs k
  | (.error e, a) => .done (st.al a) e

def tRGN (st : St) (p : Part) (bs : Bytes) : Step St :=
  match parseRGN st.csiz (bs.drop 2) with
  | (.ok (r, k), a) => next ({ st with part := some { p with rgn := p.rgn ++ [r] } }.al a) bs k
  | (.error e, a) => .done (st.al a) e

def tMCT (st : St) (bs : Bytes) : Step St :=
  match parseMCT (bs.drop 2) with
  | (.ok k, a) => next ({ st with nmct := st.nmct + 1 }.al a) bs k
  | (.error e, a) => .done (st.al a) e

def tMCC (st : St) (bs : Bytes) : Step St :=
  match parseMCC (bs.drop 2) with
  | (some k, a) => next ({ st with nmcc := st.nmcc + 1 }.al a) bs k
  | (none, a) => .done (st.al a) .err

def tMCO (st : St) (bs : Bytes) : Step St :=
  match parseMCO (bs.drop 2) with
  | (some k, a) => next ({ st with nmco := st.nmco + 1 }.al a) bs k
  | (none, a) => .done (st.al a) .err

def tSkip (st : St) (bs : Bytes) : Step St :=
  match skipSegment (bs.drop 2) with
  | some k => next st bs k
  | none => .done st .err

/-- one turn of `parseTileHeader` for the tile-part `p`; `m` is the peeked marker -/
def thdrTurn (st : St) (p : Part) (bs : Bytes) (m : Nat) : Step St :=
  if m = 0xFF93 then sodTurn st p bs
  else if m = 0xFF52 then tCOD st p bs
  else if m = 0xFF53 then tCOC st p bs
  else if m = 0xFF5C then tQCD st p bs
  else if m = 0xFF5D then tQCC st p bs
  else if m = 0xFF5F then tPOC st p bs
  else if m = 0xFF5E then tRGN st p bs
  else if m = 0xFF74 then tMCT st bs
  else if m = 0xFF75 then tMCC st bs
  else if m = 0xFF77 then tMCO st bs
  else tSkip st bs

/-- one turn of `consumeMainHeader` / `parseTileHeader` / the tile loop of `Parse` -/
def step (st : St) (bs : Bytes) : Step St :=
  match st.phase with
  | .tiles => tilesTurn st bs
  | .main =>
    match u16 bs 0 with
    | none => .done st .err
    | some m => mainTurn st bs m
  | .thdr =>
    match st.part, u16 bs 0 with
    | some p, some m => thdrTurn st p bs m
    | _, _ => .done st .err

/-- a turn that continues leaves fewer unread bytes -/
def Shrinks (bs : Bytes) : Step St → Prop
  | .more _ r => r.length < bs.length
  | .done _ _ => True

theorem u16_len {bs : Bytes} {i v : Nat} (h : u16 bs i = some v) : i + 2 ≤ bs.length := by
  unfold u16 at h; split at h
  · assumption
  · cases h

theorem next_shrinks (st : St) {bs : Bytes} (k : Nat) {m : Nat} (hm : u16 bs 0 = some m) :
    Shrinks bs (next st bs k) := by
  have := u16_len hm
  simp only [next, Shrinks, List.length_drop]; omega

theorem tilesTurn_shrinks (st : St) (bs : Bytes) : Shrinks bs (tilesTurn st bs) := by
  unfold tilesTurn
  split
  · trivial
  · rename_i m hm
    have := u16_len hm
    split
    · trivial
    · split
      · split
        · trivial
        · simp only [Shrinks, List.length_drop]; omega
      · trivial

macro "shrink_handler" hm:ident : tactic =>
  `(tactic| (repeat' split) <;> first | trivial | exact next_shrinks _ _ $hm)

theorem m3_shrinks (st : St) {bs : Bytes} {m : Nat} (hm : u16 bs 0 = some m) :
    Shrinks bs (mMCT st bs) ∧ Shrinks bs (mMCC st bs) ∧ Shrinks bs (mMCO st bs) := by
  refine ⟨?_, ?_, ?_⟩
  · unfold mMCT
    split
    · trivial
    · generalize parseMCT (bs.drop 2) = r
      obtain ⟨r1, a⟩ := r
      cases r1 with
      | ok k => exact next_shrinks _ _ hm
      | error e => trivial
  · unfold mMCC
    split
    · trivial
    · generalize parseMCC (bs.drop 2) = r
      obtain ⟨r1, a⟩ := r
      cases r1 with
      | some k => exact next_shrinks _ _ hm
      | none => trivial
  · unfold mMCO
    split
    · trivial
    · generalize parseMCO (bs.drop 2) = r
      obtain ⟨r1, a⟩ := r
      cases r1 with
      | some k => exact next_shrinks _ _ hm
      | none => trivial

theorem t3_shrinks (st : St) {bs : Bytes} {m : Nat} (hm : u16 bs 0 = some m) :
    Shrinks bs (tMCT st bs) ∧ Shrinks bs (tMCC st bs) ∧ Shrinks bs (tMCO st bs) := by
  refine ⟨?_, ?_, ?_⟩
  · unfold tMCT
    generalize parseMCT (bs.drop 2) = r
    obtain ⟨r1, a⟩ := r
    cases r1 with
    | ok k => exact next_shrinks _ _ hm
    | error e => trivial
  · unfold tMCC
    generalize parseMCC (bs.drop 2) = r
    obtain ⟨r1, a⟩ := r
    cases r1 with
    | some k => exact next_shrinks _ _ hm
    | none => trivial
  · unfold tMCO
    generalize parseMCO (bs.drop 2) = r
    obtain ⟨r1, a⟩ := r
    cases r1 with
    | some k => exact next_shrinks _ _ hm
    | none => trivial

theorem mEnd_shrinks (st : St) (bs : Bytes) : Shrinks bs (mEnd st bs) := by
  unfold mEnd; split
  · trivial
  · exact tilesTurn_shrinks _ _

theorem mainTurn_shrinks (st : St) {bs : Bytes} {m : Nat} (hm : u16 bs 0 = some m) :
    Shrinks bs (mainTurn st bs m) := by
  unfold mainTurn
  by_cases hc : m = 0xFF90 ∨ m = 0xFFD9
  · rw [if_pos hc]; exact mEnd_shrinks _ _
  rw [if_neg hc]; clear hc
  by_cases hc : m = 0xFF51
  · rw [if_pos hc]; (unfold mSIZ; shrink_handler hm)
  rw [if_neg hc]; clear hc
  by_cases hc : m = 0xFF52
  · rw [if_pos hc]; (unfold mCOD; shrink_handler hm)
  rw [if_neg hc]; clear hc
  by_cases hc : m = 0xFF53
  · rw [if_pos hc]; (unfold mCOC; shrink_handler hm)
  rw [if_neg hc]; clear hc
  by_cases hc : m = 0xFF5C
  · rw [if_pos hc]; (unfold mQCD; shrink_handler hm)
  rw [if_neg hc]; clear hc
  by_cases hc : m = 0xFF5D
  · rw [if_pos hc]; (unfold mQCC; shrink_handler hm)
  rw [if_neg hc]; clear hc
  by_cases hc : m = 0xFF5F
  · rw [if_pos hc]; (unfold mPOC; shrink_handler hm)
  rw [if_neg hc]; clear hc
  by_cases hc : m = 0xFF5E
  · rw [if_pos hc]; (unfold mRGN; shrink_handler hm)
  rw [if_neg hc]; clear hc
  by_cases hc : m = 0xFF64
  · rw [if_pos hc]; (unfold mCOM; shrink_handler hm)
  rw [if_neg hc]; clear hc
  by_cases hc : m = 0xFF74
  · rw [if_pos hc]; exact (m3_shrinks st hm).1
  rw [if_neg hc]; clear hc
  by_cases hc : m = 0xFF75
  · rw [if_pos hc]; exact (m3_shrinks st hm).2.1
  rw [if_neg hc]; clear hc
  by_cases hc : m = 0xFF77
  · rw [if_pos hc]; exact (m3_shrinks st hm).2.2
  rw [if_neg hc]; clear hc
  unfold mSkip; shrink_handler hm

theorem sodTurn_shrinks (st : St) (p : Part) {bs : Bytes} {m : Nat} (hm : u16 bs 0 = some m) :
    Shrinks bs (sodTurn st p bs) := by
  have hl := u16_len hm
  unfold sodTurn
  split
  · have := readTileDataWithLength_le (bs.drop 2) (p.startUnread - (bs.drop 2).length) p.psot
    simp only [Shrinks, List.length_drop] at this ⊢; omega
  · trivial

theorem thdrTurn_shrinks (st : St) (p : Part) {bs : Bytes} {m : Nat} (hm : u16 bs 0 = some m) :
    Shrinks bs (thdrTurn st p bs m) := by
  unfold thdrTurn
  by_cases hc : m = 0xFF93
  · rw [if_pos hc]; exact sodTurn_shrinks _ _ hm
  rw [if_neg hc]; clear hc
  by_cases hc : m = 0xFF52
  · rw [if_pos hc]; (unfold tCOD; shrink_handler hm)
  rw [if_neg hc]; clear hc
  by_cases hc : m = 0xFF53
  · rw [if_pos hc]; (unfold tCOC; shrink_handler hm)
  rw [if_neg hc]; clear hc
  by_cases hc : m = 0xFF5C
  · rw [if_pos hc]; (unfold tQCD; shrink_handler hm)
  rw [if_neg hc]; clear hc
  by_cases hc : m = 0xFF5D
  · rw [if_pos hc]; (unfold tQCC; shrink_handler hm)
  rw [if_neg hc]; clear hc
  by_cases hc : m = 0xFF5F
  · rw [if_pos hc]; (unfold tPOC; shrink_handler hm)
  rw [if_neg hc]; clear hc
  by_cases hc : m = 0xFF5E
  · rw [if_pos hc]; (unfold tRGN; shrink_handler hm)
  rw [if_neg hc]; clear hc
  by_cases hc : m = 0xFF74
  · rw [if_pos hc]; exact (t3_shrinks st hm).1
  rw [if_neg hc]; clear hc
  by_cases hc : m = 0xFF75
  · rw [if_pos hc]; exact (t3_shrinks st hm).2.1
  rw [if_neg hc]; clear hc
  by_cases hc : m = 0xFF77
  · rw [if_pos hc]; exact (t3_shrinks st hm).2.2
  rw [if_neg hc]; clear hc
  unfold tSkip; shrink_handler hm

theorem step_shrinks (st : St) (bs : Bytes) : Shrinks bs (step st bs) := by
  unfold step
  split
  · exact tilesTurn_shrinks _ _
  · split
    · trivial
    · exact mainTurn_shrinks _ ‹_›
  · split
    · exact thdrTurn_shrinks _ _ ‹_›
    · trivial

theorem step_lt {st st' : St} {bs r : Bytes} (h : step st bs = .more st' r) : r.length < bs.length := by
  have := step_shrinks st bs
  rw [h] at this
  exact this

/-- `Parser.Parse` -/
def parse (bs : Bytes) : St × Res :=
  match u16 bs 0 with
  | none => ({}, .err)
  | some m => if m ≠ 0xFF4F then ({}, .err) else run step step_lt {} (bs.drop 2)

end J2kH
