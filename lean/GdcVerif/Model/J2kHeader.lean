/-
  Main-header walk of /repo/jpeg2000/codestream/parser.go: `Parser.Parse` up to the first tile-part,
  `parseMainHeader`, `consumeMainHeader`, `parseSIZ`, `parseCOD` + `parseCodingStyleParams`,
  `parseQCD`, `parseCOM`, `skipSegment`, and the read helpers (`readUint8/16/32`, `peekMarker`).
  The parser state `p.offset` is represented by the list of bytes not yet consumed; the two places
  where the Go code moves the offset BACKWARDS (skipSegment with a length field of 0 or 1) are
  modelled exactly (the unread list grows again by 2 resp. 1 bytes).
  COC/QCC/POC/RGN/MCT/MCC/MCO segments and tile-parts are not modelled: the walk answers
  `unmodelled` when it meets one (the correspondence generator never produces them).
-/
namespace J2kH

abbrev Bytes := List Nat

inductive Site
  | qcdMake    -- parseQCD: make([]byte, length-3) with length < 3
  | comMake    -- parseCOM: make([]byte, length-4) with length < 4
deriving Repr, DecidableEq

inductive Outcome (α : Type) where
  | ok (a : α) | err | panic (s : Site) | unmodelled
deriving Repr, DecidableEq

def rd8 : Bytes → Option (Nat × Bytes)
  | a :: r => some (a, r)
  | _ => none
def rd16 : Bytes → Option (Nat × Bytes)
  | a :: b :: r => some (a * 256 + b, r)
  | _ => none
def rd32 : Bytes → Option (Nat × Bytes)
  | a :: b :: c :: d :: r => some (((a * 256 + b) * 256 + c) * 256 + d, r)
  | _ => none

structure Siz where
  xsiz : Nat
  ysiz : Nat
  xosiz : Nat
  yosiz : Nat
  xtsiz : Nat
  ytsiz : Nat
  csiz : Nat
  comps : List Nat   -- 3·csiz bytes: Ssiz, XRsiz, YRsiz
deriving Repr, DecidableEq

structure Cod where
  scod : Nat
  prog : Nat
  layers : Nat
  mct : Nat
  levels : Nat
  cbw : Nat
  cbh : Nat
  style : Nat
  transform : Nat
  nprec : Nat
deriving Repr, DecidableEq

structure Hdr where
  siz : Option Siz := none
  cod : Option Cod := none
  qcd : Option (Nat × Nat) := none   -- (Sqcd, len SPqcd)
  ncom : Nat := 0
  allocs : List Nat := []
deriving Repr, DecidableEq

/-- `parseSIZ`; input starts at the length field -/
def parseSIZ (bs : Bytes) : Option (Siz × Bytes × Nat) := do
  let (length, r) ← rd16 bs
  let (_rsiz, r) ← rd16 r
  let (xsiz, r) ← rd32 r
  let (ysiz, r) ← rd32 r
  let (xosiz, r) ← rd32 r
  let (yosiz, r) ← rd32 r
  let (xtsiz, r) ← rd32 r
  let (ytsiz, r) ← rd32 r
  let (_xtosiz, r) ← rd32 r
  let (_ytosiz, r) ← rd32 r
  let (csiz, r) ← rd16 r
  if r.length < 3 * csiz then none
  else if length ≠ 38 + 3 * csiz then none
  else some ({ xsiz, ysiz, xosiz, yosiz, xtsiz, ytsiz, csiz, comps := r.take (3 * csiz) }, r.drop (3 * csiz), 3 * csiz)

/-- `parseCOD`; input starts at the length field -/
def parseCOD (bs : Bytes) : Option (Cod × Bytes × Nat) := do
  let (length, r) ← rd16 bs
  let (scod, r) ← rd8 r
  let (prog, r) ← rd8 r
  let (layers, r) ← rd16 r
  let (mct, r) ← rd8 r
  let (levels, r) ← rd8 r
  let (cbw, r) ← rd8 r
  let (cbh, r) ← rd8 r
  let (style, r) ← rd8 r
  let (transform, r) ← rd8 r
  let nprec := if scod % 2 = 1 then levels + 1 else 0
  if r.length < nprec then none
  else
    let consumed := 10 + nprec
    -- expected = length - 2 as a signed int: consumed > expected ⇒ error
    if consumed + 2 > length then none
    else
      -- p.offset += expected - consumed, without a bounds check (later reads check)
      some ({ scod, prog, layers, mct, levels, cbw, cbh, style, transform, nprec },
            (r.drop nprec).drop (length - 2 - consumed), 2 * nprec)

/-- `parseQCD` -/
def parseQCD (bs : Bytes) : Outcome ((Nat × Nat) × Bytes × Nat) :=
  match rd16 bs with
  | none => .err
  | some (length, r) =>
    match rd8 r with
    | none => .err
    | some (sqcd, r) =>
      if length < 3 then .panic .qcdMake
      else if r.length < length - 3 then .err
      else .ok ((sqcd, length - 3), r.drop (length - 3), length - 3)

/-- `parseCOM` -/
def parseCOM (bs : Bytes) : Outcome (Bytes × Nat) :=
  match rd16 bs with
  | none => .err
  | some (length, r) =>
    match rd16 r with
    | none => .err
    | some (_rcom, r) =>
      if length < 4 then .panic .comMake
      else if r.length < length - 4 then .err
      else .ok (r.drop (length - 4), length - 4)

/-- `skipSegment`; `bs` starts at the length field.  `skip = length − 2` may be −2 or −1: the
    offset then moves back INTO the length field. -/
def skipSegment (bs : Bytes) : Option Bytes :=
  match bs with
  | hi :: lo :: r =>
    let length := hi * 256 + lo
    if length = 0 then some (hi :: lo :: r)
    else if length = 1 then some (lo :: r)
    else if r.length < length - 2 then none
    else some (r.drop (length - 2))
  | _ => none

theorem skipSegment_le {bs r : Bytes} (h : skipSegment bs = some r) : r.length ≤ bs.length := by
  match bs, h with
  | hi :: lo :: tl, h =>
    unfold skipSegment at h
    simp only at h
    split at h
    · injection h with h; subst h; simp
    · split at h
      · injection h with h; subst h; simp
      · split at h
        · cases h
        · injection h with h; subst h; simp [List.length_drop]; omega

def isUnmodelled (m : Nat) : Bool :=
  m = 0xFF53 || m = 0xFF5D || m = 0xFF5F || m = 0xFF5E || m = 0xFF74 || m = 0xFF75 || m = 0xFF77

/-- what happened at the end of the main header -/
inductive Stop | eoc | sot
deriving Repr, DecidableEq

/-- `consumeMainHeader`.  Measure: the number of unread bytes; every iteration consumes the two
    marker bytes and the segment handlers never give back more than the two length bytes… which
    they only do after having consumed them, so the net progress per iteration is ≥ 2. -/
def walk (h : Hdr) (bs : Bytes) : Outcome (Hdr × Stop) :=
  match hb : bs with
  | a :: b :: rest =>
    let m := a * 256 + b
    if m = 0xFF90 then .ok (h, .sot)
    else if m = 0xFFD9 then .ok (h, .eoc)
    else if m = 0xFF51 then
      if h.siz.isSome then .err
      else match hp : parseSIZ rest with
        | none => .err
        | some (s, r, al) =>
          if hl : r.length ≤ rest.length then walk { h with siz := some s, allocs := h.allocs ++ [al] } r else .err
    else if m = 0xFF52 then
      if h.siz.isNone ∨ h.cod.isSome then .err
      else match hp : parseCOD rest with
        | none => .err
        | some (c, r, al) =>
          if hl : r.length ≤ rest.length then walk { h with cod := some c, allocs := h.allocs ++ [al] } r else .err
    else if m = 0xFF5C then
      if h.siz.isNone ∨ h.qcd.isSome then .err
      else match hp : parseQCD rest with
        | .ok (q, r, al) =>
          if hl : r.length ≤ rest.length then walk { h with qcd := some q, allocs := h.allocs ++ [al] } r else .err
        | .err => .err
        | .panic s => .panic s
        | .unmodelled => .unmodelled
    else if m = 0xFF64 then
      if h.siz.isNone then .err
      else match hp : parseCOM rest with
        | .ok (r, al) =>
          if hl : r.length ≤ rest.length then walk { h with ncom := h.ncom + 1, allocs := h.allocs ++ [al] } r else .err
        | .err => .err
        | .panic s => .panic s
        | .unmodelled => .unmodelled
    else if isUnmodelled m then .unmodelled
    else
      if h.siz.isNone then .err
      else match hp : skipSegment rest with
        | none => .err
        | some r =>
          if hl : r.length ≤ rest.length then walk h r else .err
  | _ => .err
termination_by bs.length
decreasing_by all_goals (subst hb; simp; omega)

/-- `Parser.Parse` restricted to codestreams without tile-parts: `ok` carries the parsed header -/
def parse (bs : Bytes) : Outcome Hdr :=
  match bs with
  | a :: b :: rest =>
    if a * 256 + b ≠ 0xFF4F then .err
    else match walk {} rest with
      | .ok (h, stop) =>
        if h.siz.isNone ∨ h.cod.isNone ∨ h.qcd.isNone then .err
        else match stop with
          | .eoc => .ok h
          | .sot => .unmodelled
      | .err => .err
      | .panic s => .panic s
      | .unmodelled => .unmodelled
  | _ => .err

end J2kH
