import GdcVerif.Model.Dct
/-!
  Run-length coding of the 63 AC coefficients of a block, at the level of (RS symbol, amplitude bits):
  * `encAC`   — baseline.Encoder.encodeBlock's loop `for k := 1; k < 64; k++` over `coef[ZigZag[k]]`
                (zero-run counter, `for zeroRun >= 16 { ZRL }`, `rs = (zeroRun<<4)|cat`, trailing EOB);
                the same loop is in countBlock and in sequential12Encoder.encodeBlock;
  * `decAC`   — baseline.Decoder.decodeBlock's loop `for k < 64` (ZRL: `k += 16`; EOB: break; otherwise
                `k += r; if k >= 64 error; coef[ZigZag[k]] = EXTEND(bits, s); k++`).
  The coefficient vector is taken in zig-zag order (positions 1..63); Huffman codes of the RS symbols are
  abstracted (a symbol is its value), amplitude bits are `Dct.encodeCategory` / `Dct.extend`.
-/
namespace JpegAc
open Dct

abbrev Sym := Nat × Int

def ZRL : Sym := (0xF0, 0)
def EOB : Sym := (0x00, 0)

/-- `for zeroRun >= 16 { emit ZRL; zeroRun -= 16 }` (fuel = the run itself) -/
def emitZRL : Nat → Nat → List Sym × Nat
  | 0, run => ([], run)
  | f + 1, run => if run ≥ 16 then (ZRL :: (emitZRL f (run - 16)).1, (emitZRL f (run - 16)).2) else ([], run)

/-- the AC loop of encodeBlock from the current position on, with the pending zero run -/
def encAC : List Int → Nat → List Sym
  | [], run => if run > 0 then [EOB] else []
  | v :: t, run =>
    if v = 0 then encAC t (run + 1)
    else
      let z := emitZRL run run
      let cb := encodeCategory v
      z.1 ++ ((z.2 * 16 + cb.1, cb.2) :: encAC t 0)

def pad63 (out : List Int) : List Int := (out ++ List.replicate 63 0).take 63

/-- the AC loop of decodeBlock; `out` holds the coefficients of positions 1..k-1 (so k = out.length + 1);
    `none` = the decoder returns an error -/
def decAC : Nat → List Sym → List Int → Option (List Int)
  | 0, _, out => some (pad63 out)
  | f + 1, syms, out =>
    if out.length + 1 < 64 then
      match syms with
      | [] => none
      | (rs, bits) :: rest =>
        let r := rs / 16
        let s := rs % 16
        if s = 0 then
          if r = 15 then decAC f rest (out ++ List.replicate 16 0)
          else some (pad63 out)
        else
          if out.length + 1 + r ≥ 64 then none
          else decAC f rest (out ++ List.replicate r 0 ++ [extend s bits])
    else some (pad63 out)

def decodeAC (syms : List Sym) : Option (List Int) := decAC (syms.length + 1) syms []

end JpegAc
