import GdcVerif.GoPrelude
import GdcVerif.Gen.J2kQuant
import GdcVerif.Gen.J2kQuantT2
/-!
  Hand model of the integer layers of the JPEG 2000 irreversible quantisation path
  (/repo/jpeg2000/quantization.go, encoder.go, t2/tile_decoder.go, decoder.go).

  What is modelled, and how it is labelled:
  * `encodeFixed`  — `encodeQuantizationStep` *after* its float prefix
      `fixed := int32(math.Floor(stepSize * 8192.0)); if fixed <= 0 { fixed = 1 }`:
      the model takes `fixed` (a positive integer, the step in units of 2^-13) as its input.
      INTEGER MODEL OF A FLOAT FUNCTION: the float multiplication/floor is not modelled.
  * `unpack`/`pack` — the 16-bit SPqcd field: `expn = (w >> 11) & 0x1f`, `mant = w & 0x7ff`
      (decodeQuantizationSteps, quantizationInfo) and `(expn << 11) | mant` (encodeQuantizationStep).
      On a uint16 the shifts/masks are `/ 2048 % 32`, `% 2048`, `* 2048 +`.
  * `stepNum`/`stepExp` — `decodeQuantStep`/`decodeQuantizationStepWithGain`:
      `Ldexp(1 + mant/2048, rb - expn)` as the exact dyadic rational `(2048 + mant) * 2^(rb - expn - 11)`.
      EXACT-RATIONAL MODEL OF A FLOAT FUNCTION (exact: both operations are exact in float64).
  * `deadzoneQ`/`midpoint2` — the dead-zone quantiser (sign-magnitude truncation of |x|/Δ, which is what
      `quantizeSubbandFloat` + the T1 bit-plane coder keep) and the decoder's mid-point reconstruction
      (`(2|q|+1) * Δ/2`, T1 "oneplushalf" then `dequantizeSubbandFloat` multiplying by `0.5*stepSize`),
      in exact integers (x and Δ over a common denominator).  INTEGER MODEL OF A FLOAT PATH.
  * `decoderOrient`/`decoderLog2Gain` — `TileDecoder.log2GainForSubband` for the reversible transform
      (for the 9/7 transform the code returns 0: OpenJPEG's convention, see Props/C12).
  The sample clamp of `Decoder.GetPixelData` is NOT hand-modelled: it is generated (Gen.J2kQuant.clamp*).
-/
namespace J2kQuant

/-- `(w >> 11) & 0x1f`, `w & 0x7ff` on a uint16 -/
def unpack (w : Nat) : Nat × Nat := (w / 2048 % 32, w % 2048)
/-- `uint16((expn << 11) | mant)` for `expn < 32`, `mant < 2048` (disjoint bit fields: `|` is `+`) -/
def pack (expn mant : Nat) : Nat := expn * 2048 + mant

/-- `bits.Len32(x) - 1` for x > 0 -/
def log2 (x : Nat) : Nat := Nat.log2 x

/-- encodeQuantizationStep from `fixed` on: returns (expn, mant) before packing -/
def encodeFixed (fixed : Nat) (numbps : Int) : Nat × Nat :=
  let l := log2 fixed
  let p : Int := (l : Int) - 13
  let mant := if 11 < l then fixed / 2 ^ (l - 11) else fixed * 2 ^ (11 - l)
  let mant := mant % 2048
  let expn := numbps - p
  let expn := if expn < 0 then 0 else expn
  let expn := if expn > 31 then 31 else expn
  (expn.toNat, mant)

/-- decoded step = stepNum * 2^stepExp -/
def stepNum (mant : Nat) : Nat := 2048 + mant
def stepExp (expn : Nat) (bitDepth log2Gain : Int) : Int := bitDepth + log2Gain - expn - 11

/-- dead-zone quantiser: sign(x) * floor(|x| / Δ) -/
def deadzoneQ (x delta : Int) : Int :=
  if x < 0 then -((-x) / delta) else x / delta
/-- twice the mid-point reconstruction: sign(q) * (2|q|+1) * Δ, 0 for q = 0 -/
def midpoint2 (q delta : Int) : Int :=
  if q = 0 then 0 else if q < 0 then -((2 * (-q) + 1) * delta) else (2 * q + 1) * delta

/-- TileDecoder.log2GainForSubband (orientation part): `orient := (idx-1)%3 + 1` -/
def decoderOrient (idx : Int) : Int := if idx == 0 then 0 else Int.tmod (idx - 1) 3 + 1
def decoderLog2Gain (transformation idx : Int) : Int :=
  if transformation == 0 then 0 else
  if idx == 0 then 0 else
  let orient := Int.tmod (idx - 1) 3 + 1
  if orient == 3 then 2 else 1
/-- OpenJPEGRuntimeQuantizationSteps: the encoder's gain per orientation -/
def encoderLog2Gain (orient : Int) : Int := if orient == 3 then 2 else if orient == 1 || orient == 2 then 1 else 0

/-- value of the two bytes stored by the 16-bit output loops (little endian) -/
def val16 (p : Int × Int) : Int := p.1 + 256 * p.2

/-- what the declared range demands of the stored sample: clamp, then P-bit two's complement -/
def clampSpec (P : Nat) (signed : Bool) (v : Int) : Int :=
  if signed then
    let c := max (-(2:Int) ^ (P - 1)) (min v ((2:Int) ^ (P - 1) - 1))
    if c < 0 then c + (2:Int) ^ P else c
  else max 0 (min v ((2:Int) ^ P - 1))

end J2kQuant

/-!
  ## encodeQuantizationStep on float64 inputs, exactly
  A positive float64 is a dyadic rational `m * 2^e` (m a natural number).  `stepSize * 8192.0` is exact in
  float64 (power of two), `math.Floor` is exact, so `fixed = ⌊m * 2^(e+13)⌋` exactly; `int32(…)` is the identity
  below 2^31 (steps below 2^18); `if fixed <= 0 { fixed = 1 }`.  EXACT MODEL of the float prefix for dyadic inputs.
  What stays unmodelled is how the requested step itself is computed (`qualityScale`: math.Pow; division by the
  `dwtNorms97` table entry): the requested step `StepSizes[i]` is an input here.
-/
namespace J2kQuant

def fixedOfDyadic (m : Nat) (e : Int) : Nat :=
  let f := if 0 ≤ e + 13 then m * 2 ^ (e + 13).toNat else m / 2 ^ (-(e + 13)).toNat
  if f = 0 then 1 else f

/-- encodeQuantizationStep(m·2^e, numbps) as the 16-bit word -/
def encodeStepDyadic (m : Nat) (e : Int) (numbps : Int) : Nat :=
  if m = 0 then 0 else
  let em := encodeFixed (fixedOfDyadic m e) numbps
  pack em.1 em.2

end J2kQuant

/-!
  ## which QCD entry each sub-band is quantised with
  `Encoder.applyQuantizationBySubbandFloat` / `TileDecoder.applyDequantizationBySubbandFloat` walk the bands with a
  counter: `subbandIdx := 0; (LL) …; subbandIdx++; for res := 1..numLevels { for each band b of res { if
  subbandIdx < len(steps) && b.width > 0 && b.height > 0 { (de)quantise with steps[subbandIdx] }; subbandIdx++ } }`.
  The counter advances for EVERY band, empty or not.  `stepWalk L` lists (res, band, index used); the counter
  update is the GENERATED loop body (go2lean loop mode with `slice: [subbandIdx]`), so an edit that makes the
  increment conditional or skips it changes / breaks the generated kernel.
-/
namespace J2kQuant

/-- the inner `for _, b := range bands` loop, its counter advanced by `step` = the GENERATED (sliced) loop body -/
def resLoopWith (step : Int → Int) : Nat → Nat → Int → List (Nat × Nat × Int)
  | 0, _, _ => []
  | n + 1, res, idx =>
    (res, 1, idx) :: (res, 2, step idx) :: (res, 3, step (step idx)) :: resLoopWith step n (res + 1) (step (step (step idx)))

/-- encoder: Gen.J2kQuant.bandWalkStep = body of the band loop of applyQuantizationBySubbandFloat sliced on `subbandIdx` -/
def stepWalk (numLevels : Nat) : List (Nat × Nat × Int) :=
  (0, 0, 0) :: resLoopWith (fun i => Gen.J2kQuant.bandWalkStep 0 0 0 0 i 0) numLevels 1 1
/-- decoder: Gen.J2kQuantT2.bandWalkStep = body of the band loop of applyDequantizationBySubbandFloat -/
def stepWalkDec (numLevels : Nat) : List (Nat × Nat × Int) :=
  (0, 0, 0) :: resLoopWith (fun i => Gen.J2kQuantT2.bandWalkStep 0 0 0 0 0 0 i 0) numLevels 1 1

end J2kQuant
