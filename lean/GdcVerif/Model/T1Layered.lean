import GdcVerif.Model.T1
/-!
  Code-shaped executable model of the layered T1 API, `jpeg2000/t1/encoder_layered.go` (`EncodeLayered`) and
  `jpeg2000/t1/decoder.go` (`DecodeLayeredWithMode`), for all 64 code-block styles: raw (bypass) significance and
  refinement passes under LAZY, `BypassInitEnc` / `RestartInitEnc` after a terminated pass, `BypassFlushEnc` /
  `ErtermEnc` / `FlushToOutput` at a terminated pass, the per-pass rates with `normalizePassRates`, and on the
  decoder side the codeword-segment logic of /repo 9151147 (one MQ or raw decoder per segment, located through the
  cumulative pass lengths).  `roishift = 0`, `nmseDecFracBits = 0`, plain reconstruction; the rate-distortion numbers
  are not modelled.  Tied to the code by the `t1-lenc` / `t1-ldec` correspondence lines; no theorem yet.
-/
namespace T1
open Gen.J2kT1

def styLazy (style : Nat) : Bool := style % 2 = 1
def styTermall (style : Nat) : Bool := style / 4 % 2 = 1

/-! ### encoder passes with the `raw` switch -/

/-- `Encode(bit, ctx)` or `BypassEncode(bit)` -/
def encBit (raw : Bool) (mq : Mqc.Enc) (bit cx : Nat) : Option Mqc.Enc :=
  if raw then Mqc.bypassEncode mq bit else Mqc.encode mq bit cx

def encSignR (raw : Bool) (w : Nat) (data : Array Int) (st : EncSt) (f x y idx : Nat) : Option EncSt := do
  let v ← data[idx]?
  let signBit := if v < 0 then 1 else 0
  let fl ← if v < 0 then orAt st.flags idx fSign else some st.flags
  let mq ← if raw then Mqc.bypassEncode st.mq signBit
    else do
      let signCtx ← scCtx f
      let signPred ← spb f
      Mqc.encode st.mq (signBit ^^^ signPred) signCtx
  let fl ← orAt fl idx fSig
  let fl ← updateNeighborFlags w fl x y idx
  some { flags := fl, mq := mq }

/-- `encodeSigPropPass(raw)` -/
def encSigPropR (raw : Bool) (w h orient bp : Nat) (data : Array Int) (st : EncSt) : Option EncSt :=
  (coords w h).foldlM (fun st (x, y) => do
    let idx := idxOf w x y
    let f ← st.flags[idx]?
    if has f fSig then some st
    else if ¬ has f fSigNeighbors then some st
    else
      let v ← data[idx]?
      let isSig := magBit v bp
      let ctx ← zcCtx f orient
      let mq ← encBit raw st.mq isSig ctx
      let fl ← orAt st.flags idx fVisit
      let st := { flags := fl, mq := mq }
      if isSig ≠ 0 then encSignR raw w data st f x y idx else some st) st

/-- `encodeMagRefPass(raw)` -/
def encMagRefR (raw : Bool) (w h bp : Nat) (data : Array Int) (st : EncSt) : Option EncSt :=
  (coords w h).foldlM (fun st (x, y) => do
    let idx := idxOf w x y
    let f ← st.flags[idx]?
    if ¬ has f fSig ∨ has f fVisit then some st
    else
      let v ← data[idx]?
      let mq ← encBit raw st.mq (magBit v bp) (mrCtx f)
      let fl ← orAt st.flags idx fRefine
      some { flags := fl, mq := mq }) st

/-- `NumBytes()` -/
def numBytes (e : Mqc.Enc) : Nat := if e.bp < Mqc.start then 0 else e.bp - Mqc.start

/-- `BypassExtraBytes(erterm)`; `none` = index out of range -/
def bypassExtraBytes (e : Mqc.Enc) (erterm : Bool) : Option Nat :=
  if e.ct < 7 then some 1
  else if e.ct = 7 then
    if erterm then some 1
    else if e.bp > 0 then
      match e.buf[e.bp - 1]? with
      | none => none
      | some p => some (if p ≠ 0xFF then 1 else 0)
    else some 0
  else some 0

/-- per-pass record: `(Rate, Terminated)` before normalisation -/
abbrev PassRec := Nat × Bool

/-- the pass loop of `EncodeLayered`; returns the state, `prevTerminated` and the pass records in order -/
def encLoopL (w h orient style : Nat) (data : Array Int) (maxBitplane numPasses : Nat) :
    Nat → EncSt → (bitplane : Int) → (passIdx passType : Nat) → (prevTerminated : Bool) → List PassRec →
    Option (EncSt × Bool × List PassRec)
  | 0, st, _, _, _, pt, acc => some (st, pt, acc)
  | fuel + 1, st, bitplane, passIdx, passType, prevTerminated, acc =>
    if bitplane ≥ 0 ∧ passIdx < numPasses then
      let bp := bitplane.toNat
      let startBitplane := passType = 0 ∨ (passType = 2 ∧ passIdx = 0)
      let st := if startBitplane then { st with flags := clearVisit st.flags } else st
      let raw := isLazyRawPass bitplane (maxBitplane : Int) (passType : Int) (style : Int)
      let st := if prevTerminated then
          { st with mq := if raw then Mqc.bypassInitEnc st.mq else Mqc.restartInitEnc st.mq } else st
      match (match passType with
        | 0 => encSigPropR raw w h orient bp data st
        | 1 => encMagRefR raw w h bp data st
        | _ => (encCleanup w h orient bp data st).bind fun st =>
                 if stySegsym style then (Mqc.segmarkEnc st.mq).map (fun m => { st with mq := m }) else some st) with
      | none => none
      | some st =>
        let terminated := isTerminatingPass bitplane (maxBitplane : Int) (passType : Int) (style : Int)
        match (if terminated then
                 (if raw then Mqc.bypassFlushEnc st.mq (styPterm style)
                  else if styPterm style then Mqc.ertermEnc st.mq else Mqc.flushToOutput st.mq).map
                   (fun m => { st with mq := m })
               else some st) with
        | none => none
        | some st =>
          match (if styReset style then (initCtx (Mqc.resetContexts st.mq)).map (fun m => { st with mq := m }) else some st) with
          | none => none
          | some st =>
            let actual := numBytes st.mq
            match (if terminated then some actual
                   else if raw then (bypassExtraBytes st.mq (styPterm style)).map (actual + ·) else some (actual + 3)) with
            | none => none
            | some rate =>
              let acc := acc ++ [(rate, terminated)]
              if passType = 2 then encLoopL w h orient style data maxBitplane numPasses fuel st (bitplane - 1) (passIdx + 1) 0 terminated acc
              else encLoopL w h orient style data maxBitplane numPasses fuel st bitplane (passIdx + 1) (passType + 1) terminated acc
    else some (st, prevTerminated, acc)

/-- `normalizePassRates(passes, data)` restricted to the `Rate` field -/
def normalizeRates (rates : List Nat) (data : List Nat) : List Nat :=
  (rates.foldr (fun rate (acc : List Nat × Nat) =>
      let lastRate := acc.2
      let (rate, lastRate) := if rate > lastRate then (lastRate, lastRate) else (rate, rate)
      let (rate, lastRate) :=
        if rate > 0 ∧ rate ≤ data.length ∧ data.getD (rate - 1) 0 = 0xFF then (rate - 1, rate - 1) else (rate, lastRate)
      (rate :: acc.1, lastRate)) (([] : List Nat), data.length)).1

/-- `NewT1Encoder(w, h, style)`, `SetOrientation(orient)`, `EncodeLayered(coeffs, numPasses, 0, nil, style)`:
the normalised cumulative rates, the top bit-plane (`passes[0].Bitplane`, or -1) and the bytes -/
def encodeLayered (w h orient style : Nat) (coeffs : List Int) (numPasses : Nat) : Outcome (List Nat × Int × List Nat) :=
  if coeffs.length ≠ w * h then .err else
  let data := padBlock w h coeffs
  match findMaxBitplane data with
  | none => .ok ([], -1, [])
  | some mb =>
    match initCtx (Mqc.Enc.new NUMCONTEXTS) with
    | none => .panic
    | some mq =>
      let st : EncSt := { flags := Array.replicate ((w + 2) * (h + 2)) 0, mq := mq }
      match encLoopL w h orient style data mb numPasses (numPasses + 1) st mb 0 2 false [] with
      | none => .panic
      | some (st, prevTerminated, recs) =>
        match (if prevTerminated then some (Mqc.getBuffer st.mq) else (Mqc.flush st.mq).map (·.2)) with
        | none => .panic
        | some bytes => .ok (normalizeRates (recs.map (·.1)) bytes, mb, bytes)

/-! ### decoder passes with the `raw` switch -/

/-- `Decode(ctx)` or `RawDecode()` -/
def decBit (raw : Bool) (mq : Mqc.Dec) (cx : Nat) : Option (Nat × Mqc.Dec) :=
  if raw then Mqc.rawDecode mq else Mqc.decode mq cx

def decSignR (raw : Bool) (w bp : Nat) (st : DecSt) (f x y idx : Nat) : Option DecSt := do
  let (sign, mq) ← if raw then Mqc.rawDecode st.mq
    else do
      let signCtx ← scCtx f
      let (signBit, mq) ← Mqc.decode st.mq signCtx
      let signPred ← spb f
      some (signBit ^^^ signPred, mq)
  let fl ← if sign ≠ 0 then orAt st.flags idx fSign else some st.flags
  let val : Int := Go.wrap32 ((2 : Int) ^ bp)
  if idx ≥ st.data.size then none else
  let data := st.data.setIfInBounds idx (if sign ≠ 0 then Go.wrap32 (-val) else val)
  let fl ← orAt fl idx fSig
  let fl ← updateNeighborFlags w fl x y idx
  some { flags := fl, data := data, mq := mq }

def decSigPropR (raw : Bool) (w h orient bp : Nat) (st : DecSt) : Option DecSt :=
  (coords w h).foldlM (fun st (x, y) => do
    let idx := idxOf w x y
    let f ← st.flags[idx]?
    if has f fSig then some st
    else if ¬ has f fSigNeighbors then some st
    else
      let ctx ← zcCtx f orient
      let (b, mq) ← decBit raw st.mq ctx
      let fl ← orAt st.flags idx fVisit
      let st := { st with flags := fl, mq := mq }
      if b ≠ 0 then decSignR raw w bp st f x y idx else some st) st

def decMagRefR (raw : Bool) (w h bp : Nat) (st : DecSt) : Option DecSt :=
  (coords w h).foldlM (fun st (x, y) => do
    let idx := idxOf w x y
    let f ← st.flags[idx]?
    if ¬ has f fSig ∨ has f fVisit then some st
    else
      let (b, mq) ← decBit raw st.mq (mrCtx f)
      let cur ← st.data[idx]?
      let data := st.data.setIfInBounds idx (refine cur bp b)
      let fl ← orAt st.flags idx fRefine
      some { flags := fl, data := data, mq := mq }) st

/-- `NewMQDecoderWithContexts(data, prevContexts)` -/
def decWithContexts (bytes : List Nat) (ctx : Array Nat) : Option Mqc.Dec :=
  Mqc.Dec.init { data := (bytes ++ [0xFF, 0xFF]).toArray, bp := 0, dataLen := bytes.length,
                 a := 0x8000, c := 0, ct := 0, eos := 0, ctx := ctx }

/-- the pass that ends the codeword segment starting at `(bp, pt)`, pass index `last`:
`for …; last < numPasses-1 && !terminates(bp, pt); last++ { next (bp, pt) }` -/
def segLast (term : Int → Nat → Bool) (numPasses : Nat) : Nat → Nat → Int → Nat → Nat
  | 0, last, _, _ => last
  | fuel + 1, last, bp, pt =>
    if last + 1 < numPasses ∧ ¬ term bp pt then
      if pt = 2 then segLast term numPasses fuel (last + 1) (bp - 1) 0
      else segLast term numPasses fuel (last + 1) bp (pt + 1)
    else last

inductive LOut (α : Type) where
  | ok : α → LOut α
  | err : LOut α
  | panic : LOut α

structure LDec where
  st : DecSt
  prevEnd : Nat
  prevCtx : Array Nat
  newSegment : Bool

/-- the segment loop of `DecodeLayeredWithMode` (`useTERMALL`, `resetContexts` as computed by the caller) -/
def decLoopL (w h orient style : Nat) (useTERMALL resetContexts : Bool) (maxBitplane : Int) (passLengths : List Nat)
    (bytes : List Nat) : Nat → LDec → (bitplane : Int) → (passIdx passType : Nat) → LOut DecSt
  | 0, s, _, _, _ => .ok s.st
  | fuel + 1, s, bitplane, passIdx, passType =>
    let numPasses := passLengths.length
    if bitplane ≥ 0 ∧ passIdx < numPasses then
      let bp := bitplane.toNat
      let startBitplane := passType = 0 ∨ (passType = 2 ∧ passIdx = 0)
      let st := if startBitplane then { s.st with flags := clearVisit s.st.flags } else s.st
      let raw := isLazyRawPass bitplane maxBitplane (passType : Int) (style : Int)
      let term := fun (b : Int) (pt : Nat) => useTERMALL || isTerminatingPass b maxBitplane (pt : Int) (style : Int)
      -- the coder for this pass
      let coder : LOut (Mqc.Dec × Nat) :=
        if s.newSegment then
          let last := segLast term numPasses numPasses passIdx bitplane passType
          match passLengths[last]? with
          | none => .panic
          | some currentEnd =>
            if currentEnd < s.prevEnd ∨ currentEnd > bytes.length then .err
            else
              let passData := (bytes.take currentEnd).drop s.prevEnd
              let d : Option Mqc.Dec :=
                if raw then some (Mqc.Dec.newRaw passData)
                else if passIdx = 0 ∨ resetContexts then (Mqc.Dec.new passData NUMCONTEXTS).bind initCtxDec
                else decWithContexts passData s.prevCtx
              match d with
              | none => .panic
              | some d => .ok (d, currentEnd)
        else if resetContexts ∧ ¬ raw then
          match resetCtxDec st.mq with
          | none => .panic
          | some d => .ok (d, s.prevEnd)
        else .ok (st.mq, s.prevEnd)
      match coder with
      | .err => .err
      | .panic => .panic
      | .ok (d, prevEnd) =>
        let st := { st with mq := d }
        let newSegment := term bitplane passType
        match (match passType with
          | 0 => decSigPropR raw w h orient bp st
          | 1 => decMagRefR raw w h bp st
          | _ => (decCleanup w h orient bp st).bind fun st =>
                   if stySegsym style then (segmarkDec st.mq).map (fun m => { st with mq := m }) else some st) with
        | none => .panic
        | some st =>
          let prevCtx := if ¬ raw ∧ ¬ resetContexts then st.mq.ctx else s.prevCtx
          let s' : LDec := { st := st, prevEnd := prevEnd, prevCtx := prevCtx, newSegment := newSegment }
          if passType = 2 then decLoopL w h orient style useTERMALL resetContexts maxBitplane passLengths bytes fuel s' (bitplane - 1) (passIdx + 1) 0
          else decLoopL w h orient style useTERMALL resetContexts maxBitplane passLengths bytes fuel s' bitplane (passIdx + 1) (passType + 1)
    else .ok s.st

/-- `NewT1Decoder(w, h, style)`, `SetOrientation(orient)`,
`DecodeLayeredWithMode(bytes, passLengths, maxBitplane, 0, style&TERMALL != 0, style&RESET != 0)`, `GetData()` -/
def decodeLayered (w h orient style : Nat) (maxBitplane : Int) (passLengths : List Nat) (bytes : List Nat) :
    Outcome (List Int) :=
  if bytes.length = 0 then .err else
  if passLengths.length = 0 then .err else
  let useTERMALL := styTermall style
  if ¬ useTERMALL ∧ ¬ styLazy style then decodeBlock w h orient style passLengths.length maxBitplane bytes
  else
    let resetContexts := styReset style
    let st : DecSt := { flags := Array.replicate ((w + 2) * (h + 2)) 0,
                        data := Array.replicate ((w + 2) * (h + 2)) 0,
                        mq := Mqc.Dec.newRaw [] }
    match decLoopL w h orient style useTERMALL resetContexts maxBitplane passLengths bytes (passLengths.length + 1)
        { st := st, prevEnd := 0, prevCtx := #[], newSegment := true } maxBitplane 0 2 with
    | .err => .err
    | .panic => .panic
    | .ok st =>
      match ((List.range h).flatMap fun y => (List.range w).map fun x => idxOf w x y).mapM (fun i => st.data[i]?) with
      | some out => .ok out
      | none => .panic

end T1
