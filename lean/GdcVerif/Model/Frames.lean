/-!
  C10 — frames map 1:1, in order, independently, deterministically.

  Part 1: a small imperative language over the *fields* of a codec object.  A per-frame `step` is
  a command; its may-write set, must-write (kill) set and upward-exposed read set are COMPUTED
  from the syntax (the same kill analysis `gofacts` F3 runs on jpeg2000.Encoder/Decoder), and the
  analysis is proved sound here — so "reads only its read set, changes only its write set" is a
  theorem about the model, not a hypothesis.
  Part 2: state machines in general (`Machine`), the invariant form that covers memo fields.
  Part 3: the decoded-frame-length model of the ten codec adapters (code-shaped).
  Core Lean only.
-/
namespace Frames

/-! ## Part 1: field language -/

/-- expressions over fields (`F`), the current frame (`Fr`) and values (`V`) -/
inductive Ex (F V Fr : Type) where
  | fld : F → Ex F V Fr
  | frm : (Fr → V) → Ex F V Fr
  | cst : V → Ex F V Fr
  | app : (V → V → V) → Ex F V Fr → Ex F V Fr → Ex F V Fr

namespace Ex
variable {F V Fr : Type}

def eval : Ex F V Fr → (F → V) → Fr → V
  | fld f, s, _ => s f
  | frm g, _, fr => g fr
  | cst v, _, _ => v
  | app op a b, s, fr => op (a.eval s fr) (b.eval s fr)

def reads : Ex F V Fr → List F
  | fld f => [f]
  | frm _ => []
  | cst _ => []
  | app _ a b => a.reads ++ b.reads

theorem eval_congr (e : Ex F V Fr) (s s' : F → V) (fr : Fr)
    (h : ∀ f, f ∈ e.reads → s f = s' f) : e.eval s fr = e.eval s' fr := by
  induction e with
  | fld f => exact h f (by simp [reads])
  | frm g => rfl
  | cst v => rfl
  | app op a b iha ihb =>
    simp only [eval]
    rw [iha (fun f hf => h f (by simp [reads, hf])), ihb (fun f hf => h f (by simp [reads, hf]))]
end Ex

/-- per-frame commands: field assignment, output emission, sequencing, branching -/
inductive Cmd (F V Fr : Type) where
  | skip : Cmd F V Fr
  | set : F → Ex F V Fr → Cmd F V Fr
  | out : Ex F V Fr → Cmd F V Fr
  | seq : Cmd F V Fr → Cmd F V Fr → Cmd F V Fr
  | ite : Ex F V Fr → (V → Bool) → Cmd F V Fr → Cmd F V Fr → Cmd F V Fr
  | rep : Ex F V Fr → (V → Nat) → Cmd F V Fr → Cmd F V Fr

namespace Cmd
variable {F V Fr : Type} [DecidableEq F]

/-- n-fold iteration of a step function, concatenating the outputs -/
def iterExec (g : (F → V) → (F → V) × List V) : Nat → (F → V) → (F → V) × List V
  | 0, s => (s, [])
  | n + 1, s => ((iterExec g n (g s).1).1, (g s).2 ++ (iterExec g n (g s).1).2)

/-- execution: new field store and the list of emitted values; `rep e cnt b` runs `b` as many times as
    `cnt` says of the value of `e` on entry (a loop whose trip count depends on what was read) -/
def exec : Cmd F V Fr → (F → V) → Fr → (F → V) × List V
  | skip, s, _ => (s, [])
  | set f e, s, fr => (fun g => if g = f then e.eval s fr else s g, [])
  | out e, s, fr => (s, [e.eval s fr])
  | seq a b, s, fr => ((b.exec (a.exec s fr).1 fr).1, (a.exec s fr).2 ++ (b.exec (a.exec s fr).1 fr).2)
  | ite c p a b, s, fr => if p (c.eval s fr) then a.exec s fr else b.exec s fr
  | rep e cnt b, s, fr => iterExec (fun t => b.exec t fr) (cnt (e.eval s fr)) s

/-- fields the command may write -/
def writes : Cmd F V Fr → List F
  | skip => []
  | set f _ => [f]
  | out _ => []
  | seq a b => a.writes ++ b.writes
  | ite _ _ a b => a.writes ++ b.writes
  | rep _ _ b => b.writes

/-- fields the command writes on every path (kill set) -/
def kills : Cmd F V Fr → List F
  | skip => []
  | set f _ => [f]
  | out _ => []
  | seq a b => a.kills ++ b.kills
  | ite _ _ a b => a.kills.filter (fun f => f ∈ b.kills)
  | rep _ _ _ => []

/-- fields whose incoming value may be read before the command has written them -/
def exposed : Cmd F V Fr → List F
  | skip => []
  | set _ e => e.reads
  | out e => e.reads
  | seq a b => a.exposed ++ b.exposed.filter (fun f => f ∉ a.kills)
  | ite c _ a b => c.reads ++ a.exposed ++ b.exposed
  | rep e _ b => e.reads ++ b.exposed

omit [DecidableEq F] in
theorem iterExec_frame (g : (F → V) → (F → V) × List V) (f : F) (hg : ∀ s, (g s).1 f = s f) (n : Nat)
    (s : F → V) : (iterExec g n s).1 f = s f := by
  induction n generalizing s with
  | zero => rfl
  | succ n ih => simp only [iterExec]; rw [ih, hg]

omit [DecidableEq F] in
theorem iterExec_congr (g : (F → V) → (F → V) × List V) (X : F → Prop)
    (hg : ∀ s s', (∀ f, X f → s f = s' f) → (g s).2 = (g s').2 ∧ ∀ f, X f → (g s).1 f = (g s').1 f)
    (n : Nat) (s s' : F → V) (hs : ∀ f, X f → s f = s' f) :
    (iterExec g n s).2 = (iterExec g n s').2 ∧ ∀ f, X f → (iterExec g n s).1 f = (iterExec g n s').1 f := by
  induction n generalizing s s' with
  | zero => exact ⟨rfl, hs⟩
  | succ n ih =>
    obtain ⟨o, st⟩ := hg s s' hs
    obtain ⟨o2, st2⟩ := ih (g s).1 (g s').1 st
    exact ⟨by simp only [iterExec]; rw [o, o2], by simpa only [iterExec] using st2⟩

/-- frame rule: a field outside the may-write set keeps its value -/
theorem exec_frame (c : Cmd F V Fr) (s : F → V) (fr : Fr) (f : F) (h : f ∉ c.writes) :
    (c.exec s fr).1 f = s f := by
  induction c generalizing s with
  | skip => rfl
  | set g e =>
    have : f ≠ g := by simpa [writes] using h
    simp [exec, this]
  | out e => rfl
  | seq a b iha ihb =>
    have ha : f ∉ a.writes := fun hf => h (by simp [writes, hf])
    have hb : f ∉ b.writes := fun hf => h (by simp [writes, hf])
    simp only [exec]
    rw [ihb _ hb, iha _ ha]
  | ite c p a b iha ihb =>
    have ha : f ∉ a.writes := fun hf => h (by simp [writes, hf])
    have hb : f ∉ b.writes := fun hf => h (by simp [writes, hf])
    simp only [exec]
    split
    · exact iha _ ha
    · exact ihb _ hb
  | rep e cnt b ih =>
    have hb : f ∉ b.writes := by simpa [writes] using h
    simp only [exec]
    exact iterExec_frame _ f (fun t => ih t hb) _ s

/-- soundness of the exposed-read / kill analysis: two stores that agree on a set `X` containing the
    exposed reads give the same outputs, and the resulting stores agree on `X` and on every killed field -/
theorem exec_congr (c : Cmd F V Fr) (X : F → Prop) (s s' : F → V) (fr : Fr)
    (hx : ∀ f, f ∈ c.exposed → X f) (hs : ∀ f, X f → s f = s' f) :
    (c.exec s fr).2 = (c.exec s' fr).2 ∧
      ∀ f, (X f ∨ f ∈ c.kills) → (c.exec s fr).1 f = (c.exec s' fr).1 f := by
  induction c generalizing X s s' with
  | skip => exact ⟨rfl, fun f hf => by
      cases hf with
      | inl h => exact hs f h
      | inr h => simp [kills] at h⟩
  | set g e =>
    have he : e.eval s fr = e.eval s' fr :=
      Ex.eval_congr e s s' fr (fun f hf => hs f (hx f (by simpa [exposed] using hf)))
    refine ⟨rfl, fun f hf => ?_⟩
    simp only [exec]
    by_cases hfg : f = g
    · simp [hfg, he]
    · simp only [hfg, if_false]
      cases hf with
      | inl h => exact hs f h
      | inr h => simp [kills, hfg] at h
  | out e =>
    have he : e.eval s fr = e.eval s' fr :=
      Ex.eval_congr e s s' fr (fun f hf => hs f (hx f (by simpa [exposed] using hf)))
    refine ⟨by simp [exec, he], fun f hf => ?_⟩
    cases hf with
    | inl h => exact hs f h
    | inr h => simp [kills] at h
  | seq a b iha ihb =>
    have hxa : ∀ f, f ∈ a.exposed → X f := fun f hf => hx f (by simp [exposed, hf])
    obtain ⟨oa, sa⟩ := iha X s s' hxa hs
    -- after `a` the stores agree on X ∪ kills a
    let X' : F → Prop := fun f => X f ∨ f ∈ a.kills
    have hxb : ∀ f, f ∈ b.exposed → X' f := by
      intro f hf
      by_cases hk : f ∈ a.kills
      · exact Or.inr hk
      · exact Or.inl (hx f (by simp [exposed, hf, hk]))
    obtain ⟨ob, sb⟩ := ihb X' (a.exec s fr).1 (a.exec s' fr).1 hxb (fun f hf => sa f hf)
    refine ⟨by simp only [exec]; rw [oa, ob], fun f hf => ?_⟩
    simp only [exec]
    apply sb
    cases hf with
    | inl h => exact Or.inl (Or.inl h)
    | inr h =>
      have : f ∈ a.kills ∨ f ∈ b.kills := by simpa [kills] using h
      cases this with
      | inl h1 => exact Or.inl (Or.inr h1)
      | inr h2 => exact Or.inr h2
  | ite c p a b iha ihb =>
    have hc : c.eval s fr = c.eval s' fr :=
      Ex.eval_congr c s s' fr (fun f hf => hs f (hx f (by simp [exposed, hf])))
    have hxa : ∀ f, f ∈ a.exposed → X f := fun f hf => hx f (by simp [exposed, hf])
    have hxb : ∀ f, f ∈ b.exposed → X f := fun f hf => hx f (by simp [exposed, hf])
    simp only [exec, hc]
    split
    · obtain ⟨o, st⟩ := iha X s s' hxa hs
      refine ⟨o, fun f hf => st f ?_⟩
      cases hf with
      | inl h => exact Or.inl h
      | inr h => exact Or.inr (by simp [kills] at h; exact h.1)
    · obtain ⟨o, st⟩ := ihb X s s' hxb hs
      refine ⟨o, fun f hf => st f ?_⟩
      cases hf with
      | inl h => exact Or.inl h
      | inr h => exact Or.inr (by simp [kills] at h; exact h.2)
  | rep e cnt b ih =>
    have he : e.eval s fr = e.eval s' fr :=
      Ex.eval_congr e s s' fr (fun f hf => hs f (hx f (by simp [exposed, hf])))
    have hxb : ∀ f, f ∈ b.exposed → X f := fun f hf => hx f (by simp [exposed, hf])
    simp only [exec, he]
    have := iterExec_congr (fun t => b.exec t fr) X
      (fun t t' ht => ⟨(ih X t t' hxb ht).1, fun f hf => (ih X t t' hxb ht).2 f (Or.inl hf)⟩)
      (cnt (e.eval s' fr)) s s' hs
    refine ⟨this.1, fun f hf => ?_⟩
    cases hf with
    | inl h => exact this.2 f h
    | inr h => simp [kills] at h

/-- run a command once per frame on one object, threading the field store -/
def runFrames (c : Cmd F V Fr) : (F → V) → List Fr → List (List V)
  | _, [] => []
  | s, fr :: rest => (c.exec s fr).2 :: runFrames c (c.exec s fr).1 rest

/-- the per-frame function the object refines: the step run from the initial store -/
def frameFn (c : Cmd F V Fr) (s0 : F → V) (fr : Fr) : List V := (c.exec s0 fr).2

/-- `Refines c`: every field whose incoming value the step may read is configuration (never written);
    equivalently every written field is killed before it is read.  Decidable, computed from the syntax. -/
def Refines (c : Cmd F V Fr) : Prop := ∀ f, f ∈ c.exposed → f ∉ c.writes

instance (c : Cmd F V Fr) : Decidable (Refines c) := by unfold Refines; exact List.decidableBAll _ _

/-- the fields that break `Refines`: read before written and written — the leaky fields -/
def leaky (c : Cmd F V Fr) : List F := c.exposed.filter (fun f => f ∈ c.writes)

theorem refines_iff_leaky_nil (c : Cmd F V Fr) : Refines c ↔ leaky c = [] := by
  unfold Refines leaky
  rw [List.filter_eq_nil_iff]
  constructor
  · intro h f hf; simpa using h f hf
  · intro h f hf; simpa using h f hf

theorem run_eq_map_aux (c : Cmd F V Fr) (h : Refines c) (s0 s : F → V)
    (hs : ∀ f, f ∉ c.writes → s f = s0 f) (fs : List Fr) :
    runFrames c s fs = fs.map (frameFn c s0) := by
  induction fs generalizing s with
  | nil => rfl
  | cons fr rest ih =>
    simp only [runFrames, List.map_cons]
    have hc := exec_congr c (fun f => f ∉ c.writes) s s0 fr h hs
    rw [ih (c.exec s fr).1 (fun f hf => by rw [exec_frame c s fr f hf]; exact hs f hf)]
    simp only [frameFn, hc.1]

/-- refinement: if every read field is configuration or killed, running the object over a frame
    sequence is `map` of a pure per-frame function -/
theorem run_eq_map (c : Cmd F V Fr) (h : Refines c) (s0 : F → V) (fs : List Fr) :
    runFrames c s0 fs = fs.map (frameFn c s0) :=
  run_eq_map_aux c h s0 s0 (fun _ _ => rfl) fs

/-- leaky fields that are *stationary*: if from every state that agrees with `s0` on the configuration and
    on the leaky fields the step leaves the leaky fields as they are in `s0` (a cache that is already filled
    and is refilled with the same value), then from `s0` on the run is a `map` -/
theorem run_eq_map_of_stationary (c : Cmd F V Fr) (s0 : F → V)
    (hstat : ∀ s fr, (∀ f, (f ∉ c.writes ∨ f ∈ leaky c) → s f = s0 f) →
      ∀ f, f ∈ leaky c → (c.exec s fr).1 f = s0 f)
    (fs : List Fr) : runFrames c s0 fs = fs.map (frameFn c s0) := by
  suffices h : ∀ s, (∀ f, (f ∉ c.writes ∨ f ∈ leaky c) → s f = s0 f) →
      runFrames c s fs = fs.map (frameFn c s0) from h s0 (fun _ _ => rfl)
  induction fs with
  | nil => intro s _; rfl
  | cons fr rest ih =>
    intro s hs
    simp only [runFrames, List.map_cons]
    have hx : ∀ f, f ∈ c.exposed → (f ∉ c.writes ∨ f ∈ leaky c) := by
      intro f hf
      by_cases hw : f ∈ c.writes
      · exact Or.inr (by simp [leaky, hf, hw])
      · exact Or.inl hw
    have hc := exec_congr c (fun f => f ∉ c.writes ∨ f ∈ leaky c) s s0 fr hx hs
    rw [ih (c.exec s fr).1 (fun f hf => by
      cases hf with
      | inl h => rw [exec_frame c s fr f h]; exact hs f (Or.inl h)
      | inr h => exact hstat s fr hs f h)]
    simp only [frameFn, hc.1]

end Cmd

/-! ## Part 2: state machines, semantic form -/

structure Machine (St Fr Out : Type) where
  step : St → Fr → St × Out

namespace Machine
variable {St Fr Out : Type}

def run (m : Machine St Fr Out) : St → List Fr → List Out
  | _, [] => []
  | s, fr :: rest => (m.step s fr).2 :: run m (m.step s fr).1 rest

/-- invariant form (covers caches/memo fields): if a predicate `Good` holds initially, is preserved by
    every step, and the output of a step from any good state equals the output from the initial state,
    then the run is a `map` -/
theorem run_eq_map_of_inv (m : Machine St Fr Out) (Good : St → Prop) (s0 : St)
    (hpres : ∀ s fr, Good s → Good (m.step s fr).1)
    (hout : ∀ s fr, Good s → (m.step s fr).2 = (m.step s0 fr).2)
    (s : St) (hs : Good s) (fs : List Fr) :
    m.run s fs = fs.map (fun fr => (m.step s0 fr).2) := by
  induction fs generalizing s with
  | nil => rfl
  | cons fr rest ih =>
    simp only [run, List.map_cons]
    rw [hout s fr hs, ih _ (hpres s fr hs)]

end Machine

/-! consequences of `run = map f`, stated for any list function of that shape -/
section MapFacts
variable {Fr Out : Type} (f : Fr → Out)

theorem map_length (fs : List Fr) : (fs.map f).length = fs.length := List.length_map ..

theorem map_getElem (fs : List Fr) (i : Nat) (h : i < fs.length) :
    (fs.map f)[i]'(by simpa using h) = f fs[i] := by simp

theorem map_perm {fs gs : List Fr} (h : fs.Perm gs) : (fs.map f).Perm (gs.map f) := h.map f

theorem map_sublist {fs gs : List Fr} (h : fs.Sublist gs) : (fs.map f).Sublist (gs.map f) := h.map f

theorem map_replicate (n : Nat) (fr : Fr) : (List.replicate n fr).map f = List.replicate n (f fr) :=
  List.map_replicate

theorem map_append (fs gs : List Fr) : (fs ++ gs).map f = fs.map f ++ gs.map f := List.map_append
end MapFacts

/-! ## Part 3: decoded frame length as a function of the FrameInfo the adapter passes down -/

structure Info where
  w : Nat
  h : Nat
  spp : Nat
  ba : Nat
  bs : Nat
  deriving Repr, DecidableEq

/-- what the property requires: Rows·Columns·Samples·⌈BitsAllocated/8⌉ -/
def expectedLen (i : Info) : Nat := i.w * i.h * i.spp * ((i.ba + 7) / 8)

inductive Kind where
  | rle | baseline | extended | jpegll | jls | j2k | htj2k
  deriving Repr, DecidableEq

def pad8 (n : Nat) : Nat := (n + 7) / 8 * 8

/-- since fix ae34483 every adapter that hands BitsStored down as the sample depth (all but RLE and HTJ2K)
    rejects, in Encode and in Decode, a frame whose BitsStored and BitsAllocated need different bytes per sample -/
def layoutOK (i : Info) : Prop := (i.bs + 7) / 8 = (i.ba + 7) / 8

instance (i : Info) : Decidable (layoutOK i) := by unfold layoutOK; exact inferInstance

/-- Code-shaped model of Encode→Decode through each adapter (`none` = the adapter rejects the frame):
    * rle/rle.go encodeFrame/decodeFrame: bytesAllocated = (BitsAllocated-1)/8+1, odd lengths padded;
    * jpeg/baseline/codec.go: BitsStored > 8 rejected; Encode(frame, w, h, spp, quality) reads one byte per
      sample; decoder.convertToPixels: w·h·comps bytes;
    * jpeg/extended/codec.go: BitsStored > 12 rejected; bitDepth := 8 if BitsStored ≤ 8 else 12; the 12-bit
      coder takes one component only and returns 2 bytes per sample; the 8-bit path is image/jpeg:
      DecodeSimple copies the rows of `image.Gray` tightly (since fix 5946dc5; before, `Pix` was copied
      whole, with stride and rows padded to multiples of 8), RGB is repacked;
    * jpeg/lossless, lossless14sv1: Encode(..., int(BitsStored), ...); samplesToPixels/convertToPixels:
      (precision+7)/8 bytes per sample;
    * jpegls/lossless, nearlossless: BitsStored ∈ 2..16 passed as depth; integersToPixels: 1 byte if ≤ 8 else 2;
    * jpeg2000/lossless, lossy: DefaultEncodeParams(..., int(BitsStored), ...); Decoder.GetPixelData:
      1 byte if bitDepth ≤ 8 else 2;
    * jpeg2000/htj2k: DefaultEncodeParams(..., int(BitsAllocated), ...). -/
def decodedLen (k : Kind) (i : Info) : Option Nat :=
  match k with
  | .rle => let n := i.w * i.h * i.spp * ((i.ba - 1) / 8 + 1); some (n + n % 2)
  | .baseline => if i.bs > 8 ∨ ¬ layoutOK i then none else some (i.w * i.h * i.spp)
  | .extended =>
    if i.bs > 12 ∨ ¬ layoutOK i then none
    else if i.bs ≤ 8 then
      (if i.spp = 1 then some (i.w * i.h) else some (i.w * i.h * 3))
    else (if i.spp = 1 then some (i.w * i.h * 2) else none)
  | .jpegll => if ¬ layoutOK i then none else some (i.w * i.h * i.spp * ((i.bs + 7) / 8))
  | .jls => if i.bs < 2 ∨ i.bs > 16 ∨ ¬ layoutOK i then none else some (i.w * i.h * i.spp * (if i.bs ≤ 8 then 1 else 2))
  | .j2k => if ¬ layoutOK i then none else some (i.w * i.h * i.spp * (if i.bs ≤ 8 then 1 else 2))
  | .htj2k => some (i.w * i.h * i.spp * (if i.ba ≤ 8 then 1 else 2))

/-- the property's quantifier: BitsAllocated ∈ {8,16}, 1 < BitsStored ≤ BitsAllocated, Samples ∈ {1,3} -/
def Info.InScope (i : Info) : Prop :=
  (i.ba = 8 ∨ i.ba = 16) ∧ 1 < i.bs ∧ i.bs ≤ i.ba ∧ (i.spp = 1 ∨ i.spp = 3) ∧ 0 < i.w ∧ 0 < i.h

instance (i : Info) : Decidable i.InScope := by unfold Info.InScope; exact inferInstance

end Frames
