import GdcVerif.GoPrelude
/-! Hand models of the looping helpers that generated J2K kernels call (go2lean `callmap`). -/
namespace J2kAux

/-- encoder.go log2: `result := 0; for n > 1 { n >>= 1; result++ }` (fuel = n suffices) -/
def log2F : Nat → Int → Int
  | 0, _ => 0
  | f + 1, n => if n > 1 then 1 + log2F f (n / 2) else 0

def log2 (n : Int) : Int := log2F n.toNat n

end J2kAux
