import GdcVerif.Model.JpegLsScan
import GdcVerif.Lemmas.Lockstep
/-!
  Proof-friendly twin of `Model/JpegLsScan.lean`: the same JPEG-LS scan procedure (ILV = 0 for one
  component, ILV = 2 for several), but the line window is a pair of lists instead of an array with
  index arithmetic, and encoder and decoder share ONE state type whose sample part is what the
  decoder knows (the reconstructed previous line and the reconstructed part of the current line).
  One step = one regular-mode pixel or one run segment (run + interruption pixel).

  Tied to the real code exactly like the code-shaped model: the driver answers
  `jls-scanL-enc` / `jls-scanL-dec` from this file for the same inputs as `jls-scan-enc/dec`, and
  both are compared with the real `Encode` / `Decode` of both packages on every run.
  The lock-step theorems (`Lemmas/JpegLsLockstep.lean`) are about this model.
-/
namespace JpegLsScanL
open Gen.JpegLs JpegLsRun

/-- one pixel: one sample per component -/
abbrev Pixel := List Int

def cmp (p : Pixel) (k : Nat) : Int := p.getD k 0
def pixAt (l : List Pixel) (i : Nat) : Pixel := l.getD i []

structure LSt where
  prev : List Pixel       -- reconstructed previous line (all zero for the first line)
  done : List Pixel       -- reconstructed pixels of the current line, most recent first
  pplf : Pixel            -- first pixel of the line before the previous one
  ctxs : Array Context
  run : St

/-- left neighbour pixel (Ra); at the line start it is the first pixel of the previous line -/
def leftPixel (s : LSt) : Pixel :=
  match s.done with
  | p :: _ => p
  | [] => pixAt s.prev 0

/-- per component: (context id, Ra, Rb, Rc) at the current column -/
def ids (t : Traits) (s : LSt) (ks : List Nat) : List (Int × Int × Int × Int) :=
  ks.map fun k =>
    let x := s.done.length
    let a := cmp (leftPixel s) k
    let b := cmp (pixAt s.prev x) k
    let c := if x = 0 then cmp s.pplf k else cmp (pixAt s.prev (x - 1)) k
    let d := cmp (pixAt s.prev (min (x + 1) (s.prev.length - 1))) k
    let q := GradientQuantizer.ComputeContext { T1 := t.T1, T2 := t.T2, T3 := t.T3, Near := t.Near } a b c d
    (ComputeContextID q.1 q.2.1 q.2.2, a, b, c)

/-- regular mode, all components of one pixel in turn (shared context table) -/
def encRegs (t : Traits) : List (Int × Int × Int × Int) → List Int → Array Context →
    R (List (Nat × Int) × Array Context × List Int)
  | [], _, cs => .ok ([], cs, [])
  | _ :: _, [], _ => .error .err
  | (qs, a, b, c) :: qrest, x :: xrest, cs =>
    match JpegLsScan.encRegular t cs qs a b c x with
    | .error e => .error e
    | .ok (w1, cs, r) =>
      match encRegs t qrest xrest cs with
      | .error e => .error e
      | .ok (w2, cs, rs) => .ok (w1 ++ w2, cs, r :: rs)

def decRegs (t : Traits) : List (Int × Int × Int × Int) → Array Context → List Bool →
    R (Array Context × List Int × List Bool)
  | [], cs, bs => .ok (cs, [], bs)
  | (qs, a, b, c) :: qrest, cs, bs =>
    match JpegLsScan.decRegular t cs qs a b c bs with
    | .error e => .error e
    | .ok (cs, r, bs) =>
      match decRegs t qrest cs bs with
      | .error e => .error e
      | .ok (cs, rs, bs) => .ok (cs, r :: rs, bs)

/-- is `p` a run pixel (every component within NEAR of the left neighbour)? -/
def isRun (near : Int) (left p : Pixel) (ks : List Nat) : Bool :=
  ks.all fun k => decide (Go.abs (cmp p k - cmp left k) ≤ near)

/-- interruption pixel of a sample-interleaved run: every component with context 0 -/
def encInts (t : Traits) (idx : Int) (left above xi : Pixel) : List Nat → RunModeContext →
    R (List (Nat × Int) × RunModeContext × List Int)
  | [], ctx => .ok ([], ctx, [])
  | k :: ks, ctx =>
    let sign := Gen.JpegLsRun.Sign (cmp above k - cmp left k)
    let e := Traits.ComputeErrorValue t (sign * (cmp xi k - cmp above k))
    match encodeRunInterruption t idx ctx e with
    | .error err => .error err
    | .ok (w1, ctx) =>
      match encInts t idx left above xi ks ctx with
      | .error err => .error err
      | .ok (w2, ctx, rs) => .ok (w1 ++ w2, ctx, Traits.ComputeReconstructedSample t (cmp above k) (e * sign) :: rs)

def decInts (t : Traits) (idx : Int) (left above : Pixel) : List Nat → RunModeContext → List Bool →
    R (RunModeContext × List Int × List Bool)
  | [], ctx, bs => .ok (ctx, [], bs)
  | k :: ks, ctx, bs =>
    match decodeRunInterruption t idx ctx bs with
    | .error err => .error err
    | .ok (e, ctx, bs) =>
      match decInts t idx left above ks ctx bs with
      | .error err => .error err
      | .ok (ctx, rs, bs) =>
        .ok (ctx, Traits.ComputeReconstructedSample t (cmp above k)
          (e * Gen.JpegLsRun.Sign (cmp above k - cmp left k)) :: rs, bs)

/-- interruption sample of a one-component run: context 1 if |Ra − Rb| ≤ NEAR, else context 0 -/
def encInt0 (t : Traits) (idx ra rb xi : Int) (run : St) : R (List (Nat × Int) × St × Int) :=
  if Go.abs (ra - rb) ≤ t.Near then
    let e := Traits.ComputeErrorValue t (xi - ra)
    match encodeRunInterruption t idx run.ctx1 e with
    | .error err => .error err
    | .ok (w1, ctx1) =>
      .ok (w1, { runIndex := decRunIndex idx, ctx0 := run.ctx0, ctx1 := ctx1 }, Traits.ComputeReconstructedSample t ra e)
  else
    let s := Gen.JpegLsRun.Sign (rb - ra)
    let e := Traits.ComputeErrorValue t ((xi - rb) * s)
    match encodeRunInterruption t idx run.ctx0 e with
    | .error err => .error err
    | .ok (w1, ctx0) =>
      .ok (w1, { runIndex := decRunIndex idx, ctx0 := ctx0, ctx1 := run.ctx1 }, Traits.ComputeReconstructedSample t rb (e * s))

def decInt0 (t : Traits) (idx ra rb : Int) (run : St) (bs : List Bool) : R (St × Int × List Bool) :=
  if Go.abs (ra - rb) ≤ t.Near then
    match decodeRunInterruption t idx run.ctx1 bs with
    | .error err => .error err
    | .ok (e, ctx1, bs) =>
      .ok ({ runIndex := decRunIndex idx, ctx0 := run.ctx0, ctx1 := ctx1 }, Traits.ComputeReconstructedSample t ra e, bs)
  else
    match decodeRunInterruption t idx run.ctx0 bs with
    | .error err => .error err
    | .ok (e, ctx0, bs) =>
      .ok ({ runIndex := decRunIndex idx, ctx0 := ctx0, ctx1 := run.ctx1 },
        Traits.ComputeReconstructedSample t rb (e * Gen.JpegLsRun.Sign (rb - ra)), bs)

/-- one encoder step: a regular-mode pixel, or a run segment -/
def encStep (t : Traits) (ks : List Nat) (s : LSt) (todo : List Pixel) : R (List (Nat × Int) × LSt × List Pixel) :=
  match todo with
  | [] => .error .err
  | xi :: rest =>
    let q := ids t s ks
    if q.all (fun i => i.1 == 0) then
      let left := leftPixel s
      let runPx := todo.takeWhile (fun p => isRun t.Near left p ks)
      let after := todo.dropWhile (fun p => isRun t.Near left p ks)
      match encodeRunLength s.run.runIndex runPx.length after.isEmpty with
      | .error e => .error e
      | .ok (idx, ws) =>
        let done := List.replicate runPx.length left ++ s.done
        match after with
        | [] => .ok (ws, { s with done := done, run := { s.run with runIndex := idx } }, [])
        | xj :: rest' =>
          let above := pixAt s.prev (s.done.length + runPx.length)
          if ks.length > 1 then
            match encInts t idx left above xj ks s.run.ctx0 with
            | .error e => .error e
            | .ok (w1, ctx0, rec) =>
              .ok (ws ++ w1, { s with done := rec :: done,
                                      run := { runIndex := decRunIndex idx, ctx0 := ctx0, ctx1 := s.run.ctx1 } }, rest')
          else
            match encInt0 t idx (cmp left 0) (cmp above 0) (cmp xj 0) s.run with
            | .error e => .error e
            | .ok (w1, run, r) => .ok (ws ++ w1, { s with done := [r] :: done, run := run }, rest')
    else
      match encRegs t q xi s.ctxs with
      | .error e => .error e
      | .ok (ws, cs, rec) => .ok (ws, { s with done := rec :: s.done, ctxs := cs }, rest)

/-- one decoder step; `remaining` = pixels of the line not yet reconstructed -/
def decStep (t : Traits) (ks : List Nat) (s : LSt) (remaining : Nat) (bs : List Bool) : R (LSt × Nat × List Bool) :=
  if remaining = 0 then .error .err else
  let q := ids t s ks
  if q.all (fun i => i.1 == 0) then
    let left := leftPixel s
    match decodeRunLength bs s.run.runIndex remaining with
    | .error e => .error e
    | .ok (rl, idx, bs) =>
      let done := List.replicate rl.toNat left ++ s.done
      if rl ≥ remaining then .ok ({ s with done := done, run := { s.run with runIndex := idx } }, 0, bs)
      else
        let above := pixAt s.prev (s.done.length + rl.toNat)
        if ks.length > 1 then
          match decInts t idx left above ks s.run.ctx0 bs with
          | .error e => .error e
          | .ok (ctx0, rec, bs) =>
            .ok ({ s with done := rec :: done,
                          run := { runIndex := decRunIndex idx, ctx0 := ctx0, ctx1 := s.run.ctx1 } },
                 remaining - rl.toNat - 1, bs)
        else
          match decInt0 t idx (cmp left 0) (cmp above 0) s.run bs with
          | .error e => .error e
          | .ok (run, r, bs) => .ok ({ s with done := [r] :: done, run := run }, remaining - rl.toNat - 1, bs)
  else
    match decRegs t q s.ctxs bs with
    | .error e => .error e
    | .ok (cs, rec, bs) => .ok ({ s with done := rec :: s.done, ctxs := cs }, remaining - 1, bs)

/-- one line = the generic variable-length iteration of `Lemmas/Lockstep.lean` -/
def encLine (t : Traits) (ks : List Nat) (s : LSt) (line : List Pixel) : R (List (Nat × Int) × LSt) :=
  Lockstep.encAllV Fail.err (encStep t ks) (line.length + 1) s line

def decLine (t : Traits) (ks : List Nat) (width : Nat) (s : LSt) (bs : List Bool) : R (LSt × List Bool) :=
  Lockstep.decAllV Fail.err (decStep t ks) (width + 1) s width bs

/-- state at the start of the next line -/
def nextLine (s : LSt) : LSt :=
  { prev := s.done.reverse, done := [], pplf := pixAt s.prev 0, ctxs := s.ctxs, run := s.run }

def encLines (t : Traits) (ks : List Nat) : List (List Pixel) → LSt → R (List (Nat × Int) × List (List Pixel))
  | [], _ => .ok ([], [])
  | line :: rest, s =>
    match encLine t ks s line with
    | .error e => .error e
    | .ok (ws, s') =>
      match encLines t ks rest (nextLine s') with
      | .error e => .error e
      | .ok (ws2, recs) => .ok (ws ++ ws2, s'.done.reverse :: recs)

def decLines (t : Traits) (ks : List Nat) (width : Nat) : Nat → LSt → List Bool → R (List (List Pixel) × List Bool)
  | 0, _, bs => .ok ([], bs)
  | n + 1, s, bs =>
    match decLine t ks width s bs with
    | .error e => .error e
    | .ok (s', bs) =>
      match decLines t ks width n (nextLine s') bs with
      | .error e => .error e
      | .ok (recs, bs) => .ok (s'.done.reverse :: recs, bs)

def initL (t : Traits) (width comps : Nat) : LSt :=
  { prev := List.replicate width (List.replicate comps 0), done := [], pplf := List.replicate comps 0,
    ctxs := (JpegLsScan.initSt t).ctxs, run := (JpegLsScan.initSt t).run }

/-- all `WriteBits` calls of the scan, and the reconstructed image the encoder works with -/
def encodeImage (t : Traits) (width comps : Nat) (lines : List (List Pixel)) : R (List (Nat × Int) × List (List Pixel)) :=
  encLines t (List.range comps) lines (initL t width comps)

def decodeImage (t : Traits) (width height comps : Nat) (bs : List Bool) : R (List (List Pixel) × List Bool) :=
  decLines t (List.range comps) width height (initL t width comps) bs

end JpegLsScanL
