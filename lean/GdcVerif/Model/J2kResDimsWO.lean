import GdcVerif.Gen.J2kT2
/-!
  t2/geometry.go resolutionDimsWithOrigin as a function of Int arguments (the loop is the `Nat` recursion; its body is
  the generated kernels splitLengths / isEven / nextCoord).  Used as the call target of generated code that calls
  resolutionDimsWithOrigin (go2lean `callmap`), e.g. precinctPositionKey.
-/
namespace J2kAux

def resDims1 (len x0 : Int) : Nat → Int × Int
  | 0 => (len, x0)
  | n + 1 => resDims1 (Gen.J2kT2.splitLengths len (Gen.J2kT2.isEven x0)) (Gen.J2kT2.nextCoord x0) n

/-- (resW, resH, resX0, resY0); `levelNo = max 0 (numLevels - res)` -/
def resDimsWO (width height x0 y0 numLevels res : Int) : Int × Int × Int × Int :=
  let n := (numLevels - res).toNat
  ((resDims1 width x0 n).1, (resDims1 height y0 n).1, (resDims1 width x0 n).2, (resDims1 height y0 n).2)

end J2kAux
