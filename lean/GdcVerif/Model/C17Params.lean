import GdcVerif.GoPrelude
/-!
  C17 — hand models of the parameter code that is outside the go2lean subset
  (loops, float fields, slices).  Code-shaped; cited file/function in each docstring.
  Tied to the Go code by the `val-*` / `norm-*` correspondence lines of the C17 harness.
-/
namespace C17Model

/-- the `for power < n { power <<= 1 }` loop of jpeg2000/htj2k/parameters.go `nearestPowerOf2`;
    `fuel` = n suffices because `power` at least doubles from 1 on every turn. -/
def npo2Loop (n : Int) : Nat → Int → Int
  | 0, power => power
  | fuel + 1, power => if power < n then npo2Loop n fuel (Go.shl power 1) else power

/-- jpeg2000/htj2k/parameters.go `nearestPowerOf2` -/
def nearestPowerOf2 (n : Int) : Int :=
  if n ≤ 0 then 1
  else
    let power := npo2Loop n n.toNat 1
    let prevPower := Go.shr power 1
    if n - prevPower < power - n then prevPower else power

/-- integer / boolean fields of jpeg2000/lossless/parameters.go `JPEG2000LosslessParameters`
    that `Validate` reads or writes; `targetRatioPos` abstracts `p.TargetRatio > 0` (after the
    `< 0 → 0` reset), `rateLevelsLen` is `len(p.RateLevels)`. -/
structure J2kLosslessParams where
  NumLevels : Int
  NumLayers : Int
  Rate : Int
  rateLevelsLen : Int
  ProgressionOrder : Int
  targetRatioPos : Bool
  AppendLosslessLayer : Bool
deriving Repr, DecidableEq, Inhabited

/-- jpeg2000/lossless/parameters.go `(*JPEG2000LosslessParameters).Validate` (always returns nil) -/
def J2kLosslessParams.Validate (p : J2kLosslessParams) : J2kLosslessParams :=
  let p := if p.NumLevels < 0 || p.NumLevels > 6 then { p with NumLevels := 5 } else p
  let p := if p.NumLayers < 1 then { p with NumLayers := 1 } else p
  let p := if p.Rate < 0 then { p with Rate := 0 } else p
  let p := if p.Rate > 0 && p.rateLevelsLen == 0 then { p with rateLevelsLen := 9 } else p
  let p := if p.ProgressionOrder > 4 then { p with ProgressionOrder := 0 } else p
  let p := if p.AppendLosslessLayer && p.NumLayers < 2 && p.targetRatioPos then { p with NumLayers := 2 } else p
  p

/-- integer fields of jpeg2000/lossy/parameters.go `JPEG2000LossyParameters` touched by `Validate` -/
structure J2kLossyParams where
  Rate : Int
  rateLevelsLen : Int
  NumLevels : Int
  NumLayers : Int
deriving Repr, DecidableEq, Inhabited

/-- jpeg2000/lossy/parameters.go `(*JPEG2000LossyParameters).Validate` (always returns nil);
    the float field `QuantStepScale` is not modelled -/
def J2kLossyParams.Validate (p : J2kLossyParams) : J2kLossyParams :=
  let p := if p.Rate ≤ 0 then { p with Rate := 16 } else p
  let p := if p.rateLevelsLen == 0 then { p with rateLevelsLen := 9 } else p
  let p := if p.NumLevels < 0 || p.NumLevels > 6 then { p with NumLevels := 5 } else p
  let p := if p.NumLayers < 1 then { p with NumLayers := 1 } else p
  p

end C17Model
