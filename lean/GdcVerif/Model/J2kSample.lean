import GdcVerif.GoPrelude
import GdcVerif.Gen.J2kTiles
/-!
  C04 hand models (code-shaped, per sample / per primitive):
  * `readSample`   — encoder.go convertPixelData, body of the inner loop (8-bit and 16-bit branch)
  * `dcShift`      — encoder.go applyDCLevelShift;   `dcUnshift` — decoder.go applyInverseDCLevelShift
  * `writeSample`  — decoder.go getGrayscalePixelData / getInterleavedPixelData, body of the inner loop
  * `container`    — the PROPERTY's reading of the container (low P bits, high bits zero, P-bit two's complement)
  * `BioW`/`BioR`  — t2/packet_header_bitio.go bioWriter / bioReader
  * `encNumPasses`/`decNumPasses`, `encComma`/`decComma`, `writeBitsL`/`readBitsL` — the packet-header codes of
    t2/packet_header_tagtree.go encodeNumPasses/encodeCommaCode/bioWriter.writeBits and
    t2/packet_header.go decodeNumPassesWithReader/decodeCommaCodeWithReader/bioReader.readBits, on bit lists
-/
namespace J2k

/-- bytes per sample: `(p.BitDepth + 7) / 8` -/
def bytesPerSample (P : Int) : Int := Int.tdiv (P + 7) 8

/-- convertPixelData, one sample: `b0` (and `b1` for P > 8) are the container bytes -/
def readSample (P : Int) (signed : Bool) (b0 b1 : Int) : Int :=
  if P ≤ 8 then
    let val := b0
    if signed then
      -- P-bit two's complement in the low P bits (high bits zero or sign-extended)  [fix 81cd602]
      let val := Go.and val (Go.shl 1 P - 1)
      if val ≥ Go.shl 1 (P - 1) then val - Go.shl 1 P else val
    else val
  else
    let val := Go.or b0 (Go.shl b1 8)
    if signed && decide (val ≥ Go.shl 1 (P - 1)) then val - Go.shl 1 P else val

/-- applyDCLevelShift, one sample -/
def dcShift (P : Int) (signed : Bool) (v : Int) : Int :=
  if signed then v else v - Go.shl 1 (P - 1)

/-- applyInverseDCLevelShift, one sample -/
def dcUnshift (P : Int) (signed : Bool) (v : Int) : Int :=
  if signed then v else v + Go.shl 1 (P - 1)

/-- GetPixelData, one sample: clamp, two's complement, little-endian bytes (b0, b1); b1 unused for P ≤ 8 -/
def writeSample (P : Int) (signed : Bool) (v : Int) : Int × Int :=
  let val :=
    if signed then
      let minVal := -(Go.shl 1 (P - 1))
      let maxVal := Go.shl 1 (P - 1) - 1
      let val := if v < minVal then minVal else if v > maxVal then maxVal else v
      if val < 0 then val + Go.shl 1 P else val
    else
      let val := if v < 0 then 0 else v
      let maxVal := Go.shl 1 P - 1
      if val > maxVal then maxVal else val
  if P ≤ 8 then (Go.uwrap8 val, 0) else (Go.uwrap8 val, Go.uwrap8 (Go.shr val 8))

/-- the property's container: sample `s` (in range for P/signed) in the low P bits, high bits zero -/
def container (P : Int) (s : Int) : Int × Int :=
  let u := s % 2 ^ P.toNat
  if P ≤ 8 then (u, 0) else (u % 256, u / 256)

def inRange (P : Int) (signed : Bool) (s : Int) : Prop :=
  if signed then -(2 ^ (P.toNat - 1)) ≤ s ∧ s < 2 ^ (P.toNat - 1) else 0 ≤ s ∧ s < 2 ^ P.toNat

/-- container → encoder front end → (exact core) → decoder back end → container -/
def sampleRoundTrip (P : Int) (signed : Bool) (s : Int) : Int × Int :=
  let c := container P s
  writeSample P signed (dcUnshift P signed (dcShift P signed (readSample P signed c.1 c.2)))

/-! ### packet-header codes on bit lists (MSB first) -/

/-- bioWriter.writeBits(value, n): bits n-1 … 0 -/
def writeBitsL (value : Nat) : Nat → List Bool
  | 0 => []
  | n + 1 => (value / 2 ^ n % 2 == 1) :: writeBitsL value n

/-- bioReader.readBits(n) on a bit list: `v = (v << 1) | bit`; `none` = end of data -/
def readBitsL : Nat → Nat → List Bool → Option (Nat × List Bool)
  | 0, acc, bs => some (acc, bs)
  | _ + 1, _, [] => none
  | n + 1, acc, b :: bs => readBitsL n (2 * acc + (if b then 1 else 0)) bs

/-- encodeNumPasses (t2/packet_header_tagtree.go); `none` = the Go error for n > 164.
    n ≤ 0 takes the `n <= 5` branch in Go (val = 0x0c | (n-3)); modelled only for n ≥ 1. -/
def encNumPasses (n : Nat) : Option (List Bool) :=
  if n == 1 then some [false]
  else if n == 2 then some (writeBitsL 2 2)
  else if n ≤ 5 then some (writeBitsL (0x0c + (n - 3)) 4)
  else if n ≤ 36 then some (writeBitsL (0x1e0 + (n - 6)) 9)
  else if n ≤ 164 then some (writeBitsL (0xff80 + (n - 37)) 16)
  else none

/-- decodeNumPassesWithReader (t2/packet_header.go) -/
def decNumPasses (bs : List Bool) : Option (Nat × List Bool) :=
  match readBitsL 1 0 bs with
  | none => none
  | some (b1, r1) =>
    if b1 == 0 then some (1, r1) else
    match readBitsL 1 0 r1 with
    | none => none
    | some (b2, r2) =>
      if b2 == 0 then some (2, r2) else
      match readBitsL 2 0 r2 with
      | none => none
      | some (v2, r3) =>
        if v2 != 3 then some (3 + v2, r3) else
        match readBitsL 5 0 r3 with
        | none => none
        | some (v5, r4) =>
          if v5 != 31 then some (6 + v5, r4) else
          match readBitsL 7 0 r4 with
          | none => none
          | some (v7, r5) => some (37 + v7, r5)

/-- encodeCommaCode: n ones then a zero -/
def encComma : Nat → List Bool
  | 0 => [false]
  | n + 1 => true :: encComma n

/-- decodeCommaCodeWithReader -/
def decComma : List Bool → Option (Nat × List Bool)
  | [] => none
  | false :: bs => some (0, bs)
  | true :: bs => match decComma bs with
    | none => none
    | some (n, r) => some (n + 1, r)

/-- floorLog2 (t2/packet_header_bitio.go): `if n <= 1 { return 0 }; for n > 1 { n >>= 1; r++ }`; fuel ≥ n -/
def floorLog2F : Nat → Nat → Nat
  | 0, _ => 0
  | f + 1, n => if n ≤ 1 then 0 else 1 + floorLog2F f (n / 2)

def floorLog2 (n : Nat) : Nat := floorLog2F n n

/-- encodeCodeBlockLengths, single codeword segment (no pass of the contribution is terminated before the last:
    classic mode without TERMALL/LAZY; also the fallback branch without per-pass lengths):
    `increment = max(0, floorLog2(len)+1 - (NumLenBits + floorLog2(newPasses)))`, comma code, then `len` in
    `NumLenBits + floorLog2(newPasses)` bits.  Returns the new NumLenBits and the bits.  `numLenBits ≤ 0 ↦ 3`. -/
def encLen (numLenBits dataLen newPasses : Nat) : Nat × List Bool :=
  let l := if numLenBits == 0 then 3 else numLenBits
  let increment := (floorLog2 dataLen + 1) - (l + floorLog2 newPasses)
  let l := l + increment
  (l, encComma increment ++ writeBitsL dataLen (l + floorLog2 newPasses))

/-- decodeDataLengthWithReader, non-TERMALL: comma code, then one length of `NumLenBits + floorLog2(numPasses)` bits
    (bioReader.readBits rejects a width outside 1..32: `none`) -/
def decLen (numLenBits numPasses : Nat) (bits : List Bool) : Option (Nat × Nat × List Bool) :=
  let l := if numLenBits == 0 then 3 else numLenBits
  match decComma bits with
  | none => none
  | some (inc, rest) =>
    let l := l + inc
    let n := l + floorLog2 numPasses
    if n == 0 || n > 32 then none else
    match readBitsL n 0 rest with
    | none => none
    | some (len, rest) => some (len, l, rest)

/-! ### bioWriter / bioReader (t2/packet_header_bitio.go) -/

structure BioW where
  buf : List Nat      -- bytes written (in order)
  out : Nat           -- uint16
  ct  : Nat
deriving Repr, DecidableEq

def BioW.new : BioW := { buf := [], out := 0, ct := 8 }

/-- byteOut: `out = (out << 8) & 0xffff; ct = 7 if out == 0xff00 else 8; WriteByte(byte(out >> 8))` -/
def BioW.byteOut (w : BioW) : BioW :=
  let out := (w.out * 256) % 65536
  { buf := w.buf ++ [out / 256 % 256], out := out, ct := if out == 0xff00 then 7 else 8 }

/-- writeBit: `if ct == 0 { byteOut() }; ct--; if bit != 0 { out |= 1 << ct }`
    (the bit position `ct` of `out` is clear at this point — low byte is filled MSB→LSB — so `|=` is `+`) -/
def BioW.writeBit (w : BioW) (bit : Bool) : BioW :=
  let w := if w.ct == 0 then w.byteOut else w
  let ct := w.ct - 1
  { w with ct := ct, out := if bit then w.out ||| 2 ^ ct else w.out }

def BioW.writeBitsList (w : BioW) : List Bool → BioW
  | [] => w
  | b :: bs => (w.writeBit b).writeBitsList bs

/-- flush: `byteOut(); if ct == 7 { byteOut() }; return buf` -/
def BioW.flush (w : BioW) : List Nat :=
  let w := w.byteOut
  let w := if w.ct == 7 then w.byteOut else w
  w.buf

structure BioR where
  data : List Nat
  buf  : Nat
  ct   : Nat
deriving Repr, DecidableEq

def BioR.new (data : List Nat) : BioR := { data := data, buf := 0, ct := 0 }

/-- byteIn; `none` = errEndOfData -/
def BioR.byteIn (r : BioR) : Option BioR :=
  match r.data with
  | [] => none
  | d :: rest =>
    let buf := (r.buf * 256) % 65536
    some { data := rest, buf := buf ||| d, ct := if buf == 0xff00 then 7 else 8 }

def BioR.readBit (r : BioR) : Option (Bool × BioR) :=
  let r? := if r.ct == 0 then r.byteIn else some r
  match r? with
  | none => none
  | some r => let ct := r.ct - 1; some (r.buf / 2 ^ ct % 2 == 1, { r with ct := ct })

def BioR.readBitsList (r : BioR) : Nat → Option (List Bool × BioR)
  | 0 => some ([], r)
  | n + 1 => match r.readBit with
    | none => none
    | some (b, r) => match r.readBitsList n with
      | none => none
      | some (bs, r) => some (b :: bs, r)

/-- bioReader.alignToByte (HEAD, since fix aaeb057; OpenJPEG opj_bio_inalign):
    `if buf&0xff == 0xff { byteIn }; ct = 0` — the stuffing byte after a full 0xFF byte is consumed too -/
def BioR.alignToByte (r : BioR) : Option BioR :=
  if r.buf % 256 == 255 then
    match r.byteIn with
    | none => none
    | some r' => some { r' with ct := 0 }
  else some { r with ct := 0 }

/-- the shape before fix aaeb057 (kept for the regression example): early return when ct = 0 -/
def BioR.alignToByteOld (r : BioR) : Option BioR :=
  if r.ct == 0 then some r else r.alignToByte

/-- a packet header on the wire followed by `rest`: read `n` bits, align; what is left of the data -/
def headerRoundTrip (align : BioR → Option BioR) (bits : List Bool) (rest : List Nat) : Option (List Bool × List Nat) :=
  match (BioR.new ((BioW.new.writeBitsList bits).flush ++ rest)).readBitsList bits.length with
  | none => none
  | some (bs, r) => match align r with
    | none => none
    | some r' => some (bs, r'.data)

/-- all bit lists of length n -/
def allBits : Nat → List (List Bool)
  | 0 => [[]]
  | n + 1 => (allBits n).flatMap fun l => [false :: l, true :: l]

/-! ### abstract layers -/

/-- a codec layer: encoder, decoder, and the contract on the domain `ok` -/
structure Layer (α β : Type) where
  enc : α → β
  dec : β → α
  ok : α → Prop
  contract : ∀ x, ok x → dec (enc x) = x

/-- sequential composition; the second layer must accept what the first produces -/
def Layer.comp {α β γ : Type} (l1 : Layer α β) (l2 : Layer β γ) (h : ∀ x, l1.ok x → l2.ok (l1.enc x)) : Layer α γ where
  enc := l2.enc ∘ l1.enc
  dec := l1.dec ∘ l2.dec
  ok := l1.ok
  contract := by
    intro x hx
    show l1.dec (l2.dec (l2.enc (l1.enc x))) = x
    rw [l2.contract _ (h x hx), l1.contract x hx]

end J2k
