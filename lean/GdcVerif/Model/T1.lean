import GdcVerif.GoPrelude
import GdcVerif.Model.Mqc
import GdcVerif.Gen.J2kT1
/-!
  Code-shaped executable model of the EBCOT Tier-1 block coder, `jpeg2000/t1/encoder.go` and
  `jpeg2000/t1/decoder.go`, for the code-block styles WITHOUT the LAZY bit (no raw passes; the encoder for all
  32 such styles, the single-segment decoder `DecodeWithBitplane` for the 16 styles that also lack TERMALL):
  RESET, PTERM and SEGSYM are modelled, the VSC bit (0x08) is not read by the Go code at all;
  `nmseDecFracBits = 0`, `roishift = 0`, plain reconstruction (`openJPEGReconstruction = false`):

    `NewT1Encoder(w, h, style).Encode(data, numPasses, 0)`            ↦ `T1.encodeBlock`
    `NewT1Decoder(w, h, style).DecodeWithBitplane(data, numPasses, maxBitplane, 0)` + `GetData()` ↦ `T1.decodeBlock`

  The three coding passes (significance propagation, magnitude refinement, cleanup with run-length mode)
  are transcribed statement by statement; the stripe scan `for k += 4 { for x { for dy < 4 && k+dy < height`
  is the list `coords`.  Context labels come from the REGENERATED tables `Gen.J2kT1.lutCtxnoZc / lutCtxnoSc /
  lutSpb` and `Gen.J2kT1.getMagRefinementContext`; the pass schedule uses the regenerated
  `Gen.J2kT1.isTerminatingPass`.  The MQ coder is `Model/Mqc.lean`.
  Flags are Go `uint32` ↦ `Nat` with `&&&`, `|||`; `f &^ m` ↦ `f - (f &&& m)`.
  `none` = the Go code does not return normally (index out of range in a table / the padded arrays / the MQ coder).
-/
namespace T1
open Gen.J2kT1

/-! ### flags (t1/context.go) -/
def fSig : Nat := 0x0001
def fRefine : Nat := 0x0002
def fVisit : Nat := 0x0004
def fSigN : Nat := 0x0010
def fSigS : Nat := 0x0020
def fSigW : Nat := 0x0040
def fSigE : Nat := 0x0080
def fSigNW : Nat := 0x0100
def fSigNE : Nat := 0x0200
def fSigSW : Nat := 0x0400
def fSigSE : Nat := 0x0800
def fSigNeighbors : Nat := 0x0FF0
def fSign : Nat := 0x1000
def fSignN : Nat := 0x2000
def fSignS : Nat := 0x4000
def fSignW : Nat := 0x8000
def fSignE : Nat := 0x10000

/-- `flags & m != 0` -/
def has (f m : Nat) : Bool := f &&& m != 0
/-- 1 if `flags & m != 0` else 0 -/
def bit (f m : Nat) : Nat := if has f m then 1 else 0
/-- `flags &^ m` -/
def clr (f m : Nat) : Nat := f - (f &&& m)

def tabN (t : Array Int) (i : Nat) : Option Nat := (t[i]?).map Int.toNat

/-- `getZeroCodingContext(flags, orient)`: 9-bit neighbour index (bit 4 unused), table per orientation.
The `idx |= 1<<k` chain is the sum of the disjoint bits. -/
def zcCtx (f orient : Nat) : Option Nat :=
  let idx := bit f fSigNW + 2 * bit f fSigN + 4 * bit f fSigNE + 8 * bit f fSigW + 32 * bit f fSigE +
    64 * bit f fSigSW + 128 * bit f fSigS + 256 * bit f fSigSE
  let orient := if orient > 3 then 0 else orient
  tabN lutCtxnoZc (orient * 512 + idx)

/-- the 8-bit index shared by `getSignCodingContext` and `getSignPrediction` -/
def scIdx (f : Nat) : Nat :=
  (if has f fSigW then 8 + (if has f fSignW then 1 else 0) else 0) +
  (if has f fSigN then 2 + (if has f fSignN then 16 else 0) else 0) +
  (if has f fSigE then 32 + (if has f fSignE then 4 else 0) else 0) +
  (if has f fSigS then 128 + (if has f fSignS then 64 else 0) else 0)

def scCtx (f : Nat) : Option Nat := tabN lutCtxnoSc (scIdx f)
def spb (f : Nat) : Option Nat := tabN lutSpb (scIdx f)
/-- `getMagRefinementContext(flags)` (generated) -/
def mrCtx (f : Nat) : Nat := (getMagRefinementContext (f : Int)).toNat

def CTXRL : Nat := 17
def CTXUNI : Nat := 18
def NUMCONTEXTS : Nat := 19

/-! ### the padded block -/

/-- index of coefficient `(x, y)` in the padded arrays: `(y+1)*(width+2) + (x+1)` -/
def idxOf (w x y : Nat) : Nat := (y + 1) * (w + 2) + (x + 1)

/-- `flags[i] |= m`; `none` = index out of range -/
def orAt (fl : Array Nat) (i m : Nat) : Option (Array Nat) :=
  match fl[i]? with
  | none => none
  | some v => some (fl.setIfInBounds i (v ||| m))

/-- `updateNeighborFlags(x, y, idx)` (identical in encoder and decoder) -/
def updateNeighborFlags (w : Nat) (fl : Array Nat) (x y idx : Nat) : Option (Array Nat) := do
  let f ← fl[idx]?
  let sign := has f fSign
  let pw := w + 2
  let fl ← orAt fl (y * pw + (x + 1)) (fSigS ||| (if sign then fSignS else 0))        -- North
  let fl ← orAt fl ((y + 2) * pw + (x + 1)) (fSigN ||| (if sign then fSignN else 0))  -- South
  let fl ← orAt fl ((y + 1) * pw + x) (fSigE ||| (if sign then fSignE else 0))        -- West
  let fl ← orAt fl ((y + 1) * pw + (x + 2)) (fSigW ||| (if sign then fSignW else 0))  -- East
  let fl ← orAt fl (y * pw + x) fSigSE            -- Northwest
  let fl ← orAt fl (y * pw + (x + 2)) fSigSW      -- Northeast
  let fl ← orAt fl ((y + 2) * pw + x) fSigNE      -- Southwest
  orAt fl ((y + 2) * pw + (x + 2)) fSigNW         -- Southeast

/-- the stripe scan: `for k := 0; k < h; k += 4 { for x := 0; x < w; x++ { for dy := 0; dy < 4 && k+dy < h; dy++ {` -/
def coords (w h : Nat) : List (Nat × Nat) :=
  (List.range ((h + 3) / 4)).flatMap fun s =>
    (List.range w).flatMap fun x =>
      ((List.range 4).filter (fun dy => s * 4 + dy < h)).map fun dy => (x, s * 4 + dy)

/-- stripes × columns of the cleanup pass: `(k, i)` -/
def columns (w h : Nat) : List (Nat × Nat) :=
  (List.range ((h + 3) / 4)).flatMap fun s => (List.range w).map fun i => (s * 4, i)

/-- `(absVal >> bitplane) & 1` -/
def magBit (v : Int) (bp : Nat) : Nat := (v.natAbs >>> bp) % 2

/-! ### encoder passes -/

structure EncSt where
  flags : Array Nat
  mq : Mqc.Enc

/-- significance and sign coding of a sample that becomes significant (shared tail of SPP and cleanup):
`f` is the flag word read at the top of the loop body -/
def encSign (w : Nat) (data : Array Int) (st : EncSt) (f x y idx : Nat) : Option EncSt := do
  let v ← data[idx]?
  let signBit := if v < 0 then 1 else 0
  let fl ← if v < 0 then orAt st.flags idx fSign else some st.flags
  let signCtx ← scCtx f
  let signPred ← spb f
  let mq ← Mqc.encode st.mq (signBit ^^^ signPred) signCtx
  let fl ← orAt fl idx fSig
  let fl ← updateNeighborFlags w fl x y idx
  some { flags := fl, mq := mq }

/-- `encodeSigPropPass(raw = false)` -/
def encSigProp (w h orient bp : Nat) (data : Array Int) (st : EncSt) : Option EncSt :=
  (coords w h).foldlM (fun st (x, y) => do
    let idx := idxOf w x y
    let f ← st.flags[idx]?
    if has f fSig then some st
    else if ¬ has f fSigNeighbors then some st
    else
      let v ← data[idx]?
      let isSig := magBit v bp
      let ctx ← zcCtx f orient
      let mq ← Mqc.encode st.mq isSig ctx
      let fl ← orAt st.flags idx fVisit
      let st := { flags := fl, mq := mq }
      if isSig ≠ 0 then encSign w data st f x y idx else some st) st

/-- `encodeMagRefPass(raw = false)` -/
def encMagRef (w h bp : Nat) (data : Array Int) (st : EncSt) : Option EncSt :=
  (coords w h).foldlM (fun st (x, y) => do
    let idx := idxOf w x y
    let f ← st.flags[idx]?
    if ¬ has f fSig ∨ has f fVisit then some st
    else
      let v ← data[idx]?
      let mq ← Mqc.encode st.mq (magBit v bp) (mrCtx f)
      let fl ← orAt st.flags idx fRefine
      some { flags := fl, mq := mq }) st

/-- one sample of the cleanup pass (normal path, or the tail of the run-length path with `partial`):
returns the new state and the new value of `partial` -/
def encCleanSample (w orient bp : Nat) (data : Array Int) (st : EncSt) (x y : Nat) (partial_ : Bool) :
    Option (EncSt × Bool) := do
  let idx := idxOf w x y
  let f ← st.flags[idx]?
  if has f fVisit ∨ has f fSig then
    some ({ st with flags := st.flags.setIfInBounds idx (clr f fVisit) }, partial_)
  else
    let v ← data[idx]?
    let (isSig, st, partial_) ←
      (if partial_ then some (1, st, false)
       else do
         let ctx ← zcCtx f orient
         let mq ← Mqc.encode st.mq (magBit v bp) ctx
         some (magBit v bp, { st with mq := mq }, false))
    let st ← if isSig ≠ 0 then encSign w data st f x y idx else some st
    let f' ← st.flags[idx]?
    some ({ st with flags := st.flags.setIfInBounds idx (clr f' fVisit) }, partial_)

/-- the run-length scan of one column: `(canUseRL, rlSigPos)`; `rlSigPos = 4` stands for `-1` -/
def rlScan (w bp : Nat) (data : Array Int) (fl : Array Nat) (k i : Nat) : Option (Bool × Nat) :=
  (List.range 4).foldlM (fun (acc : Bool × Nat × Bool) dy => do   -- (canUseRL, rlSigPos, stopped)
    let (can, pos, stopped) := acc
    if stopped then some acc else
    let idx := idxOf w i (k + dy)
    let f ← fl[idx]?
    if has f fVisit then some (false, pos, true)
    else if has f fSig ∨ has f fSigNeighbors then some (false, pos, true)
    else
      let v ← data[idx]?
      some (can, if pos = 4 ∧ magBit v bp ≠ 0 then dy else pos, false)) ((true, 4, false) : Bool × Nat × Bool)
  |>.map fun (r : Bool × Nat × Bool) => (r.1, r.2.1)

/-- `encodeCleanupPass()` -/
def encCleanup (w h orient bp : Nat) (data : Array Int) (st : EncSt) : Option EncSt :=
  (columns w h).foldlM (fun st (k, i) => do
    let normal (st : EncSt) : Option EncSt :=
      ((List.range 4).filter (fun dy => k + dy < h)).foldlM (fun st dy => do
        let (st, _) ← encCleanSample w orient bp data st i (k + dy) false
        some st) st
    if k + 3 < h then
      let (can, pos) ← rlScan w bp data st.flags k i
      if can then
        let rlBit := if pos < 4 then 1 else 0
        let mq ← Mqc.encode st.mq rlBit CTXRL
        if rlBit = 0 then some { st with mq := mq }
        else
          let mq ← Mqc.encode mq ((pos >>> 1) % 2) CTXUNI
          let mq ← Mqc.encode mq (pos % 2) CTXUNI
          let r ← ((List.range 4).filter (fun dy => pos ≤ dy)).foldlM (fun (acc : EncSt × Bool) dy =>
            encCleanSample w orient bp data acc.1 i (k + dy) acc.2) ({ st with mq := mq }, true)
          some r.1
      else normal st
    else normal st) st

/-- `findMaxBitplane()`; `none` = all zero (Go: -1) -/
def findMaxBitplane (data : Array Int) : Option Nat :=
  let m := data.foldl (fun m v => max m v.natAbs) 0
  if m = 0 then none else some (Nat.log2 m)

/-- `t1.flags[i] &^= T1Visit` for all i -/
def clearVisit (fl : Array Nat) : Array Nat := fl.map (fun f => clr f fVisit)

def initCtx (e : Mqc.Enc) : Option Mqc.Enc := do
  let e ← Mqc.setContextState e CTXUNI 46
  let e ← Mqc.setContextState e CTXRL 3
  Mqc.setContextState e 0 4

/-- style bits (`t1.resetctx`, `t1.segmentation`, `cblkstyle & CblkStylePterm`) -/
def styReset (style : Nat) : Bool := style / 2 % 2 = 1
def styPterm (style : Nat) : Bool := style / 16 % 2 = 1
def stySegsym (style : Nat) : Bool := style / 32 % 2 = 1

/-- the pass loop of `Encode` for a style without the LAZY bit (`raw` is always false): `RestartInitEnc` after
a terminated pass, `SegmarkEnc` after a cleanup pass under SEGSYM, `ErtermEnc` (PTERM) or `FlushToOutput` at a
terminated pass, context reset under RESET; fuel = number of remaining loop iterations -/
def encLoop (w h orient cblkstyle : Nat) (data : Array Int) (maxBitplane numPasses : Nat) :
    Nat → EncSt → (bitplane : Int) → (passIdx passType : Nat) → (prevTerminated : Bool) → Option (EncSt × Bool)
  | 0, st, _, _, _, pt => some (st, pt)
  | fuel + 1, st, bitplane, passIdx, passType, prevTerminated =>
    if bitplane ≥ 0 ∧ passIdx < numPasses then
      let bp := bitplane.toNat
      let startBitplane := passType = 0 ∨ (passType = 2 ∧ passIdx = 0)
      let st := if startBitplane then { st with flags := clearVisit st.flags } else st
      -- if prevTerminated { RestartInitEnc() }
      let st := if prevTerminated then { st with mq := Mqc.restartInitEnc st.mq } else st
      match (match passType with
        | 0 => encSigProp w h orient bp data st
        | 1 => encMagRef w h bp data st
        | _ => (encCleanup w h orient bp data st).bind fun st =>
                 if stySegsym cblkstyle then (Mqc.segmarkEnc st.mq).map (fun m => { st with mq := m }) else some st) with
      | none => none
      | some st =>
        let terminated := isTerminatingPass bitplane (maxBitplane : Int) (passType : Int) (cblkstyle : Int)
        match (if terminated then
                 (if styPterm cblkstyle then Mqc.ertermEnc st.mq else Mqc.flushToOutput st.mq).map (fun m => { st with mq := m })
               else some st) with
        | none => none
        | some st =>
          match (if styReset cblkstyle then (initCtx (Mqc.resetContexts st.mq)).map (fun m => { st with mq := m }) else some st) with
          | none => none
          | some st =>
            if passType = 2 then encLoop w h orient cblkstyle data maxBitplane numPasses fuel st (bitplane - 1) (passIdx + 1) 0 terminated
            else encLoop w h orient cblkstyle data maxBitplane numPasses fuel st bitplane (passIdx + 1) (passType + 1) terminated
    else some (st, prevTerminated)

/-- the padded copy of the coefficient block -/
def padBlock (w h : Nat) (coeffs : List Int) : Array Int :=
  (Array.replicate ((w + 2) * (h + 2)) (0 : Int)) |> fun a =>
    (List.range h).foldl (fun a y => (List.range w).foldl (fun a x =>
      a.setIfInBounds (idxOf w x y) (coeffs.getD (y * w + x) 0)) a) a

inductive Outcome (α : Type) where
  | ok : α → Outcome α
  | err : Outcome α
  | panic : Outcome α

/-- `NewT1Encoder(w, h, style)`, `SetOrientation(orient)`, `Encode(coeffs, numPasses, 0)` (style without LAZY) -/
def encodeBlock (w h orient style : Nat) (coeffs : List Int) (numPasses : Nat) : Outcome (List Nat) :=
  if coeffs.length ≠ w * h then .err else
  let data := padBlock w h coeffs
  match findMaxBitplane data with
  | none =>
    match Mqc.flush (Mqc.Enc.new NUMCONTEXTS) with
    | some (_, bytes) => .ok bytes
    | none => .panic
  | some mb =>
    match initCtx (Mqc.Enc.new NUMCONTEXTS) with
    | none => .panic
    | some mq =>
      let st : EncSt := { flags := Array.replicate ((w + 2) * (h + 2)) 0, mq := mq }
      match encLoop w h orient style data mb numPasses (numPasses + 1) st mb 0 2 false with
      | none => .panic
      | some (st, prevTerminated) =>
        if prevTerminated then .ok (Mqc.getBuffer st.mq)
        else match Mqc.flush st.mq with
          | some (_, bytes) => .ok bytes
          | none => .panic

/-! ### decoder passes -/

structure DecSt where
  flags : Array Nat
  data : Array Int
  mq : Mqc.Dec

def decSign (w bp : Nat) (st : DecSt) (f x y idx : Nat) : Option DecSt := do
  let signCtx ← scCtx f
  let (signBit, mq) ← Mqc.decode st.mq signCtx
  let signPred ← spb f
  let sign := signBit ^^^ signPred
  let fl ← if sign ≠ 0 then orAt st.flags idx fSign else some st.flags
  -- reconstructSignificantValue(bitplane, sign), plain mode: ±(1 << bitplane)
  let val : Int := Go.wrap32 ((2 : Int) ^ bp)
  if idx ≥ st.data.size then none else
  let data := st.data.setIfInBounds idx (if sign ≠ 0 then Go.wrap32 (-val) else val)
  let fl ← orAt fl idx fSig
  let fl ← updateNeighborFlags w fl x y idx
  some { flags := fl, data := data, mq := mq }

/-- `decodeSigPropPass(raw = false)` -/
def decSigProp (w h orient bp : Nat) (st : DecSt) : Option DecSt :=
  (coords w h).foldlM (fun st (x, y) => do
    let idx := idxOf w x y
    let f ← st.flags[idx]?
    if has f fSig then some st
    else if ¬ has f fSigNeighbors then some st
    else
      let ctx ← zcCtx f orient
      let (b, mq) ← Mqc.decode st.mq ctx
      let fl ← orAt st.flags idx fVisit
      let st := { st with flags := fl, mq := mq }
      if b ≠ 0 then decSign w bp st f x y idx else some st) st

/-- `refineReconstructedValue(current, bitplane, bit)`, plain mode -/
def refine (current : Int) (bp b : Nat) : Int :=
  if b = 0 then current
  else if current ≥ 0 then Go.wrap32 (current + Go.wrap32 ((2 : Int) ^ bp))
  else Go.wrap32 (current - Go.wrap32 ((2 : Int) ^ bp))

/-- `decodeMagRefPass(raw = false)` -/
def decMagRef (w h bp : Nat) (st : DecSt) : Option DecSt :=
  (coords w h).foldlM (fun st (x, y) => do
    let idx := idxOf w x y
    let f ← st.flags[idx]?
    if ¬ has f fSig ∨ has f fVisit then some st
    else
      let (b, mq) ← Mqc.decode st.mq (mrCtx f)
      let cur ← st.data[idx]?
      let data := st.data.setIfInBounds idx (refine cur bp b)
      let fl ← orAt st.flags idx fRefine
      some { flags := fl, data := data, mq := mq }) st

def decCleanSample (w orient bp : Nat) (st : DecSt) (x y : Nat) (partial_ : Bool) : Option (DecSt × Bool) := do
  let idx := idxOf w x y
  let f ← st.flags[idx]?
  if has f fVisit ∨ has f fSig then
    some ({ st with flags := st.flags.setIfInBounds idx (clr f fVisit) }, partial_)
  else
    let (isSig, st, partial_) ←
      (if partial_ then some (1, st, false)
       else do
         let ctx ← zcCtx f orient
         let (b, mq) ← Mqc.decode st.mq ctx
         some (b, { st with mq := mq }, false))
    let st ← if isSig ≠ 0 then decSign w bp st f x y idx else some st
    let f' ← st.flags[idx]?
    some ({ st with flags := st.flags.setIfInBounds idx (clr f' fVisit) }, partial_)

/-- the decoder's run-length eligibility scan -/
def rlScanDec (w : Nat) (fl : Array Nat) (k i : Nat) : Option Bool :=
  (List.range 4).foldlM (fun (acc : Bool × Bool) dy => do   -- (canUseRL, stopped)
    if acc.2 then some acc else
    let f ← fl[idxOf w i (k + dy)]?
    if has f fVisit then some (false, true)
    else if has f fSig ∨ has f fSigNeighbors then some (false, true)
    else some acc) ((true, false) : Bool × Bool)
  |>.map fun (r : Bool × Bool) => r.1

/-- `decodeCleanupPass()` -/
def decCleanup (w h orient bp : Nat) (st : DecSt) : Option DecSt :=
  (columns w h).foldlM (fun st (k, i) => do
    let normal (st : DecSt) : Option DecSt :=
      ((List.range 4).filter (fun dy => k + dy < h)).foldlM (fun st dy => do
        let (st, _) ← decCleanSample w orient bp st i (k + dy) false
        some st) st
    if k + 3 < h then
      let can ← rlScanDec w st.flags k i
      if can then
        let (rlBit, mq) ← Mqc.decode st.mq CTXRL
        if rlBit = 0 then some { st with mq := mq }
        else
          let (b1, mq) ← Mqc.decode mq CTXUNI
          let (b2, mq) ← Mqc.decode mq CTXUNI
          let runlen := b1 * 2 + b2          -- (bit1 << 1) | bit2
          let r ← ((List.range 4).filter (fun dy => runlen ≤ dy)).foldlM (fun (acc : DecSt × Bool) dy =>
            decCleanSample w orient bp acc.1 i (k + dy) acc.2) ({ st with mq := mq }, true)
          some r.1
      else normal st
    else normal st) st

def initCtxDec (d : Mqc.Dec) : Option Mqc.Dec :=
  let set (d : Mqc.Dec) (cx st : Nat) : Option Mqc.Dec :=
    if cx < d.ctx.size then some { d with ctx := d.ctx.setIfInBounds cx (Mqc.u8 st) } else none
  do
    let d ← set d CTXUNI 46
    let d ← set d CTXRL 3
    set d 0 4

/-- `ResetContexts()` + the three `SetContextState` calls -/
def resetCtxDec (d : Mqc.Dec) : Option Mqc.Dec := initCtxDec { d with ctx := Array.replicate d.ctx.size 0 }

/-- `for i := 0; i < 4; i++ { mqc.Decode(CTXUNI) }` -/
def segmarkDec (d : Mqc.Dec) : Option Mqc.Dec := do
  let (_, d) ← Mqc.decode d CTXUNI
  let (_, d) ← Mqc.decode d CTXUNI
  let (_, d) ← Mqc.decode d CTXUNI
  let (_, d) ← Mqc.decode d CTXUNI
  some d

/-- the pass loop of `DecodeWithOptions` for a style without LAZY and TERMALL (`raw = false`, `useTERMALL = false`):
four discarded `CTXUNI` decisions after a cleanup pass under SEGSYM, context reset between passes under RESET -/
def decLoop (w h orient style : Nat) (numPasses : Nat) :
    Nat → DecSt → (bitplane : Int) → (passIdx passType : Nat) → Option DecSt
  | 0, st, _, _, _ => some st
  | fuel + 1, st, bitplane, passIdx, passType =>
    if bitplane ≥ 0 ∧ passIdx < numPasses then
      let bp := bitplane.toNat
      let startBitplane := passType = 0 ∨ (passType = 2 ∧ passIdx = 0)
      let st := if startBitplane then { st with flags := clearVisit st.flags } else st
      match (match passType with
        | 0 => decSigProp w h orient bp st
        | 1 => decMagRef w h bp st
        | _ => (decCleanup w h orient bp st).bind fun st =>
                 if stySegsym style then (segmarkDec st.mq).map (fun m => { st with mq := m }) else some st) with
      | none => none
      | some st =>
        match (if styReset style ∧ passIdx + 1 < numPasses then (resetCtxDec st.mq).map (fun m => { st with mq := m })
               else some st) with
        | none => none
        | some st =>
          if passType = 2 then decLoop w h orient style numPasses fuel st (bitplane - 1) (passIdx + 1) 0
          else decLoop w h orient style numPasses fuel st bitplane (passIdx + 1) (passType + 1)
    else some st

/-- `NewT1Decoder(w, h, style)`, `SetOrientation(orient)`, `DecodeWithBitplane(bytes, numPasses, maxBitplane, 0)`, `GetData()` -/
def decodeBlock (w h orient style numPasses : Nat) (maxBitplane : Int) (bytes : List Nat) : Outcome (List Int) :=
  if bytes.length = 0 then .err else
  match Mqc.Dec.new bytes NUMCONTEXTS with
  | none => .panic
  | some mq =>
    match initCtxDec mq with
    | none => .panic
    | some mq =>
      let st : DecSt := { flags := Array.replicate ((w + 2) * (h + 2)) 0,
                          data := Array.replicate ((w + 2) * (h + 2)) 0, mq := mq }
      match decLoop w h orient style numPasses (numPasses + 1) st maxBitplane 0 2 with
      | none => .panic
      | some st =>
        match ((List.range h).flatMap fun y => (List.range w).map fun x => idxOf w x y).mapM (fun i => st.data[i]?) with
        | some out => .ok out
        | none => .panic

end T1
