import GdcVerif.Model.JpegLossless
/-!
  Scan-level composition of the kernel model: `encodeScan` / `decodeScan` of
  /repo/jpeg/lossless and /repo/jpeg/lossless14sv1 (row / column / component loops, sample
  planes, neighbour reads exactly where the Go code reads them), `pixelsToSamples` and
  `samplesToPixels`.  Tied to the real `Encode` / `Decode` by the ops `jll-scan-enc`,
  `jll-scan-dec`, `sv1-scan-enc`, `sv1-scan-dec` (the harness cuts the entropy-coded segment and
  the DHT out of the real stream).  All components use table 0, as the repo's encoders emit.
-/
namespace JLL

/-- `pixelsToSamples`: P ≤ 8 one byte per sample, else two bytes little-endian; interleaved -/
def pixelsToSamples (P w h nc : Nat) (pix : Array Nat) : Outcome (Array (Array Int)) :=
  let n := w * h
  let bps := if P ≤ 8 then 1 else 2
  if pix.size < n * nc * bps then .err else      -- ErrBufferTooSmall (checked in Encode)
  (Array.range nc).mapM fun c =>
    (Array.range n).mapM fun i =>
      let o := (i * nc + c) * bps
      if P ≤ 8 then
        match pix[o]? with
        | some v => Outcome.ok (v : Int)
        | none => .panic
      else
        match pix[o]?, pix[o + 1]? with
        | some lo, some hi => Outcome.ok (Go.or (lo : Int) (Go.shl (hi : Int) 8))
        | _, _ => .panic

/-- `samplesToPixels` / `convertToPixels` -/
def samplesToPixels (P w h nc : Nat) (s : Array (Array Int)) : Outcome (List Nat) :=
  let n := w * h
  (List.range n).foldlM (init := ([] : List Nat)) (fun acc i =>
    (List.range nc).foldlM (init := acc) (fun acc c =>
      match s[c]? with
      | none => .panic
      | some plane =>
        match plane[i]? with
        | none => .panic
        | some v =>
          if P ≤ 8 then .ok (((v % 256).toNat) :: acc)
          else .ok ((((Go.shr v 8) % 256).toNat) :: ((v % 256).toNat) :: acc))) >>= fun r => .ok r.reverse

/-- a sample read `samples[comp][idx]` (panic when out of range, as in Go) -/
def readS (s : Array (Array Int)) (c : Nat) (idx : Int) : Outcome Int :=
  if idx < 0 then .panic else
  match s[c]? with
  | none => .panic
  | some plane => match plane[idx.toNat]? with
    | none => .panic
    | some v => .ok v

/-- the neighbour reads of the scan loops: each only where the Go code performs it
    (predictor 1's `ra = samples[(row-1)*w+col]` at col = 0 is the same read as `up`) -/
def readNb (s : Array (Array Int)) (c : Nat) (w row col : Int) : Outcome Nb := do
  let left ← if col > 0 then readS s c (row * w + (col - 1)) else pure 0
  let up ← if row > 0 then readS s c ((row - 1) * w + col) else pure 0
  let upLeft ← if row > 0 ∧ col > 0 then readS s c ((row - 1) * w + (col - 1)) else pure 0
  pure ⟨left, up, upLeft⟩

/-- scan positions in the order of the three nested loops: row, col, comp -/
def scanOrder (w h nc : Nat) : List (Nat × Nat × Nat) :=
  (List.range h).flatMap fun row => (List.range w).flatMap fun col => (List.range nc).map fun c => (row, col, c)

/-- `encodeScan` (sv1 = false: jpeg/lossless with `predictor`; sv1 = true: lossless14sv1) -/
def encodeScan (sv1 : Bool) (P predictor w h nc : Nat) (codes : Array (Nat × Nat))
    (s : Array (Array Int)) : Outcome (List Nat) := do
  let r ← (scanOrder w h nc).foldlM (init := (({} : HuffEnc), ([] : List (List Nat)))) fun (e, out) (row, col, c) => do
    let sample ← readS s c ((row : Int) * w + col)
    let nb ← readNb s c w row col
    let predicted := if sv1 then sv1Predicted P row col nb else encPredicted P predictor row col nb
    let diff := encDiff sample predicted
    let (cat, bits) := encodeLosslessDifference diff
    match codes[cat.toNat]? with
    | none => Outcome.panic
    | some (code, len) =>
      let r1 := e.writeBits code len
      let r2 := if cat > 0 ∧ cat ≠ 16 then r1.1.writeBits bits.toNat cat.toNat else (r1.1, [])
      pure (r2.1, r2.2 :: r1.2 :: out)
  let fl := r.1.flush
  pure ((fl.2 :: r.2).reverse.flatten)

/-- store into the sample plane -/
def writeS (s : Array (Array Int)) (c : Nat) (idx : Nat) (v : Int) : Outcome (Array (Array Int)) :=
  match s[c]? with
  | none => .panic
  | some plane => if idx < plane.size then .ok (s.setIfInBounds c (plane.setIfInBounds idx v)) else .panic

/-- `decodeScan` after scan collection: `data` is the entropy-coded segment as collected (still stuffed) -/
def decodeScan (sv1 : Bool) (P predictor w h nc : Nat) (t : Table) (data : List Nat) :
    Outcome (Array (Array Int)) := do
  let init : Array (Array Int) := Array.replicate nc (Array.replicate (w * h) 0)
  let r ← (scanOrder w h nc).foldlM (init := (({ data := data } : HuffDec), init)) fun (d, s) (row, col, c) => do
    let (category, d1) ← d.decode t
    -- lossless: `if category > 0 { ReceiveLosslessDifference }`; sv1 calls it always (same result for 0)
    let (diff, d2) ←
      if category = 0 then pure ((0 : Int), d1)
      else if category = 16 then pure (receiveLosslessDifference 16 0, d1)
      else match d1.readBits category with
        | none => Outcome.err
        | some (v, d2) => pure (if category ≥ 64 then (v : Int) else receiveLosslessDifference category v, d2)
    let nb ← readNb s c w row col
    let predicted := if sv1 then sv1Predicted P row col nb else decPredicted P predictor row col nb
    let sample := if sv1 then sv1DecSample P predicted diff else decSample P predicted diff
    let s' ← writeS s c (row * w + col) sample
    pure (d2, s')
  pure r.2

end JLL
