import GdcVerif.GoPrelude
/-!
  C05 hand models (code-shaped) of jpeg2000/lossless/parameters.go and codec.go, and of the last-layer logic of
  jpeg2000/encoder.go finalizeBlock / finalizeRDCodeBlockLayers + appendRDLosslessLayer.

  float64 values (`TargetRatio`, `LayerRates`) are modelled as exact fractions `num/den` with `den > 0`
  (`Frac`): the code only compares them with 0 and forms `rate·bitsStored/bitsAllocated`; NaN/±Inf inputs
  are outside the property's quantifier (TargetRatio ∈ [0..100]).
-/
namespace J2kL

structure Frac where
  num : Int
  den : Int
deriving Repr, DecidableEq

def Frac.pos (f : Frac) : Bool := decide (f.num > 0)      -- den > 0 invariant
def Frac.neg (f : Frac) : Bool := decide (f.num < 0)
def Frac.zero : Frac := ⟨0, 1⟩
def Frac.ofInt (v : Int) : Frac := ⟨v, 1⟩

/-- lossless.JPEG2000LosslessParameters -/
structure LParams where
  NumLevels : Int
  AllowMCT : Bool
  Rate : Int
  RateLevels : List Int
  ProgressionOrder : Int          -- uint8
  NumLayers : Int
  TargetRatio : Frac
  UsePCRDOpt : Bool
  AppendLosslessLayer : Bool
deriving Repr, DecidableEq

def defaultRateLevels : List Int := [1280, 640, 320, 160, 80, 40, 20, 10, 5]

/-! parameters.go Validate, statement by statement (always returns nil; adjusts the object) -/
def v1 (p : LParams) : LParams := if p.NumLevels < 0 ∨ p.NumLevels > 6 then { p with NumLevels := 5 } else p
def v2 (p : LParams) : LParams := if p.NumLayers < 1 then { p with NumLayers := 1 } else p
def v3 (p : LParams) : LParams := if p.Rate < 0 then { p with Rate := 0 } else p
def v4 (p : LParams) : LParams :=
  if p.Rate > 0 ∧ p.RateLevels.length = 0 then { p with RateLevels := defaultRateLevels } else p
def v5 (p : LParams) : LParams := if p.ProgressionOrder > 4 then { p with ProgressionOrder := 0 } else p
def v6 (p : LParams) : LParams := if p.TargetRatio.neg then { p with TargetRatio := Frac.zero } else p
def v7 (p : LParams) : LParams :=
  if p.AppendLosslessLayer ∧ p.NumLayers < 2 ∧ p.TargetRatio.pos then { p with NumLayers := 2 } else p
def validate (p : LParams) : LParams := v7 (v6 (v5 (v4 (v3 (v2 (v1 p))))))

/-- codec.go rateToTargetRatio -/
def rateToTargetRatio (rate bitsStored bitsAllocated : Int) : Frac :=
  if rate ≤ 0 then Frac.zero else
  let bitsAllocated := if bitsAllocated ≤ 0 then bitsStored else bitsAllocated
  if bitsStored ≤ 0 ∨ bitsAllocated ≤ 0 then Frac.ofInt rate
  else ⟨rate * bitsStored, bitsAllocated⟩

/-- codec.go layersFromRateLevels -/
def layersFromRateLevels (rate : Int) (levels : List Int) : Int :=
  if rate ≤ 0 ∨ levels.length = 0 then 1 else
  let layers := levels.foldl (fun l v => if v > rate then l + 1 else l) 1
  if layers < 1 then 1 else layers

/-- the `for … { if v > rate { append; continue }; break }` prefix loop of openJPEGLayerRates -/
def ratePrefix (rate : Int) : List Int → List Frac
  | [] => []
  | v :: rest => if v > rate then Frac.ofInt v :: ratePrefix rate rest else []

/-- codec.go openJPEGLayerRates (nil ↦ []) -/
def openJPEGLayerRates (rate : Int) (levels : List Int) (bitsStored bitsAllocated : Int) (appendLossless : Bool) : List Frac :=
  if rate ≤ 0 then [] else
  let rates := ratePrefix rate levels
  let bitsAllocated := if bitsAllocated ≤ 0 then bitsStored else bitsAllocated
  let rates :=
    if bitsStored ≤ 0 ∨ bitsAllocated ≤ 0 then rates ++ [Frac.ofInt rate]
    else rates ++ [⟨rate * bitsStored, bitsAllocated⟩]
  if appendLossless then rates ++ [Frac.zero] else rates

/-- the fields of jpeg2000.EncodeParams that configureLosslessEncodeParams sets (DefaultEncodeParams: Lossless = true) -/
structure EParams where
  Lossless : Bool
  NumLevels : Int
  ProgressionOrder : Int
  NumLayers : Int
  TargetRatio : Frac
  UsePCRDOpt : Bool
  EnableMCT : Bool
  AppendLosslessLayer : Bool
  LayerRates : List Frac
deriving Repr, DecidableEq

/-- codec.go configureLosslessEncodeParams (after Validate) -/
def configure (bitsStored bitsAllocated : Int) (lp : LParams) : EParams :=
  let targetRatio :=
    if !lp.TargetRatio.pos && decide (lp.Rate > 0) then rateToTargetRatio lp.Rate bitsStored bitsAllocated
    else lp.TargetRatio
  let numLayers := lp.NumLayers
  let numLayers := if targetRatio.pos ∧ numLayers ≤ 1 then layersFromRateLevels lp.Rate lp.RateLevels else numLayers
  let numLayers := if targetRatio.pos ∧ lp.AppendLosslessLayer then numLayers + 1 else numLayers
  { Lossless := true, NumLevels := lp.NumLevels, ProgressionOrder := lp.ProgressionOrder, NumLayers := numLayers,
    TargetRatio := targetRatio, UsePCRDOpt := lp.UsePCRDOpt || targetRatio.pos, EnableMCT := lp.AllowMCT,
    AppendLosslessLayer := lp.AppendLosslessLayer,
    LayerRates := openJPEGLayerRates lp.Rate lp.RateLevels bitsStored bitsAllocated lp.AppendLosslessLayer }

/-- Codec.Encode: Validate then configure -/
def encodeParams (bitsStored bitsAllocated : Int) (p : LParams) : EParams :=
  configure bitsStored bitsAllocated (validate p)

/-- the property's scope: the final lossless layer is kept, or no rate target is requested -/
def inScope (p : LParams) : Prop := p.AppendLosslessLayer = true ∨ (p.Rate = 0 ∧ p.TargetRatio.num = 0)

/-- encoder.go initRDLayerConfig / applyRateDistortion: `appendLossless` -/
def appendLosslessFlag (e : EParams) : Bool :=
  (e.AppendLosslessLayer && decide (e.NumLayers > 1)) || (e.Lossless && decide (e.NumLayers > 1))

/-- encoder.go encodeCodeBlock: `useLayered := NumLayers > 1 || TargetRatio > 0` (otherwise every pass of the
    block goes into the single layer: encodeSingleLayerCodeBlock) -/
def useLayered (e : EParams) : Bool := decide (e.NumLayers > 1) || e.TargetRatio.pos

/-! ### last-layer logic over abstract pass lists -/

/-- the per-layer loop of finalizeBlock / allocateRDLayerData: `alloc` = GetPassesForLayer(idx, ·),
    `n` = len(cb.Passes), `rate k` = cumulative bytes after k passes (Passes[k-1].Rate or ActualBytes),
    `total` = len(CompleteData); returns LayerPasses and the (start, end) byte slice of each layer -/
def layerLoop (rate : Int → Int) (n total : Int) : List Int → Int → List (Int × Int × Int)
  | [], _ => []
  | a :: rest, prevEnd =>
    let passCount := if a > n then n else a
    let e := if passCount > 0 then rate passCount else prevEnd
    let e := if e < prevEnd then prevEnd else e
    let e := if e > total then total else e
    (passCount, prevEnd, e) :: layerLoop rate n total rest e

/-- the `if appendLossless && len(cb.Passes) > 0 { … }` block: rewrites the LAST layer -/
def appendLast (rate : Int → Int) (n total : Int) (ls : List (Int × Int × Int)) : List (Int × Int × Int) :=
  match ls.reverse with
  | [] => []
  | _ :: before =>
    let prevPasses := match before with | [] => 0 | (pc, _, _) :: _ => pc
    let prevPasses := if prevPasses < 0 then 0 else prevPasses
    let prevPasses := if prevPasses > n then n else prevPasses
    let start := if prevPasses > 0 then rate prevPasses else 0
    let e := rate n
    let start := if start < 0 then 0 else start
    let e := if e < start then start else e
    let e := if e > total then total else e
    (before.reverse) ++ [(n, start, e)]

/-- finalizeBlock on one code-block with n ≥ 1 passes -/
def finalize (rate : Int → Int) (n total : Int) (alloc : List Int) (appendLossless : Bool) : List (Int × Int × Int) :=
  let ls := layerLoop rate n total alloc 0
  if appendLossless ∧ n > 0 then appendLast rate n total ls else ls

end J2kL

namespace J2kL

/-- a generic `codec.Parameters` object as lossless/codec.go extractBasicLosslessParams sees it: per key the value
    if present WITH the type the code accepts (a value of another type is ignored by the type assertion, i.e.
    behaves as absent) -/
structure GParams where
  numLevels : Option Int
  allowMCT : Option Bool
  rate : Option Int
  rateLevels : Option (List Int)
  progressionOrder : Option Int      -- int or uint8 key value
  numLayers : Option Int
  targetRatio : Option Frac          -- float64 / float32 / int
  usePCRDOpt : Option Bool
  appendLosslessLayer : Option Bool
deriving Repr, DecidableEq

/-- NewLosslessParameters -/
def defaultLParams : LParams :=
  { NumLevels := 5, AllowMCT := true, Rate := 20, RateLevels := defaultRateLevels, ProgressionOrder := 0,
    NumLayers := 1, TargetRatio := Frac.zero, UsePCRDOpt := false, AppendLosslessLayer := true }

/-! extractBasicLosslessParams, key by key -/
def g1 (g : GParams) (p : LParams) : LParams :=
  match g.numLevels with | some n => if 0 ≤ n ∧ n ≤ 6 then { p with NumLevels := n } else p | none => p
def g2 (g : GParams) (p : LParams) : LParams := match g.allowMCT with | some b => { p with AllowMCT := b } | none => p
def g3 (g : GParams) (p : LParams) : LParams :=
  match g.rate with | some r => if r ≥ 0 then { p with Rate := r } else p | none => p   -- 0 overrides: no rate target
def g4 (g : GParams) (p : LParams) : LParams :=
  match g.rateLevels with | some l => if l.length > 0 then { p with RateLevels := l } else p | none => p
def g5 (g : GParams) (p : LParams) : LParams :=
  match g.progressionOrder with
  | some x => if x ≥ 0 then { p with ProgressionOrder := x % 256 } else p     -- uint8(x)
  | none => p
def g6 (g : GParams) (p : LParams) : LParams := match g.numLayers with | some n => { p with NumLayers := n } | none => p
def g7 (g : GParams) (p : LParams) : LParams := match g.targetRatio with | some t => { p with TargetRatio := t } | none => p
def g8 (g : GParams) (p : LParams) : LParams := match g.usePCRDOpt with | some b => { p with UsePCRDOpt := b } | none => p
def g9 (g : GParams) (p : LParams) : LParams :=
  match g.appendLosslessLayer with | some b => { p with AppendLosslessLayer := b } | none => p

/-- extractLosslessParameters for a generic object: defaults, then extractBasicLosslessParams -/
def extractGeneric (g : GParams) : LParams := g9 g (g8 g (g7 g (g6 g (g5 g (g4 g (g3 g (g2 g (g1 g defaultLParams))))))))

end J2kL
