/-!
  C18 — abstract non-interference.

  A store maps locations to values.  A step DECLARES a read set and a write set and carries a function
  `f`; its transition is *defined* as: every location of the write set gets `f` applied to the store
  restricted to the read set, every other location keeps its value.  So "depends only on the read set,
  changes only the write set" holds by construction (`tr_frame`, `tr_dep`) — it is part of the model, not
  an assumption.  Threads are lists of steps; a schedule is a list of thread ids; each pick runs the next
  step of that thread (a finished thread's pick is a no-op).
  Core Lean only.
-/
namespace NonInt

variable {L Val : Type} [DecidableEq L] [Inhabited Val]

structure Step (L Val : Type) where
  reads : List L
  writes : List L
  f : (L → Val) → L → Val

/-- the store as the step is allowed to see it -/
def restrict (s : L → Val) (rs : List L) : L → Val := fun l => if l ∈ rs then s l else default

def Step.tr (st : Step L Val) (s : L → Val) : L → Val :=
  fun l => if l ∈ st.writes then st.f (restrict s st.reads) l else s l

theorem tr_frame (st : Step L Val) (s : L → Val) (l : L) (h : l ∉ st.writes) : st.tr s l = s l := by
  simp [Step.tr, h]

theorem restrict_congr (s s' : L → Val) (rs : List L) (h : ∀ l, l ∈ rs → s l = s' l) :
    restrict s rs = restrict s' rs := by
  funext l
  unfold restrict
  by_cases hl : l ∈ rs
  · simp [hl, h l hl]
  · simp [hl]

theorem tr_dep (st : Step L Val) (s s' : L → Val) (h : ∀ l, l ∈ st.reads → s l = s' l) (l : L)
    (hl : l ∈ st.writes) : st.tr s l = st.tr s' l := by
  simp [Step.tr, hl, restrict_congr s s' st.reads h]

structure Conf (L Val : Type) where
  store : L → Val
  pc : Nat → Nat

abbrev Prog (L Val : Type) := Nat → List (Step L Val)

/-- thread `t` takes its next step (nothing happens when it has finished) -/
def stepThread (prog : Prog L Val) (c : Conf L Val) (t : Nat) : Conf L Val :=
  match (prog t)[c.pc t]? with
  | none => c
  | some st => { store := st.tr c.store, pc := fun u => if u = t then c.pc t + 1 else c.pc u }

/-- run a schedule: any interleaving is a list of thread ids -/
def run (prog : Prog L Val) (c : Conf L Val) (sched : List Nat) : Conf L Val :=
  sched.foldl (stepThread prog) c

/-- thread `t` alone takes `n` steps -/
def solo (prog : Prog L Val) (t : Nat) (c : Conf L Val) (n : Nat) : Conf L Val :=
  run prog c (List.replicate n t)

def accesses (th : List (Step L Val)) : List L := th.flatMap (fun st => st.reads ++ st.writes)
def writesOf (th : List (Step L Val)) : List L := th.flatMap (fun st => st.writes)

/-- every location a thread writes is neither read nor written by any other thread -/
def Isolated (prog : Prog L Val) : Prop :=
  ∀ u v, u ≠ v → ∀ l, l ∈ writesOf (prog u) → l ∉ accesses (prog v)

/-- a race: two steps of different threads touch a common location and at least one writes it -/
def Race (prog : Prog L Val) : Prop :=
  ∃ u v, u ≠ v ∧ ∃ su, su ∈ prog u ∧ ∃ sv, sv ∈ prog v ∧ ∃ l, l ∈ su.writes ∧ (l ∈ sv.reads ∨ l ∈ sv.writes)

omit [DecidableEq L] [Inhabited Val] in
theorem mem_writesOf {th : List (Step L Val)} {st : Step L Val} (h : st ∈ th) {l : L} (hl : l ∈ st.writes) :
    l ∈ writesOf th := by
  unfold writesOf; exact List.mem_flatMap.mpr ⟨st, h, hl⟩

omit [DecidableEq L] [Inhabited Val] in
theorem mem_accesses_r {th : List (Step L Val)} {st : Step L Val} (h : st ∈ th) {l : L} (hl : l ∈ st.reads) :
    l ∈ accesses th := by
  unfold accesses; exact List.mem_flatMap.mpr ⟨st, h, by simp [hl]⟩

omit [DecidableEq L] [Inhabited Val] in
theorem mem_accesses_w {th : List (Step L Val)} {st : Step L Val} (h : st ∈ th) {l : L} (hl : l ∈ st.writes) :
    l ∈ accesses th := by
  unfold accesses; exact List.mem_flatMap.mpr ⟨st, h, by simp [hl]⟩

/-- (i) isolation excludes every race: whatever the schedule, the steps it runs are steps of the threads -/
theorem no_race_of_isolated (prog : Prog L Val) (h : Isolated prog) : ¬ Race prog := by
  rintro ⟨u, v, huv, su, hsu, sv, hsv, l, hw, hrw⟩
  have := h u v huv l (mem_writesOf hsu hw)
  cases hrw with
  | inl hr => exact this (mem_accesses_r hsv hr)
  | inr hw' => exact this (mem_accesses_w hsv hw')

/-- the relation kept along a schedule: same program counter for `t`, same values on everything `t` touches -/
def Rel (prog : Prog L Val) (t : Nat) (c d : Conf L Val) : Prop :=
  c.pc t = d.pc t ∧ ∀ l, l ∈ accesses (prog t) → c.store l = d.store l

theorem rel_step_self (prog : Prog L Val) (t : Nat) (c d : Conf L Val) (h : Rel prog t c d) :
    Rel prog t (stepThread prog c t) (stepThread prog d t) := by
  obtain ⟨hpc, hst⟩ := h
  unfold stepThread
  rw [← hpc]
  cases hget : (prog t)[c.pc t]? with
  | none => exact ⟨hpc, hst⟩
  | some st =>
    have hmem : st ∈ prog t := List.mem_of_getElem? hget
    refine ⟨by simp [hpc], fun l hl => ?_⟩
    simp only
    by_cases hw : l ∈ st.writes
    · exact tr_dep st c.store d.store (fun r hr => hst r (mem_accesses_r hmem hr)) l hw
    · rw [tr_frame st _ l hw, tr_frame st _ l hw]; exact hst l hl

theorem rel_step_other (prog : Prog L Val) (hiso : Isolated prog) (t u : Nat) (hut : u ≠ t)
    (c d : Conf L Val) (h : Rel prog t c d) : Rel prog t (stepThread prog c u) d := by
  obtain ⟨hpc, hst⟩ := h
  unfold stepThread
  cases hget : (prog u)[c.pc u]? with
  | none => exact ⟨hpc, hst⟩
  | some st =>
    have hmem : st ∈ prog u := List.mem_of_getElem? hget
    refine ⟨by simp [Ne.symm hut, hpc], fun l hl => ?_⟩
    simp only
    have hw : l ∉ st.writes := fun hw => hiso u t hut l (mem_writesOf hmem hw) hl
    rw [tr_frame st _ l hw]; exact hst l hl

theorem rel_run (prog : Prog L Val) (hiso : Isolated prog) (t : Nat) (sched : List Nat) :
    ∀ c d : Conf L Val, Rel prog t c d →
      Rel prog t (run prog c sched) (run prog d (List.replicate (sched.count t) t)) := by
  induction sched with
  | nil => intro c d h; simpa [run] using h
  | cons u rest ih =>
    intro c d h
    by_cases hut : u = t
    · subst hut
      have : (u :: rest).count u = rest.count u + 1 := by simp
      rw [this, List.replicate_succ]
      simp only [run, List.foldl_cons]
      exact ih _ _ (rel_step_self prog u c d h)
    · have : (u :: rest).count t = rest.count t := by simp [hut]
      rw [this]
      simp only [run, List.foldl_cons]
      exact ih _ d (rel_step_other prog hiso t u hut c d h)

/-- (ii) non-interference, for every schedule: on every location thread `t` reads or writes, the store after the
    interleaved run equals the store after `t` alone has taken the same number of steps from the same start -/
theorem noninterference (prog : Prog L Val) (hiso : Isolated prog) (t : Nat) (c : Conf L Val) (sched : List Nat) :
    ∀ l, l ∈ accesses (prog t) →
      (run prog c sched).store l = (solo prog t c (sched.count t)).store l :=
  (rel_run prog hiso t sched c c ⟨rfl, fun _ _ => rfl⟩).2

/-- and `t` is at the same point of its program -/
theorem noninterference_pc (prog : Prog L Val) (hiso : Isolated prog) (t : Nat) (c : Conf L Val) (sched : List Nat) :
    (run prog c sched).pc t = (solo prog t c (sched.count t)).pc t :=
  (rel_run prog hiso t sched c c ⟨rfl, fun _ _ => rfl⟩).1

end NonInt
