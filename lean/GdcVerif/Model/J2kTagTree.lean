/-!
  Tag trees (jpeg2000/t2/tagtree.go), code-shaped model.

  Go keeps `nodes/low/known [level][idx]` with `idx = py*levelWidths[level] + px`; here a node is named by the
  triple `(level, px, py)` and the per-node arrays are index functions `Node → …`.  The flattening is injective
  for `px < levelWidths[level]` (`flatten_inj`) and stays inside the allocated `levelWidths·levelHeights`
  (`flatten_in_range`), so no two nodes alias and no index is out of range.  `999` is the Go sentinel
  "value not known yet".

  * `ttLevels`, `ttPath`     — NewTagTree's level dimensions and the `stack` of Encode/Decode (root first)
  * `TTEnc.setValue`         — TagTree.SetValue (minimum propagation with early break)
  * `encNode` / `TTEnc.encode` — the per-node loop and the root→leaf walk of TagTree.Encode
  * `decNode` / `TTDec.decode` — the same for TagTree.Decode
-/
namespace J2kTT

abbrev Node := Nat × Nat × Nat          -- (level, px, py); Go index py*levelWidths[level] + px

def sentinel : Nat := 999

/-- NewTagTree: `(width, height)` of each level, leaf level first, down to the 1×1 root -/
def ttLevels : Nat → Nat → Nat → List (Nat × Nat)
  | 0, w, h => [(w, h)]
  | fuel + 1, w, h => if w > 1 ∨ h > 1 then (w, h) :: ttLevels fuel ((w + 1) / 2) ((h + 1) / 2) else [(w, h)]

/-- the `stack` loop of Encode/Decode/SetValue: node (level, px, py), then `px /= 2; py /= 2`, leaf first;
    the first argument counts the levels still to visit -/
def ttStack : Nat → Nat → Nat → Nat → List Node
  | 0, _, _, _ => []
  | k + 1, level, px, py => (level, px, py) :: ttStack k (level + 1) (px / 2) (py / 2)

/-- `tt.levels` -/
def ttNumLevels (w h : Nat) : Nat := (ttLevels (w + h) w h).length

/-- Go's flat index of a node, given the level widths -/
def flatten (lw : Nat) (n : Node) : Nat := n.2.2 * lw + n.2.1

/-- nodes visited by Encode/Decode for leaf (x, y), ROOT FIRST (Go iterates the stack from its end) -/
def ttPath (w h x y : Nat) : List Node := (ttStack (ttNumLevels w h) 0 x y).reverse

/-- encoder-side tree state: node values, `low`, `known` -/
structure TTEnc where
  val : Node → Nat
  low : Node → Nat
  known : Node → Bool

/-- decoder-side tree state: node values (sentinel until decoded) and `low` -/
structure TTDec where
  val : Node → Nat
  low : Node → Nat

def upd {β : Type} (f : Node → β) (n : Node) (b : β) : Node → β := fun m => if m = n then b else f m

/-- NewTagTree / ResetEncoding / Reset -/
def TTEnc.init : TTEnc := { val := fun _ => sentinel, low := fun _ => 0, known := fun _ => false }
def TTDec.init : TTDec := { val := fun _ => sentinel, low := fun _ => 0 }

/-- SetValue along a leaf→root stack: `if nodes > value { nodes = value } else break` -/
def setValueStack (val : Node → Nat) (v : Nat) : List Node → Node → Nat
  | [] => val
  | n :: rest => if val n > v then setValueStack (upd val n v) v rest else val

/-- the nodes SetValue lowers, as data (same loop; lets the executable model update eagerly) -/
def loweredNodes (val : Node → Nat) (v : Nat) : List Node → List Node
  | [] => []
  | n :: rest => if val n > v then n :: loweredNodes (upd val n v) v rest else []

/-- TagTree.SetValue; equal to `setValueStack` on the leaf's stack (`setValue_val_eq`) -/
def TTEnc.setValue (s : TTEnc) (w h x y v : Nat) : TTEnc :=
  let ns := loweredNodes s.val v (ttStack (ttNumLevels w h) 0 x y)
  { s with val := ns.foldl (fun f n => upd f n v) s.val }

/-- Encode, inner loop at one node: `for low < threshold { if low >= value { if !known { write 1; known = true }; break }; write 0; low++ }` -/
def encLoop (v : Nat) (t : Nat) : Nat → Nat → Bool → List Bool × Nat × Bool
  | 0, low, k => ([], low, k)
  | fuel + 1, low, k =>
    if low < t then
      if low ≥ v then (if !k then ([true], low, true) else ([], low, k))
      else
        let r := encLoop v t fuel (low + 1) k
        (false :: r.1, r.2.1, r.2.2)
    else ([], low, k)

/-- Encode at one node: low propagation, loop, store `low` -/
def encNode (s : TTEnc) (n : Node) (lowIn t : Nat) : TTEnc × List Bool × Nat :=
  let low0 := if lowIn > s.low n then lowIn else s.low n
  let r := encLoop (s.val n) t (t + 1 - low0) low0 (s.known n)
  ({ s with low := upd s.low n r.2.1, known := upd s.known n r.2.2 }, r.1, r.2.1)

/-- Encode: walk root → leaf threading `low` -/
def TTEnc.encodePath (s : TTEnc) (t : Nat) : List Node → Nat → TTEnc × List Bool
  | [], _ => (s, [])
  | n :: rest, lowIn =>
    let r := encNode s n lowIn t
    let r2 := TTEnc.encodePath r.1 t rest r.2.2
    (r2.1, r.2.1 ++ r2.2)

def TTEnc.encode (s : TTEnc) (w h x y t : Nat) : TTEnc × List Bool := s.encodePath t (ttPath w h x y) 0

/-- Decode, inner loop: `for low < threshold && low < value { bit := read; if bit != 0 { value = low } else { low++ } }`;
    `none` = ReadBit error (end of data) -/
def decLoop (t : Nat) : Nat → Nat → Nat → List Bool → Option (Nat × Nat × List Bool)
  | 0, val, low, bits => some (val, low, bits)
  | fuel + 1, val, low, bits =>
    if low < t ∧ low < val then
      match bits with
      | [] => none
      | b :: rest => if b then decLoop t fuel low low rest else decLoop t fuel val (low + 1) rest
    else some (val, low, bits)

def decNode (s : TTDec) (n : Node) (lowIn t : Nat) (bits : List Bool) : Option (TTDec × Nat × List Bool) :=
  let low0 := if lowIn > s.low n then lowIn else s.low n
  match decLoop t ((t + 1 - low0) + 1) (s.val n) low0 bits with
  | none => none
  | some (val, low, rest) => some ({ val := upd s.val n val, low := upd s.low n low }, low, rest)

def TTDec.decodePath (s : TTDec) (t : Nat) : List Node → Nat → List Bool → Option (TTDec × List Bool)
  | [], _, bits => some (s, bits)
  | n :: rest, lowIn, bits =>
    match decNode s n lowIn t bits with
    | none => none
    | some (s', low, bits') => TTDec.decodePath s' t rest low bits'

/-- Decode returns the leaf's node value (the sentinel while undetermined) -/
def TTDec.decode (s : TTDec) (w h x y t : Nat) (bits : List Bool) : Option (TTDec × Nat × List Bool) :=
  match s.decodePath t (ttPath w h x y) 0 bits with
  | none => none
  | some (s', rest) => some (s', s'.val (0, x, y), rest)

end J2kTT

namespace J2kTT
/-- a sequence of Encode calls `(path, threshold)` on one tree: bits are appended to the same header -/
def TTEnc.encodeAll (s : TTEnc) : List (List Node × Nat) → TTEnc × List Bool
  | [] => (s, [])
  | (p, t) :: qs =>
    let r := s.encodePath t p 0
    let r2 := TTEnc.encodeAll r.1 qs
    (r2.1, r.2 ++ r2.2)

/-- the matching sequence of Decode calls; returns the value reported for each query (node value of the leaf) -/
def TTDec.decodeAll (s : TTDec) : List (List Node × Nat) → List Bool → Option (TTDec × List Nat × List Bool)
  | [], bits => some (s, [], bits)
  | (p, t) :: qs, bits =>
    match s.decodePath t p 0 bits with
    | none => none
    | some (s', bits') =>
      match TTDec.decodeAll s' qs bits' with
      | none => none
      | some (s'', rs, rest) => some (s'', (match p.getLast? with | some n => s'.val n | none => 0) :: rs, rest)
end J2kTT
