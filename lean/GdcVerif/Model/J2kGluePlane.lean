import GdcVerif.Model.J2kGlue
/-!
  GLUE, part 2: from the transformed tile-component planes to the code-blocks of the packets and back — single tile
  at the canvas origin, default precincts (one precinct per resolution: the code-block grid position in the precinct
  is the position in the band).

  encoder: `getSubbandsForResolution` (cut LL / HL, LH, HH out of the Mallat layout), `partitionIntoCodeBlocks`
           (row-major `cbw × cbh` grid, clipped last column/row), `buildTilePacketEncoder` (CBX, CBY, precinct 0)
  decoder: `bandInfosForResolution`, `buildAndDecodeCodeBlocks` (same grid, block origin = band offset + local),
           the coefficient plane is filled block by block.
-/
namespace J2kGlue

/-- a coefficient plane as an index function (x, y); the Go slice is row-major with stride = tile width -/
abbrev Plane := Nat → Nat → Int

/-- resolutionDimsWithOrigin at origin 0: n-fold `splitLengths(·, even = true)` = ⌈·/2⌉ -/
def dimAt (len : Nat) : Nat → Nat
  | 0 => len
  | n + 1 => (dimAt len n + 1) / 2

structure BandRect where
  band : Nat
  ox : Nat
  oy : Nat
  bw : Nat
  bh : Nat
deriving Repr, DecidableEq

/-- the bands of resolution `r` of an `L`-level decomposition of a `W × H` tile-component, with their place in the
    Mallat layout (encoder: subbandInfo.x0/y0; decoder: bandInfo.offsetX/offsetY) -/
def bandRects (W H L r : Nat) : List BandRect :=
  if r = 0 then [⟨0, 0, 0, dimAt W L, dimAt H L⟩]
  else
    let fw := dimAt W (L - r)
    let fh := dimAt H (L - r)
    let lw := dimAt W (L - r + 1)
    let lh := dimAt H (L - r + 1)
    [⟨1, lw, 0, fw - lw, lh⟩, ⟨2, 0, lh, lw, fh - lh⟩, ⟨3, lw, lh, fw - lw, fh - lh⟩]

structure BlkRect where
  cbx : Nat
  cby : Nat
  x0 : Nat      -- in the plane
  y0 : Nat
  w : Nat
  h : Nat
deriving Repr, DecidableEq

def numCb (len cb : Nat) : Nat := (len + cb - 1) / cb

/-- partitionIntoCodeBlocks / buildAndDecodeCodeBlocks: `for cby { for cbx { … } }` -/
def blkRects (cbw cbh : Nat) (b : BandRect) : List BlkRect :=
  (List.range (numCb b.bh cbh)).flatMap fun cby => (List.range (numCb b.bw cbw)).map fun cbx =>
    ⟨cbx, cby, b.ox + cbx * cbw, b.oy + cby * cbh, min cbw (b.bw - cbx * cbw), min cbh (b.bh - cby * cbh)⟩

/-- `cbData[y*w + x] = subband.data[(y0+y)*subband.width + (x0+x)]` -/
def cutBlock (f : Plane) (k : BlkRect) : List Int :=
  (List.range k.h).flatMap fun y => (List.range k.w).map fun x => f (k.x0 + x) (k.y0 + y)

/-- the decoder's copy of a decoded block into the coefficient plane -/
def writeBlock (k : BlkRect) (cs : List Int) (f : Plane) : Plane := fun x y =>
  if k.x0 ≤ x ∧ x < k.x0 + k.w ∧ k.y0 ≤ y ∧ y < k.y0 + k.h then cs.getD ((y - k.y0) * k.w + (x - k.x0)) 0 else f x y

/-- tile-component configuration shared by both sides (SIZ / COD / QCD) -/
structure TCfg where
  W : Nat
  H : Nat
  L : Nat
  cbw : Nat
  cbh : Nat
  nb : Nat → Nat → Nat        -- bandNumbps(res, band)

/-- bands of a resolution that have code-blocks (a band of zero width or height has none on either side) -/
def liveBands (c : TCfg) (r : Nat) : List BandRect := (bandRects c.W c.H c.L r).filter fun b => b.bw ≠ 0 ∧ b.bh ≠ 0

def pbandOf (c : TCfg) (r : Nat) (f : Plane) (b : BandRect) : PBand :=
  ⟨numCb b.bw c.cbw, numCb b.bh c.cbh,
    (blkRects c.cbw c.cbh b).map fun k => ⟨k.cbx, k.cby, ⟨k.w, k.h, b.band, c.nb r b.band, cutBlock f k⟩⟩⟩

/-- the packet of (resolution r, one component, precinct 0) -/
def ppacketOf (c : TCfg) (r : Nat) (f : Plane) : PPacket := (liveBands c r).map (pbandOf c r f)

/-- packet sequence of a single-layer, single-precinct tile: (resolution, component) pairs in progression order,
    resolutions without code-blocks left out (no precinct exists for them on either side).
    LRCP, RLCP, RPCL: resolution-major; PCRL, CPRL: component-major (all precincts sit at position (0, 0)). -/
def packetSeq (c : TCfg) (nC prog : Nat) : List (Nat × Nat) :=
  let live := fun (r : Nat) => !(liveBands c r).isEmpty
  if prog ≤ 2 then
    (List.range (c.L + 1)).flatMap fun r => if live r then (List.range nC).map fun k => (r, k) else []
  else
    (List.range nC).flatMap fun k => ((List.range (c.L + 1)).filter live).map fun r => (r, k)

/-- encoder: all packets of the tile from the component planes -/
def tilePackets (c : TCfg) (nC prog : Nat) (planes : Nat → Plane) : List PPacket :=
  (packetSeq c nC prog).map fun q => ppacketOf c q.1 (planes q.2)

/-- decoder: the geometry of those packets, from the configuration alone -/
def tileGeo (c : TCfg) (nC prog : Nat) : List (List BandGeo) :=
  (packetSeq c nC prog).map fun q => (ppacketOf c q.1 (fun _ _ => 0)).map PBand.geo

/-- the write operations of one packet's decoded blocks -/
def packetWrites (c : TCfg) (r : Nat) (out : List (List (List Int))) : List (BlkRect × List Int) :=
  ((liveBands c r).zip out).flatMap fun q => (blkRects c.cbw c.cbh q.1).zip q.2

/-- decoder: fill the planes, packet after packet -/
def pasteTile (c : TCfg) (nC prog : Nat) (out : List (List (List (List Int)))) : Nat → Plane :=
  ((packetSeq c nC prog).zip out).foldl
    (fun planes q => fun k => if k = q.1.2 then (packetWrites c q.1.1 q.2).foldl (fun f w => writeBlock w.1 w.2 f) (planes k) else planes k)
    (fun _ _ _ => 0)

end J2kGlue
