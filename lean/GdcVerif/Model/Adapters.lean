import GdcVerif.GoPrelude
import GdcVerif.Gen.ValidateJpegBaseline
import GdcVerif.Gen.ValidateJpegExtended
import GdcVerif.Gen.ValidateJpegLossless
import GdcVerif.Gen.ValidateJpegLsNear
/-!
  The DICOM adapters (`*/codec.go`): hand models, code-shaped.

  Part 1 — `passDown`: what `Codec.Encode` hands to the low-level encoder, as a function of
           `imagetypes.FrameInfo` (the pre-checks on FrameInfo included).
  Part 2 — `encodeAll`: the frame loop shared by all adapters.
  Part 3 — `codec.Parameters` extraction of the JPEG-family adapters (nil / typed nil / typed /
           foreign implementation), followed by the GENERATED `Validate`.
  Tied to the Go code by the `adapter-*`, `adapter-loop` and `params-*` lines of the C17 check.
-/
namespace Adapters

/-! ## Part 1: FrameInfo → arguments of the low-level Encode -/

/-- the numeric fields of `imagetypes.FrameInfo` (all `uint16`) -/
structure FI where
  W : Nat
  H : Nat
  BA : Nat
  BS : Nat
  SPP : Nat
  PR : Nat
deriving Repr, DecidableEq

/-- the ten codec types -/
inductive Codec where
  | rle | baseline | extended | lossless | sv1 | jls | jlsNear | j2kLossless | j2kLossy | htj2k
deriving Repr, DecidableEq

/-- arguments of the low-level call; `signed` is `false` where the low-level API has no such argument -/
structure Passed where
  w : Int
  h : Int
  c : Int
  depth : Int
  signed : Bool
deriving Repr, DecidableEq

/-- the adapters that take the sample depth from BitsStored -/
def Codec.usesBitsStored : Codec → Bool
  | .rle | .htj2k => false
  | _ => true

/-- `Codec.Encode` up to the frame loop: FrameInfo pre-checks (`none` = error) and argument selection.
    `extParamDepth` is `JPEGExtendedParameters.BitDepth` after `Validate` (8 or 12); it is only used
    when BitsStored = 0.
    * rle/rle.go encodeFrame: `bytesAllocated := (BitsAllocated-1)/8+1` — the container is the depth;
    * jpeg/baseline/codec.go: `BitsStored < 1 || BitsStored > 8` rejected, `Encode(frame, W, H, SPP, quality)` (8 bit implied);
    * jpeg/extended/codec.go: `BitsStored < 1 || BitsStored > 12` rejected; `bitDepth := params.BitDepth`, overridden by
      8 if 0 < BitsStored ≤ 8, by 12 if 8 < BitsStored ≤ 12 (since the `< 1` guard one of the two always applies);
    * jpeg/lossless, jpeg/lossless14sv1: `Encode(frame, W, H, SPP, int(BitsStored)[, predictor])`;
    * jpegls/lossless, jpegls/nearlossless: `BitsStored < 2 || > 16` rejected, BitsStored passed;
    * jpeg2000/lossless, lossy: `DefaultEncodeParams(W, H, SPP, int(BitsStored), PixelRepresentation != 0)`;
    * jpeg2000/htj2k: `DefaultEncodeParams(W, H, SPP, int(BitsAllocated), PixelRepresentation != 0)`. -/
def passDown (k : Codec) (fi : FI) (extParamDepth : Int := 12) : Option Passed :=
  let geo (depth : Int) (signed : Bool) : Passed := ⟨fi.W, fi.H, fi.SPP, depth, signed⟩
  -- guard added to the eight BitsStored-passing adapters (right after the FrameInfo nil check):
  -- `(int(BitsStored)+7)/8 != (int(BitsAllocated)+7)/8` → error
  if k.usesBitsStored && (fi.BS + 7) / 8 != (fi.BA + 7) / 8 then none else
  match k with
  | .rle => some (geo fi.BA false)
  | .baseline => if fi.BS < 1 ∨ fi.BS > 8 then none else some (geo 8 false)
  | .extended =>
    if fi.BS < 1 ∨ fi.BS > 12 then none
    else if 0 < fi.BS ∧ fi.BS ≤ 8 then some (geo 8 false)
    else if 8 < fi.BS ∧ fi.BS ≤ 12 then some (geo 12 false)
    else some (geo extParamDepth false)
  | .lossless | .sv1 => some (geo fi.BS false)
  | .jls | .jlsNear => if fi.BS < 2 ∨ fi.BS > 16 then none else some (geo fi.BS false)
  | .j2kLossless | .j2kLossy => some (geo fi.BS (fi.PR != 0))
  | .htj2k => some (geo fi.BA (fi.PR != 0))

/-- bytes per sample the low-level encoder READS for the depth it was given (the factor in its
    buffer-length guard; for the generated ones see `Props/C10Adapters.lean`), RLE: `(BA-1)/8+1` in uint16 -/
def bytesRead (k : Codec) (depth : Int) : Int :=
  match k with
  | .rle => (((depth + 65535) % 65536) / 8 + 1) % 65536
  | .baseline => 1
  | .extended => if depth = 12 then 2 else 1
  | _ => (depth + 7) / 8

/-- bytes per sample of the native frame: ⌈BitsAllocated/8⌉ -/
def containerBytes (fi : FI) : Int := ((fi.BA : Int) + 7) / 8

def nativeLen (fi : FI) : Int := (fi.W : Int) * fi.H * fi.SPP * containerBytes fi

/-- the quantifier of C10/C17 at the adapter level -/
def FI.InScope (fi : FI) : Prop :=
  (fi.BA = 8 ∨ fi.BA = 16) ∧ 1 < fi.BS ∧ fi.BS ≤ fi.BA ∧ (fi.SPP = 1 ∨ fi.SPP = 3) ∧ 0 < fi.W ∧ 0 < fi.H ∧ fi.PR ≤ 1

instance (fi : FI) : Decidable fi.InScope := by unfold FI.InScope; exact inferInstance

/-! ## Part 2: the frame loop -/

/-- outcome of `Codec.Encode` / `Codec.Decode` as far as the destination is concerned: the frames
    added to `newPixelData`, and for an error the index of the failing frame -/
inductive LoopResult (Out : Type) where
  | ok (dst : List Out)
  | err (dst : List Out) (frameIndex : Nat)
deriving Repr, DecidableEq

/-- `for frameIndex := 0; …`: GetFrame, `len(frameData) == 0` → error, per-frame call → error is
    returned at once (frames added so far stay in `newPixelData`), AddFrame -/
def loopFrom {Out : Type} (work : List Nat → Option Out) : List (List Nat) → Nat → List Out → LoopResult Out
  | [], _, dst => .ok dst
  | f :: rest, i, dst =>
    if f.length = 0 then .err dst i
    else match work f with
      | none => .err dst i
      | some o => loopFrom work rest (i + 1) (dst ++ [o])

/-- `zeroCheck`: `if frameCount == 0 { return error }` — present in every adapter except rle/rle.go -/
def encodeAll {Out : Type} (zeroCheck : Bool) (work : List Nat → Option Out) (frames : List (List Nat)) :
    LoopResult Out :=
  if zeroCheck && frames.isEmpty then .err [] 0 else loopFrom work frames 0 []

/-! ## Part 3: codec.Parameters extraction (JPEG family) -/

/-- what `parameters.GetParameter(key)` returns, as far as the type switches care -/
inductive PVal where
  | absent            -- nil
  | int (n : Int)     -- a Go `int`
  | other             -- any other dynamic type (string, float64, int8, …)
deriving Repr, DecidableEq

/-- the `parameters codec.Parameters` argument -/
inductive PSrc (T : Type) where
  | nil                                   -- nil interface: codec defaults
  | typedNil                              -- (*T)(nil): treated like a fresh default object (fix 73f59a6)
  | typed (p : T)                         -- the codec's own parameter type: used as is
  | foreign (get : String → PVal)         -- any other implementation: read through GetParameter
deriving Inhabited

open Gen

/-- jpeg/baseline/codec.go NewBaselineCodec -/
def newBaselineCodecQuality (q : Int) : Int := if q < 1 || q > 100 then 90 else q

/-- jpeg/baseline/codec.go Encode, "Get encoding parameters" … `quality := baselineParams.Quality` -/
def baselineQuality (codecQuality : Int) (src : PSrc ValidateJpegBaseline.JPEGBaselineParameters) : Int :=
  let p : ValidateJpegBaseline.JPEGBaselineParameters :=
    match src with
    | .nil => { Quality := codecQuality }
    | .typedNil => { Quality := 90 }
    | .typed p => p
    | .foreign get =>
      match get "quality" with
      | .int n => if n ≥ 1 && n ≤ 100 then { Quality := n } else { Quality := 90 }
      | _ => { Quality := 90 }
  (ValidateJpegBaseline.JPEGBaselineParameters.Validate p).1.Quality

/-- jpeg/extended/codec.go NewExtendedCodec -/
def newExtendedCodec (bitDepth quality : Int) : Int × Int :=
  (if bitDepth != 8 && bitDepth != 12 then 12 else bitDepth, if quality < 1 || quality > 100 then 90 else quality)

/-- jpeg/extended/codec.go Encode: (quality, params.BitDepth after Validate) -/
def extendedParams (codecDepth codecQuality : Int) (src : PSrc ValidateJpegExtended.JPEGExtendedParameters) :
    ValidateJpegExtended.JPEGExtendedParameters :=
  let p : ValidateJpegExtended.JPEGExtendedParameters :=
    match src with
    | .nil => { Quality := codecQuality, BitDepth := codecDepth }
    | .typedNil => { Quality := 90, BitDepth := 12 }
    | .typed p => p
    | .foreign get =>
      let q := match get "quality" with
        | .int n => if n ≥ 1 && n ≤ 100 then n else 90
        | _ => 90
      let d := match get "bitDepth" with
        | .int n => if n == 8 || n == 12 then n else 12
        | _ => 12
      { Quality := q, BitDepth := d }
  (ValidateJpegExtended.JPEGExtendedParameters.Validate p).1

/-- jpeg/lossless/codec.go Encode, "Get encoding parameters": the object handed to `Validate` -/
def losslessSrcParams (codecPredictor : Int) (src : PSrc ValidateJpegLossless.JPEGLosslessParameters) :
    ValidateJpegLossless.JPEGLosslessParameters :=
  match src with
  | .nil => { Predictor := codecPredictor }
  | .typedNil => { Predictor := 0 }
  | .typed p => p
  | .foreign get =>
    match get "predictor" with
    | .int n => { Predictor := n }
    | _ => { Predictor := 0 }

/-- jpeg/lossless/codec.go Encode: predictor handed to `lossless.Encode`.
    `isTS57` = `c.transferSyntax == transfer.JPEGLossless` (always true for `NewLosslessCodec`). -/
def losslessPredictor (codecPredictor : Int) (isTS57 : Bool) (src : PSrc ValidateJpegLossless.JPEGLosslessParameters) : Int :=
  let predictor := (ValidateJpegLossless.JPEGLosslessParameters.Validate (losslessSrcParams codecPredictor src)).1.Predictor
  if isTS57 || predictor == 0 then 1 else predictor

/-- jpegls/nearlossless/codec.go NewJPEGLSNearLosslessCodec -/
def newNearCodecNear (n : Int) : Int := if n < 0 || n > 255 then 3 else n

/-- jpegls/nearlossless/codec.go Encode: NEAR handed to `nearlossless.Encode` -/
def nearNear (codecNear : Int) (src : PSrc ValidateJpegLsNear.JPEGLSNearLosslessParameters) : Int :=
  let p : ValidateJpegLsNear.JPEGLSNearLosslessParameters :=
    match src with
    | .nil => { NEAR := codecNear }
    | .typedNil => { NEAR := 3 }
    | .typed p => p
    | .foreign get =>
      match get "near" with
      | .int n => if n ≥ 0 && n ≤ 255 then { NEAR := n } else { NEAR := 3 }
      | _ => { NEAR := 3 }
  (ValidateJpegLsNear.JPEGLSNearLosslessParameters.Validate p).1.NEAR

end Adapters
