import GdcVerif.Gen.JpegLs
import GdcVerif.Gen.JpegLsRun
import GdcVerif.Model.Golomb
/-!
  Hand model of JPEG-LS run mode (code-shaped; both packages implement the same procedure in
  separate copies of the code, each of which is compared with this model by the
  `jls-runseg-enc` / `jls-runseg-dec` correspondence lines):

  * jpegls/lossless/runmode.go: `RunModeContext.GetGolombCode` (loop), `RunModeScanner.incRunIndex`,
    `DecRunIndex`, `EncodeRunLength`, `DecodeRunLength`, `EncodeRunInterruption`,
    `DecodeRunInterruption`;
  * jpegls/lossless/{encoder,decoder}.go and jpegls/nearlossless/{encoder,decoder}.go:
    `doRunMode` + `encodeRunInterruptionPixel`/`decodeRunInterruptionPixel` (one component, both
    run-interruption contexts) and `encodeSampleRunMode` (+`finishSampleRun`) /
    `decodeSampleRunMode` (sample-interleaved, context 0 for every component), including the
    ORDER of `DecRunIndex` relative to the interruption samples and the limit
    `LIMIT − J[RUNindex] − 1`.

  The loop-free pieces are the GENERATED kernels (`Gen.JpegLs`: `RunModeContext.ComputeMap`,
  `ComputeErrorValue`, `UpdateVariables`, `Traits.*`; `Gen.JpegLsRun.J`).  Bits go through the
  writer model `Golomb` (`encodeWrites`, `decodeValue`).  An index outside the J table or the
  pixel array is the explicit outcome `panic`.
-/
namespace JpegLsRun
open Gen.JpegLs

inductive Fail | err | panic
deriving Repr, DecidableEq

abbrev R (α : Type) := Except Fail α

/-- `J[RunIndex]` (a Go array index: out of range panics) -/
def J? (i : Int) : R Int :=
  if i < 0 then .error .panic else
  match Gen.JpegLsRun.J[i.toNat]? with
  | some v => .ok v
  | none => .error .panic

def incRunIndex (i : Int) : Int := if i < 31 then i + 1 else i
def decRunIndex (i : Int) : Int := if i > 0 then i - 1 else i

/-- `for nTest < temp { nTest <<= 1; k++; if k > 32 { break } }` -/
def golombLoop : Nat → Int → Int → Int → Int
  | 0, _, _, k => k
  | f + 1, nTest, temp, k =>
    if nTest < temp then
      let k := k + 1
      if k > 32 then k else golombLoop f (nTest * 2) temp k
    else k

/-- `RunModeContext.GetGolombCode` -/
def getGolombCode (ctx : RunModeContext) : Int :=
  golombLoop 40 ctx.N (ctx.A + Go.shr ctx.N 1 * ctx.runInterruptionType) 0

/-- loop of `EncodeRunLength`: one `WriteBit(1)` per full 2^J chunk -/
def encRunLoop : Nat → Int → Int → List (Nat × Int) → R (Int × Int × List (Nat × Int))
  | 0, idx, rl, acc => .ok (idx, rl, acc)
  | f + 1, idx, rl, acc => do
    let j ← J? idx
    if rl ≥ 2 ^ j.toNat then encRunLoop f (incRunIndex idx) (rl - 2 ^ j.toNat) (acc ++ [(1, 1)])
    else .ok (idx, rl, acc)

/-- `RunModeScanner.EncodeRunLength(gw, runLength, endOfLine)`: new RunIndex and the `WriteBits` calls -/
def encodeRunLength (idx runLength : Int) (endOfLine : Bool) : R (Int × List (Nat × Int)) := do
  let (idx, rl, ws) ← encRunLoop (runLength.toNat + 1) idx runLength []
  if endOfLine then
    .ok (idx, if rl != 0 then ws ++ [(1, 1)] else ws)
  else
    let j ← J? idx
    .ok (idx, ws ++ [(rl.toNat % Golomb.M32, j + 1)])

/-- loop of `DecodeRunLength` over a bit sequence; `.inl` = returned inside the loop (run reached
    the line end), `.inr` = left the loop on a 0 bit -/
def decRunLoop : List Bool → Int → Int → Int → R ((Int × Int × List Bool) ⊕ (Int × Int × List Bool))
  | [], _, _, _ => .error .err
  | true :: rest, idx, rl, remaining => do
    let j ← J? idx
    let count := min (2 ^ j.toNat) (remaining - rl)
    let rl := rl + count
    let idx := if count = 2 ^ j.toNat then incRunIndex idx else idx
    if rl ≥ remaining then .ok (.inl (remaining, idx, rest)) else decRunLoop rest idx rl remaining
  | false :: rest, idx, rl, _ => .ok (.inr (rl, idx, rest))

/-- `RunModeScanner.DecodeRunLength(gr, remainingInLine)`, with the initial value of the local
    `runLength` as a parameter (the code starts it at 0) -/
def decodeRunLengthFrom (bs : List Bool) (idx runLength remaining : Int) : R (Int × Int × List Bool) := do
  match ← decRunLoop bs idx runLength remaining with
  | .inl r => .ok r
  | .inr (rl, idx, rest) =>
    let j ← J? idx
    if j > 0 then
      match Golomb.takeBits j.toNat rest with
      | none => .error .err
      | some (v, rest) =>
        let rl := rl + v
        if rl > remaining then .error .err else .ok (rl, idx, rest)
    else if rl > remaining then .error .err else .ok (rl, idx, rest)

def decodeRunLength (bs : List Bool) (idx remaining : Int) : R (Int × Int × List Bool) :=
  decodeRunLengthFrom bs idx 0 remaining

/-- `RunModeScanner.EncodeRunInterruption(gw, ctx, errorValue)` with `traits` = t, `RunIndex` = idx -/
def encodeRunInterruption (t : Traits) (idx : Int) (ctx : RunModeContext) (e : Int) :
    R (List (Nat × Int) × RunModeContext) := do
  let k := getGolombCode ctx
  let mapBit := RunModeContext.ComputeMap ctx e k
  let eMapped := 2 * Go.abs e - ctx.runInterruptionType
  let eMapped := if mapBit then eMapped - 1 else eMapped
  let j ← J? idx
  let limitMinusJ := t.Limit - j - 1
  .ok (Golomb.encodeWrites k eMapped limitMinusJ t.Qbpp, RunModeContext.UpdateVariables ctx e eMapped t.Reset)

/-- `RunModeScanner.DecodeRunInterruption(gr, ctx)` -/
def decodeRunInterruption (t : Traits) (idx : Int) (ctx : RunModeContext) (bs : List Bool) :
    R (Int × RunModeContext × List Bool) := do
  let k := getGolombCode ctx
  let j ← J? idx
  let limitMinusJ := t.Limit - j - 1
  match Golomb.decodeValue k limitMinusJ t.Qbpp bs with
  | none => .error .err
  | some (mapped, rest) =>
    let errVal := RunModeContext.ComputeErrorValue ctx (mapped + ctx.runInterruptionType) k
    .ok (errVal, RunModeContext.UpdateVariables ctx errVal mapped t.Reset, rest)

/-! ### run segments of a scan line (line y = 1 of a width×2 image, as the hooks drive the code) -/

structure St where
  runIndex : Int
  ctx0 : RunModeContext
  ctx1 : RunModeContext
deriving Repr, DecidableEq

def px (p : Array Int) (i : Int) : R Int :=
  if i < 0 then .error .panic else match p[i.toNat]? with | some v => .ok v | none => .error .panic

def setPx (p : Array Int) (i : Int) (v : Int) : R (Array Int) :=
  if i < 0 ∨ i.toNat ≥ p.size then .error .panic else .ok (p.set! i.toNat v)

/-- `sampleNeighbors(pixels, pos, y=1, comp, previousLineFirst=pixels[comp], …)`: (left, above) -/
def leftAbove (p : Array Int) (width comps pos comp : Int) : R (Int × Int) := do
  if pos = 0 then
    let f ← px p comp
    .ok (f, f)
  else
    let above ← px p (pos * comps + comp)
    let left ← px p ((width + pos - 1) * comps + comp)
    .ok (left, above)

/-- is the pixel at `pos` a run pixel in every component (`|Ix − left| ≤ NEAR`)?  returns the lefts -/
def runPixel (near : Int) (p : Array Int) (width comps pos : Int) : Nat → Int → List Int → R (Option (List Int))
  | 0, _, lefts => .ok (some lefts.reverse)
  | n + 1, comp, lefts => do
    let (left, _) ← leftAbove p width comps pos comp
    let v ← px p ((width + pos) * comps + comp)
    if Go.abs (v - left) > near then .ok none else runPixel near p width comps pos n (comp + 1) (left :: lefts)

def setPixelAll (p : Array Int) (base : Int) : List Int → Int → R (Array Int)
  | [], _ => .ok p
  | v :: vs, comp => do
    let p ← setPx p (base + comp) v
    setPixelAll p base vs (comp + 1)

/-- run scanning loop of `encodeSampleRunMode` -/
def scanRun (near : Int) (width comps x remaining : Int) : Nat → Array Int → Int → R (Array Int × Int)
  | 0, p, rl => .ok (p, rl)
  | f + 1, p, rl =>
    if rl < remaining then do
      match ← runPixel near p width comps (x + rl) comps.toNat 0 [] with
      | none => .ok (p, rl)
      | some lefts =>
        let p ← setPixelAll p ((width + x + rl) * comps) lefts 0
        scanRun near width comps x remaining f p (rl + 1)
    else .ok (p, rl)

/-- interruption samples of `finishSampleRun` / `encodeSampleRunMode`: every component with context 0 -/
def encInterruptAll (t : Traits) (width comps pos idx : Int) :
    Nat → Int → Array Int → RunModeContext → List (Nat × Int) → R (Array Int × RunModeContext × List (Nat × Int))
  | 0, _, p, ctx, ws => .ok (p, ctx, ws)
  | n + 1, comp, p, ctx, ws => do
    let (left, above) ← leftAbove p width comps pos comp
    let xs ← px p ((width + pos) * comps + comp)
    let sign := Gen.JpegLsRun.Sign (above - left)
    let e := Traits.ComputeErrorValue t (sign * (xs - above))
    let (w1, ctx) ← encodeRunInterruption t idx ctx e
    let p ← setPx p ((width + pos) * comps + comp) (Traits.ComputeReconstructedSample t above (e * sign))
    encInterruptAll t width comps pos idx n (comp + 1) p ctx (ws ++ w1)

/-- `encodeSampleRunMode` (sample-interleaved scans) -/
def encodeSegmentILV2 (t : Traits) (width comps : Int) (st : St) (p : Array Int) (x : Int) :
    R (List (Nat × Int) × Int × Array Int × St) := do
  let remaining := width - x
  let (p, rl) ← scanRun t.Near width comps x remaining remaining.toNat p 0
  let eol := rl == remaining
  let (idx, ws) ← encodeRunLength st.runIndex rl eol
  if eol then .ok (ws, rl, p, { st with runIndex := idx })
  else
    let (p, ctx0, ws) ← encInterruptAll t width comps (x + rl) idx comps.toNat 0 p st.ctx0 ws
    .ok (ws, rl + 1, p, { runIndex := decRunIndex idx, ctx0 := ctx0, ctx1 := st.ctx1 })

/-- run counting loop of `doRunMode` (one component) -/
def countRun (near ra : Int) (p : Array Int) (start remaining : Int) : Nat → Int → R Int
  | 0, rl => .ok rl
  | f + 1, rl =>
    if rl < remaining then do
      let v ← px p (start + rl)
      if Go.abs (v - ra) ≤ near then countRun near ra p start remaining f (rl + 1) else .ok rl
    else .ok rl

def fillRun (p : Array Int) (start ra : Int) : Nat → Int → R (Array Int)
  | 0, _ => .ok p
  | n + 1, i => do
    let p ← setPx p (start + i) ra
    fillRun p start ra n (i + 1)

/-- `doRunMode` + `encodeRunInterruptionPixel` (one component, line y = 1, `ra` from the caller) -/
def encodeSegmentILV0 (t : Traits) (width : Int) (st : St) (p : Array Int) (x ra : Int) :
    R (List (Nat × Int) × Int × Array Int × St) := do
  let start := width + x
  let remaining := width - x
  let rl ← countRun t.Near ra p start remaining remaining.toNat 0
  let p ← fillRun p start ra rl.toNat 0
  let eol := rl == remaining
  let (idx, ws) ← encodeRunLength st.runIndex rl eol
  if eol then .ok (ws, rl, p, { st with runIndex := idx })
  else
    let xi ← px p (start + rl)
    let rb ← px p (x + rl)
    if Go.abs (ra - rb) ≤ t.Near then
      let e := Traits.ComputeErrorValue t (xi - ra)
      let (w1, ctx1) ← encodeRunInterruption t idx st.ctx1 e
      let p ← setPx p (start + rl) (Traits.ComputeReconstructedSample t ra e)
      .ok (ws ++ w1, rl + 1, p, { runIndex := decRunIndex idx, ctx0 := st.ctx0, ctx1 := ctx1 })
    else
      let s := Gen.JpegLsRun.Sign (rb - ra)
      let e := Traits.ComputeErrorValue t ((xi - rb) * s)
      let (w1, ctx0) ← encodeRunInterruption t idx st.ctx0 e
      let p ← setPx p (start + rl) (Traits.ComputeReconstructedSample t rb (e * s))
      .ok (ws ++ w1, rl + 1, p, { runIndex := decRunIndex idx, ctx0 := ctx0, ctx1 := st.ctx1 })

/-- fill loop of `decodeSampleRunMode`: every run pixel takes the left neighbour of the run start -/
def fillRunILV2 (width comps x : Int) : Nat → Int → Array Int → R (Array Int)
  | 0, _, p => .ok p
  | n + 1, i, p => do
    let rec comp (c : Nat) (k : Int) (p : Array Int) : R (Array Int) :=
      match c with
      | 0 => .ok p
      | c + 1 => do
        let (left, _) ← leftAbove p width comps x k
        let p ← setPx p ((width + x + i) * comps + k) left
        comp c (k + 1) p
    let p ← comp comps.toNat 0 p
    fillRunILV2 width comps x n (i + 1) p

def decInterruptAll (t : Traits) (width comps pos idx : Int) :
    Nat → Int → Array Int → RunModeContext → List Bool → R (Array Int × RunModeContext × List Bool)
  | 0, _, p, ctx, bs => .ok (p, ctx, bs)
  | n + 1, comp, p, ctx, bs => do
    let (left, above) ← leftAbove p width comps pos comp
    let (e, ctx, bs) ← decodeRunInterruption t idx ctx bs
    let p ← setPx p ((width + pos) * comps + comp)
      (Traits.ComputeReconstructedSample t above (e * Gen.JpegLsRun.Sign (above - left)))
    decInterruptAll t width comps pos idx n (comp + 1) p ctx bs

/-- `decodeSampleRunMode` -/
def decodeSegmentILV2 (t : Traits) (width comps : Int) (st : St) (p : Array Int) (x : Int) (bs : List Bool) :
    R (Int × Array Int × St × List Bool) := do
  let remaining := width - x
  let (rl, idx, bs) ← decodeRunLength bs st.runIndex remaining
  let p ← fillRunILV2 width comps x rl.toNat 0 p
  if rl = remaining then .ok (rl, p, { st with runIndex := idx }, bs)
  else
    let (p, ctx0, bs) ← decInterruptAll t width comps (x + rl) idx comps.toNat 0 p st.ctx0 bs
    .ok (rl + 1, p, { runIndex := decRunIndex idx, ctx0 := ctx0, ctx1 := st.ctx1 }, bs)

/-- decoder `doRunMode` + `decodeRunInterruptionPixel` (one component) -/
def decodeSegmentILV0 (t : Traits) (width : Int) (st : St) (p : Array Int) (x ra : Int) (bs : List Bool) :
    R (Int × Array Int × St × List Bool) := do
  let start := width + x
  let remaining := width - x
  let (rl, idx, bs) ← decodeRunLength bs st.runIndex remaining
  let p ← fillRun p start ra rl.toNat 0
  if rl ≥ remaining then .ok (rl, p, { st with runIndex := idx }, bs)
  else
    let rb ← px p (x + rl)
    if Go.abs (ra - rb) ≤ t.Near then
      let (e, ctx1, bs) ← decodeRunInterruption t idx st.ctx1 bs
      let p ← setPx p (start + rl) (Traits.ComputeReconstructedSample t ra e)
      .ok (rl + 1, p, { runIndex := decRunIndex idx, ctx0 := st.ctx0, ctx1 := ctx1 }, bs)
    else
      let (e, ctx0, bs) ← decodeRunInterruption t idx st.ctx0 bs
      let s := Gen.JpegLsRun.Sign (rb - ra)
      let p ← setPx p (start + rl) (Traits.ComputeReconstructedSample t rb (e * s))
      .ok (rl + 1, p, { runIndex := decRunIndex idx, ctx0 := ctx0, ctx1 := st.ctx1 }, bs)

end JpegLsRun
