import GdcVerif.Model.T1
/-!
  Code-shaped executable model of the T1 configuration of the reversible JPEG 2000 pipeline
  (`jpeg2000/encoder.go` newCodeBlockEncoder / `t2/tile_decoder.go` decodeCodeBlock):

  * encoder: `SetNMSEDecFractionalBits(fb)` — `Encode` leaves the loop below bit-plane `fb`
    (`for bitplane = maxBitplane; bitplane >= nmseDecFracBits && passIdx < numPasses`) and returns no byte when the
    top plane is below `fb`; the pipeline feeds it `coeff << 6` with `fb = 6`;
  * decoder: `SetOpenJPEGReconstruction(true)` — a sample that becomes significant at plane `bp` is reconstructed as
    `±((1<<bp) | ((1<<bp)>>1))`, a refinement adds or subtracts `(1<<bp)>>1`; the pipeline calls it with
    `maxBitplane = numbps` (one more than the plane index) and halves the result afterwards.

  Styles without LAZY, `roishift = 0`.  Tied to the code by the `t1-encf` / `t1-decoj` correspondence lines.
-/
namespace T1
open Gen.J2kT1

/-- the pass loop of `Encode` with `nmseDecFracBits = fb` -/
def encLoopF (fb : Nat) (w h orient cblkstyle : Nat) (data : Array Int) (maxBitplane numPasses : Nat) :
    Nat → EncSt → (bitplane : Int) → (passIdx passType : Nat) → (prevTerminated : Bool) → Option (EncSt × Bool)
  | 0, st, _, _, _, pt => some (st, pt)
  | fuel + 1, st, bitplane, passIdx, passType, prevTerminated =>
    if bitplane ≥ (fb : Int) ∧ passIdx < numPasses then
      let bp := bitplane.toNat
      let startBitplane := passType = 0 ∨ (passType = 2 ∧ passIdx = 0)
      let st := if startBitplane then { st with flags := clearVisit st.flags } else st
      let st := if prevTerminated then { st with mq := Mqc.restartInitEnc st.mq } else st
      match (match passType with
        | 0 => encSigProp w h orient bp data st
        | 1 => encMagRef w h bp data st
        | _ => (encCleanup w h orient bp data st).bind fun st =>
                 if stySegsym cblkstyle then (Mqc.segmarkEnc st.mq).map (fun m => { st with mq := m }) else some st) with
      | none => none
      | some st =>
        let terminated := isTerminatingPass bitplane (maxBitplane : Int) (passType : Int) (cblkstyle : Int)
        match (if terminated then
                 (if styPterm cblkstyle then Mqc.ertermEnc st.mq else Mqc.flushToOutput st.mq).map (fun m => { st with mq := m })
               else some st) with
        | none => none
        | some st =>
          match (if styReset cblkstyle then (initCtx (Mqc.resetContexts st.mq)).map (fun m => { st with mq := m }) else some st) with
          | none => none
          | some st =>
            if passType = 2 then encLoopF fb w h orient cblkstyle data maxBitplane numPasses fuel st (bitplane - 1) (passIdx + 1) 0 terminated
            else encLoopF fb w h orient cblkstyle data maxBitplane numPasses fuel st bitplane (passIdx + 1) (passType + 1) terminated
    else some (st, prevTerminated)

/-- `NewT1Encoder(w, h, style)`, `SetOrientation(orient)`, `SetNMSEDecFractionalBits(fb)`, `Encode(coeffs, numPasses, 0)` -/
def encodeBlockF (fb : Nat) (w h orient style : Nat) (coeffs : List Int) (numPasses : Nat) : Outcome (List Nat) :=
  if coeffs.length ≠ w * h then .err else
  let data := padBlock w h coeffs
  match findMaxBitplane data with
  | none =>
    match Mqc.flush (Mqc.Enc.new NUMCONTEXTS) with
    | some (_, bytes) => .ok bytes
    | none => .panic
  | some mb =>
    if mb < fb then .ok [] else
    match initCtx (Mqc.Enc.new NUMCONTEXTS) with
    | none => .panic
    | some mq =>
      let st : EncSt := { flags := Array.replicate ((w + 2) * (h + 2)) 0, mq := mq }
      match encLoopF fb w h orient style data mb numPasses (numPasses + 1) st mb 0 2 false with
      | none => .panic
      | some (st, prevTerminated) =>
        if prevTerminated then .ok (Mqc.getBuffer st.mq)
        else match Mqc.flush st.mq with
          | some (_, bytes) => .ok bytes
          | none => .panic

/-! ### the decoder with OpenJPEG reconstruction -/

/-- `reconstructSignificantValue(bitplane, sign)`: `one | one>>1`, negated for a negative sample -/
def sigValO (bp sign : Nat) : Int :=
  let one : Int := Go.wrap32 ((2 : Int) ^ bp)
  let half : Int := Go.shr one 1
  let val : Int := Go.or one half
  if sign ≠ 0 then Go.wrap32 (-val) else val

/-- `refineReconstructedValue(current, bitplane, bit)` -/
def refineO (current : Int) (bp bit : Nat) : Int :=
  let poshalf : Int := Go.shr (Go.wrap32 ((2 : Int) ^ bp)) 1
  if (decide (bit ≠ 0)) ≠ (decide (current < 0)) then Go.wrap32 (current + poshalf) else Go.wrap32 (current - poshalf)

def decSignO (w bp : Nat) (st : DecSt) (f x y idx : Nat) : Option DecSt := do
  let signCtx ← scCtx f
  let (signBit, mq) ← Mqc.decode st.mq signCtx
  let signPred ← spb f
  let sign := signBit ^^^ signPred
  let fl ← if sign ≠ 0 then orAt st.flags idx fSign else some st.flags
  if idx ≥ st.data.size then none else
  let data := st.data.setIfInBounds idx (sigValO bp sign)
  let fl ← orAt fl idx fSig
  let fl ← updateNeighborFlags w fl x y idx
  some { flags := fl, data := data, mq := mq }

def decSigPropO (w h orient bp : Nat) (st : DecSt) : Option DecSt :=
  (coords w h).foldlM (fun st (x, y) => do
    let idx := idxOf w x y
    let f ← st.flags[idx]?
    if has f fSig then some st
    else if ¬ has f fSigNeighbors then some st
    else
      let ctx ← zcCtx f orient
      let (b, mq) ← Mqc.decode st.mq ctx
      let fl ← orAt st.flags idx fVisit
      let st := { st with flags := fl, mq := mq }
      if b ≠ 0 then decSignO w bp st f x y idx else some st) st

def decMagRefO (w h bp : Nat) (st : DecSt) : Option DecSt :=
  (coords w h).foldlM (fun st (x, y) => do
    let idx := idxOf w x y
    let f ← st.flags[idx]?
    if ¬ has f fSig ∨ has f fVisit then some st
    else
      let (b, mq) ← Mqc.decode st.mq (mrCtx f)
      let cur ← st.data[idx]?
      let data := st.data.setIfInBounds idx (refineO cur bp b)
      let fl ← orAt st.flags idx fRefine
      some { flags := fl, data := data, mq := mq }) st

def decCleanSampleO (w orient bp : Nat) (st : DecSt) (x y : Nat) (partial_ : Bool) : Option (DecSt × Bool) := do
  let idx := idxOf w x y
  let f ← st.flags[idx]?
  if has f fVisit ∨ has f fSig then
    some ({ st with flags := st.flags.setIfInBounds idx (clr f fVisit) }, partial_)
  else
    let (isSig, st, partial_) ←
      (if partial_ then some (1, st, false)
       else do
         let ctx ← zcCtx f orient
         let (b, mq) ← Mqc.decode st.mq ctx
         some (b, { st with mq := mq }, false))
    let st ← if isSig ≠ 0 then decSignO w bp st f x y idx else some st
    let f' ← st.flags[idx]?
    some ({ st with flags := st.flags.setIfInBounds idx (clr f' fVisit) }, partial_)

def decCleanupO (w h orient bp : Nat) (st : DecSt) : Option DecSt :=
  (columns w h).foldlM (fun st (k, i) => do
    let normal (st : DecSt) : Option DecSt :=
      ((List.range 4).filter (fun dy => k + dy < h)).foldlM (fun st dy => do
        let (st, _) ← decCleanSampleO w orient bp st i (k + dy) false
        some st) st
    if k + 3 < h then
      let can ← rlScanDec w st.flags k i
      if can then
        let (rlBit, mq) ← Mqc.decode st.mq CTXRL
        if rlBit = 0 then some { st with mq := mq }
        else
          let (b1, mq) ← Mqc.decode mq CTXUNI
          let (b2, mq) ← Mqc.decode mq CTXUNI
          let runlen := b1 * 2 + b2
          let r ← ((List.range 4).filter (fun dy => runlen ≤ dy)).foldlM (fun (acc : DecSt × Bool) dy =>
            decCleanSampleO w orient bp acc.1 i (k + dy) acc.2) ({ st with mq := mq }, true)
          some r.1
      else normal st
    else normal st) st

def decLoopO (w h orient style : Nat) (numPasses : Nat) :
    Nat → DecSt → (bitplane : Int) → (passIdx passType : Nat) → Option DecSt
  | 0, st, _, _, _ => some st
  | fuel + 1, st, bitplane, passIdx, passType =>
    if bitplane ≥ 0 ∧ passIdx < numPasses then
      let bp := bitplane.toNat
      let startBitplane := passType = 0 ∨ (passType = 2 ∧ passIdx = 0)
      let st := if startBitplane then { st with flags := clearVisit st.flags } else st
      match (match passType with
        | 0 => decSigPropO w h orient bp st
        | 1 => decMagRefO w h bp st
        | _ => (decCleanupO w h orient bp st).bind fun st =>
                 if stySegsym style then (segmarkDec st.mq).map (fun m => { st with mq := m }) else some st) with
      | none => none
      | some st =>
        match (if styReset style ∧ passIdx + 1 < numPasses then (resetCtxDec st.mq).map (fun m => { st with mq := m })
               else some st) with
        | none => none
        | some st =>
          if passType = 2 then decLoopO w h orient style numPasses fuel st (bitplane - 1) (passIdx + 1) 0
          else decLoopO w h orient style numPasses fuel st bitplane (passIdx + 1) (passType + 1)
    else some st

/-- `NewT1Decoder(w, h, style)`, `SetOpenJPEGReconstruction(true)`, `SetOrientation(orient)`,
`DecodeWithBitplane(bytes, numPasses, maxBitplane, 0)`, `GetData()` -/
def decodeBlockOJ (w h orient style numPasses : Nat) (maxBitplane : Int) (bytes : List Nat) : Outcome (List Int) :=
  if bytes.length = 0 then .err else
  match Mqc.Dec.new bytes NUMCONTEXTS with
  | none => .panic
  | some mq =>
    match initCtxDec mq with
    | none => .panic
    | some mq =>
      let st : DecSt := { flags := Array.replicate ((w + 2) * (h + 2)) 0,
                          data := Array.replicate ((w + 2) * (h + 2)) 0, mq := mq }
      match decLoopO w h orient style numPasses (numPasses + 1) st maxBitplane 0 2 with
      | none => .panic
      | some st =>
        match ((List.range h).flatMap fun y => (List.range w).map fun x => idxOf w x y).mapM (fun i => st.data[i]?) with
        | some out => .ok out
        | none => .panic

/-- `normalizeOpenJPEGReversibleT1Coefficients`: `coeffs[i] /= 2` (Go division, toward zero) -/
def halveT (v : Int) : Int := if v < 0 then -((-v) / 2) else v / 2

end T1
