import GdcVerif.GoPrelude
import GdcVerif.Gen.J2kWavelet
/-!
  Code-shaped model of `jpeg2000/wavelet/dwt53.go` (5/3 reversible lifting, OpenJPEG layout).

  * `forward53_1d` / `inverse53_1d` mirror `Forward53_1DWithParity` / `Inverse53_1DWithParity`
    statement by statement (both parities, the `width <= 1`, `width == 1`, `width == 2` cases).
    The signal is a `Vector Int w`: every index expression of the Go text is written with the
    same arithmetic and its in-range proof is discharged where it is written, so the model has
    no out-of-range reads to hide (the Go function cannot panic on any slice).
  * every arithmetic operation goes through the parameter `wr : Int → Int`: `wr = Go.wrap32`
    is Go's `int32` arithmetic, `wr = id` is the overflow-free reading used by the theorems;
    `Lemmas/Dwt53.lean` proves the two agree under an explicit magnitude bound.
  * `Go.forLoop lo hi body s` is `for i := lo; i < hi; i++ { s = body i s }`.
  * the two sliding-window loops of the inverse (`for i, j = 0, 1; i < width-3; i, j = i+2, j+1`,
    `for i, j = 1, 1; i < limit; i, j = i+2, j+1`) are indexed by `j`; `i` is `2*(j-1)` resp. `2*j-1`.
  * 2D / multilevel: `data` is a `Vector Int n` with row `stride`; an access beyond `n` is the
    explicit outcome `none` (Go: index-out-of-range panic).  The window sequence is computed
    with the *generated* `Gen.J2kWavelet.nextLowpassWindow` / `isEven`.
-/
set_option linter.unusedVariables false
namespace Go

/-- `for i := lo; i < hi; i++ { s = body i s }` -/
def forLoop {σ : Type} (lo hi : Nat) (body : (i : Nat) → lo ≤ i → i < hi → σ → σ) (s : σ) : σ :=
  if h : lo < hi then
    forLoop (lo + 1) hi (fun i h1 h2 => body i (Nat.le_of_succ_le h1) h2) (body lo (Nat.le_refl _) h s)
  else s
termination_by hi - lo

end Go

namespace Dwt53

section ops
variable (wr : Int → Int)

/-- `a - ((b + c) >> 1)` -/
def predict (a b c : Int) : Int := wr (a - Go.shr (wr (b + c)) 1)
/-- `a + ((d1 + d2 + 2) >> 2)` -/
def update (a d1 d2 : Int) : Int := wr (a + Go.shr (wr (wr (d1 + d2) + 2)) 2)
/-- `a - ((d1 + d2 + 2) >> 2)` -/
def unupdate (a d1 d2 : Int) : Int := wr (a - Go.shr (wr (wr (d1 + d2) + 2)) 2)
/-- `a - ((d + 1) >> 1)` -/
def unupdate1 (a d : Int) : Int := wr (a - Go.shr (wr (d + 1)) 1)
/-- `d + ((s0 + s1) >> 1)` -/
def unpredict (d s0 s1 : Int) : Int := wr (d + Go.shr (wr (s0 + s1)) 1)

/-! ### Forward53_1DWithParity

Each Go function body is split into its consecutive stages (one definition per loop with the
`if` that follows it); `forwardEven` / `forwardOdd` chain them in program order. -/

/-- `sn` for `even == true`: `int32((width + 1) >> 1)` -/
def snE (w : Nat) : Nat := (w + 1) >>> 1
/-- `sn` for `even == false`: `int32(width >> 1)` -/
def snO (w : Nat) : Nat := w >>> 1
theorem snE_eq (w : Nat) : snE w = (w + 1) / 2 := by simp [snE, Nat.shiftRight_eq_div_pow]
theorem snO_eq (w : Nat) : snO w = w / 2 := by simp [snO, Nat.shiftRight_eq_div_pow]

/-- `even == true`: `for i = 0; i < sn-1; i++ { tmp[sn+i] = data[2*i+1] - ((data[i*2] + data[(i+1)*2]) >> 1) }` -/
def fwdEvenPredictLoop {w : Nat} (data : Vector Int w) (hw : 2 ≤ w) : Vector Int w :=
  have hsn : snE w = (w + 1) / 2 := snE_eq w
  Go.forLoop 0 (snE w - 1) (fun i _ h tmp =>
    tmp.set (snE w + i) (predict wr (data[2*i+1]'(by omega)) (data[i*2]'(by omega)) (data[(i+1)*2]'(by omega))) (by omega))
    (Vector.replicate w 0)

/-- `even == true`, predict stage: `tmp` after the first loop and the `width % 2 == 0` tail -/
def fwdEvenPredict {w : Nat} (data : Vector Int w) (hw : 2 ≤ w) : Vector Int w :=
  have hsn : snE w = (w + 1) / 2 := snE_eq w
  let tmp := fwdEvenPredictLoop wr data hw
  let i := snE w - 1
  -- if (width % 2) == 0 { tmp[sn+i] = data[2*i+1] - data[i*2] }
  if h : w % 2 = 0 then
    tmp.set (snE w + i) (wr (data[2*i+1]'(by omega) - data[i*2]'(by omega))) (by omega)
  else tmp

/-- `even == true`: `data[0] += (tmp[sn] + tmp[sn] + 2) >> 2` and
`for i = 1; i < dn; i++ { data[i] = data[2*i] + ((tmp[sn+(i-1)] + tmp[sn+i] + 2) >> 2) }` -/
def fwdEvenUpdateLoop {w : Nat} (data tmp : Vector Int w) (hw : 2 ≤ w) : Vector Int w :=
  have hsn : snE w = (w + 1) / 2 := snE_eq w
  let data := data.set 0 (update wr data[0] (tmp[snE w]'(by omega)) (tmp[snE w]'(by omega))) (by omega)
  Go.forLoop 1 (w - snE w) (fun i _ h data =>
    data.set i (update wr (data[2*i]'(by omega)) (tmp[snE w+(i-1)]'(by omega)) (tmp[snE w+i]'(by omega))) (by omega)) data

/-- `even == true`, update stage: `data` after `data[0] += …`, the second loop and the `width % 2 == 1` tail -/
def fwdEvenUpdate {w : Nat} (data tmp : Vector Int w) (hw : 2 ≤ w) : Vector Int w :=
  have hsn : snE w = (w + 1) / 2 := snE_eq w
  let data := fwdEvenUpdateLoop wr data tmp hw
  let i := max 1 (w - snE w)
  -- if (width % 2) == 1 { data[i] = data[2*i] + ((tmp[sn+(i-1)] + tmp[sn+(i-1)] + 2) >> 2) }
  if h : w % 2 = 1 then
    data.set i (update wr (data[2*i]'(by omega)) (tmp[snE w+(i-1)]'(by omega)) (tmp[snE w+(i-1)]'(by omega))) (by omega)
  else data

/-- `copy(data[sn:], tmp[sn:sn+dn])` -/
def copyHigh {w : Nat} (sn : Nat) (data tmp : Vector Int w) : Vector Int w :=
  Vector.ofFn fun k : Fin w => if sn ≤ k.val then tmp[k] else data[k]

/-- `even == true`, `width >= 2` -/
def forwardEven {w : Nat} (data : Vector Int w) (hw : 2 ≤ w) : Vector Int w :=
  let tmp := fwdEvenPredict wr data hw
  let data := fwdEvenUpdate wr data tmp hw
  copyHigh (snE w) data tmp

/-- `even == false`: `tmp[sn+0] = data[0] - data[1]` and
`for i = 1; i < sn; i++ { tmp[sn+i] = data[2*i] - ((data[2*i+1] + data[2*(i-1)+1]) >> 1) }` -/
def fwdOddPredictLoop {w : Nat} (data : Vector Int w) (hw : 2 ≤ w) : Vector Int w :=
  have hsn : snO w = w / 2 := snO_eq w
  let tmp : Vector Int w := (Vector.replicate w 0).set (snO w + 0) (wr (data[0] - data[1])) (by omega)
  Go.forLoop 1 (snO w) (fun i _ h tmp =>
    tmp.set (snO w + i) (predict wr (data[2*i]'(by omega)) (data[2*i+1]'(by omega)) (data[2*(i-1)+1]'(by omega))) (by omega)) tmp

/-- `even == false`, predict stage -/
def fwdOddPredict {w : Nat} (data : Vector Int w) (hw : 2 ≤ w) : Vector Int w :=
  have hsn : snO w = w / 2 := snO_eq w
  let tmp := fwdOddPredictLoop wr data hw
  let i := max 1 (snO w)
  -- if (width % 2) == 1 { tmp[sn+i] = data[2*i] - data[2*(i-1)+1] }
  if h : w % 2 = 1 then
    tmp.set (snO w + i) (wr (data[2*i]'(by omega) - data[2*(i-1)+1]'(by omega))) (by omega)
  else tmp

/-- `even == false`: `for i = 0; i < dn-1; i++ { data[i] = data[2*i+1] + ((tmp[sn+i] + tmp[sn+i+1] + 2) >> 2) }` -/
def fwdOddUpdateLoop {w : Nat} (data tmp : Vector Int w) (hw : 2 ≤ w) : Vector Int w :=
  have hsn : snO w = w / 2 := snO_eq w
  Go.forLoop 0 (w - snO w - 1) (fun i _ h data =>
    data.set i (update wr (data[2*i+1]'(by omega)) (tmp[snO w+i]'(by omega)) (tmp[snO w+i+1]'(by omega))) (by omega)) data

/-- `even == false`, update stage -/
def fwdOddUpdate {w : Nat} (data tmp : Vector Int w) (hw : 2 ≤ w) : Vector Int w :=
  have hsn : snO w = w / 2 := snO_eq w
  let data := fwdOddUpdateLoop wr data tmp hw
  let i := w - snO w - 1
  -- if (width % 2) == 0 { data[i] = data[2*i+1] + ((tmp[sn+i] + tmp[sn+i] + 2) >> 2) }
  if h : w % 2 = 0 then
    data.set i (update wr (data[2*i+1]'(by omega)) (tmp[snO w+i]'(by omega)) (tmp[snO w+i]'(by omega))) (by omega)
  else data

/-- `even == false`, `width >= 2` -/
def forwardOdd {w : Nat} (data : Vector Int w) (hw : 2 ≤ w) : Vector Int w :=
  let tmp := fwdOddPredict wr data hw
  let data := fwdOddUpdate wr data tmp hw
  copyHigh (snO w) data tmp

/-- `Forward53_1DWithParity(data, even)` on a slice the Go function does not panic on
(every slice except the empty one with `even == false`). -/
def forward53_1d' {w : Nat} (data : Vector Int w) (even : Bool) (hok : w ≠ 0 ∨ even = true) : Vector Int w :=
  if he : even then
    if h : w ≤ 1 then data else forwardEven wr data (by omega)
  else
    if h : w = 1 then data.set 0 (wr (data[0] * 2)) (by omega)   -- data[0] *= 2
    else forwardOdd wr data (by cases hok with | inl h0 => omega | inr h1 => exact absurd h1 he)

/-- `Forward53_1DWithParity(data, even)`; `none` = Go panics (only for an empty slice with
`even == false`: `tmp[sn+0] = data[0] - data[1]` on `width == 0`). -/
def forward53_1d {w : Nat} (data : Vector Int w) (even : Bool) : Option (Vector Int w) :=
  if hok : w ≠ 0 ∨ even = true then some (forward53_1d' wr data even hok) else none

/-! ### Inverse53_1DWithParity -/

/-- loop state of `opj_idwt53_h_cas0`: `tmp`, `d1n`, `s0n` -/
structure InvEvenSt (w : Nat) where
  tmp : Vector Int w
  d1n : Int
  s0n : Int

/-- `even == true`: initialisation and the sliding-window loop
`for i, j = 0, 1; i < width-3; i, j = i+2, j+1`   (`i = 2*(j-1)`;  `i < width-3 ⇔ j < width/2`) -/
def invEvenLoop {w : Nat} (data : Vector Int w) (hw : 2 ≤ w) : InvEvenSt w :=
  have hsn : snE w = (w + 1) / 2 := snE_eq w
  let tmp : Vector Int w := Vector.replicate w 0
  let s1n := data[0]
  let d1n := data[snE w]'(by omega)
  let s0n := unupdate1 wr s1n d1n
  Go.forLoop 1 (w / 2) (fun j _ h (st : InvEvenSt w) =>
    let i := 2 * (j - 1)
    let d1c := st.d1n
    let s0c := st.s0n
    let s1n := data[j]'(by omega)
    let d1n := data[snE w + j]'(by omega)
    let s0n := unupdate wr s1n d1c d1n
    let tmp := st.tmp.set i s0c (by omega)
    let tmp := tmp.set (i + 1) (unpredict wr d1c s0c s0n) (by omega)
    { tmp := tmp, d1n := d1n, s0n := s0n }) { tmp := tmp, d1n := d1n, s0n := s0n }

/-- `even == true`, `width >= 2` -/
def inverseEven {w : Nat} (data : Vector Int w) (hw : 2 ≤ w) : Vector Int w :=
  let st := invEvenLoop wr data hw
  let i := 2 * (max 1 (w / 2) - 1)
  -- tmp[i] = s0n
  let tmp := st.tmp.set i st.s0n (by omega)
  if h : w % 2 = 1 then
    -- tmp[width-1] = data[(width-1)/2] - ((d1n + 1) >> 1)
    let tmp := tmp.set (w - 1) (unupdate1 wr (data[(w-1)/2]'(by omega)) st.d1n) (by omega)
    -- tmp[width-2] = d1n + ((s0n + tmp[width-1]) >> 1)
    tmp.set (w - 2) (unpredict wr st.d1n st.s0n (tmp[w-1]'(by omega))) (by omega)
  else
    -- tmp[width-1] = d1n + s0n
    tmp.set (w - 1) (wr (st.d1n + st.s0n)) (by omega)

/-- loop state of `opj_idwt53_h_cas1`: `tmp`, `s1`, `dc` -/
structure InvOddSt (w : Nat) where
  tmp : Vector Int w
  s1 : Int
  dc : Int

/-- `even == false`, `width > 2`: initialisation and the loop
`for i, j = 1, 1; i < limit; i, j = i+2, j+1` with `limit = width - 2 - (width even ? 1 : 0)`
(`i = 2*j-1`;  `i < limit ⇔ j < (width-1)/2`) -/
def invOddLoop {w : Nat} (data : Vector Int w) (hw : 3 ≤ w) : InvOddSt w :=
  have hsn : snO w = w / 2 := snO_eq w
  let tmp : Vector Int w := Vector.replicate w 0
  let s1 := data[snO w + 1]'(by omega)
  let dc := unupdate wr data[0] (data[snO w]'(by omega)) s1
  let tmp := tmp.set 0 (wr (data[snO w]'(by omega) + dc)) (by omega)
  Go.forLoop 1 ((w - 1) / 2) (fun j _ h (st : InvOddSt w) =>
    let i := 2 * j - 1
    let s2 := data[snO w + j + 1]'(by omega)
    let dnVar := unupdate wr (data[j]'(by omega)) st.s1 s2
    let tmp := st.tmp.set i st.dc (by omega)
    let tmp := tmp.set (i + 1) (unpredict wr st.s1 dnVar st.dc) (by omega)
    { tmp := tmp, s1 := s2, dc := dnVar }) { tmp := tmp, s1 := s1, dc := dc }

/-- `even == false`, `width > 2` -/
def inverseOdd {w : Nat} (data : Vector Int w) (hw : 3 ≤ w) : Vector Int w :=
  let st := invOddLoop wr data hw
  let i := 2 * (max 1 ((w - 1) / 2)) - 1
  -- tmp[i] = dc
  let tmp := st.tmp.set i st.dc (by omega)
  if h : w % 2 = 0 then
    -- dn = data[width/2-1] - ((s1 + 1) >> 1)
    let dnVar := unupdate1 wr (data[w/2-1]'(by omega)) st.s1
    let tmp := tmp.set (w - 2) (unpredict wr st.s1 dnVar st.dc) (by omega)
    tmp.set (w - 1) dnVar (by omega)
  else
    -- tmp[width-1] = s1 + dc
    tmp.set (w - 1) (wr (st.s1 + st.dc)) (by omega)

/-- `Inverse53_1DWithParity(data, even)` on a slice the Go function does not panic on. -/
def inverse53_1d' {w : Nat} (data : Vector Int w) (even : Bool) (hok : w ≠ 0 ∨ even = true) : Vector Int w :=
  if he : even then
    if h : w ≤ 1 then data else inverseEven wr data (by omega)
  else
    if h : w = 1 then data.set 0 (wr (Int.tdiv data[0] 2)) (by omega)   -- data[0] /= 2
    else if h2 : w = 2 then
      let out1 := unupdate1 wr data[0] data[1]
      let out0 := wr (data[1] + out1)
      (data.set 0 out0 (by omega)).set 1 out1 (by omega)
    else inverseOdd wr data (by cases hok with | inl h0 => omega | inr h1 => exact absurd h1 he)

/-- `Inverse53_1DWithParity(data, even)`; `none` = Go panics (only for an empty slice with
`even == false`: `s1 = data[sn+1]` on `width == 0`). -/
def inverse53_1d {w : Nat} (data : Vector Int w) (even : Bool) : Option (Vector Int w) :=
  if hok : w ≠ 0 ∨ even = true then some (inverse53_1d' wr data even hok) else none

/-! ### 2D with stride, multilevel -/

theorem idx_lt {n width height stride x y : Nat} (hfit : (height - 1) * stride + width ≤ n)
    (hx : x < width) (hy : y < height) : y * stride + x < n := by
  have : y * stride ≤ (height - 1) * stride := Nat.mul_le_mul_right _ (by omega)
  omega

/-- a 1D transform as the 2D passes use it (`forward53_1d'` or `inverse53_1d'`) -/
abbrev Xf := {w : Nat} → Vector Int w → (even : Bool) → (w ≠ 0 ∨ even = true) → Vector Int w

/-- `for y := 0; y < height; y++ { col[y] = data[y*stride+x] }` -/
def getCol {n : Nat} (data : Vector Int n) (height stride x : Nat) (h : ∀ y, y < height → y * stride + x < n) :
    Vector Int height :=
  Vector.ofFn fun y => data[y.val * stride + x]'(h y.val y.isLt)

/-- `for y := 0; y < height; y++ { data[y*stride+x] = col[y] }` -/
def putCol {n height : Nat} (data : Vector Int n) (col : Vector Int height) (stride x : Nat)
    (h : ∀ y, y < height → y * stride + x < n) : Vector Int n :=
  Go.forLoop 0 height (fun y _ hy data => data.set (y * stride + x) col[y] (h y hy)) data

/-- `for x := 0; x < width; x++ { row[x] = data[y*stride+x] }` -/
def getRow {n : Nat} (data : Vector Int n) (width stride y : Nat) (h : ∀ x, x < width → y * stride + x < n) :
    Vector Int width :=
  Vector.ofFn fun x => data[y * stride + x.val]'(h x.val x.isLt)

/-- `for x := 0; x < width; x++ { data[y*stride+x] = row[x] }` -/
def putRow {n width : Nat} (data : Vector Int n) (row : Vector Int width) (stride y : Nat)
    (h : ∀ x, x < width → y * stride + x < n) : Vector Int n :=
  Go.forLoop 0 width (fun x _ hx data => data.set (y * stride + x) row[x] (h x hx)) data

/-- one 1D transform `f` applied to column `x` of the window: extract, transform, write back -/
def onCol {n : Nat} (f : Xf) (data : Vector Int n) (width height stride : Nat) (even : Bool)
    (hfit : (height - 1) * stride + width ≤ n) (hh : 1 < height) (x : Nat) (hx : x < width) : Vector Int n :=
  let col := getCol data height stride x (fun _ hy => idx_lt hfit hx hy)
  let col := f col even (by omega)
  putCol data col stride x (fun _ hy => idx_lt hfit hx hy)

/-- one 1D transform applied to row `y` of the window -/
def onRow {n : Nat} (f : Xf) (data : Vector Int n) (width height stride : Nat) (even : Bool)
    (hfit : (height - 1) * stride + width ≤ n) (hw : 1 < width) (y : Nat) (hy : y < height) : Vector Int n :=
  let row := getRow data width stride y (fun _ hx => idx_lt hfit hx hy)
  let row := f row even (by omega)
  putRow data row stride y (fun _ hx => idx_lt hfit hx hy)

/-- vertical pass: `for x := 0; x < width; x++ { … column x … }` -/
def colPass {n : Nat} (f : Xf) (data : Vector Int n) (width height stride : Nat) (even : Bool)
    (hfit : 0 < width → (height - 1) * stride + width ≤ n) (hh : 1 < height) : Vector Int n :=
  Go.forLoop 0 width (fun x _ hx data => onCol f data width height stride even (hfit (by omega)) hh x hx) data

/-- horizontal pass: `for y := 0; y < height; y++ { … row y … }` -/
def rowPass {n : Nat} (f : Xf) (data : Vector Int n) (width height stride : Nat) (even : Bool)
    (hfit : 0 < height → (height - 1) * stride + width ≤ n) (hw : 1 < width) : Vector Int n :=
  Go.forLoop 0 height (fun y _ hy data => onRow f data width height stride even (hfit (by omega)) hw y hy) data

/-- the accesses of a 2D pass stay inside `data` (otherwise Go panics with index out of range) -/
def fits (n width height stride : Nat) : Prop := width = 0 ∨ height = 0 ∨ (height - 1) * stride + width ≤ n

instance (n width height stride : Nat) : Decidable (fits n width height stride) := by
  unfold fits; infer_instance

/-- `Forward53_2DWithParity`: columns (vertical) first, then rows -/
def forward53_2d {n : Nat} (data : Vector Int n) (width height stride : Nat) (evenRow evenCol : Bool) :
    Option (Vector Int n) :=
  if width ≤ 1 ∧ height ≤ 1 then some data
  else if hf : fits n width height stride then
    let data := if hh : 1 < height then
        colPass (forward53_1d' wr) data width height stride evenCol (fun _ => by unfold fits at hf; omega) hh
      else data
    let data := if hw : 1 < width then
        rowPass (forward53_1d' wr) data width height stride evenRow (fun _ => by unfold fits at hf; omega) hw
      else data
    some data
  else none

/-- `Inverse53_2DWithParity`: rows first, then columns -/
def inverse53_2d {n : Nat} (data : Vector Int n) (width height stride : Nat) (evenRow evenCol : Bool) :
    Option (Vector Int n) :=
  if width ≤ 1 ∧ height ≤ 1 then some data
  else if hf : fits n width height stride then
    let data := if hw : 1 < width then
        rowPass (inverse53_1d' wr) data width height stride evenRow (fun _ => by unfold fits at hf; omega) hw
      else data
    let data := if hh : 1 < height then
        colPass (inverse53_1d' wr) data width height stride evenCol (fun _ => by unfold fits at hf; omega) hh
      else data
    some data
  else none

/-- one resolution window `(curWidth, curHeight, curX0, curY0)` -/
abbrev Window := Int × Int × Int × Int

def nextWindow (win : Window) : Window :=
  Gen.J2kWavelet.nextLowpassWindow win.1 win.2.1 win.2.2.1 win.2.2.2

/-- `ForwardMultilevelWithParity`: the `for level := 0; level < levels; level++` loop -/
def forwardLevels {n : Nat} (stride : Nat) : (levels : Nat) → Vector Int n → Window → Option (Vector Int n)
  | 0, data, _ => some data
  | levels + 1, data, win =>
    let (curWidth, curHeight, curX0, curY0) := win
    if curWidth ≤ 1 ∧ curHeight ≤ 1 then some data   -- break
    else
      match forward53_2d wr data curWidth.toNat curHeight.toNat stride
          (Gen.J2kWavelet.isEven curX0) (Gen.J2kWavelet.isEven curY0) with
      | none => none
      | some data => forwardLevels stride levels data (nextWindow win)

def forwardMultilevel {n : Nat} (data : Vector Int n) (width height levels : Nat) (x0 y0 : Int) :
    Option (Vector Int n) :=
  forwardLevels wr width levels data (width, height, x0, y0)

/-- `levelWidths[i], levelHeights[i], levelX0[i], levelY0[i]` for `i = 0 .. levels-1` -/
def windows : (levels : Nat) → Window → List Window
  | 0, _ => []
  | levels + 1, win => win :: windows levels (nextWindow win)

/-- `for level := levels-1; level >= 0; level--` over the precomputed windows -/
def inverseLevels {n : Nat} (stride : Nat) : List Window → Vector Int n → Option (Vector Int n)
  | [], data => some data
  | win :: coarser, data =>
    match inverseLevels stride coarser data with
    | none => none
    | some data =>
      inverse53_2d wr data win.1.toNat win.2.1.toNat stride
        (Gen.J2kWavelet.isEven win.2.2.1) (Gen.J2kWavelet.isEven win.2.2.2)

def inverseMultilevel {n : Nat} (data : Vector Int n) (width height levels : Nat) (x0 y0 : Int) :
    Option (Vector Int n) :=
  inverseLevels wr width (windows levels (width, height, x0, y0)) data

end ops
end Dwt53
