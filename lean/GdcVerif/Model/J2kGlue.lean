import GdcVerif.Model.J2kPacketHeader
import GdcVerif.Model.T1
import GdcVerif.Model.T1Pipe
/-!
  GLUE between the proved layers of the reversible JPEG 2000 pipeline, single tile, single quality layer, one codeword
  segment per code-block (classic T1, code-block style 0): what `Encoder.buildTilePacketEncoder` /
  `encodeCodeBlock` / `PacketEncoder.encodePacket` / `packetsToBytes` do between T1 and the tile-part body, and what
  `PacketDecoder.decodePacket` / `TileDecoder.buildAndDecodeCodeBlocks` / `estimateMaxBitplane` do on the way back.

  * `BioR.allBits`      — the bits a bioReader delivers on demand (the header parser reads them one by one)
  * `CB`/`Band`/`Packet`— a coded block (grid position, zero bit-planes, passes, bytes), a band of a precinct, a packet
  * `encPacket`         — header (`encHeader` on fresh state, layer 0, through bioWriter + flush) ++ bodies in header order
  * `decPacket`         — parsePacketHeaderMulti on the reader's bits, alignToByte, then the bodies cut by the decoded lengths
  * `encTile`/`decTile` — packets back to back in the progression order both sides agree on (C19 `packet_sequence_agreement`)
  * `t1Encode`/`t1Decode` — encodeCodeBlock / decodeCodeBlock: pass count and zero-bit-plane hand-over around T1

  T1 CONFIGURATION: as in the Go pipeline — the encoder runs T1 on `coeff << 6` with `nmseDecFracBits = 6`
  (`T1.encodeBlockF 6`), the decoder runs `DecodeWithBitplane` with `SetOpenJPEGReconstruction(true)` at
  `maxBitplane = cblkNumbps` (`T1.decodeBlockOJ`) and halves the result (`T1.halveT`,
  normalizeOpenJPEGReversibleT1Coefficients).  Models of C20 (`Model/T1Pipe.lean`), round trip `C20.t1_pipeline_roundtrip`.
-/
namespace J2kGlue
open J2k J2kPH

/-! ### the reader's bit supply -/

/-- upper bound for the number of bits the reader can still deliver -/
def avail (r : BioR) : Nat := r.ct + 8 * r.data.length

def allBitsF : Nat → BioR → List Bool
  | 0, _ => []
  | f + 1, r => match r.readBit with
    | none => []
    | some (b, r') => b :: allBitsF f r'

/-- every bit `readBit` would return until errEndOfData -/
def allBits (r : BioR) : List Bool := allBitsF (avail r) r

/-! ### packets -/

/-- a code-block as the packet encoder sees it (t2.PrecinctCodeBlock: CBX, CBY, ZeroBitPlanes, NumPassesTotal, Data) -/
structure CB where
  x : Nat
  y : Nat
  zbp : Nat
  np : Nat
  data : List Nat
deriving Repr, DecidableEq

/-- one band of a precinct: code-block grid `w × h`, blocks in header order (sorted by (CBY, CBX)) -/
structure Band where
  w : Nat
  h : Nat
  cbs : List CB
deriving Repr, DecidableEq

/-- the bands of one (resolution, component, precinct), in band order (orderPrecinctsByBand) -/
abbrev Packet := List Band

/-- layerContribution, single layer: `included = len(cb.Data) > 0`, `newPasses = cb.NumPassesTotal` -/
def CB.contrib (c : CB) : Contrib := if c.data.isEmpty then none else some (c.np, c.data.length)

def Band.geo (b : Band) : List (Nat × Nat × Nat) := b.cbs.map fun c => (c.x, c.y, c.zbp)

/-- encodePacket (after ResetState): header bits → bioWriter → flush, then `body.Write(cbIncl.Data)` for the included -/
def headerBits (p : Packet) : List Bool :=
  (encHeader 0 (p.map fun b => BandE.fresh b.w b.h b.geo) (p.map fun b => b.cbs.map CB.contrib)).2

def bodyBytes (p : Packet) : List Nat := p.flatMap fun b => b.cbs.flatMap fun c => c.data

def encPacket (p : Packet) : List Nat := headerBytes (headerBits p) ++ bodyBytes p

/-- packetsToBytes -/
def encTile (ps : List Packet) : List Nat := ps.flatMap encPacket

/-- what the decoder knows of a band before the packet: grid and positions (precinctCBDimensions / precinctCBPositions) -/
structure BandSpec where
  w : Nat
  h : Nat
  pos : List (Nat × Nat)
deriving Repr, DecidableEq

def Band.spec (b : Band) : BandSpec := ⟨b.w, b.h, b.cbs.map fun c => (c.x, c.y)⟩

def BandSpec.fresh (s : BandSpec) : BandD := BandD.fresh s.w s.h (s.pos.map fun p => (p.1, p.2, 0))

/-- the body loop of decodePacket: `cbData := pd.data[pd.offset : pd.offset+DataLength]` with the graceful truncation
    to the remaining data and to `maxSegmentLength = 65535` -/
def cutBodies : List Incl → List Nat → List (Incl × List Nat) × List Nat
  | [], data => ([], data)
  | i :: is, data =>
    if i.included && i.dataLength > 0 then
      let n := min i.dataLength 65535
      let r := cutBodies is (data.drop n)
      ((i, data.take n) :: r.1, r.2)
    else
      let r := cutBodies is data
      ((i, []) :: r.1, r.2)

def cutBands : List (List Incl) → List Nat → List (List (Incl × List Nat)) × List Nat
  | [], data => ([], data)
  | b :: bs, data =>
    let r := cutBodies b data
    let r2 := cutBands bs r.2
    (r.1 :: r2.1, r2.2)

/-- decodePacket for the first (only) layer of a precinct: `none` = error.
    `pd.offset >= len(pd.data)` → packet without header, nothing consumed. -/
def decPacket (spec : List BandSpec) (data : List Nat) : Option (Option (List (List (Incl × List Nat))) × List Nat) :=
  if data.isEmpty then some (none, data) else
  let r := BioR.new data
  let bits := allBits r
  match decHeader 0 (spec.map BandSpec.fresh) bits with
  | none => none
  | some (_, out, rest) =>
    -- bytesRead: the bits the parser consumed, then alignToByte
    match r.readBitsList (bits.length - rest.length) with
    | none => none
    | some (_, r1) =>
      match r1.alignToByte with
      | none => none
      | some r2 =>
        match out with
        | none => some (none, r2.data)
        | some incls => let c := cutBands incls r2.data; some (some c.1, c.2)

/-- DecodePackets: the packets in progression order, each from where the previous one ended -/
def decTile : List (List BandSpec) → List Nat → Option (List (Option (List (List (Incl × List Nat)))) × List Nat)
  | [], data => some ([], data)
  | s :: ss, data =>
    match decPacket s data with
    | none => none
    | some (o, rest) =>
      match decTile ss rest with
      | none => none
      | some (os, rest') => some (o :: os, rest')

/-- what the decoder must report for a block -/
def CB.expected (c : CB) : Incl × List Nat :=
  if c.data.isEmpty then (⟨false, 0, 0, 0⟩, []) else (⟨true, c.np, c.data.length, c.zbp⟩, c.data)

def Packet.expected (p : Packet) : List (List (Incl × List Nat)) := p.map fun b => b.cbs.map CB.expected

/-! ### T1 hand-over: encodeCodeBlock / estimateMaxBitplane -/

/-- a code-block entering T1: size, orientation (band), coefficients (row-major), and the band's `bandNumbps` -/
structure Blk where
  w : Nat
  h : Nat
  orient : Nat
  nb : Nat
  coeffs : List Int
deriving Repr, DecidableEq

/-- `cbData[i] <<= t1NMSEDecFracBits` (6) -/
def shift6 (cs : List Int) : List Int := cs.map fun c => c * ((2 ^ 6 : Nat) : Int)

/-- codeBlockNumBps on the shifted data: `calculateMaxBitplane + 1 - 6`, clamped at 0; 0 for an all-zero block -/
def cblkNumbps (b : Blk) : Nat :=
  match T1.findMaxBitplane (T1.padBlock b.w b.h (shift6 b.coeffs)) with
  | none => 0
  | some m => m + 1 - 6

/-- codeBlockPassLayout (classic) -/
def passLayout (cblk nb : Nat) : Nat × Nat := (if cblk > 0 then 3 * cblk - 2 else 1, nb - cblk)

/-- encodeCodeBlock + encodeSingleLayerCodeBlock: (numPasses, zeroBitPlanes, data); `none` = the T1 model panics -/
def t1Encode (b : Blk) : Option (Nat × Nat × List Nat) :=
  let l := passLayout (cblkNumbps b) b.nb
  match T1.encodeBlockF 6 b.w b.h b.orient 0 (shift6 b.coeffs) l.1 with
  | .ok bytes => some (l.1, l.2, bytes)
  | _ => none

/-- estimateMaxBitplane: max of `(totalPasses + 2) / 3` and `bandNumbps - zbp` (each when positive) -/
def estimateMaxBitplane (np zbp nb : Nat) : Int :=
  let maxFromPass : Int := if np > 0 then (if (np + 2) / 3 ≤ 0 then -1 else ((np + 2) / 3 : Nat)) else -1
  let maxFromQCD : Int := if nb > 0 ∧ (nb : Int) - zbp > 0 then (nb : Int) - zbp else -1
  if maxFromPass ≥ 0 ∧ maxFromQCD ≥ 0 then (if maxFromPass > maxFromQCD then maxFromPass else maxFromQCD)
  else if maxFromQCD ≥ 0 then maxFromQCD
  else if maxFromPass ≥ 0 then maxFromPass
  else -1   -- (the bit-depth fallback is not reachable with totalPasses > 0)

/-- buildAndDecodeCodeBlocks / decodeCodeBlock for a block of `w × h`: zeros when not decoded (`shouldDecode`), when
    the pass counts claim 31 or more bit-planes, or on a T1 error; otherwise DecodeWithBitplane(data, numPasses, maxBitplane) with OpenJPEG reconstruction, then `/= 2` -/
def t1Decode (w h orient nb : Nat) (i : Incl) (data : List Nat) : Option (List Int) :=
  let est := estimateMaxBitplane i.numPasses i.zbp nb
  -- buildAndDecodeCodeBlocks: 31 or more claimed bit-planes (more than an int32 coefficient has) = corrupt block,
  -- `info.maxBitplane = -1`, left at zero (repair of C09 class c09-time-j2k-claimed-coding-passes)
  let mbp : Int := if est ≥ 31 then -1 else est
  if data.isEmpty ∨ mbp < 0 then some (List.replicate (w * h) 0) else
  match T1.decodeBlockOJ w h orient 0 i.numPasses mbp data with
  | .ok out => some (out.map T1.halveT)
  | .err => some (List.replicate (w * h) 0)
  | .panic => none

/-! ### the tile body from coefficients: buildTilePacketEncoder's blocks through T1 into packets, and back -/

/-- a code-block of a precinct band: grid position and the block -/
structure PBlk where
  x : Nat
  y : Nat
  blk : Blk
deriving Repr, DecidableEq

structure PBand where
  w : Nat
  h : Nat
  blks : List PBlk
deriving Repr, DecidableEq

abbrev PPacket := List PBand

def codeBlk (pb : PBlk) : Option CB := (t1Encode pb.blk).map fun r => ⟨pb.x, pb.y, r.2.1, r.1, r.2.2⟩
def codeBand (b : PBand) : Option Band := (b.blks.mapM codeBlk).map fun cbs => ⟨b.w, b.h, cbs⟩
def codePacket (p : PPacket) : Option Packet := p.mapM codeBand

/-- encodeTilePackets + packetsToBytes: T1 on every block, then the packets -/
def encodeTileBody (ps : List PPacket) : Option (List Nat) := (ps.mapM codePacket).map encTile

/-- what the decoder derives from SIZ/COD/QCD for a block: grid position, size, orientation, bandNumbps -/
structure BlkGeo where
  x : Nat
  y : Nat
  w : Nat
  h : Nat
  orient : Nat
  nb : Nat
deriving Repr, DecidableEq

structure BandGeo where
  w : Nat
  h : Nat
  blks : List BlkGeo
deriving Repr, DecidableEq

def BandGeo.spec (g : BandGeo) : BandSpec := ⟨g.w, g.h, g.blks.map fun b => (b.x, b.y)⟩

def PBlk.geo (pb : PBlk) : BlkGeo := ⟨pb.x, pb.y, pb.blk.w, pb.blk.h, pb.blk.orient, pb.blk.nb⟩
def PBand.geo (b : PBand) : BandGeo := ⟨b.w, b.h, b.blks.map PBlk.geo⟩

def decodeBand (g : BandGeo) (out : List (Incl × List Nat)) : Option (List (List Int)) :=
  (g.blks.zip out).mapM fun q => t1Decode q.1.w q.1.h q.1.orient q.1.nb q.2.1 q.2.2

/-- a packet without header leaves its blocks out of cbDataMap: zero coefficients -/
def decodePacketBlocks (g : List BandGeo) : Option (List (List (Incl × List Nat))) → Option (List (List (List Int)))
  | none => some (g.map fun b => b.blks.map fun k => List.replicate (k.w * k.h) 0)
  | some outs => (g.zip outs).mapM fun q => decodeBand q.1 q.2

/-- DecodePackets + buildAndDecodeCodeBlocks: coefficients of every block, in packet / band / block order -/
def decodeTileBody (gs : List (List BandGeo)) (data : List Nat) : Option (List (List (List (List Int)))) :=
  match decTile (gs.map fun g => g.map BandGeo.spec) data with
  | none => none
  | some (os, _) => (gs.zip os).mapM fun q => decodePacketBlocks q.1 q.2

end J2kGlue
