import GdcVerif.Model.JpegLossless
/-!
  Model of /repo/jpeg/standard/optimal_huffman.go `BuildOptimalHuffmanTable`
  (libjpeg's jpeg_gen_optimal_table / T.81 Annex K.2), code-shaped.

  `bits` is the Go array `[maxHuffmanCodeLength + 1]int` = 257 entries (`maxHuffmanCodeLength = 256`
  since fix PENDING:c11-huffman-depth-over-32; it was 32, i.e. 33 entries): `bits[size]++` with `size > 256`
  would be an index panic in Go — the `panic` outcome here, kept explicit; `buildOptimal_total` shows
  it is unreachable (a tree over 256 symbols + the pseudo-symbol is at most 256 levels deep).
  The `for symbol >= 0` walks of `incrementCodeSize` / `lastBranchSymbol` follow the `others` links; they terminate in Go because
  the links form disjoint finite chains.  The model walks with fuel 257 (one more than the
  longest possible chain) and reports fuel exhaustion as `err` (= "would not terminate"); the
  theorems show neither `panic` nor `err` is reachable for any 256 frequencies.
  uint64 frequency sums are modelled in `Nat` (sums of at most 257 counts ≤ 2^32 each cannot wrap).
-/
namespace JLL.Opt

def maxLen : Nat := 256     -- maxHuffmanCodeLength

/-- `smallestFrequencySymbol(freq, excluded)`: last index among the minimal non-zero entries
    (`value <= smallest`), -1 if none -/
def smallestGo (excluded : Int) : List Nat → Nat → Int → Nat → Int
  | [], _, symbol, _ => symbol
  | value :: rest, i, symbol, smallest =>
    if value ≠ 0 ∧ (i : Int) ≠ excluded ∧ (symbol < 0 ∨ value ≤ smallest) then
      smallestGo excluded rest (i + 1) i value
    else smallestGo excluded rest (i + 1) symbol smallest
def smallestFrequencySymbol (freq : Array Nat) (excluded : Int) : Int :=
  smallestGo excluded freq.toList 0 (-1) 0

/-- `incrementCodeSize(codeSize, others, symbol)` -/
def incrementCodeSize (others : Array Int) : Nat → Array Nat → Int → Outcome (Array Nat)
  | 0, _, _ => .err
  | fuel + 1, codeSize, symbol =>
    if symbol ≥ 0 then
      match codeSize[symbol.toNat]?, others[symbol.toNat]? with
      | some c, some nxt => incrementCodeSize others fuel (codeSize.setIfInBounds symbol.toNat (c + 1)) nxt
      | _, _ => .panic
    else .ok codeSize

/-- `lastBranchSymbol(others, symbol)` -/
def lastBranchSymbol (others : Array Int) : Nat → Int → Outcome Nat
  | 0, _ => .err
  | fuel + 1, symbol =>
    if symbol < 0 then .panic else
    match others[symbol.toNat]? with
    | none => .panic
    | some nxt => if nxt ≥ 0 then lastBranchSymbol others fuel nxt else .ok symbol.toNat

structure St where
  freq     : Array Nat     -- [257]uint64
  codeSize : Array Nat     -- [257]int
  others   : Array Int     -- [257]int
deriving Repr

/-- the merge loop `for { c1 := …; c2 := …; if c2 < 0 { break } … }`; each iteration zeroes one
    non-zero frequency, so 257 iterations of fuel suffice -/
def mergeLoop : Nat → St → Outcome St
  | 0, _ => .err
  | fuel + 1, st =>
    let c1 := smallestFrequencySymbol st.freq (-1)
    let c2 := smallestFrequencySymbol st.freq c1
    if c2 < 0 then .ok st else
    if c1 < 0 then .panic else        -- freq[c1] with c1 = -1 (cannot happen when c2 ≥ 0)
    match st.freq[c1.toNat]?, st.freq[c2.toNat]? with
    | some f1, some f2 => do
      let freq := (st.freq.setIfInBounds c1.toNat (f1 + f2)).setIfInBounds c2.toNat 0
      let cs1 ← incrementCodeSize st.others 258 st.codeSize c1
      let last ← lastBranchSymbol st.others 258 c1
      let others := st.others.setIfInBounds last c2
      let cs2 ← incrementCodeSize others 258 cs1 c2
      mergeLoop fuel { freq := freq, codeSize := cs2, others := others }
    | _, _ => .panic

/-- `for _, size := range codeSize { if size > 0 { bits[size]++ } }` over `bits [257]int` -/
def countSizes : List Nat → Array Int → Outcome (Array Int)
  | [], bits => .ok bits
  | size :: rest, bits =>
    if size > 0 then
      match bits[size]? with
      | some b => countSizes rest (bits.setIfInBounds size (b + 1))
      | none => .panic                      -- bits[size] with size > 256
    else countSizes rest bits

/-- inner `for bits[size] > 0 { … }` of the length-limiting loop (Figure K.3); every index is
    within [0, 256] for size in 17..256 except `prefixSize` running below 0 -/
def limitAt (size : Nat) : Nat → Array Int → Outcome (Array Int)
  | 0, _ => .err
  | fuel + 1, bits =>
    match bits[size]? with
    | none => .panic
    | some b =>
      if b > 0 then
        -- prefixSize := size - 2; for bits[prefixSize] == 0 { prefixSize-- }
        let rec findPrefix : Nat → Nat → Outcome Nat
          | 0, _ => .panic                   -- prefixSize would go below 0: bits[-1]
          | f + 1, p =>
            match bits[p]? with
            | none => .panic
            | some v => if v = 0 then (if p = 0 then .panic else findPrefix f (p - 1)) else .ok p
        match findPrefix (size + 1) (size - 2) with
        | .ok p =>
          -- bits[size] -= 2; bits[size-1]++; bits[prefixSize+1] += 2; bits[prefixSize]-- (sequential)
          let upd (a : Array Int) (i : Nat) (d : Int) : Outcome (Array Int) :=
            match a[i]? with
            | some v => .ok (a.setIfInBounds i (v + d))
            | none => .panic
          match (do let a ← upd bits size (-2); let a ← upd a (size - 1) 1; let a ← upd a (p + 1) 2; upd a p (-1)) with
          | .ok a => limitAt size fuel a
          | .err => .err
          | .panic => .panic
        | .err => .err
        | .panic => .panic
      else .ok bits

/-- `for size := 256; size > 16; size-- { … }`; the inner loop removes 2 from `bits[size]` per round
    and the entries sum to at most 257, so 300 rounds of fuel suffice -/
def limitLoop : List Nat → Array Int → Outcome (Array Int)
  | [], bits => .ok bits
  | size :: rest, bits => do
    let b ← limitAt size 300 bits
    limitLoop rest b

/-- `for size := 256; size > 0; size-- { if bits[size] > 0 { bits[size]--; break } }` -/
def removePseudo : List Nat → Array Int → Array Int
  | [], bits => bits
  | size :: rest, bits =>
    match bits[size]? with
    | some b => if b > 0 then bits.setIfInBounds size (b - 1) else removePseudo rest bits
    | none => bits

/-- `for size := 1; size <= 256; size++ { for symbol := 0; symbol < 256; symbol++ { if codeSize[symbol] == size { append } } }` -/
def sortValues (codeSize : Array Nat) : List Nat :=
  (List.range' 1 maxLen).flatMap fun size =>
    (List.range 256).filter fun symbol => codeSize[symbol]? = some size

/-- `BuildOptimalHuffmanTable(frequencies)`: (Bits[0..15], Values) — `frequencies` has 256 entries -/
def buildOptimal (frequencies : List Nat) : Outcome (List Int × List Nat) := do
  let freq := (frequencies ++ [1]).toArray          -- freq[256] = 1 (pseudo-symbol)
  let st ← mergeLoop 258 { freq := freq, codeSize := Array.replicate 257 0, others := Array.replicate 257 (-1) }
  let bits ← countSizes st.codeSize.toList (Array.replicate (maxLen + 1) (0 : Int))
  let bits ← limitLoop ((List.range' 17 240).reverse) bits
  let bits := removePseudo ((List.range' 1 maxLen).reverse) bits
  pure ((bits.toList.drop 1).take 16, sortValues st.codeSize)   -- table.Bits[size-1] = bits[size], size = 1..16

end JLL.Opt
