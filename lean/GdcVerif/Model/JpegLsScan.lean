import GdcVerif.Model.JpegLsRun
/-!
  Code-shaped model of a whole JPEG-LS scan (entropy-coded segment), for one component (ILV = 0:
  `encodeComponent` / `decodeComponent`, edge registers `prevFirstPrev` / `prevNeg1`) and for
  sample-interleaved scans (ILV = 2: `encodeSampleInterleaved` / `decodeSampleInterleaved`,
  `sampleNeighbors`, `previousLineFirst` / `previousPreviousLineFirst`).

  jpegls/lossless and jpegls/nearlossless carry four separate copies of this walk (encoder and
  decoder each); at equal NEAR they are meant to be the same procedure, so there is ONE model,
  parametrised by NEAR, and every real copy is compared with it byte-for-byte / sample-for-sample
  by the `jls-scan-enc` / `jls-scan-dec` correspondence lines.

  The walk keeps the previous and the current line in one array `p2 = prev ++ cur` (the layout the
  run-segment model `JpegLsRun` uses); the first line has an all-zero previous line, which is what
  the code's `y > 0` guards amount to.  Loop-free pieces are the generated kernels.
-/
namespace JpegLsScan
open Gen.JpegLs JpegLsRun

structure ScanSt where
  ctxs : Array Context
  run : St
deriving Repr

/-- `Context.ComputeGolombParameter`: `for (N << k) < A && k < 16 { k++ }` -/
def golombParam (ctx : Context) : Nat → Int → Int
  | 0, k => k
  | f + 1, k => if ctx.N * 2 ^ k.toNat < ctx.A ∧ k < 16 then golombParam ctx f (k + 1) else k

def initSt (t : Traits) : ScanSt :=
  { ctxs := Array.replicate 365 (NewContext t.Range),
    run := { runIndex := 0, ctx0 := NewRunModeContext 0 t.Range, ctx1 := NewRunModeContext 1 t.Range } }

/-- neighbours (Ra, Rb, Rc, Rd) of column `x` of the current line, component `comp`
    (`getNeighbors` for x > 0, the x = 0 branch of the line loops, `sampleNeighbors`) -/
def neighbors (p2 : Array Int) (width comps x comp : Int) (pplf : Int) : R (Int × Int × Int × Int) := do
  if x = 0 then
    let plf ← px p2 comp
    let d ← if width > 1 then px p2 (comps + comp) else pure plf
    .ok (plf, plf, pplf, d)
  else
    let a ← px p2 ((width + x - 1) * comps + comp)
    let b ← px p2 (x * comps + comp)
    let c ← px p2 ((x - 1) * comps + comp)
    let d ← px p2 ((min (x + 1) (width - 1)) * comps + comp)
    .ok (a, b, c, d)

def getCtx (cs : Array Context) (i : Int) : R Context :=
  if i < 0 then .error .err else match cs[i.toNat]? with | some c => .ok c | none => .error .err

/-- regular-mode sample, encoder (`encodeRegularSample` / the `qs != 0` branch of `encodeComponent`) -/
def encRegular (t : Traits) (cs : Array Context) (qs a b c xs : Int) : R (List (Nat × Int) × Array Context × Int) := do
  let sign := BitwiseSign qs
  let idx := ApplySign qs sign
  let ctx ← getCtx cs idx
  let k := golombParam ctx 17 0
  let pxv := Traits.CorrectPrediction t (Predict a b c + ApplySign ctx.C sign)
  let e := Traits.ComputeErrorValue t (ApplySign (xs - pxv) sign)
  let mapped := MapErrorValue (Go.xor (Context.GetErrorCorrection ctx k t.Near) e)
  let ws := Golomb.encodeWrites k mapped t.Limit t.Qbpp
  let cs := cs.set! idx.toNat (Context.UpdateContext ctx e t.Near t.Reset)
  .ok (ws, cs, Traits.ComputeReconstructedSample t pxv (ApplySign e sign))

/-- regular-mode sample, decoder (`decodeRegularSample` / the `qs != 0` branch of `decodeComponent`) -/
def decRegular (t : Traits) (cs : Array Context) (qs a b c : Int) (bs : List Bool) :
    R (Array Context × Int × List Bool) := do
  let sign := BitwiseSign qs
  let idx := ApplySign qs sign
  let ctx ← getCtx cs idx
  let k := golombParam ctx 17 0
  let pxv := Traits.CorrectPrediction t (Predict a b c + ApplySign ctx.C sign)
  match Golomb.decodeValue k t.Limit t.Qbpp bs with
  | none => .error .err
  | some (mapped, bs) =>
    let e := UnmapErrorValue mapped
    let e := if k = 0 then Go.xor e (Context.GetErrorCorrection ctx k t.Near) else e
    let cs := cs.set! idx.toNat (Context.UpdateContext ctx e t.Near t.Reset)
    .ok (cs, Traits.ComputeReconstructedSample t pxv (ApplySign e sign), bs)

/-- context ids of all components at column x -/
def contextIds (t : Traits) (p2 : Array Int) (width comps x : Int) (pplf : Array Int) :
    Nat → Int → List (Int × Int × Int × Int) → R (List (Int × Int × Int × Int))
  | 0, _, acc => .ok acc.reverse
  | n + 1, comp, acc => do
    let (a, b, c, d) ← neighbors p2 width comps x comp (pplf.getD comp.toNat 0)
    let q := GradientQuantizer.ComputeContext { T1 := t.T1, T2 := t.T2, T3 := t.T3, Near := t.Near } a b c d
    contextIds t p2 width comps x pplf n (comp + 1) ((ComputeContextID q.1 q.2.1 q.2.2, a, b, c) :: acc)

def encRegularAll (t : Traits) (width comps x : Int) :
    List (Int × Int × Int × Int) → Int → Array Int → Array Context → Golomb.Writer → R (Array Int × Array Context × Golomb.Writer)
  | [], _, p2, cs, w => .ok (p2, cs, w)
  | (qs, a, b, c) :: rest, comp, p2, cs, w => do
    let xs ← px p2 ((width + x) * comps + comp)
    let (ws, cs, rec) ← encRegular t cs qs a b c xs
    let p2 ← setPx p2 ((width + x) * comps + comp) rec
    encRegularAll t width comps x rest (comp + 1) p2 cs (Golomb.writeAll w ws)

def decRegularAll (t : Traits) (width comps x : Int) :
    List (Int × Int × Int × Int) → Int → Array Int → Array Context → List Bool → R (Array Int × Array Context × List Bool)
  | [], _, p2, cs, bs => .ok (p2, cs, bs)
  | (qs, a, b, c) :: rest, comp, p2, cs, bs => do
    let (cs, rec, bs) ← decRegular t cs qs a b c bs
    let p2 ← setPx p2 ((width + x) * comps + comp) rec
    decRegularAll t width comps x rest (comp + 1) p2 cs bs

/-- one line of the encoder walk (`for x < width { … }`) -/
def encLine (t : Traits) (width comps : Int) (pplf : Array Int) :
    Nat → Int → Array Int → ScanSt → Golomb.Writer → R (Array Int × ScanSt × Golomb.Writer)
  | 0, _, p2, st, w => .ok (p2, st, w)
  | f + 1, x, p2, st, w =>
    if x ≥ width then .ok (p2, st, w) else do
      let ids ← contextIds t p2 width comps x pplf comps.toNat 0 []
      if ids.all (fun q => q.1 == 0) then
        let (ws, processed, p2, run) ←
          if comps > 1 then encodeSegmentILV2 t width comps st.run p2 x
          else encodeSegmentILV0 t width st.run p2 x (match ids with | (_, a, _, _) :: _ => a | [] => 0)
        encLine t width comps pplf f (x + processed) p2 { st with run := run } (Golomb.writeAll w ws)
      else
        let (p2, cs, w) ← encRegularAll t width comps x ids 0 p2 st.ctxs w
        encLine t width comps pplf f (x + 1) p2 { st with ctxs := cs } w

def decLine (t : Traits) (width comps : Int) (pplf : Array Int) :
    Nat → Int → Array Int → ScanSt → List Bool → R (Array Int × ScanSt × List Bool)
  | 0, _, p2, st, bs => .ok (p2, st, bs)
  | f + 1, x, p2, st, bs =>
    if x ≥ width then .ok (p2, st, bs) else do
      let ids ← contextIds t p2 width comps x pplf comps.toNat 0 []
      if ids.all (fun q => q.1 == 0) then
        let (processed, p2, run, bs) ←
          if comps > 1 then decodeSegmentILV2 t width comps st.run p2 x bs
          else decodeSegmentILV0 t width st.run p2 x (match ids with | (_, a, _, _) :: _ => a | [] => 0) bs
        decLine t width comps pplf f (x + processed) p2 { st with run := run } bs
      else
        let (p2, cs, bs) ← decRegularAll t width comps x ids 0 p2 st.ctxs bs
        decLine t width comps pplf f (x + 1) p2 { st with ctxs := cs } bs

def firstOf (line : Array Int) (comps : Int) : Array Int := (List.range comps.toNat).toArray.map (fun c => line.getD c 0)

/-- the encoder's line loop: returns the writer after the last line (before `Flush`) and the
    reconstructed lines -/
def encLines (t : Traits) (width comps : Int) :
    List (Array Int) → Array Int → Array Int → Array Int → ScanSt → Golomb.Writer → List (Array Int) →
      R (Golomb.Writer × List (Array Int))
  | [], _, _, _, _, w, acc => .ok (w, acc.reverse)
  | line :: rest, prev, plf, pplf, st, w, acc => do
    let (p2, st, w) ← encLine t width comps pplf width.toNat 0 (prev ++ line) st w
    let cur := p2.extract prev.size p2.size
    encLines t width comps rest cur (firstOf cur comps) plf st w (cur :: acc)

def decLines (t : Traits) (width comps : Int) :
    Nat → Array Int → Array Int → Array Int → ScanSt → List Bool → List (Array Int) → R (List (Array Int))
  | 0, _, _, _, _, _, acc => .ok acc.reverse
  | n + 1, prev, plf, pplf, st, bs, acc => do
    let (p2, st, bs) ← decLine t width comps pplf width.toNat 0 (prev ++ Array.replicate prev.size 0) st bs
    let cur := p2.extract prev.size p2.size
    decLines t width comps n cur (firstOf cur comps) plf st bs (cur :: acc)

/-- entropy-coded segment of `Encode` for the given lines (each `width·comps` samples) -/
def scanEncode (t : Traits) (width comps : Int) (lines : List (Array Int)) : R (List Nat) := do
  let zero := Array.replicate (width * comps).toNat (0 : Int)
  let z := Array.replicate comps.toNat (0 : Int)
  let (w, _) ← encLines t width comps lines zero z z (initSt t) Golomb.Writer.new []
  .ok (Golomb.finish w).out

/-- samples `Decode` reconstructs from the entropy-coded segment -/
def scanDecode (t : Traits) (width height comps : Int) (scan : List Nat) : R (List (Array Int)) :=
  let zero := Array.replicate (width * comps).toNat (0 : Int)
  let z := Array.replicate comps.toNat (0 : Int)
  decLines t width comps height.toNat zero z z (initSt t) (Golomb.destuff scan false) []

end JpegLsScan
