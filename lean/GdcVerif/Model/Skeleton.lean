import GdcVerif.Model.Frames
import GdcVerif.Gen.Facts
/-!
  From a generated F3 skeleton (`Gen.Facts.Skel`, produced by gofacts from the Go source: the entry method
  with every callee inlined, reduced to which object fields each statement reads and writes) to a command of
  the verified field language of `Model/Frames.lean`.

  The translation is an information-flow abstraction: one extra field `$acc` accumulates everything the call
  has read so far (it is assigned from the frame first, so it is never exposed); a whole-field store writes a
  value that depends on `$acc`, a partial store additionally on the field itself, a branch and a loop count
  are decided by `$acc`, and the call's output is `$acc` at the end.  Every dependence the real code can have
  through the fields is a dependence of this command; its write / kill / exposed sets are computed by the
  functions proved sound in `Frames`.
-/
namespace Skeleton
open Frames Gen.Facts

abbrev V := List Nat
abbrev Fr := List Nat

def acc : String := "$acc"
def mix (a b : V) : V := a ++ b
def branch (v : V) : Bool := v.length % 2 == 0
def trips (v : V) : Nat := v.length % 3

def rdEx (fs : List String) : Ex String V Fr :=
  fs.foldl (fun e f => .app mix e (.fld f)) (.fld acc)

/-- `guardsFire = true`: a nil guard `if X == nil { return }` may skip the rest of its function (what the
    source says); `false`: the reading in which such guards never fire -/
def toCmd (guardsFire : Bool) : Skel → Cmd String V Fr
  | .nil => .skip
  | .rd fs => .set acc (rdEx fs)
  | .wr f => .set f (.fld acc)
  | .upd f => .set f (.app mix (.fld acc) (.fld f))
  | .seq a b => .seq (toCmd guardsFire a) (toCmd guardsFire b)
  | .alt a b => .ite (.fld acc) branch (toCmd guardsFire a) (toCmd guardsFire b)
  | .loop a => .rep (.fld acc) trips (toCmd guardsFire a)
  | .guard a => if guardsFire then .ite (.fld acc) branch .skip (toCmd guardsFire a) else toCmd guardsFire a

/-- one call of the entry method on one frame -/
def entryCmd (guardsFire : Bool) (sk : Skel) : Cmd String V Fr :=
  .seq (.set acc (.frm id)) (.seq (toCmd guardsFire sk) (.out (.fld acc)))

/-- the object's own fields that the call may read before writing them, and writes -/
def leakyFields (guardsFire : Bool) (sk : Skel) : List String :=
  (Cmd.leaky (entryCmd guardsFire sk)).eraseDups

def allReads : Cmd String V Fr → List String
  | .skip => []
  | .set _ e => e.reads
  | .out e => e.reads
  | .seq a b => allReads a ++ allReads b
  | .ite c _ a b => c.reads ++ allReads a ++ allReads b
  | .rep e _ b => e.reads ++ allReads b

/-- the class of a field computed HERE from the skeleton (to be compared with the class gofacts computed
    with its own, independent, kill analysis) -/
def classOf (c : Cmd String V Fr) (f : String) : String :=
  if f ∉ c.writes then "config"
  else if f ∈ c.exposed then "leaky"
  else if f ∈ allReads c then "killed" else "writeonly"

def guardCount : Skel → Nat
  | .guard a => guardCount a + 1
  | .seq a b => guardCount a + guardCount b
  | .alt a b => guardCount a + guardCount b
  | .loop a => guardCount a
  | _ => 0

end Skeleton
