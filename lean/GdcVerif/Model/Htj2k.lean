import GdcVerif.GoPrelude
import GdcVerif.Gen.Htj2k
import GdcVerif.Gen.Htj2kEnc
import GdcVerif.Gen.Htj2kDec
/-
  Models of the HTJ2K pieces of /repo/jpeg2000/htj2k (property C06).

  Hand-written, code-shaped, executable; tied to the Go code by the correspondence run of
  check C06 (ops `mel-enc`, `mel-dec`, `ojph-mel-enc`, `htj2k-maxlevels`, `htj2k-kmax`, ...).

  * MEL coder: `MELEncoder` / `MELDecoder` of mel.go (and, textually identical on the encoder
    side, `ojphMELWriter.encode/emitBit` of openjph_cleanup_encoder.go).
  * `calculateMaxLevels`, `nearestPowerOf2` (codec.go / parameters.go; loops, so not go2lean kernels).
  * band precision (Kmax): `calculateOpenJPHQuantizationParams` (lossless branch, a float formula
    tabulated here), `Encoder.bandNumbps`, `writeQCD` byte, `bandNumbpsFromQCD` (style 0).
  * sign-magnitude conversion at the two ends of the cleanup pass
    (`encodeOpenJPHCleanup` first loop, `decodeOpenJPHCleanup` last loop).
  * Psot / TPsot / TNsot / TLM arithmetic of `writeHTJ2KTileParts` / `writeTLM`.

  NOT modelled: the quad-pair control flow of the cleanup pass (`openjph_cleanup_*`), MagSgn and
  VLC bit packing, `ojphMELReader` (run-length formulation of the MEL decoder).
-/
namespace Htj2k

abbrev Byte := Nat

/-! ## MEL exponent table (mel_spec.go `MelE`, generated) -/

/-- `MelE[k]`; `k : Fin 13` because every use in mel.go is guarded by `k < 12` / `k > 0`
    (an index ≥ 13 would be a Go panic; it cannot be formed here). -/
def melE (k : Fin 13) : Nat :=
  (Gen.Htj2k.MelE[k.val]'(by have : Gen.Htj2k.MelE.size = 13 := by decide
                             omega)).toNat

/-- `if m.k < 12 { m.k++ }` -/
def kInc (k : Fin 13) : Fin 13 := if h : k.val < 12 then ⟨k.val + 1, by omega⟩ else k
/-- `if m.k > 0 { m.k-- }` -/
def kDec (k : Fin 13) : Fin 13 := if k.val > 0 then ⟨k.val - 1, by omega⟩ else k

/-! ## MEL bit packer (`MELEncoder.emitBit`, `Flush`; same text in `ojphMELWriter.emitBit`) -/

/-- `buf`, `tmp` (uint8), `remainingBits` of `MELEncoder` -/
structure MelPacker where
  buf : List Byte := []
  tmp : Nat := 0
  remainingBits : Nat := 8
deriving Repr, DecidableEq

/-- `m.tmp = (m.tmp << 1) | (b & 1); m.remainingBits--; if m.remainingBits == 0 { append; 7 after 0xFF else 8; tmp = 0 }`
    (`tmp << 1` has bit 0 clear, so `| (b&1)` is `+ b`; uint8 wrap kept as `% 256`) -/
def MelPacker.emitBit (p : MelPacker) (b : Bool) : MelPacker :=
  let tmp := (2 * p.tmp + b.toNat) % 256
  let rem := p.remainingBits - 1
  if rem = 0 then
    { buf := p.buf ++ [tmp], tmp := 0, remainingBits := if tmp = 255 then 7 else 8 }
  else
    { buf := p.buf, tmp := tmp, remainingBits := rem }

def MelPacker.emitBits (p : MelPacker) (bs : List Bool) : MelPacker := bs.foldl MelPacker.emitBit p

/-- tail of `Flush`: `if m.remainingBits != 8 { m.tmp <<= m.remainingBits; append }` -/
def MelPacker.flushBytes (p : MelPacker) : List Byte :=
  if p.remainingBits ≠ 8 then p.buf ++ [p.tmp * 2 ^ p.remainingBits % 256] else p.buf

/-! ## MEL encoder (`MELEncoder.EncodeBit`, `Flush`) -/

structure MelEnc where
  pk : MelPacker := {}
  run : Nat := 0
  k : Fin 13 := 0
  threshold : Nat := 1
deriving Repr, DecidableEq

/-- `for t > 0 { t--; m.emitBit(uint8((m.run >> t) & 1)) }` -/
def emitRunBits (pk : MelPacker) (run : Nat) : Nat → MelPacker
  | 0 => pk
  | t + 1 => emitRunBits (pk.emitBit (run / 2 ^ t % 2 = 1)) run t

/-- `MELEncoder.EncodeBit(bit)`: `bit == 0` is `false` -/
def MelEnc.encodeBit (m : MelEnc) (bit : Bool) : MelEnc :=
  if bit = false then
    let run := m.run + 1
    if run ≥ m.threshold then
      let pk := m.pk.emitBit true
      let k := kInc m.k
      { pk := pk, run := 0, k := k, threshold := 2 ^ melE k }
    else
      { m with run := run }
  else
    let pk := m.pk.emitBit false
    let pk := emitRunBits pk m.run (melE m.k)
    let k := kDec m.k
    { pk := pk, run := 0, k := k, threshold := 2 ^ melE k }

def MelEnc.encodeAll (m : MelEnc) (bits : List Bool) : MelEnc := bits.foldl MelEnc.encodeBit m

/-- `MELEncoder.Flush()` -/
def MelEnc.flush (m : MelEnc) : List Byte :=
  let m := if m.run > 0 then m.encodeBit true else m
  m.pk.flushBytes

/-- `NewMELEncoder(); for b in bits { EncodeBit(b) }; Flush()` -/
def melEncode (bits : List Bool) : List Byte := (MelEnc.encodeAll {} bits).flush

/-! ## MEL decoder (`MELDecoder.readBit`, `DecodeBit`) -/

/-- bit reader part of `MELDecoder`: `rest` is `data[pos:]` -/
structure MelReader where
  rest : List Byte
  lastByte : Nat := 0
  bits : Nat := 0
  buf : Nat := 0
deriving Repr, DecidableEq

/-- `MELDecoder.readBit`; `none` is `(0, false)` -/
def MelReader.readBit (r : MelReader) : Option (Bool × MelReader) :=
  if r.bits = 0 then
    match r.rest with
    | [] => none
    | b :: rest =>
      -- `if m.lastByte == 0xFF { buf = (b & 0x7F) << 1; bits = 7 } else { buf = b; bits = 8 }`
      let buf := if r.lastByte = 255 then b % 128 * 2 % 256 else b
      let bits := if r.lastByte = 255 then 7 else 8
      -- `bit := (m.buf >> 7) & 1; m.buf <<= 1; m.bits--`
      some (buf / 128 % 2 = 1, { rest := rest, lastByte := b, bits := bits - 1, buf := buf * 2 % 256 })
  else
    some (r.buf / 128 % 2 = 1, { r with bits := r.bits - 1, buf := r.buf * 2 % 256 })

structure MelDec where
  rd : MelReader
  k : Fin 13 := 0
  pendingZeros : Nat := 0
  pendingOne : Bool := false
deriving Repr, DecidableEq

/-- `for i := 0; i < eval; i++ { b, ok := readBit(); runVal = (runVal << 1) | int(b) }` -/
def readRunBits (rd : MelReader) : Nat → Nat → Option (Nat × MelReader)
  | 0, acc => some (acc, rd)
  | t + 1, acc =>
    match rd.readBit with
    | none => none
    | some (b, rd') => readRunBits rd' t (2 * acc + b.toNat)

/-- the head of `DecodeBit`: serve a pending symbol -/
def MelDec.pending (m : MelDec) : Option (Bool × MelDec) :=
  if m.pendingZeros > 0 then some (false, { m with pendingZeros := m.pendingZeros - 1 })
  else if m.pendingOne then some (true, { m with pendingOne := false })
  else none

/-- `MELDecoder.DecodeBit`; `none` is `(0, false)`. The tail call `return m.DecodeBit()` always lands
    in the pending head (a run of `1<<eval ≥ 1` zeros, or `pendingOne`); `MelDec.pending` returning `none`
    there is unreachable (lemma `decodeBit_tail_pending`). -/
def MelDec.decodeBit (m : MelDec) : Option (Bool × MelDec) :=
  match m.pending with
  | some r => some r
  | none =>
    match m.rd.readBit with
    | none => none
    | some (lead, rd) =>
      let eval := melE m.k
      if lead then
        ({ m with rd := rd, pendingZeros := 2 ^ eval, k := kInc m.k } : MelDec).pending
      else
        match readRunBits rd eval 0 with
        | none => none
        | some (runVal, rd) =>
          ({ m with rd := rd, pendingZeros := runVal, pendingOne := true, k := kDec m.k } : MelDec).pending

/-- `n` calls of `DecodeBit`; returns the symbols decoded before the first failure and whether all succeeded -/
def MelDec.decodeN : Nat → MelDec → List Bool × Bool
  | 0, _ => ([], true)
  | n + 1, m =>
    match m.decodeBit with
    | none => ([], false)
    | some (b, m') => let r := MelDec.decodeN n m'; (b :: r.1, r.2)

/-- `NewMELDecoder(data)` then `n` × `DecodeBit` -/
def melDecode (data : List Byte) (n : Nat) : List Bool × Bool := MelDec.decodeN n { rd := { rest := data } }

/-! ## `calculateMaxLevels` (codec.go) and `nearestPowerOf2` (parameters.go) -/

/-- `for (1 << maxLevels) < minDim { maxLevels++ }` with 64 units of fuel: Go's `1 << 63` is negative and
    `1 << 64` is 0, so for `minDim > 2^62` the Go loop does not terminate; for `minDim ≤ 2^62` it stops
    within 62 steps (lemma `maxLevelsLoop_exits`). -/
def maxLevelsLoop (minDim : Int) : Nat → Nat → Nat
  | 0, l => l
  | f + 1, l => if (2 : Int) ^ l < minDim then maxLevelsLoop minDim f (l + 1) else l

def calculateMaxLevels (width height : Int) : Int :=
  let minDim := if height < width then height else width
  if minDim ≤ 0 then 0
  else
    let maxLevels := (maxLevelsLoop minDim 64 0 : Nat)
    if maxLevels > 6 then 6 else maxLevels

/-- `for power < n { power <<= 1 }` -/
def pow2Loop (n : Int) : Nat → Int → Int
  | 0, p => p
  | f + 1, p => if p < n then pow2Loop n f (p * 2) else p

def nearestPowerOf2 (n : Int) : Int :=
  if n ≤ 0 then 1
  else
    let power := pow2Loop n 64 1
    let prevPower := power / 2
    if n - prevPower < power - n then prevPower else power

/-! ## Band precision (Kmax) -/

/-- `math.Ceil(math.Log2(v*v))` for the BIBO gains of `calculateOpenJPHQuantizationParams` (lossless branch),
    tabulated (the Go code computes it in float64): `res = 0` is the LL band of `numLevels`; for `res ≥ 1`
    the decomposition index is `d = numLevels - res + 1`. Values checked against the real code for every
    `numLevels ∈ 0..6` by the correspondence op `htj2k-kmax`. -/
def biboLog2 (numLevels res band : Nat) : Nat :=
  if res = 0 then (if numLevels = 0 then 0 else 2)
  else
    let d := numLevels - res + 1
    if band = 3 then (if d = 1 then 2 else if d ≤ 5 then 3 else 4)
    else (if d = 1 then 2 else 3)

/-- exponent of a band as `quantizationInfo` stores it (`info.expn[idx] = EncodedSteps[idx] >> 3`):
    `precision + ceil(log2(v²)) - 1`, `precision = bitDepth (+1 with RCT)`; since commit 18c42dd
    `numLevels == 0` gives `precision` itself (the only band holds the level-shifted samples). -/
def htExpn (numLevels bitDepth : Nat) (usesRCT : Bool) (res band : Nat) : Int :=
  let precision : Int := (bitDepth : Int) + (if usesRCT then 1 else 0)
  if numLevels = 0 then precision
  else precision + biboLog2 numLevels res band - 1

/-- OpenJPH reversible path: one guard bit -/
def htGuardBits : Int := 1

/-- `Encoder.bandNumbps(res, band)` for an existing band: `info.expn[idx] + info.guardBits - 1` -/
def encBandNumbps (numLevels bitDepth : Nat) (usesRCT : Bool) (res band : Nat) : Int :=
  htExpn numLevels bitDepth usesRCT res band + htGuardBits - 1

/-- the QCD bytes: `Sqcd = uint8(guardBits << 5)`, `SPqcd[idx] = uint8(expn << 3)` (writeQCD, lossless) -/
def qcdSqcd (guard : Int) : Int := Go.uwrap8 (guard * 32)
def qcdSPqcd (expn : Int) : Int := Go.uwrap8 (expn * 8)

/-- `bandNumbpsFromQCD`, style 0: `int(SPqcd[idx] >> 3) + GuardBits() - 1` with `GuardBits() = Sqcd >> 5` -/
def decBandNumbps (sqcd spqcd : Int) : Int := spqcd / 8 + sqcd / 32 - 1

/-! ## Sign-magnitude words at the two ends of the cleanup pass -/

/-- `encodeOpenJPHCleanup`, first loop body: `sign|uint32(mag) << (31-kmax)` (uint32 arithmetic) -/
def toSignMag (kmax : Nat) (v : Int) : Nat :=
  let sign := if v < 0 then 2 ^ 31 else 0
  let mag := v.natAbs
  let val := mag * 2 ^ (31 - kmax) % 2 ^ 32
  sign ||| val

/-- `decodeOpenJPHCleanup`, last loop body: `mag := (v & 0x7FFFFFFF) >> shift; if v&0x80000000 != 0 { mag = -mag }` -/
def fromSignMag (kmax : Nat) (w : Nat) : Int :=
  let mag : Int := ((w % 2 ^ 31) / 2 ^ (31 - kmax) : Nat)
  if w / 2 ^ 31 % 2 = 1 then -mag else mag

/-- what `prepareOJPHSample` keeps of a word: `(t + t) >> p` with `p = 30 - (kmax-1)` drops the sign bit and
    everything below the Kmax magnitude bits; a word whose magnitude field is 0 is coded as insignificant. -/
def magField (kmax : Nat) (w : Nat) : Nat := (2 * w % 2 ^ 32) / 2 ^ (31 - kmax + 1)

/-! ## Reversible 5/3 lifting steps (wavelet/dwt53.go) and the BIBO gain tables (quantization.go) -/

/-- predict step: `high = odd - ((evenL + evenR) >> 1)` (`>>` on a signed int is floor division) -/
def lift53High (evenL odd evenR : Int) : Int := odd - (evenL + evenR) / 2
/-- update step: `low = even + ((highL + highR + 2) >> 2)` -/
def lift53Low (highL even highR : Int) : Int := even + (highL + highR + 2) / 4

/-- `openJPH53LowBIBO[d]`, `openJPH53HighBIBO[d]` of quantization.go, × 10^4 (hand copy of the float literals;
    `biboLog2` — which the correspondence ties to the real code — is proved to be their ceil-log2) -/
def bibo53Low : Nat → Nat
  | 0 => 10000 | 1 => 15000 | 2 => 16250 | 3 => 16875 | 4 => 16963 | 5 => 17067 | _ => 17116
def bibo53High : Nat → Nat
  | 0 => 20000 | 1 => 25000 | 2 => 27500 | 3 => 28047 | 4 => 28198 | _ => 28410

/-- nominal two-dimensional BIBO gain of a band × 10^8 (the `v*v` of `calculateOpenJPHQuantizationParams`) -/
def bandGain (numLevels res band : Nat) : Nat :=
  if res = 0 then bibo53Low numLevels * bibo53Low numLevels
  else
    let d := numLevels - res + 1
    if band = 3 then bibo53High (d - 1) * bibo53High (d - 1) else bibo53Low d * bibo53High (d - 1)

/-! ## Scup locator (encoder.go `writeScupLocator`, decoder.go `parseStandardSegments`) -/

/-- `block[len-1] = byte(scup >> 4); block[len-2] = (block[len-2] & 0xF0) | byte(scup & 0x0F)`:
    returns the new (block[len-2], block[len-1]); `&0xF0 | low nibble` written arithmetically -/
def scupWrite (oldLast2 scup : Nat) : Nat × Nat := (oldLast2 % 256 / 16 * 16 + scup % 16, scup / 16 % 256)

/-- `scup := int(codeblock[lcup-1])<<4 | int(codeblock[lcup-2]&0x0F)` -/
def scupRead (last2 last1 : Nat) : Nat := last1 * 16 + last2 % 16

/-- `parseStandardSegments`: `lcup < 2` or `scup < 2 || scup > lcup || scup > 4079` is an error; otherwise the
    MagSgn segment is `codeblock[:lcup-scup]` and the MEL+VLC segment `codeblock[lcup-scup:]` -/
def scupSplit (lcup scup : Nat) : Option (Nat × Nat) :=
  if lcup < 2 ∨ scup < 2 ∨ scup > lcup ∨ scup > 4079 then none else some (lcup - scup, scup)

/-! ## Tile-part lengths (`writeHTJ2KTileParts`, `writeTLM`) -/

/-- one tile-part as `writeHTJ2KTileParts` lays it out: SOT marker (2) Lsot (2) Isot (2) Psot (4) TPsot (1)
    TNsot (1), tile-part header (`hdr` bytes, RGN only in part 0), SOD (2), packet bytes -/
def tilePartLen (hdr data : Nat) : Nat := 12 + hdr + 2 + data

/-- the value written into Psot: `uint32(len(data) + tileHeader.Len() + 14)` -/
def psotOf (hdr data : Nat) : Nat := (data + hdr + 14) % 2 ^ 32

/-- `(hdr, data)` per part → the Psot fields, in order -/
def psots (parts : List (Nat × Nat)) : List Nat := parts.map (fun p => psotOf p.1 p.2)

/-- `writeTLM`'s walk over the tile-part buffer of total length `total`, following Psot values:
    returns the offsets visited, or `none` when a length is `< 14` or overruns the buffer. -/
def tlmWalk (total : Nat) : List Nat → Nat → Option (List Nat)
  | [], off => if off = total then some [] else none
  | p :: ps, off =>
    if p < 14 ∨ off + p > total then none
    else (tlmWalk total ps (off + p)).map (off :: ·)

/-- framing facts of a codestream, as the harness's independent reader observed them:
    `span` = bytes between the first SOT and EOC; TPsot = 0,1,…; TNsot = count (or 0); TLM = Psot list (if present) -/
def tilePartsOk (span : Nat) (eocOk : Bool) (psot tps tns tlm : List Nat) : Bool :=
  eocOk && decide (psot.sum = span) && decide (tps = List.range psot.length) &&
  tns.all (fun t => t = psot.length ∨ t = 0) && decide (tns.length = psot.length) &&
  (tlm.isEmpty || decide (tlm = psot))

/-! ## Prefix-freeness of the VLC source tables (LSB-first codewords, per context) -/

/-- rows are `{c_q, rho, u_off, e_k, e_1, cwd, cwd_len}`; a well-formed row (7 fields, c_q < 8, rho < 16,
    1 ≤ len ≤ 7, cwd < 2^len) yields the key (c_q, cwd, len), anything else `none` -/
def vlcRowKey (row : Array Int) : Option (Nat × Nat × Nat) :=
  match row.toList with
  | [cq, rho, _uoff, _ek, _e1, cwd, len] =>
    if 0 ≤ cq ∧ cq < 8 ∧ 0 ≤ rho ∧ rho < 16 ∧ 1 ≤ len ∧ len ≤ 7 ∧ 0 ≤ cwd ∧ cwd < 2 ^ len.toNat then
      some (cq.toNat, cwd.toNat, len.toNat)
    else none
  | _ => none

/-- two codewords of one context clash when the shorter is a prefix (low bits: LSB-first) of the longer -/
def vlcClash (a b : Nat × Nat × Nat) : Bool :=
  a.1 == b.1 && (let l := min a.2.2 b.2.2; a.2.1 % 2 ^ l == b.2.1 % 2 ^ l)

def noClashWith (a : Nat × Nat × Nat) : List (Nat × Nat × Nat) → Bool
  | [] => true
  | b :: bs => !vlcClash a b && noClashWith a bs

def prefixFreeKeys : List (Nat × Nat × Nat) → Bool
  | [] => true
  | a :: rest => noClashWith a rest && prefixFreeKeys rest

/-- every row is well-formed and, within each context c_q = 0..7, no two rows have prefix-related codewords
    (rows of different contexts are never compared by the decoder: the context selects the sub-table) -/
def vlcTableOk (t : Array (Array Int)) : Bool :=
  match t.toList.mapM vlcRowKey with
  | some keys => (List.range 8).all (fun c => prefixFreeKeys (keys.filter (fun k => k.1 == c)))
  | none => false

/-- Kraft sum of a context in units of 2^-7: a complete prefix code has 128 -/
def vlcKraft (t : Array (Array Int)) (cq : Nat) : Nat :=
  match t.toList.mapM vlcRowKey with
  | some keys => (keys.filter (fun k => k.1 == cq)).foldl (fun acc k => acc + 2 ^ (7 - k.2.2)) 0
  | none => 0

/-! ## U-VLC code of the encoder (`ojphUVLC`) -/

/-- `ojphUVLC(code)`: (pre, preLen, suf, sufLen, ext, extLen) -/
def ojphUVLC (code : Int) : Int × Int × Int × Int × Int × Int :=
  if code ≤ 0 then (0, 0, 0, 0, 0, 0)
  else if code = 1 then (1, 1, 0, 0, 0, 0)
  else if code = 2 then (2, 2, 0, 0, 0, 0)
  else if code ≤ 4 then (4, 3, code - 3, 1, 0, 0)
  else if code ≤ 32 then (0, 3, code - 5, 5, 0, 0)
  else (0, 3, 28 + (code - 33).tmod 4, 5, (code - 33).tdiv 4, 4)

/-- the four U-VLC prefixes as (value, length), LSB first -/
def uvlcPrefixes : List (Nat × Nat × Nat) := [(0, 1, 1), (0, 2, 2), (0, 4, 3), (0, 0, 3)]

/-! ## U-VLC decode tables (uvlc_tables.go `generateUVLCTables`) and the encode/decode pair -/

/-- the local `dec` table: 3 LSBs of the window ↦ (prefix length lp, suffix length ls, prefix value u_pfx) -/
def uvlcDec (h : Nat) : Nat × Nat × Nat :=
  match h % 8 with
  | 0 => (3, 5, 5)   -- 000
  | 2 => (2, 0, 2)   -- 010
  | 4 => (3, 1, 3)   -- 100
  | 6 => (2, 0, 2)   -- 110
  | _ => (1, 0, 1)   -- xx1

/-- `UVLCDecodeEntry(lp | (ls << 3) | (u0suf << 7) | (u0 << 10) | (u1 << 13))` (fields are disjoint: `|` is `+`) -/
def uvlcPack (lp ls u0suf u0 u1 : Nat) : Nat := lp + ls * 8 + u0suf * 128 + u0 * 1024 + u1 * 8192

/-- body of the first loop: `UVLCTbl0[i]`, i < 320 (mode = i >> 6 ∈ 0..4) -/
def uvlcTbl0 (i : Nat) : Nat :=
  let mode := i / 64
  let vlc := i % 64
  if mode = 0 then 0
  else if mode = 1 ∨ mode = 2 then
    let (lp, ls, pfx) := uvlcDec vlc
    if mode = 2 then uvlcPack lp ls 0 0 pfx else uvlcPack lp ls ls pfx 0
  else if mode = 3 then
    let (lp0, ls0, pfx0) := uvlcDec vlc
    let vlc := vlc / 2 ^ lp0
    let (lp1, ls1, pfx1) := uvlcDec vlc
    if lp0 = 3 then uvlcPack (lp0 + 1) ls0 ls0 pfx0 (vlc % 2 + 1)
    else uvlcPack (lp0 + lp1) (ls0 + ls1) ls0 pfx0 pfx1
  else
    let (lp0, ls0, pfx0) := uvlcDec vlc
    let vlc := vlc / 2 ^ lp0
    let (lp1, ls1, pfx1) := uvlcDec vlc
    uvlcPack (lp0 + lp1) (ls0 + ls1) ls0 (pfx0 + 2) (pfx1 + 2)

/-- body of the second loop: `UVLCTbl1[i]`, i < 256 (mode ∈ 0..3) -/
def uvlcTbl1 (i : Nat) : Nat :=
  let mode := i / 64
  let vlc := i % 64
  if mode = 0 then 0
  else if mode = 1 ∨ mode = 2 then
    let (lp, ls, pfx) := uvlcDec vlc
    if mode = 2 then uvlcPack lp ls 0 0 pfx else uvlcPack lp ls ls pfx 0
  else
    let (lp0, ls0, pfx0) := uvlcDec vlc
    let vlc := vlc / 2 ^ lp0
    let (lp1, ls1, pfx1) := uvlcDec vlc
    uvlcPack (lp0 + lp1) (ls0 + ls1) ls0 pfx0 pfx1

/-- `decodeOJPHUVLC(initial, mode, vlc)` on the LSB-first window `v` (`readerPeek`): returns (u0, u1, bits consumed).
    `mode` is `(t0&8)<<3 | (t1&8)<<4` (+0x40 on the initial row when both quads have u_off and the MEL event is 1). -/
def decodeUVLC (initial : Bool) (mode v : Nat) : Nat × Nat × Nat :=
  let e := if initial then uvlcTbl0 (mode + v % 64) else uvlcTbl1 (mode + v % 64)
  let lp := e % 8                -- TotalPrefixLen
  let ls := e / 8 % 16           -- TotalSuffixLen
  let u0suf := e / 128 % 8       -- U0SuffixLen
  let v := v / 2 ^ lp            -- readerAdvance(lp); readerPeek
  let tmp := v % 2 ^ ls
  (e / 1024 % 8 + tmp % 2 ^ u0suf, e / 8192 % 8 + tmp / 2 ^ u0suf, lp + ls)

/-- `vlc.encode(cwd, len)` calls in order: LSB-first concatenation, only the low `len` bits of `cwd` are used -/
def vlcConcat : List (Nat × Nat) → Nat × Nat
  | [] => (0, 0)
  | (cwd, len) :: rest => let r := vlcConcat rest; (cwd % 2 ^ len + r.1 * 2 ^ len, len + r.2)

def uvlcCode (code : Nat) : (Nat × Nat) × (Nat × Nat) :=
  let (pre, preLen, suf, sufLen, _, _) := ojphUVLC code
  ((pre.toNat, preLen.toNat), (suf.toNat, sufLen.toNat))

/-- `ojphEncodeInitialUVLC(vlc, u0, u1)` -/
def encodeInitialUVLC (u0 u1 : Nat) : Nat × Nat :=
  if u0 > 2 ∧ u1 > 2 then
    let c0 := uvlcCode (u0 - 2); let c1 := uvlcCode (u1 - 2)
    vlcConcat [c0.1, c1.1, c0.2, c1.2]
  else if u0 > 2 ∧ u1 > 0 then
    let c0 := uvlcCode u0
    vlcConcat [c0.1, (u1 - 1, 1), c0.2]
  else
    let c0 := uvlcCode u0; let c1 := uvlcCode u1
    vlcConcat [c0.1, c1.1, c0.2, c1.2]

/-- `ojphEncodeNonInitialUVLC(vlc, u0, u1)` -/
def encodeNonInitialUVLC (u0 u1 : Nat) : Nat × Nat :=
  let c0 := uvlcCode u0; let c1 := uvlcCode u1
  vlcConcat [c0.1, c1.1, c0.2, c1.2]

/-- the decoder's mode for a quad pair: u_off flags of the two quads (u > 0), and on the initial row the MEL event
    `min(u0,u1) > 2` when both are set (encoder: `mel.encode(minInt(u0, u1) > 2)`) -/
def uvlcMode (initial : Bool) (u0 u1 : Nat) : Nat :=
  (if u0 > 0 then 64 else 0) + (if u1 > 0 then 128 else 0) +
  (if initial ∧ u0 > 2 ∧ u1 > 2 then 64 else 0)

/-! ## HT packet header: empty-band signalling (t2/packet_header_tagtree.go `encodeHTJ2KPacketHeader`) -/

/-- one sub-band's precinct as the header writer sees it: no code-block at all (`len(precinct.CodeBlocks) == 0`:
    skipped without a bit), code-blocks but none coded in this layer (`!tree.hasCoded`), or coded — then `body` is
    everything the band writes (inclusion / missing-MSB tree bits, pass counts, lengths of its blocks) -/
inductive HtBand where
  | absent
  | empty
  | coded (body : List Bool)
deriving Repr, DecidableEq

/-- `bb` (bits written so far), `coded`, `skippedBands` of `encodeHTJ2KPacketHeader` -/
structure HtHdrSt where
  out : List Bool := []
  coded : Bool := false
  skippedBands : Nat := 0
deriving Repr, DecidableEq

/-- one iteration of `for _, precinct := range precincts` -/
def HtHdrSt.band (st : HtHdrSt) : HtBand → HtHdrSt
  | .absent => st
  | .empty =>
    -- `if coded { bb.writeBit(0) } else { skippedBands++ }`
    if st.coded then { st with out := st.out ++ [false] } else { st with skippedBands := st.skippedBands + 1 }
  | .coded body =>
    -- `if !coded { coded = true; bb.writeBit(1); for range skippedBands { bb.writeBit(0) } }`
    let st := if st.coded then st
              else { st with coded := true, out := st.out ++ [true] ++ List.replicate st.skippedBands false }
    { st with out := st.out ++ body }

/-- `encodeHTJ2KPacketHeader`, bits before `bb.flush()`: `if !coded { bb.writeBit(0) }` -/
def encodeHtBands (bands : List HtBand) : List Bool :=
  let st := bands.foldl HtHdrSt.band {}
  if st.coded then st.out else st.out ++ [false]

/-- the decoder's reading (`parsePacketHeaderMulti`, one layer, fresh tag trees) at band granularity: the packet
    bit; then for every band that has code-blocks (`present`) the root of its inclusion tag tree — `0` means no
    block of the band is included (the remaining blocks cost no bits) — else the band's remaining bits, parsed by
    `parseTail`. Result per band: `none` absent, `some none` nothing included, `some (some x)` parsed. -/
def decodeHtBandsAux {α : Type} (parseTail : List Bool → Option (α × List Bool)) :
    List Bool → List Bool → Option (List (Option (Option α)) × List Bool)
  | [], s => some ([], s)
  | false :: ps, s => (decodeHtBandsAux parseTail ps s).map (fun r => (none :: r.1, r.2))
  | true :: _, [] => none
  | true :: ps, false :: s => (decodeHtBandsAux parseTail ps s).map (fun r => (some none :: r.1, r.2))
  | true :: ps, true :: s =>
    match parseTail s with
    | none => none
    | some (x, s') => (decodeHtBandsAux parseTail ps s').map (fun r => (some (some x) :: r.1, r.2))

def decodeHtBands {α : Type} (parseTail : List Bool → Option (α × List Bool)) (present : List Bool) :
    List Bool → Option (List (Option (Option α)) × List Bool)
  | [] => none
  | false :: s => some (present.map (fun p => if p then some none else none), s)   -- empty packet
  | true :: s => decodeHtBandsAux parseTail present s

/-- `bioWriter.flush` without a 0xFF byte in the header: zero padding to a byte boundary -/
def padToByte (bits : List Bool) : List Bool := bits ++ List.replicate ((8 - bits.length % 8) % 8) false

/-! ## U_q: exponent bound of a quad vs. missing MSBs (cleanup encoder `prepareOJPHSample`, decoder `decodeOJPHScratchMagSgn`) -/

/-- `bits.Len32` -/
def bitLen (x : Nat) : Nat := if x = 0 then 0 else Nat.log2 x + 1

/-- `val := (t + t) >> p; val &= ^uint32(1)` with `p = 30 - missingMSBs = 31 - kmax` (uint32 arithmetic) -/
def sampleVal (kmax t : Nat) : Nat := 2 * t % 2 ^ 32 / 2 ^ (31 - kmax) / 2 * 2

/-- `eQ[idx] = bits.Len32(val - 1)` for a significant sample (`val != 0`), 0 otherwise -/
def sampleEQ (kmax t : Nat) : Nat := if sampleVal kmax t = 0 then 0 else bitLen (sampleVal kmax t - 1)

/-- initial row pair: `uq0 := maxInt(eQMax[0], 1)` -/
def uqInitial (eQMax : Nat) : Nat := max eQMax 1

/-- later row pairs: `kappa := 1; if rho&(rho-1) != 0 { kappa = maxInt(1, maxE) }; uq := maxInt(eQMax, kappa)` with
    `maxE = maxInt(eVal[lep], eVal[lep+1]) - 1` (exponents of the row pair above) -/
def uqLater (eQMax : Nat) (twoOrMore : Bool) (eAbove0 eAbove1 : Nat) : Int :=
  let maxE : Int := max (eAbove0 : Int) eAbove1 - 1
  let kappa : Int := if twoOrMore then max 1 maxE else 1
  max (eQMax : Int) kappa

/-- the decoder's sanity check in both loops of `decodeOJPHScratchMagSgn`: `if uq > mmsbp2 { error }` with
    `mmsbp2 = missingMSBs + 2` -/
def uqAccepted (uq : Int) (missingMSBs : Nat) : Bool := !(decide (uq > (missingMSBs : Int) + 2))

/-! ## MagSgn bit packing: writer (`ojphMSWriter`) -/

/-- `ojphMSWriter` (openjph_cleanup_encoder.go): `buf`, `maxBits` (7 after a 0xFF byte), `usedBits`, `tmp` -/
structure MsWriter where
  buf : List Nat := []
  maxBits : Nat := 8
  usedBits : Nat := 0
  tmp : Nat := 0
deriving Repr, DecidableEq

/-- `ojphMSWriter.encode(cwd, cwdLen)`: `for cwdLen > 0 { t := min(maxBits-usedBits, cwdLen); tmp |= (cwd & (1<<t - 1)) << usedBits; … }`
    (`|` onto clear bits written as `+`); the fuel is the bit count: every turn moves `t ≥ 1` bits while `usedBits < maxBits` -/
def MsWriter.encodeLoop : Nat → MsWriter → Nat → Nat → MsWriter
  | 0, m, _, _ => m
  | f + 1, m, cwd, len =>
    if len = 0 then m
    else
      let t := min (m.maxBits - m.usedBits) len
      let tmp := m.tmp + cwd % 2 ^ t * 2 ^ m.usedBits
      let used := m.usedBits + t
      if used ≥ m.maxBits then
        let b := tmp % 256
        MsWriter.encodeLoop f { buf := m.buf ++ [b], maxBits := if b = 255 then 7 else 8, usedBits := 0, tmp := 0 }
          (cwd / 2 ^ t) (len - t)
      else MsWriter.encodeLoop f { m with tmp := tmp, usedBits := used } (cwd / 2 ^ t) (len - t)

def MsWriter.encode (m : MsWriter) (cwd len : Nat) : MsWriter := MsWriter.encodeLoop len m cwd len

/-- `ojphMSWriter.terminate()`: fill the open byte with 1s and drop it if that makes 0xFF; drop a trailing 0xFF -/
def MsWriter.terminate (m : MsWriter) : List Nat :=
  if m.usedBits ≠ 0 then
    let t := m.maxBits - m.usedBits
    let tmp := m.tmp + (2 ^ t - 1) % 256 * 2 ^ m.usedBits
    if tmp % 256 ≠ 255 then m.buf ++ [tmp % 256] else m.buf
  else if m.maxBits = 7 ∧ m.buf.length > 0 then m.buf.dropLast
  else m.buf


/-- `ms.encode(cwd, len)` for each pair in order -/
def MsWriter.encodeAll (m : MsWriter) : List (Nat × Nat) → MsWriter
  | [] => m
  | (cwd, len) :: ws => MsWriter.encodeAll (m.encode cwd len) ws

/-! ## MagSgn bit packing: reader (`MagSgnDecoder`, used by `ojphMSReader.fetch`) -/

/-- `MagSgnDecoder` (magsgn.go): `rest` is `data[pos:]` -/
structure MsReader where
  rest : List Nat
  bitBuffer : Nat := 0
  bitCount : Nat := 0
  lastByte : Nat := 0
deriving Repr, DecidableEq

/-- first loop of `readBits`: `for m.bitCount < n && m.pos < len(m.data)` — 7 bits of a byte that follows 0xFF -/
def MsReader.fill (n : Nat) : List Nat → Nat → Nat → Nat → MsReader
  | [], buf, cnt, last => { rest := [], bitBuffer := buf, bitCount := cnt, lastByte := last }
  | b :: rest, buf, cnt, last =>
    if cnt < n then
      if last = 255 then MsReader.fill n rest (buf + b % 128 * 2 ^ cnt) (cnt + 7) b
      else MsReader.fill n rest (buf + b * 2 ^ cnt) (cnt + 8) b
    else { rest := b :: rest, bitBuffer := buf, bitCount := cnt, lastByte := last }

/-- second loop: `for m.bitCount < n { b := byte(0xFF); … }` (at most `n` turns) -/
def MsReader.pad : Nat → Nat → MsReader → MsReader
  | 0, _, r => r
  | f + 1, n, r =>
    if r.bitCount < n then
      if r.lastByte = 255 then
        MsReader.pad f n { r with bitBuffer := r.bitBuffer + 127 * 2 ^ r.bitCount, bitCount := r.bitCount + 7, lastByte := 255 }
      else
        MsReader.pad f n { r with bitBuffer := r.bitBuffer + 255 * 2 ^ r.bitCount, bitCount := r.bitCount + 8, lastByte := 255 }
    else r

/-- `MagSgnDecoder.readBits(n)`: (value, ok, new state); uint64 `bitBuffer` never overflows for n ≤ 32 -/
def MsReader.readBits (r : MsReader) (n : Nat) : Nat × Bool × MsReader :=
  if n = 0 then (0, true, r)
  else
    let r1 := MsReader.fill n r.rest r.bitBuffer r.bitCount r.lastByte
    let ok := decide (¬ r1.bitCount < n)
    let r2 := if r1.bitCount < n then MsReader.pad n n r1 else r1
    (r2.bitBuffer % 2 ^ n, ok, { r2 with bitBuffer := r2.bitBuffer / 2 ^ n, bitCount := r2.bitCount - n })

/-- `ms.fetch(n)` for each n in order -/
def MsReader.readAll : MsReader → List Nat → List Nat
  | _, [] => []
  | r, n :: ns => let x := r.readBits n; x.1 :: MsReader.readAll x.2.2 ns


/-! ## MEL/VLC termination and fusion byte (`terminateOJPHMELVLC`), Scup -/

/-- `terminateOJPHMELVLC(mel, vlc)` (openjph_cleanup_encoder.go): the MEL packer after `if mel.run > 0 { mel.emitBit(1) }`
    is `pk`; the VLC writer holds `vlcTmp` with `vlcUsed` valid low bits and the bytes `vlcBuf` (in writing order,
    `vlcBuf[0] = 0xFF` is the byte that will carry Scup). Returns (MEL bytes, VLC bytes in writing order). -/
def terminateMelVlc (pk : MelPacker) (vlcBuf : List Nat) (vlcTmp vlcUsed : Nat) : List Nat × List Nat :=
  let melTmp := pk.tmp * 2 ^ pk.remainingBits          -- `mel.tmp <<= mel.remainingBits` (int, not masked)
  let melMask := 0xFF * 2 ^ pk.remainingBits % 256      -- `(0xFF << mel.remainingBits) & 0xFF`
  let vlcMask := if vlcUsed > 0 then 0xFF / 2 ^ (8 - vlcUsed) else 0
  if melMask ||| vlcMask = 0 then (pk.buf, vlcBuf)
  else
    let fuse := melTmp ||| vlcTmp
    if (((fuse ^^^ melTmp) &&& melMask) ||| ((fuse ^^^ vlcTmp) &&& vlcMask)) = 0 ∧ fuse ≠ 0xFF ∧ vlcBuf.length > 1 then
      (pk.buf ++ [fuse % 256], vlcBuf)                  -- one shared byte, counted with the MEL bytes
    else (pk.buf ++ [melTmp % 256], vlcBuf ++ [vlcTmp % 256])

/-- `Scup = len(melData) + len(vlcData)` -/
def scupOf (r : List Nat × List Nat) : Nat := r.1.length + r.2.length


end Htj2k
