import GdcVerif.GoPrelude
import GdcVerif.Gen.C16Jpeg
import GdcVerif.Gen.C16J2k
import GdcVerif.Gen.C16J2kMarkers
/-!
  C16 — container level of every encoder: marker segments, frame/scan headers, JPEG 2000 main
  header and tile-part framing.  Hand-written, code-shaped, executable; tied to /repo by the
  correspondence run of check C16 (`c16-seg`, `c16-dht`, `c16-hdr-*`, `c16-j2k-*` ops: bytes
  identical).  Marker values, the zig-zag table and `losslessLog2Gain` are the regenerated
  `Gen.C16*` definitions.

  Go sources mirrored:
  * jpeg/standard/writer.go          `Writer.WriteUint16 / WriteMarker / WriteSegment / WriteJFIFAPP0`
  * jpeg/standard/huffman_writer.go  `WriteHuffmanTable` (same text as the private `writeDHT`s)
  * jpeg/lossless/encoder.go, jpeg/lossless14sv1/encoder.go   `Encode` guards, `writeSOF3`, `writeDHT`, `writeSOS`
  * jpeg/baseline/encoder.go         `writeDQT`, `writeSOF0`, `writeDHT`, `writeSOS`
  * jpeg/extended/sequential12.go    `encodeSequential12`, `writeDQT`, `writeSOF1`, `writeSOS`
  * jpegls/lossless/encoder.go, jpegls/nearlossless/encoder.go   `writeSOF55`, `writeSOS`
  * jpeg2000/encoder.go              `writeSIZ`, `writeCAP`, `writeCOD`, `getPrecinctSizeExponents`,
                                     `writeQCD`, `writeVersionCOM`, `writeTile`, `writeHTJ2KTileParts`, `writeTLM`,
                                     the tail of `buildCodestream`

  The entropy-coded bytes are a parameter (`scan`, tile-part `body`) everywhere: the bit writers
  are the subject of C02 (HuffmanEncoder), C03 (GolombWriter), C20 (MQ, bioWriter).
-/
namespace JpegC

abbrev Byte := Nat

inductive Outcome (α : Type) where
  | ok (a : α)
  | err
  | panic
deriving Repr, DecidableEq

def Outcome.map {α β : Type} (f : α → β) : Outcome α → Outcome β
  | .ok a => .ok (f a)
  | .err => .err
  | .panic => .panic

def Outcome.bind {α β : Type} (x : Outcome α) (f : α → Outcome β) : Outcome β :=
  match x with
  | .ok a => f a
  | .err => .err
  | .panic => .panic

/-- Go `byte(x)` / `uint8(x)` of an `int` -/
def byteOf (x : Int) : Nat := (x % 256).toNat
/-- Go `uint16(x)` -/
def u16Of (x : Int) : Nat := (x % 65536).toNat
/-- Go `uint32(x)` -/
def u32Of (x : Int) : Nat := (x % 4294967296).toNat

/-- big-endian bytes of a uint16 / uint32 value (`binary.BigEndian.PutUint16`, `binary.Write`) -/
def be16 (v : Nat) : List Byte := [v / 256 % 256, v % 256]
def be32 (v : Nat) : List Byte := [v / 16777216 % 256, v / 65536 % 256, v / 256 % 256, v % 256]

/-! ## jpeg/standard/writer.go -/

def writeUint16 (v : Nat) : List Byte := be16 v
/-- `WriteMarker(marker uint16)` -/
def writeMarker (marker : Int) : List Byte := writeUint16 marker.toNat
/-- `WriteSegment`: marker, `length := uint16(len(data) + 2)`, data -/
def writeSegment (marker : Int) (data : List Byte) : List Byte :=
  writeMarker marker ++ writeUint16 (u16Of (data.length + 2)) ++ data

open Gen.C16Jpeg in
/-- `WriteJFIFAPP0` -/
def jfifApp0 : List Byte :=
  writeSegment MarkerAPP0 [0x4A, 0x46, 0x49, 0x46, 0x00, 0x01, 0x01, 0x00, 0x00, 0x01, 0x00, 0x01, 0x00, 0x00]

/-- `standard.HuffmanTable`: `Bits [16]int` (the list has 16 entries by type), `Values []byte` -/
structure HuffTable where
  bits : List Int
  values : List Byte
deriving Repr, DecidableEq

/-- `copy(dst, src)` into a zeroed destination of length `n` -/
def copyInto (n : Nat) (src : List Byte) : List Byte :=
  src.take n ++ List.replicate (n - src.length) 0

/-- body of `WriteHuffmanTable` / `writeDHT` up to the `WriteSegment` call.
    `make([]byte, 1+16+totalValues)` followed by 17 stores panics when `totalValues < 0`. -/
def dhtPayload (cls id : Nat) (t : HuffTable) : Outcome (List Byte) :=
  let totalValues : Int := t.bits.sum
  if totalValues < 0 then .panic
  else .ok ([((cls <<< 4) % 256) ||| id] ++ t.bits.map byteOf ++ copyInto totalValues.toNat t.values)

open Gen.C16Jpeg in
def dhtSegment (cls id : Nat) (t : HuffTable) : Outcome (List Byte) :=
  (dhtPayload cls id t).map (writeSegment MarkerDHT)

/-! ## frame headers -/

/-- first six bytes of every SOFn payload: `byte(P), byte(h>>8), byte(h), byte(w>>8), byte(w), byte(c)` -/
def sofFixed (p h w : Int) (c : Nat) : List Byte :=
  [byteOf p, byteOf (Go.shr h 8), byteOf h, byteOf (Go.shr w 8), byteOf w, byteOf c]

/-- the JPEG-LS writers mask the low byte: `byte(h & 0xFF)` -/
def sofFixedLS (p h w : Int) (c : Nat) : List Byte :=
  [byteOf p, byteOf (Go.shr h 8), byteOf (Go.and h 0xFF), byteOf (Go.shr w 8), byteOf (Go.and w 0xFF), byteOf c]

/-- `for i < components { id = i+1; 0x11; 0 }` -/
def compSpecs (c : Nat) : List Byte :=
  (List.range c).flatMap fun (i : Nat) => [byteOf ((i : Int) + 1), 0x11, 0]

/-- lossless / SV1 `writeSOF3` payload -/
def sof3Payload (p h w : Int) (c : Nat) : List Byte :=
  sofFixed p h w c ++ (if c = 1 then [1, 0x11, 0] else compSpecs c)

/-- `for i < components { data[1+2i] = i+1; data[2+2i] = 0 }` -/
def scanSels (c : Nat) : List Byte :=
  (List.range c).flatMap fun (i : Nat) => [byteOf ((i : Int) + 1), 0]

/-- lossless `writeSOS` header payload: Ns, selectors (table 0), Ss = predictor, Se = 0, AhAl = 0 -/
def sosLosslessPayload (c : Nat) (predictor : Int) : List Byte :=
  [byteOf c] ++ (if c = 1 then [1, 0] else scanSels c) ++ [byteOf predictor, 0, 0]

open Gen.C16Jpeg in
/-- `lossless.Encode` up to the first entropy-coded byte: guards, SOI, JFIF, SOF3, DHT, SOS header.
    `predictor` is the predictor actually used (after auto-selection when the argument is 0). -/
def losslessHeader (w h : Int) (c : Nat) (p predictor : Int) (t : HuffTable) : Outcome (List Byte) :=
  if w ≤ 0 ∨ h ≤ 0 ∨ w > 65535 ∨ h > 65535 then .err
  else if c ≠ 1 ∧ c ≠ 3 then .err
  else if p < 2 ∨ p > 16 then .err
  else if predictor < 0 ∨ predictor > 7 then .err
  else (dhtSegment 0 0 t).map fun dht =>
    writeMarker MarkerSOI ++ jfifApp0 ++ writeSegment MarkerSOF3 (sof3Payload p h w c) ++ dht ++
      writeSegment MarkerSOS (sosLosslessPayload c predictor)

/-- `lossless14sv1.Encode`: same layout, `Ss = 1` -/
def sv1Header (w h : Int) (c : Nat) (p : Int) (t : HuffTable) : Outcome (List Byte) :=
  losslessHeader w h c p 1 t

open Gen.C16Jpeg in
/-- the whole frame, with the entropy-coded segment as a parameter -/
def withScan (hdr : Outcome (List Byte)) (scan : List Byte) : Outcome (List Byte) :=
  hdr.map fun h => h ++ scan ++ writeMarker MarkerEOI

/-! ### baseline (`jpeg/baseline/encoder.go`) -/

open Gen.C16Jpeg in
/-- `writeDQT` payload of table `i`: `byte(i)` then the 64 entries in zig-zag order
    (`q` is the `[64]int32` table in natural order) -/
def dqtPayload (i : Nat) (q : List Int) : List Byte :=
  byteOf i :: (List.range 64).map fun j => byteOf (q.getD (ZigZag.getD j 0).toNat 0)

def sof0Comps (c : Nat) : List Byte :=
  if c = 1 then [0, 0x11, 0] else [1, 0x11, 0, 2, 0x11, 1, 3, 0x11, 1]

def sosBaselinePayload (c : Nat) : List Byte :=
  [byteOf c] ++ (if c = 1 then [0, 0x00] else [1, 0x00, 2, 0x11, 3, 0x11]) ++ [0, 63, 0]

structure BaseTables where
  q0 : List Int
  q1 : List Int
  dc0 : HuffTable
  ac0 : HuffTable
  dc1 : HuffTable
  ac1 : HuffTable

open Gen.C16Jpeg in
/-- `baseline.Encode` up to the first entropy-coded byte: SOI, DQT×(1|2), SOF0, DHT×(2|4), SOS header -/
def baselineHeader (w h : Int) (c : Nat) (t : BaseTables) : Outcome (List Byte) :=
  if w ≤ 0 ∨ h ≤ 0 ∨ w > 65535 ∨ h > 65535 then .err
  else if c ≠ 1 ∧ c ≠ 3 then .err
  else
    let dqt := writeSegment MarkerDQT (dqtPayload 0 t.q0) ++
      (if c = 3 then writeSegment MarkerDQT (dqtPayload 1 t.q1) else [])
    let sof := writeSegment MarkerSOF0 (sofFixed 8 h w c ++ sof0Comps c)
    (dhtSegment 0 0 t.dc0).bind fun d0 =>
    (dhtSegment 1 0 t.ac0).bind fun a0 =>
    (if c = 3 then (dhtSegment 0 1 t.dc1).bind fun d1 => (dhtSegment 1 1 t.ac1).map fun a1 => d1 ++ a1
     else .ok []).map fun chroma =>
      writeMarker MarkerSOI ++ dqt ++ sof ++ d0 ++ a0 ++ chroma ++ writeSegment MarkerSOS (sosBaselinePayload c)

/-! ### 12-bit extended sequential (`jpeg/extended/sequential12.go`) -/

open Gen.C16Jpeg in
/-- `encodeSequential12` up to the first entropy-coded byte: SOI, JFIF, DQT, SOF1, DHT DC, DHT AC, SOS header.
    (The `components != 1` guard is applied by the caller of this model: the op has no component argument.) -/
def ext12Header (w h : Int) (q : List Int) (dc ac : HuffTable) : Outcome (List Byte) :=
  if w ≤ 0 ∨ h ≤ 0 ∨ w > 65535 ∨ h > 65535 then .err
  else
    (dhtSegment 0 0 dc).bind fun d =>
    (dhtSegment 1 0 ac).map fun a =>
      writeMarker MarkerSOI ++ jfifApp0 ++ writeSegment MarkerDQT (dqtPayload 0 q) ++
        writeSegment MarkerSOF1 [12, byteOf (Go.shr h 8), byteOf h, byteOf (Go.shr w 8), byteOf w, 1, 1, 0x11, 0] ++
        d ++ a ++ writeSegment MarkerSOS [1, 1, 0, 0, 63, 0]

/-! ### JPEG-LS (`jpegls/lossless/encoder.go`, `jpegls/nearlossless/encoder.go`) -/

/-- `writeSOS`: Ns, selectors, `data[length-3] = byte(near)`, `data[length-2] = 2 if components > 1`, point transform 0 -/
def sosLSPayload (c : Nat) (near : Int) : List Byte :=
  [byteOf c] ++ scanSels c ++ [byteOf near, if c > 1 then 2 else 0, 0]

open Gen.C16Jpeg in
/-- `nearlossless.Encode` (and `lossless.Encode` with `near = 0`) up to the first entropy-coded byte.
    SOF55 is the literal `0xFFF7` in both writers. -/
def jpeglsHeader (w h : Int) (c : Nat) (p near : Int) : Outcome (List Byte) :=
  if w ≤ 0 ∨ h ≤ 0 ∨ w > 65535 ∨ h > 65535 then .err
  else if c ≠ 1 ∧ c ≠ 3 then .err
  else if p < 2 ∨ p > 16 then .err
  else if near < 0 ∨ near > 255 then .err
  else .ok (writeMarker MarkerSOI ++ writeSegment 0xFFF7 (sofFixedLS p h w c ++ compSpecs c) ++
    writeSegment MarkerSOS (sosLSPayload c near))

/-! ## JPEG 2000 main header (`jpeg2000/encoder.go`) -/

structure J2kParams where
  width : Int
  height : Int
  components : Int
  bitDepth : Int
  isSigned : Bool
  tileWidth : Int
  tileHeight : Int
  numLevels : Int
  lossless : Bool
  cbw : Int
  cbh : Int
  precW : Int
  precH : Int
  prog : Int
  numLayers : Int
  enableMCT : Bool
  htj2k : Bool
deriving Repr

/-- the quantisation description `quantizationInfo()` hands to `writeQCD` -/
structure QcdInfo where
  guardBits : Int
  style : Int
  expn : List Int
  steps : List Int
deriving Repr

/-- `binary.Write(buf, BigEndian, marker); binary.Write(buf, BigEndian, uint16(data.Len()+2)); buf.Write(data)` -/
def j2kSegment (marker : Int) (data : List Byte) : List Byte :=
  be16 marker.toNat ++ be16 (u16Of (data.length + 2)) ++ data

open Gen.C16J2kMarkers in
def writeSIZ (p : J2kParams) : List Byte :=
  let rsiz := if p.htj2k then 0x4000 else 0
  let tileWidth := if p.tileWidth = 0 then p.width else p.tileWidth
  let tileHeight := if p.tileHeight = 0 then p.height else p.tileHeight
  let ssiz0 := byteOf (p.bitDepth - 1)
  let ssiz := if p.isSigned then ssiz0 ||| 0x80 else ssiz0
  j2kSegment MarkerSIZ
    (be16 rsiz ++ be32 (u32Of p.width) ++ be32 (u32Of p.height) ++ be32 0 ++ be32 0 ++
     be32 (u32Of tileWidth) ++ be32 (u32Of tileHeight) ++ be32 0 ++ be32 0 ++ be16 (u16Of p.components) ++
     (List.replicate p.components.toNat [ssiz, 1, 1]).flatten)

open Gen.C16J2kMarkers in
def writeCAP (p : J2kParams) : List Byte :=
  if !p.htj2k then []
  else
    let c0 := 0x0002
    let c1 := if p.components > 1 then c0 ||| 0x0001 else c0
    let c2 := if p.bitDepth > 8 then c1 ||| 0x0008 else c1
    let c3 := if !p.lossless then c2 ||| 0x0020 else c2
    j2kSegment MarkerCAP (be32 0x00020000 ++ be16 c3)

/-- `log2(n)`: `for n > 1 { n >>= 1; result++ }` -/
def log2 (n : Int) : Int := Nat.log2 n.toNat

/-- `usesColorTransform()` without custom MCT matrices / bindings (outside the C16 domain) -/
def usesColorTransform (p : J2kParams) : Bool := p.enableMCT && decide (p.components ≥ 3)

/-- `getPrecinctSizeExponents(r)` -/
def precinctExponents (p : J2kParams) (r : Int) : Nat × Nat :=
  let pw := if p.precW = 0 then 32768 else p.precW
  let ph := if p.precH = 0 then 32768 else p.precH
  let ppx0 := byteOf (log2 pw)
  let ppy0 := byteOf (log2 ph)
  let custom := p.precW > 0 ∨ p.precH > 0
  let shift0 := p.numLevels - r
  let shift := if shift0 < 0 then 0 else shift0
  let (ppx, ppy) :=
    if custom ∧ shift > 0 then
      let x := (ppx0 : Int) - shift
      let y := (ppy0 : Int) - shift
      (byteOf (if x < 0 then 0 else x), byteOf (if y < 0 then 0 else y))
    else (ppx0, ppy0)
  (if ppx > 15 then 15 else ppx, if ppy > 15 then 15 else ppy)

open Gen.C16J2kMarkers in
def writeCOD (p : J2kParams) : List Byte :=
  let scod := if p.precW > 0 ∨ p.precH > 0 then 1 else 0
  let mct := if usesColorTransform p then 1 else 0
  let style := if p.htj2k then 0x40 else 0
  let transform := if !p.lossless then 0 else 1
  let precincts :=
    if scod = 1 then
      (List.range (p.numLevels + 1).toNat).map fun (r : Nat) =>
        let e := precinctExponents p (r : Int)
        ((e.2 <<< 4) % 256) ||| e.1
    else []
  j2kSegment MarkerCOD
    ([scod, byteOf p.prog] ++ be16 (u16Of p.numLayers) ++
     [mct, byteOf p.numLevels, byteOf (log2 p.cbw - 2), byteOf (log2 p.cbh - 2), style, transform] ++ precincts)

open Gen.C16J2k in
/-- the `Lossless && !HTJ2KMode` branch of `quantizationInfo()`: style 0, two guard bits,
    exponents `BitDepth + losslessLog2Gain(res, band)` -/
def losslessQcdInfo (p : J2kParams) : QcdInfo :=
  { guardBits := 2, style := 0, steps := [],
    expn := (List.range (p.numLevels + 1).toNat).flatMap fun (r : Nat) =>
      let res : Int := r
      if res = 0 then [p.bitDepth + losslessLog2Gain 0 0]
      else [p.bitDepth + losslessLog2Gain res 1, p.bitDepth + losslessLog2Gain res 2, p.bitDepth + losslessLog2Gain res 3] }

open Gen.C16J2kMarkers in
def writeQCD (p : J2kParams) (info : QcdInfo) : List Byte :=
  if p.lossless then
    j2kSegment MarkerQCD (byteOf (Go.shl info.guardBits 5) :: info.expn.map fun e => byteOf (Go.shl e 3))
  else
    j2kSegment MarkerQCD (byteOf (Go.or (Go.shl info.guardBits 5) (Go.and info.style 0x1F)) ::
      info.steps.flatMap fun s => be16 (u16Of s))

open Gen.C16J2kMarkers in
def writeVersionCOM (p : J2kParams) : List Byte :=
  let version := if p.htj2k then "OpenJPH Ver 0.21.2." else "Created by OpenJPEG version 2.5.4"
  j2kSegment MarkerCOM (be16 1 ++ version.toUTF8.toList.map (·.toNat))

open Gen.C16J2kMarkers in
/-- `buildCodestream` from SOC up to (not including) TLM / the first SOT, without ROI and Part-2 MCT segments -/
def j2kMainHeader (p : J2kParams) (info : QcdInfo) : List Byte :=
  be16 MarkerSOC.toNat ++ writeSIZ p ++ writeCAP p ++ writeCOD p ++ writeQCD p info ++ writeVersionCOM p

/-! ## JPEG 2000 tile-parts -/

/-- one tile-part as `writeTile` / `writeTilesWithGlobalRateDistortion` / `writeHTJ2KTileParts` emit it -/
structure TilePart where
  isot : Int
  tpsot : Int
  tnsot : Int
  header : List Byte
  body : List Byte
deriving Repr

/-- `tilePartLength := len(tileBytes) + tileHeader.Len() + 14` -/
def TilePart.psot (t : TilePart) : Nat := t.body.length + t.header.length + 14

open Gen.C16J2kMarkers in
def writeTilePart (t : TilePart) : List Byte :=
  be16 MarkerSOT.toNat ++ be16 10 ++ be16 (u16Of t.isot) ++ be32 (u32Of t.psot) ++ [byteOf t.tpsot, byteOf t.tnsot] ++
    t.header ++ be16 MarkerSOD.toNat ++ t.body

def writeTileParts (ts : List TilePart) : List Byte := (ts.map writeTilePart).flatten

/-- `writeTile` for tile `i` (classic block coder): one tile-part, `TPsot = 0`, `TNsot = 1` -/
def classicTilePart (i : Nat) (header body : List Byte) : TilePart :=
  { isot := i, tpsot := 0, tnsot := 1, header := header, body := body }

/-- `writeHTJ2KTileParts`: `NumLevels + 1` tile-parts for tile `i`, one per resolution;
    only part 0 carries the tile header (RGN) -/
def htTileParts (i : Nat) (numLevels : Int) (header : List Byte) (bodies : List (List Byte)) : List TilePart :=
  bodies.mapIdx fun k b =>
    { isot := i, tpsot := k, tnsot := numLevels + 1, header := if k = 0 then header else [], body := b }

def rd16 (d : List Byte) (o : Nat) : Nat := d.getD o 0 * 256 + d.getD (o + 1) 0
def rd32 (d : List Byte) (o : Nat) : Nat :=
  ((d.getD o 0 * 256 + d.getD (o + 1) 0) * 256 + d.getD (o + 2) 0) * 256 + d.getD (o + 3) 0

/-- the scan loop of `writeTLM`: `for offset < len(tileParts) { check SOT; length := Psot; entries += (Isot, Psot); offset += length }`.
    `none` is the `fmt.Errorf("invalid tile-part …")` return. Fuel = number of bytes (each round advances ≥ 14). -/
def tlmScan : Nat → List Byte → Nat → Option (List (Nat × Nat))
  | 0, tp, offset => if offset < tp.length then none else some []
  | fuel + 1, tp, offset =>
    if offset < tp.length then
      if offset + 12 > tp.length ∨ tp.getD offset 0 ≠ 0xFF ∨ tp.getD (offset + 1) 0 ≠ 0x90 then none
      else
        let length := rd32 tp (offset + 6)
        if length < 14 ∨ offset + length > tp.length then none
        else (tlmScan fuel tp (offset + length)).map fun es => (rd16 tp (offset + 4), length) :: es
    else some []

open Gen.C16J2kMarkers in
/-- the segment loop of `writeTLM` (`for ztlm := 0; len(entries) > 0; ztlm++`, fix htj2k-tlm-length-overflow): chunks
    of at most (65535-4)/6 = 10921 entries, one TLM marker segment each — `Ltlm = uint16(4 + 6·chunk)`,
    `Ztlm = byte(ztlm)`, `Stlm = 0x60` (16-bit tile index, 32-bit length). Fuel = number of entries. -/
def tlmSegments : Nat → Nat → List (Nat × Nat) → List Byte
  | 0, _, _ => []
  | fuel + 1, ztlm, entries =>
    if entries.length = 0 then []
    else
      let chunk := entries.take 10921
      be16 MarkerTLM.toNat ++ be16 (u16Of (4 + chunk.length * 6)) ++ [ztlm % 256, 0x60] ++
        (chunk.flatMap fun e => be16 e.1 ++ be32 e.2) ++ tlmSegments fuel (ztlm + 1) (entries.drop 10921)

/-- `writeTLM(buf, tileParts)`: nothing unless HTJ2K; the scan, then the TLM marker segments
    (one as long as there are at most 10921 tile-parts; more than 256 segments is an error) -/
def writeTLM (htj2k : Bool) (tileParts : List Byte) : Outcome (List Byte) :=
  if !htj2k then .ok []
  else
    match tlmScan tileParts.length tileParts 0 with
    | none => .err
    | some entries =>
      if entries.length = 0 then .err
      else if entries.length > 256 * 10921 then .err
      else .ok (tlmSegments entries.length 0 entries)

open Gen.C16J2kMarkers in
/-- the tail of `buildCodestream`: tile-parts (with TLM in front for HTJ2K) and EOC -/
def j2kTail (htj2k : Bool) (ts : List TilePart) : Outcome (List Byte) :=
  let tp := writeTileParts ts
  (writeTLM htj2k tp).map fun tlm => tlm ++ tp ++ be16 MarkerEOC.toNat

/-- the first loop of `writeHTJ2KTileParts`: `parts[packet.ResolutionLevel]` collects `Header ++ Body` of every packet of
    that resolution, in packet order; a resolution outside `0 .. NumLevels` is the `fmt.Errorf` return.
    A packet is (ResolutionLevel, Header, Body). -/
def htPartition (numLevels : Int) (packets : List (Int × List Byte × List Byte)) : Outcome (List (List Byte)) :=
  let partCount := numLevels + 1
  if packets.any (fun p => p.1 < 0 || p.1 ≥ partCount) then .err
  else .ok ((List.range partCount.toNat).map fun (r : Nat) =>
    (packets.filter fun p => p.1 = (r : Int)).flatMap fun p => p.2.1 ++ p.2.2)

/-- the whole codestream -/
def j2kStream (p : J2kParams) (info : QcdInfo) (ts : List TilePart) : Outcome (List Byte) :=
  (j2kTail p.htj2k ts).map fun tail => j2kMainHeader p info ++ tail

end JpegC
