import GdcVerif.GoPrelude
import GdcVerif.Gen.J2kMqc
/-!
  Code-shaped executable model of the MQ arithmetic coder:
  `jpeg2000/mqc/encoder.go` (MQEncoder) and `jpeg2000/mqc/mqc.go` (MQDecoder), over the
  *generated* tables `Gen.J2kMqc.qeTable / nmpsTable / nlpsTable / switchTable`.

  Registers `a`, `c` are Go `uint32`: modelled as `Nat` with the wrap `% 2^32` written at every
  operation that could exceed it (`u32`).  Bytes are `Nat` (`< 256`, `u8` where Go truncates).
  `ct` is Go `int` ↦ `Int`.  Bit operations with constant masks are written arithmetically:
    `x & (2^k-1)` ↦ `x % 2^k`,  `(x & 2^k) == 0` ↦ `x / 2^k % 2 = 0`,  `x | 0xFFFF` ↦ `x / 2^16 * 2^16 + 0xFFFF`,
    `x >> k` ↦ `x / 2^k`,  `x << k` ↦ `u32 (x * 2^k)`,  `tbl[s] | (m << 7)` ↦ `tbl[s] + m*128` (table entries < 128)
  (`Lemmas/Mqc.lean` relates the first two to `&&&`).
  `none` = the Go call does not return normally: slice index out of range (context id, table
  index `state > 46`, read beyond the buffer) or the `for a < 0x8000` loop entered with `a = 0`.
-/
namespace Mqc
open Gen.J2kMqc

def u32 (x : Nat) : Nat := x % 4294967296
def u8 (x : Nat) : Nat := x % 256
/-- uint32 subtraction `x - y` -/
def sub32 (x y : Nat) : Nat := (x + 4294967296 - y % 4294967296) % 4294967296

/-- `x << k` on uint32 with a variable count (Go: counts ≥ 32 give 0) -/
def shl32 (x k : Nat) : Nat := if k ≥ 32 then 0 else u32 (x * 2 ^ k)

/-- table lookup `tbl[state]`; `none` = index out of range -/
def tab (tbl : Array Int) (state : Nat) : Option Nat := (tbl[state]?).map Int.toNat

/-! ## Encoder -/

structure Enc where
  buf : Array Nat      -- buffer (index 0 is the dummy byte), `len(buffer) = buf.size`
  bp : Nat
  a : Nat
  c : Nat
  ct : Int
  ctx : Array Nat      -- contexts []uint8
deriving Repr

def start : Nat := 1
def bypassCtInit : Int := 0xDEADBEEF

/-- `NewMQEncoder(numContexts)` -/
def Enc.new (numContexts : Nat) : Enc :=
  { buf := #[0], bp := 0, a := 0x8000, c := 0, ct := 12, ctx := Array.replicate numContexts 0 }

/-- `ensureIndex(idx)`: grow the slice with zero bytes so that `idx < len(buffer)` -/
def ensureIndex (buf : Array Nat) (idx : Nat) : Array Nat :=
  if idx < buf.size then buf else buf ++ Array.replicate (idx + 1 - buf.size) 0

/-- `byteout()` -/
def byteout (e : Enc) : Option Enc :=
  -- if bp >= len(buffer) { ensureIndex(bp) }
  let buf := if e.bp ≥ e.buf.size then ensureIndex e.buf e.bp else e.buf
  match buf[e.bp]? with
  | none => none
  | some b =>
    if b = 0xFF then
      let bp := e.bp + 1
      let buf := ensureIndex buf bp
      let buf := buf.setIfInBounds bp (u8 (e.c / 2^20))
      some { e with buf := buf, bp := bp, c := e.c % 2^20, ct := 7 }
    else if e.c / 2^27 % 2 = 0 then           -- (c & 0x8000000) == 0
      let bp := e.bp + 1
      let buf := ensureIndex buf bp
      let buf := buf.setIfInBounds bp (u8 (e.c / 2^19))
      some { e with buf := buf, bp := bp, c := e.c % 2^19, ct := 8 }
    else
      -- buffer[bp]++
      let b1 := u8 (b + 1)
      let buf := buf.setIfInBounds e.bp b1
      if b1 = 0xFF then
        let c := e.c % 2^27                     -- c &= 0x7FFFFFF
        let bp := e.bp + 1
        let buf := ensureIndex buf bp
        let buf := buf.setIfInBounds bp (u8 (c / 2^20))
        some { e with buf := buf, bp := bp, c := c % 2^20, ct := 7 }
      else
        let bp := e.bp + 1
        let buf := ensureIndex buf bp
        let buf := buf.setIfInBounds bp (u8 (e.c / 2^19))
        some { e with buf := buf, bp := bp, c := e.c % 2^19, ct := 8 }

/-- `renorme()`: `for a < 0x8000 { a <<= 1; c <<= 1; ct--; if ct == 0 { byteout() } }`.
The fuel 16 is exact: from `a ≥ 1` at most 15 doublings reach `0x8000`; running out of fuel
means `a = 0`, on which the Go loop does not terminate. -/
def renormeLoop : Nat → Enc → Option Enc
  | 0, e => if e.a < 0x8000 then none else some e
  | fuel + 1, e =>
    if e.a < 0x8000 then
      let e := { e with a := u32 (e.a * 2), c := u32 (e.c * 2), ct := e.ct - 1 }
      if e.ct = 0 then
        match byteout e with
        | none => none
        | some e => renormeLoop fuel e
      else renormeLoop fuel e
    else some e

def renorme (e : Enc) : Option Enc := renormeLoop 16 e

/-- the four table reads of one state: `qeTable[state]`, `nmpsTable[state]`, `nlpsTable[state]`,
`switchTable[state]`; `none` = index out of range (`state > 46`) -/
def lookup (state : Nat) : Option (Nat × Nat × Nat × Nat) :=
  match tab qeTable state, tab nmpsTable state, tab nlpsTable state, tab switchTable state with
  | some qe, some nmps, some nlps, some sw => some (qe, nmps, nlps, sw)
  | _, _, _, _ => none

/-- body of `Encode` once `*cx` and the table entries of its state are read
(`mps := *cx >> 7` is `cx / 128`; the Go assignments to `a`, `c`, `*cx` are the record updates) -/
def encodeCore (e : Enc) (bit contextID cx qe nmps nlps sw : Nat) : Option Enc :=
  if bit = cx / 128 then
    -- a -= qe; if (a & 0x8000) == 0 { if a < qe { a = qe } else { c += qe }; *cx = nmps | mps<<7; renorme() } else { c += qe }
    if sub32 e.a qe / 0x8000 % 2 = 0 then
      if sub32 e.a qe < qe then
        renorme { e with a := qe, ctx := e.ctx.setIfInBounds contextID (u8 (nmps + u8 (cx / 128 * 128))) }
      else
        renorme { e with a := sub32 e.a qe, c := u32 (e.c + qe),
                         ctx := e.ctx.setIfInBounds contextID (u8 (nmps + u8 (cx / 128 * 128))) }
    else
      some { e with a := sub32 e.a qe, c := u32 (e.c + qe) }
  else
    -- a -= qe; if a < qe { c += qe } else { a = qe }; *cx = nlps | newMPS<<7; renorme()
    if sub32 e.a qe < qe then
      renorme { e with a := sub32 e.a qe, c := u32 (e.c + qe),
                       ctx := e.ctx.setIfInBounds contextID
                         (u8 (nlps + u8 ((if sw = 1 then 1 - cx / 128 else cx / 128) * 128))) }
    else
      renorme { e with a := qe,
                       ctx := e.ctx.setIfInBounds contextID
                         (u8 (nlps + u8 ((if sw = 1 then 1 - cx / 128 else cx / 128) * 128))) }

/-- `Encode(bit, contextID)` -/
def encode (e : Enc) (bit : Nat) (contextID : Nat) : Option Enc :=
  match e.ctx[contextID]? with
  | none => none
  | some cx =>
    match lookup (cx % 128) with      -- state := *cx & 0x7F
    | none => none
    | some (qe, nmps, nlps, sw) => encodeCore e bit contextID cx qe nmps nlps sw

/-- `setbits` + two `byteout`s + the trailing-0xFF rule, shared by `Flush` and `FlushToOutput` -/
def flushToOutput (e : Enc) : Option Enc :=
  let tempC := u32 (e.c + e.a)
  let c := e.c / 65536 * 65536 + 0xFFFF        -- c |= 0xFFFF
  let c := if c ≥ tempC then sub32 c 0x8000 else c
  let e := { e with c := shl32 c e.ct.toNat }   -- c <<= uint(ct)
  match byteout e with
  | none => none
  | some e =>
    let e := { e with c := shl32 e.c e.ct.toNat }
    match byteout e with
    | none => none
    | some e =>
      match e.buf[e.bp]? with
      | none => none
      | some b => some (if b ≠ 0xFF then { e with bp := e.bp + 1 } else e)

/-- `GetBuffer()` / the slice `Flush()` returns: `buffer[start:bp]` -/
def getBuffer (e : Enc) : List Nat :=
  if e.bp < start then [] else (e.buf.extract start e.bp).toList

/-- `Flush()` -/
def flush (e : Enc) : Option (Enc × List Nat) :=
  (flushToOutput e).map fun e => (e, getBuffer e)

/-- `ErtermEnc()` -/
def ertermLoop : Nat → Int → Enc → Option Enc
  | 0, k, e => if k > 0 then none else some e
  | fuel + 1, k, e =>
    if k > 0 then
      let e := { e with c := shl32 e.c e.ct.toNat, ct := 0 }
      match byteout e with
      | none => none
      | some e => ertermLoop fuel (k - e.ct) e
    else some e

def ertermEnc (e : Enc) : Option Enc :=
  let k := 11 - e.ct + 1
  match ertermLoop 64 k e with   -- every round subtracts 7 or 8 from k ≤ 12 + |ct|
  | none => none
  | some e =>
    match e.buf[e.bp]? with
    | none => none
    | some b => if b ≠ 0xFF then byteout e else some e

/-- `RestartInitEnc()` -/
def restartInitEnc (e : Enc) : Enc :=
  let bp := if e.bp > start - 1 then e.bp - 1 else e.bp
  let ct : Int := if e.buf[bp]? = some 0xFF then 13 else 12
  { e with a := 0x8000, c := 0, ct := ct, bp := bp }

/-- `SegmarkEnc()`: `for i := 1; i < 5; i++ { Encode(i%2, 18) }` -/
def segmarkEnc (e : Enc) : Option Enc := do
  let e ← encode e 1 18
  let e ← encode e 0 18
  let e ← encode e 1 18
  encode e 0 18

/-- `BypassInitEnc()` -/
def bypassInitEnc (e : Enc) : Enc := { e with c := 0, ct := bypassCtInit }

/-- `BypassEncode(bit)` -/
def bypassEncode (e : Enc) (bit : Nat) : Option Enc :=
  let ct := if e.ct = bypassCtInit then 8 else e.ct
  let ct := ct - 1
  if ct < 0 then none else   -- shift count `uint(ct)` of a negative int: not reachable through T1
  let c := u32 (e.c + shl32 (u32 bit) ct.toNat)
  if ct = 0 then
    let buf := if e.bp ≥ e.buf.size then ensureIndex e.buf e.bp else e.buf
    let b := u8 c
    let buf := buf.setIfInBounds e.bp b
    some { e with buf := buf, bp := e.bp + 1, c := 0, ct := if b = 0xFF then 7 else 8 }
  else some { e with c := c, ct := ct }

/-- `BypassFlushEnc(erterm)` -/
def bypassFlushEnc (e : Enc) (erterm : Bool) : Option Enc :=
  let prevNotFF : Option Bool := if e.bp > 0 then (e.buf[e.bp - 1]?).map (· ≠ 0xFF) else some false
  -- Go evaluates `buffer[bp-1]` only when `ct == 7 && !erterm && bp > 0`
  let needPrev := e.ct = 7 ∧ ¬ erterm ∧ e.bp > 0
  if needPrev ∧ prevNotFF.isNone then none else
  let pnf := prevNotFF.getD false
  if e.ct < 7 ∨ (e.ct = 7 ∧ (erterm ∨ (e.bp > 0 ∧ pnf))) then
    -- alternate 0,1,0,… padding bits from ct-1 down to 0
    let rec pad : Nat → Nat → Nat → Nat
      | 0, c, _ => c
      | k + 1, c, bitValue => pad k (u32 (c + shl32 bitValue k)) (if bitValue = 0 then 1 else 0)
    let c := pad e.ct.toNat e.c 0
    let buf := if e.bp ≥ e.buf.size then ensureIndex e.buf e.bp else e.buf
    let buf := buf.setIfInBounds e.bp (u8 c)
    some { e with buf := buf, bp := e.bp + 1, c := c, ct := if e.ct > 0 then 0 else e.ct }
  else if e.ct = 7 ∧ e.bp > 0 then
    match e.buf[e.bp - 1]? with
    | none => none
    | some p =>
      if p = 0xFF then some (if ¬ erterm then { e with bp := e.bp - 1 } else e)
      else some e
  else if e.ct = 8 ∧ ¬ erterm ∧ e.bp > 1 then
    match e.buf[e.bp - 1]?, e.buf[e.bp - 2]? with
    | some p1, some p2 => some (if p1 = 0x7F ∧ p2 = 0xFF then { e with bp := e.bp - 2 } else e)
    | _, _ => none
  else some e

def resetContexts (e : Enc) : Enc := { e with ctx := Array.replicate e.ctx.size 0 }
def setContextState (e : Enc) (contextID state : Nat) : Option Enc :=
  if contextID < e.ctx.size then some { e with ctx := e.ctx.setIfInBounds contextID (u8 state) } else none

/-- `Encode` every decision of `ds` (pairs `(bit, contextID)`), then `Flush` -/
def encodeAll (e : Enc) : List (Nat × Nat) → Option Enc
  | [] => some e
  | (bit, cx) :: ds => match encode e bit cx with
    | none => none
    | some e => encodeAll e ds

def encodeBytes (numContexts : Nat) (ds : List (Nat × Nat)) : Option (List Nat) :=
  match encodeAll (Enc.new numContexts) ds with
  | none => none
  | some e => (flush e).map (·.2)

/-! ## Decoder -/

structure Dec where
  data : Array Nat     -- data with the 0xFF 0xFF sentinel appended
  bp : Nat
  dataLen : Nat
  a : Nat
  c : Nat
  ct : Int
  eos : Nat
  ctx : Array Nat
deriving Repr

/-- `bytein()`.  Since /repo c50eb7d the first statement is a bounds guard: past the sentinel
(`bp+1 >= len(data)`) it behaves as at end of stream; so no read of `bytein` can leave `data`. -/
def bytein (d : Dec) : Option Dec :=
  if d.bp + 1 ≥ d.data.size then
    some { d with c := u32 (d.c + 0xFF00), ct := 8, eos := d.eos + 1 }
  else
  match d.data[d.bp + 1]?, d.data[d.bp]? with
  | some next, some cur =>
    if cur = 0xFF then
      if next > 0x8F then
        some { d with c := u32 (d.c + 0xFF00), ct := 8, eos := d.eos + 1 }
      else
        some { d with bp := d.bp + 1, c := u32 (d.c + u32 (next * 2^9)), ct := 7 }
    else
      some { d with bp := d.bp + 1, c := u32 (d.c + u32 (next * 2^8)), ct := 8 }
  | _, _ => none

/-- `init()` -/
def Dec.init (d : Dec) : Option Dec :=
  match (if d.dataLen = 0 then some 0xFF else d.data[0]?) with
  | none => none
  | some b0 =>
    match bytein { d with c := u32 (b0 * 2^16) } with
    | none => none
    | some d => some { d with c := u32 (d.c * 2^7), ct := d.ct - 7, a := 0x8000 }

/-- `NewMQDecoder(data, numContexts)` -/
def Dec.new (bytes : List Nat) (numContexts : Nat) : Option Dec :=
  Dec.init { data := (bytes ++ [0xFF, 0xFF]).toArray, bp := 0, dataLen := bytes.length,
             a := 0x8000, c := 0, ct := 0, eos := 0, ctx := Array.replicate numContexts 0 }

/-- `renormd()`: `for a < 0x8000 { if ct == 0 { bytein() }; a <<= 1; c <<= 1; ct-- }` (fuel as in `renormeLoop`) -/
def renormdLoop : Nat → Dec → Option Dec
  | 0, d => if d.a < 0x8000 then none else some d
  | fuel + 1, d =>
    if d.a < 0x8000 then
      match (if d.ct = 0 then bytein d else some d) with
      | none => none
      | some d => renormdLoop fuel { d with a := u32 (d.a * 2), c := u32 (d.c * 2), ct := d.ct - 1 }
    else some d

def renormd (d : Dec) : Option Dec := renormdLoop 16 d

/-- `nmpsTable[state] | mps<<7` -/
def mpsCx (cx nmps : Nat) : Nat := u8 (nmps + u8 (cx / 128 * 128))
/-- `nlpsTable[state] | newMPS<<7` with `newMPS = 1 - mps` iff `switchTable[state] == 1` -/
def lpsCx (cx nlps sw : Nat) : Nat := u8 (nlps + u8 ((if sw = 1 then 1 - cx / 128 else cx / 128) * 128))

/-- body of `Decode` once `*cx` and the table entries of its state are read (`mps = cx / 128`, `a -= qe` first) -/
def decodeCore (d : Dec) (contextID cx qe nmps nlps sw : Nat) : Option (Nat × Dec) :=
  if d.c / 2^16 < qe then
    -- LPS exchange: if a < qe { a = qe; d = mps; MPS update } else { a = qe; d = 1 - mps; LPS update }; renormd()
    if sub32 d.a qe < qe then
      (renormd { d with a := qe, ctx := d.ctx.setIfInBounds contextID (mpsCx cx nmps) }).map (cx / 128, ·)
    else
      (renormd { d with a := qe, ctx := d.ctx.setIfInBounds contextID (lpsCx cx nlps sw) }).map (1 - cx / 128, ·)
  else
    -- c -= qe << 16; if (a & 0x8000) != 0 { return mps }; if a < qe { LPS } else { MPS }; renormd()
    if sub32 d.a qe / 0x8000 % 2 ≠ 0 then
      some (cx / 128, { d with a := sub32 d.a qe, c := sub32 d.c (u32 (qe * 2^16)) })
    else if sub32 d.a qe < qe then
      (renormd { d with a := sub32 d.a qe, c := sub32 d.c (u32 (qe * 2^16)),
                        ctx := d.ctx.setIfInBounds contextID (lpsCx cx nlps sw) }).map (1 - cx / 128, ·)
    else
      (renormd { d with a := sub32 d.a qe, c := sub32 d.c (u32 (qe * 2^16)),
                        ctx := d.ctx.setIfInBounds contextID (mpsCx cx nmps) }).map (cx / 128, ·)

/-- `Decode(contextID)` -/
def decode (d : Dec) (contextID : Nat) : Option (Nat × Dec) :=
  match d.ctx[contextID]? with
  | none => none
  | some cx =>
    match lookup (cx % 128) with
    | none => none
    | some (qe, nmps, nlps, sw) => decodeCore d contextID cx qe nmps nlps sw

/-- decode one decision per context id of `cxs` -/
def decodeAll (d : Dec) : List Nat → Option (List Nat × Dec)
  | [] => some ([], d)
  | cx :: cxs => match decode d cx with
    | none => none
    | some (b, d) => (decodeAll d cxs).map fun (bs, d) => (b :: bs, d)

def decodeBits (bytes : List Nat) (numContexts : Nat) (cxs : List Nat) : Option (List Nat) :=
  match Dec.new bytes numContexts with
  | none => none
  | some d => (decodeAll d cxs).map (·.1)

/-- `NewRawDecoder(data)` -/
def Dec.newRaw (bytes : List Nat) : Dec :=
  { data := (bytes ++ [0xFF, 0xFF]).toArray, bp := 0, dataLen := bytes.length,
    a := 0, c := 0, ct := 0, eos := 0, ctx := #[] }

/-- `RawDecode()` (with the c50eb7d guard: past the sentinel it supplies 1-bits) -/
def rawDecode (d : Dec) : Option (Nat × Dec) :=
  -- if ct == 0 && bp >= len(data) { c = 0xFF; ct = 8 }
  let d := if d.ct = 0 ∧ d.bp ≥ d.data.size then { d with c := 0xFF, ct := 8 } else d
  let step : Option Dec :=
    if d.ct = 0 then
      match d.data[d.bp]? with
      | none => none
      | some next =>
        if d.c = 0xFF then
          if next > 0x8F then some { d with c := 0xFF, ct := 8 }
          else some { d with c := next, bp := d.bp + 1, ct := 7 }
        else some { d with c := next, bp := d.bp + 1, ct := 8 }
    else some d
  match step with
  | none => none
  | some d =>
    let ct := d.ct - 1
    if ct < 0 then none else
    some ((if ct.toNat ≥ 32 then 0 else d.c / 2 ^ ct.toNat) % 2, { d with ct := ct })

end Mqc
