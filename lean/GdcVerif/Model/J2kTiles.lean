import GdcVerif.GoPrelude
import GdcVerif.Gen.J2kTiles
import GdcVerif.Gen.J2kT2
/-!
  JPEG 2000 tile geometry (C19): the glue around the GENERATED kernels
  `Gen.J2kTiles.Encoder.tileBounds`, `TileLayout.GetTileBounds`, `ceilDiv`, `splitLengths`,
  `isEven`, `nextCoord`, `ceilDivPow2` (jpeg2000/encoder.go, jpeg2000/tile_assembler.go) and their
  duplicates in jpeg2000/t2/geometry.go (`Gen.J2kT2.*`).

  Hand-written, code-shaped parts (tied by the correspondence run of C19):
  * `encNumTiles`      — encoder.go writeTiles: `numTilesX := (p.Width + tileWidth - 1) / tileWidth`
  * `decLayout`        — tile_assembler.go NewTileLayout for the SIZ the encoder writes (all offsets 0)
  * `resDims`          — t2/geometry.go resolutionDimsWithOrigin / encoder.go resolutionDimsWithOrigin
                         (one axis; the Go loop treats x and y independently with the same statements)
  * `encLowLen`        — encoder.go getSubbandsForResolution: `ceildivpow2(width, level+1)` (LL extent
                         after `level+1` splits, tile origin NOT used)
  * `copyRow/splitTile/assembleTile` — the row copies of encoder.go transformTile and
                         tile_assembler.go AssembleTile on planes seen as index functions
-/
namespace J2k
open Gen.J2kTiles

/-- encoder.go writeTiles: number of tiles along one axis -/
def encNumTiles (n t : Int) : Int := Int.tdiv (n + t - 1) t

/-- an Encoder value whose only relevant fields are Width/Height (tileBounds reads nothing else) -/
def encOf (W H : Int) : Encoder :=
  { (default : Encoder) with params := { (default : EncodeParams) with Width := W, Height := H } }

/-- encoder.go writeTile: `e.tileBounds(tileIdx, tileWidth, tileHeight, numTilesX)` -/
def encTileBounds (W H TW TH idx : Int) : Int × Int × Int × Int :=
  Encoder.tileBounds (encOf W H) idx TW TH (encNumTiles W TW)

/-- tile_assembler.go NewTileLayout on the SIZ segment written by encoder.go writeSIZ
    (XOsiz = YOsiz = XTOsiz = YTOsiz = 0, Xsiz = W, Ysiz = H, XTsiz = TW, YTsiz = TH) -/
def decLayout (W H TW TH : Int) : TileLayout :=
  { imageWidth := W - 0, imageHeight := H - 0, imageX0 := 0, imageY0 := 0, imageX1 := W, imageY1 := H,
    tileWidth := TW, tileHeight := TH, tileOffsetX := 0, tileOffsetY := 0,
    numTilesX := ceilDiv (W - 0) TW, numTilesY := ceilDiv (H - 0) TH }

def decTileBounds (W H TW TH idx : Int) : Int × Int × Int × Int :=
  TileLayout.GetTileBounds (decLayout W H TW TH) idx

/-- pixel (x,y) lies in the half-open rectangle -/
def inRect (r : Int × Int × Int × Int) (x y : Int) : Prop :=
  r.1 ≤ x ∧ x < r.2.2.1 ∧ r.2.1 ≤ y ∧ y < r.2.2.2

/-- resolutionDimsWithOrigin, one axis, `n = levelNo` iterations of
    `low := splitLengths(res, isEven(res0)); res = low; res0 = nextCoord(res0)`; returns (length, origin) -/
def resDims (len x0 : Int) : Nat → Int × Int
  | 0 => (len, x0)
  | n + 1 => resDims (splitLengths len (isEven x0)) (nextCoord x0) n

/-- the same loop over the t2/geometry.go copies of the kernels (decoder side) -/
def resDimsT2 (len x0 : Int) : Nat → Int × Int
  | 0 => (len, x0)
  | n + 1 => resDimsT2 (Gen.J2kT2.splitLengths len (Gen.J2kT2.isEven x0)) (Gen.J2kT2.nextCoord x0) n

/-- encoder.go getSubbandsForResolution (since fix 104b234): the sub-band extents come from
    `resolutionDimsWithOrigin(width, height, e.curTileX0, e.curTileY0, …)`, i.e. the canvas split of the tile -/
def encLowLen (len x0 : Int) (n : Nat) : Int := (resDims len x0 n).1

/-- the shape before fix 104b234 (kept for the regression example): `ceildivpow2(width, level+1)`, tile origin unused -/
def encLowLenOld (len : Int) (n : Nat) : Int := ceilDivPow2 len n

/-! ### planes as index functions; Go `copy(dst[a:a+w], src[b:b+w])` -/

abbrev Plane := Nat → Int

/-- `copy(dst[a:a+w], src[b:b+w])` (both slices in range: see `tile_rect_in_image`) -/
def copyRow (dst : Plane) (a : Nat) (src : Plane) (b w : Nat) : Plane :=
  fun i => if a ≤ i ∧ i < a + w then src (b + (i - a)) else dst i

/-- encoder.go transformTile: `for ty := 0; ty < height; ty++ { copy(tile[ty*width:…], data[(y0+ty)*W + x0:…]) }`;
    the recursion runs ty = h-1 … 0, the rows are disjoint so the order is immaterial (proved, not assumed:
    the theorems below are about this very definition) -/
def splitTile (img : Plane) (W x0 y0 w : Nat) : Nat → Plane → Plane
  | 0, tile => tile
  | h + 1, tile => copyRow (splitTile img W x0 y0 w h tile) (h * w) img ((y0 + h) * W + x0) w

/-- tile_assembler.go AssembleTile: `for ty … { copy(image[(y0+ty)*W + x0:…], tile[ty*w:…]) }` -/
def assembleTile (tile : Plane) (W x0 y0 w : Nat) : Nat → Plane → Plane
  | 0, img => img
  | h + 1, img => copyRow (assembleTile tile W x0 y0 w h img) ((y0 + h) * W + x0) tile (h * w) w

/-- rectangle of tile `idx` as naturals (x0, y0, w, h) from the encoder's bounds -/
def tileRectNat (W H TW TH : Nat) (idx : Nat) : Nat × Nat × Nat × Nat :=
  let r := encTileBounds W H TW TH idx
  (r.1.toNat, r.2.1.toNat, (r.2.2.1 - r.1).toNat, (r.2.2.2 - r.2.1).toNat)

/-- number of tiles as the encoder computes it (writeTiles: numTilesX*numTilesY) -/
def numTilesNat (W H TW TH : Nat) : Nat := (encNumTiles W TW * encNumTiles H TH).toNat

/-- decoder.go decodeAllTiles ∘ encoder.go writeTiles on one component plane, T1/T2/DWT taken as the
    identity on the tile: every tile is cut out of `src` and copied into the output image -/
def splitAssemble (src : Plane) (W H TW TH : Nat) : Nat → Plane → Plane
  | 0, out => out
  | k + 1, out =>
    let out := splitAssemble src W H TW TH k out
    let r := tileRectNat W H TW TH k
    let tile := splitTile src W r.1 r.2.1 r.2.2.1 r.2.2.2 (fun _ => 0)
    assembleTile tile W r.1 r.2.1 r.2.2.1 r.2.2.2 out

end J2k

namespace J2k
/-- t2/packet_decoder.go collectCodeBlockEntries for the code-block at band offset `cbX0` of a band whose
    resolution origin is `resX0` (precinct width `pw`, code-block width `cbw`): returns (px, cbxLocal).
    Since fix 3981d09 the index in the first precinct column is relative to the first code-block of the band:
    `if px == 0 { cbxLocal -= (resX0 - startX) / cbw }` -/
def decCbIndex (resX0 cbX0 pw cbw : Int) : Int × Int :=
  let startX := Gen.J2kT2.floorDiv resX0 pw * pw
  let absResX0 := resX0 + cbX0
  let px := Int.tdiv (absResX0 - startX) pw
  let localX := absResX0 - (startX + px * pw)
  let cbxLocal := Int.tdiv localX cbw
  let cbxLocal := if px == 0 then cbxLocal - Int.tdiv (resX0 - startX) cbw else cbxLocal
  (px, cbxLocal)

/-- the decoder's shape before fix 3981d09 (regression example): counted from the precinct edge -/
def decCbIndexOld (resX0 cbX0 pw cbw : Int) : Int × Int :=
  let startX := Gen.J2kT2.floorDiv resX0 pw * pw
  let absResX0 := resX0 + cbX0
  let px := Int.tdiv (absResX0 - startX) pw
  let localX := absResX0 - (startX + px * pw)
  (px, Int.tdiv localX cbw)

/-- encoder.go buildTilePacketEncoder (since 104b234, 3981d09) for the same block: precinct index and grid position
    from the canvas origin `originX` of the tile-component at this resolution, relative to the band's first block
    in the first precinct column: `if px == 0 { CBX -= (originX - startX) / CodeBlockWidth }` -/
def encCbIndex (originX cbX0 pw cbw : Int) : Int × Int :=
  let startX := Int.tdiv originX pw * pw
  let absX := originX + cbX0
  let px := Int.tdiv (absX - startX) pw
  let localX := absX - (startX + px * pw)
  let cbx := Int.tdiv localX cbw
  let cbx := if px == 0 then cbx - Int.tdiv (originX - startX) cbw else cbx
  (px, cbx)

/-- the shape before fix 104b234 (kept for the regression example): tile-local, the origin never entered -/
def encCbIndexOld (cbX0 pw cbw : Int) : Int × Int :=
  let px := Int.tdiv cbX0 pw
  let localX := cbX0 - px * pw
  (px, Int.tdiv localX cbw)
end J2k

namespace J2k
/-- `splitAssemble` with a per-tile codec between cut-out and placement (writeTile → … → TileDecoder.Decode) -/
def splitAssembleWith (codec : Nat → Plane → Plane) (src : Plane) (W H TW TH : Nat) : Nat → Plane → Plane
  | 0, out => out
  | k + 1, out =>
    let out := splitAssembleWith codec src W H TW TH k out
    let r := tileRectNat W H TW TH k
    let tile := codec k (splitTile src W r.1 r.2.1 r.2.2.1 r.2.2.2 (fun _ => 0))
    assembleTile tile W r.1 r.2.1 r.2.2.1 r.2.2.2 out
end J2k

namespace J2k
/-- encoder.go partitionIntoCodeBlocks, rectangle of code-block (cbx, cby) inside a sub-band of size bw×bh:
    `x0 := cbx*cbWidth; x1 := x0+cbWidth; if x1 > subband.width { x1 = subband.width }` (same in y) -/
def encCbRect (bw bh cbw cbh cbx cby : Int) : Int × Int × Int × Int :=
  let x0 := cbx * cbw
  let y0 := cby * cbh
  let x1 := x0 + cbw
  let y1 := y0 + cbh
  (x0, y0, (if x1 > bw then bw else x1), (if y1 > bh then bh else y1))

/-- t2/tile_decoder.go buildAndDecodeCodeBlocks (and packet_decoder.go collectCodeBlockEntries: cbX0 = cbx*cbw):
    `localX0 := cbx*cbWidth; localX1 := localX0+cbWidth; if localX1 > bandInfo.width { localX1 = bandInfo.width }` -/
def decCbRect (bw bh cbw cbh cbx cby : Int) : Int × Int × Int × Int :=
  let localX0 := cbx * cbw
  let localY0 := cby * cbh
  let localX1 := localX0 + cbw
  let localY1 := localY0 + cbh
  (localX0, localY0, (if localX1 > bw then bw else localX1), (if localY1 > bh then bh else localY1))

/-- `numCBX := (width + cbWidth - 1) / cbWidth` on both sides -/
def numCb (n c : Int) : Int := Int.tdiv (n + c - 1) c
end J2k

namespace J2k
/-- t2/packet_decoder.go buildResolutionPrecinctOrder: number of precinct columns of a resolution with canvas origin
    `resX0` and width `resW`: `startX := floorDiv(resX0,pw)*pw; endX := ceilDiv(resX0+resW,pw)*pw;
    numPrecinctX := (endX-startX)/pw; if numPrecinctX < 1 { numPrecinctX = 1 }` -/
def decNumPrecinct (resX0 resW pw : Int) : Int :=
  let startX := Gen.J2kT2.floorDiv resX0 pw * pw
  let endX := Gen.J2kT2.ceilDiv (resX0 + resW) pw * pw
  let n := Int.tdiv (endX - startX) pw
  if n < 1 then 1 else n

/-- encoder.go buildTilePacketEncoder (live code since 104b234): `startX := (originX/pw)*pw;
    endX := ((originX+resW+pw-1)/pw)*pw; numPrecinctX := (endX-startX)/pw; if numPrecinctX < 1 { … = 1 }` -/
def encNumPrecinct (originX resW pw : Int) : Int :=
  let startX := Int.tdiv originX pw * pw
  let endX := Int.tdiv (originX + resW + pw - 1) pw * pw
  let n := Int.tdiv (endX - startX) pw
  if n < 1 then 1 else n
end J2k
