/-
  Model of /repo/rle/rle.go (DICOM RLE Lossless, PS3.5 Annex G).

  Hand-written, code-shaped, executable.  Tied to the Go code by the
  correspondence run of check C01/C08/C16 (bytes identical, outcome class
  identical).  Bytes are `Nat`s (< 256 on every path the harness drives; the
  payload bytes are never interpreted, only the control bytes are).
-/
namespace Rle

abbrev Byte := Nat

/-! ## Encoder (`rleEncoder`) -/

/-- The mutable part of `rleEncoder` that matters inside one segment.
    `temp` is `tempBuffer[0:bufferPos]`; `prev = none` is `prevByte = -1`. -/
structure St where
  temp : List Byte := []
  prev : Option Byte := none
  rep  : Nat := 0
  /-- sticky: a store to `tempBuffer[bufferPos]` with `bufferPos ≥ 132` happened (Go would panic) -/
  oob  : Bool := false
deriving Repr, DecidableEq

/-- `for bufferPos > thr { count := min(128, bufferPos); write count-1, temp[:count]; shift }`
    (thr = 0 in the run branch and in Flush, 128 in the literal branch). Returns (emitted, rest). -/
def flushLit (thr : Nat) (temp : List Byte) : List Byte × List Byte :=
  if _h : temp.length > thr ∧ temp.length > 0 then
    let count := min 128 temp.length
    let r := flushLit thr (temp.drop count)
    (((count - 1) :: temp.take count) ++ r.1, r.2)
  else ([], temp)
termination_by temp.length
decreasing_by simp [List.length_drop]; omega

/-- `for repeatCnt > 0 { count := min(repeatCnt,128); write byte(257-count), prev; repeatCnt -= count }` -/
def flushRun (rep : Nat) (b : Byte) : List Byte :=
  if _h : rep > 0 then
    let count := min rep 128
    ((257 - count) % 256) :: b :: flushRun (rep - count) b
  else []
termination_by rep
decreasing_by omega

/-- store `p` at `tempBuffer[bufferPos]`, `bufferPos++` -/
def St.pushTemp (s : St) (p : Byte) : St :=
  { s with temp := s.temp ++ [p], oob := s.oob || decide (s.temp.length ≥ 132) }

/-- `rleEncoder.Encode(b)`: new state and the bytes appended to `buffer`. -/
def St.encode (s : St) (b : Byte) : St × List Byte :=
  if s.prev = some b then
    let rep := s.rep + 1
    if rep > 2 ∧ s.temp.length > 0 then
      let r := flushLit 0 s.temp
      ({ s with rep := rep, temp := r.2 }, r.1)
    else if rep > 128 then
      let count := min rep 128
      ({ s with rep := rep - count }, [(257 - count) % 256, b])
    else ({ s with rep := rep }, [])
  else
    let p := s.prev.getD 255   -- byte(-1) = 255; only used when rep > 0, i.e. prev ≠ none
    let (s1, out1) :=
      match s.rep with
      | 0 => (s, [])
      | 1 => (s.pushTemp p, [])
      | 2 => ((s.pushTemp p).pushTemp p, [])
      | n => (s, flushRun n p)
    let r := flushLit 128 s1.temp
    ({ temp := r.2, prev := some b, rep := 1, oob := s1.oob }, out1 ++ r.1)

/-- `rleEncoder.Flush()` -/
def St.flush (s : St) : St × List Byte :=
  let p := s.prev.getD 255
  let s1 := if s.rep = 1 then s.pushTemp p else s
  let r := flushLit 0 s1.temp
  let out2 := if s.rep ≥ 2 then flushRun s.rep p else []
  ({ temp := [], prev := none, rep := 0, oob := s1.oob }, r.1 ++ out2)

/-- feed a whole plane -/
def encodeBytes (s : St) : List Byte → St × List Byte
  | [] => (s, [])
  | b :: bs =>
    let r1 := s.encode b
    let r2 := encodeBytes r1.1 bs
    (r2.1, r1.2 ++ r2.2)

/-- one segment body: Encode every byte of the plane, then Flush (from a fresh/flushed state) -/
def encodeSegment (plane : List Byte) : List Byte × Bool :=
  let r1 := encodeBytes {} plane
  let r2 := r1.1.flush
  (r1.2 ++ r2.2, r2.1.oob)

/-! ## Frame level -/

/-- the fields of `imagetypes.FrameInfo` that rle.go reads (all `uint16`) -/
structure Info where
  width : Nat
  height : Nat
  bitsAllocated : Nat
  spp : Nat
  planar : Nat
deriving Repr, DecidableEq

def Info.pixelCount (i : Info) : Nat := i.width * i.height
/-- `int((info.BitsAllocated-1)/8 + 1)` in uint16 arithmetic -/
def Info.bytesAllocated (i : Info) : Nat := (((i.bitsAllocated + 65535) % 65536) / 8 + 1) % 65536
def Info.numberOfSegments (i : Info) : Nat := i.bytesAllocated * i.spp
def Info.nativeLen (i : Info) : Nat := i.bytesAllocated * i.spp * i.width * i.height

/-- `pos` (start) and `offset` (stride) of segment `s` as computed by encodeFrame / decodeFrame -/
def Info.segStart (i : Info) (s : Nat) : Nat :=
  let ba := i.bytesAllocated
  let sample := s / ba
  let sabyte := s % ba
  (if i.planar = 0 then sample * ba else sample * ba * i.pixelCount) + (ba - sabyte - 1)
def Info.segStride (i : Info) : Nat :=
  if i.planar = 0 then i.numberOfSegments else i.bytesAllocated

inductive EncErr | emptySrc | readPos | tooBig
deriving Repr, DecidableEq

/-- the plane walk of encodeFrame: `pixelCount` reads at `pos, pos+offset, …`;
    `none` when a read position is ≥ len(src) (encodeFrame returns an error) -/
def readPlane (src : Array Byte) (pos stride : Nat) : Nat → Option (List Byte)
  | 0 => some []
  | n + 1 =>
    if h : pos < src.size then
      match readPlane src (pos + stride) stride n with
      | some r => some (src[pos] :: r)
      | none => none
    else none

def le32 (n : Nat) : List Byte := [n % 256, (n / 256) % 256, (n / 65536) % 256, (n / 16777216) % 256]

/-- `maxEncodedFrameLength` = 0xFFFFFFFE: the largest even 32-bit length (segment offsets and the DICOM item
    length are 32-bit fields) -/
def maxEncodedFrameLength : Nat := 4294967294

/-- segments are appended one after the other; `body` is everything after the 64-byte header.
    Returns (body, offsets, oob).  After each segment's Flush encodeFrame compares `buffer.Len()` with
    `maxEncodedFrameLength` and returns an error when the stream has grown beyond it (the offsets stored by
    NextSegment are `uint32(buffer.Len())`: without the guard they wrapped modulo 2^32). -/
def encodeSegments (i : Info) (src : Array Byte) :
    Nat → Nat → List Byte → List Nat → Bool → Except EncErr (List Byte × List Nat × Bool)
  | 0, _, body, offs, oob => .ok (body, offs, oob)
  | n + 1, s, body, offs, oob =>
    -- NextSegment: (Flush is a no-op here) pad to even, record offset
    let body := if (64 + body.length) % 2 = 1 then body ++ [0] else body
    let offs := offs ++ [64 + body.length]
    match readPlane src (i.segStart s) i.segStride i.pixelCount with
    | none => .error .readPos
    | some plane =>
      let r := encodeSegment plane
      if 64 + (body ++ r.1).length > maxEncodedFrameLength then .error .tooBig
      else encodeSegments i src n (s + 1) (body ++ r.1) offs (oob || r.2)

inductive Outcome (α : Type) where
  | ok (a : α)
  | err
  | panic
deriving Repr, DecidableEq

/-- `Codec.encodeFrame` (info non-nil): empty source → error; a description without 1..15 byte
    planes or without pixels → error (guard added by the C17 repair; before it, 16 planes
    overran `offsets[15]`). -/
def encodeFrame (i : Info) (src : Array Byte) : Outcome (List Byte) :=
  if src.size = 0 then .err
  else if i.numberOfSegments < 1 ∨ i.numberOfSegments > 15 ∨ i.pixelCount < 1 then .err
  else
    match encodeSegments i src i.numberOfSegments 0 [] [] false with
    | .error _ => .err
    | .ok (body, offs, oob) =>
      if oob then .panic else
      let body := if (64 + body.length) % 2 = 1 then body ++ [0] else body
      let header := le32 offs.length ++ (offs ++ List.replicate (15 - offs.length) 0).flatMap le32
      .ok (header ++ body)

/-! ## Decoder -/

inductive DecErr | litIn | litOut | repOut | eof
deriving Repr, DecidableEq

/-- `buffer[pos] = b; pos += stride` for each byte (bounds are pre-checked by the caller) -/
def writeStrided (buf : Array Byte) (pos stride : Nat) : List Byte → Array Byte
  | [] => buf
  | b :: bs => writeStrided (buf.setIfInBounds pos b) (pos + stride) stride bs

/-- `rleDecoder.decode` on the remaining bytes `rem = rleData[i:end]` (end ≤ len(rleData)). -/
def decodeLoop (stride : Nat) (buf : Array Byte) (pos : Nat) (rem : List Byte) :
    Except DecErr (Array Byte) :=
  match rem with
  | [] => .ok buf
  | c :: rest =>
    if pos ≥ buf.size then .ok buf
    else if c < 128 then
      let length := c + 1
      if rest.length < length then .error .litIn
      else if pos + (length - 1) * stride ≥ buf.size then .error .litOut
      else
        let buf' := writeStrided buf pos stride (rest.take length)
        let rem' := rest.drop length
        if rem'.length ≤ 1 then .ok buf' else decodeLoop stride buf' (pos + length * stride) rem'
    else if c ≥ 129 then
      let length := 257 - c
      if pos + (length - 1) * stride ≥ buf.size then .error .repOut
      else
        match rest with
        | [] => .error .eof
        | b :: rest' =>
          let buf' := writeStrided buf pos stride (List.replicate length b)
          if rest'.length ≤ 1 then .ok buf' else decodeLoop stride buf' (pos + length * stride) rest'
    else
      if rest.length ≤ 1 then .ok buf else decodeLoop stride buf pos rest
termination_by rem.length
decreasing_by all_goals (simp [List.length_drop] <;> omega)

def rd32 (d : List Byte) (at_ : Nat) : Nat :=
  d.getD at_ 0 + 256 * d.getD (at_ + 1) 0 + 65536 * d.getD (at_ + 2) 0 + 16777216 * d.getD (at_ + 3) 0

/-- `newRLEDecoder`: header checks; returns (numSegments, offsets[0..14]) -/
def parseHeader (data : List Byte) : Option (Nat × List Nat) :=
  if data.length < 64 then none
  else
    let n := rd32 data 0
    if n < 1 ∨ n > 15 then none
    else
      let offs := (List.range 15).map fun k => rd32 data (4 + 4 * k)
      if (List.range n).all fun k => offs.getD k 0 ≤ data.length then some (n, offs) else none

/-- the segment slice `rleData[offset : offset+count]` with count = next offset − offset
    (or len − offset for the last one); empty when count ≤ 0 -/
def segmentSlice (data : List Byte) (n : Nat) (offs : List Nat) (s : Nat) : List Byte :=
  let off := offs.getD s 0
  let endp := if s + 1 < n then offs.getD (s + 1) 0 else data.length
  (data.take endp).drop off

def decodeSegments (i : Info) (data : List Byte) (n : Nat) (offs : List Nat) :
    Nat → Nat → Array Byte → Except DecErr (Array Byte)
  | 0, _, buf => .ok buf
  | k + 1, s, buf =>
    match decodeLoop i.segStride buf (i.segStart s) (segmentSlice data n offs s) with
    | .error e => .error e
    | .ok buf' => decodeSegments i data n offs k (s + 1) buf'

/-- `frameSize` of decodeFrame, rounded up to even -/
def Info.frameSize (i : Info) : Nat :=
  let fs := i.nativeLen
  if fs % 2 = 1 then fs + 1 else fs

/-- `Codec.decodeFrame` (info non-nil); allocation failure is not modelled here (see C09 model) -/
def decodeFrame (i : Info) (data : List Byte) : Outcome (Array Byte) :=
  if data.length = 0 then .err
  -- repo commit 9650374: the plane count implied by the FrameInfo is validated before the frame
  -- buffer is allocated (BitsAllocated = 0 wraps to 8192 bytes per sample in uint16 arithmetic)
  else if i.bitsAllocated = 0 ∨ i.numberOfSegments < 1 ∨ i.numberOfSegments > 15 then .err
  else
    match parseHeader data with
    | none => .err
    | some (n, offs) =>
      if n ≠ i.numberOfSegments then .err
      else
        match decodeSegments i data n offs n 0 (Array.replicate i.frameSize 0) with
        | .error _ => .err
        | .ok buf => .ok buf

end Rle
