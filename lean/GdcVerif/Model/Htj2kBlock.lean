import GdcVerif.Model.Htj2k
/-
  Code-shaped model of the HT cleanup ENCODER of /repo/jpeg2000/htj2k/openjph_cleanup_encoder.go
  (`encodeOpenJPHCleanup`, `encodeOJPHInitialRows`, `encodeOJPHSubsequentRows`, `prepareOJPHSample`,
  `ojphEPS`, `ojphEncodeTuple`, `ojphEncodeMagSgn`, `ojphVLCWriter`, `initOJPHEncoderVLCTable`) and of the
  context-VLC decode table (`InitVLCTables`).  Byte-exact correspondence with `HTEncoder.Encode` on small blocks
  is checked by op `ht-enc` of check C06.
-/
namespace Htj2k

/-! ## Context VLC tables -/

/-- one row of `VLCTbl0/1`: `{c_q, rho, u_off, e_k, e_1, cwd, cwd_len}` -/
structure VlcRow where
  cq : Nat
  rho : Nat
  uoff : Nat
  ek : Nat
  e1 : Nat
  cwd : Nat
  len : Nat
deriving Repr, DecidableEq

def vlcRowOf (row : Array Int) : Option VlcRow :=
  match row.toList with
  | [cq, rho, uoff, ek, e1, cwd, len] =>
    if 0 ≤ cq ∧ 0 ≤ rho ∧ 0 ≤ uoff ∧ 0 ≤ ek ∧ 0 ≤ e1 ∧ 0 ≤ cwd ∧ 0 ≤ len then
      some ⟨cq.toNat, rho.toNat, uoff.toNat, ek.toNat, e1.toNat, cwd.toNat, len.toNat⟩
    else none
  | _ => none

/-- the generated table as rows (a malformed row would be dropped; `vlcRows_complete` shows none is) -/
def vlcRows (t : Array (Array Int)) : List VlcRow := t.toList.filterMap vlcRowOf

def popCount4 (x : Nat) : Nat := x % 2 + x / 2 % 2 + x / 4 % 2 + x / 8 % 2

/-- `initOJPHEncoderVLCTable`, the row chosen for index `(cq<<8)|(rho<<4)|eps`:
    eps ≠ 0: among rows with this cq, rho, u_off = 1 and `eps & e_k == e_1` the LAST one with the most e_k bits
    (`if ones >= bestEK`); eps = 0: the FIRST row with this cq, rho and u_off = 0 -/
def encSelect (rows : List VlcRow) (cq rho eps : Nat) : Option VlcRow :=
  if eps &&& rho ≠ eps ∨ (rho = 0 ∧ cq = 0) then none
  else if eps ≠ 0 then
    (rows.foldl (fun (acc : Option VlcRow × Nat) r =>
      if r.cq = cq ∧ r.rho = rho ∧ r.uoff = 1 ∧ eps &&& r.ek = r.e1 then
        (if popCount4 r.ek + 1 ≥ acc.2 then (some r, popCount4 r.ek + 1) else acc)
      else acc) (none, 0)).1
  else rows.find? (fun r => r.cq = cq ∧ r.rho = rho ∧ r.uoff = 0)

/-- `dst[i] = uint16(best.Cwd)<<8 | uint16(best.CwdLen)<<4 | uint16(best.EK)` (0 when no row) -/
def encEntry (rows : List VlcRow) (cq rho eps : Nat) : Nat :=
  match encSelect rows cq rho eps with
  | some r => r.cwd * 256 + r.len * 16 + r.ek
  | none => 0

/-- `InitVLCTables`: first row of context `cq` whose codeword equals the low `len` bits of the 7-bit window -/
def decLookup (rows : List VlcRow) (cq w : Nat) : Option VlcRow :=
  rows.find? (fun r => r.cq = cq ∧ r.cwd = w % 2 ^ r.len)

/-- `packVLCEntry(rho, uOff, e1, ek, cwdLen)` (0 when no row matched) -/
def decEntry (rows : List VlcRow) (cq w : Nat) : Nat :=
  match decLookup rows cq w with
  | some r => r.ek * 4096 + r.e1 * 256 + r.rho * 16 + r.uoff * 8 + r.len
  | none => 0


def vlcRows0 : List VlcRow := vlcRows Gen.Htj2k.VLCTbl0
def vlcRows1 : List VlcRow := vlcRows Gen.Htj2k.VLCTbl1

/-- `ojphEncodeTuple(initial, cq, rho, eps)`: `cwd<<8 | len<<4 | e_k`, 0 for an all-zero quad in context 0 -/
def encodeTuple (initial : Bool) (cq rho eps : Nat) : Nat :=
  if rho = 0 ∧ cq = 0 then 0
  else encEntry (if initial then vlcRows0 else vlcRows1) cq rho eps

/-! ## VLC bit writer (`ojphVLCWriter`) -/

structure VlcWriter where
  buf : List Nat := [0xFF]
  usedBits : Nat := 4
  tmp : Nat := 0xF
  lastGreaterThan8F : Bool := true
deriving Repr, DecidableEq

/-- `ojphVLCWriter.encode(cwd, cwdLen)`; fuel bounds the loop (each turn moves ≥ 1 bit or opens the 8th bit) -/
def VlcWriter.encodeLoop : Nat → VlcWriter → Nat → Nat → VlcWriter
  | 0, v, _, _ => v
  | f + 1, v, cwd, len =>
    if len = 0 then v
    else
      let avail := 8 - (if v.lastGreaterThan8F then 1 else 0) - v.usedBits
      let t := min avail len
      let tmp := v.tmp + cwd % 2 ^ t * 2 ^ v.usedBits     -- `|=` onto clear bits
      let used := v.usedBits + t
      let avail := avail - t
      let len := len - t
      let cwd := cwd / 2 ^ t
      if avail = 0 then
        if v.lastGreaterThan8F ∧ tmp ≠ 0x7F then
          VlcWriter.encodeLoop f { v with tmp := tmp, usedBits := used, lastGreaterThan8F := false } cwd len
        else
          VlcWriter.encodeLoop f { buf := v.buf ++ [tmp % 256], usedBits := 0, tmp := 0, lastGreaterThan8F := decide (tmp > 0x8F) } cwd len
      else VlcWriter.encodeLoop f { v with tmp := tmp, usedBits := used } cwd len

def VlcWriter.encode (v : VlcWriter) (cwd len : Nat) : VlcWriter := VlcWriter.encodeLoop (2 * len + 2) v cwd len

/-- `ojphVLCWriter.bytes()`: written order reversed, the locator byte `buf[0]` last -/
def VlcWriter.bytesOf (buf : List Nat) : List Nat :=
  match buf with
  | [] => []
  | b0 :: rest => rest.reverse ++ [b0]

/-! ## Samples and quads -/

/-- `prepareOJPHSample` for one word: (significant, e_q, s) with `s = val - 2 + sign` -/
def prepSample (kmax t : Nat) : Bool × Nat × Nat :=
  let val := sampleVal kmax t
  if val = 0 then (false, 0, 0) else (true, bitLen (val - 1), val - 2 + t / 2 ^ 31 % 2)

structure QuadPrep where
  rho : Nat
  eQ : List Nat      -- 4 entries
  eQMax : Nat
  s : List Nat       -- 4 entries
deriving Repr, DecidableEq

/-- `prepareOJPHInitialQuad` / `prepareOJPHQuad` on the four words [TL, BL, TR, BR] -/
def prepQuad (kmax : Nat) (ws : List Nat) : QuadPrep :=
  let ps := ws.map (prepSample kmax)
  { rho := (ps.zipIdx.map (fun (p, i) => if p.1 then 2 ^ i else 0)).sum,
    eQ := ps.map (·.2.1), eQMax := (ps.map (·.2.1)).foldl max 0, s := ps.map (·.2.2) }

/-- `ojphEPS(eQ, eQMax, u)` -/
def epsOf (eQ : List Nat) (eQMax : Nat) (u : Int) : Nat :=
  if u ≤ 0 then 0 else (eQ.zipIdx.map (fun (e, i) => if e = eQMax then 2 ^ i else 0)).sum

/-- `ojphEncodeMagSgn(ms, rho, uq, tuple, s)` -/
def encodeMagSgnQuad (ms : MsWriter) (rho : Nat) (uq : Int) (tuple : Nat) (s : List Nat) : MsWriter :=
  (s.zipIdx).foldl (fun ms (si, i) =>
    if rho / 2 ^ i % 2 = 0 then ms
    else
      let m := (uq - (tuple / 2 ^ i % 2 : Nat)).toNat
      ms.encode (si % 2 ^ m) m) ms

/-! ## Encoder state and the two row loops -/

structure HtEnc where
  mel : MelEnc := {}
  vlc : VlcWriter := {}
  ms : MsWriter := {}
  eVal : List Nat
  cxVal : List Nat
  /-- ghost: the MEL symbols and VLC (codeword, length) items in the order they were handed to the writers -/
  melSyms : List Bool := []
  vlcItems : List (Nat × Nat) := []
deriving Repr

def lget (l : List Nat) (i : Nat) : Nat := l.getD i 0   -- in range by construction: len = (width+1)/2 + 2

/-- the word at (x, y), 0 outside the block (`prepareOJPHSample` returns before touching it) -/
def cbAt (cb : List Nat) (w h x y : Nat) : Nat := if x < w ∧ y < h then cb.getD (y * w + x) 0 else 0

def quadWords (cb : List Nat) (w h x y : Nat) : List Nat :=
  [cbAt cb w h x y, cbAt cb w h x (y + 1), cbAt cb w h (x + 1) y, cbAt cb w h (x + 1) (y + 1)]

def HtEnc.vlcTuple (e : HtEnc) (tuple : Nat) : HtEnc :=
  { e with vlc := e.vlc.encode (tuple / 256) (tuple / 16 % 8), vlcItems := e.vlcItems ++ [(tuple / 256, tuple / 16 % 8)] }
def HtEnc.melBit (e : HtEnc) (b : Bool) : HtEnc := { e with mel := e.mel.encodeBit b, melSyms := e.melSyms ++ [b] }
def HtEnc.vlcItem (e : HtEnc) (it : Nat × Nat) : HtEnc :=
  { e with vlc := e.vlc.encode it.1 it.2, vlcItems := e.vlcItems ++ [it] }

/-- the four `vlc.encode` calls of `ojphEncodeInitialUVLC` / `ojphEncodeNonInitialUVLC` -/
def uvlcItems (initial : Bool) (u0 u1 : Nat) : List (Nat × Nat) :=
  if initial ∧ u0 > 2 ∧ u1 > 2 then
    let c0 := uvlcCode (u0 - 2); let c1 := uvlcCode (u1 - 2); [c0.1, c1.1, c0.2, c1.2]
  else if initial ∧ u0 > 2 ∧ u1 > 0 then
    let c0 := uvlcCode u0; [c0.1, (u1 - 1, 1), c0.2]
  else
    let c0 := uvlcCode u0; let c1 := uvlcCode u1; [c0.1, c1.1, c0.2, c1.2]

/-- one turn of the `for x := 0; x < h.width; x += 4` loop of `encodeOJPHInitialRows`; state (lep, lcxp, cq0) -/
def encInitialPair (kmax : Nat) (cb : List Nat) (w h x : Nat) (e : HtEnc) (lep lcxp cq0 : Nat) : HtEnc × Nat × Nat × Nat :=
  let q0 := prepQuad kmax (quadWords cb w h x 0)
  let uq0 : Nat := max q0.eQMax 1
  let u0 := uq0 - 1
  let eps0 := epsOf q0.eQ q0.eQMax u0
  let eVal := e.eVal.set lep (max (lget e.eVal lep) (lget q0.eQ 1))
  let lep := lep + 1
  let eVal := eVal.set lep (lget q0.eQ 3)
  let cxVal := e.cxVal.set lcxp (lget e.cxVal lcxp ||| (q0.rho / 2 % 2))
  let lcxp := lcxp + 1
  let cxVal := cxVal.set lcxp (q0.rho / 8 % 2)
  let tuple0 := encodeTuple true cq0 q0.rho eps0
  let e := ({ e with eVal := eVal, cxVal := cxVal } : HtEnc).vlcTuple tuple0
  let e := if cq0 = 0 then e.melBit (decide (q0.rho ≠ 0)) else e
  let e := { e with ms := encodeMagSgnQuad e.ms q0.rho uq0 tuple0 q0.s }
  if x + 2 < w then
    let q1 := prepQuad kmax (quadWords cb w h (x + 2) 0)
    let cq1 := q0.rho / 2 ||| q0.rho % 2
    let uq1 : Nat := max q1.eQMax 1
    let u1 := uq1 - 1
    let eps1 := epsOf q1.eQ q1.eQMax u1
    let eVal := e.eVal.set lep (max (lget e.eVal lep) (lget q1.eQ 1))
    let lep := lep + 1
    let eVal := eVal.set lep (lget q1.eQ 3)
    let cxVal := e.cxVal.set lcxp (lget e.cxVal lcxp ||| (q1.rho / 2 % 2))
    let lcxp := lcxp + 1
    let cxVal := cxVal.set lcxp (q1.rho / 8 % 2)
    let tuple1 := encodeTuple true cq1 q1.rho eps1
    let e := ({ e with eVal := eVal, cxVal := cxVal } : HtEnc).vlcTuple tuple1
    let e := if cq1 = 0 then e.melBit (decide (q1.rho ≠ 0)) else e
    let e := { e with ms := encodeMagSgnQuad e.ms q1.rho uq1 tuple1 q1.s }
    let e := if u0 > 0 ∧ u1 > 0 then e.melBit (decide (min u0 u1 > 2)) else e
    let e := (uvlcItems true u0 u1).foldl HtEnc.vlcItem e
    (e, lep, lcxp, q1.rho / 2 ||| q1.rho % 2)
  else
    let e := (uvlcItems true u0 0).foldl HtEnc.vlcItem e
    (e, lep, lcxp, 0)

def encInitialRows (kmax : Nat) (cb : List Nat) (w h : Nat) : Nat → Nat → HtEnc → Nat → Nat → Nat → HtEnc
  | 0, _, e, lep, _, _ => { e with eVal := e.eVal.set (lep + 1) 0 }
  | f + 1, x, e, lep, lcxp, cq0 =>
    if x < w then
      let r := encInitialPair kmax cb w h x e lep lcxp cq0
      encInitialRows kmax cb w h f (x + 4) r.1 r.2.1 r.2.2.1 r.2.2.2
    else { e with eVal := e.eVal.set (lep + 1) 0 }

/-- one turn of the inner loop of `encodeOJPHSubsequentRows`; state (lep, lcxp, cq0, maxE) -/
def encLaterPair (kmax : Nat) (cb : List Nat) (w h x y : Nat) (e : HtEnc) (lep lcxp cq0 : Nat) (maxE : Int) :
    HtEnc × Nat × Nat × Nat × Int :=
  let q0 := prepQuad kmax (quadWords cb w h x y)
  let kappa : Int := if q0.rho &&& (q0.rho - 1) ≠ 0 then max 1 maxE else 1
  let uq0 : Int := max (q0.eQMax : Int) kappa
  let u0 : Int := uq0 - kappa
  let eps0 := epsOf q0.eQ q0.eQMax u0
  let eVal := e.eVal.set lep (max (lget e.eVal lep) (lget q0.eQ 1))
  let lep := lep + 1
  let maxE : Int := max (lget eVal lep : Int) (lget eVal (lep + 1)) - 1
  let eVal := eVal.set lep (lget q0.eQ 3)
  let cxVal := e.cxVal.set lcxp (lget e.cxVal lcxp ||| (q0.rho / 2 % 2))
  let lcxp := lcxp + 1
  let cq1 := lget cxVal lcxp + lget cxVal (lcxp + 1) * 4
  let cxVal := cxVal.set lcxp (q0.rho / 8 % 2)
  let tuple0 := encodeTuple false cq0 q0.rho eps0
  let e := ({ e with eVal := eVal, cxVal := cxVal } : HtEnc).vlcTuple tuple0
  let e := if cq0 = 0 then e.melBit (decide (q0.rho ≠ 0)) else e
  let e := { e with ms := encodeMagSgnQuad e.ms q0.rho uq0 tuple0 q0.s }
  if x + 2 < w then
    let q1 := prepQuad kmax (quadWords cb w h (x + 2) y)
    let kappa : Int := if q1.rho &&& (q1.rho - 1) ≠ 0 then max 1 maxE else 1
    let cq1 := cq1 ||| (q0.rho / 4 % 2 * 2) ||| (q0.rho / 8 % 2 * 2)
    let uq1 : Int := max (q1.eQMax : Int) kappa
    let u1 : Int := uq1 - kappa
    let eps1 := epsOf q1.eQ q1.eQMax u1
    let eVal := e.eVal.set lep (max (lget e.eVal lep) (lget q1.eQ 1))
    let lep := lep + 1
    let maxE : Int := max (lget eVal lep : Int) (lget eVal (lep + 1)) - 1
    let eVal := eVal.set lep (lget q1.eQ 3)
    let cxVal := e.cxVal.set lcxp (lget e.cxVal lcxp ||| (q1.rho / 2 % 2))
    let lcxp := lcxp + 1
    let cq0 := lget cxVal lcxp + lget cxVal (lcxp + 1) * 4
    let cxVal := cxVal.set lcxp (q1.rho / 8 % 2)
    let tuple1 := encodeTuple false cq1 q1.rho eps1
    let e := ({ e with eVal := eVal, cxVal := cxVal } : HtEnc).vlcTuple tuple1
    let e := if cq1 = 0 then e.melBit (decide (q1.rho ≠ 0)) else e
    let e := { e with ms := encodeMagSgnQuad e.ms q1.rho uq1 tuple1 q1.s }
    let e := (uvlcItems false u0.toNat u1.toNat).foldl HtEnc.vlcItem e
    (e, lep, lcxp, cq0 ||| (q1.rho / 4 % 2 * 2) ||| (q1.rho / 8 % 2 * 2), maxE)
  else
    let e := (uvlcItems false u0.toNat 0).foldl HtEnc.vlcItem e
    (e, lep, lcxp, cq0, maxE)

def encLaterRow (kmax : Nat) (cb : List Nat) (w h y : Nat) : Nat → Nat → HtEnc → Nat → Nat → Nat → Int → HtEnc
  | 0, _, e, _, _, _, _ => e
  | f + 1, x, e, lep, lcxp, cq0, maxE =>
    if x < w then
      let r := encLaterPair kmax cb w h x y e lep lcxp cq0 maxE
      encLaterRow kmax cb w h y f (x + 4) r.1 r.2.1 r.2.2.1 r.2.2.2.1 r.2.2.2.2
    else e

def encLaterRows (kmax : Nat) (cb : List Nat) (w h : Nat) : Nat → Nat → HtEnc → HtEnc
  | 0, _, e => e
  | f + 1, y, e =>
    if y < h then
      let maxE : Int := max (lget e.eVal 0 : Int) (lget e.eVal 1) - 1
      let eVal := e.eVal.set 0 0
      let cq0 := lget e.cxVal 0 + lget e.cxVal 1 * 4
      let cxVal := e.cxVal.set 0 0
      let e := encLaterRow kmax cb w h y (w / 4 + 1) 0 { e with eVal := eVal, cxVal := cxVal } 0 0 cq0 maxE
      encLaterRows kmax cb w h f (y + 2) e
    else e

/-- the three segments before assembly: MagSgn bytes, MEL bytes, VLC bytes (already reversed) -/
def htSegments (e : HtEnc) : List Nat × List Nat × List Nat :=
  let pk := if e.mel.run > 0 then e.mel.pk.emitBit true else e.mel.pk
  let r := terminateMelVlc pk e.vlc.buf e.vlc.tmp e.vlc.usedBits
  (e.ms.terminate, r.1, VlcWriter.bytesOf r.2)

/-- the encoder state after both row loops, `none` for an all-zero block -/
def htEncodeState (kmax w h : Nat) (data : List Int) : Option HtEnc :=
  let cb := data.map (toSignMag kmax)
  let maxVal := (data.map (fun v => v.natAbs * 2 ^ (31 - kmax) % 2 ^ 32)).foldl Nat.lor 0
  if maxVal < 2 ^ (31 - kmax) then none
  else
    let n := (w + 1) / 2 + 2
    let e0 : HtEnc := { eVal := List.replicate n 0, cxVal := List.replicate n 0 }
    let e := encInitialRows kmax cb w h (w / 4 + 1) 0 e0 0 0 0
    some (encLaterRows kmax cb w h (h / 2 + 1) 2 e)

/-- `HTEncoder.encodeOpenJPHCleanup(data)` for `0 < kmax < 31`: `none` = all-zero block (`return nil, nil`) -/
def htEncodeBlock (kmax w h : Nat) (data : List Int) : Option (List Nat) :=
  match htEncodeState kmax w h data with
  | none => none
  | some e =>
    let (msB, melB, vlcB) := htSegments e
    let result := msB ++ melB ++ vlcB
    let scup := melB.length + vlcB.length
    -- `writeScupLocator(result, scup)`
    if result.length < 2 then some result
    else
      let n := result.length
      let wr := scupWrite (result.getD (n - 2) 0) scup
      some ((result.take (n - 2)) ++ [wr.1, wr.2])

/-! ## Decoder at stream level (`decodeOpenJPHInitialRow`, `decodeOpenJPHRemainingRows`, `decodeOJPHScratchMagSgn`)

  The three segments are taken as what their readers deliver: MEL as the symbol sequence (the real reader works on
  run lengths: `applyZeroRun`), VLC as an LSB-first bit window (the real reader walks the bytes backwards), MagSgn
  through `MsReader`.  Results on encoder-produced blocks are compared with the real `HTDecoder` by op `ht-dec`. -/

structure HtDecStreams where
  mel : List Bool
  vlc : Nat              -- remaining VLC bits, LSB first
  deriving Repr

/-- next MEL symbol; beyond the written symbols the real reader keeps delivering events of an endless run -/
def HtDecStreams.melNext (s : HtDecStreams) : Bool × HtDecStreams :=
  match s.mel with
  | [] => (false, s)
  | b :: r => (b, { s with mel := r })

def HtDecStreams.adv (s : HtDecStreams) (n : Nat) : HtDecStreams := { s with vlc := s.vlc / 2 ^ n }

/-- scratch entry of one quad: the matched VLC row (`none` = entry 0) and the u value stored next to it -/
abbrev QuadInfo := Option VlcRow × Nat

def rowRho (t : Option VlcRow) : Nat := match t with | some r => r.rho | none => 0
def rowLen (t : Option VlcRow) : Nat := match t with | some r => r.len | none => 0
def rowUoff (t : Option VlcRow) : Nat := match t with | some r => r.uoff | none => 0
def rowEk (t : Option VlcRow) : Nat := match t with | some r => r.ek | none => 0
def rowE1 (t : Option VlcRow) : Nat := match t with | some r => r.e1 | none => 0

/-- the three statements both row decoders repeat per quad: table lookup on the 7-bit window, the MEL event of
    context 0 (`applyZeroRun`; for the second quad only `if x < width`), `if x >= width { t = 0 }`, `readerAdvance` -/
def decVlcQuad (rows : List VlcRow) (cq : Nat) (present : Bool) (s : HtDecStreams) : Option VlcRow × HtDecStreams :=
  let t := decLookup rows cq (s.vlc % 128)
  let (t, s) := if cq = 0 ∧ present then (let (b, s) := s.melNext; (if b then t else none, s)) else (t, s)
  let t := if present then t else none
  (t, s.adv (rowLen t))

/-- one turn of `decodeOpenJPHInitialRow` (two quads): returns the two scratch entries and the next context -/
def decInitialPair (w x cq : Nat) (s : HtDecStreams) : (QuadInfo × QuadInfo) × Nat × HtDecStreams :=
  let (t0, s) := decVlcQuad vlcRows0 cq true s
  let cq1 := rowRho t0 / 2 ||| rowRho t0 % 2
  let (t1, s) := decVlcQuad vlcRows0 cq1 (decide (x + 2 < w)) s
  let mode := rowUoff t0 * 64 + rowUoff t1 * 128
  let (mode, s) := if mode = 192 then (let (b, s) := s.melNext; (if b then mode + 64 else mode, s)) else (mode, s)
  let (u0, u1, n) := decodeUVLC true mode s.vlc
  (((t0, 1 + u0), (t1, 1 + u1)), rowRho t1 / 2 ||| rowRho t1 % 2, s.adv n)

def decInitialRow (w : Nat) : Nat → Nat → Nat → HtDecStreams → List QuadInfo → List QuadInfo × HtDecStreams
  | 0, _, _, s, acc => (acc, s)
  | f + 1, x, cq, s, acc =>
    if x < w then
      let r := decInitialPair w x cq s
      decInitialRow w f (x + 4) r.2.1 r.2.2 (acc ++ [r.1.1, r.1.2])
    else (acc, s)

def aboveRho (above : List QuadInfo) (j : Nat) : Nat := rowRho (above.getD j (none, 0)).1

/-- one turn of the inner loop of `decodeOpenJPHRemainingRows`; `j` = quad index of the first quad of the pair -/
def decLaterPair (w x j cq : Nat) (above : List QuadInfo) (s : HtDecStreams) : (QuadInfo × QuadInfo) × Nat × HtDecStreams :=
  -- `cq |= (scratch[sp-sstr]&0xA0)<<2 | (scratch[sp-sstr+2]&0x20)<<4`
  let cq := cq ||| (aboveRho above j / 2 % 2) ||| (aboveRho above j / 8 % 2 * 4) ||| (aboveRho above (j + 1) / 2 % 2 * 4)
  let (t0, s) := decVlcQuad vlcRows1 cq true s
  -- `cq = (t0&0x40)<<2 | (t0&0x80)<<1; cq |= scratch[sp-sstr]&0x80; cq |= (scratch[sp-sstr+2]&0xA0)<<2 | (scratch[sp-sstr+4]&0x20)<<4`
  let cq1 := (rowRho t0 / 4 % 2 * 2) ||| (rowRho t0 / 8 % 2 * 2) ||| (aboveRho above j / 8 % 2) |||
    (aboveRho above (j + 1) / 2 % 2) ||| (aboveRho above (j + 1) / 8 % 2 * 4) ||| (aboveRho above (j + 2) / 2 % 2 * 4)
  let (t1, s) := decVlcQuad vlcRows1 cq1 (decide (x + 2 < w)) s
  -- `cq = (t1&0x40)<<2 | (t1&0x80)<<1; cq |= scratch[sp-sstr+2]&0x80`
  let cqn := (rowRho t1 / 4 % 2 * 2) ||| (rowRho t1 / 8 % 2 * 2) ||| (aboveRho above (j + 1) / 8 % 2)
  let (u0, u1, n) := decodeUVLC false (rowUoff t0 * 64 + rowUoff t1 * 128) s.vlc
  (((t0, u0), (t1, u1)), cqn, s.adv n)

def decLaterRow (w : Nat) (above : List QuadInfo) : Nat → Nat → Nat → Nat → HtDecStreams → List QuadInfo → List QuadInfo × HtDecStreams
  | 0, _, _, _, s, acc => (acc, s)
  | f + 1, x, j, cq, s, acc =>
    if x < w then
      let r := decLaterPair w x j cq above s
      decLaterRow w above f (x + 4) (j + 2) r.2.1 r.2.2 (acc ++ [r.1.1, r.1.2])
    else (acc, s)

def decLaterRows (w h : Nat) : Nat → Nat → List QuadInfo → HtDecStreams → List (List QuadInfo) → List (List QuadInfo)
  | 0, _, _, _, acc => acc
  | f + 1, y, above, s, acc =>
    if y < h then
      let r := decLaterRow w above (w / 4 + 1) 0 0 0 s []
      decLaterRows w h f (y + 2) r.1 r.2 (acc ++ [r.1])
    else acc

/-- `decodeOJPHSampleMS`: (word, v_n, reader) for sample `bit` of a quad -/
def decSample (kmax : Nat) (ms : MsReader) (t : Option VlcRow) (uq : Nat) (bit : Nat) : (Nat × Nat) × MsReader :=
  if rowRho t / 2 ^ bit % 2 = 0 then ((0, 0), ms)
  else
    let mn := uq - rowEk t / 2 ^ bit % 2
    let (msVal, _, ms) := ms.readBits mn
    let vn := msVal % 2 ^ mn + rowE1 t / 2 ^ bit % 2 * 2 ^ mn     -- `vn |= e1 << mn` onto clear bits
    let vn := vn / 2 * 2 + 1                                         -- `vn |= 1`
    -- `val := msVal << 31 | (vn + 2) << (p - 1)` with `p = 31 - kmax` (uint32)
    ((msVal % 2 * 2 ^ 31 + (vn + 2) * 2 ^ (30 - kmax) % 2 ^ 32, vn), ms)

/-- one quad of either MagSgn loop: words [TL, BL, TR, BR] and the v_n of BL and BR; `none` = the U_q check failed -/
def decQuadMS (kmax w x : Nat) (ms : MsReader) (t : Option VlcRow) (uq : Nat) : Option ((List Nat × Nat × Nat) × MsReader) :=
  if uq > (kmax - 1) + 2 then none
  else
    let (v0, ms) := decSample kmax ms t uq 0
    let (v1, ms) := decSample kmax ms t uq 1
    if x + 1 ≥ w then some (([v0.1, v1.1, 0, 0], v1.2, 0), ms)
    else
      let (v2, ms) := decSample kmax ms t uq 2
      let (v3, ms) := decSample kmax ms t uq 3
      some (([v0.1, v1.1, v2.1, v3.1], v1.2, v3.2), ms)

/-- MagSgn pass over one row of quads. `vnAbove[j]` = v_n(BR of quad j-1) | v_n(BL of quad j) of the row above
    (`none` for the first row). Returns the quads' words, the new vn line, the reader. -/
def decRowMS (kmax w : Nat) (initial : Bool) (vnAbove : List Nat) :
    List QuadInfo → Nat → Nat → Nat → MsReader → List (List Nat) → List Nat → Option (List (List Nat) × List Nat × MsReader)
  | [], _, _, prevVN, ms, acc, vns => some (acc, vns ++ [prevVN], ms)
  | (t, u) :: rest, x, j, prevVN, ms, acc, vns =>
    if x ≥ w then some (acc, vns ++ [prevVN], ms)
    else
      let uq : Nat :=
        if initial then u
        else
          let gamma2 := decide (rowRho t &&& (rowRho t - 1) ≠ 0)
          let emax := bitLen ((lget vnAbove j ||| lget vnAbove (j + 1)) ||| 2) - 1
          u + (if gamma2 then emax else 1)
      match decQuadMS kmax w x ms t uq with
      | none => none
      | some ((ws, vnBL, vnBR), ms) =>
        decRowMS kmax w initial vnAbove rest (x + 2) (j + 1) vnBR ms (acc ++ [ws]) (vns ++ [prevVN ||| vnBL])

def decAllMS (kmax w : Nat) : List (List QuadInfo) → Bool → List Nat → MsReader → List (List (List Nat)) → Option (List (List (List Nat)))
  | [], _, _, _, acc => some acc
  | row :: rows, initial, vnAbove, ms, acc =>
    match decRowMS kmax w initial vnAbove row 0 0 0 ms [] [] with
    | none => none
    | some (ws, vns, ms) => decAllMS kmax w rows false vns ms (acc ++ [ws])

/-- assemble `out[y*width+x]` from the quad words and apply the last loop of `decodeOpenJPHCleanup`
    (`kmaxOut` is the band precision used for the final shift, `kmax-1` the missing MSBs used for `p`) -/
def assemble (kmaxOut w h : Nat) (rows : List (List (List Nat))) : List Int :=
  (List.range (w * h)).map fun i =>
    let x := i % w; let y := i / w
    let q := (rows.getD (y / 2) []).getD (x / 2) []
    fromSignMag kmaxOut (q.getD (x % 2 * 2 + y % 2) 0)

/-- the stream-level decoder on what the encoder model produced; `kd` = band precision given to the decoder
    (`SetCodingContext(kd, kd-1)`): `none` = error -/
def htDecodeFromEnc (kd w h : Nat) (e : HtEnc) : Option (List Int) :=
  let s : HtDecStreams := { mel := e.melSyms, vlc := (vlcConcat e.vlcItems).1 }
  let r0 := decInitialRow w (w / 4 + 1) 0 0 s []
  let rows := decLaterRows w h (h / 2 + 1) 2 r0.1 r0.2 [r0.1]
  match decAllMS kd w rows true [] { rest := e.ms.terminate } [] with
  | none => none
  | some ws => some (assemble kd w h ws)

end Htj2k
