import GdcVerif.Model.J2kSample
import GdcVerif.Model.J2kTagTree
/-!
  One packet header, encoder and decoder (classic code-blocks, one codeword segment per contribution):

  * encoder: t2/packet_header_tagtree.go encodePacketHeaderWithTagTreeMulti → preparePacketHeaderPrecinct,
    encodePacketHeaderCodeBlock (layerContribution, writeInclusionAndZBP, encodeNumPasses, encodeCodeBlockLengths)
  * decoder: t2/packet_header.go parsePacketHeaderMulti (DecodeInclusion, DecodeZeroBitPlanes,
    decodeNumPassesWithReader, decodeDataLengthWithReader)

  The model works on the header's BIT string (`List Bool`); bytes, 0xFF stuffing, flush and alignToByte are the
  `BioW`/`BioR` layer (`bio_roundtrip`).  A "band" is one `*Precinct` of the encoder / one `packetHeaderBand` of
  the decoder: a w×h grid of code-blocks with an inclusion and a zero-bit-plane tag tree.  Code-blocks are listed
  in the header order (sorted by (cby, cbx) on both sides).
-/
namespace J2kPH
open J2k J2kTT

/-- what one code-block contributes to one packet: `none` = not included, `some (newPasses, dataLength)` -/
abbrev Contrib := Option (Nat × Nat)

/-- encoder side of a code-block (t2.PrecinctCodeBlock: CBX, CBY, ZeroBitPlanes, Included, NumLenBits) -/
structure CbE where
  x : Nat
  y : Nat
  zbp : Nat
  included : Bool
  lblock : Nat
deriving Repr, DecidableEq

/-- decoder side (t2.CodeBlockState: Included, NumLenBits, ZeroBitPlanes once decoded) -/
structure CbD where
  x : Nat
  y : Nat
  included : Bool
  lblock : Nat
  zbp : Nat
deriving Repr, DecidableEq

structure BandE where
  w : Nat
  h : Nat
  incl : TTEnc
  zbpT : TTEnc
  cbs : List CbE

structure BandD where
  w : Nat
  h : Nat
  incl : TTDec
  zbpT : TTDec
  cbs : List CbD

/-- what the decoder reports per code-block (t2.CodeBlockIncl: Included, NumPasses, DataLength, ZeroBitplanes) -/
structure Incl where
  included : Bool
  numPasses : Nat
  dataLength : Nat
  zbp : Nat
deriving Repr, DecidableEq

/-- preparePacketHeaderPrecinct: `if !cb.Included && included { InclTree.SetValue(cbx, cby, layer) }`,
    `if layer == 0 { ZBPTree.SetValue(cbx, cby, cb.ZeroBitPlanes) }` for every code-block of the band -/
def prepare (layer : Nat) (w h : Nat) : List CbE → List Contrib → TTEnc → TTEnc → TTEnc × TTEnc
  | cb :: cbs, c :: cs, incl, zt =>
    let incl := if !cb.included && c.isSome then incl.setValue w h cb.x cb.y layer else incl
    let zt := if layer == 0 then zt.setValue w h cb.x cb.y cb.zbp else zt
    prepare layer w h cbs cs incl zt
  | _, _, incl, zt => (incl, zt)

/-- encodePacketHeaderCodeBlock for the code-blocks of one band, in order -/
def encCbs (layer : Nat) (w h : Nat) : List CbE → List Contrib → TTEnc → TTEnc → (List CbE × TTEnc × TTEnc × List Bool)
  | cb :: cbs, c :: cs, incl, zt =>
    if !cb.included then
      -- writeInclusionAndZBP, first inclusion pending: inclusion tag tree with threshold layer+1
      let r := incl.encode w h cb.x cb.y (layer + 1)
      match c with
      | none =>
        let rest := encCbs layer w h cbs cs r.1 zt
        (cb :: rest.1, rest.2.1, rest.2.2.1, r.2 ++ rest.2.2.2)
      | some (np, len) =>
        let rz := zt.encode w h cb.x cb.y 999
        let l := encLen cb.lblock len np
        let bits := r.2 ++ rz.2 ++ (encNumPasses np).getD [] ++ l.2
        let rest := encCbs layer w h cbs cs r.1 rz.1
        ({ cb with included := true, lblock := l.1 } :: rest.1, rest.2.1, rest.2.2.1, bits ++ rest.2.2.2)
    else
      match c with
      | none =>
        let rest := encCbs layer w h cbs cs incl zt
        (cb :: rest.1, rest.2.1, rest.2.2.1, false :: rest.2.2.2)
      | some (np, len) =>
        let l := encLen cb.lblock len np
        let bits := true :: ((encNumPasses np).getD [] ++ l.2)
        let rest := encCbs layer w h cbs cs incl zt
        ({ cb with lblock := l.1 } :: rest.1, rest.2.1, rest.2.2.1, bits ++ rest.2.2.2)
  | cbs, _, incl, zt => (cbs, incl, zt, [])

def encBand (layer : Nat) (b : BandE) (cs : List Contrib) : BandE × List Bool :=
  let p := prepare layer b.w b.h b.cbs cs b.incl b.zbpT
  let r := encCbs layer b.w b.h b.cbs cs p.1 p.2
  ({ b with cbs := r.1, incl := r.2.1, zbpT := r.2.2.1 }, r.2.2.2)

def encBands (layer : Nat) : List BandE → List (List Contrib) → List BandE × List Bool
  | b :: bs, c :: cs =>
    let r := encBand layer b c
    let rest := encBands layer bs cs
    (r.1 :: rest.1, r.2 ++ rest.2)
  | bs, _ => (bs, [])

/-- encodePacketHeaderWithTagTreeMulti: packet-present bit, then the bands
    (`hasCodeBlocks` is false only when no band has a code-block) -/
def encHeader (layer : Nat) (bands : List BandE) (cs : List (List Contrib)) : List BandE × List Bool :=
  if bands.all (fun b => b.cbs.isEmpty) then (bands, [false])
  else
    let r := encBands layer bands cs
    (r.1, true :: r.2)

/-- parsePacketHeaderMulti, the code-blocks of one band -/
def decCbs (layer : Nat) (w h : Nat) : List CbD → TTDec → TTDec → List Bool →
    Option (List CbD × TTDec × TTDec × List Incl × List Bool)
  | [], incl, zt, bits => some ([], incl, zt, [], bits)
  | cb :: cbs, incl, zt, bits =>
    if !cb.included then
      -- DecodeInclusion: tag tree up to layer+1; included iff value ≤ layer
      match incl.decode w h cb.x cb.y (layer + 1) bits with
      | none => none
      | some (incl', v, bits1) =>
        if v > layer then
          match decCbs layer w h cbs incl' zt bits1 with
          | none => none
          | some (cbs', i2, z2, outs, rest) => some (cb :: cbs', i2, z2, ⟨false, 0, 0, 0⟩ :: outs, rest)
        else
          -- DecodeZeroBitPlanes: threshold 32
          match zt.decode w h cb.x cb.y 32 bits1 with
          | none => none
          | some (zt', z, bits2) =>
            match decNumPasses bits2 with
            | none => none
            | some (np, bits3) =>
              match decLen 3 np bits3 with
              | none => none
              | some (len, l, bits4) =>
                match decCbs layer w h cbs incl' zt' bits4 with
                | none => none
                | some (cbs', i2, z2, outs, rest) =>
                  some ({ cb with included := true, lblock := l, zbp := z } :: cbs', i2, z2, ⟨true, np, len, z⟩ :: outs, rest)
    else
      match bits with
      | [] => none
      | false :: bits1 =>
        match decCbs layer w h cbs incl zt bits1 with
        | none => none
        | some (cbs', i2, z2, outs, rest) => some (cb :: cbs', i2, z2, ⟨false, 0, 0, 0⟩ :: outs, rest)
      | true :: bits1 =>
        match decNumPasses bits1 with
        | none => none
        | some (np, bits2) =>
          match decLen cb.lblock np bits2 with
          | none => none
          | some (len, l, bits3) =>
            match decCbs layer w h cbs incl zt bits3 with
            | none => none
            | some (cbs', i2, z2, outs, rest) =>
              some ({ cb with lblock := l } :: cbs', i2, z2, ⟨true, np, len, cb.zbp⟩ :: outs, rest)

def decBands (layer : Nat) : List BandD → List Bool → Option (List BandD × List (List Incl) × List Bool)
  | [], bits => some ([], [], bits)
  | b :: bs, bits =>
    match decCbs layer b.w b.h b.cbs b.incl b.zbpT bits with
    | none => none
    | some (cbs', i2, z2, outs, rest) =>
      match decBands layer bs rest with
      | none => none
      | some (bs', outss, rest') => some ({ b with cbs := cbs', incl := i2, zbpT := z2 } :: bs', outs :: outss, rest')

/-- parsePacketHeaderMulti: `none` = read error; `some (bands, none, rest)` = empty packet (bit 0) -/
def decHeader (layer : Nat) (bands : List BandD) : List Bool →
    Option (List BandD × Option (List (List Incl)) × List Bool)
  | [] => none
  | false :: rest => some (bands, none, rest)
  | true :: rest =>
    match decBands layer bands rest with
    | none => none
    | some (bs, outs, rest') => some (bs, some outs, rest')

/-- fresh states (PacketEncoder.ResetState / first packet of a precinct in the decoder) -/
def BandE.fresh (w h : Nat) (cbs : List (Nat × Nat × Nat)) : BandE :=
  { w := w, h := h, incl := TTEnc.init, zbpT := TTEnc.init,
    cbs := cbs.map fun c => { x := c.1, y := c.2.1, zbp := c.2.2, included := false, lblock := 0 } }

def BandD.fresh (w h : Nat) (cbs : List (Nat × Nat × Nat)) : BandD :=
  { w := w, h := h, incl := TTDec.init, zbpT := TTDec.init,
    cbs := cbs.map fun c => { x := c.1, y := c.2.1, included := false, lblock := 0, zbp := 0 } }

/-- the header on the wire: bits through bioWriter and flush -/
def headerBytes (bits : List Bool) : List Nat := (BioW.new.writeBitsList bits).flush

end J2kPH
