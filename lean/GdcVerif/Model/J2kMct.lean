/-!
  C08 model of the DECODER side of the Part-2 multi-component transform of `jpeg2000.Decoder`
  (decoder.go: extractMCTFromMarkers — marker part —, extractBindings, decodeMCTMatrix,
  decodeMCTMatrixWithInts, decodeMCTOffsets, applyInverseTransforms, applyDecoderMCTBindings,
  applyIntegerMatrixTransform, applyFloatMatrixTransform, applyBindingOffsets,
  applyDecoderInverseCustomMCT), as of commit 43b6ee7.

  Abstraction.  The input is the list of PARSED MCT / MCC / MCO segments (what `codestream.Parser` stores;
  the byte-level parsers are modelled in J2kHeader.lean) and the decoded image as ONE value per component:
  every loop over the pixels does the same thing at every pixel, so index safety and — for planes that are
  constant — the values do not depend on the pixel.  The payload of an MCT segment is given as its complete
  elements `vals` (already decoded) and `pad` trailing bytes that do not make up an element.

  Every slice index of the Go code is an explicit `Option` site here: `none` = index out of range panic.
  `Option (Option α)`: outer `none` = panic, inner `none` = Go `nil`.

  Values: the integer path wraps to int32 like Go; the float path is modelled for integer-valued matrices
  and sums below 2^53 (where float64 arithmetic is exact and math.Round is the identity).  The no-panic
  theorem (Lemmas/J2kMctTotal.lean) does not depend on values.
-/
namespace Mct

structure MctSeg where
  index : Nat
  arrayType : Nat   -- 0 dependency, 1 decorrelate, 2 offset
  elemType : Nat    -- 0 int16, 1 int32, 2 float32, 3 float64
  vals : List Int
  pad : Nat
deriving Repr, Inhabited

structure MccSeg where
  index : Nat
  collType : Nat
  numComps : Nat
  compIDs : List Nat
  outIDs : List Nat
  decorr : Nat
  offs : Nat
  reversible : Bool
deriving Repr, Inhabited

structure Cs where
  mct : List MctSeg
  mcc : List MccSeg
  mco : List (List Nat)   -- stage indices of each MCO segment
deriving Repr, Inhabited

abbrev Mat := List (List Int)

structure Binding where
  ids : List Nat
  matF : Option Mat
  matI : Option Mat
  offsets : Option (List Int)
  reversible : Bool
deriving Repr, Inhabited

/-- `mctElementSize` -/
def elemSize (et : Nat) : Nat :=
  if et = 0 then 2 else if et = 1 then 4 else if et = 2 then 4 else if et = 3 then 8 else 0

/-- `len(seg.Data)` -/
def MctSeg.dataLen (s : MctSeg) : Nat := elemSize s.elemType * s.vals.length + s.pad

/-- abstraction invariant: `vals`/`pad` split `Data` into complete elements and a shorter rest -/
def MctSeg.WF (s : MctSeg) : Prop := s.pad < elemSize s.elemType ∨ elemSize s.elemType = 0

/-- `mapM` in the `Option` monad, as a structural recursion -/
def mapO {α β : Type} (f : α → Option β) : List α → Option (List β)
  | [] => some []
  | x :: xs =>
    match f x with
    | none => none
    | some y =>
      match mapO f xs with
      | none => none
      | some ys => some (y :: ys)

/-- `mctByIndex[idx]` / `mccByIndex[idx]`: the maps are filled in segment order, the last segment wins -/
def lastMct (l : List MctSeg) (idx : Nat) : Option MctSeg := l.reverse.find? (fun s => s.index = idx)
def lastMcc (l : List MccSeg) (idx : Nat) : Option MccSeg := l.reverse.find? (fun s => s.index = idx)

/-- element reads `seg.Data[off …]` of one row / of the matrix -/
def readRow (vals : List Int) (start comps : Nat) : Option (List Int) :=
  mapO (fun c => vals[start + c]?) (List.range comps)

def readMatrix (vals : List Int) (comps : Nat) : Option Mat :=
  mapO (fun r => readRow vals (r * comps) comps) (List.range comps)

/-- `decodeMCTMatrix` -/
def decodeMatrix (seg : MctSeg) (comps : Nat) : Option (Option Mat) :=
  let es := elemSize seg.elemType
  if comps = 0 ∨ es = 0 then some none
  else if seg.dataLen < comps * comps * es then some none
  else match readMatrix seg.vals comps with
    | none => none
    | some m => some (some m)

/-- `decodeMCTMatrixWithInts`: (matF, matI) -/
def decodeWithInts (seg : MctSeg) (comps : Nat) : Option (Option Mat × Option Mat) :=
  match decodeMatrix seg comps with
  | none => none
  | some m => if seg.elemType = 0 ∨ seg.elemType = 1 then some (m, m) else some (m, none)

/-- `decodeMCTOffsets` -/
def decodeOffsets (seg : MctSeg) (comps : Nat) : Option (Option (List Int)) :=
  let es := elemSize seg.elemType
  if comps = 0 ∨ es = 0 then some none
  else if seg.dataLen < comps * es then some none
  else match readRow seg.vals 0 comps with
    | none => none
    | some o => some (some o)

/-- `mctByIndex[seg.DecorrelateIndex]` → (matF, matI) -/
def lookupMats (cs : Cs) (decorr n : Nat) : Option (Option Mat × Option Mat) :=
  if decorr ≠ 0 then
    match lastMct cs.mct decorr with
    | some m => if m.arrayType = 1 then decodeWithInts m n else some (none, none)
    | none => some (none, none)
  else some (none, none)

/-- `mctByIndex[seg.OffsetIndex]` → offsets -/
def lookupOffs (cs : Cs) (offs n : Nat) : Option (Option (List Int)) :=
  if offs ≠ 0 then
    match lastMct cs.mct offs with
    | some m => if m.arrayType = 2 then decodeOffsets m n else some none
    | none => some none
  else some none

/-- one turn of the loop over `order` in `extractBindings`: inner `none` = `continue` -/
def mkBinding (cs : Cs) (components : Nat) (idx : Nat) : Option (Option Binding) :=
  match lastMcc cs.mcc idx with
  | none => some none
  | some seg =>
    if seg.collType ≠ 0 ∧ seg.collType ≠ 1 then some none
    else
      let ids := if seg.compIDs.isEmpty ∧ seg.numComps > 0 then List.range seg.numComps else seg.compIDs
      if ¬ seg.outIDs.isEmpty ∧ seg.outIDs ≠ ids then some none
      else if ids.isEmpty then some none
      else if ids.any (fun id => id ≥ components) then some none   -- guard of 43b6ee7
      else
        match lookupMats cs seg.decorr ids.length, lookupOffs cs seg.offs ids.length with
        | some (mF, mI), some o =>
          if mF.isNone ∧ mI.isNone ∧ o.isNone then some none
          else some (some { ids := ids, matF := mF, matI := mI, offsets := o, reversible := seg.reversible })
        | _, _ => none

/-- the stage order: the first MCO segment if it lists stages, else the MCC segments in stream order -/
def stageOrder (cs : Cs) : List Nat :=
  match cs.mco with
  | m :: _ => if m.isEmpty then cs.mcc.map (·.index) else m
  | [] => cs.mcc.map (·.index)

/-- `extractBindings` -/
def extract (cs : Cs) (components : Nat) : Option (List Binding) :=
  if cs.mcc.isEmpty then some []
  else match mapO (mkBinding cs components) (stageOrder cs) with
    | none => none
    | some bs => some (bs.filterMap id)

/-! ### application -/

def wrap32 (x : Int) : Int := (x + 2147483648) % 4294967296 - 2147483648

/-- `d.data[b.compIDs[k]][i]` -/
def getC (v : List Int) (ids : List Nat) (k : Nat) : Option Int :=
  match ids[k]? with
  | none => none
  | some cid => v[cid]?

/-- `d.data[cid][i] = x` -/
def setC (v : List Int) (cid : Nat) (x : Int) : Option (List Int) :=
  if cid < v.length then some (v.set cid x) else none

/-- inner loop `for kk < c { sum += m[rr][kk] * data[ids[kk]][i] }` -/
def term (row : List Int) (ids : List Nat) (v : List Int) (kk : Nat) : Option Int :=
  match row[kk]?, getC v ids kk with
  | some a, some x => some (a * x)
  | _, _ => none

def sumO : Option (List Int) → Option Int
  | none => none
  | some ts => some (ts.foldl (· + ·) 0)

def dot (row : List Int) (ids : List Nat) (v : List Int) (c : Nat) : Option Int :=
  sumO (mapO (term row ids v) (List.range c))

/-- second loop `for rr < r { data[ids[rr]][i] = out[rr] }` -/
def writeBack (out : List Int) (ids : List Nat) (rr : Nat) (v : List Int) : Option (List Int) :=
  match out with
  | [] => some v
  | x :: xs =>
    match ids[rr]? with
    | none => none
    | some cid =>
      match setC v cid x with
      | none => none
      | some v' => writeBack xs ids (rr + 1) v'

/-- `applyIntegerMatrixTransform` (wrap = true) / `applyFloatMatrixTransform` (wrap = false) at one pixel -/
def applyMat (m : Mat) (ids : List Nat) (v : List Int) (wrap : Bool) : Option (List Int) :=
  match m[0]? with           -- c := len(m[0])
  | none => none
  | some row0 =>
    match mapO (fun row => dot row ids v row0.length) m with
    | none => none
    | some out => writeBack (if wrap then out.map wrap32 else out) ids 0 v

/-- `applyBindingOffsets` at one pixel -/
def addOffsets (o : List Int) (ids : List Nat) (idx : Nat) (v : List Int) : Option (List Int) :=
  match ids with
  | [] => some v
  | cid :: rest =>
    match o[idx]? with
    | none => none
    | some off =>
      if off = 0 then addOffsets o rest (idx + 1) v
      else match v[cid]? with
        | none => none
        | some x =>
          match setC v cid (wrap32 (x + off)) with
          | none => none
          | some v' => addOffsets o rest (idx + 1) v'

def applyOffsets (b : Binding) (v : List Int) : Option (List Int) :=
  match b.offsets with
  | some o => if o.length = b.ids.length then addOffsets o b.ids 0 v else some v
  | none => some v

/-- one turn of the loop of `applyDecoderMCTBindings` -/
def useInt (b : Binding) : Bool :=
  b.reversible && (match b.matI with | some m => m.length == b.ids.length | none => false)

def matStep (b : Binding) (v : List Int) : Option (List Int) :=
  if useInt b then
    match b.matI with
    | some m => applyMat m b.ids v true
    | none => some v
  else
    match b.matF with
    | some m => if m.length = b.ids.length then applyMat m b.ids v false else some v
    | none => some v

def applyBinding (b : Binding) (v : List Int) : Option (List Int) :=
  if b.ids.isEmpty then some v
  else
    match matStep b v with
    | none => none
    | some v1 => applyOffsets b v1

def applyBindings : List Binding → List Int → Option (List Int)
  | [], v => some v
  | b :: bs, v =>
    match applyBinding b v with
    | none => none
    | some v' => applyBindings bs v'

/-! ### the marker part of `extractMCTFromMarkers` (no MCC segment: one matrix for all components) -/

/-- first decorrelation array that decodes as a components × components matrix -/
def legacyInv (mct : List MctSeg) (components : Nat) : Option (Option Mat) :=
  match mct with
  | [] => some none
  | s :: rest =>
    if s.arrayType = 1 then
      match decodeMatrix s components with
      | none => none
      | some (some m) => some (some m)
      | some none => legacyInv rest components
    else legacyInv rest components

def legacyOffs (mct : List MctSeg) (components : Nat) : Option (Option (List Int)) :=
  match mct with
  | [] => some none
  | s :: rest =>
    if s.arrayType = 2 then
      match decodeOffsets s components with
      | none => none
      | some (some o) => some (some o)
      | some none => legacyOffs rest components
    else legacyOffs rest components

/-- `applyDecoderInverseCustomMCT` at one pixel: `out[r] = Σ_k inv[r][k]·data[k]`, then the offsets -/
def customRow (inv : Mat) (components : Nat) (v : List Int) (r : Nat) : Option Int :=
  match inv[r]? with
  | none => none
  | some row => dot row (List.range components) v components

def applyCustom (inv : Mat) (offs : Option (List Int)) (components : Nat) (v : List Int) : Option (List Int) :=
  let ids := List.range components
  match mapO (customRow inv components v) (List.range components) with
  | none => none
  | some out =>
    match offs with
    | some o => if o.length = components then addOffsets o ids 0 out else some out
    | none => some out

/-- `Decode` as far as the Part-2 markers are concerned: bindings if there are any, else the legacy
    matrix if its row count is the component count (the COM "JP2MCT" fallback and the Part-1 colour
    transform are outside: the correspondence inputs have neither) -/
def transform (cs : Cs) (components : Nat) (v : List Int) : Option (List Int) :=
  match extract cs components with
  | none => none
  | some bs =>
    if ¬ bs.isEmpty then applyBindings bs v
    else if cs.mcc.isEmpty ∧ ¬ cs.mct.isEmpty ∧ components > 0 then
      match legacyInv cs.mct components, legacyOffs cs.mct components with
      | some inv, some offs =>
        match inv with
        | some m => if m.length = components then applyCustom m offs components v else some v
        | none => some v
      | _, _ => none
    else some v

end Mct
