/-
  Shared vocabulary of the C08/C09 parser models: outcomes with explicit panic sites, and the
  generic "marker loop" runner.

  Every Go decoder loop modelled here has the shape `for { read a marker; handle its segment }`.
  The model of a loop is a NON-recursive `step` (one turn of the Go loop) plus a proof that a turn
  which continues leaves strictly fewer unread bytes (`hlt`).  `run` iterates `step` by
  well-founded recursion on the number of unread bytes — the termination measure of C09, stated
  and proved, not replaced by fuel.  `run_inv` is the one induction all loop-level theorems use.
-/
namespace PC

abbrev Bytes := List Nat

/-- every index / division / `make` on stream-derived values in the modelled code -/
inductive Site
  | huffLookup      -- HuffmanTable.Build: lookupTable[code+j]
  | huffValues      -- HuffmanTable.Build: Values[p]
  | sv1TableSel     -- lossless14sv1 decodeScan: d.dcTables[comp.dcTableSelector]
  | jllTableSel     -- jpeg/lossless decodeScan: d.dcTables[d.dcTableSelectors[comp]]
  | jllSelIndex     -- jpeg/lossless parseSOS: data[2+component*2], d.dcTableSelectors[component]
  | blTableSel      -- baseline decodeBlock: d.dcTables[comp.dcTableSelector]
  | blQuantSel      -- baseline parseDQT: d.qtables[tq]
  | blDivCeil       -- baseline parseSOF / decodeScan: DivCeil(_, 0)
  | jlsThresholds   -- computeThresholds: 256 / (maxVal + 1)
  | jlsRange        -- ComputeCodingParameters: (maxVal + 2·near) / (2·near + 1)
  | j2kMake         -- make([]T, n) with n < 0 (parseQCD, parseCOM, parseQCC, parsePOC, …)
  | j2kIndex        -- slice/array index in the JPEG 2000 header code
deriving Repr, DecidableEq

/-- how a decoder call ends, as far as the model follows it -/
inductive Res
  | ok
  | err
  | panic (s : Site)
  /-- the walk reached code that is not modelled (entropy decoding, tile bodies) -/
  | beyond
deriving Repr, DecidableEq

inductive Step (σ : Type) where
  | done (st : σ) (r : Res)
  | more (st : σ) (rest : Bytes)

/-- iterate one-turn `step` until it is done.  Measure: unread bytes. -/
def run {σ : Type} (step : σ → Bytes → Step σ)
    (hlt : ∀ {st bs st' r}, step st bs = .more st' r → r.length < bs.length)
    (st : σ) (bs : Bytes) : σ × Res :=
  match h : step st bs with
  | .done st' r => (st', r)
  | .more st' r => run step hlt st' r
termination_by bs.length
decreasing_by exact hlt h

/-- the induction principle of every loop-level theorem: an invariant of (state, unread bytes)
    preserved by continuing turns, and a conclusion established by finishing turns -/
theorem run_inv {σ : Type} (step : σ → Bytes → Step σ)
    (hlt : ∀ {st bs st' r}, step st bs = .more st' r → r.length < bs.length)
    (Inv : σ → Bytes → Prop) (P : σ × Res → Prop)
    (hmore : ∀ st bs st' r, Inv st bs → step st bs = .more st' r → Inv st' r)
    (hdone : ∀ st bs st' o, Inv st bs → step st bs = .done st' o → P (st', o))
    (st : σ) (bs : Bytes) (hi : Inv st bs) : P (run step hlt st bs) := by
  induction hn : bs.length using Nat.strongRecOn generalizing st bs with
  | _ n ih =>
    unfold run
    split
    · rename_i st' r h
      exact hdone st bs st' r hi h
    · rename_i st' r h
      exact ih r.length (by have := hlt h; omega) st' r (hmore st bs st' r hi h) rfl

/-- fuel-bounded evaluation of the same loop — used ONLY to compute `run` on concrete inputs in
    regression examples (`run_eq_of_runN`); no theorem about the decoders is stated over it -/
def runN {σ : Type} (step : σ → Bytes → Step σ) : Nat → σ → Bytes → Option (σ × Res)
  | 0, _, _ => none
  | n + 1, st, bs =>
    match step st bs with
    | .done st' r => some (st', r)
    | .more st' r => runN step n st' r

theorem run_eq_of_runN {σ : Type} (step : σ → Bytes → Step σ)
    (hlt : ∀ {st bs st' r}, step st bs = .more st' r → r.length < bs.length)
    (n : Nat) (st : σ) (bs : Bytes) (x : σ × Res) (h : runN step n st bs = some x) :
    run step hlt st bs = x := by
  induction n generalizing st bs with
  | zero => simp [runN] at h
  | succ n ih =>
    unfold runN at h
    unfold run
    split
    · rename_i st' r hs
      rw [hs] at h
      simp only at h
      injection h
    · rename_i st' r hs
      rw [hs] at h
      simp only at h
      exact ih st' r h

/-- number of turns is bounded by the number of unread bytes (C09: time of the header walk) -/
def turns {σ : Type} (step : σ → Bytes → Step σ)
    (hlt : ∀ {st bs st' r}, step st bs = .more st' r → r.length < bs.length)
    (st : σ) (bs : Bytes) : Nat :=
  match h : step st bs with
  | .done _ _ => 1
  | .more st' r => 1 + turns step hlt st' r
termination_by bs.length
decreasing_by exact hlt h

theorem turns_le {σ : Type} (step : σ → Bytes → Step σ)
    (hlt : ∀ {st bs st' r}, step st bs = .more st' r → r.length < bs.length)
    (st : σ) (bs : Bytes) : turns step hlt st bs ≤ bs.length + 1 := by
  induction hn : bs.length using Nat.strongRecOn generalizing st bs with
  | _ n ih =>
    unfold turns
    split
    · omega
    · rename_i st' r h
      have h1 := hlt h
      have := ih r.length (by omega) st' r rfl
      omega

end PC
