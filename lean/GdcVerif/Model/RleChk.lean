import GdcVerif.Model.Rle
/-!
  C08/C09 view of /repo/rle/rle.go `decodeFrame`: the same decoder as `Model/Rle.lean`, but
  * every store `buffer[pos] = b` is an explicit bounds-checked write (`panic` when out of range),
  * `frameData := make([]byte, frameSize)` is an explicit step: the Go runtime panics
    ("makeslice: len out of range") when the length exceeds `maxAlloc` = 2^48 on 64-bit linux,
  * the decoder returns the list of allocation sizes it performed (C09).
  `Lemmas/RleTotal.lean` proves that the checked writes never fire, i.e. this model and
  `Rle.decodeFrame` agree, so the correspondence run of `rle-dec` ties both.
-/
namespace Rle

/-- `buffer[pos] = b; pos += stride` with the bounds check the Go runtime performs -/
def writeStridedChk (buf : Array Byte) (pos stride : Nat) : List Byte → Option (Array Byte)
  | [] => some buf
  | b :: bs =>
    if h : pos < buf.size then writeStridedChk (buf.set pos b h) (pos + stride) stride bs else none

inductive ChkErr | err (e : DecErr) | oob
deriving Repr, DecidableEq

/-- `rleDecoder.decode`, every write checked -/
def decodeLoopChk (stride : Nat) (buf : Array Byte) (pos : Nat) (rem : List Byte) :
    Except ChkErr (Array Byte) :=
  match rem with
  | [] => .ok buf
  | c :: rest =>
    if pos ≥ buf.size then .ok buf
    else if c < 128 then
      let length := c + 1
      if rest.length < length then .error (.err .litIn)
      else if pos + (length - 1) * stride ≥ buf.size then .error (.err .litOut)
      else
        match writeStridedChk buf pos stride (rest.take length) with
        | none => .error .oob
        | some buf' =>
          let rem' := rest.drop length
          if rem'.length ≤ 1 then .ok buf' else decodeLoopChk stride buf' (pos + length * stride) rem'
    else if c ≥ 129 then
      let length := 257 - c
      if pos + (length - 1) * stride ≥ buf.size then .error (.err .repOut)
      else
        match rest with
        | [] => .error (.err .eof)
        | b :: rest' =>
          match writeStridedChk buf pos stride (List.replicate length b) with
          | none => .error .oob
          | some buf' =>
            if rest'.length ≤ 1 then .ok buf' else decodeLoopChk stride buf' (pos + length * stride) rest'
    else
      if rest.length ≤ 1 then .ok buf else decodeLoopChk stride buf pos rest
termination_by rem.length
decreasing_by all_goals (simp [List.length_drop] <;> omega)

def decodeSegmentsChk (i : Info) (data : List Byte) (n : Nat) (offs : List Nat) :
    Nat → Nat → Array Byte → Except ChkErr (Array Byte)
  | 0, _, buf => .ok buf
  | k + 1, s, buf =>
    match decodeLoopChk i.segStride buf (i.segStart s) (segmentSlice data n offs s) with
    | .error e => .error e
    | .ok buf' => decodeSegmentsChk i data n offs k (s + 1) buf'

/-- largest slice length `make` accepts on linux/amd64 (`runtime.maxAlloc` = 2^48) -/
def maxAlloc : Nat := 2 ^ 48

inductive Site | makeslice | store
deriving Repr, DecidableEq

/-- outcome with the panic site, plus the allocation sizes performed (in bytes) -/
inductive OutcomeC (α : Type) where
  | ok (a : α)
  | err
  | panic (s : Site)
deriving Repr, DecidableEq

/-- `Codec.decodeFrame` from the allocation of the frame buffer on -/
def decodeFrameBody (i : Info) (data : List Byte) : OutcomeC (Array Byte) × List Nat :=
  match parseHeader data with
  | none => (.err, [i.frameSize])
  | some (n, offs) =>
    if n ≠ i.numberOfSegments then (.err, [i.frameSize])
    else
      match decodeSegmentsChk i data n offs n 0 (Array.replicate i.frameSize 0) with
      | .error .oob => (.panic .store, [i.frameSize])
      | .error (.err _) => (.err, [i.frameSize])
      | .ok buf => (.ok buf, [i.frameSize])

/-- `Codec.decodeFrame`: (outcome, allocation sizes).  The frame buffer is allocated from the
    FrameInfo before the stream header is looked at, but (since commit 9650374) after the plane
    count implied by the FrameInfo has been checked to be 1..15. -/
def decodeFrameC (i : Info) (data : List Byte) : OutcomeC (Array Byte) × List Nat :=
  if data.length = 0 then (.err, [])
  else if i.bitsAllocated = 0 ∨ i.numberOfSegments < 1 ∨ i.numberOfSegments > 15 then (.err, [])
  else if i.frameSize > maxAlloc then (.panic .makeslice, [])
  else decodeFrameBody i data

/-- declared samples of a frame description -/
def Info.samples (i : Info) : Nat := i.width * i.height * i.spp

/-- the FrameInfo fields are `uint16` in Go -/
def Info.U16 (i : Info) : Prop :=
  i.width < 65536 ∧ i.height < 65536 ∧ i.bitsAllocated < 65536 ∧ i.spp < 65536 ∧ i.planar < 65536

instance (i : Info) : Decidable i.U16 := by unfold Info.U16; infer_instance

end Rle
