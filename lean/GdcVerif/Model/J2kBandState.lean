/-!
  t2/packet_decoder.go decodePacket: bookkeeping of the per-band packet-header state (inclusion / zero-bit-plane
  tag trees, per-code-block Lblock and pass counters) across the packets of a precinct.

  * `gather`      — the first loop: bands without code-blocks are skipped (`continue`), for the others the
                    context `pd.cbStates[key]` is created if absent and its state appended to `bandStates`
  * `parse`       — parsePacketHeaderMulti, abstracted to an arbitrary update of each gathered state
  * `writeBack`   — the loop after parsing, HEAD shape (fix 120e6ac): a separate counter `i` that advances only
                    for bands that were gathered
  * `writeBackOld`— the shape before the fix: `bandStates[i]` with `i` the position in `bands`
-/
namespace J2kBand

abbrev Ctx (S : Type) := Nat → Option S      -- pd.cbStates keyed by band (component/resolution/precinct fixed)

def setCtx {S : Type} (c : Ctx S) (b : Nat) (s : S) : Ctx S := fun x => if x = b then some s else c x

/-- first loop: returns the contexts (created where absent, with `fresh`) and `bandStates` -/
def gather {S : Type} (nonEmpty : Nat → Bool) (fresh : S) : List Nat → Ctx S → Ctx S × List S
  | [], c => (c, [])
  | b :: bs, c =>
    if nonEmpty b then
      let s := (c b).getD fresh
      let c := setCtx c b s
      let r := gather nonEmpty fresh bs c
      (r.1, s :: r.2)
    else gather nonEmpty fresh bs c

/-- write-back, HEAD shape: `i := 0; for _, band := range bands { ctx := cbStates[key]; if ctx == nil || i >= len(bandStates) { continue }; ctx.state = bandStates[i]; i++ }` -/
def writeBack {S : Type} : List Nat → List S → Ctx S → Ctx S
  | [], _, c => c
  | b :: bs, st, c =>
    match c b, st with
    | some _, s :: rest => writeBack bs rest (setCtx c b s)
    | _, _ => writeBack bs st c

/-- write-back, old shape: `for i, band := range bands { …; ctx.state = bandStates[i] }` -/
def writeBackOld {S : Type} (all : List S) : Nat → List Nat → Ctx S → Ctx S
  | _, [], c => c
  | i, b :: bs, c =>
    match c b, all[i]? with
    | some _, some s => writeBackOld all (i + 1) bs (setCtx c b s)
    | _, _ => writeBackOld all (i + 1) bs c

/-- one packet: gather, parse (any per-entry update `p`), write back -/
def packetStep {S : Type} (nonEmpty : Nat → Bool) (fresh : S) (p : S → S) (bands : List Nat) (c : Ctx S) : Ctx S :=
  let g := gather nonEmpty fresh bands c
  writeBack bands (g.2.map p) g.1

def packetStepOld {S : Type} (nonEmpty : Nat → Bool) (fresh : S) (p : S → S) (bands : List Nat) (c : Ctx S) : Ctx S :=
  let g := gather nonEmpty fresh bands c
  writeBackOld (g.2.map p) 0 bands g.1

end J2kBand
