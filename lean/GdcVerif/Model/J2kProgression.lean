import GdcVerif.Model.J2kTiles
import GdcVerif.Gen.J2kTileClamp
import GdcVerif.Gen.J2kPosKey
/-!
  Packet sequencing: the five progression loops of t2/packet_encoder.go (encodeLRCP … encodeCPRL) and of
  t2/packet_decoder.go (decodeLRCP … decodeCPRL) as generators of the packet index sequence
  (layer, resolution, component, precinct), over the position maps of t2/packet_progression.go.

  * `positionKey`   — precinctPositionKey (origin of a precinct on the reference grid)
  * `PosMaps`       — buildPositionMaps' result: sorted position lists and the (comp, res, position) → precinct lookup
  * `enc*` / `dec*` — the loops, one copy per side as in the Go files.  The encoder's `len(precincts) == 0` skip is
    the predicate `has`; the decoder's early return when the tile data is exhausted is not part of the sequence
    (it truncates it).
-/
namespace J2kProg
open J2k

abbrev Pkt := Nat × Nat × Nat × Nat        -- (layer, res, comp, precinct)
abbrev Pos := Int × Int                     -- (X, Y) on the reference grid

/-- what buildPositionMaps receives from either side -/
structure Inputs where
  numComponents : Nat
  numResolutions : Nat
  bounds : Nat → Int × Int × Int × Int      -- componentBounds(comp) = (x0, y0, x1, y1)
  sampling : Nat → Int × Int                -- componentSampling(comp)
  precinctSize : Nat → Int × Int            -- precinctSize(res)
  indices : Nat → Nat → List Nat            -- precinctIndices(comp, res), ascending

/-- precinctPositionKey — the kernel GENERATED from t2/packet_progression.go (`Gen.J2kPosKey`; its call of
    resolutionDimsWithOrigin is `J2kAux.resDimsWO`, the loop over the generated splitLengths/isEven/nextCoord);
    `none` = the `ok == false` results -/
def positionKey (b : Int × Int × Int × Int) (dx dy : Int) (numLevels res : Nat) (pw ph : Int) (idx : Int) : Option Pos :=
  let g := Gen.J2kPosKey.precinctPositionKey ⟨b.1, b.2.1, b.2.2.1, b.2.2.2⟩ dx dy numLevels res pw ph idx
  if g.2 then some (g.1.X, g.1.Y) else none

/-- buildPositionMaps' result as the loops use it -/
structure PosMaps where
  byRes : Nat → List Pos
  byComp : Nat → List Pos
  all : List Pos
  lookup : Nat → Nat → Pos → Option Nat       -- byCompRes[comp][res][pos]

def range (n : Nat) : List Nat := List.range n

/-! buildPositionMaps (t2/packet_progression.go), one shared function for both sides -/

/-- the (comp, res, position, precinct index) entries in the order of the nested loops; precincts whose key is
    `ok == false` are skipped; `dx, dy ≤ 0` are replaced by 1 -/
def entries (i : Inputs) : List (Nat × Nat × Pos × Nat) :=
  let numLevels := i.numResolutions - 1
  (range i.numComponents).flatMap fun c =>
    let dx := if (i.sampling c).1 ≤ 0 then 1 else (i.sampling c).1
    let dy := if (i.sampling c).2 ≤ 0 then 1 else (i.sampling c).2
    (range i.numResolutions).flatMap fun r =>
      (i.indices c r).filterMap fun idx =>
        (positionKey (i.bounds c) dx dy numLevels r (i.precinctSize r).1 (i.precinctSize r).2 (idx : Nat)).map fun pos => (c, r, pos, idx)

/-- sort.Slice order of sortedPositions: by Y, then X -/
def posLt (a b : Pos) : Bool := if a.2 ≠ b.2 then decide (a.2 < b.2) else decide (a.1 < b.1)

/-- insertion into a sorted duplicate-free list (the Go code sorts the key set of a map) -/
def insertPos (p : Pos) : List Pos → List Pos
  | [] => [p]
  | q :: t => if p == q then q :: t else if posLt p q then p :: q :: t else q :: insertPos p t

def sortedPositions (l : List Pos) : List Pos := l.foldr insertPos []

/-- `byCompRes[comp][res][pos] = idx` keeps the last store -/
def lookupLast (es : List (Nat × Nat × Pos × Nat)) (c r : Nat) (pos : Pos) : Option Nat :=
  es.foldl (fun acc e => if e.1 == c && e.2.1 == r && e.2.2.1 == pos then some e.2.2.2 else acc) none

def buildMaps (i : Inputs) : PosMaps :=
  let es := entries i
  { byRes := fun r => sortedPositions ((es.filter fun e => e.2.1 == r).map fun e => e.2.2.1),
    byComp := fun c => sortedPositions ((es.filter fun e => e.1 == c).map fun e => e.2.2.1),
    all := sortedPositions (es.map fun e => e.2.2.1),
    lookup := lookupLast es }

/-! encoder: t2/packet_encoder.go -/
def encLRCP (nL nR nC : Nat) (idx : Nat → Nat → List Nat) (has : Nat → Nat → Nat → Bool) : List Pkt :=
  (range nL).flatMap fun l => (range nR).flatMap fun r => (range nC).flatMap fun c =>
    ((idx c r).filter (has c r)).map fun p => (l, r, c, p)

def encRLCP (nL nR nC : Nat) (idx : Nat → Nat → List Nat) (has : Nat → Nat → Nat → Bool) : List Pkt :=
  (range nR).flatMap fun r => (range nL).flatMap fun l => (range nC).flatMap fun c =>
    ((idx c r).filter (has c r)).map fun p => (l, r, c, p)

def encRPCL (nL nR nC : Nat) (m : PosMaps) (has : Nat → Nat → Nat → Bool) : List Pkt :=
  (range nR).flatMap fun r => (m.byRes r).flatMap fun pos => (range nC).flatMap fun c =>
    match m.lookup c r pos with
    | none => []
    | some p => (range nL).filterMap fun l => if has c r p then some (l, r, c, p) else none

def encPCRL (nL nR nC : Nat) (m : PosMaps) (has : Nat → Nat → Nat → Bool) : List Pkt :=
  m.all.flatMap fun pos => (range nC).flatMap fun c => (range nR).flatMap fun r =>
    match m.lookup c r pos with
    | none => []
    | some p => (range nL).filterMap fun l => if has c r p then some (l, r, c, p) else none

def encCPRL (nL nR nC : Nat) (m : PosMaps) (has : Nat → Nat → Nat → Bool) : List Pkt :=
  (range nC).flatMap fun c => (m.byComp c).flatMap fun pos => (range nR).flatMap fun r =>
    match m.lookup c r pos with
    | none => []
    | some p => (range nL).filterMap fun l => if has c r p then some (l, r, c, p) else none

/-! decoder: t2/packet_decoder.go -/
def decLRCP (nL nR nC : Nat) (idx : Nat → Nat → List Nat) : List Pkt :=
  (range nL).flatMap fun l => (range nR).flatMap fun r => (range nC).flatMap fun c =>
    (idx c r).map fun p => (l, r, c, p)

def decRLCP (nL nR nC : Nat) (idx : Nat → Nat → List Nat) : List Pkt :=
  (range nR).flatMap fun r => (range nL).flatMap fun l => (range nC).flatMap fun c =>
    (idx c r).map fun p => (l, r, c, p)

def decRPCL (nL nR nC : Nat) (m : PosMaps) : List Pkt :=
  (range nR).flatMap fun r => (m.byRes r).flatMap fun pos => (range nC).flatMap fun c =>
    match m.lookup c r pos with
    | none => []
    | some p => (range nL).map fun l => (l, r, c, p)

def decPCRL (nL nR nC : Nat) (m : PosMaps) : List Pkt :=
  m.all.flatMap fun pos => (range nC).flatMap fun c => (range nR).flatMap fun r =>
    match m.lookup c r pos with
    | none => []
    | some p => (range nL).map fun l => (l, r, c, p)

def decCPRL (nL nR nC : Nat) (m : PosMaps) : List Pkt :=
  (range nC).flatMap fun c => (m.byComp c).flatMap fun pos => (range nR).flatMap fun r =>
    match m.lookup c r pos with
    | none => []
    | some p => (range nL).map fun l => (l, r, c, p)

/-! what each side hands to buildPositionMaps for one tile (single-sampled components) -/

/-- encoder.go buildTilePacketEncoder (since 746634b): SetTileBounds / SetComponentBounds with the tile's canvas
    rectangle, SetComponentSampling(comp, 1, 1), SetPrecinctSizes(getPrecinctSize(res)) -/
def encInputs (e : Gen.J2kTiles.Encoder) (nC : Nat) (rect : Int × Int × Int × Int)
    (indices : Nat → Nat → List Nat) : Inputs :=
  { numComponents := nC, numResolutions := (e.params.NumLevels + 1).toNat,
    bounds := fun _ => (rect.1, rect.2.1, rect.1 + (rect.2.2.1 - rect.1), rect.2.1 + (rect.2.2.2 - rect.2.1)),
    sampling := fun _ => (1, 1),
    precinctSize := fun r => Gen.J2kTiles.Encoder.getPrecinctSize e r,
    indices := indices }

/-- t2/tile_decoder.go TileDecoder.Decode: component bounds ceilDiv(tile, XRsiz) with XRsiz = YRsiz = 1 as the
    encoder writes them, sampling from SIZ, precinct sizes `1 << PPx` from the COD segment the encoder wrote
    (PPx = getPrecinctSizeExponents) or the default 2^15 when COD carries none -/
def decInputs (e : Gen.J2kTiles.Encoder) (nC : Nat) (td : Gen.J2kTileClamp.TileDecoder)
    (indices : Nat → Nat → List Nat) : Inputs :=
  { numComponents := nC, numResolutions := (e.params.NumLevels + 1).toNat,
    bounds := fun _ =>
      let x0 := Gen.J2kTileClamp.ceilDiv td.tileX0 1
      let y0 := Gen.J2kTileClamp.ceilDiv td.tileY0 1
      let x1 := Gen.J2kTileClamp.ceilDiv td.tileX1 1
      let y1 := Gen.J2kTileClamp.ceilDiv td.tileY1 1
      (x0, y0, x0 + (x1 - x0), y0 + (y1 - y0)),
    sampling := fun _ => (1, 1),
    precinctSize := fun r =>
      if e.params.PrecinctWidth > 0 ∨ e.params.PrecinctHeight > 0 then
        let pp := Gen.J2kTiles.Encoder.getPrecinctSizeExponents e r
        (Go.shl 1 pp.1, Go.shl 1 pp.2)
      else (Go.shl 1 15, Go.shl 1 15),
    indices := indices }

/-- the sequence a side produces: which loop, over the maps built from ITS inputs -/
def encSequence (prog : Nat) (nL : Nat) (i : Inputs) : List Pkt :=
  let m := buildMaps i
  match prog with
  | 0 => encLRCP nL i.numResolutions i.numComponents i.indices (fun _ _ _ => true)
  | 1 => encRLCP nL i.numResolutions i.numComponents i.indices (fun _ _ _ => true)
  | 2 => encRPCL nL i.numResolutions i.numComponents m (fun _ _ _ => true)
  | 3 => encPCRL nL i.numResolutions i.numComponents m (fun _ _ _ => true)
  | _ => encCPRL nL i.numResolutions i.numComponents m (fun _ _ _ => true)

def decSequence (prog : Nat) (nL : Nat) (i : Inputs) : List Pkt :=
  let m := buildMaps i
  match prog with
  | 0 => decLRCP nL i.numResolutions i.numComponents i.indices
  | 1 => decRLCP nL i.numResolutions i.numComponents i.indices
  | 2 => decRPCL nL i.numResolutions i.numComponents m
  | 3 => decPCRL nL i.numResolutions i.numComponents m
  | _ => decCPRL nL i.numResolutions i.numComponents m

end J2kProg
