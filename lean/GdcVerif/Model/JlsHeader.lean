import GdcVerif.Model.JpegMarkers
/-
  Header walk of /repo/jpegls/lossless/decoder.go (`Decoder.decode`, parseSOF55, parseLSE, parseSOS)
  and the parameter derivation it triggers (/repo/jpegls/lossless/context.go ComputeCodingParameters,
  computeThresholds, bitsLen).  Go `int` is 64-bit: `1 << uint(p)` is 0 for p ≥ 64 and wraps for
  p = 63, so MAXVAL is modelled with explicit 64-bit wrap-around.
-/
namespace JlsH
open JM (Bytes readMarker readSegment readMarker_progress readSegment_progress hasLength readSegmentAlloc)

inductive Site
  | thresholdsDiv   -- computeThresholds: 256 / (maxVal + 1)
deriving Repr, DecidableEq

inductive Outcome (α : Type) where
  | ok (a : α) | err | panic (s : Site) | scan
deriving Repr, DecidableEq

def wrap64 (x : Int) : Int := (x + 2 ^ 63) % 2 ^ 64 - 2 ^ 63

/-- `(1 << uint(bitDepth)) - 1` in Go's 64-bit `int` -/
def maxValOf (p : Nat) : Int := wrap64 (wrap64 (if p ≥ 64 then 0 else 2 ^ p) - 1)

/-- `bitsLen`: the loop `for n > 0 { n >>= 1; length++ }` runs at most 64 times on a 64-bit int;
    modelled on the non-negative value, fuel = 64 is exact for values < 2^64 -/
def bitsLenLoop : Nat → Nat → Nat → Nat
  | 0, _, len => len
  | fuel + 1, n, len => if n > 0 then bitsLenLoop fuel (n / 2) (len + 1) else len
def bitsLen (n : Int) : Nat := if n ≤ 1 then 1 else bitsLenLoop 64 (n - 1).toNat 0

/-- `computeThresholds(maxVal, near)`: `none` = integer divide by zero -/
def computeThresholds (maxVal near : Int) : Option (Int × Int × Int) :=
  let clamp (v lo hi : Int) : Int := if v < lo then lo else if v > hi then hi else v
  if maxVal ≥ 128 then
    let factor := (min maxVal 4095 + 128).tdiv 256
    let t1 := clamp (factor * 1 + 2 + 3 * near) (near + 1) maxVal
    let t2 := clamp (factor * 4 + 3 + 5 * near) t1 maxVal
    let t3 := clamp (factor * 17 + 4 + 7 * near) t2 maxVal
    some (t1, t2, t3)
  else if wrap64 (maxVal + 1) = 0 then none
  else
    let factor := (256 : Int).tdiv (wrap64 (maxVal + 1))
    if factor = 0 then none   -- 3 / factor; unreachable for maxVal < 128 (see `factor_ne_zero`)
    else
      let t1 := clamp (max 2 ((3 : Int).tdiv factor + 3 * near)) (near + 1) maxVal
      let t2 := clamp (max 3 ((7 : Int).tdiv factor + 5 * near)) t1 maxVal
      let t3 := clamp (max 4 ((21 : Int).tdiv factor + 7 * near)) t2 maxVal
      some (t1, t2, t3)

structure St where
  maxVal : Int := 0
  bitDepth : Nat := 0
  width : Nat := 0
  height : Nat := 0
  comps : Nat := 0
  allocs : List Nat := []
deriving Repr, DecidableEq

/-- contexts: 365 `*Context` of 4 ints each, allocated by NewContextTable on every (re)initialisation -/
def ctxAlloc : Nat := 365 * (8 + 32)

/-- parseSOF55 on the payload -/
def sof55 (st : St) (data : Bytes) : Outcome St :=
  if data.length < 6 then .err
  else
    let p := data.getD 0 0
    let h := data.getD 1 0 * 256 + data.getD 2 0
    let w := data.getD 3 0 * 256 + data.getD 4 0
    let nc := data.getD 5 0
    if w = 0 ∨ h = 0 then .err
    else if nc ≠ 1 ∧ nc ≠ 3 then .err
    else
      let mv := maxValOf p
      -- NewTraits → ComputeCodingParameters → computeThresholds (twice more in initCodingParameters)
      match computeThresholds mv 0 with
      | none => .panic .thresholdsDiv
      | some _ => .ok { st with maxVal := mv, bitDepth := p, width := w, height := h, comps := nc,
                                allocs := st.allocs ++ [ctxAlloc] }

/-- parseLSE on the payload -/
def lse (st : St) (data : Bytes) : Outcome St :=
  match data with
  | [] => .err
  | id :: _ =>
    if id ≠ 1 then .ok st
    else if data.length < 11 then .err
    else
      let mv : Int := data.getD 1 0 * 256 + data.getD 2 0
      let mv := if mv ≤ 0 then st.maxVal else mv
      match computeThresholds mv 0 with
      | none => .panic .thresholdsDiv
      | some _ => .ok { st with maxVal := mv, allocs := st.allocs ++ [ctxAlloc] }

/-- parseSOS on the payload: error, or the scan starts -/
def sos (st : St) (data : Bytes) : Outcome Unit :=
  if data.length < 4 then .err
  else if data.getD 0 0 ≠ st.comps then .err
  else
    let il := data.getD (data.length - 2) 0
    if st.comps = 1 ∧ il ≠ 0 then .err
    else if st.comps > 1 ∧ il ≠ 2 then .err
    else .scan

/-- marker loop of `Decoder.decode` after SOI -/
def loop (st : St) (bs : Bytes) : Outcome Unit × List Nat :=
  match hm : readMarker bs with
  | none => (.err, st.allocs)
  | some (m, rest) =>
    have hlt : rest.length < bs.length := by have := readMarker_progress hm; omega
    if m = 0xFFF7 ∨ m = 0xFFF8 then
      match hs : readSegment rest with
      | none => (.err, st.allocs ++ [readSegmentAlloc rest])
      | some (pl, rest2) =>
        have : rest2.length < bs.length := by have := readSegment_progress hs; omega
        match (if m = 0xFFF7 then sof55 st pl else lse st pl) with
        | .ok st' => loop { st' with allocs := st'.allocs ++ [pl.length] } rest2
        | .err => (.err, st.allocs ++ [pl.length])
        | .panic s => (.panic s, st.allocs ++ [pl.length])
        | .scan => (.scan, st.allocs)
    else if m = 0xFFDA then
      match readSegment rest with
      | none => (.err, st.allocs ++ [readSegmentAlloc rest])
      | some (pl, rest2) =>
        match sos st pl with
        | .scan => (.scan, st.allocs ++ [pl.length, rest2.length, 8 * (st.width * st.height * st.comps)])
        | _ => (.err, st.allocs ++ [pl.length])
    else if m = 0xFFD9 then (.err, st.allocs)
    else if hasLength m then
      match hs : readSegment rest with
      | none => (.err, st.allocs ++ [readSegmentAlloc rest])
      | some (pl, rest2) =>
        have : rest2.length < bs.length := by have := readSegment_progress hs; omega
        loop { st with allocs := st.allocs ++ [pl.length] } rest2
    else loop st rest
termination_by bs.length

/-- `lossless.Decode` up to the start of the scan -/
def header (bs : Bytes) : Outcome Unit × List Nat :=
  match readMarker bs with
  | none => (.err, [])
  | some (m, rest) => if m ≠ 0xFFD8 then (.err, []) else loop {} rest

end JlsH
