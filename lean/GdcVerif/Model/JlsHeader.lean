import GdcVerif.Model.JpegMarkers
/-
  Header walks of the two JPEG-LS decoders (HEAD, after commit c3ac264 "precision outside 2..16"):
    /repo/jpegls/lossless/decoder.go      Decoder.decode, parseSOF55, parseLSE, parseSOS
    /repo/jpegls/nearlossless/decoder.go  Decoder.decode, parseSOF55, parseLSE, parseSOS, applyCodingParameters
  and the divisions of the parameter derivation they trigger
    /repo/jpegls/lossless/context.go      ComputeCodingParameters ((maxVal+2·near)/(2·near+1)),
                                          computeThresholds (256/(maxVal+1), 3/factor).
  Go `int` is 64-bit: `1 << uint(p)` is modelled with explicit wrap-around although the guard now
  keeps p in 2..16 — the theorems show the division sites dead.
-/
namespace JlsH
open PC JM

def wrap64 (x : Int) : Int := (x + 2 ^ 63) % 2 ^ 64 - 2 ^ 63

/-- `(1 << uint(bitDepth)) - 1` in Go's 64-bit `int` -/
def maxValOf (p : Nat) : Int := wrap64 (wrap64 (if p ≥ 64 then 0 else 2 ^ p) - 1)

/-- the divisions of `computeThresholds(maxVal, near)`: `256/(maxVal+1)` and then `3/factor`,
    `7/factor`, `21/factor` on the branch maxVal < 128 -/
def thresholdsDivOk (maxVal : Int) : Bool :=
  if maxVal ≥ 128 then true
  else if wrap64 (maxVal + 1) = 0 then false
  else if (256 : Int).tdiv (wrap64 (maxVal + 1)) = 0 then false
  else true

/-- `ComputeCodingParameters(maxVal, near, reset)`: the range division (near > 0 only) and
    computeThresholds; `none` when all divisors are non-zero, else the site -/
def codingParamsPanic (maxVal near : Int) : Option Site :=
  if near > 0 ∧ wrap64 (2 * near + 1) = 0 then some .jlsRange
  else if thresholdsDivOk maxVal then none else some .jlsThresholds

structure St where
  maxVal : Int := 0
  bitDepth : Nat := 0
  width : Nat := 0
  height : Nat := 0
  comps : Nat := 0
  near : Nat := 0
  allocs : List Nat := []
deriving Repr, DecidableEq

/-- contexts: 365 `*Context` of 4 ints each, allocated by NewContextTable on every (re)initialisation -/
def ctxAlloc : Nat := 365 * (8 + 32)

/-- frame header fields shared by both decoders' parseSOF55: error, or (p, h, w, nc) -/
def sofFields (data : Bytes) : Option (Nat × Nat × Nat × Nat) :=
  if data.length < 6 then none
  else
    let p := data.getD 0 0
    let h := data.getD 1 0 * 256 + data.getD 2 0
    let w := data.getD 3 0 * 256 + data.getD 4 0
    let nc := data.getD 5 0
    if p < 2 ∨ p > 16 then none
    else if w = 0 ∨ h = 0 then none
    else if nc ≠ 1 ∧ nc ≠ 3 then none
    else some (p, h, w, nc)

/-- lossless parseSOF55: NewTraits + initCodingParameters (ComputeCodingParameters three times) -/
def sof55Core (st : St) (data : Bytes) : H St :=
  match sofFields data with
  | none => .stop st .err
  | some (p, h, w, nc) =>
    match codingParamsPanic (maxValOf p) 0 with
    | some s => .stop st (.panic s)
    | none => .cont { st with maxVal := maxValOf p, bitDepth := p, width := w, height := h, comps := nc,
                              allocs := st.allocs ++ [ctxAlloc] }

/-- lossless parseSOF55 with the guard of commit 72b8b5a: a second frame header is rejected
    (`dec.components != 0`; the length check in front of it gives the same outcome) -/
def sof55 (st : St) (data : Bytes) : H St :=
  if st.comps ≠ 0 then .stop st .err else sof55Core st data

/-- lossless parseLSE -/
def lse (st : St) (data : Bytes) : H St :=
  match data with
  | [] => .stop st .err
  | id :: _ =>
    if id ≠ 1 then .cont st
    else if data.length < 11 then .stop st .err
    else
      let mv : Int := (data.getD 1 0 * 256 + data.getD 2 0 : Nat)
      let mv := if mv ≤ 0 then st.maxVal else mv
      match codingParamsPanic mv 0 with
      | some s => .stop st (.panic s)
      | none => .cont { st with maxVal := mv, allocs := st.allocs ++ [ctxAlloc] }

/-- interleave check shared by both parseSOS -/
def sosOk (st : St) (data : Bytes) : Bool :=
  if data.length < 4 then false
  else if data.getD 0 0 ≠ st.comps then false
  else
    let il := data.getD (data.length - 2) 0
    if st.comps = 1 ∧ il ≠ 0 then false
    else if st.comps > 1 ∧ il ≠ 2 then false
    else true

/-- what a scan start allocates: the scan byte buffer (≤ unread input) and `make([]int, w·h·comps)` -/
def scanAllocs (st : St) (unread : Nat) : List Nat := [unread, 8 * (st.width * st.height * st.comps)]

/-- one turn of the lossless decoder's marker loop -/
def step (st : St) (bs : Bytes) : Step St :=
  match readMarker bs with
  | none => .done st .err           -- EOF ⇒ "incomplete JPEG-LS data", other errors as they are
  | some (m, rest) =>
    let fail := fun (s : St) (a : Nat) => { s with allocs := s.allocs ++ [a] }
    if m = 0xFFF7 then
      segTurn st rest fail fun pl _ => sof55 { st with allocs := st.allocs ++ [pl.length] } pl
    else if m = 0xFFF8 then
      segTurn st rest fail fun pl _ => lse { st with allocs := st.allocs ++ [pl.length] } pl
    else if m = 0xFFDA then
      segTurn st rest fail fun pl unread =>
        if sosOk st pl then .stop { st with allocs := st.allocs ++ [pl.length] ++ scanAllocs st unread } .beyond
        else .stop { st with allocs := st.allocs ++ [pl.length] } .err
    else if m = 0xFFD9 then .done st .err
    else if hasLength m then
      segTurn st rest fail fun pl _ => .cont { st with allocs := st.allocs ++ [pl.length] }
    else .more st rest

theorem step_lt {st st' : St} {bs r : Bytes} (h : step st bs = .more st' r) : r.length < bs.length := by
  unfold step at h
  split at h
  · cases h
  · rename_i m rest hm
    have hp := readMarker_progress hm
    simp only at h
    repeat' split at h
    all_goals first
      | (have := segTurn_lt h; omega)
      | (injection h with _ h2; subst h2; omega)
      | cases h

/-- `jpegls/lossless.Decode` up to the start of the scan -/
def header (bs : Bytes) : St × Res :=
  match readMarker bs with
  | none => ({}, .err)
  | some (m, rest) => if m ≠ 0xFFD8 then ({}, .err) else run step step_lt {} rest

/-! ## near-lossless decoder: parameters are derived at SOS, once NEAR is known -/

/-- nearlossless parseSOF55: only stores -/
def nsof55Core (st : St) (data : Bytes) : H St :=
  match sofFields data with
  | none => .stop st .err
  | some (p, h, w, nc) => .cont { st with maxVal := maxValOf p, bitDepth := p, width := w, height := h, comps := nc }

/-- nearlossless parseSOF55 with the guard of commit 72b8b5a -/
def nsof55 (st : St) (data : Bytes) : H St :=
  if st.comps ≠ 0 then .stop st .err else nsof55Core st data

/-- nearlossless parseLSE: only stores (MAXVAL when > 0) -/
def nlse (st : St) (data : Bytes) : H St :=
  match data with
  | [] => .stop st .err
  | id :: _ =>
    if id = 1 ∧ data.length ≥ 11 then
      let mv : Int := (data.getD 1 0 * 256 + data.getD 2 0 : Nat)
      .cont { st with maxVal := if mv > 0 then mv else st.maxVal }
    else .cont st

/-- nearlossless parseSOS: NEAR = data[len−3], then applyCodingParameters -/
def nsos (st : St) (data : Bytes) (unread : Nat) : H St :=
  if sosOk st data then
    let near := data.getD (data.length - 3) 0
    match codingParamsPanic st.maxVal near with
    | some s => .stop st (.panic s)
    | none => .stop { st with near := near, allocs := st.allocs ++ [ctxAlloc] ++ scanAllocs st unread } .beyond
  else .stop st .err

def nstep (st : St) (bs : Bytes) : Step St :=
  match readMarker bs with
  | none => .done st .err
  | some (m, rest) =>
    let fail := fun (s : St) (a : Nat) => { s with allocs := s.allocs ++ [a] }
    if m = 0xFFF7 then
      segTurn st rest fail fun pl _ => nsof55 { st with allocs := st.allocs ++ [pl.length] } pl
    else if m = 0xFFF8 then
      segTurn st rest fail fun pl _ => nlse { st with allocs := st.allocs ++ [pl.length] } pl
    else if m = 0xFFDA then
      segTurn st rest fail fun pl unread => nsos { st with allocs := st.allocs ++ [pl.length] } pl unread
    else if m = 0xFFD9 then .done st .err
    else if hasLength m then
      segTurn st rest fail fun pl _ => .cont { st with allocs := st.allocs ++ [pl.length] }
    else .more st rest

theorem nstep_lt {st st' : St} {bs r : Bytes} (h : nstep st bs = .more st' r) : r.length < bs.length := by
  unfold nstep at h
  split at h
  · cases h
  · rename_i m rest hm
    have hp := readMarker_progress hm
    simp only at h
    repeat' split at h
    all_goals first
      | (have := segTurn_lt h; omega)
      | (injection h with _ h2; subst h2; omega)
      | cases h

/-- `jpegls/nearlossless.Decode` up to the start of the scan -/
def nheader (bs : Bytes) : St × Res :=
  match readMarker bs with
  | none => ({}, .err)
  | some (m, rest) => if m ≠ 0xFFD8 then ({}, .err) else run nstep nstep_lt {} rest

end JlsH
