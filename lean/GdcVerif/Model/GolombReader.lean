import GdcVerif.Model.Golomb
/-!
  Code-shaped model of `GolombReader` (jpegls/lossless/golomb.go): 64-bit read cache,
  `validBits`, `position`, `positionFF`; `findJPEGMarkerStartByte`, `fillReadCacheOptimistic`,
  `fillReadCache` (marker detection, the bit stuffed after 0xFF: `validBits--`), `ReadBit`,
  `ReadBits`.  Tied to the real reader by the `jls-gr` correspondence lines (a sequence of
  `ReadBit` / `ReadBits(n)` calls on the same bytes).  `Lemmas/GolombReader.lean` proves that it
  delivers exactly the bit sequence `Golomb.destuff bytes`.

  Out-of-range slice accesses are the outcome `panic`, the reader's errors are `err`.
-/
namespace GolombReader

inductive Fail | err | panic
deriving Repr, DecidableEq

abbrev R (α : Type) := Except Fail α

def M64 : Nat := 18446744073709551616

structure Reader where
  data : List Nat
  cache : Nat      -- readCache (uint64)
  valid : Int      -- validBits (int32)
  pos : Nat        -- position
  posFF : Nat      -- positionFF
deriving Repr

def byteAt (d : List Nat) (i : Nat) : R Nat :=
  match d[i]? with
  | some b => .ok b
  | none => .error .panic

/-- `findJPEGMarkerStartByte`: the first index ≥ `from` holding 0xFF, or `len` -/
def findFF (d : List Nat) : Nat → Nat → Nat
  | 0, i => i
  | fuel + 1, i => if i < d.length then (if d.getD i 0 = 255 then i else findFF d fuel (i + 1)) else d.length

def findFFfrom (d : List Nat) (i : Nat) : Nat := if i < d.length then findFF d (d.length - i) i else d.length

/-- `NewGolombReader` -/
def new (d : List Nat) : Reader := { data := d, cache := 0, valid := 0, pos := 0, posFF := findFFfrom d 0 }

/-- `uint64(b) << k` for a shift count `k` (Go panics on a negative count) -/
def shl64 (b : Nat) (k : Int) : R Nat :=
  if k < 0 then .error .panic else .ok (if k ≥ 64 then 0 else (b <<< k.toNat) % M64)

/-- the byte loop of `fillReadCacheOptimistic` -/
def optLoop : Nat → Reader → R Reader
  | 0, r => .ok r
  | n + 1, r => do
    let b ← byteAt r.data r.pos
    let x ← shl64 b (64 - 8 - r.valid)
    optLoop n { r with cache := r.cache ||| x, valid := r.valid + 8, pos := r.pos + 1 }

/-- `fillReadCacheOptimistic`: reads whole bytes while no 0xFF is near; result flag `validBits >= 56` -/
def fillOptimistic (r : Reader) : R (Reader × Bool) :=
  if (r.pos : Int) < (r.posFF : Int) - 7 then do
    let n1 := Int.tdiv (64 - r.valid) 8
    let n2 := if n1 > (r.posFF : Int) - r.pos then (r.posFF : Int) - r.pos else n1
    let n3 := if n2 > 8 then 8 else n2
    let r ← optLoop n3.toNat r
    .ok (r, decide (r.valid ≥ 56))
  else .ok (r, false)

/-- `newByteValue == 0xFF && (position == endPosition-1 || data[position+1]&0x80 != 0)` -/
def markerAt (d : List Nat) (pos b : Nat) : R Bool :=
  if b = 255 then
    (if pos = d.length - 1 then pure true
     else do let b2 ← byteAt d (pos + 1); pure (decide (b2 % 256 ≥ 128)))
  else pure false

/-- the slow path loop of `fillReadCache`; `.inl` = returned from inside the loop (end of data or
    marker with bits left), `.inr` = loop left because `validBits >= 56` -/
def slowLoop : Nat → Reader → R (Reader ⊕ Reader)
  | 0, r => .ok (.inr r)
  | f + 1, r =>
    if r.valid < 56 then
      if r.pos ≥ r.data.length then
        if r.valid = 0 then .error .err else .ok (.inl r)
      else do
        let b ← byteAt r.data r.pos
        let isMarker ← markerAt r.data r.pos b
        if isMarker then
          if r.valid ≤ 0 then .error .err else .ok (.inl r)
        else do
          let x ← shl64 b (56 - r.valid)
          let v := r.valid + 8
          slowLoop f { r with cache := r.cache ||| x, valid := if b = 255 then v - 1 else v, pos := r.pos + 1 }
    else .ok (.inr r)

/-- `fillReadCache` -/
def fill (r : Reader) : R Reader := do
  let (r, done) ← fillOptimistic r
  if done then .ok r else
  match ← slowLoop 10 r with
  | .inl r => .ok r
  | .inr r => .ok { r with posFF := findFFfrom r.data r.pos }

/-- `ReadBit` -/
def readBit (r : Reader) : R (Nat × Reader) := do
  let r ← (if r.valid = 0 then fill r else pure r : R Reader)
  let bit := (r.cache >>> 63) % 2
  .ok (bit, { r with valid := r.valid - 1, cache := (r.cache <<< 1) % M64 })

/-- `ReadBits(n)` -/
def readBits (r : Reader) (n : Int) : R (Nat × Reader) :=
  if n = 0 then .ok (0, r)
  else if n > 32 then .error .err
  else do
    let r ← (if r.valid < n then do
        let r ← fill r
        if r.valid < n then .error .err else pure r
      else pure r : R Reader)
    if n < 0 then .error .panic else
    .ok ((r.cache >>> (64 - n.toNat)) % 4294967296, { r with cache := (r.cache <<< n.toNat) % M64, valid := r.valid - n })

end GolombReader
