import GdcVerif.GoPrelude
import GdcVerif.Gen.JpegStd
import GdcVerif.Gen.JpegBaseline
import GdcVerif.Gen.JpegExtended
/-!
  Hand model of the table / marker layers of the JPEG DCT codecs around the GENERATED kernels
  (`Gen.JpegStd`: tables, `ScaleQuantTable.entry` = loop body of ScaleQuantTable, `Clamp`, `DivCeil`;
   `Gen.JpegBaseline.quantizeBlock.entry` = quantiser loop body of Encoder.quantizeBlock;
   `Gen.JpegExtended.sequential12Quantize`, `quantizeBlock12.entry`).

  Modelled by hand (code-shaped; an out-of-range index is `none` = the Go code would panic):
  * `scaleQuantTable`  — the `for i := 0; i < 64; i++` loop of standard.ScaleQuantTable over the generated body
  * `unzigInit`        — `func init() { for i := range ZigZag { Unzig[ZigZag[i]] = i } }` (utils.go)
  * `dqtPayload`       — baseline.Encoder.writeDQT / sequential12Encoder.writeDQT: `data[0] = byte(id)`,
                         `data[1+j] = byte(qtable[ZigZag[j]])`
  * `parseDQT8`        — Decoder.parseDQT, 8-bit branch: `qtables[tq][ZigZag[i]] = int32(data[offset+i])`
  * `edgeIdx`          — `min(blockX*8+x, stride-1)` / `min(blockY*8+y, dataHeight-1)` of quantizeBlock
-/
namespace Dct
open Gen.JpegStd

def getI (a : Array Int) (i : Int) : Option Int :=
  if 0 ≤ i then a[i.toNat]? else none

def setI (a : Array Int) (i v : Int) : Option (Array Int) :=
  if 0 ≤ i then (if h : i.toNat < a.size then some (a.set i.toNat v h) else none) else none

/-- standard.ScaleQuantTable -/
def scaleQuantTable (base : Array Int) (quality : Int) : Array Int :=
  base.mapIdx (fun i b => ScaleQuantTable.entry quality i b 0)

/-- utils.go init(): Unzig[ZigZag[i]] = i -/
def unzigInit : Option (Array Int) :=
  (List.range ZigZag.size).foldlM (fun (u : Array Int) (i : Nat) => do
    let z ← getI ZigZag i
    setI u z i) (Array.replicate 64 0)

/-- writeDQT: payload of one DQT segment for table `id` -/
def dqtPayload (id : Int) (q : Array Int) : Option (List Int) := do
  let body ← (List.range 64).mapM (fun (j : Nat) => do
    let z ← getI ZigZag j
    let v ← getI q z
    pure (Go.uwrap8 v))
  pure (Go.uwrap8 id :: body)

/-- baseline.Encoder.writeDQT for `components` ∈ {1,3}: the DQT payloads in stream order -/
def baselineDQT (components quality : Int) : Option (List (List Int)) := do
  let t0 ← dqtPayload 0 (scaleQuantTable DefaultLuminanceQuantTable quality)
  if components == 3 then
    let t1 ← dqtPayload 1 (scaleQuantTable DefaultChrominanceQuantTable quality)
    pure [t0, t1]
  else pure [t0]

/-- Decoder.parseDQT (8-bit precision), first n iterations of `qtables[tq][ZigZag[i]] = int32(data[offset+i])` -/
def parseDQTn (n : Nat) (data : List Int) : Option (Array Int) :=
  (List.range n).foldlM (fun (t : Array Int) (i : Nat) => do
    let z ← getI ZigZag i
    let v ← data[i]?
    setI t z v) (Array.replicate 64 0)

/-- Decoder.parseDQT (8-bit precision): scatter the 64 bytes through ZigZag -/
def parseDQT8 (data : List Int) : Option (Array Int) := parseDQTn 64 data

/-- edge replication index -/
def edgeIdx (b x w : Int) : Int := min (b * 8 + x) (w - 1)

end Dct

/-!
  ## The integer DCT pair: 2-D glue around the GENERATED 1-D passes
  `Gen.JpegStd.DCTISlow.row/col`, `IDCTISlow.col/row` are the loop bodies of the row/column passes of
  standard.DCTISlow / IDCTISlow.  The loops themselves (`for y`, `for x`, stride 8, the element each
  result is stored to) are hand-written here and tied by the correspondence ops `jpg-fdct` / `jpg-idct`.
  int32 wrap-around is not modelled (8-bit inputs keep every intermediate below 2^31).
-/
namespace Dct
open Gen.JpegStd

def set8 (a : Array Int) (idx : List Int) (v : List Int) : Option (Array Int) :=
  (idx.zip v).foldlM (fun a (p : Int × Int) => setI a p.1 p.2) a

/-- standard.DCTISlow(input, 8, coef) for a 64-byte block -/
def fdct (blk : Array Int) : Option (Array Int) := do
  if blk.size ≠ 64 then none
  let data := blk.map (fun b => b - 128)
  let data ← (List.range 8).foldlM (fun (d : Array Int) (y : Nat) => do
    let row : Int := y * 8
    let (r0, r4, r2, r6, r7, r5, r3, r1) := DCTISlow.row 8 y (← getI d row) (← getI d (row + 7)) (← getI d (row + 1))
      (← getI d (row + 6)) (← getI d (row + 2)) (← getI d (row + 5)) (← getI d (row + 3)) (← getI d (row + 4))
    set8 d [row, row + 4, row + 2, row + 6, row + 7, row + 5, row + 3, row + 1] [r0, r4, r2, r6, r7, r5, r3, r1]) data
  (List.range 8).foldlM (fun (c : Array Int) (x : Nat) => do
    let x : Int := x
    let (c0, c32, c16, c48, c56, c40, c24, c8) := DCTISlow.col 8 x (← getI data x) (← getI data (56 + x)) (← getI data (8 + x))
      (← getI data (48 + x)) (← getI data (16 + x)) (← getI data (40 + x)) (← getI data (24 + x)) (← getI data (32 + x))
      0 0 0 0 0 0 0 0
    set8 c [x, 32 + x, 16 + x, 48 + x, 56 + x, 40 + x, 24 + x, 8 + x] [c0, c32, c16, c48, c56, c40, c24, c8])
    (Array.replicate 64 0)

/-- standard.IDCTISlow(coef, qtable, out, 8) -/
def idct (coef q : Array Int) : Option (Array Int) := do
  if coef.size ≠ 64 ∨ q.size ≠ 64 then none
  let ws ← (List.range 8).foldlM (fun (w : Array Int) (x : Nat) => do
    let x : Int := x
    let (w0, w56, w8, w48, w16, w40, w24, w32) := IDCTISlow.col 8 x
      (← getI coef (16 + x)) (← getI q (16 + x)) (← getI coef (48 + x)) (← getI q (48 + x))
      (← getI coef x) (← getI q x) (← getI coef (32 + x)) (← getI q (32 + x))
      (← getI coef (56 + x)) (← getI q (56 + x)) (← getI coef (40 + x)) (← getI q (40 + x))
      (← getI coef (24 + x)) (← getI q (24 + x)) (← getI coef (8 + x)) (← getI q (8 + x))
      0 0 0 0 0 0 0 0
    set8 w [x, 56 + x, 8 + x, 48 + x, 16 + x, 40 + x, 24 + x, 32 + x] [w0, w56, w8, w48, w16, w40, w24, w32])
    (Array.replicate 64 0)
  (List.range 8).foldlM (fun (o : Array Int) (y : Nat) => do
    let row : Int := y * 8
    let (o0, o7, o1, o6, o2, o5, o3, o4) := IDCTISlow.row 8 y (← getI ws (row + 2)) (← getI ws (row + 6)) (← getI ws row)
      (← getI ws (row + 4)) (← getI ws (row + 7)) (← getI ws (row + 5)) (← getI ws (row + 3)) (← getI ws (row + 1))
      0 0 0 0 0 0 0 0
    set8 o [row, row + 7, row + 1, row + 6, row + 2, row + 5, row + 3, row + 4] [o0, o7, o1, o6, o2, o5, o3, o4])
    (Array.replicate 64 0)

/-- quantizeBlock's quantiser loop over the generated body -/
def quantise (coef q : Array Int) : Array Int :=
  coef.zipWith (fun c qi => Gen.JpegBaseline.quantizeBlock.entry default 0 0 0 0 0 qi c) q

/-- one 8×8 block through encoder (DCT, quantiser) and decoder (dequantiser + IDCT) -/
def blockRoundTrip (blk q : Array Int) : Option (Array Int) := do
  let c ← fdct blk
  idct (quantise c q) q

/-- `8·(|d| − 2) ≤ Σ C(u)C(v)·Q[u,v]` with C(0) = 1/√2, stated exactly in integers:
    16(|d|−2) − Q00 − 2R ≤ √2·M  ⇔  X ≤ 0 ∨ X² ≤ 2M²  (R: u,v ≥ 1; M: exactly one of u,v zero) -/
def withinBound (d : Int) (q : Array Int) : Bool :=
  let idx := List.range 64
  let sumIf (p : Nat → Bool) : Int := (idx.filter p).foldl (fun s i => s + (q[i]?.getD 0)) 0
  let r := sumIf (fun i => i / 8 ≠ 0 && i % 8 ≠ 0)
  let m := sumIf (fun i => (i / 8 = 0) != (i % 8 = 0))
  let q00 := sumIf (fun i => i = 0)
  let x := 16 * ((d.natAbs : Int) - 2) - q00 - 2 * r
  decide (x ≤ 0) || decide (x * x ≤ 2 * m * m)

end Dct

/-!
  ## extended.detectBitDepth (since fix 12cadee): walk the marker segments by their length fields
  `detectLoop fuel rest` models one iteration of `for i := 2; i+3 < len(data); { … }` on `rest = data[i:]`
  (the loop runs while at least 4 bytes remain); `fuel` bounds the iterations by the input length
  (every iteration consumes at least one byte, so the bound is never reached).
-/
namespace Dct

def detectLoop : Nat → List Nat → Nat
  | 0, _ => 8
  | fuel + 1, b0 :: m :: l1 :: l2 :: rest =>
    if b0 ≠ 0xFF then 8
    else if m = 0xFF then detectLoop fuel (m :: l1 :: l2 :: rest)
    else if m = 0x01 ∨ (0xD0 ≤ m ∧ m ≤ 0xD7) then detectLoop fuel (l1 :: l2 :: rest)
    else if 0xC0 ≤ m ∧ m ≤ 0xC3 then
      (match rest with
       | p :: _ => if p = 12 then 12 else 8
       | [] => 8)
    else if m = 0xDA ∨ m = 0xD9 then 8
    else
      let length := l1 * 256 + l2
      if length < 2 then 8 else detectLoop fuel ((b0 :: m :: l1 :: l2 :: rest).drop (2 + length))
  | _ + 1, _ => 8

def detectBitDepth (data : List Nat) : Nat :=
  match data with
  | 0xFF :: 0xD8 :: rest => detectLoop data.length rest
  | _ => 8

/-- detectBitDepth BEFORE fix 12cadee (regression anchor of c11-ext12-bitdepth-sniff-dqt): raw byte scan,
    `for i := 0; i < len(data)-5; i++ { if data[i] == 0xff && 0xc0 <= data[i+1] <= 0xc3 { … data[i+4] … } }` -/
def detectBitDepthOld : List Nat → Nat
  | b0 :: m :: a :: b :: p :: r :: rest =>
    if b0 = 0xFF ∧ 0xC0 ≤ m ∧ m ≤ 0xC3 then (if p = 12 then 12 else 8)
    else detectBitDepthOld (m :: a :: b :: p :: r :: rest)
  | _ => 8

/-- header of the stream encodeSequential12 writes: SOI, JFIF APP0, DQT(quality), SOF1 (12-bit, w×h, 1 component) -/
def seq12Header (quality : Int) (w h : Nat) : Option (List Nat) := do
  let dqt ← dqtPayload 0 (scaleQuantTable Gen.JpegStd.DefaultLuminanceQuantTable quality)
  pure ([0xFF, 0xD8] ++ [0xFF, 0xE0, 0, 16, 74, 70, 73, 70, 0, 1, 1, 0, 0, 1, 0, 1, 0, 0] ++
    [0xFF, 0xDB, 0, 67] ++ dqt.map Int.toNat ++
    [0xFF, 0xC1, 0, 11, 12, h / 256, h % 256, w / 256, w % 256, 1, 1, 0x11, 0])

/-- a marker segment as the writers emit it: FF m, 16-bit length (payload + 2), payload -/
def segBytes (m : Nat) (payload : List Nat) : List Nat :=
  [0xFF, m, (payload.length + 2) / 256, (payload.length + 2) % 256] ++ payload

/-- markers that carry a length and are neither SOF0..3, SOS, EOI, TEM, RSTn nor a fill byte -/
def plainMarker (m : Nat) : Bool :=
  m != 0xFF && m != 0x01 && !(0xD0 ≤ m && m ≤ 0xD7) && !(0xC0 ≤ m && m ≤ 0xC3) && m != 0xDA && m != 0xD9

end Dct

/-!
  ## Huffman category coding of coefficients
  `HuffmanEncoder.EncodeCategory` (huffman_encoder.go): `cat = 1; for (1 << cat) <= absVal { cat++ }`, then
  `bits = val` (val > 0) or `(1 << cat) + val - 1` (val < 0).  `HuffmanDecoder.ReceiveExtend` (huffman.go), the
  EXTEND part: `if val < (1 << (ssss-1)) { val += (-1 << ssss) + 1 }`.  The loop is modelled with fuel 64
  (never reached for |val| < 2^62).
-/
namespace Dct

def catLoop (a : Nat) : Nat → Nat → Nat
  | 0, cat => cat
  | fuel + 1, cat => if 2 ^ cat ≤ a then catLoop a fuel (cat + 1) else cat

/-- EncodeCategory: (cat, bits) -/
def encodeCategory (v : Int) : Nat × Int :=
  if v = 0 then (0, 0) else
  let cat := catLoop v.natAbs 64 1
  (cat, if v > 0 then v else (2 : Int) ^ cat + v - 1)

/-- ReceiveExtend after `bits := ReadBits(ssss)` -/
def extend (ssss : Nat) (bits : Int) : Int :=
  if ssss = 0 then 0 else if bits < (2 : Int) ^ (ssss - 1) then bits + (-((2 : Int) ^ ssss) + 1) else bits

end Dct

/-!
  ## Functional form of the 2-D glue (the one the block-level theorem is about; tied by `jpg-fdct`, `jpg-idct`,
  `jpg-blockbound`): a block is a function row → column → value; the GENERATED 1-D passes are applied to the eight
  rows / columns exactly as the loops of DCTISlow / quantizeBlock / IDCTISlow do (stride 8).
-/
namespace Dct
open Gen.JpegStd Gen.JpegBaseline

abbrev T8 := Int × Int × Int × Int × Int × Int × Int × Int
abbrev Blk := Nat → Nat → Int

def sel8 : T8 → Nat → Int
  | (a, _, _, _, _, _, _, _), 0 => a
  | (_, b, _, _, _, _, _, _), 1 => b
  | (_, _, c, _, _, _, _, _), 2 => c
  | (_, _, _, d, _, _, _, _), 3 => d
  | (_, _, _, _, e, _, _, _), 4 => e
  | (_, _, _, _, _, f, _, _), 5 => f
  | (_, _, _, _, _, _, g, _), 6 => g
  | (_, _, _, _, _, _, _, h), _ => h

/-- position of frequency k in the result tuple of the forward passes (stored elements 0,4,2,6,7,5,3,1) -/
def fwdPos : Nat → Nat
  | 0 => 0 | 4 => 1 | 2 => 2 | 6 => 3 | 7 => 4 | 5 => 5 | 3 => 6 | _ => 7
/-- position of sample x in the result tuple of the inverse passes (stored elements 0,7,1,6,2,5,3,4) -/
def invPos : Nat → Nat
  | 0 => 0 | 7 => 1 | 1 => 2 | 6 => 3 | 2 => 4 | 5 => 5 | 3 => 6 | _ => 7

def rowF (d : Blk) : Blk := fun y k =>
  sel8 (DCTISlow.row 8 y (d y 0) (d y 7) (d y 1) (d y 6) (d y 2) (d y 5) (d y 3) (d y 4)) (fwdPos k)
def colF (r : Blk) : Blk := fun v k =>
  sel8 (DCTISlow.col 8 k (r 0 k) (r 7 k) (r 1 k) (r 6 k) (r 2 k) (r 5 k) (r 3 k) (r 4 k) 0 0 0 0 0 0 0 0) (fwdPos v)
def quantF (c q : Blk) : Blk := fun v k => quantizeBlock.entry default 0 0 0 0 ((v * 8 + k : Nat) : Int) (q v k) (c v k)
def icolF (qc q : Blk) : Blk := fun y k =>
  sel8 (IDCTISlow.col 8 k (qc 2 k) (q 2 k) (qc 6 k) (q 6 k) (qc 0 k) (q 0 k) (qc 4 k) (q 4 k)
    (qc 7 k) (q 7 k) (qc 5 k) (q 5 k) (qc 3 k) (q 3 k) (qc 1 k) (q 1 k) 0 0 0 0 0 0 0 0) (invPos y)
def irowF (ws : Blk) : Blk := fun y x =>
  sel8 (IDCTISlow.row 8 y (ws y 2) (ws y 6) (ws y 0) (ws y 4) (ws y 7) (ws y 5) (ws y 3) (ws y 1) 0 0 0 0 0 0 0 0) (invPos x)

/-- DCTISlow on a block of bytes (level shift, rows, columns) -/
def fdctF (blk : Blk) : Blk := colF (rowF (fun y j => blk y j - 128))
/-- IDCTISlow (dequantise + columns, rows, +128, clamp, byte) -/
def idctF (qc q : Blk) : Blk := irowF (icolF qc q)
/-- encoder block pipeline followed by the decoder block pipeline -/
def blockF (blk q : Blk) : Blk := idctF (quantF (fdctF blk) q) q

def sum7 (f : Nat → Int) : Int := f 1 + f 2 + f 3 + f 4 + f 5 + f 6 + f 7
/-- Σ of the table entries with exactly one zero frequency / with both frequencies non-zero -/
def Mq (q : Blk) : Int := sum7 (fun k => q 0 k) + sum7 (fun v => q v 0)
def Rq (q : Blk) : Int := sum7 (fun v => sum7 (fun k => q v k))

/-- the property's per-sample bound  8·(|δ| − 2) ≤ Σ C(u)C(v)·Q[u,v]  (C(0) = 1/√2), stated exactly in integers:
    X = 16(|δ|−2) − Q00 − 2R ≤ √2·M  ⇔  X ≤ 0 ∨ X² ≤ 2M² -/
def withinF (delta : Int) (q : Blk) : Prop :=
  16 * (Go.abs delta - 2) - q 0 0 - 2 * Rq q ≤ 0 ∨
  (16 * (Go.abs delta - 2) - q 0 0 - 2 * Rq q) * (16 * (Go.abs delta - 2) - q 0 0 - 2 * Rq q) ≤ 2 * (Mq q * Mq q)
instance (delta : Int) (q : Blk) : Decidable (withinF delta q) := by unfold withinF; infer_instance

/-- interface conversions (driver, image lift): row-major 64-entry arrays ↔ functions.  A table entry outside the
    array reads as 1, a sample outside as 0; the theorems only look at indices 0..7 × 0..7 of 64-entry arrays. -/
def blkOfArray (a : Array Int) : Blk := fun y x => (a[y * 8 + x]?).getD 0
def tableF (t : Array Int) : Blk := fun v k => (t[v * 8 + k]?).getD 1
def listOfBlk (b : Blk) : List Int := (List.range 64).map fun i => b (i / 8) (i % 8)

/-- Encoder.quantizeBlock's block extraction for a greyscale image `img row col` of `w × h` samples (stride = w):
    `block[y*8+x] = data[min(blockY*8+y, h-1)*stride + min(blockX*8+x, w-1)]` -/
def extractBlock (img : Blk) (w h : Int) (bx by' : Nat) : Blk :=
  fun y x => img (edgeIdx by' y h).toNat (edgeIdx bx x w).toNat

/-- the sample baseline.Decode shows at pixel (X,Y) of a greyscale image encoded with table q — block (X/8, Y/8),
    in-block position (Y%8, X%8) (convertToPixels, one component) — when the entropy coding layer returns the quantised
    coefficients unchanged (c15_ac_runlength_roundtrip, c11_category_roundtrip) -/
def decodedPixel (img : Blk) (w h : Int) (q : Blk) (X Y : Nat) : Int :=
  blockF (extractBlock img w h (X / 8) (Y / 8)) q (Y % 8) (X % 8)

end Dct

/-!
  ## RGB path of the baseline codec (4:4:4): planes, blocks, colour conversion
  `Encoder.rgbToYCbCr` builds three padded planes (`sourceRow = min(row, h-1)`, `sourceCol = min(col, w-1)`, the GENERATED
  per-pixel body), `encodeRGB`/`quantizeBlock` cut them into blocks with table 0 for Y and table 1 for Cb, Cr; the decoder
  rebuilds the planes block by block and `convertToPixels` applies the GENERATED `ycbcrToRGB` per pixel.
-/
namespace Dct
open Gen.JpegBaseline

/-- an RGB image: row → column → (r, g, b) -/
abbrev Rgb := Nat → Nat → Int × Int × Int

/-- component c (0 = Y, 1 = Cb, 2 = Cr) of the padded plane at (row, col) -/
def planeOf (img : Rgb) (w h : Int) (c : Nat) : Blk := fun row col =>
  let p := img (min (row : Int) (h - 1)).toNat (min (col : Int) (w - 1)).toNat
  let f := rgbToYCbCr.entry default row col (min (row : Int) (h - 1)) 0 p.1 p.2.fst p.2.snd 0 0 0
  match c with
  | 0 => f.1
  | 1 => f.2.fst
  | _ => f.2.snd

/-- block (bx, by) of a plane (the padded planes are whole blocks wide and high: no further replication) -/
def blockOfPlane (pl : Blk) (bx by' : Nat) : Blk := fun y x => pl (by' * 8 + y) (bx * 8 + x)

/-- the decoded plane sample at pixel (X, Y): the block pipeline with the component's table -/
def decodedPlane (pl q : Blk) (X Y : Nat) : Int := blockF (blockOfPlane pl (X / 8) (Y / 8)) q (Y % 8) (X % 8)

/-- what baseline.Decode shows at pixel (X, Y) of an RGB image encoded with tables qY (luminance), qC (chrominance) -/
def decodedRgb (img : Rgb) (w h : Int) (qY qC : Blk) (X Y : Nat) : Int × Int × Int :=
  ycbcrToRGB (decodedPlane (planeOf img w h 0) qY X Y) (decodedPlane (planeOf img w h 1) qC X Y)
    (decodedPlane (planeOf img w h 2) qC X Y)

end Dct
